/-
  Provenance of union members through `merge_field_sets`, and why a root field of `generate` is Optional
  (tightness, C02): every non-literal, non-`str` member of a merged field type is a member of the field's
  type in some set; a root field is Optional only if its key is absent from or `null` in some sample.
-/
import J2M.Proofs.MergeCalls
namespace J2M

/-- the type under a top-level `DOptional` -/
def Ty.stripOpt : Ty → Ty
  | .opt x => x
  | t => t

/-- `m` is a (flattened) union member of `t`, looking through a top-level `DOptional` -/
def MemIn (m t : Ty) : Prop := m ∈ flattenUnion t.stripOpt.unionMembers

theorem stripOpt_of_noOpt {t : Ty} (h : t.noOpt = true) : t.stripOpt = t := by
  cases t <;> first | rfl | (simp [Ty.noOpt] at h)

theorem mem_flatten_collapse {c : LitCfg} {ts : List Ty} {m : Ty}
    (h : m ∈ flattenUnion (collapse (mkUnionMembers c ts)).unionMembers) : m ∈ mkUnionMembers c ts := by
  have hnu := mkUnionMembers_nonunion c ts
  unfold collapse at h
  split at h
  · rename_i x he
    have hx : x.isUnion = false := hnu x (by rw [he]; exact List.mem_cons_self ..)
    rw [unionMembers_of_nonunion hx, flattenUnion_id (by simpa using hx)] at h
    rw [he]; exact h
  · simp only [Ty.unionMembers] at h
    rw [flattenUnion_id hnu] at h
    exact h

/-- a non-literal, non-`str` member of the collapsed union of `a` and `b` is a member of `a` or of `b` -/
theorem memIn_collapse_merge {c : LitCfg} {a b m : Ty} (hl : m.isLit = false) (hs : m ≠ .str)
    (h : m ∈ flattenUnion (collapse (mkUnionMembers c (a.unionMembers ++ b.unionMembers))).unionMembers) :
    m ∈ flattenUnion a.unionMembers ∨ m ∈ flattenUnion b.unionMembers := by
  have h1 := mem_flatten_collapse h
  rcases mkUnion_members_subset c _ m h1 with ⟨h2, _⟩ | ⟨vs, h2, _⟩ | ⟨h2, _⟩
  · rw [flattenUnion_append] at h2
    exact List.mem_append.1 h2
  · subst h2; simp [Ty.isLit] at hl
  · exact absurd h2 hs

/-- every binding of `k` whose type has member `m` justifies `T` -/
def Mk (m : Ty) (T : Prop) (k : String) (fs : Fields) : Prop := ∀ kv ∈ fs, kv.1 = k → MemIn m kv.2 → T

theorem mergeOne_M {c e first fs fs' name field} {m : Ty} {T : Prop} {k : String}
    (hl : m.isLit = false) (hs : m ≠ .str)
    (h : mergeOne c e first fs name field = .ok fs') (hM : Mk m T k fs) (hnb : FieldsNOBT fs)
    (hno : field.noOpt = true)
    (hf : name = k → m ∈ flattenUnion field.unionMembers → T) : Mk m T k fs' := by
  have hfield : field.stripOpt = field := stripOpt_of_noOpt hno
  rcases mergeOne_cases h with ⟨_, h2⟩ | ⟨orig, hg, h2 | ⟨oi, ho, h2⟩ | ⟨_, h2⟩ | ⟨_, ⟨fi, hfi, _⟩, h2⟩⟩
  rotate_left 4
  · subst hfi; simp [Ty.noOpt] at hno
  · subst h2
    intro kv hkv hk hm
    rcases Fields.mem_set hkv with h3 | h3
    · subst h3
      simp only at hk hm
      apply hf hk
      split at hm
      · simpa [MemIn, hfield] using hm
      · exact hm
    · exact hM kv h3 hk hm
  · subst h2; exact hM
  · subst h2
    intro kv hkv hk hm
    rcases Fields.mem_set hkv with h3 | h3
    · subst h3
      simp only at hk hm
      rcases memIn_collapse_merge hl hs hm with h4 | h4
      · exact hf hk h4
      · refine hM _ (Fields.get?_mem hg) hk ?_
        rw [ho]; exact h4
    · exact hM kv h3 hk hm
  · rename_i hnoOrig
    subst h2
    intro kv hkv hk hm
    rcases Fields.mem_set hkv with h3 | h3
    · subst h3
      simp only at hk hm
      have horig : orig.noOpt = true :=
        noOptBelowTop_nonopt (hnb _ (Fields.get?_mem hg)) hnoOrig
      rw [MemIn, stripOpt_of_noOpt (noOpt_collapse_merge hno horig)] at hm
      rcases memIn_collapse_merge hl hs hm with h4 | h4
      · exact hf hk h4
      · refine hM _ (Fields.get?_mem hg) hk ?_
        rw [MemIn, stripOpt_of_noOpt horig]; exact h4
    · exact hM kv h3 hk hm

theorem mergeItems_M {c e first fs mdl r} {m : Ty} {T : Prop} {k : String}
    (hl : m.isLit = false) (hs : m ≠ .str)
    (h : mergeItems c e first fs mdl = .ok r) (hM : Mk m T k fs) (hnb : FieldsNOBT fs)
    (hno : ∀ kv ∈ mdl, kv.2.noOpt = true)
    (hf : ∀ kv ∈ mdl, kv.1 = k → m ∈ flattenUnion kv.2.unionMembers → T) : Mk m T k r := by
  induction mdl generalizing fs with
  | nil => rw [mergeItems_nil, Except.ok.injEq] at h; subst h; exact hM
  | cons kv mdl ih =>
    obtain ⟨fs', h1, h2⟩ := mergeItems_cons.1 h
    exact ih h2
      (mergeOne_M hl hs h1 hM hnb (hno kv (List.mem_cons_self ..)) (hf kv (List.mem_cons_self ..)))
      (mergeOne_nobt h1 hnb (hno kv (List.mem_cons_self ..)))
      (fun kv' h' => hno kv' (List.mem_cons_of_mem _ h'))
      (fun kv' h' => hf kv' (List.mem_cons_of_mem _ h'))

theorem mergeStep_M {c e first fields mdl r} {m : Ty} {T : Prop} {k : String}
    (hl : m.isLit = false) (hs : m ≠ .str)
    (h : mergeStep c e first fields mdl = .ok r) (hM : Mk m T k fields) (hnb : FieldsNOBT fields)
    (hno : ∀ kv ∈ mdl, kv.2.noOpt = true)
    (hf : ∀ kv ∈ mdl, kv.1 = k → m ∈ flattenUnion kv.2.unionMembers → T) : Mk m T k r := by
  obtain ⟨fs1, h1, h2⟩ := mergeStep_eq.1 h
  subst h2
  have hM1 := mergeItems_M hl hs h1 hM hnb hno hf
  have hnb1 := mergeItems_nobt h1 hnb hno
  intro kv hkv hk hm
  obtain ⟨kv0, h0, rfl⟩ := List.mem_map.1 hkv
  rw [wrapMissing_fst] at hk
  apply hM1 kv0 h0 hk
  unfold wrapMissing at hm
  split at hm
  · rename_i hc
    have hnoOpt : kv0.2.isOpt = false := by
      cases hh : kv0.2.isOpt
      · rfl
      · simp [hh] at hc
    have := noOptBelowTop_nonopt (hnb1 kv0 h0) hnoOpt
    rw [MemIn, stripOpt_of_noOpt this]
    exact hm
  · exact hm

theorem go_M {c e first fields sets r} {m : Ty} {T : Prop} {k : String}
    (hl : m.isLit = false) (hs : m ≠ .str)
    (h : mergeFieldSets.go c e first fields sets = .ok r) (hM : Mk m T k fields) (hnb : FieldsNOBT fields)
    (hno : SetsNoOpt sets)
    (hf : ∀ fs ∈ sets, ∀ kv ∈ fs, kv.1 = k → m ∈ flattenUnion kv.2.unionMembers → T) : Mk m T k r := by
  induction sets generalizing first fields with
  | nil => simp [mergeFieldSets.go, pure, Except.pure] at h; subst h; exact hM
  | cons mdl ms ih =>
    rw [mergeFieldSets.go, Except.bind_ok_iff] at h
    obtain ⟨f1, h1, h2⟩ := h
    exact ih h2
      (mergeStep_M hl hs h1 hM hnb (hno mdl (List.mem_cons_self ..)) (hf mdl (List.mem_cons_self ..)))
      (mergeStep_nobt h1 hnb (hno mdl (List.mem_cons_self ..)))
      (fun m' h' => hno m' (List.mem_cons_of_mem _ h'))
      (fun m' h' => hf m' (List.mem_cons_of_mem _ h'))

/--
  **member provenance** (tightness of unions built by `merge_field_sets`, on opt-free sets): a
  non-literal, non-`str` union member of the merged type of `k` is a union member of the type of `k`
  in some set.
-/
theorem mergeFieldSets_member_provenance {c e sets r} (h : mergeFieldSets c e sets = .ok r)
    (hno : SetsNoOpt sets) {k : String} {t m : Ty} (hm : (k, t) ∈ r)
    (hmem : MemIn m t) (hl : m.isLit = false) (hs : m ≠ .str) :
    ∃ fs ∈ sets, ∃ u, (k, u) ∈ fs ∧ m ∈ flattenUnion u.unionMembers := by
  unfold mergeFieldSets at h
  have := go_M (m := m) (k := k)
    (T := ∃ fs ∈ sets, ∃ u, (k, u) ∈ fs ∧ m ∈ flattenUnion u.unionMembers) hl hs h
    (by intro kv hkv; simp at hkv) (by intro kv hkv; simp at hkv) hno
    (by
      intro fs hfs kv hkv hk hmm
      exact ⟨fs, hfs, kv.2, by rw [← hk]; exact hkv, hmm⟩)
  exact this _ hm rfl hmem

/-! ### the top constructor of `detect` output -/

theorem detect_top {cfg o cd v t} (h : detect cfg o cd v = .ok t) :
    t.isUnion = false ∧ (t = .null → v = .null) := by
  cases v with
  | arr xs =>
    cases xs with
    | nil => simp [detect, pure, Except.pure] at h; subst h; simp [Ty.isUnion]
    | cons x xs =>
      obtain ⟨ts, _, h2⟩ := detect_arr_cons h
      obtain ⟨T, hT⟩ := wrapElems_cases cfg.lit .list ts
      rw [hT] at h2; subst h2; simp [Ty.isUnion]
  | obj kvs =>
    cases kvs with
    | nil => simp [detect, pure, Except.pure] at h; subst h; simp [Ty.isUnion]
    | cons kv kvs =>
      obtain ⟨rx, _, hcase⟩ := detect_obj_cons h
      rcases hcase with ⟨_, _, fs, _, ht⟩ | ⟨_, ts, _, ht⟩
      · subst ht; simp [Ty.isUnion]
      · obtain ⟨T, hT⟩ := wrapElems_cases cfg.lit .dict ts
        rw [hT] at ht; subst ht; simp [Ty.isUnion]
  | str s =>
    rw [detect, Except.bind_ok_iff] at h
    obtain ⟨r, _, h⟩ := h
    cases r with
    | none =>
      rw [Except.pure_ok_iff] at h; subst h
      unfold mkLit; split <;> simp [Ty.isUnion]
    | some k => rw [Except.pure_ok_iff] at h; subst h; simp [Ty.isUnion]
  | null => simp [detect, pure, Except.pure] at h; subst h; simp [Ty.isUnion]
  | bool b => simp [detect, pure, Except.pure] at h; subst h; simp [Ty.isUnion]
  | int i => simp [detect, pure, Except.pure] at h; subst h; simp [Ty.isUnion]
  | float x => simp [detect, pure, Except.pure] at h; subst h; simp [Ty.isUnion]

/-! ### a generic "every merged field type satisfies `Q`" -/

theorem mergeFieldSets_pred {Q : Ty → Prop} {c : LitCfg}
    (hQ1 : ∀ t, Q t → t.isOpt = false → Q (.opt t))
    (hQ2 : ∀ ts, Q (collapse (mkUnionMembers c ts)))
    (hQ3 : ∀ ts, Q (.opt (collapse (mkUnionMembers c ts))))
    {e sets r} (h : mergeFieldSets c e sets = .ok r)
    (hs : ∀ fs ∈ sets, ∀ kv ∈ fs, Q kv.2) : ∀ kv ∈ r, Q kv.2 := by
  have one : ∀ {first fs fs' name field}, mergeOne c e first fs name field = .ok fs' →
      (∀ kv ∈ fs, Q kv.2) → Q field → ∀ kv ∈ fs', Q kv.2 := by
    intro first fs fs' name field h hfs hf
    have hset : ∀ v, Q v → ∀ kv ∈ fs.set name v, Q kv.2 := by
      intro v hv kv hkv
      rcases Fields.mem_set hkv with h1 | h1
      · subst h1; exact hv
      · exact hfs kv h1
    rcases mergeOne_cases h with ⟨_, h2⟩ | ⟨orig, hg, h2 | ⟨oi, ho, h2⟩ | ⟨_, h2⟩ | ⟨_, _, h2⟩⟩
    rotate_left 4
    · subst h2; exact hset _ hf
    · subst h2
      apply hset
      cases hfo : field.isOpt
      · cases first
        · simpa [hfo] using hQ1 field hf hfo
        · simpa using hf
      · simpa [hfo] using hf
    · subst h2; exact hfs
    · subst h2; exact hset _ (hQ3 _)
    · subst h2; exact hset _ (hQ2 _)
  have items : ∀ {first mdl fs r'}, mergeItems c e first fs mdl = .ok r' →
      (∀ kv ∈ fs, Q kv.2) → (∀ kv ∈ mdl, Q kv.2) → ∀ kv ∈ r', Q kv.2 := by
    intro first mdl
    induction mdl with
    | nil => intro fs r' h hfs _; rw [mergeItems_nil, Except.ok.injEq] at h; subst h; exact hfs
    | cons kv mdl ih =>
      intro fs r' h hfs hm
      obtain ⟨fs', h1, h2⟩ := mergeItems_cons.1 h
      exact ih h2 (one h1 hfs (hm kv (List.mem_cons_self ..)))
        (fun kv' h' => hm kv' (List.mem_cons_of_mem _ h'))
  have step : ∀ {first fields mdl r'}, mergeStep c e first fields mdl = .ok r' →
      (∀ kv ∈ fields, Q kv.2) → (∀ kv ∈ mdl, Q kv.2) → ∀ kv ∈ r', Q kv.2 := by
    intro first fields mdl r' h hfs hm
    obtain ⟨fs1, h1, h2⟩ := mergeStep_eq.1 h
    subst h2
    intro kv hkv
    obtain ⟨kv0, h0, rfl⟩ := List.mem_map.1 hkv
    have := items h1 hfs hm kv0 h0
    unfold wrapMissing
    split
    · rename_i hc
      have hno : kv0.2.isOpt = false := by
        cases hh : kv0.2.isOpt
        · rfl
        · simp [hh] at hc
      exact hQ1 _ this hno
    · exact this
  unfold mergeFieldSets at h
  have go : ∀ {sets first fields r'}, mergeFieldSets.go c e first fields sets = .ok r' →
      (∀ kv ∈ fields, Q kv.2) → (∀ fs ∈ sets, ∀ kv ∈ fs, Q kv.2) → ∀ kv ∈ r', Q kv.2 := by
    intro sets
    induction sets with
    | nil =>
      intro first fields r' h hfs _
      simp [mergeFieldSets.go, pure, Except.pure] at h; subst h; exact hfs
    | cons mdl ms ih =>
      intro first fields r' h hfs hs
      rw [mergeFieldSets.go, Except.bind_ok_iff] at h
      obtain ⟨f1, h1, h2⟩ := h
      exact ih h2 (step h1 hfs (hs mdl (List.mem_cons_self ..)))
        (fun m' h' => hs m' (List.mem_cons_of_mem _ h'))
  exact go h (by intro kv hkv; simp at hkv) hs

/-- `t` is optional, or its union members are not unions themselves -/
def Ty.optOrFlat (t : Ty) : Prop := t.isOpt = true ∨ ∀ m ∈ t.unionMembers, m.isUnion = false

theorem optOrFlat_collapse (c : LitCfg) (ts : List Ty) : (collapse (mkUnionMembers c ts)).optOrFlat := by
  have hnu := mkUnionMembers_nonunion c ts
  right
  unfold collapse
  split
  · rename_i x he
    have hx : x.isUnion = false := hnu x (by rw [he]; exact List.mem_cons_self ..)
    rw [unionMembers_of_nonunion hx]
    simpa using hx
  · exact hnu

theorem mergeFieldSets_optOrFlat {c e sets r} (h : mergeFieldSets c e sets = .ok r)
    (hs : ∀ fs ∈ sets, ∀ kv ∈ fs, kv.2.isUnion = false) : ∀ kv ∈ r, kv.2.optOrFlat := by
  apply mergeFieldSets_pred (Q := Ty.optOrFlat) (fun t _ _ => .inl rfl) (optOrFlat_collapse c)
    (fun _ => .inl rfl) h
  intro fs hfs kv hkv
  right
  rw [unionMembers_of_nonunion (hs fs hfs kv hkv)]
  simpa using hs fs hfs kv hkv

/-! ### when `optimize_type` produces `Null` / `DOptional` / `DUnion` at the top -/

/-- on a non-union input, `optimize_type` keeps the top constructor class -/
theorem optimize_nonunion_top {cfg : GenCfg} {e : EqEnv} {n : Nat} {x y : Ty}
    (h : optimize cfg e n x = .ok y) (hx : x.isUnion = false) :
    y.isUnion = false ∧ (y.isNull = true → x = .null) ∧ (y.isOpt = true → x.isOpt = true) := by
  cases n with
  | zero => simp [optimize] at h
  | succ n =>
    cases x with
    | obj fs =>
      obtain ⟨m, fs', _, rfl, _, _⟩ := optimize_obj h
      simp [Ty.isUnion, Ty.isNull, Ty.isOpt]
    | union ts => simp [Ty.isUnion] at hx
    | opt z =>
      rw [optimize, Except.bind_ok_iff] at h
      obtain ⟨y', _, h⟩ := h
      split at h <;> (rw [Except.pure_ok_iff] at h; subst h; simp [Ty.isUnion, Ty.isNull, Ty.isOpt])
    | list z =>
      rw [optimize, Except.bind_ok_iff] at h
      obtain ⟨y', _, h⟩ := h
      rw [Except.pure_ok_iff] at h; subst h; simp [Ty.isUnion, Ty.isNull, Ty.isOpt]
    | dict z =>
      rw [optimize, Except.bind_ok_iff] at h
      obtain ⟨y', _, h⟩ := h
      rw [Except.pure_ok_iff] at h; subst h; simp [Ty.isUnion, Ty.isNull, Ty.isOpt]
    | tuple ts =>
      rw [optimize, Except.bind_ok_iff] at h
      obtain ⟨y', _, h⟩ := h
      rw [Except.pure_ok_iff] at h; subst h; simp [Ty.isUnion, Ty.isNull, Ty.isOpt]
    | lit ov vs =>
      rw [optimize] at h
      split at h <;> (rw [Except.pure_ok_iff] at h; subst h; simp [Ty.isUnion, Ty.isNull, Ty.isOpt])
    | _ => (simp [optimize, pure, Except.pure] at h; subst h; simp [Ty.isUnion, Ty.isNull, Ty.isOpt])

theorem hidden_false_of_noOpt {t : Ty} (h : t.noOpt = true) (hu : t.isUnion = false) :
    SplitW.hidden t = false := by
  cases t <;> simp_all [SplitW.hidden, Ty.noOpt, Ty.isUnion]

/-- on opt-free members that are not unions themselves, the `other` category holds members only
    (a member `.union ms` is spliced by the worklist: then `other` holds members of `ms`) -/
theorem splitMembers_other_subset {reg : StrRegistry} {ts : List Ty} (h : ∀ t ∈ ts, t.noOpt = true)
    (hu : ∀ t ∈ ts, t.isUnion = false) :
    ∀ t ∈ (splitMembers reg ts).other, t ∈ ts := by
  rw [splitMembers_plain reg (fun t ht => hidden_false_of_noOpt (h t ht) (hu t ht))]
  suffices hs : ∀ (l : List Ty) (s : Split), (∀ t ∈ l, t ∈ ts) → (∀ t ∈ s.other, t ∈ ts) →
      ∀ t ∈ (l.foldl (splitStep reg) s).other, t ∈ ts from
    hs ts {} (fun _ h => h) (by intro t ht; simp at ht)
  intro l
  induction l with
  | nil => intro s _ hs; exact hs
  | cons x l ih =>
    intro s hl hs
    apply ih _ (fun t ht => hl t (List.mem_cons_of_mem _ ht))
    have hx : x ∈ ts := hl x (List.mem_cons_self ..)
    have hno := h x hx
    rw [splitStep_eq]
    cases x with
    | opt z => simp [Ty.noOpt] at hno
    | ser k =>
      show ∀ t ∈ (if reg.types.contains k then _ else _ : Split).other, t ∈ ts
      split
      · exact hs
      · exact forall_mem_append_singleton hs hx
    | obj fs => exact hs
    | str => exact hs
    | list z => exact hs
    | dict z => exact hs
    | _ => exact forall_mem_append_singleton hs hx

/-- elements of `unionOther` on flat, opt-free members: never unions, never optional, and `Null` only
    if `Null` is a member -/
theorem unionOther_elems {cfg : GenCfg} {e : EqEnv} {ts other : List Ty}
    (hm : ∀ m ∈ ts, m.noOpt = true ∧ m.isUnion = false) (h : unionOther cfg e ts = .ok other) :
    ∀ x ∈ other, x.isUnion = false ∧ x.isOpt = false ∧ (x = .null → Ty.null ∈ ts) := by
  have hsub := splitMembers_other_subset (reg := cfg.reg) (fun t ht => (hm t ht).1) (fun t ht => (hm t ht).2)
  have hmem : ∀ x ∈ ts, x.isUnion = false ∧ x.isOpt = false ∧ (x = .null → Ty.null ∈ ts) := by
    intro x hx
    refine ⟨(hm x hx).2, ?_, fun e => e ▸ hx⟩
    have := (hm x hx).1
    cases x <;> simp [Ty.noOpt] at this <;> rfl
  unfold unionOther at h
  dsimp only at h
  generalize splitMembers cfg.reg ts = s at h hsub
  rw [Except.bind_ok_iff] at h
  obtain ⟨other1, h1, h⟩ := h
  have ho0 : ∀ t ∈ (if (s.other.any Ty.isInt && s.other.any Ty.isFloat) = true then
      removeFirst Ty.isInt s.other else s.other),
      t.isUnion = false ∧ t.isOpt = false ∧ (t = .null → Ty.null ∈ ts) := by
    split
    · exact fun t ht => hmem t (hsub t (removeFirst_subset t ht))
    · exact fun t ht => hmem t (hsub t ht)
  have ho1 : ∀ t ∈ other1, t.isUnion = false ∧ t.isOpt = false ∧ (t = .null → Ty.null ∈ ts) := by
    split at h1
    · rw [Except.pure_ok_iff] at h1; subst h1; exact ho0
    · rw [Except.bind_ok_iff] at h1
      obtain ⟨m, _, h1⟩ := h1
      rw [Except.pure_ok_iff] at h1; subst h1
      exact forall_mem_append_singleton ho0 ⟨rfl, rfl, fun e => by cases e⟩
  have ho2 : ∀ t ∈ (if s.lists.isEmpty = true then other1
      else other1 ++ [(mkUnion cfg.lit s.lists).list]),
      t.isUnion = false ∧ t.isOpt = false ∧ (t = .null → Ty.null ∈ ts) := by
    split
    · exact ho1
    · exact forall_mem_append_singleton ho1 ⟨rfl, rfl, fun e => by cases e⟩
  generalize (if s.lists.isEmpty = true then other1
      else other1 ++ [(mkUnion cfg.lit s.lists).list]) = other2 at h ho2
  have ho3 : ∀ t ∈ (if s.dicts.isEmpty = true then other2
      else other2 ++ [(mkUnion cfg.lit s.dicts).dict]),
      t.isUnion = false ∧ t.isOpt = false ∧ (t = .null → Ty.null ∈ ts) := by
    split
    · exact ho2
    · exact forall_mem_append_singleton ho2 ⟨rfl, rfl, fun e => by cases e⟩
  generalize (if s.dicts.isEmpty = true then other2
      else other2 ++ [(mkUnion cfg.lit s.dicts).dict]) = other3 at h ho3
  split at h
  · rw [Except.pure_ok_iff] at h; subst h
    exact forall_mem_append_singleton ho3 ⟨rfl, rfl, fun e => by cases e⟩
  · split at h
    · rw [Except.pure_ok_iff] at h; subst h; exact ho3
    · rw [Except.bind_ok_iff] at h
      obtain ⟨r, _, h⟩ := h
      split at h
      · rw [Except.pure_ok_iff] at h; subst h
        exact forall_mem_append_singleton ho3 ⟨rfl, rfl, fun e => by cases e⟩
      · cases h
      · rw [Except.pure_ok_iff] at h; subst h
        exact forall_mem_append_singleton ho3 ⟨rfl, rfl, fun e => by cases e⟩

/-- `_optimize_union` of a flat opt-free union is Optional only if `Null` is one of the members -/
theorem optimizeUnion_opt_null {cfg : GenCfg} {e : EqEnv} {n : Nat} {us : List Ty} {y : Ty}
    (h : optimizeUnion cfg e n us = .ok y)
    (hm : ∀ m ∈ us, m.noOpt = true ∧ m.isUnion = false) (hy : y.isOpt = true) : Ty.null ∈ us := by
  cases n with
  | zero => simp [optimizeUnion] at h
  | succ n =>
    rw [optimizeUnion_eq, Except.bind_ok_iff] at h
    obtain ⟨other, ho, h⟩ := h
    rw [Except.bind_ok_iff] at h
    obtain ⟨types, htm, h⟩ := h
    have hel := unionOther_elems hm ho
    have hty : ∀ y' ∈ types, y'.isUnion = false ∧ y'.isOpt = false ∧ (y'.isNull = true → Ty.null ∈ us) := by
      intro y' hy'
      obtain ⟨x, hx, hxo⟩ := mapM_ok_mem htm hy'
      obtain ⟨h1, h2, h3⟩ := optimize_nonunion_top hxo (hel x hx).1
      refine ⟨h1, ?_, fun hn => (hel x hx).2.2 (h2 hn)⟩
      cases hyo : y'.isOpt
      · rfl
      · have := h3 hyo; rw [(hel x hx).2.1] at this; cases this
    unfold unionFinish at h
    split at h
    · cases h
    · rename_i t
      rw [Except.pure_ok_iff] at h; subst h
      have := (hty t (List.mem_cons_self ..)).2.1
      rw [this] at hy; cases hy
    · rw [Except.pure_ok_iff] at h
      have ht1 : ∀ t ∈ (if types.any Ty.isUnknown = true then removeFirst Ty.isUnknown types else types),
          t ∈ types := by
        split
        · exact fun t h' => removeFirst_subset t h'
        · exact fun t h' => h'
      generalize (if types.any Ty.isUnknown = true then removeFirst Ty.isUnknown types else types) = types1
        at h ht1
      split at h
      · rename_i hopt
        obtain ⟨t, ht, htn⟩ := List.any_eq_true.1 hopt
        exact (hty t (ht1 t ht)).2.2 htn
      · subst h
        exfalso
        have hfl : ∀ t ∈ types1.filter (fun t => !t.isNull), t.isUnion = false ∧ t.isOpt = false :=
          fun t ht => ⟨(hty t (ht1 t (List.mem_filter.1 ht).1)).1, (hty t (ht1 t (List.mem_filter.1 ht).1)).2.1⟩
        have hmem : ∀ u ∈ mkUnionMembers cfg.lit (types1.filter (fun t => !t.isNull)), u.isOpt = false := by
          intro u hu
          cases huo : u.isOpt
          · rfl
          · have := mkUnionMembers_opt_mem hu huo
            rw [flattenUnion_id (fun t ht => (hfl t ht).1)] at this
            rw [(hfl u this).2] at huo; cases huo
        split at hy
        · simp [Ty.isOpt] at hy
        · rename_i t he
          rw [hmem t (by rw [he]; exact List.mem_cons_self ..)] at hy; cases hy
        · simp [Ty.isOpt] at hy

/-! ### why a root field of `generate` is Optional -/

theorem generate_opt_only_if_aux {cfg : GenCfg} {o : GenOracles} {samples : List Json} {fs : Fields}
    (h : generate cfg o samples = .ok (.obj fs)) {k : String} {t : Ty} (hm : (k, t) ∈ fs)
    (hopt : t.isOpt = true) :
    (∃ kvs, Json.obj kvs ∈ samples ∧ k ∉ kvs.map (·.1)) ∨
    (∃ kvs, Json.obj kvs ∈ samples ∧ (k, Json.null) ∈ kvs) := by
  unfold generate at h
  rw [Except.bind_ok_iff] at h
  obtain ⟨sets, h1, h⟩ := h
  rw [Except.bind_ok_iff] at h
  obtain ⟨fields, h2, h⟩ := h
  obtain ⟨n, fs', _, ht, _, hr⟩ := optimize_obj h
  cases ht
  obtain ⟨⟨k0, t0⟩, hm0, hk0, ho⟩ := forall₂_mem_right hr hm
  simp only at hk0 ho
  subst hk0
  -- facts about the converted sets
  have hsets : ∀ s ∈ sets, ∃ kvs, Json.obj kvs ∈ samples ∧ convertFields cfg o kvs = .ok s := by
    intro s hs
    obtain ⟨v, hv, hc⟩ := mapM_ok_mem h1 hs
    obtain ⟨kvs, rfl, hcf⟩ := convert_ok hc
    exact ⟨kvs, hv, hcf⟩
  have hno : SetsNoOpt sets := by
    intro s hs kv hkv
    obtain ⟨kvs, _, hc⟩ := hsets s hs
    exact (convertFields_raw hc kv hkv).2
  have hnu : ∀ s ∈ sets, ∀ kv ∈ s, kv.2.isUnion = false := by
    intro s hs kv hkv
    obtain ⟨kvs, _, hc⟩ := hsets s hs
    obtain ⟨a, _, _, hd⟩ := forall₂_mem_right (convertFields_ok hc) hkv
    exact (detect_top hd).1
  by_cases habs : AbsentIn sets k
  · left
    obtain ⟨s, hs, hk⟩ := habs
    obtain ⟨kvs, hv, hc⟩ := hsets s hs
    exact ⟨kvs, hv, by rw [← convertFields_keys hc]; exact hk⟩
  · right
    -- the merged type of `k` is not optional, opt-free and a flat union
    have hnot : t0.isOpt = false := by
      cases hh : t0.isOpt
      · rfl
      · exact absurd ((mergeFieldSets_opt_iff_of_optFree h2 hno.optFree hm0).1 hh) habs
    have hnoOpt : t0.noOpt = true := noOptBelowTop_nonopt (mergeFieldSets_nobt h2 hno _ hm0) hnot
    have hflat : ∀ m ∈ t0.unionMembers, m.isUnion = false := by
      rcases mergeFieldSets_optOrFlat h2 hnu _ hm0 with h3 | h3
      · rw [hnot] at h3; cases h3
      · exact h3
    -- so it must be a union with a `Null` member
    have hnull : Ty.null ∈ flattenUnion t0.unionMembers := by
      cases hu : t0.isUnion
      · have := (optimize_nonunion_top ho hu).2.2 hopt
        rw [hnot] at this; cases this
      · cases t0 <;> simp [Ty.isUnion] at hu
        rename_i us
        cases n with
        | zero => simp [optimize] at ho
        | succ n =>
          rw [optimize] at ho
          simp only [Ty.unionMembers] at hflat ⊢
          rw [flattenUnion_id hflat]
          exact optimizeUnion_opt_null ho
            (fun m hm => ⟨noOpt_union.1 hnoOpt m hm, hflat m hm⟩) hopt
    -- provenance of that member
    have hmemIn : MemIn .null t0 := by
      rw [MemIn, stripOpt_of_noOpt hnoOpt]; exact hnull
    obtain ⟨s, hs, u, hu, hmu⟩ :=
      mergeFieldSets_member_provenance h2 hno hm0 hmemIn rfl (by simp)
    obtain ⟨kvs, hv, hc⟩ := hsets s hs
    obtain ⟨⟨k', x⟩, hkx, hk', hd⟩ := forall₂_mem_right (convertFields_ok hc) hu
    simp only at hk' hd
    subst hk'
    have hunu := (detect_top hd).1
    rw [unionMembers_of_nonunion hunu, flattenUnion_id (by simpa using hunu)] at hmu
    have : u = .null := (List.mem_singleton.1 hmu).symm
    have hx := (detect_top hd).2 this
    subst hx
    exact ⟨kvs, hv, hkx⟩

end J2M
