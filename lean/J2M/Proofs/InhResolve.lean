/-
  C01 helpers, part 6: `StringSerializableRegistry.resolve` — every input kind is, through a chain of
  `replaces` steps, below some kind of the result (needs an acyclic `replaces` relation).
-/
import J2M.Proofs.Inh
namespace J2M

/-- reflexive-transitive closure of "`a` is replaced by `b`" -/
inductive ReplStar (reg : StrRegistry) : String → String → Prop
  | refl {a} : ReplStar reg a a
  | step {a b c} : (a, b) ∈ reg.replaces → ReplStar reg b c → ReplStar reg a c

theorem ReplStar.trans {reg : StrRegistry} {a b c : String}
    (h1 : ReplStar reg a b) (h2 : ReplStar reg b c) : ReplStar reg a c := by
  induction h1 with
  | refl => exact h2
  | step hab _ ih => exact ReplStar.step hab (ih h2)

theorem ReplStar.accepts {acc : Accepts} {reg : StrRegistry} (hr : ReplacesSound acc reg) {a b : String}
    (h : ReplStar reg a b) {s : String} (ha : acc a s = some true) : acc b s = some true := by
  induction h with
  | refl => exact ha
  | step hab _ ih => exact ih (hr _ _ hab s ha)

theorem mem_dedupStrX {a : String} {xs : List String} : a ∈ dedupStr xs ↔ a ∈ xs := by
  have : ∀ (xs init : List String),
      a ∈ xs.foldl (fun acc x => if acc.contains x then acc else acc ++ [x]) init ↔ a ∈ init ∨ a ∈ xs := by
    intro xs
    induction xs with
    | nil => simp
    | cons x xs ih =>
      intro init
      rw [List.foldl_cons, ih]
      by_cases hc : init.contains x = true
      · simp only [hc, if_true, List.mem_cons]
        have : x ∈ init := by simpa using hc
        constructor
        · rintro (h | h) <;> simp [h]
        · rintro (h | h | h)
          · exact Or.inl h
          · subst h; exact Or.inl this
          · exact Or.inr h
      · simp only [hc, List.mem_cons]
        simp only [Bool.false_eq_true, if_false, List.mem_append, List.mem_singleton]
        constructor
        · rintro ((h | h) | h) <;> simp [h]
        · rintro (h | h | h) <;> simp [h]
  simpa [dedupStr] using this xs []

theorem mem_replacedIn {reg : StrRegistry} {ts : List String} {t1 : String} :
    t1 ∈ replacedIn reg ts ↔ t1 ∈ ts ∧ ∃ t2 ∈ ts, t1 ≠ t2 ∧ (t1, t2) ∈ reg.replaces := by
  simp [replacedIn, List.mem_filter, List.any_eq_true]

theorem exists_rank_bound (rank : String → Nat) : ∀ l : List String, ∃ B, ∀ x ∈ l, rank x ≤ B := by
  intro l
  induction l with
  | nil => exact ⟨0, by simp⟩
  | cons a l ih =>
    obtain ⟨B, hB⟩ := ih
    refine ⟨max B (rank a), ?_⟩
    intro x hx
    rcases List.mem_cons.1 hx with e | hx
    · subst e; exact Nat.le_max_right _ _
    · exact Nat.le_trans (hB x hx) (Nat.le_max_left _ _)

/-- one round: every kind reaches a kind that is not replaced by another member -/
theorem round_covers {reg : StrRegistry} (hrank : ReplacesRanked reg) (ts : List String) :
    ∀ k ∈ ts, ∃ k' ∈ ts, k' ∉ replacedIn reg ts ∧ ReplStar reg k k' := by
  obtain ⟨rank, hr⟩ := hrank
  obtain ⟨B, hB⟩ := exists_rank_bound rank ts
  have key : ∀ n k, k ∈ ts → B ≤ rank k + n →
      ∃ k' ∈ ts, k' ∉ replacedIn reg ts ∧ ReplStar reg k k' := by
    intro n
    induction n with
    | zero =>
      intro k hk hb
      refine ⟨k, hk, ?_, ReplStar.refl⟩
      intro hrep
      obtain ⟨_, t2, ht2, _, hp⟩ := mem_replacedIn.1 hrep
      have := hr _ hp
      have := hB t2 ht2
      simp at *; omega
    | succ n ih =>
      intro k hk hb
      by_cases hrep : k ∈ replacedIn reg ts
      · obtain ⟨_, t2, ht2, _, hp⟩ := mem_replacedIn.1 hrep
        have hlt := hr _ hp
        simp only at hlt
        obtain ⟨k', hk', hn, hs⟩ := ih t2 ht2 (by omega)
        exact ⟨k', hk', hn, ReplStar.step hp hs⟩
      · exact ⟨k, hk, hrep, ReplStar.refl⟩
  intro k hk
  exact key B k hk (by omega)

/-- **`resolve_covers`** -/
theorem resolve_covers {reg : StrRegistry} (hrank : ReplacesRanked reg) :
    ∀ (fuel : Nat) (ts r : List String), resolve reg ts fuel = .ok r →
      ∀ k ∈ ts, ∃ k' ∈ r, ReplStar reg k k' := by
  intro fuel
  induction fuel with
  | zero => intro ts r h; simp [resolve] at h
  | succ fuel ih =>
    intro ts r h k hk
    rw [resolve] at h
    have hk' : k ∈ dedupStr ts := mem_dedupStrX.2 hk
    split at h
    · simp only [Except.ok.injEq] at h
      subst h
      exact ⟨k, hk', ReplStar.refl⟩
    · obtain ⟨k1, hk1, hn, hs⟩ := round_covers hrank (dedupStr ts) k hk'
      have hk1' : k1 ∈ (dedupStr ts).filter (fun t => !(replacedIn reg (dedupStr ts)).contains t) := by
        simp [List.mem_filter, hk1, hn]
      obtain ⟨k2, hk2, hs2⟩ := ih _ r h k1 hk1'
      exact ⟨k2, hk2, hs.trans hs2⟩

theorem resolve_subsetX {reg : StrRegistry} :
    ∀ (fuel : Nat) (ts r : List String), resolve reg ts fuel = .ok r → ∀ k ∈ r, k ∈ ts := by
  intro fuel
  induction fuel with
  | zero => intro ts r h; simp [resolve] at h
  | succ fuel ih =>
    intro ts r h k hk
    rw [resolve] at h
    split at h
    · simp only [Except.ok.injEq] at h
      subst h
      exact mem_dedupStrX.1 hk
    · have := ih _ r h k hk
      exact mem_dedupStrX.1 (List.mem_filter.1 this).1

end J2M
