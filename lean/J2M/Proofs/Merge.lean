/-
  Analysis of `merge_field_sets` (`mergeOne` / `mergeStep` / `mergeFieldSets`):
  key order, optional status per key (C02.1, C07.1, C07.2).
-/
import J2M.Proofs.MergeDetect
import J2M.Proofs.MergeUnion
import J2M.Proofs.MergeRaw
import J2M.Proofs.PyEqBasic
import J2M.Proofs.HashOpt
namespace J2M

/-! ### association-list facts -/

theorem Fields.get?_nil (k : String) : Fields.get? [] k = none := rfl

theorem Fields.get?_cons (kv : String × Ty) (fs : Fields) (k : String) :
    Fields.get? (kv :: fs) k = if kv.1 = k then some kv.2 else Fields.get? fs k := by
  unfold Fields.get?
  by_cases h : kv.1 = k
  · simp [h]
  · simp [h]

theorem Fields.get?_eq_none {fs : Fields} {k : String} : fs.get? k = none ↔ k ∉ fs.keys := by
  induction fs with
  | nil => simp [Fields.get?_nil, Fields.keys]
  | cons kv fs ih =>
    rw [Fields.get?_cons]
    by_cases h : kv.1 = k
    · subst h; simp [Fields.keys]
    · have h' : ¬ k = kv.1 := fun e => h e.symm
      simp only [h, if_false, ih]
      simp [Fields.keys, h']

theorem Fields.get?_mem {fs : Fields} {k : String} {t : Ty} (h : fs.get? k = some t) : (k, t) ∈ fs := by
  induction fs with
  | nil => simp [Fields.get?_nil] at h
  | cons kv fs ih =>
    rw [Fields.get?_cons] at h
    by_cases hk : kv.1 = k
    · simp [hk] at h; subst h; subst hk; exact List.mem_cons_self ..
    · simp [hk] at h
      exact List.mem_cons_of_mem _ (ih h)

theorem Fields.mem_set {fs : Fields} {k : String} {v : Ty} {kv : String × Ty}
    (h : kv ∈ fs.set k v) : kv = (k, v) ∨ kv ∈ fs := by
  induction fs with
  | nil => simp [Fields.set] at h; exact .inl h
  | cons kv' fs ih =>
    obtain ⟨k', v'⟩ := kv'
    simp only [Fields.set] at h
    split at h
    · rcases List.mem_cons.1 h with h | h
      · exact .inl h
      · exact .inr (List.mem_cons_of_mem _ h)
    · rcases List.mem_cons.1 h with h | h
      · exact .inr (h ▸ List.mem_cons_self ..)
      · rcases ih h with h | h
        · exact .inl h
        · exact .inr (List.mem_cons_of_mem _ h)

/-- one step of first-occurrence de-duplication (`dedupStr`) -/
def dstep (acc : List String) (x : String) : List String := if acc.contains x then acc else acc ++ [x]

theorem dedupStr_eq (xs : List String) : dedupStr xs = xs.foldl dstep [] := rfl

theorem dstep_cons_ne {k' k : String} (ks : List String) (h : k' ≠ k) :
    dstep (k' :: ks) k = k' :: dstep ks k := by
  unfold dstep
  have h' : (k == k') = false := by simp [Ne.symm h]
  simp only [List.contains_cons, h', Bool.false_or]
  split <;> simp

theorem dstep_cons_eq (k : String) (ks : List String) : dstep (k :: ks) k = k :: ks := by
  simp [dstep]

theorem Fields.keys_set (fs : Fields) (k : String) (v : Ty) : (fs.set k v).keys = dstep fs.keys k := by
  induction fs with
  | nil => simp [Fields.set, Fields.keys, dstep]
  | cons kv' fs ih =>
    obtain ⟨k', v'⟩ := kv'
    simp only [Fields.set]
    by_cases h : k' = k
    · subst h; simp [Fields.keys, dstep]
    · have hb : (k' == k) = false := by simp [h]
      simp only [hb, Bool.false_eq_true, if_false]
      show k' :: Fields.keys (Fields.set fs k v) = dstep (k' :: Fields.keys fs) k
      rw [ih, dstep_cons_ne _ h]

theorem Fields.has_iff {fs : Fields} {k : String} : fs.has k = true ↔ k ∈ fs.keys := by
  simp [Fields.has, Fields.keys]

/-! ### `mergeOne` -/

/-- `DUnion(...)` collapsed when it has a single member -/
def collapse (us : List Ty) : Ty := match us with | [x] => x | us => .union us

/-- the ways `mergeOne` can finish: new key; unchanged (the existing type is a `DOptional`, or equal to
    the incoming one); union below the existing `DOptional`; union with the existing non-optional type; an
    incoming `Optional[T]` replaces the existing `T` -/
theorem mergeOne_cases' {c : LitCfg} {e : EqEnv} {first : Bool} {fs fs' : Fields} {name : String} {field : Ty}
    (h : mergeOne c e first fs name field = .ok fs') :
    (fs.get? name = none ∧
        fs' = fs.set name (if first || field.isOpt then field else .opt field)) ∨
    (∃ orig, fs.get? name = some orig ∧
      ((fs' = fs ∧ (orig.isOpt = true ∨ e.eq orig field = .ok true)) ∨
       (∃ oi, orig = .opt oi ∧
          fs' = fs.set name (.opt (collapse (mkUnionMembers c (field.unionMembers ++ oi.unionMembers))))) ∨
       (orig.isOpt = false ∧
          fs' = fs.set name (collapse (mkUnionMembers c (field.unionMembers ++ orig.unionMembers)))) ∨
       (orig.isOpt = false ∧ (∃ fi, field = .opt fi ∧ e.eq orig fi = .ok true) ∧ fs' = fs.set name field))) := by
  unfold mergeOne at h
  split at h
  · rename_i hg
    rw [Except.pure_ok_iff] at h
    exact .inl ⟨hg, h.symm⟩
  · rename_i orig hg
    refine .inr ⟨orig, hg, ?_⟩
    split at h
    · rename_i oi
      rw [Except.bind_ok_iff] at h
      obtain ⟨b, _, h⟩ := h
      split at h
      · rw [Except.pure_ok_iff] at h; exact .inl ⟨h.symm, .inl rfl⟩
      · rw [Except.bind_ok_iff] at h
        obtain ⟨b2, _, h⟩ := h
        split at h
        · rw [Except.pure_ok_iff] at h; exact .inl ⟨h.symm, .inl rfl⟩
        · rw [Except.pure_ok_iff] at h
          exact .inr (.inl ⟨oi, rfl, h.symm⟩)
    · rename_i hno
      have hno' : orig.isOpt = false := by
        cases orig <;> simp [Ty.isOpt]
        exact hno _ rfl
      rw [Except.bind_ok_iff] at h
      obtain ⟨same, hsame, h⟩ := h
      split at h
      · rename_i hb
        rw [Except.pure_ok_iff] at h
        subst hb
        exact .inl ⟨h.symm, .inr hsame⟩
      · rw [Except.bind_ok_iff] at h
        obtain ⟨sameInner, hsi, h⟩ := h
        split at h
        · rename_i hb
          rw [Except.pure_ok_iff] at h
          refine .inr (.inr (.inr ⟨hno', ?_, h.symm⟩))
          subst hb
          cases field <;> first | exact ⟨_, rfl, hsi⟩ | (simp [pure, Except.pure] at hsi)
        · rw [Except.pure_ok_iff] at h
          exact .inr (.inr (.inl ⟨hno', h.symm⟩))

/-- the same without the reason in the "unchanged" case -/
theorem mergeOne_cases {c : LitCfg} {e : EqEnv} {first : Bool} {fs fs' : Fields} {name : String} {field : Ty}
    (h : mergeOne c e first fs name field = .ok fs') :
    (fs.get? name = none ∧
        fs' = fs.set name (if first || field.isOpt then field else .opt field)) ∨
    (∃ orig, fs.get? name = some orig ∧
      (fs' = fs ∨
       (∃ oi, orig = .opt oi ∧
          fs' = fs.set name (.opt (collapse (mkUnionMembers c (field.unionMembers ++ oi.unionMembers))))) ∨
       (orig.isOpt = false ∧
          fs' = fs.set name (collapse (mkUnionMembers c (field.unionMembers ++ orig.unionMembers)))) ∨
       (orig.isOpt = false ∧ (∃ fi, field = .opt fi ∧ e.eq orig fi = .ok true) ∧ fs' = fs.set name field))) := by
  rcases mergeOne_cases' h with h1 | ⟨orig, hg, ⟨h2, _⟩ | h2⟩
  · exact .inl h1
  · exact .inr ⟨orig, hg, .inl h2⟩
  · exact .inr ⟨orig, hg, .inr h2⟩

theorem Fields.get?_some_keys {fs : Fields} {k : String} {t : Ty} (h : fs.get? k = some t) :
    k ∈ fs.keys := by
  apply Classical.byContradiction
  intro hn
  rw [Fields.get?_eq_none.2 hn] at h
  cases h

theorem dstep_of_mem {ks : List String} {k : String} (h : k ∈ ks) : dstep ks k = ks := by
  simp [dstep, h]

theorem mem_dstep {ks : List String} {k x : String} : x ∈ dstep ks k ↔ x ∈ ks ∨ x = k := by
  unfold dstep
  split
  · rename_i h
    have : k ∈ ks := by simpa using h
    constructor
    · exact .inl
    · rintro (h | h)
      · exact h
      · exact h ▸ this
  · simp

theorem mem_foldl_dstep {xs acc : List String} {x : String} :
    x ∈ xs.foldl dstep acc ↔ x ∈ acc ∨ x ∈ xs := by
  induction xs generalizing acc with
  | nil => simp
  | cons y ys ih => simp [ih, mem_dstep, or_assoc]

theorem nodup_dstep {ks : List String} {k : String} (h : ks.Nodup) : (dstep ks k).Nodup := by
  unfold dstep
  split
  · exact h
  · rename_i hc
    have : k ∉ ks := by simpa using hc
    rw [List.nodup_append]
    refine ⟨h, by simp, ?_⟩
    intro a ha b hb
    simp at hb
    subst hb
    intro e; subst e; exact this ha

theorem nodup_foldl_dstep {xs acc : List String} (h : acc.Nodup) : (xs.foldl dstep acc).Nodup := by
  induction xs generalizing acc with
  | nil => exact h
  | cons y ys ih => exact ih (nodup_dstep h)

theorem mergeOne_keys {c : LitCfg} {e : EqEnv} {first : Bool} {fs fs' : Fields} {name : String} {field : Ty}
    (h : mergeOne c e first fs name field = .ok fs') : fs'.keys = dstep fs.keys name := by
  rcases mergeOne_cases h with ⟨_, h2⟩ | ⟨orig, hg, h2 | ⟨oi, _, h2⟩ | ⟨_, h2⟩ | ⟨_, _, h2⟩⟩
  · rw [h2, Fields.keys_set]
  · rw [h2, dstep_of_mem (Fields.get?_some_keys hg)]
  · rw [h2, Fields.keys_set]
  · rw [h2, Fields.keys_set]
  · rw [h2, Fields.keys_set]

/-- the inner loop `for name, field in model.items()` -/
def mergeItems (c : LitCfg) (e : EqEnv) (first : Bool) (fs : Fields) (m : Fields) : Except PyErr Fields :=
  m.foldlM (fun fs (kv : String × Ty) => mergeOne c e first fs kv.1 kv.2) fs

theorem mergeItems_nil {c e first fs} : mergeItems c e first fs [] = .ok fs := rfl

theorem mergeItems_cons {c e first fs kv m r} :
    mergeItems c e first fs (kv :: m) = .ok r ↔
      ∃ fs', mergeOne c e first fs kv.1 kv.2 = .ok fs' ∧ mergeItems c e first fs' m = .ok r := by
  unfold mergeItems
  rw [List.foldlM_cons, Except.bind_ok_iff]

theorem mergeItems_keys {c e first fs m r} (h : mergeItems c e first fs m = .ok r) :
    r.keys = m.keys.foldl dstep fs.keys := by
  induction m generalizing fs with
  | nil => rw [mergeItems_nil, Except.ok.injEq] at h; subst h; rfl
  | cons kv m ih =>
    obtain ⟨fs', h1, h2⟩ := mergeItems_cons.1 h
    rw [ih h2, mergeOne_keys h1]
    rfl

/-- the `fields_diff` pass at the end of one iteration -/
def wrapMissing (before : List String) (m : Fields) (kv : String × Ty) : String × Ty :=
  if before.contains kv.1 && !m.has kv.1 && !kv.2.isOpt then (kv.1, .opt kv.2) else kv

theorem mergeStep_eq {c e first fields m r} :
    mergeStep c e first fields m = .ok r ↔
      ∃ fs1, mergeItems c e first fields m = .ok fs1 ∧ r = fs1.map (wrapMissing fields.keys m) := by
  unfold mergeStep
  rw [Except.bind_ok_iff]
  constructor
  · rintro ⟨fs1, h1, h2⟩
    rw [Except.pure_ok_iff] at h2
    exact ⟨fs1, h1, h2.symm⟩
  · rintro ⟨fs1, h1, h2⟩
    exact ⟨fs1, h1, by rw [Except.pure_ok_iff]; exact h2.symm⟩

theorem wrapMissing_fst (before : List String) (m : Fields) (kv : String × Ty) :
    (wrapMissing before m kv).1 = kv.1 := by
  unfold wrapMissing; split <;> rfl

theorem keys_map_wrapMissing (before : List String) (m fs : Fields) :
    Fields.keys (fs.map (wrapMissing before m)) = fs.keys := by
  simp [Fields.keys, List.map_map, Function.comp_def, wrapMissing_fst]

theorem mergeStep_keys {c e first fields m r} (h : mergeStep c e first fields m = .ok r) :
    r.keys = m.keys.foldl dstep fields.keys := by
  obtain ⟨fs1, h1, h2⟩ := mergeStep_eq.1 h
  rw [h2, keys_map_wrapMissing, mergeItems_keys h1]

theorem go_keys {c e first fields sets r} (h : mergeFieldSets.go c e first fields sets = .ok r) :
    r.keys = (sets.flatMap Fields.keys).foldl dstep fields.keys := by
  induction sets generalizing first fields with
  | nil => simp [mergeFieldSets.go, pure, Except.pure] at h; subst h; rfl
  | cons m ms ih =>
    rw [mergeFieldSets.go, Except.bind_ok_iff] at h
    obtain ⟨f1, h1, h2⟩ := h
    rw [ih h2, mergeStep_keys h1, List.flatMap_cons, List.foldl_append]

/-- **key order**: the keys of the merge are the keys of all sets in first-occurrence order -/
theorem mergeFieldSets_keys {c e sets r} (h : mergeFieldSets c e sets = .ok r) :
    r.keys = dedupStr (sets.flatMap Fields.keys) := by
  unfold mergeFieldSets at h
  rw [go_keys h, dedupStr_eq]
  rfl

/-! ### optional status, direction "absent ⇒ optional" -/

/-- every binding of `k` is optional -/
def Qk (k : String) (fs : Fields) : Prop := ∀ kv ∈ fs, kv.1 = k → kv.2.isOpt = true

theorem mergeOne_Q {c e first fs fs' name field} {k : String}
    (h : mergeOne c e first fs name field = .ok fs')
    (hq : Qk k fs) (hc : k ∈ fs.keys ∨ first = false) : Qk k fs' := by
  rcases mergeOne_cases h with ⟨hg, h2⟩ | ⟨orig, hg, h2 | ⟨oi, _, h2⟩ | ⟨hno, h2⟩ | ⟨_, ⟨fi, hfi, _⟩, h2⟩⟩
  rotate_left 4
  · subst h2; subst hfi
    intro kv hkv hk
    rcases Fields.mem_set hkv with h3 | h3
    · subst h3; rfl
    · exact hq kv h3 hk
  · subst h2
    intro kv hkv hk
    rcases Fields.mem_set hkv with h3 | h3
    · subst h3
      simp only at hk
      subst hk
      rcases hc with hc | hc
      · exact absurd hc (Fields.get?_eq_none.1 hg)
      · subst hc
        cases hf : field.isOpt
        · simp [Ty.isOpt]
        · simpa using hf
    · exact hq kv h3 hk
  · subst h2; exact hq
  · subst h2
    intro kv hkv hk
    rcases Fields.mem_set hkv with h3 | h3
    · subst h3; rfl
    · exact hq kv h3 hk
  · subst h2
    intro kv hkv hk
    rcases Fields.mem_set hkv with h3 | h3
    · subst h3
      simp only at hk
      subst hk
      have := hq _ (Fields.get?_mem hg) rfl
      simp [hno] at this
    · exact hq kv h3 hk

theorem mergeItems_Q {c e first fs m r} {k : String} (h : mergeItems c e first fs m = .ok r)
    (hq : Qk k fs) (hc : k ∈ fs.keys ∨ first = false) : Qk k r := by
  induction m generalizing fs with
  | nil => rw [mergeItems_nil, Except.ok.injEq] at h; subst h; exact hq
  | cons kv m ih =>
    obtain ⟨fs', h1, h2⟩ := mergeItems_cons.1 h
    refine ih h2 (mergeOne_Q h1 hq hc) ?_
    rcases hc with hc | hc
    · left; rw [mergeOne_keys h1]; exact mem_dstep.2 (.inl hc)
    · exact .inr hc

theorem Qk_map_wrapMissing {before : List String} {m fs : Fields} {k : String} (hq : Qk k fs) :
    Qk k (fs.map (wrapMissing before m)) := by
  intro kv hkv hk
  obtain ⟨kv0, h0, rfl⟩ := List.mem_map.1 hkv
  rw [wrapMissing_fst] at hk
  unfold wrapMissing
  split
  · rfl
  · exact hq kv0 h0 hk

theorem Qk_map_wrapMissing_of_missing {before : List String} {m fs : Fields} {k : String}
    (hb : k ∈ before) (hm : k ∉ m.keys) : Qk k (fs.map (wrapMissing before m)) := by
  intro kv hkv hk
  obtain ⟨kv0, h0, rfl⟩ := List.mem_map.1 hkv
  rw [wrapMissing_fst] at hk
  unfold wrapMissing
  have h1 : before.contains kv0.1 = true := by simpa [hk] using hb
  have h2 : m.has kv0.1 = false := by
    cases hh : m.has kv0.1
    · rfl
    · exact absurd (hk ▸ Fields.has_iff.1 hh) hm
  cases ho : kv0.2.isOpt
  · simp only [h1, h2, Bool.not_false, Bool.and_self, if_true]; rfl
  · split
    · rfl
    · exact ho

def OptIn (sets : List Fields) (k : String) : Prop := ∃ fs ∈ sets, ∃ u, (k, u) ∈ fs ∧ u.isOpt = true
def AbsentIn (sets : List Fields) (k : String) : Prop := ∃ fs ∈ sets, k ∉ fs.keys

theorem Qk_of_not_mem {k : String} {fs : Fields} (h : k ∉ fs.keys) : Qk k fs := by
  intro kv hkv hk
  exfalso; apply h
  exact List.mem_map.2 ⟨kv, hkv, hk⟩

theorem mergeStep_Q {c e} {done : List Fields} {fields m r : Fields} {k : String}
    (h : mergeStep c e done.isEmpty fields m = .ok r)
    (hk : fields.keys = (done.flatMap Fields.keys).foldl dstep [])
    (hq : AbsentIn done k → Qk k fields) (ha : AbsentIn (done ++ [m]) k) : Qk k r := by
  obtain ⟨fs1, h1, h2⟩ := mergeStep_eq.1 h
  subst h2
  obtain ⟨fs, hfs, hkn⟩ := ha
  rcases List.mem_append.1 hfs with hd | hd
  · have hne : done.isEmpty = false := by cases done <;> simp at hd ⊢
    exact Qk_map_wrapMissing (mergeItems_Q h1 (hq ⟨fs, hd, hkn⟩) (.inr hne))
  · have : fs = m := by simpa using hd
    subst this
    by_cases hb : k ∈ fields.keys
    · exact Qk_map_wrapMissing_of_missing hb hkn
    · apply Qk_of_not_mem
      rw [keys_map_wrapMissing, mergeItems_keys h1, mem_foldl_dstep]
      rintro (h | h)
      · exact hb h
      · exact hkn h

theorem go_KQ {c e} {done : List Fields} {fields : Fields} {rest : List Fields} {r : Fields}
    (h : mergeFieldSets.go c e done.isEmpty fields rest = .ok r)
    (hk : fields.keys = (done.flatMap Fields.keys).foldl dstep [])
    (hq : ∀ k, AbsentIn done k → Qk k fields) :
    ∀ k, AbsentIn (done ++ rest) k → Qk k r := by
  induction rest generalizing done fields with
  | nil => simp [mergeFieldSets.go, pure, Except.pure] at h; subst h; simpa using hq
  | cons m ms ih =>
    rw [mergeFieldSets.go, Except.bind_ok_iff] at h
    obtain ⟨f1, h1, h2⟩ := h
    have hk1 : f1.keys = ((done ++ [m]).flatMap Fields.keys).foldl dstep [] := by
      rw [mergeStep_keys h1, hk, List.flatMap_append, List.foldl_append]
      simp
    have hq1 : ∀ k, AbsentIn (done ++ [m]) k → Qk k f1 := fun k ha => mergeStep_Q h1 hk (hq k) ha
    have he : (done ++ [m]).isEmpty = false := by simp
    have := ih (done := done ++ [m]) (he ▸ h2) hk1 hq1
    simpa using this

/-- **absent ⇒ optional** (unconditional): a key missing from some set is optional in the merge -/
theorem mergeFieldSets_opt_of_absent {c e sets r} (h : mergeFieldSets c e sets = .ok r)
    {k : String} {t : Ty} (hm : (k, t) ∈ r) (ha : AbsentIn sets k) : t.isOpt = true := by
  unfold mergeFieldSets at h
  have := go_KQ (done := []) (by simpa using h) rfl (by rintro k ⟨_, h, _⟩; simp at h) k (by simpa using ha)
  exact this _ hm rfl

/-! ### optional status, direction "optional ⇒ optional or absent somewhere" -/

theorem flattenUnion_append (a b : List Ty) : flattenUnion (a ++ b) = flattenUnion a ++ flattenUnion b := by
  induction a using flattenUnion.induct with
  | case1 => simp [flattenUnion]
  | case2 ms rest _ ih2 => simp [flattenUnion, ih2]
  | case3 t rest hnu ih =>
    rw [List.cons_append, flattenUnion.eq_3 _ _ hnu, flattenUnion.eq_3 _ _ hnu, ih]; rfl

theorem flattenUnion_nonunion (ts : List Ty) : ∀ t ∈ flattenUnion ts, t.isUnion = false := by
  induction ts using flattenUnion.induct with
  | case1 => simp [flattenUnion]
  | case2 ms rest ih1 ih2 =>
    intro t ht
    rw [flattenUnion] at ht
    rcases List.mem_append.1 ht with h | h
    · exact ih1 t h
    · exact ih2 t h
  | case3 t0 rest hnu ih =>
    intro t ht
    rw [flattenUnion.eq_3 _ _ hnu] at ht
    rcases List.mem_cons.1 ht with h | h
    · subst h
      cases t <;> simp [Ty.isUnion]
      exact hnu _ rfl
    · exact ih t h

theorem flattenUnion_id {ts : List Ty} (h : ∀ t ∈ ts, t.isUnion = false) : flattenUnion ts = ts := by
  induction ts with
  | nil => simp [flattenUnion]
  | cons t ts ih =>
    have hnu : ∀ ms, t = .union ms → False := by
      intro ms e; have := h t (List.mem_cons_self ..); subst e; simp [Ty.isUnion] at this
    rw [flattenUnion.eq_3 _ _ hnu, ih (fun t ht => h t (List.mem_cons_of_mem _ ht))]

theorem unionMembers_of_nonunion {t : Ty} (h : t.isUnion = false) : t.unionMembers = [t] := by
  cases t <;> simp [Ty.isUnion] at h <;> rfl

/-- an optional sits at the top of `t` or among its (flattened) union members -/
def HasOptMember (t : Ty) : Prop := ∃ m ∈ flattenUnion t.unionMembers, m.isOpt = true

theorem hasOptMember_of_isOpt {t : Ty} (h : t.isOpt = true) : HasOptMember t := by
  cases t <;> simp [Ty.isOpt] at h
  rename_i x
  refine ⟨.opt x, ?_, rfl⟩
  simp [Ty.unionMembers, flattenUnion]

theorem mkUnionMembers_nonunion (c : LitCfg) (ts : List Ty) :
    ∀ u ∈ mkUnionMembers c ts, u.isUnion = false := by
  intro u hu
  rcases mkUnion_members_subset c ts u hu with ⟨h, _⟩ | ⟨vs, h, _⟩ | ⟨h, _⟩
  · exact flattenUnion_nonunion ts u h
  · subst h; rfl
  · subst h; rfl

theorem mkUnionMembers_opt_mem {c : LitCfg} {ts : List Ty} {u : Ty}
    (hu : u ∈ mkUnionMembers c ts) (ho : u.isOpt = true) : u ∈ flattenUnion ts := by
  rcases mkUnion_members_subset c ts u hu with ⟨h, _⟩ | ⟨vs, h, _⟩ | ⟨h, _⟩
  · exact h
  · subst h; simp [Ty.isOpt] at ho
  · subst h; simp [Ty.isOpt] at ho

theorem hasOptMember_collapse {c : LitCfg} {ts : List Ty}
    (h : HasOptMember (collapse (mkUnionMembers c ts))) : ∃ m ∈ flattenUnion ts, m.isOpt = true := by
  obtain ⟨m, hm, ho⟩ := h
  have hnu := mkUnionMembers_nonunion c ts
  suffices hs : m ∈ mkUnionMembers c ts from ⟨m, mkUnionMembers_opt_mem hs ho, ho⟩
  unfold collapse at hm
  split at hm
  · rename_i x he
    have hx : x.isUnion = false := hnu x (by rw [he]; exact List.mem_cons_self ..)
    rw [unionMembers_of_nonunion hx, flattenUnion_id (by simpa using hx)] at hm
    rw [he]; exact hm
  · simp only [Ty.unionMembers] at hm
    rw [flattenUnion_id hnu] at hm
    exact hm

theorem hasOptMember_collapse_merge {c : LitCfg} {a b : Ty}
    (h : HasOptMember (collapse (mkUnionMembers c (a.unionMembers ++ b.unionMembers)))) :
    HasOptMember a ∨ HasOptMember b := by
  obtain ⟨m, hm, ho⟩ := hasOptMember_collapse h
  rw [flattenUnion_append] at hm
  rcases List.mem_append.1 hm with h | h
  · exact .inl ⟨m, h, ho⟩
  · exact .inr ⟨m, h, ho⟩

/-- no binding of `k` has an optional at the top or among its union members -/
def Rk (k : String) (fs : Fields) : Prop := ∀ kv ∈ fs, kv.1 = k → ¬ HasOptMember kv.2

theorem mergeOne_R {c e first fs fs' name field} {k : String}
    (h : mergeOne c e first fs name field = .ok fs')
    (hr : Rk k fs) (hf : name = k → ¬ HasOptMember field)
    (hc : first = true ∨ k ∈ fs.keys) : Rk k fs' := by
  rcases mergeOne_cases h with ⟨hg, h2⟩ | ⟨orig, hg, h2 | ⟨oi, ho, h2⟩ | ⟨hno, h2⟩ | ⟨_, _, h2⟩⟩
  rotate_left 4
  · subst h2
    intro kv hkv hk
    rcases Fields.mem_set hkv with h3 | h3
    · subst h3
      simp only at hk
      exact hf hk
    · exact hr kv h3 hk
  · subst h2
    intro kv hkv hk
    rcases Fields.mem_set hkv with h3 | h3
    · subst h3
      simp only at hk
      subst hk
      rcases hc with hc | hc
      · subst hc; simpa using hf rfl
      · exact absurd hc (Fields.get?_eq_none.1 hg)
    · exact hr kv h3 hk
  · subst h2; exact hr
  · subst h2
    intro kv hkv hk
    rcases Fields.mem_set hkv with h3 | h3
    · subst h3
      simp only at hk
      subst hk
      have := hr _ (Fields.get?_mem hg) rfl
      exact absurd (hasOptMember_of_isOpt (by rw [ho]; rfl)) this
    · exact hr kv h3 hk
  · subst h2
    intro kv hkv hk
    rcases Fields.mem_set hkv with h3 | h3
    · subst h3
      simp only at hk
      subst hk
      intro hh
      rcases hasOptMember_collapse_merge hh with h4 | h4
      · exact hf rfl h4
      · exact hr _ (Fields.get?_mem hg) rfl h4
    · exact hr kv h3 hk

theorem mergeItems_R {c e first fs m r} {k : String} (h : mergeItems c e first fs m = .ok r)
    (hr : Rk k fs) (hf : ∀ kv ∈ m, kv.1 = k → ¬ HasOptMember kv.2)
    (hc : first = true ∨ k ∈ fs.keys) : Rk k r := by
  induction m generalizing fs with
  | nil => rw [mergeItems_nil, Except.ok.injEq] at h; subst h; exact hr
  | cons kv m ih =>
    obtain ⟨fs', h1, h2⟩ := mergeItems_cons.1 h
    refine ih h2 (mergeOne_R h1 hr (hf kv (List.mem_cons_self ..)) hc)
      (fun kv' h' => hf kv' (List.mem_cons_of_mem _ h')) ?_
    rcases hc with hc | hc
    · exact .inl hc
    · right; rw [mergeOne_keys h1]; exact mem_dstep.2 (.inl hc)

theorem Rk_map_wrapMissing_of_present {before : List String} {m fs : Fields} {k : String}
    (hr : Rk k fs) (hm : k ∈ m.keys) : Rk k (fs.map (wrapMissing before m)) := by
  intro kv hkv hk
  obtain ⟨kv0, h0, rfl⟩ := List.mem_map.1 hkv
  rw [wrapMissing_fst] at hk
  have h2 : m.has kv0.1 = true := Fields.has_iff.2 (hk ▸ hm)
  have : wrapMissing before m kv0 = kv0 := by
    unfold wrapMissing; simp [h2]
  rw [this]
  exact hr kv0 h0 hk

/-- in every given set, an optional occurs in a field type only at its top -/
def NoNestedOpt (sets : List Fields) : Prop :=
  ∀ fs ∈ sets, ∀ kv ∈ fs, HasOptMember kv.2 → kv.2.isOpt = true

theorem mem_keys_iff {fs : Fields} {k : String} : k ∈ fs.keys ↔ ∃ t, (k, t) ∈ fs := by
  simp [Fields.keys]

theorem mergeStep_R {c e} {done : List Fields} {fields m r : Fields} {k : String}
    (h : mergeStep c e done.isEmpty fields m = .ok r)
    (hk : fields.keys = (done.flatMap Fields.keys).foldl dstep [])
    (hnn : NoNestedOpt [m])
    (hr : ¬ OptIn done k → ¬ AbsentIn done k → Rk k fields)
    (ho : ¬ OptIn (done ++ [m]) k) (ha : ¬ AbsentIn (done ++ [m]) k) : Rk k r := by
  obtain ⟨fs1, h1, h2⟩ := mergeStep_eq.1 h
  subst h2
  have ho' : ¬ OptIn done k := fun ⟨fs, h1, h2⟩ => ho ⟨fs, List.mem_append_left _ h1, h2⟩
  have ha' : ¬ AbsentIn done k := fun ⟨fs, h1, h2⟩ => ha ⟨fs, List.mem_append_left _ h1, h2⟩
  have hkm : k ∈ m.keys := by
    apply Classical.byContradiction
    intro hn; exact ha ⟨m, by simp, hn⟩
  have hfm : ∀ kv ∈ m, kv.1 = k → ¬ HasOptMember kv.2 := by
    intro kv hkv hke hh
    have := hnn m (by simp) kv hkv hh
    exact ho ⟨m, by simp, kv.2, by rw [← hke]; exact hkv, this⟩
  have hc : done.isEmpty = true ∨ k ∈ fields.keys := by
    cases done with
    | nil => exact .inl rfl
    | cons d ds =>
      right
      rw [hk, mem_foldl_dstep]
      right
      have : k ∈ d.keys := by
        apply Classical.byContradiction
        intro hn; exact ha' ⟨d, List.mem_cons_self .., hn⟩
      simp only [List.flatMap_cons, List.mem_append]
      exact .inl this
  exact Rk_map_wrapMissing_of_present (mergeItems_R h1 (hr ho' ha') hfm hc) hkm

theorem go_R {c e} {done : List Fields} {fields : Fields} {rest : List Fields} {r : Fields}
    (h : mergeFieldSets.go c e done.isEmpty fields rest = .ok r)
    (hk : fields.keys = (done.flatMap Fields.keys).foldl dstep [])
    (hnn : NoNestedOpt rest)
    (hr : ∀ k, ¬ OptIn done k → ¬ AbsentIn done k → Rk k fields) :
    ∀ k, ¬ OptIn (done ++ rest) k → ¬ AbsentIn (done ++ rest) k → Rk k r := by
  induction rest generalizing done fields with
  | nil => simp [mergeFieldSets.go, pure, Except.pure] at h; subst h; simpa using hr
  | cons m ms ih =>
    rw [mergeFieldSets.go, Except.bind_ok_iff] at h
    obtain ⟨f1, h1, h2⟩ := h
    have hk1 : f1.keys = ((done ++ [m]).flatMap Fields.keys).foldl dstep [] := by
      rw [mergeStep_keys h1, hk, List.flatMap_append, List.foldl_append]
      simp
    have hnn1 : NoNestedOpt [m] := by
      intro fs hfs; have : fs = m := by simpa using hfs
      subst this; exact hnn fs (List.mem_cons_self ..)
    have hr1 : ∀ k, ¬ OptIn (done ++ [m]) k → ¬ AbsentIn (done ++ [m]) k → Rk k f1 :=
      fun k ho ha => mergeStep_R h1 hk hnn1 (hr k) ho ha
    have he : (done ++ [m]).isEmpty = false := by simp
    have := ih (done := done ++ [m]) (he ▸ h2) hk1
      (fun fs hfs => hnn fs (List.mem_cons_of_mem _ hfs)) hr1
    simpa using this

/-- **optional ⇒ optional somewhere or absent somewhere**, when optionals only occur at the top of
    the incoming field types -/
theorem mergeFieldSets_opt_only_if {c e sets r} (h : mergeFieldSets c e sets = .ok r)
    (hnn : NoNestedOpt sets) {k : String} {t : Ty} (hm : (k, t) ∈ r) (ho : HasOptMember t) :
    OptIn sets k ∨ AbsentIn sets k := by
  unfold mergeFieldSets at h
  apply Classical.byContradiction
  intro hn
  have hn1 : ¬ OptIn sets k := fun h => hn (.inl h)
  have hn2 : ¬ AbsentIn sets k := fun h => hn (.inr h)
  have := go_R (done := []) (by simpa using h) rfl hnn
    (by intro k _ _ kv hkv; simp at hkv) k (by simpa using hn1) (by simpa using hn2)
  exact this _ hm rfl ho

/-! ### the generator-stage domain: sets without optionals -/

/-- no field type of any set has an optional at its top or among its union members -/
def OptFree (sets : List Fields) : Prop := ∀ fs ∈ sets, ∀ kv ∈ fs, ¬ HasOptMember kv.2

theorem OptFree.noNested {sets : List Fields} (h : OptFree sets) : NoNestedOpt sets :=
  fun fs hfs kv hkv hh => absurd hh (h fs hfs kv hkv)

theorem OptFree.not_optIn {sets : List Fields} (h : OptFree sets) (k : String) : ¬ OptIn sets k := by
  rintro ⟨fs, hfs, u, hu, ho⟩
  exact h fs hfs (k, u) hu (hasOptMember_of_isOpt ho)

theorem raw_not_hasOptMember {t : Ty} (h : t.raw) : ¬ HasOptMember t := by
  rintro ⟨m, hm, ho⟩
  have hall : ∀ u ∈ t.unionMembers, u.raw := by
    cases t <;> try (intro u hu; simp [Ty.unionMembers] at hu; subst hu; exact h)
    exact raw_of_union h
  have := (raw_flatten hall m hm).2
  cases m <;> simp [Ty.isOpt] at ho
  simp [Ty.noOpt] at this

theorem convert_ok {cfg o v fs} (h : convert cfg o v = .ok fs) :
    ∃ kvs, v = .obj kvs ∧ convertFields cfg o kvs = .ok fs := by
  cases v <;> simp [convert] at h
  exact ⟨_, rfl, h⟩

theorem mapM_ok_mem {α β} {f : α → Except PyErr β} {xs : List α} {ys : List β}
    (h : xs.mapM f = .ok ys) {y : β} (hy : y ∈ ys) : ∃ x ∈ xs, f x = .ok y := by
  induction xs generalizing ys with
  | nil => simp [pure, Except.pure] at h; subst h; simp at hy
  | cons x xs ih =>
    rw [List.mapM_cons, Except.bind_ok_iff] at h
    obtain ⟨y0, h1, h⟩ := h
    rw [Except.bind_ok_iff] at h
    obtain ⟨ys0, h2, h⟩ := h
    rw [Except.pure_ok_iff] at h
    subst h
    rcases List.mem_cons.1 hy with h3 | h3
    · subst h3; exact ⟨x, List.mem_cons_self .., h1⟩
    · obtain ⟨x', hx', hf⟩ := ih h2 h3
      exact ⟨x', List.mem_cons_of_mem _ hx', hf⟩

theorem mapM_ok_mem_left {α β} {f : α → Except PyErr β} {xs : List α} {ys : List β}
    (h : xs.mapM f = .ok ys) {x : α} (hx : x ∈ xs) : ∃ y ∈ ys, f x = .ok y := by
  induction xs generalizing ys with
  | nil => simp at hx
  | cons x0 xs ih =>
    rw [List.mapM_cons, Except.bind_ok_iff] at h
    obtain ⟨y0, h1, h⟩ := h
    rw [Except.bind_ok_iff] at h
    obtain ⟨ys0, h2, h⟩ := h
    rw [Except.pure_ok_iff] at h
    subst h
    rcases List.mem_cons.1 hx with h3 | h3
    · subst h3; exact ⟨y0, List.mem_cons_self .., h1⟩
    · obtain ⟨y, hy, hf⟩ := ih h2 h3
      exact ⟨y, List.mem_cons_of_mem _ hy, hf⟩

/-- the field sets `generate` feeds to `merge_field_sets` contain no optional -/
theorem convert_optFree {cfg : GenCfg} {o : GenOracles} {samples : List Json} {sets : List Fields}
    (h : samples.mapM (convert cfg o) = .ok sets) :
    OptFree sets := by
  intro fs hfs kv hkv
  obtain ⟨v, _, hv⟩ := mapM_ok_mem h hfs
  obtain ⟨kvs, _, hc⟩ := convert_ok hv
  exact raw_not_hasOptMember (convertFields_raw hc kv hkv)

/-- on opt-free sets: optional in the merge ⇔ absent from some set -/
theorem mergeFieldSets_opt_iff_of_optFree {c e sets r} (h : mergeFieldSets c e sets = .ok r)
    (hf : OptFree sets) {k : String} {t : Ty} (hm : (k, t) ∈ r) :
    t.isOpt = true ↔ AbsentIn sets k := by
  constructor
  · intro ho
    rcases mergeFieldSets_opt_only_if h hf.noNested hm (hasOptMember_of_isOpt ho) with h1 | h1
    · exact absurd h1 (hf.not_optIn k)
    · exact h1
  · exact mergeFieldSets_opt_of_absent h hm

theorem mem_dedupStr {xs : List String} {x : String} : x ∈ dedupStr xs ↔ x ∈ xs := by
  rw [dedupStr_eq, mem_foldl_dstep]; simp

theorem nodup_dedupStr (xs : List String) : (dedupStr xs).Nodup := by
  rw [dedupStr_eq]; exact nodup_foldl_dstep List.nodup_nil

/-! ### "optional-like" status (`HasOptMember`), both directions, no hypothesis on the sets -/

theorem Fields.get?_set' (fs : Fields) (k : String) (v : Ty) (k' : String) :
    (fs.set k v).get? k' = if k = k' then some v else fs.get? k' := by
  induction fs with
  | nil =>
    simp only [Fields.set]
    rw [Fields.get?_cons, Fields.get?_nil]
  | cons kv fs ih =>
    obtain ⟨k0, v0⟩ := kv
    simp only [Fields.set]
    by_cases h : k0 = k
    · subst h
      simp only [beq_self_eq_true, if_true]
      rw [Fields.get?_cons, Fields.get?_cons]
      by_cases h2 : k0 = k' <;> simp [h2]
    · have hb : (k0 == k) = false := by simp [h]
      simp only [hb, Bool.false_eq_true, if_false]
      rw [Fields.get?_cons, Fields.get?_cons, ih]
      by_cases h2 : k0 = k'
      · subst h2
        have : ¬ k = k0 := fun e => h e.symm
        simp [this]
      · simp [h2]

theorem Fields.get?_of_mem_nodup {fs : Fields} {k : String} {t : Ty} (nd : fs.keys.Nodup) (h : (k, t) ∈ fs) :
    fs.get? k = some t := by
  induction fs with
  | nil => cases h
  | cons kv fs ih =>
    rw [Fields.get?_cons]
    simp only [Fields.keys, List.map_cons, List.nodup_cons] at nd
    rcases List.mem_cons.1 h with e | h
    · subst e; simp
    · have : kv.1 ≠ k := by
        intro e; apply nd.1; rw [e]
        exact List.mem_map.2 ⟨(k, t), h, rfl⟩
      simp only [this, if_false]
      exact ih nd.2 h

/-- `HasOptMember` of a single type, through `flattenUnion [t]` -/
theorem hasOptMember_iff {t : Ty} : HasOptMember t ↔ ∃ m ∈ flattenUnion [t], m.isOpt = true := by
  cases t <;> simp [HasOptMember, Ty.unionMembers, flattenUnion]

theorem mem_flattenUnion_iff {ts : List Ty} {m : Ty} :
    m ∈ flattenUnion ts ↔ ∃ x ∈ ts, m ∈ flattenUnion [x] := by
  induction ts with
  | nil => simp [flattenUnion]
  | cons x ts ih =>
    have : x :: ts = [x] ++ ts := rfl
    rw [this, flattenUnion_append, List.mem_append, ih]
    simp

theorem hasOptMember_union {ts : List Ty} : HasOptMember (.union ts) ↔ ∃ x ∈ ts, HasOptMember x := by
  simp only [HasOptMember, Ty.unionMembers]
  constructor
  · rintro ⟨m, hm, ho⟩
    obtain ⟨x, hx, hmx⟩ := mem_flattenUnion_iff.1 hm
    exact ⟨x, hx, hasOptMember_iff.2 ⟨m, hmx, ho⟩⟩
  · rintro ⟨x, hx, hh⟩
    obtain ⟨m, hm, ho⟩ := hasOptMember_iff.1 hh
    exact ⟨m, mem_flattenUnion_iff.2 ⟨x, hx, hm⟩, ho⟩

theorem hasOptMember_nonunion {t : Ty} (h : t.isUnion = false) : HasOptMember t ↔ t.isOpt = true := by
  rw [HasOptMember, unionMembers_of_nonunion h, flattenUnion_id (by simpa using h)]
  simp

/-- Python `==` relates only types with the same optional-like status -/
theorem pyEq_hasOpt {so ms g} : ∀ (fuel : Nat) (a b : Ty), pyEq so ms g fuel a b = some true →
    (HasOptMember a ↔ HasOptMember b) := by
  intro fuel
  induction fuel with
  | zero => intro a b h; simp [pyEq] at h
  | succ fuel ih =>
    intro a b h
    cases a <;> cases b <;> try (simp [pyEq] at h; done)
    case union.union xs ys =>
      rw [pyEq_union_eq] at h
      obtain ⟨hlen, hall⟩ := eqListF_true h
      rw [hasOptMember_union, hasOptMember_union]
      constructor
      · rintro ⟨m, hm, ho⟩
        obtain ⟨y, hy⟩ := exists_zip_left (sortedMembers so ms xs) (sortedMembers so ms ys) (by omega) m
          (mem_sortByKey.2 hm)
        exact ⟨y, mem_sortByKey.1 (List.of_mem_zip hy).2, (ih _ _ (hall _ hy)).1 ho⟩
      · rintro ⟨m, hm, ho⟩
        obtain ⟨x, hx⟩ := exists_zip_right (sortedMembers so ms xs) (sortedMembers so ms ys) (by omega) m
          (mem_sortByKey.2 hm)
        exact ⟨x, mem_sortByKey.1 (List.of_mem_zip hx).1, (ih _ _ (hall _ hx)).2 ho⟩
    all_goals
      refine Iff.trans (hasOptMember_nonunion rfl) (Iff.trans ?_ (hasOptMember_nonunion rfl).symm)
      simp [Ty.isOpt]

theorem EqEnv.eq_hasOpt {e : EqEnv} {a b : Ty} (h : e.eq a b = .ok true) :
    (HasOptMember a ↔ HasOptMember b) := by
  unfold EqEnv.eq at h
  split at h
  · rename_i r hr
    simp only [pure, Except.pure, Except.ok.injEq] at h
    subst h
    exact pyEq_hasOpt _ _ _ hr
  · cases h

/-- `DUnion.__init__` keeps an optional member (up to equality of hash strings) -/
theorem hasOptMember_collapse_of {c : LitCfg} {ts : List Ty} (h : ∃ m ∈ flattenUnion ts, m.isOpt = true) :
    HasOptMember (collapse (mkUnionMembers c ts)) := by
  obtain ⟨m, hm, ho⟩ := h
  have hl : m.isLit = false := by cases m <;> first | rfl | simp [Ty.isOpt] at ho
  obtain ⟨u, hu, _, _, he⟩ := (mkUnion_members_cover c ts m hm).1 hl
  have huo : u.isOpt = true := isOpt_of_hashStr_eq he.symm ho
  have hnu := mkUnionMembers_nonunion c ts
  unfold collapse
  split
  · rename_i x hx
    rw [hx] at hu; simp at hu; subst hu
    exact hasOptMember_of_isOpt huo
  · exact ⟨u, by simp only [Ty.unionMembers]; rw [flattenUnion_id hnu]; exact hu, huo⟩

theorem hasOptMember_collapse_merge_of {c : LitCfg} {a b : Ty} (h : HasOptMember a ∨ HasOptMember b) :
    HasOptMember (collapse (mkUnionMembers c (a.unionMembers ++ b.unionMembers))) := by
  apply hasOptMember_collapse_of
  rw [flattenUnion_append]
  rcases h with ⟨m, hm, ho⟩ | ⟨m, hm, ho⟩
  · exact ⟨m, List.mem_append_left _ hm, ho⟩
  · exact ⟨m, List.mem_append_right _ hm, ho⟩

/-- some set has `k` with an optional at the top or among the union members of its type -/
def HasOptIn (sets : List Fields) (k : String) : Prop := ∃ fs ∈ sets, ∃ u, (k, u) ∈ fs ∧ HasOptMember u

/-- the binding of `k` (if any) has an optional at its top or among its union members -/
def Sk (k : String) (fs : Fields) : Prop := ∀ t, fs.get? k = some t → HasOptMember t

theorem Sk_set {k name : String} {v : Ty} {fs : Fields}
    (h1 : name = k → HasOptMember v) (h2 : name ≠ k → Sk k fs) : Sk k (fs.set name v) := by
  intro t ht
  rw [Fields.get?_set'] at ht
  by_cases hn : name = k
  · simp only [hn, if_true, Option.some.injEq] at ht; subst ht; exact h1 hn
  · simp only [hn, if_false] at ht; exact h2 hn t ht

/-- once the binding of `k` is optional-like it stays so -/
theorem mergeOne_S_keep {c e first fs fs' name field} {k : String}
    (h : mergeOne c e first fs name field = .ok fs') (hs : Sk k fs) (hk : k ∈ fs.keys) : Sk k fs' := by
  rcases mergeOne_cases' h with ⟨hg, h2⟩ | ⟨orig, hg, ⟨h2, _⟩ | ⟨oi, _, h2⟩ | ⟨_, h2⟩ | ⟨_, ⟨fi, hfi, _⟩, h2⟩⟩
  · subst h2
    refine Sk_set (fun hn => ?_) (fun _ => hs)
    subst hn
    exact absurd hk (Fields.get?_eq_none.1 hg)
  · subst h2; exact hs
  · subst h2
    exact Sk_set (fun _ => hasOptMember_of_isOpt rfl) (fun _ => hs)
  · subst h2
    refine Sk_set (fun hn => ?_) (fun _ => hs)
    subst hn
    exact hasOptMember_collapse_merge_of (.inr (hs orig hg))
  · subst h2; subst hfi
    exact Sk_set (fun _ => hasOptMember_of_isOpt rfl) (fun _ => hs)

/-- an incoming optional-like type for `k` makes the binding of `k` optional-like -/
theorem mergeOne_S_new {c e first fs fs' name field} {k : String}
    (h : mergeOne c e first fs name field = .ok fs') (hn : name = k) (hf : HasOptMember field) : Sk k fs' := by
  subst hn
  rcases mergeOne_cases' h with ⟨hg, h2⟩ | ⟨orig, hg, ⟨h2, hr⟩ | ⟨oi, _, h2⟩ | ⟨_, h2⟩ | ⟨_, _, h2⟩⟩
  · subst h2
    refine Sk_set (fun _ => ?_) (fun hne => absurd rfl hne)
    split
    · exact hf
    · exact hasOptMember_of_isOpt rfl
  · subst h2
    intro t ht
    rw [hg] at ht; cases ht
    rcases hr with hr | hr
    · exact hasOptMember_of_isOpt hr
    · exact (EqEnv.eq_hasOpt hr).2 hf
  · subst h2
    exact Sk_set (fun _ => hasOptMember_of_isOpt rfl) (fun hne => absurd rfl hne)
  · subst h2
    exact Sk_set (fun _ => hasOptMember_collapse_merge_of (.inl hf)) (fun hne => absurd rfl hne)
  · subst h2
    exact Sk_set (fun _ => hf) (fun hne => absurd rfl hne)

theorem mergeItems_S {c e first fs m r} {k : String} (h : mergeItems c e first fs m = .ok r)
    (hs : (Sk k fs ∧ k ∈ fs.keys) ∨ ∃ kv ∈ m, kv.1 = k ∧ HasOptMember kv.2) : Sk k r ∧ k ∈ r.keys := by
  induction m generalizing fs with
  | nil =>
    rw [mergeItems_nil, Except.ok.injEq] at h; subst h
    rcases hs with hs | ⟨kv, hkv, _⟩
    · exact hs
    · cases hkv
  | cons kv m ih =>
    obtain ⟨fs', h1, h2⟩ := mergeItems_cons.1 h
    apply ih h2
    have hkeys := mergeOne_keys h1
    rcases hs with ⟨hs, hk⟩ | ⟨kv', hkv', hk', hh⟩
    · exact .inl ⟨mergeOne_S_keep h1 hs hk, by rw [hkeys]; exact mem_dstep.2 (.inl hk)⟩
    · rcases List.mem_cons.1 hkv' with e | hm
      · subst e
        exact .inl ⟨mergeOne_S_new h1 hk' hh, by rw [hkeys]; exact mem_dstep.2 (.inr hk'.symm)⟩
      · exact .inr ⟨kv', hm, hk', hh⟩

theorem get?_map_wrapMissing (before : List String) (m fs : Fields) (k : String) :
    Fields.get? (fs.map (wrapMissing before m)) k = (Fields.get? fs k).map (fun t => (wrapMissing before m (k, t)).2) := by
  induction fs with
  | nil => rfl
  | cons kv fs ih =>
    rw [List.map_cons, Fields.get?_cons, Fields.get?_cons, wrapMissing_fst]
    by_cases hk : kv.1 = k
    · subst hk; simp
    · simp only [hk, if_false]; exact ih

theorem Sk_map_wrapMissing {before : List String} {m fs : Fields} {k : String} (hs : Sk k fs) :
    Sk k (fs.map (wrapMissing before m)) := by
  intro t ht
  rw [get?_map_wrapMissing] at ht
  cases hg : Fields.get? fs k with
  | none => rw [hg] at ht; cases ht
  | some t0 =>
    rw [hg] at ht
    simp only [Option.map_some, Option.some.injEq] at ht
    subst ht
    unfold wrapMissing
    split
    · exact hasOptMember_of_isOpt rfl
    · exact hs t0 hg

theorem mergeStep_S {c e first fields m r} {k : String} (h : mergeStep c e first fields m = .ok r)
    (hs : (Sk k fields ∧ k ∈ fields.keys) ∨ ∃ kv ∈ m, kv.1 = k ∧ HasOptMember kv.2) :
    Sk k r ∧ k ∈ r.keys := by
  obtain ⟨fs1, h1, h2⟩ := mergeStep_eq.1 h
  subst h2
  obtain ⟨a, b⟩ := mergeItems_S h1 hs
  exact ⟨Sk_map_wrapMissing a, by rw [keys_map_wrapMissing]; exact b⟩

theorem go_S {c e first fields sets r} {k : String} (h : mergeFieldSets.go c e first fields sets = .ok r)
    (hs : (Sk k fields ∧ k ∈ fields.keys) ∨ HasOptIn sets k) : Sk k r ∧ k ∈ r.keys := by
  induction sets generalizing first fields with
  | nil =>
    simp [mergeFieldSets.go, pure, Except.pure] at h; subst h
    rcases hs with hs | ⟨fs, hfs, _⟩
    · exact hs
    · cases hfs
  | cons m ms ih =>
    rw [mergeFieldSets.go, Except.bind_ok_iff] at h
    obtain ⟨f1, h1, h2⟩ := h
    apply ih h2
    rcases hs with hs | ⟨fs, hfs, u, hu, hh⟩
    · exact .inl (mergeStep_S h1 (.inl hs))
    · rcases List.mem_cons.1 hfs with e | hfs
      · subst e
        exact .inl (mergeStep_S h1 (.inr ⟨(k, u), hu, rfl, hh⟩))
      · exact .inr ⟨fs, hfs, u, hu, hh⟩

/-- **optional-like somewhere ⇒ optional-like in the merge** (unconditional; false before the repair of
    generator.py:155) -/
theorem mergeFieldSets_hasOpt_of_in {c e sets r} (h : mergeFieldSets c e sets = .ok r)
    {k : String} {t : Ty} (hm : (k, t) ∈ r) (ho : HasOptIn sets k) : HasOptMember t := by
  have hk := mergeFieldSets_keys h
  have nd : r.keys.Nodup := by rw [hk]; exact nodup_dedupStr _
  unfold mergeFieldSets at h
  exact (go_S h (.inr ho)).1 t (Fields.get?_of_mem_nodup nd hm)

/-! the other direction, without `NoNestedOpt` -/

theorem mergeStep_R' {c e} {done : List Fields} {fields m r : Fields} {k : String}
    (h : mergeStep c e done.isEmpty fields m = .ok r)
    (hk : fields.keys = (done.flatMap Fields.keys).foldl dstep [])
    (hr : ¬ HasOptIn done k → ¬ AbsentIn done k → Rk k fields)
    (ho : ¬ HasOptIn (done ++ [m]) k) (ha : ¬ AbsentIn (done ++ [m]) k) : Rk k r := by
  obtain ⟨fs1, h1, h2⟩ := mergeStep_eq.1 h
  subst h2
  have ho' : ¬ HasOptIn done k := fun ⟨fs, h1, h2⟩ => ho ⟨fs, List.mem_append_left _ h1, h2⟩
  have ha' : ¬ AbsentIn done k := fun ⟨fs, h1, h2⟩ => ha ⟨fs, List.mem_append_left _ h1, h2⟩
  have hkm : k ∈ m.keys := by
    apply Classical.byContradiction
    intro hn; exact ha ⟨m, by simp, hn⟩
  have hfm : ∀ kv ∈ m, kv.1 = k → ¬ HasOptMember kv.2 := by
    intro kv hkv hke hh
    exact ho ⟨m, by simp, kv.2, by rw [← hke]; exact hkv, hh⟩
  have hc : done.isEmpty = true ∨ k ∈ fields.keys := by
    cases done with
    | nil => exact .inl rfl
    | cons d ds =>
      right
      rw [hk, mem_foldl_dstep]
      right
      have : k ∈ d.keys := by
        apply Classical.byContradiction
        intro hn; exact ha' ⟨d, List.mem_cons_self .., hn⟩
      simp only [List.flatMap_cons, List.mem_append]
      exact .inl this
  exact Rk_map_wrapMissing_of_present (mergeItems_R h1 (hr ho' ha') hfm hc) hkm

theorem go_R' {c e} {done : List Fields} {fields : Fields} {rest : List Fields} {r : Fields}
    (h : mergeFieldSets.go c e done.isEmpty fields rest = .ok r)
    (hk : fields.keys = (done.flatMap Fields.keys).foldl dstep [])
    (hr : ∀ k, ¬ HasOptIn done k → ¬ AbsentIn done k → Rk k fields) :
    ∀ k, ¬ HasOptIn (done ++ rest) k → ¬ AbsentIn (done ++ rest) k → Rk k r := by
  induction rest generalizing done fields with
  | nil => simp [mergeFieldSets.go, pure, Except.pure] at h; subst h; simpa using hr
  | cons m ms ih =>
    rw [mergeFieldSets.go, Except.bind_ok_iff] at h
    obtain ⟨f1, h1, h2⟩ := h
    have hk1 : f1.keys = ((done ++ [m]).flatMap Fields.keys).foldl dstep [] := by
      rw [mergeStep_keys h1, hk, List.flatMap_append, List.foldl_append]
      simp
    have hr1 : ∀ k, ¬ HasOptIn (done ++ [m]) k → ¬ AbsentIn (done ++ [m]) k → Rk k f1 :=
      fun k ho ha => mergeStep_R' h1 hk (hr k) ho ha
    have he : (done ++ [m]).isEmpty = false := by simp
    have := ih (done := done ++ [m]) (he ▸ h2) hk1 hr1
    simpa using this

/-- **optional-like in the merge ⇒ optional-like somewhere or absent somewhere** (unconditional) -/
theorem mergeFieldSets_hasOpt_only_if {c e sets r} (h : mergeFieldSets c e sets = .ok r)
    {k : String} {t : Ty} (hm : (k, t) ∈ r) (ho : HasOptMember t) :
    HasOptIn sets k ∨ AbsentIn sets k := by
  unfold mergeFieldSets at h
  apply Classical.byContradiction
  intro hn
  have hn1 : ¬ HasOptIn sets k := fun h => hn (.inl h)
  have hn2 : ¬ AbsentIn sets k := fun h => hn (.inr h)
  have := go_R' (done := []) (by simpa using h) rfl
    (by intro k _ _ kv hkv; simp at hkv) k (by simpa using hn1) (by simpa using hn2)
  exact this _ hm rfl ho

/-- **the optional-like status of a merged field**, for arbitrary field sets (`DOptional` fields, unions
    with `DOptional` members, … allowed): the merged type of `k` has an optional at its top or among its union
    members iff some set has `k` with such a type or some set lacks `k`. -/
theorem mergeFieldSets_hasOpt_iff {c e sets r} (h : mergeFieldSets c e sets = .ok r)
    {k : String} {t : Ty} (hm : (k, t) ∈ r) :
    HasOptMember t ↔ HasOptIn sets k ∨ AbsentIn sets k := by
  constructor
  · exact mergeFieldSets_hasOpt_only_if h hm
  · rintro (h1 | h1)
    · exact mergeFieldSets_hasOpt_of_in h hm h1
    · exact hasOptMember_of_isOpt (mergeFieldSets_opt_of_absent h hm h1)

end J2M
