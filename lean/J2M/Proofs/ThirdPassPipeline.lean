/-
  C08, identity of a further pass at the registry stage — part C: the pipeline.
  * `AllK cfg g`: every field of every registered model has sorted literal sets (`C08P.rawK`).
  * `buildGraph_allK`: true after `generate` + `process_meta_data` (all inputs; `ThirdPassLitK.lean`).
  * `mergeModels_stable`: if every field of every registered model is `out` and `rawK`, then after `merge_models`
    every field of every registered model is `stable` — a fixed point of `optimize_type`.
-/
import J2M.Proofs.ThirdPassLitK
import J2M.Proofs.ThirdPassB
namespace J2M.ThirdPass
open J2M J2M.C08P J2M.TwoPass J2M.Reg

/-! ## 1. `rawK` does not look at pointer targets -/

theorem substFields_keys (σ : String → String) : ∀ fs : List (String × Ty),
    (substFields σ fs).map (·.1) = fs.map (·.1)
  | [] => rfl
  | (k, t) :: fs => by simp [substFields, substFields_keys σ fs]

mutual
theorem rawK_subst (cfg : GenCfg) (σ : String → String) : ∀ t, rawK cfg (substTy σ t) = rawK cfg t
  | .int | .float | .bool | .str | .null | .unknown | .ser _ | .lit _ _ | .ptr _ => by simp [substTy, rawK]
  | .list t | .dict t | .opt t => by simp only [substTy, rawK]; exact rawK_subst cfg σ t
  | .union ts | .tuple ts => by simp only [substTy, rawK]; exact rawKList_subst cfg σ ts
  | .obj fs => by simp only [substTy, rawK, substFields_keys, rawKFields_subst cfg σ fs]
theorem rawKList_subst (cfg : GenCfg) (σ : String → String) : ∀ ts, rawKList cfg (substList σ ts) = rawKList cfg ts
  | [] => rfl
  | t :: ts => by simp only [substList, rawKList, rawK_subst cfg σ t, rawKList_subst cfg σ ts]
theorem rawKFields_subst (cfg : GenCfg) (σ : String → String) :
    ∀ fs, rawKFields cfg (substFields σ fs) = rawKFields cfg fs
  | [] => rfl
  | (k, t) :: fs => by simp only [substFields, rawKFields, rawK_subst cfg σ t, rawKFields_subst cfg σ fs]
end

/-! ## 2. the invariant and one `optimize_type(model_meta)` -/

/-- every field of every registered model has sorted literal sets -/
def AllK (cfg : GenCfg) (g : Graph) : Prop := ∀ m ∈ g.models, ∀ kv ∈ m.fields, rawK cfg kv.2 = true

/-- every field of every registered model is `stable` -/
def AllStable (cfg : GenCfg) (g : Graph) : Prop := ∀ m ∈ g.models, ∀ kv ∈ m.fields, stable cfg kv.2 = true

/-- the fields of `optimize_type` on a field dict are `optimize_type` of the fields -/
theorem obj_fields_inv {cfg : GenCfg} {e : EqEnv} {fuel : Nat} {fs fs' : Fields}
    (h : optimize cfg e fuel (.obj fs) = .ok (.obj fs')) :
    ∃ f, ∀ kv' ∈ fs', ∃ kv ∈ fs, optimize cfg e f kv.2 = .ok kv'.2 := by
  cases fuel with
  | zero => simp [optimize] at h
  | succ f =>
    rw [optimize] at h
    simp only [bind, Except.bind] at h
    split at h
    · cases h
    · rename_i r hr
      simp only [pure, Except.pure, Except.ok.injEq, Ty.obj.injEq] at h
      subst h
      refine ⟨f, ?_⟩
      intro kv' hkv'
      obtain ⟨kv, hkv, hopt⟩ := C08P.mapM_mem_inv _ _ _ hr kv' hkv'
      split at hopt
      · cases hopt
      · rename_i v hv
        simp only [pure, Except.pure, Except.ok.injEq] at hopt
        subst hopt
        exact ⟨kv, hkv, hv⟩

theorem optimize_obj_fieldsK {cfg : GenCfg} {e : EqEnv} {fuel : Nat} {fs fs' : Fields}
    (h : optimize cfg e fuel (.obj fs) = .ok (.obj fs')) :
    ((∀ kv ∈ fs, adm cfg kv.2 = true ∧ rawK cfg kv.2 = true) → ∀ kv ∈ fs', rawK cfg kv.2 = true) ∧
    ((∀ kv ∈ fs, out cfg kv.2 = true ∧ rawK cfg kv.2 = true) → ∀ kv ∈ fs', stable cfg kv.2 = true) := by
  obtain ⟨f, key⟩ := obj_fields_inv h
  constructor
  · intro ha kv' hkv'
    obtain ⟨kv, hkv, hv⟩ := key kv' hkv'
    exact optimize_adm_rawK cfg e f _ _ (ha kv hkv).1 (ha kv hkv).2 hv
  · intro ho kv' hkv'
    obtain ⟨kv, hkv, hv⟩ := key kv' hkv'
    exact optimize_out_stable cfg e f _ _ (ho kv hkv).1 (ho kv hkv).2 hv

/-- `optimize_type(model_meta)` on a registry whose fields are `out` with sorted literal sets: the literal sets
    stay sorted, and the models with that index now have `stable` fields -/
theorem optimizeModel_K {cfg : GenCfg} {so : StrOracle} {g g' : Graph} {i : String} (hg : AllOut cfg g)
    (hk : AllK cfg g) (h : optimizeModel cfg so g i = .ok g') :
    AllK cfg g' ∧ (∀ m ∈ g'.models, m.idx = i → ∀ kv ∈ m.fields, stable cfg kv.2 = true) := by
  rcases optimizeModel_eq h with ⟨hnone, rfl⟩ | ⟨m, fs', hfind, hopt, _, rfl⟩
  · refine ⟨hk, ?_⟩
    intro m hm hi
    exfalso
    rw [find?_eq_none_iff] at hnone
    exact hnone (hi ▸ List.mem_map_of_mem hm)
  · obtain ⟨hm, _⟩ := find?_eq_some hfind
    obtain ⟨h1, h2⟩ := optimize_obj_fieldsK hopt
    have hoK := h1 (fun kv hkv => ⟨out_adm cfg _ (hg m hm kv hkv), hk m hm kv hkv⟩)
    have hs := h2 (fun kv hkv => ⟨hg m hm kv hkv, hk m hm kv hkv⟩)
    refine ⟨?_, ?_⟩
    · intro m' hm'
      rw [setFields_models] at hm'
      rcases mem_setF hm' with ⟨hm0, _⟩ | ⟨m0, _, _, rfl⟩
      · exact hk m' hm0
      · exact hoK
    · intro m' hm' hi
      rw [setFields_models] at hm'
      rcases mem_setF hm' with ⟨_, hne⟩ | ⟨m0, _, _, rfl⟩
      · exact absurd hi hne
      · exact hs

/-! ## 3. one group: `_merge` + `optimize_type(model_meta)` -/

theorem groupStepM_K {cfg : GenCfg} {so : StrOracle} {st st' : Graph × List (String × List String)}
    {members : List String} (hg : AllOut cfg st.1) (hk : AllK cfg st.1)
    (h : groupStepM cfg so st members = .ok st') : AllK cfg st'.1 := by
  obtain ⟨g1, idx, h1, h2, _⟩ := groupStepM_ok h
  obtain ⟨F, nm, ng, hF, _, rfl⟩ := mergeGroup_eq h1
  have hFadm : ∀ kv ∈ F, adm cfg kv.2 = true := by
    apply mergeFieldSets_adm _ hF
    intro fs hfs kv hkv
    obtain ⟨m, hm, rfl⟩ := List.mem_map.1 hfs
    exact hg m (memberModels_sub m hm).1 kv hkv
  have hFk : ∀ kv ∈ F, rawK cfg kv.2 = true := by
    apply (mergeFieldSets_rawK _ hF).2
    intro fs hfs kv hkv
    obtain ⟨m, hm, rfl⟩ := List.mem_map.1 hfs
    exact hk m (memberModels_sub m hm).1 kv hkv
  have hold : ∀ m ∈ (st.1.models.filter (fun m => !members.contains m.idx)).map (substModel (σOf members idx)),
      ∀ kv ∈ m.fields, adm cfg kv.2 = true ∧ rawK cfg kv.2 = true := by
    intro m hm kv hkv
    obtain ⟨m0, hm0, rfl⟩ := List.mem_map.1 hm
    simp only [substModel, substFields_eq_map, List.mem_map] at hkv
    obtain ⟨kv0, hkv0, rfl⟩ := hkv
    simp only [adm_subst, rawK_subst]
    exact ⟨out_adm cfg _ (hg m0 (List.mem_filter.1 hm0).1 kv0 hkv0), hk m0 (List.mem_filter.1 hm0).1 kv0 hkv0⟩
  have hnew : ∀ kv ∈ substFields (σOf members idx) F, adm cfg kv.2 = true ∧ rawK cfg kv.2 = true := by
    intro kv hkv
    simp only [substFields_eq_map, List.mem_map] at hkv
    obtain ⟨kv0, hkv0, rfl⟩ := hkv
    simp only [adm_subst, rawK_subst]
    exact ⟨hFadm kv0 hkv0, hFk kv0 hkv0⟩
  rcases optimizeModel_eq h2 with ⟨hnone, _⟩ | ⟨m, fs', hfind, hopt, _, hg'⟩
  · exfalso
    rw [find?_eq_none_iff] at hnone
    apply hnone
    simp [idxs, mergedGraph]
  · obtain ⟨hm, _⟩ := find?_eq_some hfind
    have hmadm : ∀ kv ∈ m.fields, adm cfg kv.2 = true ∧ rawK cfg kv.2 = true := by
      simp only [mergedGraph, List.mem_append, List.mem_singleton] at hm
      rcases hm with hm | rfl
      · exact hold m hm
      · exact hnew
    have ho := (optimize_obj_fieldsK hopt).1 hmadm
    rw [hg']
    intro m' hm'
    rw [setFields_models] at hm'
    rcases mem_setF hm' with ⟨hm0, hne⟩ | ⟨m0, _, _, rfl⟩
    · simp only [mergedGraph, List.mem_append, List.mem_singleton] at hm0
      rcases hm0 with hm0 | rfl
      · exact fun kv hkv => (hold m' hm0 kv hkv).2
      · exact absurd rfl hne
    · exact ho

theorem groupsFold_K {cfg : GenCfg} {so : StrOracle} : ∀ (Ms : List (List String))
    (st st' : Graph × List (String × List String)), AllOut cfg st.1 → AllK cfg st.1 →
    Ms.foldlM (groupStepM cfg so) st = .ok st' → AllK cfg st'.1
  | [], st, st', _, hk, h => by
    simp only [List.foldlM_nil, pure, Except.pure, Except.ok.injEq] at h
    subst h; exact hk
  | M :: Ms, st, st', hg, hk, h => by
    rw [List.foldlM_cons] at h
    simp only [bind, Except.bind] at h
    split at h
    · cases h
    · rename_i st1 h1
      exact groupsFold_K Ms st1 st' (groupStepM_out hg h1) (groupStepM_K hg hk h1) h

/-! ## 4. the final pass -/

theorem finalPass_stable {cfg : GenCfg} {so : StrOracle} : ∀ (is : List String) (g g' : Graph) (done : List String),
    AllOut cfg g → AllK cfg g → (∀ m ∈ g.models, m.idx ∈ done → ∀ kv ∈ m.fields, stable cfg kv.2 = true) →
    is.foldlM (fun g i => optimizeModel cfg so g i) g = .ok g' →
    AllK cfg g' ∧ ∀ m ∈ g'.models, m.idx ∈ done ++ is → ∀ kv ∈ m.fields, stable cfg kv.2 = true
  | [], g, g', done, _, hk, hd, h => by
    simp only [List.foldlM_nil, pure, Except.pure, Except.ok.injEq] at h
    subst h
    exact ⟨hk, by simpa using hd⟩
  | i :: is, g, g', done, hg, hk, hd, h => by
    rw [List.foldlM_cons] at h
    simp only [bind, Except.bind] at h
    split at h
    · cases h
    · rename_i g1 h1
      obtain ⟨ho1, _, _, hk1⟩ := optimizeModel_out hg h1
      obtain ⟨hK1, hs1⟩ := optimizeModel_K hg hk h1
      have hd1 : ∀ m ∈ g1.models, m.idx ∈ done ++ [i] → ∀ kv ∈ m.fields, stable cfg kv.2 = true := by
        intro m hm hmi
        by_cases hi : m.idx = i
        · exact hs1 m hm hi
        · have : m.idx ∈ done := by
            rcases List.mem_append.1 hmi with h' | h'
            · exact h'
            · simp at h'; exact absurd h' hi
          exact hd m (hk1 m hm hi) this
      obtain ⟨h2, h4⟩ := finalPass_stable is g1 g' (done ++ [i]) ho1 hK1 hd1 h
      refine ⟨h2, ?_⟩
      intro m hm hmi
      exact h4 m hm (by simpa using hmi)

/-! ## 5. `merge_models` -/

/-- **`merge_models` ends with `stable` fields**: if every field of every registered model is `out` with sorted
    literal sets, then after `merge_models` (any comparators, any `==`) every field of every registered model is
    `stable` (and the invariants hold again) -/
theorem mergeModels_stable {cfg : GenCfg} {so : StrOracle} {cmps : List Cmp} {g g' : Graph}
    {repl : List (String × List String)} (hg : AllOut cfg g) (hk : AllK cfg g)
    (h : mergeModels cfg so cmps g = .ok (g', repl)) : AllStable cfg g' ∧ AllK cfg g' := by
  obtain ⟨tbl, groups, gm, _, _, hfold, hfinal⟩ := mergeModels_eq h
  rw [groupStep_eq, ← List.foldlM_map] at hfold
  have hgm : AllOut cfg gm := groupsFold_out _ (g, []) (gm, repl) hg hfold
  have hkm : AllK cfg gm := groupsFold_K _ (g, []) (gm, repl) hg hk hfold
  obtain ⟨_, h2, _⟩ := finalPass_nf (idxs gm) gm g' [] hgm (by simp) hfinal
  obtain ⟨h1, h3⟩ := finalPass_stable (idxs gm) gm g' [] hgm hkm (by simp) hfinal
  refine ⟨?_, h1⟩
  intro m hm
  apply h3 m hm
  rw [List.nil_append, ← h2]
  exact List.mem_map_of_mem hm

/-! ## 6. `generate` + `process_meta_data` -/

mutual
/-- a canonical normal form has sorted literal sets -/
theorem nfc_rawK (cfg : GenCfg) : ∀ t, nfc cfg t = true → rawK cfg t = true
  | .int, _ | .float, _ | .bool, _ | .str, _ | .null, _ | .unknown, _ | .ser _, _ | .ptr _, _ => by simp [rawK]
  | .lit ov vs, h => by
    simp only [nfc, Bool.and_eq_true, Bool.not_eq_true'] at h
    simp [rawK, h.2]
  | .list t, h | .dict t, h => by
    simp only [nfc, Bool.and_eq_true] at h
    simp only [rawK]; exact nfc_rawK cfg t h.2
  | .opt t, h => by
    simp only [nfc, Bool.and_eq_true] at h
    simp only [rawK]; exact nfc_rawK cfg t h.2
  | .union ts, h => by
    simp only [nfc, Bool.and_eq_true] at h
    simp only [rawK]; exact nfcList_rawK cfg ts h.2
  | .tuple ts, h => by
    simp only [nfc] at h
    simp only [rawK]; exact nfcList_rawK cfg ts h
  | .obj fs, h => by
    simp only [nfc, Bool.and_eq_true] at h
    simp only [rawK, Bool.and_eq_true]; exact ⟨h.1, nfcFields_rawK cfg fs h.2⟩
theorem nfcList_rawK (cfg : GenCfg) : ∀ ts, nfcList cfg ts = true → rawKList cfg ts = true
  | [], _ => by simp [rawKList]
  | t :: ts, h => by
    simp only [nfcList, Bool.and_eq_true] at h
    simp only [rawKList, Bool.and_eq_true]; exact ⟨nfc_rawK cfg t h.1, nfcList_rawK cfg ts h.2⟩
theorem nfcFields_rawK (cfg : GenCfg) : ∀ fs, nfcFields cfg fs = true → rawKFields cfg fs = true
  | [], _ => by simp [rawKFields]
  | (_, t) :: fs, h => by
    simp only [nfcFields, Bool.and_eq_true] at h
    simp only [rawKFields, Bool.and_eq_true]; exact ⟨nfc_rawK cfg t h.1, nfcFields_rawK cfg fs h.2⟩
end

/-- **every field of every model registered by `buildGraph` has sorted literal sets** — all inputs, options,
    oracles (no hypothesis): `buildGraph_allLitK`, and `litK` is `rawK` on `out` types -/
theorem buildGraph_allK {cfg : GenCfg} {o : GenOracles} {inputs : List (String × List Json)} {g : Graph}
    (h : buildGraph cfg o inputs = .ok g) : AllK cfg g :=
  fun m hm kv hkv =>
    out_litK_rawK cfg kv.2 (buildGraph_allOut h m hm kv hkv) (buildGraph_allLitK h m hm kv hkv)

end J2M.ThirdPass
