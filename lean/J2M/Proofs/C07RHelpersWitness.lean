/-
  C07, registry stage — helper development, part 4: a concrete registry on which `merge_models` returns for one
  order of the models and raises `RecursionError` for another (evaluation of the successful run by `simp`; the
  kernel cannot unfold `flattenUnion`).
-/
import J2M.Proofs.C07RHelpersFields
namespace J2M.C07RH
open J2M J2M.Reg

/-- two self-referential models (what merging a recursive structure leaves behind) with the same key … -/
def wP : Model := { idx := "1A", fields := [("a", .ptr "1A")] }
def wQ : Model := { idx := "1B", fields := [("a", .ptr "1B")] }
/-- … and three models with one key `f`: an `int`, a pointer to `wP`, a pointer to `wQ` -/
def wM1 : Model := { idx := "1C", fields := [("f", .int)] }
def wM2 : Model := { idx := "1D", fields := [("f", .ptr "1A")] }
def wM3 : Model := { idx := "1E", fields := [("f", .ptr "1B")] }
def wA : Graph := { models := [wP, wQ, wM1, wM2, wM3], ptrs := [], counter := 5 }
def wB : Graph := { models := [wP, wQ, wM2, wM3, wM1], ptrs := [], counter := 5 }
def wCfg : GenCfg := ⟨⟨15, 20⟩, ⟨[], [], []⟩, [], []⟩
/-- only the `f`-models are similar to each other -/
def wCmp : List Cmp := [.table [("f", "f")]]

theorem wA_WF : WF wA := by
  refine ⟨by decide, ?_, ?_, by simp [wA]⟩
  · intro m hm
    simp only [wA, List.mem_cons, List.not_mem_nil, or_false] at hm
    rcases hm with rfl | rfl | rfl | rfl | rfl
    · exact ⟨0, by decide, by decide +kernel⟩
    · exact ⟨1, by decide, by decide +kernel⟩
    · exact ⟨2, by decide, by decide +kernel⟩
    · exact ⟨3, by decide, by decide +kernel⟩
    · exact ⟨4, by decide, by decide +kernel⟩
  · intro m hm i hi
    simp only [wA, List.mem_cons, List.not_mem_nil, or_false] at hm
    rcases hm with rfl | rfl | rfl | rfl | rfl <;>
      simp [wP, wQ, wM1, wM2, wM3, ptrsOfFields, ptrsOf] at hi <;> subst hi <;> decide

theorem wA_same : SameModels wA wB :=
  ⟨List.Perm.cons _ (List.Perm.cons _ (List.perm_append_comm (l₁ := [wM1]) (l₂ := [wM2, wM3]))), .refl _, rfl⟩

/-- order `wM2, wM3, wM1`: `_merge` compares `ModelPtr(wP) == ModelPtr(wQ)`, which never returns -/
theorem wB_err : (match mergeModels wCfg StrOracle.default wCmp wB with
    | .error .recursion => true | _ => false) = true := by decide +kernel

/-! ### order `wM1, wM2, wM3`: no two pointers are compared -/

def wF : Model := { idx := "1F", fields := [("f", .union [.ptr "1B", .ptr "1A", .int])] }
def wA1 : Graph := { models := [wP, wQ, wF], ptrs := [], counter := 6 }

theorem w_hB : hashStr (.ptr "1B") = "ModelPtr_#1B" := by decide +kernel
theorem w_hA : hashStr (.ptr "1A") = "ModelPtr_#1A" := by decide +kernel
theorem w_hI : hashStr .int = "<class 'int'>" := by decide +kernel

theorem eq_int_ptr (e : EqEnv) {n : Nat} (h : e.fuel = n + 1) (i : String) : e.eq .int (.ptr i) = .ok false := by
  simp [EqEnv.eq, h, pyEq, pure, Except.pure]
theorem eq_union_ptr (e : EqEnv) {n : Nat} (h : e.fuel = n + 1) (xs : List Ty) (i : String) :
    e.eq (.union xs) (.ptr i) = .ok false := by
  simp [EqEnv.eq, h, pyEq, pure, Except.pure]
theorem w_fuel : (wA.eqEnv StrOracle.default).fuel = 199 + 1 := rfl

theorem w_mfs : mergeFieldSets wCfg.lit (wA.eqEnv StrOracle.default)
      [[("f", .int)], [("f", .ptr "1A")], [("f", .ptr "1B")]] =
    .ok [("f", .union [.ptr "1B", .ptr "1A", .int])] := by
  simp [mergeFieldSets, mergeFieldSets.go, mergeStep, mergeOne, Fields.get?, Fields.set, Fields.keys,
    Fields.has, Ty.isOpt, eq_int_ptr _ w_fuel, eq_union_ptr _ w_fuel, bind, Except.bind, pure, Except.pure,
    Ty.unionMembers, mkUnionMembers, flattenUnion, handleType, w_hA, w_hB, w_hI, Ty.isStr]

theorem w_members : (["1C", "1D", "1E"].filterMap wA.find?) = [wM1, wM2, wM3] := by rfl

theorem w_step1 : mergeGroup wCfg StrOracle.default wA ["1C", "1D", "1E"] = .ok (wA1, "1F") := by
  have e : List.map (fun x => x.fields) [wM1, wM2, wM3] =
      [[("f", .int)], [("f", .ptr "1A")], [("f", .ptr "1B")]] := rfl
  unfold mergeGroup
  simp only [w_members, e, w_mfs, bind, Except.bind]
  rfl

theorem w_opt_union3 (e : EqEnv) (n : Nat) : optimize wCfg e (n + 3) (.union [.ptr "1B", .ptr "1A", .int]) =
    .ok (.union [.ptr "1B", .ptr "1A", .int]) := by
  simp [optimize, optimizeUnion, splitMembers, splitMembersAux, Ty.size, Ty.isInt, Ty.isFloat, Ty.isStr, Ty.isUnknown,
    Ty.isNull, bind, Except.bind, pure, Except.pure, mkUnionMembers, flattenUnion, handleType, w_hA, w_hB, w_hI,
    wCfg]
theorem w_opt_objF (e : EqEnv) (n : Nat) :
    optimize wCfg e (n + 4) (.obj [("f", .union [.ptr "1B", .ptr "1A", .int])]) =
    .ok (.obj [("f", .union [.ptr "1B", .ptr "1A", .int])]) := by
  rw [optimize]
  simp only [List.mapM_cons, List.mapM_nil, w_opt_union3, bind, Except.bind, pure, Except.pure]
theorem w_opt_objP (e : EqEnv) (n : Nat) (i : String) : optimize wCfg e (n + 2) (.obj [("a", .ptr i)]) =
    .ok (.obj [("a", .ptr i)]) := by
  simp [optimize, bind, Except.bind, pure, Except.pure]

theorem w_step2 : optimizeModel wCfg StrOracle.default wA1 "1F" = .ok wA1 := by
  unfold optimizeModel
  have hf : wA1.find? "1F" = some wF := rfl
  have hfuel : Ty.fuelFor (.obj [("f", .union [.ptr "1B", .ptr "1A", .int])]) = 56 + 4 := rfl
  simp only [hf, hfuel, wF, w_opt_objF, bind, Except.bind]
  rfl
theorem w_step3 (i : String) (m : Model) (hf : wA1.find? i = some m) (hm : m.fields = [("a", .ptr i)])
    (hs : wA1.setFields i [("a", .ptr i)] = wA1) : optimizeModel wCfg StrOracle.default wA1 i = .ok wA1 := by
  unfold optimizeModel
  have hfuel : Ty.fuelFor (.obj [("a", .ptr i)]) = 28 + 2 := rfl
  simp only [hf, hm, hfuel, w_opt_objP, bind, Except.bind, hs]
  rfl
theorem w_step4 : (wA1.models.map (·.idx)).foldlM (fun g i => optimizeModel wCfg StrOracle.default g i) wA1 =
    .ok wA1 := by
  have e : wA1.models.map (·.idx) = ["1A", "1B", "1F"] := rfl
  rw [e]
  simp only [List.foldlM_cons, List.foldlM_nil, w_step3 "1A" wP rfl rfl rfl, w_step3 "1B" wQ rfl rfl rfl, w_step2,
    bind, Except.bind, pure, Except.pure]

theorem w_sim : simTable wCmp wA = .ok [[false, false, false, false, false], [false, false, false, false, false],
    [false, false, false, true, true], [false, false, false, false, true], [false, false, false, false, false]] := by
  decide +kernel
theorem w_groups : Closure.mergeGroups (simOfTbl [[false, false, false, false, false],
    [false, false, false, false, false], [false, false, false, true, true], [false, false, false, false, true],
    [false, false, false, false, false]]) 5 = some [[2, 3, 4]] := by decide +kernel

theorem wA_ok : mergeModels wCfg StrOracle.default wCmp wA = .ok (wA1, [("1F", ["1C", "1D", "1E"])]) := by
  unfold mergeModels
  simp only [w_sim, bind, Except.bind]
  have hg := w_groups
  unfold simOfTbl at hg
  have hl : wA.models.length = 5 := rfl
  simp only [hl, hg]
  have hm : List.map (fun p => (List.map (fun x => x.idx) wA.models).getD p "") [2, 3, 4] =
      ["1C", "1D", "1E"] := rfl
  simp only [List.foldlM_cons, List.foldlM_nil, hm, w_step1, w_step2, bind, Except.bind, pure, Except.pure,
    w_step4, List.nil_append]

end J2M.C07RH
