/-
  C02 at the registry stage, part 5: `process_meta_data` keeps tightness, STRICTLY.

  A pointer-free type witnessed in the sense of `C02T.Wit` (what `generate` returns, `C02T.generate_tight`) is
  turned into a registry-stage type that is witnessed in the sense of `GWit`, and every model registered on
  the way is witnessed (`GModel`) by the sub-objects of the sample values that the type routes to it (`At`).
-/
import J2M.Proofs.C02RHelpersMerge
namespace J2M.C02RH
open J2M J2M.C02T J2M.Reg

variable {acc : Accepts}

/-! ### the objects among a value list -/

def objsOf (vs : List Json) : List Json := vs.filter (fun v => match v with | .obj _ => true | _ => false)

theorem mem_objsOf {vs : List Json} {o : Json} : o ∈ objsOf vs ↔ o ∈ vs ∧ ∃ kvs, o = .obj kvs := by
  unfold objsOf
  rw [List.mem_filter]
  constructor
  · rintro ⟨h1, h2⟩
    cases o <;> simp at h2
    exact ⟨h1, _, rfl⟩
  · rintro ⟨h1, kvs, rfl⟩
    exact ⟨h1, rfl⟩

theorem hasObjWithin_objsOf {ks : List String} {vs : List Json} (h : HasObjWithin ks vs) :
    HasObjWithin ks (objsOf vs) := by
  obtain ⟨kvs, hm, hs⟩ := h
  exact ⟨kvs, mem_objsOf.2 ⟨hm, _, rfl⟩, hs⟩

theorem lacksKey_objsOf {k : String} {vs : List Json} (h : LacksKey k vs) : LacksKey k (objsOf vs) := by
  obtain ⟨kvs, hm, hs⟩ := h
  exact ⟨kvs, mem_objsOf.2 ⟨hm, _, rfl⟩, hs⟩

theorem fieldVals_objsOf {k : String} {vs : List Json} : ∀ v ∈ fieldVals k vs, v ∈ fieldVals k (objsOf vs) := by
  intro v hv
  obtain ⟨kvs, hm, hk⟩ := mem_fieldVals.1 hv
  exact mem_fieldVals.2 ⟨kvs, mem_objsOf.2 ⟨hm, _, rfl⟩, hk⟩

/-! ### graph extension facts -/

theorem _root_.J2M.Reg.Ext.mem_models {S g g' new newp} (e : Ext S g g' new newp) {m : Model} (hm : m ∈ g'.models) :
    m ∈ g.models ∨ m ∈ new := by
  rw [e.models] at hm; exact List.mem_append.1 hm

theorem _root_.J2M.Reg.Ext.new_fresh {S g g' new newp} (e : Ext S g g' new newp) (hb : Bounded g) {m : Model} (hm : m ∈ new) :
    m.idx ∉ idxs g := by
  obtain ⟨k, hk, _, e'⟩ := e.range m hm
  rw [e']
  exact hb.fresh hk

theorem mem_idxs_of_mem {g : Graph} {m : Model} (h : m ∈ g.models) : m.idx ∈ idxs g :=
  List.mem_map_of_mem h

/-! ### the main induction -/

/-- what is claimed of the models registered while processing: each is witnessed by objects attributed to it -/
def NewTight (Obj : ObjRel) (acc : Accepts) (g g' : Graph) : Prop :=
  ∀ m ∈ g'.models, m.idx ∉ idxs g → ∃ ws, GModel Obj acc m.fields ws ∧ ∀ o ∈ ws, Obj m.idx o

mutual
theorem processTy_gwit : ∀ (t : Ty) (g : Graph) (pm : Option (String × String)) (a u : Prop) (vs : List Json)
    (L : ModelLookup) (Obj : ObjRel), Bounded g → Wit acc a u t vs → AgreesNew L g (processTy g pm t).1 →
    (∀ j o, At L (processTy g pm t).2 vs j o → Obj j o) →
    GWit Obj acc a u (processTy g pm t).2 vs ∧ NewTight Obj acc g (processTy g pm t).1
  | .obj fs, g, pm, a, u, vs, L, Obj, hb, hw, hL, hObj => by
    rw [wit_obj] at hw
    have e1 := Ext.regNew g pm fs
    obtain ⟨new2, newp2, e2, _, hkeys⟩ :=
      processFields_ext fs (regNew g pm fs) (indexOf g.counter) (e1.bounded hb)
    have hidx1 : indexOf g.counter ∈ idxs (regNew g pm fs) := by rw [e1.idxs_eq]; simp
    have hidx2 : indexOf g.counter ∈ idxs (processFields (regNew g pm fs) (indexOf g.counter) fs).1 := by
      rw [e2.idxs_eq]; exact List.mem_append_left _ hidx1
    rw [processTy_obj] at hL hObj ⊢
    simp only at hL hObj ⊢
    -- the lookup of the new model
    have hLidx : L (indexOf g.counter) = some (processFields (regNew g pm fs) (indexOf g.counter) fs).2 := by
      rw [hL _ (hb.fresh (Nat.le_refl _)) (by simpa using hidx2), look_setFields, if_pos rfl]
      have := look_isSome_iff.2 hidx2
      cases hl : (processFields (regNew g pm fs) (indexOf g.counter) fs).1.look (indexOf g.counter) with
      | none => rw [hl] at this; cases this
      | some x => rfl
    have hL2 : AgreesNew L (regNew g pm fs) (processFields (regNew g pm fs) (indexOf g.counter) fs).1 := by
      intro i hi1 hi2
      have hne : i ≠ indexOf g.counter := fun e => hi1 (e ▸ hidx1)
      have hig : i ∉ idxs g := fun h => hi1 (by rw [e1.idxs_eq]; exact List.mem_append_left _ h)
      rw [hL i hig (by simpa using hi2), look_setFields, if_neg hne]
    have hObjF : ∀ kv ∈ (processFields (regNew g pm fs) (indexOf g.counter) fs).2, ∀ j o,
        At L kv.2 (fieldVals kv.1 vs) j o → Obj j o := by
      intro kv hkv j o ⟨v, hv, hr⟩
      obtain ⟨kvs, hm, hk⟩ := mem_fieldVals.1 hv
      exact hObj j o ⟨_, hm, Reach.into hLidx hkv hk hr⟩
    obtain ⟨hF, hN⟩ := processFields_gwit fs (regNew g pm fs) (indexOf g.counter) vs L Obj (e1.bounded hb)
      hw.2 hL2 hObjF
    obtain ⟨kvs0, hkvs0, _⟩ := hw.1
    have hObjHere : ∀ kvs, Json.obj kvs ∈ vs → Obj (indexOf g.counter) (.obj kvs) :=
      fun kvs hm => hObj _ _ ⟨_, hm, Reach.here⟩
    refine ⟨?_, ?_⟩
    · simp only [GWit]
      exact ⟨kvs0, hkvs0, hObjHere kvs0 hkvs0⟩
    · intro m hm hfresh
      rw [setFields_models] at hm
      rcases mem_setF hm with ⟨hm', hne⟩ | ⟨m0, _, hm0i, rfl⟩
      · refine hN m hm' ?_
        rw [e1.idxs_eq]
        simp only [List.map_cons, List.map_nil, List.mem_append, List.mem_singleton]
        rintro (h | h)
        · exact hfresh h
        · exact hne h
      · refine ⟨objsOf vs, ⟨?_, ?_⟩, ?_⟩
        · rw [hkeys]; exact hasObjWithin_objsOf hw.1
        · intro kv hkv
          exact GWit.mono' lacksKey_objsOf id fieldVals_objsOf (hF kv hkv)
        · intro o ho
          obtain ⟨hm1, kvs, rfl⟩ := mem_objsOf.1 ho
          show Obj m0.idx _
          rw [hm0i]
          exact hObjHere kvs hm1
  | .list t, g, pm, a, u, vs, L, Obj, hb, hw, hL, hObj => by
    rw [processTy_list] at hL hObj ⊢
    simp only [Wit] at hw
    obtain ⟨h1, h2⟩ := processTy_gwit t g pm False (Json.arr [] ∈ vs) (elemsOf vs) L Obj hb hw hL (by
      intro j o ⟨x, hx, hr⟩
      obtain ⟨xs, hm, hxs⟩ := mem_elemsOf.1 hx
      exact hObj j o ⟨_, hm, Reach.list hxs hr⟩)
    exact ⟨by simpa only [GWit] using h1, h2⟩
  | .dict t, g, pm, a, u, vs, L, Obj, hb, hw, hL, hObj => by
    rw [processTy_dict] at hL hObj ⊢
    simp only [Wit] at hw
    obtain ⟨h1, h2⟩ := processTy_gwit t g pm False (Json.obj [] ∈ vs) (valsOf vs) L Obj hb hw hL (by
      intro j o ⟨x, hx, hr⟩
      obtain ⟨kvs, hm, kv, hkv, rfl⟩ := mem_valsOf.1 hx
      exact hObj j o ⟨_, hm, Reach.dict hkv hr⟩)
    exact ⟨by simpa only [GWit] using h1, h2⟩
  | .opt t, g, pm, a, u, vs, L, Obj, hb, hw, hL, hObj => by
    rw [processTy_opt] at hL hObj ⊢
    simp only [Wit] at hw
    obtain ⟨h1, h2⟩ := processTy_gwit t g pm a u vs L Obj hb hw.2 hL (by
      intro j o ⟨x, hx, hr⟩
      exact hObj j o ⟨_, hx, Reach.opt hr⟩)
    exact ⟨by simp only [GWit]; exact ⟨hw.1, h1⟩, h2⟩
  | .union ts, g, pm, a, u, vs, L, Obj, hb, hw, hL, hObj => by
    rw [processTy_union] at hL hObj ⊢
    rw [wit_union] at hw
    obtain ⟨h1, h2, h3⟩ := processList_gwit ts g pm vs L Obj hb hw.2 hL (by
      intro t' ht' j o ⟨x, hx, hr⟩
      exact hObj j o ⟨_, hx, Reach.union ht' hr⟩)
    refine ⟨gwit_union.2 ⟨?_, h1⟩, h2⟩
    intro e
    rw [e] at h3
    exact hw.1 (List.length_eq_zero_iff.1 h3.symm)
  | .tuple _, _, _, _, _, _, _, _, _, hw, _, _ => by simp only [Wit] at hw
  | .ptr _, _, _, _, _, _, _, _, _, hw, _, _ => by simp only [Wit] at hw
  | .int, g, pm, _, _, _, _, _, _, hw, _, _ | .float, g, pm, _, _, _, _, _, _, hw, _, _
  | .bool, g, pm, _, _, _, _, _, _, hw, _, _ | .str, g, pm, _, _, _, _, _, _, hw, _, _
  | .null, g, pm, _, _, _, _, _, _, hw, _, _ | .unknown, g, pm, _, _, _, _, _, _, hw, _, _
  | .ser _, g, pm, _, _, _, _, _, _, hw, _, _ =>
    ⟨by simpa only [processTy, GWit, Wit] using hw,
     fun m hm hf => absurd (mem_idxs_of_mem (by simpa only [processTy] using hm)) hf⟩
  | .lit ov ws, g, pm, _, _, _, _, _, _, hw, _, _ =>
    ⟨by cases ov <;> simpa only [processTy, GWit, Wit] using hw,
     fun m hm hf => absurd (mem_idxs_of_mem (by simpa only [processTy] using hm)) hf⟩
theorem processList_gwit : ∀ (ts : List Ty) (g : Graph) (pm : Option (String × String)) (vs : List Json)
    (L : ModelLookup) (Obj : ObjRel), Bounded g → (∀ t ∈ ts, Wit acc False False t vs) →
    AgreesNew L g (processList g pm ts).1 →
    (∀ t' ∈ (processList g pm ts).2, ∀ j o, At L t' vs j o → Obj j o) →
    (∀ t' ∈ (processList g pm ts).2, GWit Obj acc False False t' vs) ∧
    NewTight Obj acc g (processList g pm ts).1 ∧ (processList g pm ts).2.length = ts.length
  | [], g, pm, _, _, _, _, _, _, _ =>
    ⟨by simp [processList], fun m hm hf => absurd (mem_idxs_of_mem (by simpa only [processList] using hm)) hf,
     by simp [processList]⟩
  | t :: ts, g, pm, vs, L, Obj, hb, hw, hL, hObj => by
    obtain ⟨new1, newp1, e1, _⟩ := processTy_ext t g pm hb
    obtain ⟨new2, newp2, e2, _⟩ := processList_ext ts (processTy g pm t).1 pm (e1.bounded hb)
    rw [processList_cons] at hL hObj ⊢
    simp only at hL hObj ⊢
    obtain ⟨hL1, hL2⟩ := AgreesNew.split e1 e2 hL
    obtain ⟨a1, b1⟩ := processTy_gwit t g pm False False vs L Obj hb (hw t (by simp)) hL1
      (fun j o h => hObj _ (by simp) j o h)
    obtain ⟨a2, b2, c2⟩ := processList_gwit ts (processTy g pm t).1 pm vs L Obj (e1.bounded hb)
      (fun x hx => hw x (List.mem_cons_of_mem _ hx)) hL2
      (fun t' ht' j o h => hObj t' (List.mem_cons_of_mem _ ht') j o h)
    refine ⟨?_, ?_, by simp [c2]⟩
    · intro t' ht'
      rcases List.mem_cons.1 ht' with rfl | ht'
      · exact a1
      · exact a2 t' ht'
    · intro m hm hfresh
      rcases e2.mem_models hm with h | h
      · exact b1 m h hfresh
      · exact b2 m hm (e2.new_fresh (e1.bounded hb) h)
theorem processFields_gwit : ∀ (fs : List (String × Ty)) (g : Graph) (idx : String) (vs : List Json)
    (L : ModelLookup) (Obj : ObjRel), Bounded g →
    (∀ kv ∈ fs, Wit acc (LacksKey kv.1 vs) False kv.2 (fieldVals kv.1 vs)) →
    AgreesNew L g (processFields g idx fs).1 →
    (∀ kv ∈ (processFields g idx fs).2, ∀ j o, At L kv.2 (fieldVals kv.1 vs) j o → Obj j o) →
    (∀ kv ∈ (processFields g idx fs).2, GWit Obj acc (LacksKey kv.1 vs) False kv.2 (fieldVals kv.1 vs)) ∧
    NewTight Obj acc g (processFields g idx fs).1
  | [], g, idx, _, _, _, _, _, _, _ =>
    ⟨by simp [processFields], fun m hm hf => absurd (mem_idxs_of_mem (by simpa only [processFields] using hm)) hf⟩
  | (k, t) :: fs, g, idx, vs, L, Obj, hb, hw, hL, hObj => by
    obtain ⟨new1, newp1, e1, _⟩ := processTy_ext t g (some (idx, k)) hb
    obtain ⟨new2, newp2, e2, _⟩ := processFields_ext fs (processTy g (some (idx, k)) t).1 idx (e1.bounded hb)
    rw [processFields_cons] at hL hObj ⊢
    simp only at hL hObj ⊢
    obtain ⟨hL1, hL2⟩ := AgreesNew.split e1 e2 hL
    obtain ⟨a1, b1⟩ := processTy_gwit t g (some (idx, k)) (LacksKey k vs) False (fieldVals k vs) L Obj hb
      (hw (k, t) (by simp)) hL1 (fun j o h => hObj (k, _) (by simp) j o h)
    obtain ⟨a2, b2⟩ := processFields_gwit fs (processTy g (some (idx, k)) t).1 idx vs L Obj (e1.bounded hb)
      (fun x hx => hw x (List.mem_cons_of_mem _ hx)) hL2
      (fun kv hkv j o h => hObj kv (List.mem_cons_of_mem _ hkv) j o h)
    refine ⟨?_, ?_⟩
    · intro kv hkv
      rcases List.mem_cons.1 hkv with rfl | hkv
      · exact a1
      · exact a2 kv hkv
    · intro m hm hfresh
      rcases e2.mem_models hm with h | h
      · exact b1 m h hfresh
      · exact b2 m hm (e2.new_fresh (e1.bounded hb) h)
end

end J2M.C02RH
