/-
  C07 (generator level), part 14: on canonical normal forms (`nfc`, C08) "same member sets up to order"
  (`NSim`) is "equal up to order" with member lists of the same length (`Sim true`).
-/
import J2M.Proofs.PermN
import J2M.Proofs.Optimize
namespace J2M.Perm
open J2M J2M.C08P

theorem nfc_union {cfg : GenCfg} {ts : List Ty} (h : nfc cfg (.union ts) = true) :
    (∀ t ∈ ts, t.isUnion = false ∧ t.isOpt = false ∧ nfc cfg t = true) ∧ ts.Nodup ∧ 2 ≤ ts.length ∧
    (ts.filter Ty.isList).length ≤ 1 ∧ (ts.filter Ty.isDict).length ≤ 1 ∧ (ts.filter Ty.isObj).length ≤ 1 := by
  simp only [nfc, nfUnionMembers, Bool.and_eq_true, decide_eq_true_eq, List.all_eq_true,
    Bool.not_eq_true', nfcList_iff] at h
  obtain ⟨⟨hA, _⟩, h11⟩ := h
  obtain ⟨hA, h9⟩ := hA
  obtain ⟨hA, h8⟩ := hA
  obtain ⟨hA, h7⟩ := hA
  obtain ⟨hA, _⟩ := hA
  obtain ⟨hA, _⟩ := hA
  obtain ⟨hA, _⟩ := hA
  obtain ⟨⟨h1, h2⟩, h3⟩ := hA
  refine ⟨fun t ht => ⟨(h2 t ht).1.1.1, (h2 t ht).1.1.2, h11 t ht⟩, ?_, h1, h7, h8, h9⟩
  exact List.Pairwise.of_map hashStr (fun _ _ hh e => hh (e ▸ rfl)) ((nodupStr_iff _).1 h3)

theorem two_le_length {l : List Ty} {a b : Ty} (nd : l.Nodup) (ha : a ∈ l) (hb : b ∈ l) (hne : a ≠ b) :
    2 ≤ l.length := by
  match l, nd, ha, hb with
  | [x], _, ha, hb => simp at ha hb; exact absurd (ha.trans hb.symm) hne
  | _ :: _ :: _, _, _, _ => simp

/-- two members of a canonical union that are equal up to order are the same member -/
theorem nfc_uniq {cfg : GenCfg} {ts : List Ty} (h : nfc cfg (.union ts) = true) {a a' : Ty}
    (ha : a ∈ ts) (ha' : a' ∈ ts) (hs : ASim a a') : a = a' := by
  obtain ⟨hm, nd, _, hl, hd, ho⟩ := nfc_union h
  apply Classical.byContradiction
  intro hne
  have key : ∀ (p : Ty → Bool), p a = true → p a' = true → (ts.filter p).length ≤ 1 → False := by
    intro p pa pa' hle
    have := two_le_length (nd.sublist List.filter_sublist) (List.mem_filter.2 ⟨ha, pa⟩)
      (List.mem_filter.2 ⟨ha', pa'⟩) hne
    omega
  cases a
  case list x => obtain ⟨y, rfl, _⟩ := asim_list.1 hs; exact key Ty.isList rfl rfl hl
  case dict x => obtain ⟨y, rfl, _⟩ := asim_dict.1 hs; exact key Ty.isDict rfl rfl hd
  case obj fs => obtain ⟨gs, rfl, _⟩ := asim_obj.1 hs; exact key Ty.isObj rfl rfl ho
  case opt x => have := (hm _ ha).2.1; simp [Ty.isOpt] at this
  case union us => have := (hm _ ha).1; simp [Ty.isUnion] at this
  all_goals exact hne ((asim_leaf (by rfl)).1 hs).symm

open Classical in
theorem inj_length {R : Ty → Ty → Prop} : ∀ (as bs : List Ty), as.Nodup → (∀ a ∈ as, ∃ b ∈ bs, R a b) →
    (∀ a ∈ as, ∀ a' ∈ as, ∀ b, R a b → R a' b → a = a') → as.length ≤ bs.length := by
  intro as
  induction as with
  | nil => intro bs _ _ _; simp
  | cons a as ih =>
    intro bs nd hf hinj
    obtain ⟨b, hb, hab⟩ := hf a (List.mem_cons_self ..)
    have nd' := List.nodup_cons.1 nd
    have hlt : (bs.filter (fun y => decide (y ≠ b))).length < bs.length :=
      List.length_filter_lt_length_iff_exists.2 ⟨b, hb, by simp⟩
    have := ih (bs.filter (fun y => decide (y ≠ b))) nd'.2 ?_ ?_
    · simp; omega
    · intro a' ha'
      obtain ⟨b', hb', hab'⟩ := hf a' (List.mem_cons_of_mem _ ha')
      refine ⟨b', List.mem_filter.2 ⟨hb', ?_⟩, hab'⟩
      simp only [decide_eq_true_eq]
      intro e; subst e
      have := hinj a (List.mem_cons_self ..) a' (List.mem_cons_of_mem _ ha') _ hab hab'
      subst this; exact nd'.1 ha'
    · intro x hx y hy b0 h1 h2
      exact hinj x (List.mem_cons_of_mem _ hx) y (List.mem_cons_of_mem _ hy) b0 h1 h2

theorem up_aux (cfg : GenCfg) : ∀ n (t₁ t₂ : Ty), t₁.size ≤ n → nfc cfg t₁ = true → nfc cfg t₂ = true →
    NSim t₁ t₂ → Sim true t₁ t₂ := by
  intro n
  induction n with
  | zero => intro t₁ _ h; cases t₁ <;> simp [Ty.size] at h
  | succ n ih =>
    intro t₁ t₂ hsz n₁ n₂ hs
    -- a canonical union is never `NSim` to a non-union
    have clash : ∀ {as : List Ty} {x : Ty}, nfc cfg (.union as) = true → x.isUnion = false →
        NSim (.union as) x → False := by
      intro as x hn hx h
      have hS := nsim_iff.1 h
      rw [unionMembers_eq hx] at hS
      obtain ⟨_, nd, hlen, _⟩ := nfc_union hn
      match as, nd, hlen with
      | a₁ :: a₂ :: r, nd, _ =>
        obtain ⟨y₁, hy₁, h₁⟩ := hS.1 a₁ (by simp [Ty.unionMembers])
        obtain ⟨y₂, hy₂, h₂⟩ := hS.1 a₂ (by simp [Ty.unionMembers])
        simp at hy₁ hy₂; subst hy₁ hy₂
        have := nfc_uniq hn (a := a₁) (a' := a₂) (by simp) (by simp) (h₁.trans h₂.symm)
        subst this
        simp at nd
    by_cases hu₁ : t₁.isUnion = true
    · cases t₁ <;> simp [Ty.isUnion] at hu₁
      rename_i as
      by_cases hu₂ : t₂.isUnion = true
      · cases t₂ <;> simp [Ty.isUnion] at hu₂
        rename_i bs
        have hS := nsim_union_union.1 hs
        obtain ⟨ma, nda, _⟩ := nfc_union n₁
        obtain ⟨mb, ndb, _⟩ := nfc_union n₂
        have hrec : ∀ a ∈ as, ∀ b ∈ bs, ASim a b → Sim true a b := by
          intro a ha b hb hab
          have := Ty.size_le_sizeList ha
          exact ih a b (by simp [Ty.size] at hsz; omega) (ma a ha).2.2 (mb b hb).2.2
            (nsim_of_asim (ma a ha).1 hab)
        refine sim_union_union.2 ⟨⟨?_, ?_⟩, fun _ => ?_⟩
        · intro a ha
          obtain ⟨b, hb, hab⟩ := hS.1 a ha
          exact ⟨b, hb, hrec a ha b hb hab⟩
        · intro b hb
          obtain ⟨a, ha, hab⟩ := hS.2 b hb
          exact ⟨a, ha, hrec a ha b hb hab⟩
        · apply Nat.le_antisymm
          · exact inj_length (R := ASim) as bs nda hS.1
              (fun a ha a' ha' b h1 h2 => nfc_uniq n₁ ha ha' (h1.trans h2.symm))
          · exact inj_length (R := fun b a => ASim a b) bs as ndb hS.2
              (fun b hb b' hb' a h1 h2 => nfc_uniq n₂ hb hb' (h1.symm.trans h2))
      · exact absurd (clash n₁ (by simpa using hu₂) hs) id
    · have hu₁' : t₁.isUnion = false := by simpa using hu₁
      by_cases hu₂ : t₂.isUnion = true
      · cases t₂ <;> simp [Ty.isUnion] at hu₂
        exact absurd (clash n₂ hu₁' hs.symm) id
      · have hA : ASim t₁ t₂ := asim_of_nsim hu₁' (by simpa using hu₂) hs
        cases t₁
        case list a =>
          obtain ⟨b, rfl, hab⟩ := asim_list.1 hA
          simp only [nfc, Bool.and_eq_true] at n₁ n₂
          exact sim_list_list.2 (ih a b (by simp [Ty.size] at hsz; omega) n₁.2 n₂.2 hab)
        case dict a =>
          obtain ⟨b, rfl, hab⟩ := asim_dict.1 hA
          simp only [nfc, Bool.and_eq_true] at n₁ n₂
          exact sim_dict_dict.2 (ih a b (by simp [Ty.size] at hsz; omega) n₁.2 n₂.2 hab)
        case opt a =>
          obtain ⟨b, rfl, hab⟩ := asim_opt.1 hA
          simp only [nfc, Bool.and_eq_true] at n₁ n₂
          exact sim_opt_opt.2 (ih a b (by simp [Ty.size] at hsz; omega) n₁.2 n₂.2 hab)
        case obj fs =>
          obtain ⟨gs, rfl, hN⟩ := asim_obj.1 hA
          simp only [nfc, Bool.and_eq_true, nfcFields_iff] at n₁ n₂
          have hrec : ∀ kv ∈ fs, ∀ kv' ∈ gs, NSim kv.2 kv'.2 → Sim true kv.2 kv'.2 := by
            intro kv hkv kv' hkv' h
            have := Ty.size_le_sizeFields hkv
            exact ih kv.2 kv'.2 (by simp [Ty.size] at hsz; omega) (n₁.2 kv hkv) (n₂.2 kv' hkv') h
          refine sim_obj_obj.2 ⟨?_, ?_⟩
          · intro kv hkv
            obtain ⟨u, hu, h⟩ := hN.1 kv hkv
            exact ⟨u, hu, hrec kv hkv (kv.1, u) hu h⟩
          · intro kv hkv
            obtain ⟨t, ht, h⟩ := hN.2 kv hkv
            exact ⟨t, ht, hrec (kv.1, t) ht kv hkv h⟩
        case union us => simp [Ty.isUnion] at hu₁'
        all_goals
          have := (asim_leaf (by rfl)).1 hA
          subst this; exact Sim.refl _ _
where
  unionMembers_eq {t : Ty} (h : t.isUnion = false) : t.unionMembers = [t] := by
    cases t <;> simp [Ty.isUnion] at h <;> rfl

/-- **on canonical normal forms, "same member sets up to order" is "equal up to order"** -/
theorem nsim_to_sim {cfg : GenCfg} {t₁ t₂ : Ty} (n₁ : nfc cfg t₁ = true) (n₂ : nfc cfg t₂ = true)
    (h : NSim t₁ t₂) : Sim true t₁ t₂ := up_aux cfg t₁.size t₁ t₂ (Nat.le_refl _) n₁ n₂ h

end J2M.Perm
