/-
  C02 at the registry stage, part 7: evaluation of the model on the input that separates the strict from the lax
  statement —  `[{"p": {"x": [null]}, "q": {"x": []}, "r": {"x": [1]}}, {"p": {"x": []}, "q": {"x": []}, "r": {"x": [1]}}]`.
  (`flattenUnion` is compiled by well-founded recursion, so `rfl` cannot evaluate anything that builds a `DUnion`;
  the steps are evaluated by `simp` with the defining equations.)
-/
import J2M.Proofs.C02RHelpersPipeline
namespace J2M.C02RH.ExP
open J2M J2M.Reg

def cfgE : GenCfg := ⟨⟨15, 20⟩, ⟨[], [], []⟩, [], []⟩
def oE : GenOracles := ⟨fun _ _ => some false, fun _ _ => some false, StrOracle.default⟩

/-- `{"p": {"x": [null]}, "q": {"x": []}, "r": {"x": [1]}}` -/
def sP1 : Json :=
  .obj [("p", .obj [("x", .arr [.null])]), ("q", .obj [("x", .arr [])]), ("r", .obj [("x", .arr [.int 1])])]
/-- `{"p": {"x": []}, "q": {"x": []}, "r": {"x": [1]}}` -/
def sP2 : Json :=
  .obj [("p", .obj [("x", .arr [])]), ("q", .obj [("x", .arr [])]), ("r", .obj [("x", .arr [.int 1])])]
def inputsP : List (String × List Json) := [("Root", [sP1, sP2])]

/-- after `process_meta_data`: `p.x : List[Optional[Any]]`, `q.x : List[Any]`, `r.x : List[int]` -/
def g0P : Graph :=
  { models := [{ idx := "1A", fields := [("p", .ptr "1B"), ("q", .ptr "1C"), ("r", .ptr "1D")],
                 name := some "Root", nameGen := some false },
               { idx := "1B", fields := [("x", .list (.opt .unknown))] },
               { idx := "1C", fields := [("x", .list .unknown)] },
               { idx := "1D", fields := [("x", .list .int)] }],
    ptrs := [⟨"1A", none, none⟩, ⟨"1B", some "1A", some "p"⟩, ⟨"1C", some "1A", some "q"⟩,
             ⟨"1D", some "1A", some "r"⟩],
    counter := 4 }

set_option maxRecDepth 100000
set_option linter.unusedSimpArgs false

def fP1 : Fields :=
  [("p", .obj [("x", .list .null)]), ("q", .obj [("x", .list .unknown)]), ("r", .obj [("x", .list .int)])]
def fP2 : Fields :=
  [("p", .obj [("x", .list .unknown)]), ("q", .obj [("x", .list .unknown)]), ("r", .obj [("x", .list .int)])]
theorem convert1 : convert cfgE oE sP1 = .ok fP1 := by rfl
theorem convert2 : convert cfgE oE sP2 = .ok fP2 := by rfl

/-- the comparison environment of `generate` -/
def eP : EqEnv := ⟨oE.str, fun i => "Model#" ++ i, fun _ => none, 1000000⟩
theorem eq1 : eP.eq (.obj [("x", .list .null)]) (.obj [("x", .list .unknown)]) = .ok false := by rfl
theorem eq2 : eP.eq (.obj [("x", .list .unknown)]) (.obj [("x", .list .unknown)]) = .ok true := by rfl
theorem eq3 : eP.eq (.obj [("x", .list .int)]) (.obj [("x", .list .int)]) = .ok true := by rfl
theorem eq4 : eP.eq (.list .unknown) (.list .null) = .ok false := by rfl

theorem merge12 : mergeFieldSets cfgE.lit eP [fP1, fP2] =
    .ok [("p", .union [.obj [("x", .list .unknown)], .obj [("x", .list .null)]]),
         ("q", .obj [("x", .list .unknown)]), ("r", .obj [("x", .list .int)])] := by
  simp +decide [fP1, fP2, mergeFieldSets, mergeFieldSets.go, mergeStep, mergeOne, Fields.get?, Fields.set,
    Fields.keys, Fields.has, Ty.isOpt, eq1, eq2, eq3, bind, Except.bind, pure, Except.pure, Ty.unionMembers,
    mkUnionMembers, flattenUnion, handleType, hashStr, hashStrs, hashFields, Ty.isStr, cfgE]

theorem opt_q (e : EqEnv) (n : Nat) :
    optimize cfgE e (n + 3) (.obj [("x", .list .unknown)]) = .ok (.obj [("x", .list .unknown)]) := by
  simp +decide [optimize, bind, Except.bind, pure, Except.pure]
theorem opt_r (e : EqEnv) (n : Nat) :
    optimize cfgE e (n + 3) (.obj [("x", .list .int)]) = .ok (.obj [("x", .list .int)]) := by
  simp +decide [optimize, bind, Except.bind, pure, Except.pure]
/-- `[null]` and `[]` at the same position: `List[Optional[Any]]` -/
theorem opt_p (n : Nat) :
    optimize cfgE eP (n + 9) (.union [.obj [("x", .list .unknown)], .obj [("x", .list .null)]]) =
      .ok (.obj [("x", .list (.opt .unknown))]) := by
  simp +decide [optimize, optimizeUnion, splitMembers, splitMembersAux, Ty.size, Ty.sizeList, Ty.isInt, Ty.isFloat,
    Ty.isStr, Ty.isUnknown,
    Ty.isNull, bind, Except.bind, pure, Except.pure, mkUnion, mkUnionMembers, flattenUnion, handleType, hashStr,
    hashStrs, removeFirst, cfgE, mergeFieldSets, mergeFieldSets.go, mergeStep, mergeOne, Fields.get?, Fields.set,
    Fields.keys, Fields.has, Ty.isOpt, eq4, Ty.unionMembers]

/-- `generate` on the two samples -/
theorem exP_generate : generate cfgE oE [sP1, sP2] =
    .ok (.obj [("p", .obj [("x", .list (.opt .unknown))]), ("q", .obj [("x", .list .unknown)]),
               ("r", .obj [("x", .list .int)])]) := by
  unfold generate
  simp only [List.mapM_cons, List.mapM_nil, convert1, convert2, bind, Except.bind, pure, Except.pure]
  have := merge12
  simp only [eP] at this
  rw [this]
  show optimize cfgE eP (149 + 1) _ = _
  rw [optimize]
  simp only [List.mapM_cons, List.mapM_nil, opt_p 140, opt_q eP 146, opt_r eP 146, bind, Except.bind, pure,
    Except.pure]

/-- the registry after `process_meta_data` -/
theorem exP_build : buildGraph cfgE oE inputsP = .ok g0P := by
  unfold buildGraph inputsP
  simp only [List.foldlM_cons, List.foldlM_nil, exP_generate, bind, Except.bind, pure, Except.pure]
  rfl

/-! ### `_merge` of the three nested models, then `optimize_type` -/

theorem members0 : (memberModels g0P ["1B", "1C", "1D"]).map (·.fields) =
    [[("x", .list (.opt .unknown))], [("x", .list .unknown)], [("x", .list .int)]] := by rfl
theorem eqm1 (so : StrOracle) : (g0P.eqEnv so).eq (.list (.opt .unknown)) (.list .unknown) = .ok false := by rfl
theorem eqm2 (so : StrOracle) :
    (g0P.eqEnv so).eq (.union [.list .unknown, .list (.opt .unknown)]) (.list .int) = .ok false := by rfl

/-- `merge_field_sets` of the three dicts: `x : Union[List[int], List[Any], List[Optional[Any]]]` -/
theorem exP_mergeFields (so : StrOracle) :
    mergeFieldSets cfgE.lit (g0P.eqEnv so) ((memberModels g0P ["1B", "1C", "1D"]).map (·.fields)) =
      .ok [("x", .union [.list .int, .list .unknown, .list (.opt .unknown)])] := by
  rw [members0]
  simp +decide [mergeFieldSets, mergeFieldSets.go, mergeStep, mergeOne, Fields.get?, Fields.set, Fields.keys,
    Fields.has, Ty.isOpt, eqm1, eqm2, bind, Except.bind, pure, Except.pure, Ty.unionMembers,
    mkUnionMembers, flattenUnion, handleType, hashStr, Ty.isStr, cfgE]

/-- ONE `optimize_type` of that field: `List[Optional[Union[int, Any]]]` — two `Unknown`s (the member and the
    one below the `DOptional` member) meet a single `types.remove(Unknown)` -/
theorem exP_optimize_field (e : EqEnv) (n : Nat) :
    optimize cfgE e (n + 6) (.union [.list .int, .list .unknown, .list (.opt .unknown)]) =
      .ok (.list (.opt (.union [.int, .unknown]))) := by
  simp +decide [optimize, optimizeUnion, splitMembers, splitMembersAux, Ty.size, Ty.sizeList, Ty.isInt, Ty.isFloat,
    Ty.isStr, Ty.isUnknown,
    Ty.isNull, bind, Except.bind, pure, Except.pure, mkUnion, mkUnionMembers, flattenUnion, handleType, hashStr,
    hashStrs, removeFirst, cfgE]

/-- a SECOND `optimize_type` (the final pass of `merge_models`) repairs it: `List[Optional[int]]` -/
theorem exP_optimize_again (e : EqEnv) (n : Nat) :
    optimize cfgE e (n + 6) (.list (.opt (.union [.int, .unknown]))) = .ok (.list (.opt .int)) := by
  simp +decide [optimize, optimizeUnion, splitMembers, splitMembersAux, Ty.size, Ty.sizeList, Ty.isInt, Ty.isFloat,
    Ty.isStr, Ty.isUnknown,
    Ty.isNull, bind, Except.bind, pure, Except.pure, mkUnion, mkUnionMembers, flattenUnion, handleType, hashStr,
    hashStrs, removeFirst, cfgE]

/-- the hypothesis of `mergeStep_exists` for the instance -/
theorem exP_optimize (e : EqEnv) :
    optimize cfgE e
      (Ty.fuelFor (.obj (substFields (σOf ["1B", "1C", "1D"] (indexOf g0P.counter))
        [("x", .union [.list .int, .list .unknown, .list (.opt .unknown)])])))
      (.obj (substFields (σOf ["1B", "1C", "1D"] (indexOf g0P.counter))
        [("x", .union [.list .int, .list .unknown, .list (.opt .unknown)])])) =
      .ok (.obj [("x", .list (.opt (.union [.int, .unknown])))]) := by
  have hs : substFields (σOf ["1B", "1C", "1D"] (indexOf g0P.counter))
      [("x", .union [.list .int, .list .unknown, .list (.opt .unknown)])] =
      [("x", .union [.list .int, .list .unknown, .list (.opt .unknown)])] := by
    simp [substFields, substTy, substList]
  rw [hs]
  show optimize cfgE e (99 + 1) _ = _
  rw [optimize]
  simp only [List.mapM_cons, List.mapM_nil, exP_optimize_field e 93, bind, Except.bind, pure, Except.pure]

end J2M.C02RH.ExP
