/-
  C08 at the registry stage, part C: `merge_field_sets` of field sets whose types are `out`
  (in particular: normal forms within the literal limits) yields admissible types (`adm`) — the only point being
  that no `Optional` lands directly inside an `Optional`.
-/
import J2M.Proofs.TwoPassA
import J2M.Proofs.MergeUnion
import J2M.Proofs.HashInj
namespace J2M.TwoPass
open J2M

/-! ## 1. a member that is not `Optional` survives `DUnion` as a member that is not `Optional` -/

/-- a witness member: not `Optional`, not a union, not an empty literal -/
def Wit (m : Ty) : Prop := m.isOpt = false ∧ m.isUnion = false ∧ ∀ o vs, m = .lit o vs → vs ≠ []

theorem kind_of_hash {a b : Ty} (h : hashStr a = hashStr b) : HashInj.kind a = HashInj.kind b :=
  HashInj.kind_eq (r₁ := []) (r₂ := []) (by rw [h])

theorem mkUM_wit (c : LitCfg) (M : List Ty) {m0 : Ty} (hm : m0 ∈ flattenUnion M) (hw : Wit m0) :
    ∃ u ∈ mkUnionMembers c M, Wit u := by
  have o := C08P.mkUnionMembers_out c M
  obtain ⟨h1, h2⟩ := mkUnion_members_cover c M m0 hm
  by_cases hl : m0.isLit = true
  · cases m0 <;> simp [Ty.isLit] at hl
    rename_i ov vs
    have hne := hw.2.2 ov vs rfl
    obtain ⟨s, hs⟩ := List.exists_mem_of_ne_nil vs hne
    rcases h2 ov vs rfl s hs with ⟨ws, hws, hsw⟩ | ⟨u, hu, _, hhash⟩
    · refine ⟨_, hws, rfl, rfl, ?_⟩
      intro o' vs' e; cases e; exact List.ne_nil_of_mem hsw
    · have hk := kind_of_hash hhash
      refine ⟨u, hu, ?_, o.flat u hu, ?_⟩
      · cases u <;> simp_all [HashInj.kind, Ty.isOpt]
      · intro o' vs' e; subst e; simp [HashInj.kind] at hk
  · have hl' : m0.isLit = false := by simpa using hl
    obtain ⟨u, hu, _, hul, hhash⟩ := h1 hl'
    have hk := kind_of_hash hhash
    refine ⟨u, hu, ?_, o.flat u hu, ?_⟩
    · have := hw.1
      cases u <;> cases m0 <;> simp_all [HashInj.kind, Ty.isOpt]
    · intro o' vs' e; subst e; simp [Ty.isLit] at hul

theorem mem_flatten_of_nonunion {M : List Ty} {m : Ty} (hm : m ∈ M) (hu : m.isUnion = false) :
    m ∈ flattenUnion M := by
  induction M with
  | nil => cases hm
  | cons t rest ih =>
    rcases List.mem_cons.mp hm with rfl | hm'
    · cases m <;> simp_all [flattenUnion, Ty.isUnion]
    · cases t with
      | union us => simp only [flattenUnion, List.mem_append]; exact Or.inr (ih hm')
      | _ => simp only [flattenUnion, List.mem_cons]; exact Or.inr (ih hm')

/-! ## 2. the accumulator invariant -/

/-- the members below the (possible) top-level `Optional` -/
def coreMembers : Ty → List Ty
  | .opt i => i.unionMembers
  | t => t.unionMembers

/-- a field of the accumulator of `merge_field_sets`: admissible, and some member below the top-level
    `Optional` is not itself `Optional` -/
def AccOK (cfg : GenCfg) (t : Ty) : Prop := adm cfg t = true ∧ ∃ m ∈ coreMembers t, Wit m

theorem wit_of_out {cfg : GenCfg} {m : Ty} (h : out cfg m = true) (ho : m.isOpt = false) (hu : m.isUnion = false) :
    Wit m := by
  refine ⟨ho, hu, ?_⟩
  intro o vs e; subst e
  exact (out_lit h).2.1

/-- the members of an `out` type that is not `Optional` contain a witness -/
theorem out_members_wit {cfg : GenCfg} {y : Ty} (h : out cfg y = true) (ho : y.isOpt = false) :
    ∃ m ∈ y.unionMembers, Wit m := by
  by_cases hu : y.isUnion = true
  · cases y <;> simp [Ty.isUnion] at hu
    rename_i ms
    obtain ⟨u, hm⟩ := out_union h
    obtain ⟨m, hmem⟩ := List.exists_mem_of_ne_nil ms u.ne
    exact ⟨m, hmem, wit_of_out (hm m hmem) (u.noOpt m hmem) (u.flat m hmem)⟩
  · have hu' : y.isUnion = false := by simpa using hu
    have : y.unionMembers = [y] := by cases y <;> simp_all [Ty.unionMembers, Ty.isUnion]
    rw [this]
    exact ⟨y, by simp, wit_of_out h ho hu'⟩

theorem out_accOK {cfg : GenCfg} {t : Ty} (h : out cfg t = true) : AccOK cfg t := by
  refine ⟨out_adm cfg t h, ?_⟩
  by_cases ho : t.isOpt = true
  · cases t <;> simp [Ty.isOpt] at ho
    rename_i y
    have hy : y.isOpt = false ∧ out cfg y = true := by simpa [out] using h
    exact out_members_wit hy.2 hy.1
  · have ho' : t.isOpt = false := by simpa using ho
    have : coreMembers t = t.unionMembers := by cases t <;> simp_all [coreMembers, Ty.isOpt]
    rw [this]
    exact out_members_wit h ho'

theorem accOK_opt {cfg : GenCfg} {t : Ty} (h : AccOK cfg t) (ho : t.isOpt = false) : AccOK cfg (.opt t) := by
  refine ⟨by simp [adm, ho, h.1], ?_⟩
  have : coreMembers t = t.unionMembers := by cases t <;> simp_all [coreMembers, Ty.isOpt]
  have h2 := h.2
  rw [this] at h2
  exact h2

theorem unionMembers_adm {cfg : GenCfg} {t : Ty} (h : adm cfg t = true) : ∀ m ∈ t.unionMembers, adm cfg m = true := by
  by_cases hu : t.isUnion = true
  · cases t <;> simp [Ty.isUnion] at hu
    exact adm_union h
  · have : t.unionMembers = [t] := by cases t <;> simp_all [Ty.unionMembers, Ty.isUnion]
    rw [this]; simpa using h

/-- `DUnion(*M)`, collapsed when it has one member: admissible, not `Optional`, and keeps a witness -/
theorem packed_ok {cfg : GenCfg} {M : List Ty} (hM : ∀ m ∈ M, adm cfg m = true) {m0 : Ty} (hm0 : m0 ∈ M)
    (hw : Wit m0) :
    adm cfg (C08P.collapse1 (mkUnionMembers cfg.lit M)) = true ∧
    (C08P.collapse1 (mkUnionMembers cfg.lit M)).isOpt = false ∧
    ∃ m ∈ (C08P.collapse1 (mkUnionMembers cfg.lit M)).unionMembers, Wit m := by
  obtain ⟨u, hu, hwu⟩ := mkUM_wit cfg.lit M (mem_flatten_of_nonunion hm0 hw.2.1) hw
  have hadm := mkUM_adm M hM
  generalize mkUnionMembers cfg.lit M = U at *
  unfold C08P.collapse1
  split
  · rename_i x
    simp only [List.mem_singleton] at hu
    subst hu
    refine ⟨hadm u (by simp), hwu.1, ?_⟩
    have : u.unionMembers = [u] := by
      have := hwu.2.1
      cases u <;> simp_all [Ty.unionMembers, Ty.isUnion]
    rw [this]; exact ⟨u, by simp, hwu⟩
  · exact ⟨by simp only [adm]; exact (admList_iff cfg U).mpr hadm, rfl, u, hu, hwu⟩

/-! ## 3. `merge_field_sets` -/

def AllAcc (cfg : GenCfg) (fs : Fields) : Prop := ∀ kv ∈ fs, AccOK cfg kv.2

theorem AllAcc.set {cfg : GenCfg} {fs : Fields} (h : AllAcc cfg fs) (k : String) {v : Ty}
    (hv : AccOK cfg v) : AllAcc cfg (Fields.set fs k v) := by
  intro kv hkv
  rcases C08P.Fields.mem_set hkv with h' | rfl
  · exact h kv h'
  · exact hv

/-- merging an incoming `out` field into an accumulator field whose core is `core` (with a witness) -/
theorem merged_acc {cfg : GenCfg} {field inner : Ty} (hf : out cfg field = true)
    (hin : adm cfg inner = true) (hw : ∃ m ∈ inner.unionMembers, Wit m) :
    adm cfg (C08P.collapse1 (mkUnionMembers cfg.lit (field.unionMembers ++ inner.unionMembers))) = true ∧
    (C08P.collapse1 (mkUnionMembers cfg.lit (field.unionMembers ++ inner.unionMembers))).isOpt = false ∧
    ∃ m ∈ (C08P.collapse1 (mkUnionMembers cfg.lit (field.unionMembers ++ inner.unionMembers))).unionMembers,
      Wit m := by
  obtain ⟨m0, hm0, hw0⟩ := hw
  apply packed_ok (m0 := m0)
  · intro m hm
    rcases List.mem_append.mp hm with h | h
    · exact unionMembers_adm (out_adm cfg _ hf) m h
    · exact unionMembers_adm hin m h
  · exact List.mem_append_right _ hm0
  · exact hw0

theorem mergeOne_acc {cfg : GenCfg} {e : EqEnv} {first : Bool} {fields fields' : Fields} {name : String}
    {field : Ty} (hf : AllAcc cfg fields) (hd : out cfg field = true)
    (h : mergeOne cfg.lit e first fields name field = .ok fields') : AllAcc cfg fields' := by
  unfold mergeOne at h
  split at h
  · -- new field
    simp only [pure, Except.pure, Except.ok.injEq] at h
    subst h
    apply hf.set
    split
    · exact out_accOK hd
    · rename_i hc
      simp only [Bool.or_eq_true, not_or, Bool.not_eq_true] at hc
      exact accOK_opt (out_accOK hd) hc.2
  · rename_i orig hget
    obtain ⟨k', hmem⟩ := C08P.Fields.get?_mem hget
    have horig : AccOK cfg orig := hf _ hmem
    split at h
    · -- existing optional
      rename_i origInner
      have hin : adm cfg origInner = true := (adm_opt horig.1).2
      have hwi : ∃ m ∈ origInner.unionMembers, Wit m := horig.2
      simp only [bind, Except.bind] at h
      split at h
      · cases h
      · split at h
        · simp only [pure, Except.pure, Except.ok.injEq] at h; subst h; exact hf
        · split at h
          · cases h
          · split at h
            · simp only [pure, Except.pure, Except.ok.injEq] at h; subst h; exact hf
            · simp only [pure, Except.pure, Except.ok.injEq] at h; subst h
              apply hf.set
              obtain ⟨h1, h2, h3⟩ := merged_acc hd hin hwi
              exact ⟨by simp only [adm, Bool.and_eq_true, Bool.not_eq_true']; exact ⟨h2, h1⟩, h3⟩
    · rename_i hnopt
      have hno : orig.isOpt = false := by
        cases orig <;> first | rfl | exact absurd rfl (hnopt _)
      have hwi : ∃ m ∈ orig.unionMembers, Wit m := by
        have : coreMembers orig = orig.unionMembers := by cases orig <;> simp_all [coreMembers, Ty.isOpt]
        have h2 := horig.2
        rw [this] at h2
        exact h2
      simp only [bind, Except.bind] at h
      split at h
      · cases h
      · split at h
        · simp only [pure, Except.pure, Except.ok.injEq] at h; subst h; exact hf
        · split at h
          · cases h
          · split at h
            · simp only [pure, Except.pure, Except.ok.injEq] at h; subst h
              apply hf.set
              exact out_accOK hd
            · simp only [pure, Except.pure, Except.ok.injEq] at h; subst h
              apply hf.set
              obtain ⟨h1, h2, h3⟩ := merged_acc hd horig.1 hwi
              refine ⟨h1, ?_⟩
              have : ∀ t : Ty, t.isOpt = false → coreMembers t = t.unionMembers := by
                intro t ht; cases t <;> simp_all [coreMembers, Ty.isOpt]
              show ∃ m ∈ coreMembers (C08P.collapse1 _), Wit m
              rw [this _ h2]
              exact h3

theorem foldlM_mergeOne_acc {cfg : GenCfg} {e : EqEnv} {first : Bool} (model : Fields)
    (hmodel : ∀ kv ∈ model, out cfg kv.2 = true) :
    ∀ (fields fields' : Fields), AllAcc cfg fields →
      model.foldlM (fun fs (kv : String × Ty) => mergeOne cfg.lit e first fs kv.1 kv.2) fields = .ok fields' →
      AllAcc cfg fields' := by
  induction model with
  | nil =>
    intro fields fields' hf h
    simp only [List.foldlM_nil, pure, Except.pure, Except.ok.injEq] at h
    subst h; exact hf
  | cons kv model ih =>
    intro fields fields' hf h
    rw [List.foldlM_cons] at h
    simp only [bind, Except.bind] at h
    split at h
    · cases h
    · rename_i f1 h1
      exact ih (fun kv' h' => hmodel kv' (by simp [h'])) f1 fields'
        (mergeOne_acc hf (hmodel kv (by simp)) h1) h

theorem mergeStep_acc {cfg : GenCfg} {e : EqEnv} {first : Bool} {fields fields' model : Fields}
    (hf : AllAcc cfg fields) (hmodel : ∀ kv ∈ model, out cfg kv.2 = true)
    (h : mergeStep cfg.lit e first fields model = .ok fields') : AllAcc cfg fields' := by
  unfold mergeStep at h
  simp only [bind, Except.bind] at h
  split at h
  · cases h
  · rename_i f1 h1
    have hf1 := foldlM_mergeOne_acc model hmodel fields f1 hf h1
    simp only [pure, Except.pure, Except.ok.injEq] at h
    subst h
    intro kv hkv
    simp only [List.mem_map] at hkv
    obtain ⟨kv0, hkv0, rfl⟩ := hkv
    split
    · rename_i hc
      simp only [Bool.and_eq_true, Bool.not_eq_true'] at hc
      exact accOK_opt (hf1 kv0 hkv0) hc.2
    · exact hf1 kv0 hkv0

theorem mergeGo_acc {cfg : GenCfg} {e : EqEnv} (sets : List Fields)
    (hsets : ∀ m ∈ sets, ∀ kv ∈ m, out cfg kv.2 = true) :
    ∀ (first : Bool) (fields fields' : Fields), AllAcc cfg fields →
      mergeFieldSets.go cfg.lit e first fields sets = .ok fields' → AllAcc cfg fields' := by
  induction sets with
  | nil =>
    intro first fields fields' hf h
    simp only [mergeFieldSets.go, pure, Except.pure, Except.ok.injEq] at h
    subst h; exact hf
  | cons m ms ih =>
    intro first fields fields' hf h
    simp only [mergeFieldSets.go, bind, Except.bind] at h
    split at h
    · cases h
    · rename_i f1 h1
      exact ih (fun m' hm' => hsets m' (by simp [hm'])) false f1 fields'
        (mergeStep_acc hf (hsets m (by simp)) h1) h

/-- **`merge_field_sets` of `out` field sets is admissible** (whatever `==` answers) -/
theorem mergeFieldSets_adm {cfg : GenCfg} {e : EqEnv} {sets : List Fields} {fields' : Fields}
    (hsets : ∀ m ∈ sets, ∀ kv ∈ m, out cfg kv.2 = true)
    (h : mergeFieldSets cfg.lit e sets = .ok fields') : ∀ kv ∈ fields', adm cfg kv.2 = true :=
  fun kv hkv => (mergeGo_acc sets hsets true [] fields' (fun _ h => by cases h) h kv hkv).1

end J2M.TwoPass
