/-
  Helper lemmas for C10R, part 2: `merge_field_sets` on samples `{f: s₁}, …, {f: sₙ}` of strings.
  The merged field type is described by an invariant in terms of the plain strings `P` and the kinds `K`
  observed so far.
-/
import J2M.Proofs.LitRule
namespace J2M.LitRule

open J2M J2M.Strings

/-- `types[0] if len(types) == 1 else DUnion(*types)` -/
def collapse (u : List Ty) : Ty := match u with | [x] => x | us => .union us

/-- pseudo-type, literal or `str` -/
def isFlat : Ty → Bool
  | .ser _ => true
  | .lit _ _ => true
  | .str => true
  | _ => false

theorem collapse_not_opt : ∀ {M : List Ty}, (∀ t ∈ M, isFlat t = true) → (collapse M).isOpt = false
  | [], _ => rfl
  | [x], h => by
    have := h x (by simp)
    cases x <;> simp_all [collapse, isFlat, Ty.isOpt]
  | _ :: _ :: _, _ => rfl

theorem unionMembers_collapse : ∀ {M : List Ty}, (∀ t ∈ M, isFlat t = true) → (collapse M).unionMembers = M
  | [], _ => rfl
  | [x], h => by
    have := h x (by simp)
    cases x <;> simp_all [collapse, isFlat, Ty.unionMembers]
  | _ :: _ :: _, _ => rfl

/-! ## Python `==` between the merged type and an incoming pseudo-type / literal -/

theorem eq_collapse_ser_true (e : EqEnv) (n : Nat) (hf : e.fuel = n + 1) (k : String) :
    e.eq (collapse [.ser k]) (.ser k) = .ok true := by
  unfold EqEnv.eq; rw [hf]
  show (match some (k == k) with | some r => pure r | none => Except.error PyErr.recursion) = _
  simp; rfl

theorem eq_collapse_ser_false (e : EqEnv) (n : Nat) (hf : e.fuel = n + 1) (k : String) :
    ∀ (M : List Ty), (∀ t ∈ M, isFlat t = true) → M ≠ [.ser k] → e.eq (collapse M) (.ser k) = .ok false
  | [], _, _ => by unfold EqEnv.eq; rw [hf]; rfl
  | [x], h, hM => by
    have hx := h x (by simp)
    unfold EqEnv.eq; rw [hf]
    cases x with
    | ser k' =>
      have : k' ≠ k := fun e => hM (by rw [e])
      show (match some (k' == k) with | some r => pure r | none => Except.error PyErr.recursion) = _
      have hb : (k' == k) = false := by simpa using this
      rw [hb]; rfl
    | lit o vs => rfl
    | str => rfl
    | _ => simp [isFlat] at hx
  | _ :: _ :: _, _, _ => by unfold EqEnv.eq; rw [hf]; rfl

theorem eq_collapse_lit_true (e : EqEnv) (n : Nat) (hf : e.fuel = n + 1) (o o' : Bool) (vs : List String) :
    e.eq (collapse [.lit o vs]) (.lit o' vs) = .ok true := by
  unfold EqEnv.eq; rw [hf]
  show (match some (vs == vs) with | some r => pure r | none => Except.error PyErr.recursion) = _
  simp; rfl

theorem eq_collapse_lit_false (e : EqEnv) (n : Nat) (hf : e.fuel = n + 1) (o' : Bool) (vs : List String) :
    ∀ (M : List Ty), (∀ t ∈ M, isFlat t = true) → (∀ o, M ≠ [.lit o vs]) →
      e.eq (collapse M) (.lit o' vs) = .ok false
  | [], _, _ => by unfold EqEnv.eq; rw [hf]; rfl
  | [x], h, hM => by
    have hx := h x (by simp)
    unfold EqEnv.eq; rw [hf]
    cases x with
    | ser k' => rfl
    | lit o ws =>
      have : ws ≠ vs := fun e => hM o (by rw [e])
      show (match some (ws == vs) with | some r => pure r | none => Except.error PyErr.recursion) = _
      have hb : (ws == vs) = false := by simpa using this
      rw [hb]; rfl
    | str => rfl
    | _ => simp [isFlat] at hx
  | _ :: _ :: _, _, _ => by unfold EqEnv.eq; rw [hf]; rfl

/-! ## one `merge_field_sets` step on a single field -/

theorem mergeOne_flat (c : LitCfg) (e : EqEnv) (f : String) (T t : Ty) (b : Bool)
    (hT : T.isOpt = false) (ht : isSerLit t = true) (he : e.eq T t = .ok b) :
    mergeOne c e false [(f, T)] f t =
      .ok [(f, if b then T else collapse (mkUnionMembers c (t :: T.unionMembers)))] := by
  have hget : Fields.get? [(f, T)] f = some T := by simp [Fields.get?]
  unfold mergeOne
  rw [hget]
  cases T <;> first | (simp [Ty.isOpt] at hT; done) | skip
  all_goals
    cases t <;> first | (simp [isSerLit] at ht; done) | skip
  all_goals
    simp only [he, bind, Except.bind, pure, Except.pure]
    cases b <;> simp [Fields.set, Ty.unionMembers] <;> rfl

theorem mergeStep_single (c : LitCfg) (e : EqEnv) (f : String) (T t T' : Ty)
    (h : mergeOne c e false [(f, T)] f t = .ok [(f, T')]) :
    mergeStep c e false [(f, T)] [(f, t)] = .ok [(f, T')] := by
  simp [mergeStep, List.foldlM, h, Fields.has, bind, Except.bind, pure, Except.pure]

theorem mergeStep_first (c : LitCfg) (e : EqEnv) (f : String) (t : Ty) :
    mergeStep c e true [] [(f, t)] = .ok [(f, t)] := by
  simp [mergeStep, List.foldlM, mergeOne, Fields.get?, Fields.set, Fields.keys, bind, Except.bind, pure,
    Except.pure]

/-! ## the shape of the merged type -/

/-- every observed plain string overflows on its own (too long, or `maxLiterals = 0`) -/
def AllOv (c : LitCfg) (P : List String) : Prop := ∀ s ∈ P, Overflows c [s]

instance (c : LitCfg) (P : List String) : Decidable (AllOv c P) := by unfold AllOv; infer_instance

/-- the literal / `str` member after the plain strings `P`; `noK`: no pseudo-type was seen -/
def tailOf (c : LitCfg) (noK : Bool) (P : List String) : List Ty :=
  if noK = true ∧ P ≠ [] ∧ AllOv c P then [.lit true []] else goodTail c (sortUniq P)

/-- the members of the merged type: the kinds `ks`, then the literal / `str` member -/
def members (c : LitCfg) (ks P : List String) : List Ty := ks.map .ser ++ tailOf c ks.isEmpty P

theorem goodTail_nil (c : LitCfg) : goodTail c [] = [] := by simp [goodTail]

theorem goodTail_ov {c : LitCfg} {V : List String} (h1 : V ≠ []) (h2 : Overflows c V) : goodTail c V = [.str] := by
  simp [goodTail, h1, h2]

theorem goodTail_ok {c : LitCfg} {V : List String} (h1 : V ≠ []) (h2 : ¬ Overflows c V) :
    goodTail c V = [.lit false V] := by
  simp [goodTail, h1, h2]

theorem goodTail_eq_lit {c : LitCfg} {V vs : List String} {o : Bool} (h : goodTail c V = [.lit o vs]) :
    o = false ∧ vs = V ∧ V ≠ [] ∧ ¬ Overflows c V := by
  unfold goodTail at h
  split at h
  · cases h
  · split at h
    · simp at h
    · rename_i h1 h2
      have : false = o ∧ V = vs := by simpa using h
      exact ⟨this.1.symm, this.2.symm, h1, h2⟩

theorem goodTail_isTail (c : LitCfg) (V : List String) : IsTail (goodTail c V) := by
  unfold goodTail
  split
  · exact .inl rfl
  · split
    · exact .inr (.inr rfl)
    · exact .inr (.inl ⟨_, _, rfl⟩)

theorem tailOf_isTail (c : LitCfg) (b : Bool) (P : List String) : IsTail (tailOf c b P) := by
  unfold tailOf
  split
  · exact .inr (.inl ⟨_, _, rfl⟩)
  · exact goodTail_isTail c _

theorem isTail_flat {B : List Ty} (h : IsTail B) : ∀ t ∈ B, isFlat t = true ∧ kindOfTy t = none := by
  rcases h with rfl | ⟨o, vs, rfl⟩ | rfl <;> simp [isFlat, kindOfTy]

theorem members_flat (c : LitCfg) (ks P : List String) : ∀ t ∈ members c ks P, isFlat t = true := by
  intro t ht
  rcases List.mem_append.1 ht with h | h
  · obtain ⟨k, _, rfl⟩ := List.mem_map.1 h; rfl
  · exact (isTail_flat (tailOf_isTail c _ P) t h).1

theorem ser_mem_members {c : LitCfg} {ks P : List String} {k : String} (h : Ty.ser k ∈ members c ks P) :
    k ∈ ks := by
  rcases List.mem_append.1 h with h | h
  · obtain ⟨k', hk', e⟩ := List.mem_map.1 h
    cases e; exact hk'
  · have := (isTail_flat (tailOf_isTail c _ P) _ h).2
    simp [kindOfTy] at this

theorem members_eq_lit {c : LitCfg} {ks P : List String} {o : Bool} {vs : List String}
    (h : members c ks P = [.lit o vs]) : ks = [] ∧ tailOf c true P = [.lit o vs] := by
  cases ks with
  | nil => exact ⟨rfl, by simpa [members] using h⟩
  | cons k ks => simp [members] at h

theorem allOv_overflows {c : LitCfg} {P : List String} (hne : P ≠ []) (h : AllOv c P) :
    Overflows c (sortUniq P) := by
  obtain ⟨s, hs⟩ := List.exists_mem_of_ne_nil P hne
  exact overflows_of_single (h s hs) (mem_sortUniq.2 hs)

theorem tailOf_false (c : LitCfg) (P : List String) : tailOf c false P = goodTail c (sortUniq P) := by
  simp [tailOf]

/-! ## what `DUnion.__init__` appends, for our argument lists -/

theorem litOrStr_killed {c : LitCfg} {F : List Ty} (h : useFinal F = false) : litOrStr c F = [.str] := by
  simp [litOrStr, h]

theorem useFinal_sers (ks : List String) : useFinal (ks.map .ser) = true := by
  simp [useFinal, isKiller]

theorem useFinal_append (A B : List Ty) : useFinal (A ++ B) = (useFinal A && useFinal B) := by
  simp [useFinal]

theorem unionVals_eq (F : List Ty) (X : List String)
    (h : ∀ s, (∃ vs, Ty.lit false vs ∈ F ∧ s ∈ vs) ↔ s ∈ X) : unionVals F = sortUniq X :=
  sorted_ext (sorted_unionVals F) (sorted_sortUniq X) (fun s => by rw [mem_unionVals, h, mem_sortUniq])

/-- arguments `A` that keep literal collection on and carry the values `X`, followed by the folded literal
    of the plain strings `P` -/
theorem litOrStr_good (c : LitCfg) (A : List Ty) (X P : List String) (hA : useFinal A = true)
    (hX : ∀ s, (∃ vs, Ty.lit false vs ∈ A ∧ s ∈ vs) ↔ s ∈ X)
    (hmono : Overflows c (sortUniq P) → Overflows c (sortUniq (P ++ X))) :
    litOrStr c (A ++ goodTail c (sortUniq P)) = goodTail c (sortUniq (P ++ X)) := by
  by_cases hV : sortUniq P = []
  · have hP : P = [] := sortUniq_eq_nil.1 hV
    subst hP
    rw [hV, goodTail_nil, List.append_nil, List.nil_append]
    unfold litOrStr
    rw [if_pos hA, unionVals_eq A X hX]
  · have hP : P ≠ [] := fun e => hV (sortUniq_eq_nil.2 e)
    have hW : sortUniq (P ++ X) ≠ [] := fun e => by
      have := sortUniq_eq_nil.1 e
      simp at this; exact hP this.1
    by_cases hov : Overflows c (sortUniq P)
    · rw [goodTail_ov hV hov, goodTail_ov hW (hmono hov)]
      apply litOrStr_killed
      exact str_mem_imp_useFinal_false (by simp)
    · rw [goodTail_ok hV hov]
      have hu : useFinal (A ++ [Ty.lit false (sortUniq P)]) = true := by
        rw [useFinal_append, hA]; rfl
      unfold litOrStr
      rw [if_pos hu]
      congr 1
      apply unionVals_eq
      intro s
      simp only [List.mem_append, List.mem_singleton, Ty.lit.injEq, true_and]
      constructor
      · rintro ⟨vs, h | h, hs⟩
        · exact .inr ((hX s).1 ⟨vs, h, hs⟩)
        · subst h; exact .inl (mem_sortUniq.1 hs)
      · rintro (h | h)
        · exact ⟨sortUniq P, .inr rfl, mem_sortUniq.2 h⟩
        · obtain ⟨vs, h1, h2⟩ := (hX s).2 h
          exact ⟨vs, .inl h1, h2⟩

/-! ## the invariant and its three steps -/

/-- the merged type after plain strings `P` and kinds `K` -/
def StateInv (c : LitCfg) (P K : List String) (T : Ty) : Prop :=
  ∃ ks : List String, ks.Nodup ∧ (∀ k, k ∈ ks ↔ k ∈ K) ∧ T = collapse (members c ks P)

theorem kindsL_ser_cons (k : String) (ks : List String) : kindsL (Ty.ser k :: ks.map .ser) = k :: ks := by
  simp [kindsL, kindOfTy, List.filterMap_map, Function.comp_def]

theorem kindsL_lit_cons (o : Bool) (vs : List String) (ks : List String) :
    kindsL (Ty.lit o vs :: ks.map .ser) = ks := by
  have e : kindsL (Ty.lit o vs :: ks.map .ser) = kindsL (ks.map .ser) := rfl
  rw [e]
  simp [kindsL, kindOfTy, List.filterMap_map, Function.comp_def]

theorem isSerLit_cons_sers (t : Ty) (ht : isSerLit t = true) (ks : List String) :
    ∀ t' ∈ t :: ks.map .ser, isSerLit t' = true := by
  intro t' h
  rcases List.mem_cons.1 h with rfl | h
  · exact ht
  · obtain ⟨k, _, rfl⟩ := List.mem_map.1 h; rfl

/-- an incoming pseudo-type -/
theorem step_ser (c : LitCfg) (e : EqEnv) (n : Nat) (hf : e.fuel = n + 1) (f : String) (P K : List String)
    (T : Ty) (k : String) (hk : k ≠ "str") (hK : "str" ∉ K) (inv : StateInv c P K T) :
    ∃ T', mergeOne c e false [(f, T)] f (.ser k) = .ok [(f, T')] ∧ StateInv c P (K ++ [k]) T' := by
  obtain ⟨ks, hnd, hmem, rfl⟩ := inv
  have hflat := members_flat c ks P
  have hopt := collapse_not_opt hflat
  by_cases hM : members c ks P = [.ser k]
  · have he : e.eq (collapse (members c ks P)) (.ser k) = .ok true := by
      rw [hM]; exact eq_collapse_ser_true e n hf k
    refine ⟨_, mergeOne_flat c e f _ _ true hopt rfl he, ks, hnd, ?_, by simp⟩
    have hkk : k ∈ ks := ser_mem_members (by rw [hM]; simp)
    intro k'
    rw [hmem, List.mem_append, List.mem_singleton]
    constructor
    · exact .inl
    · rintro (h | rfl)
      · exact h
      · exact (hmem _).1 hkk
  · have he := eq_collapse_ser_false e n hf k _ hflat hM
    refine ⟨_, mergeOne_flat c e f _ _ false hopt rfl he, dedupStr (k :: ks), nodup_dedupStr _, ?_, ?_⟩
    · intro k'
      rw [mem_dedupStr, List.mem_cons, List.mem_append, List.mem_singleton, hmem]
      exact Or.comm
    · have hne : (dedupStr (k :: ks)).isEmpty = false := by
        cases h : dedupStr (k :: ks) with
        | nil =>
          have : k ∈ dedupStr (k :: ks) := mem_dedupStr.2 (by simp)
          rw [h] at this; cases this
        | cons _ _ => rfl
      simp only [Bool.false_eq_true, if_false]
      rw [unionMembers_collapse hflat]
      congr 1
      show mkUnionMembers c ((Ty.ser k :: ks.map .ser) ++ tailOf c ks.isEmpty P) = _
      rw [mk_members c _ _ (isSerLit_cons_sers _ rfl ks)
        (by rw [kindsL_ser_cons]; simp only [List.mem_cons, not_or]
            exact ⟨fun h => hk h.symm, fun h => hK ((hmem _).1 h)⟩)
        (tailOf_isTail c _ P), kindsL_ser_cons]
      unfold members
      rw [hne, tailOf_false]
      congr 1
      -- the appended member
      unfold tailOf
      split
      · rename_i hc
        rw [goodTail_ov (fun e => hc.2.1 (sortUniq_eq_nil.1 e)) (allOv_overflows hc.2.1 hc.2.2)]
        apply litOrStr_killed
        rw [useFinal_append]; simp [useFinal, isKiller]
      · have := litOrStr_good c (Ty.ser k :: ks.map .ser) [] P
          (by simp [useFinal, isKiller]) (by simp) (by simp)
        simpa using this

/-- an incoming plain string that overflows on its own -/
theorem step_ov (c : LitCfg) (e : EqEnv) (n : Nat) (hf : e.fuel = n + 1) (f : String) (P K : List String)
    (T : Ty) (s : String) (hs : Overflows c [s]) (hK : "str" ∉ K) (hne : P ≠ [] ∨ K ≠ [])
    (inv : StateInv c P K T) :
    ∃ T', mergeOne c e false [(f, T)] f (.lit true []) = .ok [(f, T')] ∧ StateInv c (P ++ [s]) K T' := by
  obtain ⟨ks, hnd, hmem, rfl⟩ := inv
  have hflat := members_flat c ks P
  have hopt := collapse_not_opt hflat
  by_cases hM : ∃ o, members c ks P = [.lit o []]
  · obtain ⟨o, hM⟩ := hM
    have he : e.eq (collapse (members c ks P)) (.lit true []) = .ok true := by
      rw [hM]; exact eq_collapse_lit_true e n hf o true []
    refine ⟨_, mergeOne_flat c e f _ _ true hopt rfl he, ks, hnd, hmem, ?_⟩
    simp only [if_true]
    obtain ⟨rfl, ht⟩ := members_eq_lit hM
    congr 1
    show tailOf c true P = tailOf c true (P ++ [s])
    unfold tailOf at ht ⊢
    split at ht
    · rename_i hc
      have hall : AllOv c (P ++ [s]) := by
        intro x hx
        rcases List.mem_append.1 hx with h | h
        · exact hc.2.2 x h
        · have : x = s := by simpa using h
          subst this; exact hs
      rw [if_pos hc, if_pos ⟨rfl, by simp, hall⟩]
    · have := goodTail_eq_lit ht
      exact absurd this.2.1.symm this.2.2.1
  · have hM' : ∀ o, members c ks P ≠ [.lit o []] := fun o h => hM ⟨o, h⟩
    have he := eq_collapse_lit_false e n hf true [] _ hflat hM'
    refine ⟨_, mergeOne_flat c e f _ _ false hopt rfl he, ks, hnd, hmem, ?_⟩
    simp only [Bool.false_eq_true, if_false]
    rw [unionMembers_collapse hflat]
    congr 1
    show mkUnionMembers c ((Ty.lit true [] :: ks.map .ser) ++ tailOf c ks.isEmpty P) = _
    rw [mk_members c _ _ (isSerLit_cons_sers _ rfl ks)
      (by rw [kindsL_lit_cons]; exact fun h => hK ((hmem _).1 h))
      (tailOf_isTail c _ P), kindsL_lit_cons, dedupStr_of_nodup hnd]
    unfold members
    congr 1
    rw [litOrStr_killed (by simp [useFinal, isKiller])]
    -- the new tail is `str`
    have hsm : s ∈ sortUniq (P ++ [s]) := mem_sortUniq.2 (by simp)
    have hgood : goodTail c (sortUniq (P ++ [s])) = [.str] :=
      goodTail_ov (List.ne_nil_of_mem hsm) (overflows_of_single hs hsm)
    unfold tailOf
    split
    · rename_i hc
      exfalso
      have hks : ks = [] := by simpa using hc.1
      subst hks
      have hP : P ≠ [] := by
        rcases hne with h | h
        · exact h
        · obtain ⟨k, hk⟩ := List.exists_mem_of_ne_nil K h
          exact absurd ((hmem k).2 hk) (by simp)
      have hall : AllOv c P := fun x hx => hc.2.2 x (List.mem_append_left _ hx)
      apply hM' true
      simp [members, tailOf, hP, hall]
    · exact hgood.symm

/-- an incoming plain string within the limits on its own -/
theorem step_lit (c : LitCfg) (e : EqEnv) (n : Nat) (hf : e.fuel = n + 1) (f : String) (P K : List String)
    (T : Ty) (s : String) (hs : ¬ Overflows c [s]) (hK : "str" ∉ K) (inv : StateInv c P K T) :
    ∃ T', mergeOne c e false [(f, T)] f (.lit false [s]) = .ok [(f, T')] ∧ StateInv c (P ++ [s]) K T' := by
  obtain ⟨ks, hnd, hmem, rfl⟩ := inv
  have hflat := members_flat c ks P
  have hopt := collapse_not_opt hflat
  have hnall : ∀ b : Bool, ¬ (b = true ∧ P ++ [s] ≠ [] ∧ AllOv c (P ++ [s])) :=
    fun _ h => hs (h.2.2 s (by simp))
  have hnew : ∀ b : Bool, tailOf c b (P ++ [s]) = goodTail c (sortUniq (P ++ [s])) := by
    intro b; unfold tailOf; rw [if_neg (hnall b)]
  by_cases hM : ∃ o, members c ks P = [.lit o [s]]
  · obtain ⟨o, hM⟩ := hM
    have he : e.eq (collapse (members c ks P)) (.lit false [s]) = .ok true := by
      rw [hM]; exact eq_collapse_lit_true e n hf o false [s]
    refine ⟨_, mergeOne_flat c e f _ _ true hopt rfl he, ks, hnd, hmem, ?_⟩
    simp only [if_true]
    obtain ⟨rfl, ht⟩ := members_eq_lit hM
    congr 1
    show tailOf c true P = tailOf c true (P ++ [s])
    rw [hnew, ht]
    unfold tailOf at ht
    split at ht
    · simp at ht
    · obtain ⟨ho, hv, _, _⟩ := goodTail_eq_lit ht
      subst ho
      rw [sortUniq_snoc, ← hv]
      have : insertUniq s [s] = [s] := by simp [insertUniq]
      rw [this, goodTail_ok (by simp) hs]
  · have hM' : ∀ o, members c ks P ≠ [.lit o [s]] := fun o h => hM ⟨o, h⟩
    have he := eq_collapse_lit_false e n hf false [s] _ hflat hM'
    refine ⟨_, mergeOne_flat c e f _ _ false hopt rfl he, ks, hnd, hmem, ?_⟩
    simp only [Bool.false_eq_true, if_false]
    rw [unionMembers_collapse hflat]
    congr 1
    show mkUnionMembers c ((Ty.lit false [s] :: ks.map .ser) ++ tailOf c ks.isEmpty P) = _
    rw [mk_members c _ _ (isSerLit_cons_sers _ rfl ks)
      (by rw [kindsL_lit_cons]; exact fun h => hK ((hmem _).1 h))
      (tailOf_isTail c _ P), kindsL_lit_cons, dedupStr_of_nodup hnd]
    unfold members
    congr 1
    rw [hnew]
    unfold tailOf
    split
    · rename_i hc
      have hov : Overflows c (sortUniq (P ++ [s])) := overflows_snoc s (allOv_overflows hc.2.1 hc.2.2)
      have hsm : s ∈ sortUniq (P ++ [s]) := mem_sortUniq.2 (by simp)
      rw [goodTail_ov (List.ne_nil_of_mem hsm) hov]
      apply litOrStr_killed
      rw [useFinal_append]; simp [useFinal, isKiller]
    · exact litOrStr_good c (Ty.lit false [s] :: ks.map .ser) [s] P
        (by simp [useFinal, isKiller]) (by intro x; simp) (overflows_snoc s)

end J2M.LitRule
