/-
  `_generate_code` (`renderLevel`) and the class generators never fail through fuel: the only `outOfFuel` of
  `renderLevel` is its own recursion fuel, which suffices when the structure has fewer nodes than the fuel.
-/
import J2M.Proofs.DedupTermStruct
namespace J2M.DedupTerm
open J2M J2M.Rend2 J2M.PrepNames

/-- the computation does not fail through fuel -/
def NoFuel {α : Type} (x : Except PyErr α) : Prop := x ≠ .error .outOfFuel

theorem NoFuel.ok {α : Type} (a : α) : NoFuel (Except.ok a : Except PyErr α) := by intro h; cases h
theorem NoFuel.pure {α : Type} (a : α) : NoFuel (Pure.pure a : Except PyErr α) := by intro h; cases h
theorem NoFuel.error {α : Type} {e : PyErr} (h : e ≠ .outOfFuel) : NoFuel (Except.error e : Except PyErr α) := by
  intro h'; injection h' with h'; exact h h'

theorem NoFuel.bind {α β : Type} {x : Except PyErr α} {f : α → Except PyErr β} (hx : NoFuel x)
    (hf : ∀ a, x = .ok a → NoFuel (f a)) : NoFuel (x >>= f) := by
  cases x with
  | error e => intro h; apply hx; injection h with h; rw [h]
  | ok a => exact hf a rfl

theorem NoFuel.map {α β : Type} {x : Except PyErr α} {f : α → β} (hx : NoFuel x) : NoFuel (x.map f) := by
  cases x with
  | error e => intro h; apply hx; injection h with h; rw [h]
  | ok a => exact NoFuel.ok _

theorem NoFuel.ite {α : Type} {p : Prop} [Decidable p] {a b : Except PyErr α} (ha : NoFuel a) (hb : NoFuel b) :
    NoFuel (if p then a else b) := by split <;> assumption

theorem NoFuel.optMatch {α β : Type} (d : Option β) {f : β → Except PyErr α} {b : Except PyErr α}
    (hf : ∀ x, NoFuel (f x)) (hb : NoFuel b) : NoFuel (match d with | some x => f x | none => b) := by
  cases d
  · exact hb
  · exact hf _

theorem NoFuel.mapM {α β : Type} {f : α → Except PyErr β} : ∀ (l : List α), (∀ x ∈ l, NoFuel (f x)) →
    NoFuel (l.mapM f)
  | [], _ => NoFuel.pure _
  | x :: xs, h => by
    rw [List.mapM_cons]
    exact NoFuel.bind (h x (by simp)) (fun _ _ =>
      NoFuel.bind (NoFuel.mapM xs (fun y hy => h y (by simp [hy]))) (fun _ _ => NoFuel.pure _))

/-! ## the class generator -/

mutual
theorem typingCode_noFuel (c : RenderCfg) (e : RefEnv) : ∀ t : Ty, NoFuel (typingCode c e t)
  | .int | .float | .bool | .str | .null | .unknown => by simp only [typingCode]; exact NoFuel.pure _
  | .obj _ => by simp only [typingCode]; exact NoFuel.error (by simp)
  | .ser k => by
    simp only [typingCode]
    split
    · split
      · exact NoFuel.pure _
      · exact NoFuel.error (by simp)
    · exact NoFuel.pure _
  | .lit _ vs => by
    simp only [typingCode]
    split <;> exact NoFuel.pure _
  | .list t => by
    simp only [typingCode]
    exact NoFuel.bind (typingCode_noFuel c e t) (fun _ _ => NoFuel.pure _)
  | .dict t => by
    simp only [typingCode]
    exact NoFuel.bind (typingCode_noFuel c e t) (fun _ _ => NoFuel.pure _)
  | .opt t => by
    simp only [typingCode]
    exact NoFuel.bind (typingCode_noFuel c e t) (fun _ _ => NoFuel.pure _)
  | .union ts => by
    simp only [typingCode]
    refine NoFuel.bind (typingCodes_noFuel c e ts) (fun _ _ => ?_)
    split
    · exact NoFuel.error (by simp)
    · exact NoFuel.pure _
  | .tuple ts => by
    simp only [typingCode]
    refine NoFuel.bind (typingCodes_noFuel c e ts) (fun _ _ => ?_)
    split
    · exact NoFuel.error (by simp)
    · exact NoFuel.pure _
  | .ptr i => by
    simp only [typingCode]
    split
    · exact NoFuel.error (by simp)
    · exact NoFuel.pure _
theorem typingCodes_noFuel (c : RenderCfg) (e : RefEnv) : ∀ ts : List Ty, NoFuel (typingCodes c e ts)
  | [] => by simp only [typingCodes]; exact NoFuel.pure _
  | t :: ts => by
    simp only [typingCodes]
    exact NoFuel.bind (typingCode_noFuel c e t) (fun _ _ =>
      NoFuel.bind (typingCodes_noFuel c e ts) (fun _ _ => NoFuel.pure _))
end

theorem prepareLabel_noFuel (o : LabelOracles) (bl : List String) (cu snake : Bool) (s : String) :
    NoFuel (prepareLabel o bl cu snake s) := by
  rw [NamesP.prepareLabel_eq]
  apply NoFuel.bind
  · unfold NamesP.labelHead
    split
    · exact NoFuel.error (by simp)
    · split
      · exact NoFuel.error (by simp)
      · exact NoFuel.ok _
  · intro s2 _
    unfold NamesP.labelTail
    split
    · exact NoFuel.error (by simp)
    · split
      · exact NoFuel.error (by simp)
      · simp only
        split
        · split
          · exact NoFuel.error (by simp)
          · exact NoFuel.ok _
        · exact NoFuel.ok _

theorem convertFieldName_noFuel (c : RenderCfg) (o : RenderOracles) (name : String) :
    NoFuel (convertFieldName c o name) := by
  unfold convertFieldName
  split
  · exact NoFuel.pure _
  · exact prepareLabel_noFuel _ _ _ _ _

theorem fieldLine_noFuel (c : RenderCfg) (o : RenderOracles) (e : RefEnv) (key : String) (t : Ty) (optional : Bool) :
    NoFuel (fieldLine c o e key t optional) := by
  unfold fieldLine
  refine NoFuel.bind (typingCode_noFuel c e t) (fun p _ => ?_)
  refine NoFuel.bind (convertFieldName_noFuel c o key) (fun name _ => ?_)
  cases c.fw
  · exact NoFuel.pure _
  · refine NoFuel.ite (NoFuel.pure _) ?_
    cases optional <;> simp only [Bool.false_eq_true, if_false, if_true] <;> exact NoFuel.pure _
  · refine NoFuel.ite (NoFuel.pure _) ?_
    cases optional <;> simp only [Bool.false_eq_true, if_false, if_true] <;> exact NoFuel.pure _
  · exact NoFuel.pure _
  · simp only; split <;> exact NoFuel.pure _

theorem stringFieldPath_noFuel : ∀ t : Ty, NoFuel (stringFieldPath t)
  | .ser _ | .union _ | .ptr _ | .null | .unknown | .lit _ _ | .int | .float | .bool | .str => by
    simp only [stringFieldPath]; exact NoFuel.pure _
  | .opt t | .list t | .dict t => by
    simp only [stringFieldPath]
    exact NoFuel.bind (stringFieldPath_noFuel t) (fun _ _ => NoFuel.pure _)
  | .tuple _ | .obj _ => by simp only [stringFieldPath]; exact NoFuel.error (by simp)

theorem stringFieldPaths_noFuel (fields : Fields) : NoFuel (stringFieldPaths fields) := by
  unfold stringFieldPaths
  refine NoFuel.bind (NoFuel.mapM _ (fun kv _ => ?_)) (fun _ _ => NoFuel.pure _)
  refine NoFuel.bind (stringFieldPath_noFuel kv.2) (fun r _ => ?_)
  split <;> exact NoFuel.pure _

theorem classLines_noFuel (c : RenderCfg) (o : RenderOracles) (e : RefEnv) (m : Model) :
    NoFuel (classLines c o e m) := by
  unfold classLines
  exact NoFuel.bind (NoFuel.mapM _ (fun _ _ => fieldLine_noFuel _ _ _ _ _ _)) (fun _ _ =>
    NoFuel.bind (NoFuel.mapM _ (fun _ _ => fieldLine_noFuel _ _ _ _ _ _)) (fun _ _ => NoFuel.pure _))

theorem classDecos_noFuel (c : RenderCfg) (o : RenderOracles) (m : Model) : NoFuel (classDecos c o m) := by
  unfold classDecos
  refine NoFuel.bind ?_ (fun base _ => ?_)
  · split
    · refine NoFuel.bind (stringFieldPaths_noFuel _) (fun paths _ => ?_)
      refine NoFuel.bind (NoFuel.mapM _ (fun p _ => ?_)) (fun sf _ => ?_)
      · exact NoFuel.bind (convertFieldName_noFuel _ _ _) (fun _ _ => NoFuel.pure _)
      · split <;> exact NoFuel.pure _
    · split
      · exact NoFuel.bind (stringFieldPaths_noFuel _) (fun _ _ => NoFuel.pure _)
      · exact NoFuel.pure _
  · split <;> exact NoFuel.pure _

theorem genClass_noFuel (c : RenderCfg) (o : RenderOracles) (e : RefEnv) (m : Model) (nested : List String) :
    NoFuel (genClass c o e m nested) := by
  rw [genClass_parts]
  apply NoFuel.map
  unfold classParts
  exact NoFuel.bind (classLines_noFuel c o e m) (fun _ _ =>
    NoFuel.bind (classDecos_noFuel c o m) (fun _ _ => NoFuel.pure _))

theorem renderGens_noFuel (c : RenderCfg) (o : RenderOracles) (g : Graph) (inj : List (String × String))
    (names : NameMap) (gens : List (String × List String)) : NoFuel (renderGens c o g inj names gens) :=
  NoFuel.mapM _ (fun _ _ => genClass_noFuel _ _ _ _ _)

/-! ## `_generate_code` -/

/-- **renderLevel_noFuel**: with more fuel than nodes, `_generate_code` does not fail through fuel -/
theorem renderLevel_noFuel (c : RenderCfg) (o : RenderOracles) (g : Graph) (inj : List (String × String)) :
    ∀ (fuel : Nat) (names : NameMap) (nodes : List Node), (postL nodes).length < fuel →
      NoFuel (renderLevel c o g inj fuel names nodes) := by
  intro fuel
  induction fuel with
  | zero => intro names nodes h; omega
  | succ fuel ih =>
    intro names nodes h
    cases nodes with
    | nil => rw [renderLevel_nil]; exact NoFuel.ok _
    | cons n rest =>
      obtain ⟨idx, nested⟩ := n
      rw [postL_length_cons] at h
      rw [renderLevel_cons]
      exact NoFuel.bind (ih names nested (by omega)) (fun r1 _ =>
        NoFuel.bind (renderGens_noFuel c o g inj _ _) (fun rs _ =>
          NoFuel.bind (convertNameAt_ne_outOfFuel c o _ _) (fun names2 _ =>
            NoFuel.bind (ih names2 rest (by omega)) (fun _ _ => NoFuel.pure _))))

/-- the only way `renderLevel` fails through fuel is a structure with at least `fuel` nodes -/
theorem renderLevel_outOfFuel {c : RenderCfg} {o : RenderOracles} {g : Graph} {inj : List (String × String)}
    {fuel : Nat} {names : NameMap} {nodes : List Node}
    (h : renderLevel c o g inj fuel names nodes = .error .outOfFuel) : fuel ≤ (postL nodes).length := by
  apply Classical.byContradiction
  intro hn
  exact renderLevel_noFuel c o g inj fuel names nodes (by omega) h

/-! ## `generate_code` on a structure that lists every model at most once -/

/-- `StructOK n roots`: the structure lists no model twice, has at most `n` nodes, and its indices have the shape of
    registry indices -/
structure StructOK (n : Nat) (roots : List Node) : Prop where
  nodup : (postL roots).Nodup
  size : (postL roots).length ≤ n
  shape : ∀ i ∈ postL roots, IdxShape i

theorem StructOK.preorder {n : Nat} {roots : List Node} (h : StructOK n roots) :
    ∃ idxs, preorder (n + 2) roots = .ok idxs ∧ idxs.Perm (postL roots) ∧ idxs.Nodup ∧ ∀ i ∈ idxs, IdxShape i := by
  obtain ⟨idxs, hi⟩ := preorder_ok_of_fuel (n + 2) roots (by have := h.size; omega)
  have hp := preorder_perm _ _ _ hi
  exact ⟨idxs, hi, hp, hp.nodup_iff.mpr h.nodup, fun i hi' => h.shape i (hp.mem_iff.mp hi')⟩

/-- on such a structure `_prepare_class_names` fails exactly when one of the generator constructors fails -/
theorem prepareNames_struct {c : RenderCfg} {o : RenderOracles} {names : NameMap} {roots : List Node}
    (h : StructOK names.length roots) :
    ∃ idxs, preorder (names.length + 2) roots = .ok idxs ∧ idxs.Perm (postL roots) ∧
      (∀ e, prepareNames c o names roots = .error e ↔ convAll c o names idxs = .error e) ∧
      (∀ N1, convAll c o names idxs = .ok N1 → ∃ R, prepareNames c o names roots = .ok R) := by
  obtain ⟨idxs, hi, hp, hnd, hs⟩ := h.preorder
  refine ⟨idxs, hi, hp, fun e => ?_, fun N1 hc => ?_⟩
  · rw [prepareNames_error_iff' (fun idxs' h' => by cases hi.symm.trans h'; exact ⟨hnd, hs⟩)]
    rw [hi]
    simp
  · obtain ⟨R, hR⟩ := prepareNames_loop_ok hnd hs hc
    exact ⟨R, prepareNames_ok.mpr ⟨idxs, N1, hi, hc, hR⟩⟩

theorem prepareNames_noFuel {c : RenderCfg} {o : RenderOracles} {names : NameMap} {roots : List Node}
    (h : StructOK names.length roots) : NoFuel (prepareNames c o names roots) := by
  obtain ⟨idxs, _, _, he, _⟩ := prepareNames_struct (c := c) (o := o) h
  intro hf
  exact convAll_ne_outOfFuel c o names idxs ((he _).mp hf)

/-- **generateCode_noFuel** -/
theorem generateCode_noFuel {c : RenderCfg} {o : RenderOracles} {g : Graph} {roots : List Node}
    (inj : List (String × String)) (pre : Option String) (h : StructOK g.models.length roots) :
    NoFuel (generateCode c o g roots inj pre) := by
  rw [generateCode_eq]
  have h' : StructOK (names0 g).length roots := by rw [names0_length]; exact h
  exact NoFuel.bind (prepareNames_noFuel h') (fun N0 _ =>
    NoFuel.bind (renderLevel_noFuel c o g inj _ N0 roots (by have := h.size; omega)) (fun r _ =>
      NoFuel.bind (renderGens_noFuel c o g inj _ _) (fun _ _ => NoFuel.pure _)))

/-- the flat structure of a well-formed registry -/
theorem structOK_flat {g : Graph} {l : List String} (wf : Reg.WF g) (h : composeFlat g = .ok l) :
    StructOK g.models.length (l.map (fun i => Node.mk i [])) := by
  have hp := LayoutP.composeFlat_perm h
  refine ⟨by rw [postL_flat]; exact hp.nodup_iff.mpr wf.nodup, by rw [postL_flat, hp.length_eq]; simp,
    fun i hi => ?_⟩
  rw [postL_flat] at hi
  obtain ⟨m, hm, rfl⟩ := List.mem_map.mp (hp.mem_iff.mp hi)
  obtain ⟨k, _, e⟩ := wf.bound m hm
  rw [e]; exact indexOf_shape k

/-- the nested structure of a well-formed registry -/
theorem structOK_nested {g : Graph} {roots : List Node} {inj : List (String × String)} (wf : Reg.WF g)
    (h : composeNested g = .ok (roots, inj)) : StructOK g.models.length roots := by
  obtain ⟨hnd, hsub⟩ := composeNested_nodup wf.nodup h
  refine ⟨hnd, ?_, fun i hi => ?_⟩
  · have := hnd.length_le_of_subset (fun x hx => hsub x hx)
    simpa using this
  · obtain ⟨m, hm, rfl⟩ := List.mem_map.mp (hsub i hi)
    obtain ⟨k, _, e⟩ := wf.bound m hm
    rw [e]; exact indexOf_shape k

end J2M.DedupTerm
