/-
  Helper lemmas for C10R, part 3: `_convert` and `merge_field_sets` on the samples `{f: s₁}, …, {f: sₙ}`.
-/
import J2M.Proofs.LitRuleMerge
namespace J2M.LitRule

open J2M J2M.Strings

/-- the sample `{f: s}` -/
def sample (f : String) (s : String) : Json := .obj [(f, .str s)]

/-- the samples `{f: s₁}, …, {f: sₙ}` -/
def samples (f : String) (l : List String) : List Json := l.map (sample f)

/-- what `_detect_type` makes of the string `s` -/
def detTy (cfg : GenCfg) (acc : Accepts) (s : String) : Ty :=
  match firstKind cfg.reg acc s with
  | some k => .ser k
  | none => mkLit cfg.lit [s]

theorem detect_str (cfg : GenCfg) (o : GenOracles) (cd : Bool) (s : String)
    (h : TotalOn cfg.reg o.accepts s) : detect cfg o cd (.str s) = .ok (detTy cfg o.accepts s) := by
  rw [detect, detectStr_total h]
  unfold detTy
  cases firstKind cfg.reg o.accepts s <;> rfl

theorem convert_sample (cfg : GenCfg) (o : GenOracles) (f s : String) (h : TotalOn cfg.reg o.accepts s) :
    convert cfg o (sample f s) = .ok [(f, detTy cfg o.accepts s)] := by
  simp [sample, convert, convertFields, detect_str cfg o _ s h, bind, Except.bind, pure, Except.pure]

theorem mapM_convert_samples (cfg : GenCfg) (o : GenOracles) (f : String) :
    ∀ l : List String, (∀ s ∈ l, TotalOn cfg.reg o.accepts s) →
      (samples f l).mapM (convert cfg o) = .ok (l.map (fun s => [(f, detTy cfg o.accepts s)])) := by
  intro l
  induction l with
  | nil => intro _; rfl
  | cons s l ih =>
    intro h
    have ih' := ih (fun x hx => h x (by simp [hx]))
    unfold samples at ih' ⊢
    rw [List.map_cons, List.mapM_cons, convert_sample cfg o f s (h s (by simp)), ih']
    rfl

/-! ## members of `P` and `K` -/

theorem mem_plainStrs {reg : StrRegistry} {acc : Accepts} {l : List String} {s : String} :
    s ∈ plainStrs reg acc l ↔ s ∈ l ∧ isPlain reg acc s = true := by
  simp [plainStrs]

theorem mem_kindsOf {reg : StrRegistry} {acc : Accepts} {l : List String} {k : String} :
    k ∈ kindsOf reg acc l ↔ ∃ s ∈ l, isPlain reg acc s = false ∧ firstKind reg acc s = some k := by
  simp [kindsOf, pseudoStrs, List.mem_filterMap, and_assoc]

theorem kindsOf_registered {reg : StrRegistry} {acc : Accepts} {l : List String} {k : String}
    (h : k ∈ kindsOf reg acc l) : k ∈ reg.types := by
  obtain ⟨s, _, _, hk⟩ := mem_kindsOf.1 h
  exact (firstKind_mem hk).1

theorem observed_ne {reg : StrRegistry} {acc : Accepts} {l : List String}
    (htot : ∀ s ∈ l, TotalOn reg acc s) (hne : l ≠ []) :
    plainStrs reg acc l ≠ [] ∨ kindsOf reg acc l ≠ [] := by
  obtain ⟨s, hs⟩ := List.exists_mem_of_ne_nil l hne
  cases hp : isPlain reg acc s with
  | true => exact .inl (List.ne_nil_of_mem (mem_plainStrs.2 ⟨hs, hp⟩))
  | false =>
    right
    cases hk : firstKind reg acc s with
    | none => rw [isPlain_of_none (htot s hs) hk] at hp; cases hp
    | some k => exact List.ne_nil_of_mem (mem_kindsOf.2 ⟨s, hs, hp, hk⟩)

/-! ## the fold -/

/-- the invariant after the (non-empty) prefix `l` of the sample strings -/
def InvAt (cfg : GenCfg) (acc : Accepts) (l : List String) (T : Ty) : Prop :=
  StateInv cfg.lit (plainStrs cfg.reg acc l) (kindsOf cfg.reg acc l) T

theorem inv_first (cfg : GenCfg) (acc : Accepts) (s : String) (h : TotalOn cfg.reg acc s) :
    InvAt cfg acc [s] (detTy cfg acc s) := by
  unfold InvAt detTy
  cases hk : firstKind cfg.reg acc s with
  | some k =>
    have hp := isPlain_of_some h hk
    refine ⟨[k], by simp, ?_, ?_⟩
    · intro k'; simp [kindsOf, pseudoStrs, hp, hk]
    · simp [plainStrs, hp, members, tailOf, goodTail, sortUniq, collapse]
  | none =>
    have hp := isPlain_of_none h hk
    refine ⟨[], by simp, ?_, ?_⟩
    · intro k'; simp [kindsOf, pseudoStrs, hp]
    · have hP : plainStrs cfg.reg acc [s] = [s] := by simp [plainStrs, hp]
      rw [hP]
      rcases mkLit_cases' cfg.lit [s] with ⟨hov, hm⟩ | ⟨hov, hm⟩
      · rw [hm]
        have : AllOv cfg.lit [s] := by intro x hx; have : x = s := by simpa using hx
                                       subst this; exact hov
        simp [members, tailOf, this, collapse]
      · rw [hm]
        have : ¬ AllOv cfg.lit [s] := fun h => hov (h s (by simp))
        simp [members, tailOf, this, sortUniq_singleton, goodTail_ok (c := cfg.lit) (V := [s]) (by simp) hov,
          collapse]

theorem inv_step (cfg : GenCfg) (e : EqEnv) (n : Nat) (hf : e.fuel = n + 1) (acc : Accepts) (f : String)
    (hstr : "str" ∉ cfg.reg.types) (l : List String) (hne : l ≠ [])
    (htot : ∀ x ∈ l, TotalOn cfg.reg acc x) (s : String) (hs : TotalOn cfg.reg acc s)
    (T : Ty) (inv : InvAt cfg acc l T) :
    ∃ T', mergeOne cfg.lit e false [(f, T)] f (detTy cfg acc s) = .ok [(f, T')] ∧ InvAt cfg acc (l ++ [s]) T' := by
  unfold InvAt at inv ⊢
  have hK : "str" ∉ kindsOf cfg.reg acc l := fun h => hstr (kindsOf_registered h)
  unfold detTy
  cases hk : firstKind cfg.reg acc s with
  | some k =>
    have hp := isPlain_of_some hs hk
    have hks : k ≠ "str" := fun e => hstr (e ▸ (firstKind_mem hk).1)
    rw [plainStrs_snoc, hp, kindsOf_snoc_kind _ _ _ _ _ hp hk]
    simpa using step_ser cfg.lit e n hf f _ _ T k hks hK inv
  | none =>
    have hp := isPlain_of_none hs hk
    rw [plainStrs_snoc, hp, kindsOf_snoc_plain _ _ _ _ hp]
    rcases mkLit_cases' cfg.lit [s] with ⟨hov, hm⟩ | ⟨hov, hm⟩
    · simp only [hm, if_true]
      exact step_ov cfg.lit e n hf f _ _ T s hov hK (observed_ne htot hne) inv
    · simp only [hm, if_true]
      exact step_lit cfg.lit e n hf f _ _ T s hov hK inv

theorem go_inv (cfg : GenCfg) (e : EqEnv) (n : Nat) (hf : e.fuel = n + 1) (acc : Accepts) (f : String)
    (hstr : "str" ∉ cfg.reg.types) :
    ∀ (rest l : List String) (T : Ty), l ≠ [] → (∀ x ∈ l, TotalOn cfg.reg acc x) →
      (∀ x ∈ rest, TotalOn cfg.reg acc x) → InvAt cfg acc l T →
      ∃ T', mergeFieldSets.go cfg.lit e false [(f, T)] (rest.map (fun s => [(f, detTy cfg acc s)]))
          = .ok [(f, T')] ∧ InvAt cfg acc (l ++ rest) T' := by
  intro rest
  induction rest with
  | nil => intro l T _ _ _ inv; exact ⟨T, rfl, by simpa using inv⟩
  | cons s rest ih =>
    intro l T hne hl hr inv
    obtain ⟨T1, h1, inv1⟩ := inv_step cfg e n hf acc f hstr l hne hl s (hr s (by simp)) T inv
    have hl' : ∀ x ∈ l ++ [s], TotalOn cfg.reg acc x := by
      intro x hx
      rcases List.mem_append.1 hx with h | h
      · exact hl x h
      · have : x = s := by simpa using h
        subst this; exact hr x (by simp)
    obtain ⟨T', h2, inv2⟩ := ih (l ++ [s]) T1 (by simp) hl' (fun x hx => hr x (by simp [hx])) inv1
    refine ⟨T', ?_, by simpa using inv2⟩
    rw [List.map_cons, mergeFieldSets.go, mergeStep_single _ _ _ _ _ _ h1]
    exact h2

/-- `merge_field_sets` on the converted samples: one field, in the shape of the invariant -/
theorem merge_samples (cfg : GenCfg) (e : EqEnv) (n : Nat) (hf : e.fuel = n + 1) (acc : Accepts) (f : String)
    (hstr : "str" ∉ cfg.reg.types) (l : List String) (hne : l ≠ [])
    (htot : ∀ x ∈ l, TotalOn cfg.reg acc x) :
    ∃ T, mergeFieldSets cfg.lit e (l.map (fun s => [(f, detTy cfg acc s)])) = .ok [(f, T)] ∧
      InvAt cfg acc l T := by
  cases l with
  | nil => exact absurd rfl hne
  | cons s rest =>
    obtain ⟨T, h, inv⟩ := go_inv cfg e n hf acc f hstr rest [s] (detTy cfg acc s) (by simp)
      (fun x hx => htot x (by simpa using Or.inl (by simpa using hx)))
      (fun x hx => htot x (by simp [hx])) (inv_first cfg acc s (htot s (by simp)))
    refine ⟨T, ?_, by simpa using inv⟩
    unfold mergeFieldSets
    rw [List.map_cons, mergeFieldSets.go, mergeStep_first]
    exact h

end J2M.LitRule
