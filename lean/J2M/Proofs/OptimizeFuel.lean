/-
  Fuel adequacy: on raw metadata `optimize` never runs out of the fuel `Ty.fuelFor` provides.
-/
import J2M.Proofs.OptimizeErr
namespace J2M.C08P

/-! ### the error skeleton of `_optimize_union`, with the recursive calls made explicit -/

theorem optimizeUnion_err_core {cfg : GenCfg} {e : EqEnv} {f : Nat} (P : PyErr → Prop) {ms : List Ty}
    (hP1 : f = 0 → P .outOfFuel) (hP2 : P .recursion)
    (hP3 : ∀ X S err, (∀ t ∈ S, isStrCls t = true) → stageStr cfg.reg X S = .error err → P err)
    (ihJ : ∀ m err, AllRawF cfg m → mergeFieldSets cfg.lit e (objFs ms) = .ok m →
      optimize cfg e f (.obj m) = .error err → P err)
    (ihL : listEs ms ≠ [] → ∀ err, optimize cfg e f (.list (mkUnion cfg.lit (listEs ms))) = .error err → P err)
    (ihD : dictEs ms ≠ [] → ∀ err, optimize cfg e f (.dict (mkUnion cfg.lit (dictEs ms))) = .error err → P err)
    {err : PyErr} (hr : rawD cfg (.union ms) = true)
    (h : optimizeUnion cfg e (f + 1) ms = .error err) : P err := by
  obtain ⟨sh, hm⟩ := rawD_union hr
  rw [optimizeUnion_body _ _ _ _ (raw_hidden sh hm), split_optFree cfg.reg ms {} (fun t ht => ⟨rawD_not_opt (hm t ht), fun k hk => by
    have := hm t ht; rw [hk] at this; simpa [rawD] using this⟩)] at h
  unfold unionBody at h
  simp only [List.nil_append, bind, Except.bind] at h
  split at h
  · rename_i he; cases h; rw [stageMerge_error he]; exact hP2
  · rename_i o1 hmerge
    split at h
    · rename_i he; cases h
      exact hP3 _ _ _ (fun t ht => (List.mem_filter.mp ht).2) he
    · rename_i o4 hstr
      rw [stageList_eq, stageDict_eq] at hstr
      obtain ⟨Jx, ho1, hJx⟩ : ∃ Jx, o1 = stageInt (ms.filter isOtherCls) ++ Jx ∧
          ((Jx = [] ∧ objFs ms = []) ∨ ∃ m, Jx = [.obj m] ∧ AllRawF cfg m ∧
            mergeFieldSets cfg.lit e (objFs ms) = .ok m) := by
        rcases stageMerge_inv hmerge with ⟨h0, h1⟩ | ⟨m, hm', h1⟩
        · exact ⟨[], by simpa using h1, Or.inl ⟨rfl, h0⟩⟩
        · refine ⟨[.obj m], h1, Or.inr ⟨m, rfl, ?_, hm'⟩⟩
          apply mergeFieldSets_rawF _ hm'
          intro fs hfs kv hkv
          have := hm _ (mem_objFs hfs)
          simp only [rawD] at this
          exact (rawDFields_iff cfg fs).mp this kv hkv
      obtain ⟨Sx, ho4, hSx⟩ : ∃ Sx, o4 = o1 ++ (if (listEs ms).isEmpty then [] else [.list (mkUnion cfg.lit (listEs ms))])
          ++ (if (dictEs ms).isEmpty then [] else [.dict (mkUnion cfg.lit (dictEs ms))]) ++ Sx ∧
          ((Sx = [] ∧ ms.filter isStrCls = []) ∨ Sx = [.str] ∨ ∃ k, Sx = [.ser k]) := by
        rcases stageStr_inv' hstr with ⟨h1, h0⟩ | h1 | ⟨k, h1⟩
        · exact ⟨[], by simpa using h1, Or.inl ⟨rfl, h0⟩⟩
        · exact ⟨[.str], h1, Or.inr (Or.inl rfl)⟩
        · exact ⟨[.ser k], h1, Or.inr (Or.inr ⟨k, rfl⟩)⟩
      subst ho1
      generalize hLx : (if (listEs ms).isEmpty then [] else [Ty.list (mkUnion cfg.lit (listEs ms))]) = Lx at ho4
      generalize hDx : (if (dictEs ms).isEmpty then [] else [Ty.dict (mkUnion cfg.lit (dictEs ms))]) = Dx at ho4
      obtain ⟨_, hOopt⟩ := oPre_of_raw sh hm
      split at h
      · -- a member failed
        rename_i he
        cases h
        obtain ⟨x, hx, hxe⟩ := mapM_error_inv _ _ _ he
        cases f with
        | zero => rw [optimize_zero] at hxe; cases hxe; exact hP1 rfl
        | succ f' =>
          subst ho4
          simp only [List.mem_append] at hx
          rcases hx with (((hx | hx) | hx) | hx) | hx
          · rw [hOopt x hx e f'] at hxe; cases hxe
          · rcases hJx with ⟨rfl, _⟩ | ⟨m, rfl, hmr, hmm⟩
            · cases hx
            · simp at hx; subst hx; exact ihJ _ _ hmr hmm hxe
          · rw [← hLx] at hx
            split at hx
            · cases hx
            · rename_i hne
              simp at hx; subst hx
              exact ihL (by simpa using hne) _ hxe
          · rw [← hDx] at hx
            split at hx
            · cases hx
            · rename_i hne
              simp at hx; subst hx
              exact ihD (by simpa using hne) _ hxe
          · rcases hSx with ⟨rfl, _⟩ | rfl | ⟨k, rfl⟩
            · cases hx
            · simp at hx; subst hx; simp [optimize, pure, Except.pure] at hxe
            · simp at hx; subst hx; simp [optimize, pure, Except.pure] at hxe
      · -- all members fine: `finishOpt` cannot fail because the list is not empty
        rename_i types hmap
        exfalso
        have hnil := finishOpt_error h
        have hlen := mapM_length _ _ _ hmap
        rw [hnil] at hlen
        have ho4nil : o4 = [] := List.eq_nil_of_length_eq_zero hlen.symm
        rw [ho4] at ho4nil
        simp only [List.append_eq_nil_iff] at ho4nil
        obtain ⟨⟨⟨⟨hO, hJ⟩, hL⟩, hD⟩, hS⟩ := ho4nil
        -- but `ms` has a member, which falls into one category
        obtain ⟨m, hmm⟩ := List.exists_mem_of_ne_nil ms sh.ne
        by_cases hc : isOtherCls m = true
        · exact stageInt_ne_nil _ (List.ne_nil_of_mem (List.mem_filter.mpr ⟨hmm, hc⟩)) hO
        · have hmr := hm m hmm
          cases m with
          | obj fs =>
            rcases hJx with ⟨_, h0⟩ | ⟨m', h1, _, _⟩
            · have := mem_objFs_of hmm; rw [h0] at this; cases this
            · rw [h1] at hJ; cases hJ
          | list x =>
            rw [← hLx] at hL
            have : (listEs ms).isEmpty = false := by
              have := mem_listEs_of hmm
              cases hh : listEs ms with
              | nil => rw [hh] at this; cases this
              | cons _ _ => rfl
            simp [this] at hL
          | dict x =>
            rw [← hDx] at hD
            have : (dictEs ms).isEmpty = false := by
              have := mem_dictEs_of hmm
              cases hh : dictEs ms with
              | nil => rw [hh] at this; cases this
              | cons _ _ => rfl
            simp [this] at hD
          | str =>
            rcases hSx with ⟨_, h0⟩ | h1 | ⟨k, h1⟩
            · have : Ty.str ∈ ms.filter isStrCls := List.mem_filter.mpr ⟨hmm, by simp [isStrCls, Ty.cls]⟩
              rw [h0] at this; cases this
            · rw [h1] at hS; cases hS
            · rw [h1] at hS; cases hS
          | ser k' =>
            rcases hSx with ⟨_, h0⟩ | h1 | ⟨k, h1⟩
            · have : Ty.ser k' ∈ ms.filter isStrCls := List.mem_filter.mpr ⟨hmm, by simp [isStrCls, Ty.cls]⟩
              rw [h0] at this; cases this
            · rw [h1] at hS; cases hS
            · rw [h1] at hS; cases hS
          | _ => simp [isOtherCls, Ty.cls] at hc

/-! ### container height (unions and `Optional` are transparent) -/

mutual
def hgt : Ty → Nat
  | .list x | .dict x => 1 + hgt x
  | .obj fs => 1 + hgtFields fs
  | .union ts => hgtList ts
  | .tuple ts => 1 + hgtList ts
  | .opt x => hgt x
  | _ => 0
def hgtList : List Ty → Nat
  | [] => 0
  | t :: ts => max (hgt t) (hgtList ts)
def hgtFields : List (String × Ty) → Nat
  | [] => 0
  | (_, t) :: fs => max (hgt t) (hgtFields fs)
end

theorem hgtList_le (ts : List Ty) (n : Nat) : hgtList ts ≤ n ↔ ∀ t ∈ ts, hgt t ≤ n := by
  induction ts with
  | nil => simp [hgtList]
  | cons t ts ih => simp [hgtList, Nat.max_le, ih]

theorem hgtFields_le (fs : List (String × Ty)) (n : Nat) : hgtFields fs ≤ n ↔ ∀ kv ∈ fs, hgt kv.2 ≤ n := by
  induction fs with
  | nil => simp [hgtFields]
  | cons kv fs ih => obtain ⟨k, t⟩ := kv; simp [hgtFields, Nat.max_le, ih]

mutual
theorem hgt_le_size : ∀ t : Ty, hgt t ≤ t.size
  | .int | .float | .bool | .str | .null | .unknown | .ser _ | .lit _ _ | .ptr _ => by simp [hgt]
  | .list x | .dict x => by have := hgt_le_size x; simp only [hgt, Ty.size]; omega
  | .opt x => by have := hgt_le_size x; simp only [hgt, Ty.size]; omega
  | .union ts => by have := hgtList_le_size ts; simp only [hgt, Ty.size]; omega
  | .tuple ts => by have := hgtList_le_size ts; simp only [hgt, Ty.size]; omega
  | .obj fs => by have := hgtFields_le_size fs; simp only [hgt, Ty.size]; omega
theorem hgtList_le_size : ∀ ts : List Ty, hgtList ts ≤ Ty.sizeList ts
  | [] => by simp [hgtList]
  | t :: ts => by
    have := hgt_le_size t; have := hgtList_le_size ts
    simp only [hgtList, Ty.sizeList]; omega
theorem hgtFields_le_size : ∀ fs : List (String × Ty), hgtFields fs ≤ Ty.sizeFields fs
  | [] => by simp [hgtFields]
  | (_, t) :: fs => by
    have := hgt_le_size t; have := hgtFields_le_size fs
    simp only [hgtFields, Ty.sizeFields]; omega
end

theorem flatten_hgt (n : Nat) (ts : List Ty) (h : ∀ t ∈ ts, hgt t ≤ n) :
    ∀ t ∈ flattenUnion ts, hgt t ≤ n := by
  fun_induction flattenUnion ts with
  | case1 => simp
  | case2 us rest ih1 ih2 =>
    intro t ht
    rw [List.mem_append] at ht
    rcases ht with ht | ht
    · have : hgt (.union us) ≤ n := h _ (by simp)
      simp only [hgt] at this
      exact ih1 ((hgtList_le us n).mp this) t ht
    · exact ih2 (fun u hu => h u (by simp [hu])) t ht
  | case3 rest u hne ih =>
    intro t ht
    rcases List.mem_cons.mp ht with rfl | ht
    · exact h _ (by simp)
    · exact ih (fun u hu => h u (by simp [hu])) t ht

theorem mkUM_hgt (c : LitCfg) (n : Nat) (ts : List Ty) (h : ∀ t ∈ ts, hgt t ≤ n) :
    ∀ m ∈ mkUnionMembers c ts, hgt m ≤ n := by
  intro m hm
  rcases mem_mkUM hm with ⟨h1, _⟩ | rfl | ⟨vs, rfl, _, _⟩
  · exact flatten_hgt n ts h m h1
  · simp [hgt]
  · simp [hgt]

theorem collapse1_hgt (c : LitCfg) (n : Nat) (ts : List Ty) (h : ∀ t ∈ ts, hgt t ≤ n) :
    hgt (collapse1 (mkUnionMembers c ts)) ≤ n := by
  have hm := mkUM_hgt c n ts h
  generalize mkUnionMembers c ts = us at hm
  unfold collapse1
  split
  · exact hm _ (by simp)
  · simp only [hgt]; exact (hgtList_le us n).mpr hm

theorem mkUnion_hgt (c : LitCfg) (n : Nat) (ts : List Ty) (h : ∀ t ∈ ts, hgt t ≤ n) :
    hgtList (mkUnionMembers c ts) ≤ n := (hgtList_le _ n).mpr (mkUM_hgt c n ts h)

theorem unionMembers_hgt {n : Nat} {t : Ty} (h : hgt t ≤ n) : ∀ u ∈ t.unionMembers, hgt u ≤ n := by
  cases t with
  | union ts => simp only [hgt] at h; exact (hgtList_le ts n).mp h
  | _ => simpa [Ty.unionMembers] using h

theorem merged_hgt (c : LitCfg) {n : Nat} {a b : Ty} (ha : hgt a ≤ n) (hb : hgt b ≤ n) :
    hgt (collapse1 (mkUnionMembers c (a.unionMembers ++ b.unionMembers))) ≤ n := by
  apply collapse1_hgt
  intro t ht
  rcases List.mem_append.mp ht with h | h
  · exact unionMembers_hgt ha t h
  · exact unionMembers_hgt hb t h

def AllH (n : Nat) (fs : Fields) : Prop := ∀ kv ∈ fs, hgt kv.2 ≤ n

theorem AllH.set {n : Nat} {fs : Fields} (h : AllH n fs) (k : String) {v : Ty} (hv : hgt v ≤ n) :
    AllH n (Fields.set fs k v) := by
  intro kv hkv
  rcases Fields.mem_set hkv with h' | rfl
  · exact h kv h'
  · exact hv

theorem mergeOne_hgt {c : LitCfg} {e : EqEnv} {first : Bool} {n : Nat} {fields fields' : Fields}
    {name : String} {field : Ty} (hf : AllH n fields) (hd : hgt field ≤ n)
    (h : mergeOne c e first fields name field = .ok fields') : AllH n fields' := by
  unfold mergeOne at h
  split at h
  · simp only [pure, Except.pure, Except.ok.injEq] at h
    subst h
    apply hf.set
    split
    · exact hd
    · simpa [hgt] using hd
  · rename_i orig hget
    obtain ⟨k', hmem⟩ := Fields.get?_mem hget
    have horig : hgt orig ≤ n := hf _ hmem
    split at h
    · rename_i origInner
      have hin : hgt origInner ≤ n := by simpa [hgt] using horig
      simp only [bind, Except.bind] at h
      split at h
      · cases h
      · split at h
        · simp only [pure, Except.pure, Except.ok.injEq] at h; subst h; exact hf
        · split at h
          · cases h
          · split at h
            · simp only [pure, Except.pure, Except.ok.injEq] at h; subst h; exact hf
            · simp only [pure, Except.pure, Except.ok.injEq] at h; subst h
              apply hf.set
              simp only [hgt]
              exact merged_hgt c hd hin
    · simp only [bind, Except.bind] at h
      split at h
      · cases h
      · split at h
        · simp only [pure, Except.pure, Except.ok.injEq] at h; subst h; exact hf
        · split at h
          · cases h
          · split at h
            · simp only [pure, Except.pure, Except.ok.injEq] at h; subst h
              apply hf.set
              exact hd
            · simp only [pure, Except.pure, Except.ok.injEq] at h; subst h
              apply hf.set
              exact merged_hgt c hd horig

theorem foldlM_mergeOne_hgt {c : LitCfg} {e : EqEnv} {first : Bool} {n : Nat} (model : Fields)
    (hmodel : ∀ kv ∈ model, hgt kv.2 ≤ n) :
    ∀ (fields fields' : Fields), AllH n fields →
      model.foldlM (fun fs (kv : String × Ty) => mergeOne c e first fs kv.1 kv.2) fields = .ok fields' →
      AllH n fields' := by
  induction model with
  | nil =>
    intro fields fields' hf h
    simp only [List.foldlM_nil, pure, Except.pure, Except.ok.injEq] at h
    subst h; exact hf
  | cons kv model ih =>
    intro fields fields' hf h
    rw [List.foldlM_cons] at h
    simp only [bind, Except.bind] at h
    split at h
    · cases h
    · rename_i f1 h1
      exact ih (fun kv' h' => hmodel kv' (by simp [h'])) f1 fields'
        (mergeOne_hgt hf (hmodel kv (by simp)) h1) h

theorem mergeStep_hgt {c : LitCfg} {e : EqEnv} {first : Bool} {n : Nat} {fields fields' model : Fields}
    (hf : AllH n fields) (hmodel : ∀ kv ∈ model, hgt kv.2 ≤ n)
    (h : mergeStep c e first fields model = .ok fields') : AllH n fields' := by
  unfold mergeStep at h
  simp only [bind, Except.bind] at h
  split at h
  · cases h
  · rename_i f1 h1
    have hf1 := foldlM_mergeOne_hgt model hmodel fields f1 hf h1
    simp only [pure, Except.pure, Except.ok.injEq] at h
    subst h
    intro kv hkv
    simp only [List.mem_map] at hkv
    obtain ⟨kv0, hkv0, rfl⟩ := hkv
    split
    · simpa [hgt] using hf1 kv0 hkv0
    · exact hf1 kv0 hkv0

theorem mergeGo_hgt {c : LitCfg} {e : EqEnv} {n : Nat} (sets : List Fields)
    (hsets : ∀ m ∈ sets, ∀ kv ∈ m, hgt kv.2 ≤ n) :
    ∀ (first : Bool) (fields fields' : Fields), AllH n fields →
      mergeFieldSets.go c e first fields sets = .ok fields' → AllH n fields' := by
  induction sets with
  | nil =>
    intro first fields fields' hf h
    simp only [mergeFieldSets.go, pure, Except.pure, Except.ok.injEq] at h
    subst h; exact hf
  | cons m ms ih =>
    intro first fields fields' hf h
    simp only [mergeFieldSets.go, bind, Except.bind] at h
    split at h
    · cases h
    · rename_i f1 h1
      exact ih (fun m' hm' => hsets m' (by simp [hm'])) false f1 fields'
        (mergeStep_hgt hf (hsets m (by simp)) h1) h

theorem mergeFieldSets_hgt {c : LitCfg} {e : EqEnv} {n : Nat} {sets : List Fields} {fields' : Fields}
    (hsets : ∀ m ∈ sets, ∀ kv ∈ m, hgt kv.2 ≤ n)
    (h : mergeFieldSets c e sets = .ok fields') : AllH n fields' :=
  mergeGo_hgt sets hsets true [] fields' (fun _ h => by cases h) h

/-! ### enough fuel -/

theorem stageStr_error_stop {reg : StrRegistry} {X S : List Ty} {err : PyErr}
    (h : stageStr reg X S = .error err) : err = .stopIteration := by
  unfold stageStr at h
  split at h
  · simp [pure, Except.pure] at h
  · split at h
    · simp [pure, Except.pure] at h
    · simp only [bind, Except.bind] at h
      split at h
      · rename_i he
        generalize List.filterMap _ S = kinds at he
        obtain ⟨r, hr⟩ := resolve_ok reg (kinds.length + 2) kinds (by omega)
        rw [hr] at he; cases he
      · split at h
        · simp [pure, Except.pure] at h
        · cases h; rfl
        · simp [pure, Except.pure] at h

def FA (cfg : GenCfg) (e : EqEnv) (k : Nat) : Prop :=
  ∀ t, Raw cfg t = true → hgt t ≤ k → ∀ F, 4 * k + 4 ≤ F → optimize cfg e F t ≠ .error .outOfFuel
def FA' (cfg : GenCfg) (e : EqEnv) (k : Nat) : Prop :=
  ∀ t, rawD cfg t = true → hgt t ≤ k → ∀ F, 4 * k + 3 ≤ F → optimize cfg e F t ≠ .error .outOfFuel
def FU (cfg : GenCfg) (e : EqEnv) (k : Nat) : Prop :=
  ∀ ms, rawD cfg (.union ms) = true → hgtList ms ≤ k → ∀ F, 4 * k + 2 ≤ F →
    optimizeUnion cfg e F ms ≠ .error .outOfFuel

/-- fields of an object, one level down -/
theorem obj_no_oof {cfg : GenCfg} {e : EqEnv} {f : Nat} {fs : Fields}
    (hfs : ∀ kv ∈ fs, optimize cfg e f kv.2 ≠ .error .outOfFuel) :
    optimize cfg e (f + 1) (.obj fs) ≠ .error .outOfFuel := by
  intro h
  rw [optimize] at h
  simp only [bind, Except.bind] at h
  split at h
  · rename_i he; cases h
    obtain ⟨kv, hkv, hopt⟩ := mapM_error_inv _ _ _ he
    split at hopt
    · rename_i he'; cases hopt; exact hfs kv hkv he'
    · simp [pure, Except.pure] at hopt
  · simp [pure, Except.pure] at h

theorem FU_step {cfg : GenCfg} {e : EqEnv} (k : Nat) (hA : ∀ j, j < k → FA cfg e j)
    (hU : ∀ j, j < k → FU cfg e j) : FU cfg e k := by
  intro ms hr hk F hF h
  obtain ⟨f, rfl⟩ : ∃ f, F = f + 1 := ⟨F - 1, by omega⟩
  obtain ⟨sh, hm⟩ := rawD_union hr
  have hkm := (hgtList_le ms k).mp hk
  refine optimizeUnion_err_core (fun err => err ≠ .outOfFuel) (by intro h0; omega) (by simp)
    (fun X S err _ hs => by rw [stageStr_error_stop hs]; simp) ?_ ?_ ?_ hr h rfl
  · -- merged object
    intro m err hmr hmm hopt herr
    subst herr
    obtain ⟨f1, rfl⟩ : ∃ f1, f = f1 + 1 := ⟨f - 1, by omega⟩
    refine obj_no_oof ?_ hopt
    intro kv hkv
    cases k with
    | zero =>
      exfalso
      have : objFs ms = [] := by
        cases hh : objFs ms with
        | nil => rfl
        | cons fs _ =>
          have hmem : Ty.obj fs ∈ ms := mem_objFs (by rw [hh]; simp)
          have := hkm _ hmem
          simp [hgt] at this
      rw [this] at hmm
      simp [mergeFieldSets, mergeFieldSets.go, pure, Except.pure] at hmm
      subst hmm; cases hkv
    | succ k' =>
      have hH : AllH k' m := by
        apply mergeFieldSets_hgt _ hmm
        intro fs hfs kv' hkv'
        have := hkm _ (mem_objFs hfs)
        simp only [hgt] at this
        have h2 := (hgtFields_le fs k').mp (by omega)
        exact h2 kv' hkv'
      exact hA k' (by omega) kv.2 (rawF_Raw (hmr kv hkv)) (hH kv hkv) f1 (by omega)
  · -- merged list
    intro hne err hopt herr
    subst herr
    obtain ⟨x, hx⟩ := List.exists_mem_of_ne_nil _ hne
    have hxm := hkm _ (mem_listEs hx)
    simp only [hgt] at hxm
    obtain ⟨k', rfl⟩ : ∃ k', k = k' + 1 := ⟨k - 1, by omega⟩
    obtain ⟨f1, rfl⟩ : ∃ f1, f = f1 + 1 := ⟨f - 1, by omega⟩
    obtain ⟨f2, rfl⟩ : ∃ f2, f1 = f2 + 1 := ⟨f1 - 1, by omega⟩
    rw [optimize] at hopt
    simp only [bind, Except.bind] at hopt
    split at hopt
    · rename_i he; cases hopt
      unfold mkUnion at he
      rw [optimize] at he
      have hrd : rawD cfg (.union (mkUnionMembers cfg.lit (listEs ms))) = true := by
        have := mkUnion_rawD (cfg := cfg) (listEs ms) hne (fun t ht => by
          have := hm _ (mem_listEs ht); simpa [rawD] using this)
        simpa [mkUnion] using this
      refine hU k' (by omega) _ hrd ?_ f2 (by omega) he
      apply mkUnion_hgt
      intro t ht
      have := hkm _ (mem_listEs ht)
      simp only [hgt] at this; omega
    · simp [pure, Except.pure] at hopt
  · -- merged dict
    intro hne err hopt herr
    subst herr
    obtain ⟨x, hx⟩ := List.exists_mem_of_ne_nil _ hne
    have hxm := hkm _ (mem_dictEs hx)
    simp only [hgt] at hxm
    obtain ⟨k', rfl⟩ : ∃ k', k = k' + 1 := ⟨k - 1, by omega⟩
    obtain ⟨f1, rfl⟩ : ∃ f1, f = f1 + 1 := ⟨f - 1, by omega⟩
    obtain ⟨f2, rfl⟩ : ∃ f2, f1 = f2 + 1 := ⟨f1 - 1, by omega⟩
    rw [optimize] at hopt
    simp only [bind, Except.bind] at hopt
    split at hopt
    · rename_i he; cases hopt
      unfold mkUnion at he
      rw [optimize] at he
      have hrd : rawD cfg (.union (mkUnionMembers cfg.lit (dictEs ms))) = true := by
        have := mkUnion_rawD (cfg := cfg) (dictEs ms) hne (fun t ht => by
          have := hm _ (mem_dictEs ht); simpa [rawD] using this)
        simpa [mkUnion] using this
      refine hU k' (by omega) _ hrd ?_ f2 (by omega) he
      apply mkUnion_hgt
      intro t ht
      have := hkm _ (mem_dictEs ht)
      simp only [hgt] at this; omega
    · simp [pure, Except.pure] at hopt

theorem FA'_step {cfg : GenCfg} {e : EqEnv} (k : Nat) (hA' : ∀ j, j < k → FA' cfg e j)
    (hUk : FU cfg e k) : FA' cfg e k := by
  intro t hr hk F hF h
  obtain ⟨f, rfl⟩ : ∃ f, F = f + 1 := ⟨F - 1, by omega⟩
  cases t with
  | int | float | bool | str | null | unknown | ser _ => simp [optimize, pure, Except.pure] at h
  | opt _ | tuple _ | ptr _ => simp [rawD] at hr
  | lit ov vs =>
    rw [optimize] at h
    split at h <;> simp [pure, Except.pure] at h
  | list x =>
    simp only [hgt] at hk
    rw [optimize] at h
    simp only [bind, Except.bind] at h
    split at h
    · rename_i he; cases h
      exact hA' (k - 1) (by omega) x (by simpa [rawD] using hr) (by omega) f (by omega) he
    · simp [pure, Except.pure] at h
  | dict x =>
    simp only [hgt] at hk
    rw [optimize] at h
    simp only [bind, Except.bind] at h
    split at h
    · rename_i he; cases h
      exact hA' (k - 1) (by omega) x (by simpa [rawD] using hr) (by omega) f (by omega) he
    · simp [pure, Except.pure] at h
  | union ms =>
    simp only [hgt] at hk
    rw [optimize] at h
    exact hUk ms hr hk f (by omega) h
  | obj fs =>
    simp only [hgt] at hk
    simp only [rawD] at hr
    have hfs := (rawDFields_iff cfg fs).mp hr
    refine obj_no_oof ?_ h
    intro kv hkv
    have := (hgtFields_le fs (k - 1)).mp (by omega) kv hkv
    exact hA' (k - 1) (by omega) kv.2 (hfs kv hkv) this f (by omega)

theorem FA_step {cfg : GenCfg} {e : EqEnv} (k : Nat) (hA : ∀ j, j < k → FA cfg e j)
    (hA'k : FA' cfg e k) : FA cfg e k := by
  intro t hr hk F hF h
  obtain ⟨f, rfl⟩ : ∃ f, F = f + 1 := ⟨F - 1, by omega⟩
  cases t with
  | obj fs =>
    simp only [hgt] at hk
    simp only [Raw, List.all_eq_true] at hr
    refine obj_no_oof ?_ h
    intro kv hkv
    have := (hgtFields_le fs (k - 1)).mp (by omega) kv hkv
    exact hA (k - 1) (by omega) kv.2 (rawF_Raw (hr kv hkv)) this f (by omega)
  | opt x =>
    simp only [hgt] at hk
    have hx : rawD cfg x = true := by simpa [Raw, rawF] using hr
    rw [optimize] at h
    simp only [bind, Except.bind] at h
    split at h
    · rename_i he; cases h
      exact hA'k x hx hk f (by omega) he
    · split at h <;> simp [pure, Except.pure] at h
  | int | float | bool | str | null | unknown | ser _ | lit _ _ | list _ | dict _ | union _ | tuple _
    | ptr _ =>
    exact hA'k _ (by simpa [Raw, rawF] using hr) hk _ (by omega) h

theorem fuel_all (cfg : GenCfg) (e : EqEnv) : ∀ k, ∀ j, j ≤ k → FA cfg e j ∧ FA' cfg e j ∧ FU cfg e j := by
  intro k
  induction k with
  | zero =>
    intro j hj
    obtain rfl : j = 0 := by omega
    have hU := FU_step (cfg := cfg) (e := e) 0 (fun j hj => by omega) (fun j hj => by omega)
    have hA' := FA'_step 0 (fun j hj => by omega) hU
    exact ⟨FA_step 0 (fun j hj => by omega) hA', hA', hU⟩
  | succ k ih =>
    intro j hj
    by_cases hjk : j ≤ k
    · exact ih j hjk
    · obtain rfl : j = k + 1 := by omega
      have hU := FU_step (cfg := cfg) (e := e) (k + 1) (fun j hj => (ih j (by omega)).1)
        (fun j hj => (ih j (by omega)).2.2)
      have hA' := FA'_step (k + 1) (fun j hj => (ih j (by omega)).2.1) hU
      exact ⟨FA_step (k + 1) (fun j hj => (ih j (by omega)).1) hA', hA', hU⟩

/-- `Ty.fuelFor t` is always enough fuel on raw metadata -/
theorem optimize_fuel_ok (cfg : GenCfg) (e : EqEnv) (t : Ty) (hr : Raw cfg t = true) (fuel : Nat)
    (hf : 4 * t.size + 4 ≤ fuel) : optimize cfg e fuel t ≠ .error .outOfFuel := by
  have := (fuel_all cfg e (hgt t) (hgt t) (Nat.le_refl _)).1 t hr (Nat.le_refl _) fuel
    (by have := hgt_le_size t; omega)
  exact this

/-- first pass on raw metadata with an acyclic registry: a result, or the `RecursionError` of `==` -/
theorem optimize_total_ranked (cfg : GenCfg) (e : EqEnv) (hreg : RegRanked cfg.reg) (t : Ty)
    (hr : Raw cfg t = true) :
    (∃ t', optimize cfg e (Ty.fuelFor t) t = .ok t') ∨ optimize cfg e (Ty.fuelFor t) t = .error .recursion := by
  cases h : optimize cfg e (Ty.fuelFor t) t with
  | ok t' => exact Or.inl ⟨t', rfl⟩
  | error err =>
    right
    rcases optimize_errors_ranked cfg e hreg _ t err hr h with rfl | rfl
    · exact absurd h (optimize_fuel_ok cfg e t hr _ (by unfold Ty.fuelFor; omega))
    · rfl

end J2M.C08P
