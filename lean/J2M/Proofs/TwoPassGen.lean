/-
  C08 at the registry stage, part E: what `generate` + `process_meta_data` hand to `merge_models`.
  * `outO` — `out` with inline field dicts (generator stage).
  * `optimize_raw_outO`: `optimize_type` on raw metadata (`C08P.Raw`: what `_detect_type` / `merge_field_sets`
    build) yields an `outO` type — no hypothesis on samples, oracles, fuel.
  * `processTy_out`: `process_meta_data` turns an `outO` type into an `out` type and registers models whose fields
    are `out`.
  * `buildGraph_allOut`: every field of every model registered by `buildGraph` is `out`.
-/
import J2M.Proofs.TwoPassPipeline
import J2M.Proofs.RegistryPipeline
namespace J2M.TwoPass
open J2M J2M.C08P J2M.Reg

/-! ## 1. `out` with inline dicts -/

mutual
def outO (cfg : GenCfg) : Ty → Bool
  | .ser k => cfg.reg.types.contains k
  | .lit ov vs => !ov && litRawOk cfg.lit false vs
  | .list t | .dict t => outO cfg t
  | .opt t => !t.isOpt && outO cfg t
  | .union ts => outU ts && outOList cfg ts
  | .obj fs => outOFields cfg fs
  | .tuple _ => false
  | _ => true
def outOList (cfg : GenCfg) : List Ty → Bool
  | [] => true
  | t :: ts => outO cfg t && outOList cfg ts
def outOFields (cfg : GenCfg) : List (String × Ty) → Bool
  | [] => true
  | (_, t) :: fs => outO cfg t && outOFields cfg fs
end

theorem outOList_iff (cfg : GenCfg) (ts : List Ty) : outOList cfg ts = true ↔ ∀ t ∈ ts, outO cfg t = true := by
  induction ts <;> simp_all [outOList]

theorem outOFields_iff (cfg : GenCfg) (fs : List (String × Ty)) :
    outOFields cfg fs = true ↔ ∀ kv ∈ fs, outO cfg kv.2 = true := by
  induction fs with
  | nil => simp [outOFields]
  | cons kv fs ih => obtain ⟨k, t⟩ := kv; simp_all [outOFields]

theorem outLike_outO (cfg : GenCfg) : OutLike cfg (outO cfg) where
  str := rfl
  unknown := rfl
  lit := fun vs hne hg => by
    have := out_lit_of (cfg := cfg) hne hg
    simpa [out, outO] using this
  union := fun us h1 h2 => by simp only [outO, Bool.and_eq_true]; exact ⟨h1, (outOList_iff cfg us).mpr h2⟩
  opt := fun c h1 h2 => by simp only [outO, Bool.and_eq_true, Bool.not_eq_true']; exact ⟨h1, h2⟩

/-! ## 2. `optimize_type` on raw metadata -/

/-- a member of the "other" category of a raw union, as an `outO` leaf -/
theorem leaf_outO {cfg : GenCfg} {t : Ty} (hr : rawD cfg t = true) (hu : t.isUnion = false)
    (hb : t.isBadLit = false) (hc : isOtherCls t = true) :
    outO cfg t = true ∧ (t.kindN = 0 ∨ t.kindN = 1 ∨ t.kindN = 2 ∨ t.kindN = 4 ∨ t.kindN = 5 ∨ t.kindN = 7) := by
  cases t with
  | int | float | bool | null | unknown => exact ⟨rfl, by simp [Ty.kindN]⟩
  | lit o vs =>
    simp only [Ty.isBadLit, Bool.or_eq_false_iff] at hb
    obtain ⟨rfl, _⟩ := hb
    simp only [rawD] at hr
    exact ⟨by simpa [outO] using hr, by simp [Ty.kindN]⟩
  | str | ser _ | list _ | dict _ | obj _ => simp [isOtherCls, Ty.cls] at hc
  | opt _ | tuple _ | ptr _ => simp [rawD] at hr
  | union _ => simp [Ty.isUnion] at hu

/-- a re-assembled category: at most one element, of constructor `k` (or `k'`), each `outO` -/
structure SegO (cfg : GenCfg) (k k' : Nat) (seg : List Ty) : Prop where
  len : seg.length ≤ 1
  kind : ∀ t ∈ seg, t.kindN = k ∨ t.kindN = k'
  mem : ∀ t ∈ seg, outO cfg t = true

theorem segO_mapM {cfg : GenCfg} {e : EqEnv} {f : Nat} {k k' : Nat} {X T : List Ty}
    (hk : k = 13 ∨ k = 8 ∨ k = 9 ∨ k = 3 ∨ k = 6) (hk' : k' = 13 ∨ k' = 8 ∨ k' = 9 ∨ k' = 3 ∨ k' = 6)
    (hlen : X.length ≤ 1)
    (hX : ∀ x ∈ X, (x.kindN = k ∨ x.kindN = k') ∧ ∀ b, optimize cfg e f x = .ok b → outO cfg b = true)
    (h : X.mapM (optimize cfg e f) = .ok T) : SegO cfg k k' T := by
  refine ⟨by rw [mapM_length _ _ _ h]; exact hlen, ?_, ?_⟩
  · intro y hy
    obtain ⟨x, hx, hxy⟩ := mapM_mem_inv _ _ _ h y hy
    have hkx := (hX x hx).1
    rw [optimize_kind hxy (by omega)]; exact hkx
  · intro y hy
    obtain ⟨x, hx, hxy⟩ := mapM_mem_inv _ _ _ h y hy
    exact (hX x hx).2 y hxy

theorem tysA_assemble {cfg : GenCfg} {O Tj Tl Td Ts : List Ty}
    (hO : ∀ t ∈ O, outO cfg t = true ∧
      (t.kindN = 0 ∨ t.kindN = 1 ∨ t.kindN = 2 ∨ t.kindN = 4 ∨ t.kindN = 5 ∨ t.kindN = 7))
    (hj : SegO cfg 13 13 Tj) (hl : SegO cfg 8 8 Tl) (hd : SegO cfg 9 9 Td) (hs : SegO cfg 3 6 Ts) :
    TysA (outO cfg) (O ++ Tj ++ Tl ++ Td ++ Ts) := by
  have kinds : ∀ t ∈ O ++ Tj ++ Tl ++ Td ++ Ts, outO cfg t = true ∧
      (((t.kindN = 0 ∨ t.kindN = 1 ∨ t.kindN = 2 ∨ t.kindN = 4 ∨ t.kindN = 5 ∨ t.kindN = 7) ∨ t.kindN = 13 ∨
        t.kindN = 3 ∨ t.kindN = 6) ∨ (t ∈ Tl ∧ t.kindN = 8) ∨ (t ∈ Td ∧ t.kindN = 9)) := by
    intro t ht
    simp only [List.mem_append] at ht
    rcases ht with (((h | h) | h) | h) | h
    · exact ⟨(hO t h).1, Or.inl (Or.inl (hO t h).2)⟩
    · exact ⟨hj.mem t h, by have := hj.kind t h; omega⟩
    · exact ⟨hl.mem t h, Or.inr (Or.inl ⟨h, by have := hl.kind t h; omega⟩)⟩
    · exact ⟨hd.mem t h, Or.inr (Or.inr ⟨h, by have := hd.kind t h; omega⟩)⟩
    · exact ⟨hs.mem t h, by have := hs.kind t h; omega⟩
  have fnil : ∀ (seg : List Ty) (q : Ty → Bool) (kq : Nat), (∀ t, q t = (t.kindN == kq)) →
      (∀ t ∈ seg, t.kindN ≠ kq) → seg.filter q = [] := by
    intro seg q kq hq hne
    apply filter_nil_of_kind; intro t ht; rw [hq]; simpa using hne t ht
  refine ⟨fun t ht => (kinds t ht).1, ?_, ?_, ?_, ?_⟩
  · intro t ht; rw [isUnion_kind]; rcases (kinds t ht).2 with h | ⟨_, h⟩ | ⟨_, h⟩ <;> simp <;> omega
  · intro t ht; rw [isOpt_kind]; rcases (kinds t ht).2 with h | ⟨_, h⟩ | ⟨_, h⟩ <;> simp <;> omega
  · simp only [List.filter_append]
    rw [fnil O _ 8 isList_kind (fun t ht => by have := (hO t ht).2; omega),
      fnil Tj _ 8 isList_kind (fun t ht => by have := hj.kind t ht; omega),
      fnil Td _ 8 isList_kind (fun t ht => by have := hd.kind t ht; omega),
      fnil Ts _ 8 isList_kind (fun t ht => by have := hs.kind t ht; omega)]
    simpa using Nat.le_trans (List.length_filter_le _ _) hl.len
  · simp only [List.filter_append]
    rw [fnil O _ 9 isDict_kind (fun t ht => by have := (hO t ht).2; omega),
      fnil Tj _ 9 isDict_kind (fun t ht => by have := hj.kind t ht; omega),
      fnil Tl _ 9 isDict_kind (fun t ht => by have := hl.kind t ht; omega),
      fnil Ts _ 9 isDict_kind (fun t ht => by have := hs.kind t ht; omega)]
    simpa using Nat.le_trans (List.length_filter_le _ _) hd.len

theorem optimizeUnion_outO_step {cfg : GenCfg} {e : EqEnv} {f : Nat}
    (ih : ∀ t t', Raw cfg t = true → optimize cfg e f t = .ok t' → outO cfg t' = true)
    {ms : List Ty} {t' : Ty} (hr : rawD cfg (.union ms) = true)
    (h : optimizeUnion cfg e (f + 1) ms = .ok t') : outO cfg t' = true := by
  obtain ⟨sh, hm⟩ := rawD_union hr
  rw [optimizeUnion_body _ _ _ _ (raw_hidden sh hm), split_optFree cfg.reg ms {} (fun t ht => ⟨rawD_not_opt (hm t ht), fun k hk => by
    have := hm t ht; rw [hk] at this; simpa [rawD] using this⟩)] at h
  unfold unionBody at h
  simp only [List.nil_append, bind, Except.bind] at h
  split at h
  · cases h
  · rename_i o1 hmerge
    split at h
    · cases h
    · rename_i o4 hstr
      split at h
      · cases h
      · rename_i types hmap
        rw [stageList_eq, stageDict_eq] at hstr
        obtain ⟨Jx, ho1, hJx⟩ : ∃ Jx, o1 = stageInt (ms.filter isOtherCls) ++ Jx ∧
            (Jx = [] ∨ ∃ m, Jx = [.obj m] ∧ AllRawF cfg m) := by
          rcases stageMerge_inv hmerge with ⟨_, h1⟩ | ⟨m, hm', h1⟩
          · exact ⟨[], by simpa using h1, Or.inl rfl⟩
          · refine ⟨[.obj m], h1, Or.inr ⟨m, rfl, ?_⟩⟩
            apply mergeFieldSets_rawF _ hm'
            intro fs hfs kv hkv
            have := hm _ (mem_objFs hfs)
            simp only [rawD] at this
            exact (rawDFields_iff cfg fs).mp this kv hkv
        have hSreg : ∀ k, Ty.ser k ∈ ms.filter isStrCls → cfg.reg.types.contains k = true := by
          intro k hk
          have := hm _ (List.mem_filter.mp hk).1
          simpa [rawD] using this
        obtain ⟨Sx, ho4, hSx⟩ : ∃ Sx, o4 = o1 ++ (if (listEs ms).isEmpty then [] else [.list (mkUnion cfg.lit (listEs ms))])
            ++ (if (dictEs ms).isEmpty then [] else [.dict (mkUnion cfg.lit (dictEs ms))]) ++ Sx ∧
            (Sx = [] ∨ Sx = [.str] ∨ ∃ k, Sx = [.ser k] ∧ cfg.reg.types.contains k = true) := by
          rcases stageStr_inv_reg hSreg hstr with h1 | h1 | ⟨k, h1, hk⟩
          · exact ⟨[], by simpa using h1, Or.inl rfl⟩
          · exact ⟨[.str], h1, Or.inr (Or.inl rfl)⟩
          · exact ⟨[.ser k], h1, Or.inr (Or.inr ⟨k, rfl, hk⟩)⟩
        subst ho1
        generalize hLx : (if (listEs ms).isEmpty then [] else [Ty.list (mkUnion cfg.lit (listEs ms))]) = Lx at ho4
        generalize hDx : (if (dictEs ms).isEmpty then [] else [Ty.dict (mkUnion cfg.lit (dictEs ms))]) = Dx at ho4
        subst ho4
        obtain ⟨T4, Ts, hT4, hTs, rfl⟩ := mapM_append_inv _ _ _ _ hmap
        obtain ⟨T3, Td, hT3, hTd, rfl⟩ := mapM_append_inv _ _ _ _ hT4
        obtain ⟨T2, Tl, hT2, hTl, rfl⟩ := mapM_append_inv _ _ _ _ hT3
        obtain ⟨To, Tj, hTo, hTj, rfl⟩ := mapM_append_inv _ _ _ _ hT2
        obtain ⟨_, hOopt⟩ := oPre_of_raw sh hm
        cases f with
        | zero =>
          exfalso
          have hnil : ∀ (X T : List Ty), X.mapM (optimize cfg e 0) = .ok T → T = [] := by
            intro X T hX
            cases T with
            | nil => rfl
            | cons y T =>
              obtain ⟨x, _, hx⟩ := mapM_mem_inv _ _ _ hX y (by simp)
              simp [optimize] at hx
          rw [hnil _ _ hTo, hnil _ _ hTj, hnil _ _ hTl, hnil _ _ hTd, hnil _ _ hTs] at h
          simp [finishOpt] at h
        | succ f' =>
          have hTo' : To = stageInt (ms.filter isOtherCls) := by
            have := mapM_ok_id (optimize cfg e (f' + 1)) _ (fun t ht => hOopt t ht e f')
            rw [this] at hTo; cases hTo; rfl
          subst hTo'
          have hsub : (stageInt (ms.filter isOtherCls)).Sublist ms := (stageInt_sublist _).trans List.filter_sublist
          have hO : ∀ t ∈ stageInt (ms.filter isOtherCls), outO cfg t = true ∧
              (t.kindN = 0 ∨ t.kindN = 1 ∨ t.kindN = 2 ∨ t.kindN = 4 ∨ t.kindN = 5 ∨ t.kindN = 7) :=
            fun t ht => leaf_outO (hm t (hsub.subset ht)) (sh.flat t (hsub.subset ht)) (sh.good t (hsub.subset ht))
              (List.mem_filter.mp ((stageInt_sublist _).subset ht)).2
          have segJ : SegO cfg 13 13 Tj := by
            apply segO_mapM (by omega) (by omega) _ _ hTj
            · rcases hJx with rfl | ⟨m, rfl, _⟩ <;> simp
            · intro x hx
              rcases hJx with rfl | ⟨m, rfl, hmr⟩
              · cases hx
              · simp at hx; subst hx
                exact ⟨by simp [Ty.kindN], fun b hb => ih _ b hmr.Raw hb⟩
          have segL : SegO cfg 8 8 Tl := by
            apply segO_mapM (by omega) (by omega) _ _ hTl
            · rw [← hLx]; split <;> simp
            · intro x hx
              rw [← hLx] at hx
              split at hx
              · cases hx
              · rename_i hne
                simp at hx; subst hx
                refine ⟨by simp [Ty.kindN], fun b hb => ih _ b (rawD_Raw ?_) hb⟩
                simp only [rawD]
                apply mkUnion_rawD
                · simpa using hne
                · intro t ht
                  have := hm _ (mem_listEs ht)
                  simpa [rawD] using this
          have segD : SegO cfg 9 9 Td := by
            apply segO_mapM (by omega) (by omega) _ _ hTd
            · rw [← hDx]; split <;> simp
            · intro x hx
              rw [← hDx] at hx
              split at hx
              · cases hx
              · rename_i hne
                simp at hx; subst hx
                refine ⟨by simp [Ty.kindN], fun b hb => ih _ b (rawD_Raw ?_) hb⟩
                simp only [rawD]
                apply mkUnion_rawD
                · simpa using hne
                · intro t ht
                  have := hm _ (mem_dictEs ht)
                  simpa [rawD] using this
          have segS : SegO cfg 3 6 Ts := by
            apply segO_mapM (by omega) (by omega) _ _ hTs
            · rcases hSx with rfl | rfl | ⟨k, rfl, _⟩ <;> simp
            · intro x hx
              rcases hSx with rfl | rfl | ⟨k, rfl, hk⟩
              · cases hx
              · simp at hx; subst hx
                refine ⟨by simp [Ty.kindN], fun b hb => ?_⟩
                simp [optimize, pure, Except.pure] at hb; subst hb; rfl
              · simp at hx; subst hx
                refine ⟨by simp [Ty.kindN], fun b hb => ?_⟩
                simp [optimize, pure, Except.pure] at hb; subst hb; simpa [outO] using hk
          exact finish_out (outLike_outO cfg) (tysA_assemble hO segJ segL segD segS) h

/-- one level of `optimize_type` on a field-level raw type, given the claim for less fuel -/
theorem optimize_outO_rawF {cfg : GenCfg} {e : EqEnv} {f : Nat}
    (ih : ∀ t t', Raw cfg t = true → optimize cfg e f t = .ok t' → outO cfg t' = true)
    (ihU : ∀ ms t', rawD cfg (.union ms) = true → optimizeUnion cfg e f ms = .ok t' → outO cfg t' = true)
    {t t' : Ty} (hr : rawF cfg t = true) (h : optimize cfg e (f + 1) t = .ok t') : outO cfg t' = true := by
  cases t with
  | int | float | bool | str | null | unknown =>
    simp [optimize, pure, Except.pure] at h; subst h; rfl
  | ser k =>
    simp [optimize, pure, Except.pure] at h; subst h
    simpa [rawF, rawD, outO] using hr
  | ptr _ | tuple _ => simp [rawF, rawD] at hr
  | lit ov vs =>
    rw [optimize] at h
    split at h
    · simp only [pure, Except.pure, Except.ok.injEq] at h; subst h; rfl
    · rename_i hc
      simp only [pure, Except.pure, Except.ok.injEq] at h; subst h
      simp only [Bool.or_eq_true, not_or, Bool.not_eq_true] at hc
      obtain ⟨rfl, _⟩ := hc
      simpa [rawF, rawD, outO] using hr
  | list x =>
    rw [optimize] at h
    simp only [bind, Except.bind] at h
    split at h
    · cases h
    · rename_i y hy
      simp only [pure, Except.pure, Except.ok.injEq] at h; subst h
      simp only [outO]
      exact ih x y (rawD_Raw (by simpa [rawF, rawD] using hr)) hy
  | dict x =>
    rw [optimize] at h
    simp only [bind, Except.bind] at h
    split at h
    · cases h
    · rename_i y hy
      simp only [pure, Except.pure, Except.ok.injEq] at h; subst h
      simp only [outO]
      exact ih x y (rawD_Raw (by simpa [rawF, rawD] using hr)) hy
  | opt x =>
    rw [optimize] at h
    simp only [bind, Except.bind] at h
    split at h
    · cases h
    · rename_i y hy
      have hy' := ih x y (rawD_Raw (by simpa [rawF] using hr)) hy
      split at h
      · simp only [pure, Except.pure, Except.ok.injEq] at h; subst h; exact hy'
      · rename_i hno
        simp only [pure, Except.pure, Except.ok.injEq] at h; subst h
        simp only [outO, Bool.and_eq_true, Bool.not_eq_true']
        refine ⟨?_, hy'⟩
        cases y <;> first | rfl | exact absurd rfl (hno _)
  | union ms =>
    rw [optimize] at h
    exact ihU ms t' (by simpa [rawF] using hr) h
  | obj fs =>
    have hfs : ∀ kv ∈ fs, rawD cfg kv.2 = true := by
      have : rawD cfg (.obj fs) = true := by simpa [rawF] using hr
      simp only [rawD] at this
      exact (rawDFields_iff cfg fs).mp this
    rw [optimize] at h
    simp only [bind, Except.bind] at h
    split at h
    · cases h
    · rename_i fs' hfs'
      simp only [pure, Except.pure, Except.ok.injEq] at h; subst h
      simp only [outO]
      rw [outOFields_iff]
      intro kv' hkv'
      obtain ⟨kv, hkv, hopt⟩ := mapM_mem_inv _ _ _ hfs' kv' hkv'
      split at hopt
      · cases hopt
      · rename_i v hv
        simp only [pure, Except.pure, Except.ok.injEq] at hopt; subst hopt
        exact ih kv.2 v (rawD_Raw (hfs kv hkv)) hv

theorem optimize_outO_all (cfg : GenCfg) (e : EqEnv) : ∀ fuel,
    (∀ t t', Raw cfg t = true → optimize cfg e fuel t = .ok t' → outO cfg t' = true) ∧
    (∀ ms t', rawD cfg (.union ms) = true → optimizeUnion cfg e fuel ms = .ok t' → outO cfg t' = true) := by
  intro fuel
  induction fuel with
  | zero =>
    constructor
    · intro t t' _ h; simp [optimize] at h
    · intro ms t' _ h; simp [optimizeUnion] at h
  | succ f ih =>
    refine ⟨?_, fun ms t' hr h => optimizeUnion_outO_step ih.1 hr h⟩
    intro t t' hr h
    cases t with
    | obj fs =>
      simp only [Raw, List.all_eq_true] at hr
      rw [optimize] at h
      simp only [bind, Except.bind] at h
      split at h
      · cases h
      · rename_i fs' hfs'
        simp only [pure, Except.pure, Except.ok.injEq] at h; subst h
        simp only [outO]
        rw [outOFields_iff]
        intro kv' hkv'
        obtain ⟨kv, hkv, hopt⟩ := mapM_mem_inv _ _ _ hfs' kv' hkv'
        split at hopt
        · cases hopt
        · rename_i v hv
          simp only [pure, Except.pure, Except.ok.injEq] at hopt; subst hopt
          exact ih.1 kv.2 v (rawF_Raw (hr kv hkv)) hv
    | _ => exact optimize_outO_rawF ih.1 ih.2 (by simpa [Raw] using hr) h

/-- **`optimize_type` on raw metadata gives an `outO` type** -/
theorem optimize_raw_outO (cfg : GenCfg) (e : EqEnv) (fuel : Nat) (t t' : Ty) (hr : Raw cfg t = true)
    (h : optimize cfg e fuel t = .ok t') : outO cfg t' = true :=
  (optimize_outO_all cfg e fuel).1 t t' hr h

/-- and so is every result of `MetadataGenerator.generate` -/
theorem generate_outO {cfg : GenCfg} {o : GenOracles} {samples : List Json} {t : Ty}
    (h : generate cfg o samples = .ok t) : outO cfg t = true := by
  unfold generate at h
  simp only [bind, Except.bind] at h
  split at h
  · cases h
  · rename_i sets hsets
    split at h
    · cases h
    · rename_i fields hfields
      have hraw : AllRawF cfg fields := by
        apply mergeFieldSets_rawF _ hfields
        intro m hm
        obtain ⟨v, _, hv⟩ := mapM_mem_inv _ _ _ hsets m hm
        cases v <;> simp [convert] at hv
        exact convertFields_rawD cfg o _ m hv
      exact optimize_raw_outO cfg _ _ _ t hraw.Raw h


/-! ## 3. `process_meta_data` -/

/-- the constructor tests `outU` looks at -/
def sv (t : Ty) : Bool × Bool × Bool × Bool × Bool × Bool × Bool × Bool :=
  (t.isUnion, t.isOpt, t.isNull, t.isInt, t.isUnknown, t.isList, t.isDict, t.isLit)

theorem filter_length_congr {ts us : List Ty} (p : Ty → Bool) (q : Bool × Bool × Bool × Bool × Bool × Bool × Bool × Bool → Bool)
    (hp : ∀ t, p t = q (sv t)) (h : ts.map sv = us.map sv) : (ts.filter p).length = (us.filter p).length := by
  induction ts generalizing us with
  | nil => cases us <;> simp_all
  | cons t ts ih =>
    cases us with
    | nil => simp at h
    | cons u us =>
      simp only [List.map_cons, List.cons.injEq] at h
      simp only [List.filter_cons, hp, h.1]
      split <;> simp [ih h.2]

theorem outU_congr {ts us : List Ty} (h : ts.map sv = us.map sv) : outU ts = outU us := by
  unfold outU
  have hlen : ts.length = us.length := by simpa using congrArg List.length h
  rw [filter_length_congr Ty.isInt (fun v => v.2.2.2.1) (fun _ => rfl) h,
    filter_length_congr Ty.isUnknown (fun v => v.2.2.2.2.1) (fun _ => rfl) h,
    filter_length_congr Ty.isList (fun v => v.2.2.2.2.2.1) (fun _ => rfl) h,
    filter_length_congr Ty.isDict (fun v => v.2.2.2.2.2.2.1) (fun _ => rfl) h,
    filter_length_congr Ty.isLit (fun v => v.2.2.2.2.2.2.2) (fun _ => rfl) h]
  have hall : ts.all (fun t => !t.isUnion && !t.isOpt && !t.isNull) = us.all (fun t => !t.isUnion && !t.isOpt && !t.isNull) := by
    have e : ∀ l : List Ty, l.all (fun t => !t.isUnion && !t.isOpt && !t.isNull) =
        (l.map sv).all (fun v => !v.1 && !v.2.1 && !v.2.2.1) := by
      intro l; rw [List.all_map]; rfl
    rw [e ts, e us, h]
  have hemp : ts.isEmpty = us.isEmpty := by
    cases ts <;> cases us <;> simp_all
  rw [hall, hemp]

theorem sv_processTy (g : Graph) (pm : Option (String × String)) (t : Ty) (hno : t.isObj = false) :
    sv (processTy g pm t).2 = sv t := by
  cases t <;> simp_all [processTy, sv, Ty.isObj, Ty.isUnion, Ty.isOpt, Ty.isNull, Ty.isInt, Ty.isUnknown,
    Ty.isList, Ty.isDict, Ty.isLit]

theorem sv_processTy' (g : Graph) (pm : Option (String × String)) (t : Ty) :
    sv (processTy g pm t).2 = sv t := by
  by_cases h : t.isObj = true
  · cases t <;> simp [Ty.isObj] at h
    rw [processTy_obj]; rfl
  · exact sv_processTy g pm t (by simpa using h)

theorem sv_processList (pm : Option (String × String)) : ∀ (ts : List Ty) (g : Graph),
    (processList g pm ts).2.map sv = ts.map sv
  | [], g => by simp [processList]
  | t :: ts, g => by
    rw [processList_cons]
    simp only [List.map_cons, sv_processTy', sv_processList pm ts]

/-- every field of every registered model is `out`, stated on the model list -/
def ModelsOut (cfg : GenCfg) (ms : List Model) : Prop := ∀ m ∈ ms, ∀ kv ∈ m.fields, out cfg kv.2 = true

mutual
theorem processTy_out {cfg : GenCfg} : ∀ (t : Ty) (g : Graph) (pm : Option (String × String)),
    outO cfg t = true →
    out cfg (processTy g pm t).2 = true ∧
    (∀ m ∈ (processTy g pm t).1.models, m ∈ g.models ∨ ∀ kv ∈ m.fields, out cfg kv.2 = true)
  | .obj fs, g, pm, h => by
    simp only [outO] at h
    obtain ⟨ha, hm⟩ := processFields_out fs (regNew g pm fs) (indexOf g.counter) ((outOFields_iff cfg fs).mp h)
    rw [processTy_obj]
    refine ⟨rfl, ?_⟩
    intro m hm'
    rw [setFields_models] at hm'
    rcases mem_setF hm' with ⟨hm', hne⟩ | ⟨m0, _, _, rfl⟩
    · rcases hm m hm' with h' | h'
      · simp only [Reg.regNew, List.mem_append, List.mem_singleton] at h'
        rcases h' with h' | rfl
        · exact Or.inl h'
        · exact absurd rfl hne
      · exact Or.inr h'
    · exact Or.inr ha
  | .list t, g, pm, h => by
    obtain ⟨a, b⟩ := processTy_out t g pm (by simpa [outO] using h)
    rw [processTy_list]
    exact ⟨by simpa [out] using a, b⟩
  | .dict t, g, pm, h => by
    obtain ⟨a, b⟩ := processTy_out t g pm (by simpa [outO] using h)
    rw [processTy_dict]
    exact ⟨by simpa [out] using a, b⟩
  | .opt t, g, pm, h => by
    simp only [outO, Bool.and_eq_true, Bool.not_eq_true'] at h
    obtain ⟨a, b⟩ := processTy_out t g pm h.2
    rw [processTy_opt]
    refine ⟨?_, b⟩
    simp only [out, Bool.and_eq_true, Bool.not_eq_true']
    refine ⟨?_, a⟩
    have := sv_processTy' g pm t
    simp only [sv, Prod.mk.injEq] at this
    rw [this.2.1]; exact h.1
  | .union ts, g, pm, h => by
    simp only [outO, Bool.and_eq_true] at h
    obtain ⟨a, b⟩ := processList_out ts g pm ((outOList_iff cfg ts).mp h.2)
    rw [processTy_union]
    refine ⟨?_, b⟩
    simp only [out, Bool.and_eq_true]
    exact ⟨by rw [outU_congr (sv_processList pm ts g)]; exact h.1, (outList_iff cfg _).mpr a⟩
  | .tuple _, _, _, h => by simp [outO] at h
  | .int, g, pm, _ | .float, g, pm, _ | .bool, g, pm, _ | .str, g, pm, _ | .null, g, pm, _
  | .unknown, g, pm, _ | .ptr _, g, pm, _ =>
    ⟨by simp [processTy, out], fun m hm => Or.inl (by simpa [processTy] using hm)⟩
  | .ser k, g, pm, h => ⟨by simpa [processTy, out, outO] using h, fun m hm => Or.inl (by simpa [processTy] using hm)⟩
  | .lit o vs, g, pm, h => ⟨by simpa [processTy, out, outO] using h, fun m hm => Or.inl (by simpa [processTy] using hm)⟩
theorem processList_out {cfg : GenCfg} : ∀ (ts : List Ty) (g : Graph) (pm : Option (String × String)),
    (∀ t ∈ ts, outO cfg t = true) →
    (∀ u ∈ (processList g pm ts).2, out cfg u = true) ∧
    (∀ m ∈ (processList g pm ts).1.models, m ∈ g.models ∨ ∀ kv ∈ m.fields, out cfg kv.2 = true)
  | [], g, pm, _ => ⟨by simp [processList], fun m hm => Or.inl (by simpa [processList] using hm)⟩
  | t :: ts, g, pm, h => by
    obtain ⟨a1, b1⟩ := processTy_out t g pm (h t (by simp))
    obtain ⟨a2, b2⟩ := processList_out ts (processTy g pm t).1 pm (fun u hu => h u (List.mem_cons_of_mem _ hu))
    rw [processList_cons]
    refine ⟨?_, ?_⟩
    · intro u hu
      rcases List.mem_cons.1 hu with rfl | hu
      · exact a1
      · exact a2 u hu
    · intro m hm
      rcases b2 m hm with h' | h'
      · exact b1 m h'
      · exact Or.inr h'
theorem processFields_out {cfg : GenCfg} : ∀ (fs : List (String × Ty)) (g : Graph) (idx : String),
    (∀ f ∈ fs, outO cfg f.2 = true) →
    (∀ f ∈ (processFields g idx fs).2, out cfg f.2 = true) ∧
    (∀ m ∈ (processFields g idx fs).1.models, m ∈ g.models ∨ ∀ kv ∈ m.fields, out cfg kv.2 = true)
  | [], g, idx, _ => ⟨by simp [processFields], fun m hm => Or.inl (by simpa [processFields] using hm)⟩
  | (k, t) :: fs, g, idx, h => by
    obtain ⟨a1, b1⟩ := processTy_out t g (some (idx, k)) (h (k, t) (by simp))
    obtain ⟨a2, b2⟩ := processFields_out fs (processTy g (some (idx, k)) t).1 idx
      (fun u hu => h u (List.mem_cons_of_mem _ hu))
    rw [processFields_cons]
    refine ⟨?_, ?_⟩
    · intro u hu
      rcases List.mem_cons.1 hu with rfl | hu
      · exact a1
      · exact a2 u hu
    · intro m hm
      rcases b2 m hm with h' | h'
      · exact b1 m h'
      · exact Or.inr h'
end

/-- `process_meta_data` keeps "every field of every registered model is `out`" -/
theorem processMetaData_allOut {cfg : GenCfg} {g : Graph} {fields : Fields} {name : Option String}
    (hg : AllOut cfg g) (hf : outO cfg (.obj fields) = true) : AllOut cfg (processMetaData g fields name).1 := by
  have key : AllOut cfg (processTy g none (.obj fields)).1 := by
    intro m hm
    rcases (processTy_out (.obj fields) g none hf).2 m hm with h | h
    · exact hg m h
    · exact h
  rw [processMetaData_fst]
  cases name with
  | none => exact key
  | some n =>
    intro m hm
    obtain ⟨m0, hm0, rfl⟩ := List.mem_map.1 hm
    split <;> exact key m0 hm0

theorem buildGraph_fold_allOut {cfg : GenCfg} {o : GenOracles} :
    ∀ (inputs : List (String × List Json)) (g0 g : Graph), AllOut cfg g0 →
      inputs.foldlM (bgStep cfg o) g0 = .ok g → AllOut cfg g
  | [], g0, g, hg, h => by
    simp only [List.foldlM_nil, pure, Except.pure, Except.ok.injEq] at h
    subst h; exact hg
  | inp :: inputs, g0, g, hg, h => by
    rw [List.foldlM_cons] at h
    simp only [bind, Except.bind] at h
    split at h
    · simp at h
    · rename_i g1 hg1
      obtain ⟨fs, hgen, rfl⟩ := bgStep_ok hg1
      exact buildGraph_fold_allOut inputs _ g (processMetaData_allOut hg (generate_outO hgen)) h

/-- **every field of every model registered by `buildGraph` is `out`** — all inputs, options, oracles -/
theorem buildGraph_allOut {cfg : GenCfg} {o : GenOracles} {inputs : List (String × List Json)} {g : Graph}
    (h : buildGraph cfg o inputs = .ok g) : AllOut cfg g := by
  rw [buildGraph_eq] at h
  exact buildGraph_fold_allOut inputs {} g (by intro m hm; simp at hm) h

end J2M.TwoPass
