/-
  `_prepare_class_names` (`prepareNames`): the pre-order walk, the conversion of every class name, and the
  `while True` loop that appends the model index to names that are shared (`dedupRound` / `dedupLoop`).
-/
import J2M.Proofs.Render2Level
namespace J2M.PrepNames
open J2M.Rend2

/-! ## 1. vocabulary -/

theorem nameOf_eq (N : NameMap) (i : String) : nameOf N i = lookup N i := rfl

/-- the current names of the models in `is` are pairwise distinct -/
def DistinctOn (N : NameMap) (is : List String) : Prop :=
  ∀ i ∈ is, ∀ j ∈ is, i ≠ j → nameOf N i ≠ nameOf N j

/-- number of models of `idxs` that carry the current name of `i` -/
def cnt (names : NameMap) (idxs : List String) (i : String) : Nat :=
  ((idxs.map (nameOf names)).filter (· == nameOf names i)).length

/-- the models whose current name is shared -/
def dupsOf (names : NameMap) (idxs : List String) : List String :=
  idxs.filter (fun i => cnt names idxs i > 1)

/-- `model.set_raw_name(model.name_joiner(model.name, model.index))` -/
def renameStep (acc : NameMap) (i : String) : NameMap :=
  acc.set i (some ((nameOf acc i).getD "None" ++ "_" ++ i))

theorem dedupRound_eq (names : NameMap) (idxs : List String) :
    dedupRound names idxs = ((dupsOf names idxs).foldl renameStep names, (dupsOf names idxs).isEmpty) := rfl

theorem dedupLoop_succ (idxs : List String) (fuel : Nat) (names : NameMap) :
    dedupLoop idxs (fuel + 1) names =
      if (dedupRound names idxs).2 then .ok names else dedupLoop idxs fuel (dedupRound names idxs).1 := rfl

/-! ## 2. lists -/

theorem nodup_map_iff {α β : Type} (f : α → β) (l : List α) :
    (l.map f).Nodup ↔ l.Nodup ∧ ∀ x ∈ l, ∀ y ∈ l, x ≠ y → f x ≠ f y := by
  induction l with
  | nil => simp
  | cons a l ih =>
    simp only [List.map_cons, List.nodup_cons, ih, List.mem_map, not_exists, not_and, List.mem_cons]
    constructor
    · rintro ⟨h1, h2, h3⟩
      refine ⟨⟨fun ha => h1 a ha rfl, h2⟩, ?_⟩
      intro x hx y hy hxy
      rcases hx with rfl | hx <;> rcases hy with rfl | hy
      · exact absurd rfl hxy
      · exact fun e => h1 y hy e.symm
      · exact fun e => h1 x hx e
      · exact h3 x hx y hy hxy
    · rintro ⟨⟨h1, h2⟩, h3⟩
      refine ⟨fun x hx e => ?_, h2, fun x hx y hy => h3 x (Or.inr hx) y (Or.inr hy)⟩
      exact h3 x (Or.inr hx) a (Or.inl rfl) (fun e' => h1 (e' ▸ hx)) e

theorem DistinctOn.subset {N : NameMap} {is is' : List String} (h : DistinctOn N is) (hs : ∀ i ∈ is', i ∈ is) :
    DistinctOn N is' := fun i hi j hj => h i (hs i hi) j (hs j hj)

theorem nodup_map_distinct {N : NameMap} {is : List String} :
    (is.map (nameOf N)).Nodup ↔ is.Nodup ∧ DistinctOn N is := nodup_map_iff _ _

/-- a list is duplicate-free iff none of its elements is counted more than once -/
theorem nodup_iff_filter_le {α : Type} [BEq α] [LawfulBEq α] (l : List α) :
    l.Nodup ↔ ∀ a ∈ l, (l.filter (· == a)).length ≤ 1 := by
  rw [List.nodup_iff_count]
  constructor
  · intro h a _
    have := h a
    rwa [List.count_eq_countP, List.countP_eq_length_filter] at this
  · intro h a
    by_cases ha : a ∈ l
    · have := h a ha
      rwa [List.count_eq_countP, List.countP_eq_length_filter]
    · rw [List.count_eq_zero_of_not_mem ha]; omega

/-! ## 3. one round -/

theorem dupsOf_eq_nil_iff (names : NameMap) (idxs : List String) :
    dupsOf names idxs = [] ↔ (idxs.map (nameOf names)).Nodup := by
  unfold dupsOf
  rw [List.filter_eq_nil_iff, nodup_iff_filter_le]
  constructor
  · intro h a ha
    obtain ⟨i, hi, rfl⟩ := List.mem_map.mp ha
    have := h i hi
    simp only [cnt, gt_iff_lt, decide_eq_true_eq, Nat.not_lt] at this
    exact this
  · intro h i hi
    have := h (nameOf names i) (List.mem_map_of_mem hi)
    simp only [cnt, gt_iff_lt, decide_eq_true_eq, Nat.not_lt]
    exact this

/-- the flag of a round: no name is shared -/
theorem dedupRound_flag (names : NameMap) (idxs : List String) :
    (dedupRound names idxs).2 = true ↔ (idxs.map (nameOf names)).Nodup := by
  rw [dedupRound_eq]
  simp only [List.isEmpty_iff]
  exact dupsOf_eq_nil_iff names idxs

/-- **dedupRound_noop** -/
theorem dedupRound_noop {names : NameMap} {idxs : List String} (h : (idxs.map (nameOf names)).Nodup) :
    dedupRound names idxs = (names, true) := by
  rw [dedupRound_eq, (dupsOf_eq_nil_iff names idxs).mpr h]
  rfl

theorem dedupLoop_noop {names : NameMap} {idxs : List String} (h : (idxs.map (nameOf names)).Nodup) (fuel : Nat) :
    dedupLoop idxs (fuel + 1) names = .ok names := by
  rw [dedupLoop_succ, dedupRound_noop h]
  rfl

theorem renameStep_keys (acc : NameMap) (i : String) : (renameStep acc i).map (·.1) = acc.map (·.1) :=
  set_keys _ _ _

theorem foldl_renameStep_keys (ds : List String) (names : NameMap) :
    (ds.foldl renameStep names).map (·.1) = names.map (·.1) := by
  induction ds generalizing names with
  | nil => rfl
  | cons d ds ih => rw [List.foldl_cons, ih, renameStep_keys]

theorem foldl_renameStep_outside (ds : List String) (names : NameMap) {j : String} (hj : j ∉ ds) :
    lookup (ds.foldl renameStep names) j = lookup names j := by
  induction ds generalizing names with
  | nil => rfl
  | cons d ds ih =>
    simp only [List.mem_cons, not_or] at hj
    rw [List.foldl_cons, ih _ hj.2]
    exact lookup_set_ne _ _ hj.1

theorem dedupRound_keys (names : NameMap) (idxs : List String) :
    (dedupRound names idxs).1.map (·.1) = names.map (·.1) := by
  rw [dedupRound_eq]; exact foldl_renameStep_keys _ _

theorem dedupRound_outside (names : NameMap) (idxs : List String) {j : String} (hj : j ∉ idxs) :
    lookup (dedupRound names idxs).1 j = lookup names j := by
  rw [dedupRound_eq]
  apply foldl_renameStep_outside
  intro h
  exact hj (List.mem_filter.mp h).1

/-- closed form of the renaming of one round -/
def renamed (names : NameMap) (ds : List String) : NameMap :=
  names.map (fun p => if p.1 ∈ ds then (p.1, some ((nameOf names p.1).getD "None" ++ "_" ++ p.1)) else p)

theorem foldl_renameStep (ds : List String) (hnd : ds.Nodup) (names : NameMap) :
    ds.foldl renameStep names = renamed names ds := by
  induction ds generalizing names with
  | nil => simp [renamed]
  | cons d ds ih =>
    simp only [List.nodup_cons] at hnd
    rw [List.foldl_cons, ih hnd.2]
    unfold renamed renameStep NameMap.set
    rw [List.map_map]
    apply List.map_congr_left
    intro p _
    simp only [Function.comp_apply]
    by_cases hp : p.1 = d
    · subst hp
      simp [hnd.1]
    · have hb : (p.1 == d) = false := by simpa using hp
      simp only [hb, Bool.false_eq_true, if_false, List.mem_cons, hp, false_or]
      by_cases hm : p.1 ∈ ds
      · simp only [hm, if_true]
        have : nameOf (NameMap.set names d (some ((nameOf names d).getD "None" ++ "_" ++ d))) p.1 = nameOf names p.1 :=
          lookup_set_ne _ _ hp
        unfold NameMap.set at this
        rw [this]
      · simp only [hm, if_false]

theorem cnt_perm {names : NameMap} {idxs idxs' : List String} (hp : idxs'.Perm idxs) (i : String) :
    cnt names idxs' i = cnt names idxs i :=
  ((hp.map _).filter _).length_eq

theorem mem_dupsOf_perm {names : NameMap} {idxs idxs' : List String} (hp : idxs'.Perm idxs) (i : String) :
    i ∈ dupsOf names idxs' ↔ i ∈ dupsOf names idxs := by
  unfold dupsOf
  simp only [List.mem_filter, cnt_perm hp, hp.mem_iff]

theorem dupsOf_nodup {names : NameMap} {idxs : List String} (h : idxs.Nodup) : (dupsOf names idxs).Nodup :=
  h.sublist List.filter_sublist

/-- **dedupRound_perm**: one round gives the same map and the same flag for two enumerations of the same models -/
theorem dedupRound_perm {names : NameMap} {idxs idxs' : List String} (hnd : idxs.Nodup) (hp : idxs'.Perm idxs) :
    dedupRound names idxs' = dedupRound names idxs := by
  have hnd' : idxs'.Nodup := hp.nodup_iff.mpr hnd
  rw [dedupRound_eq, dedupRound_eq, foldl_renameStep _ (dupsOf_nodup hnd'), foldl_renameStep _ (dupsOf_nodup hnd)]
  have e1 : renamed names (dupsOf names idxs') = renamed names (dupsOf names idxs) := by
    unfold renamed
    apply List.map_congr_left
    intro p _
    simp only [mem_dupsOf_perm hp]
  have e2 : (dupsOf names idxs').isEmpty = (dupsOf names idxs).isEmpty := by
    rw [Bool.eq_iff_iff, List.isEmpty_iff, List.isEmpty_iff, dupsOf_eq_nil_iff, dupsOf_eq_nil_iff]
    exact (hp.map _).nodup_iff
  rw [e1, e2]

/-! ## 4. the loop -/

theorem dedupLoop_perm {idxs idxs' : List String} (hnd : idxs.Nodup) (hp : idxs'.Perm idxs) :
    ∀ (fuel : Nat) (names : NameMap), dedupLoop idxs' fuel names = dedupLoop idxs fuel names := by
  intro fuel
  induction fuel with
  | zero => intro names; rfl
  | succ fuel ih =>
    intro names
    rw [dedupLoop_succ, dedupLoop_succ, dedupRound_perm hnd hp, ih]

/-- the loop only exits through the `not duplicates` branch: the final names are pairwise distinct (and the
    enumeration lists no model twice) -/
theorem dedupLoop_nodup {idxs : List String} :
    ∀ (fuel : Nat) (names N : NameMap), dedupLoop idxs fuel names = .ok N → (idxs.map (nameOf N)).Nodup := by
  intro fuel
  induction fuel with
  | zero => intro names N h; cases h
  | succ fuel ih =>
    intro names N h
    rw [dedupLoop_succ] at h
    by_cases hf : (dedupRound names idxs).2 = true
    · rw [if_pos hf] at h
      cases h
      exact (dedupRound_flag _ _).mp hf
    · rw [if_neg hf] at h
      exact ih _ _ h

theorem dedupLoop_keys {idxs : List String} :
    ∀ (fuel : Nat) (names N : NameMap), dedupLoop idxs fuel names = .ok N → N.map (·.1) = names.map (·.1) := by
  intro fuel
  induction fuel with
  | zero => intro names N h; cases h
  | succ fuel ih =>
    intro names N h
    rw [dedupLoop_succ] at h
    by_cases hf : (dedupRound names idxs).2 = true
    · rw [if_pos hf] at h; cases h; rfl
    · rw [if_neg hf] at h
      rw [ih _ _ h, dedupRound_keys]

theorem dedupLoop_outside {idxs : List String} {j : String} (hj : j ∉ idxs) :
    ∀ (fuel : Nat) (names N : NameMap), dedupLoop idxs fuel names = .ok N → lookup N j = lookup names j := by
  intro fuel
  induction fuel with
  | zero => intro names N h; cases h
  | succ fuel ih =>
    intro names N h
    rw [dedupLoop_succ] at h
    by_cases hf : (dedupRound names idxs).2 = true
    · rw [if_pos hf] at h; cases h; rfl
    · rw [if_neg hf] at h
      rw [ih _ _ h, dedupRound_outside _ _ hj]

/-! ## 5. the pre-order walk -/

theorem preorder_nil (fuel : Nat) : preorder (fuel + 1) [] = .ok [] := by
  simp [preorder, pure, Except.pure]

theorem preorder_cons_ok {fuel : Nat} {idx : String} {nested rest : List Node} {r : List String} :
    preorder (fuel + 1) (.mk idx nested :: rest) = .ok r ↔
      ∃ a b, preorder fuel nested = .ok a ∧ preorder fuel rest = .ok b ∧ r = idx :: a ++ b := by
  simp only [preorder, bind_eq_ok]
  constructor
  · rintro ⟨a, ha, b, hb, h⟩
    simp only [pure, Except.pure] at h
    exact ⟨a, b, ha, hb, (Except.ok.inj h).symm⟩
  · rintro ⟨a, b, ha, hb, rfl⟩
    exact ⟨a, ha, b, hb, rfl⟩

/-- the pre-order walk lists the models that `_generate_code` visits -/
theorem preorder_perm : ∀ (fuel : Nat) (nodes : List Node) (r : List String),
    preorder fuel nodes = .ok r → r.Perm (postL nodes) := by
  intro fuel
  induction fuel with
  | zero => intro nodes r h; simp [preorder] at h
  | succ fuel ih =>
    intro nodes r h
    cases nodes with
    | nil =>
      rw [preorder_nil] at h
      cases h; simp
    | cons n rest =>
      obtain ⟨idx, nested⟩ := n
      rw [preorder_cons_ok] at h
      obtain ⟨a, b, ha, hb, rfl⟩ := h
      rw [postL_cons]
      have p1 := ih _ _ ha
      have p2 := ih _ _ hb
      have : (idx :: a ++ b).Perm (a ++ [idx] ++ b) := by
        apply List.Perm.append_right
        simpa using (List.perm_append_comm (l₁ := [idx]) (l₂ := a))
      exact this.trans ((p1.append_right _).append p2)

/-! ## 6. converting all names -/

theorem convAll_nil (c : RenderCfg) (o : RenderOracles) (N : NameMap) : convAll c o N [] = .ok N := rfl

theorem convAll_cons_ok {c : RenderCfg} {o : RenderOracles} {N N' : NameMap} {i : String} {is : List String} :
    convAll c o N (i :: is) = .ok N' ↔ ∃ N2, convertNameAt c o N i = .ok N2 ∧ convAll c o N2 is = .ok N' := by
  simp only [convAll, List.foldlM_cons]
  rw [bind_eq_ok]

theorem convAll_keys (c : RenderCfg) (o : RenderOracles) :
    ∀ (is : List String) (N N' : NameMap), convAll c o N is = .ok N' → N'.map (·.1) = N.map (·.1) := by
  intro is
  induction is with
  | nil => intro N N' h; cases h; rfl
  | cons i is ih =>
    intro N N' h
    obtain ⟨N2, h2, h3⟩ := convAll_cons_ok.mp h
    obtain ⟨n, n', _, _, rfl⟩ := convertNameAt_ok h2
    rw [ih _ _ h3, set_keys]

theorem convAll_outside (c : RenderCfg) (o : RenderOracles) {j : String} :
    ∀ (is : List String) (N N' : NameMap), convAll c o N is = .ok N' → j ∉ is → lookup N' j = lookup N j := by
  intro is
  induction is with
  | nil => intro N N' h _; cases h; rfl
  | cons i is ih =>
    intro N N' h hj
    simp only [List.mem_cons, not_or] at hj
    obtain ⟨N2, h2, h3⟩ := convAll_cons_ok.mp h
    obtain ⟨n, n', _, _, rfl⟩ := convertNameAt_ok h2
    rw [ih _ _ h3 hj.2, lookup_set_ne _ _ hj.1]

/-- from a fixed point of the conversions nothing changes -/
theorem convAll_fixed {c : RenderCfg} {o : RenderOracles} {F : NameMap} :
    ∀ (is : List String), FixedOn c o F is → convAll c o F is = .ok F := by
  intro is
  induction is with
  | nil => intro _; rfl
  | cons i is ih =>
    intro h
    rw [convAll_cons_ok]
    exact ⟨F, h i (by simp), ih (fun j hj => h j (by simp [hj]))⟩

/-- converting names that the conversion leaves alone changes no recorded name -/
theorem convAll_stable_lookup {c : RenderCfg} {o : RenderOracles} :
    ∀ (is : List String) (N N' : NameMap), StableOn c o N is → convAll c o N is = .ok N' →
      ∀ j, lookup N' j = lookup N j := by
  intro is
  induction is with
  | nil => intro N N' _ h j; cases h; rfl
  | cons i is ih =>
    intro N N' hs h j
    obtain ⟨N2, h2, h3⟩ := convAll_cons_ok.mp h
    obtain ⟨n, n', hl, hc, rfl⟩ := convertNameAt_ok h2
    have e : n' = n := Except.ok.inj ((hc.symm.trans (hs i (by simp) n hl)))
    subst e
    have h1 : ∀ j, lookup (NameMap.set N i (some n')) j = lookup N j := by
      intro j
      by_cases hj : j = i
      · subst hj; rw [lookup_set_self, any_of_lookup hl, hl]; rfl
      · exact lookup_set_ne _ _ hj
    have hs' : StableOn c o (NameMap.set N i (some n')) is := by
      intro k hk m hm
      rw [h1] at hm
      exact hs k (by simp [hk]) m hm
    rw [ih _ _ hs' h3, h1]

theorem convAll_stable {c : RenderCfg} {o : RenderOracles} {is : List String} {N N' : NameMap}
    (hk : (N.map (·.1)).Nodup) (hs : StableOn c o N is) (h : convAll c o N is = .ok N') : N' = N :=
  ext_of_lookup (convAll_keys c o _ _ _ h) (by rw [convAll_keys c o _ _ _ h]; exact hk)
    (convAll_stable_lookup _ _ _ hs h)

/-! ## 7. `prepareNames` -/

theorem prepareNames_eq (c : RenderCfg) (o : RenderOracles) (names : NameMap) (roots : List Node) :
    prepareNames c o names roots =
      (preorder (names.length + 2) roots >>= fun idxs =>
        convAll c o names idxs >>= fun N1 => dedupLoop idxs (idxs.length * idxs.length + 1) N1) := rfl

theorem prepareNames_ok {c : RenderCfg} {o : RenderOracles} {names N : NameMap} {roots : List Node} :
    prepareNames c o names roots = .ok N ↔
      ∃ idxs N1, preorder (names.length + 2) roots = .ok idxs ∧ convAll c o names idxs = .ok N1 ∧
        dedupLoop idxs (idxs.length * idxs.length + 1) N1 = .ok N := by
  rw [prepareNames_eq]
  simp only [bind_eq_ok]
  constructor
  · rintro ⟨a, h1, b, h2, h3⟩; exact ⟨a, b, h1, h2, h3⟩
  · rintro ⟨a, b, h1, h2, h3⟩; exact ⟨a, h1, b, h2, h3⟩

/-- **prepareNames_same_keys**: only names change -/
theorem prepareNames_same_keys {c : RenderCfg} {o : RenderOracles} {names N : NameMap} {roots : List Node}
    (h : prepareNames c o names roots = .ok N) : N.map (·.1) = names.map (·.1) := by
  obtain ⟨idxs, N1, _, h2, h3⟩ := prepareNames_ok.mp h
  rw [dedupLoop_keys _ _ _ h3, convAll_keys c o _ _ _ h2]

/-- models outside the structure keep their names -/
theorem prepareNames_outside {c : RenderCfg} {o : RenderOracles} {names N : NameMap} {roots : List Node}
    (h : prepareNames c o names roots = .ok N) {j : String} (hj : j ∉ postL roots) : lookup N j = lookup names j := by
  obtain ⟨idxs, N1, h1, h2, h3⟩ := prepareNames_ok.mp h
  have hj' : j ∉ idxs := fun hm => hj ((preorder_perm _ _ _ h1).mem_iff.mp hm)
  rw [dedupLoop_outside hj' _ _ _ h3, convAll_outside c o _ _ _ h2 hj']

/-- the names after the preparation are pairwise distinct over the pre-order enumeration (which lists no model twice) -/
theorem prepareNames_nodup {c : RenderCfg} {o : RenderOracles} {names N : NameMap} {roots : List Node}
    {idxs : List String} (h : prepareNames c o names roots = .ok N)
    (hidx : preorder (names.length + 2) roots = .ok idxs) : (idxs.map (nameOf N)).Nodup := by
  obtain ⟨idxs', N1, h1, _, h3⟩ := prepareNames_ok.mp h
  cases hidx.symm.trans h1
  exact dedupLoop_nodup _ _ _ h3

/-- … and over the generator creation order -/
theorem prepareNames_nodup_post {c : RenderCfg} {o : RenderOracles} {names N : NameMap} {roots : List Node}
    (h : prepareNames c o names roots = .ok N) : ((postL roots).map (nameOf N)).Nodup := by
  obtain ⟨idxs, N1, h1, _, h3⟩ := prepareNames_ok.mp h
  exact (((preorder_perm _ _ _ h1).map _).nodup_iff).mp (dedupLoop_nodup _ _ _ h3)

/-- **prepareNames_of_distinct** -/
theorem prepareNames_of_distinct {c : RenderCfg} {o : RenderOracles} {names names' : NameMap} {roots : List Node}
    {idxs : List String} (hidx : preorder (names.length + 2) roots = .ok idxs)
    (hc : convAll c o names idxs = .ok names') (hd : (idxs.map (nameOf names')).Nodup) :
    prepareNames c o names roots = .ok names' :=
  prepareNames_ok.mpr ⟨idxs, names', hidx, hc, dedupLoop_noop hd _⟩

/-- a name map that the conversions of the structure leave unchanged and whose names are pairwise distinct is left
    unchanged by the preparation -/
theorem prepareNames_fixed {c : RenderCfg} {o : RenderOracles} {F : NameMap} {roots : List Node} {idxs : List String}
    (hidx : preorder (F.length + 2) roots = .ok idxs) (hfix : FixedOn c o F (postL roots))
    (hd : ((postL roots).map (nameOf F)).Nodup) : prepareNames c o F roots = .ok F := by
  have hp := preorder_perm _ _ _ hidx
  apply prepareNames_of_distinct hidx
  · exact convAll_fixed _ (fun i hi => hfix i (hp.mem_iff.mp hi))
  · exact ((hp.map _).nodup_iff).mpr hd

theorem prepareNames_congr {c₁ c₂ : RenderCfg} {o : RenderOracles} (h : convertClassName c₁ o = convertClassName c₂ o)
    (names : NameMap) (roots : List Node) : prepareNames c₁ o names roots = prepareNames c₂ o names roots := by
  rw [prepareNames_eq, prepareNames_eq]
  simp only [convAll_congr h]

/-- **prepareNames_perm**: the prepared names do not depend on the order in which the structure enumerates the
    models -/
theorem prepareNames_perm {c₁ c₂ : RenderCfg} {o : RenderOracles} {names N₁ N₂ : NameMap} {roots₁ roots₂ : List Node}
    (hconv : convertClassName c₁ o = convertClassName c₂ o) (hk : (names.map (·.1)).Nodup)
    (hp : (postL roots₁).Perm (postL roots₂))
    (h₁ : prepareNames c₁ o names roots₁ = .ok N₁) (h₂ : prepareNames c₂ o names roots₂ = .ok N₂) : N₁ = N₂ := by
  obtain ⟨is₁, M₁, a₁, b₁, d₁⟩ := prepareNames_ok.mp h₁
  obtain ⟨is₂, M₂, a₂, b₂, d₂⟩ := prepareNames_ok.mp h₂
  have p : is₁.Perm is₂ := ((preorder_perm _ _ _ a₁).trans hp).trans (preorder_perm _ _ _ a₂).symm
  have nd₂ : is₂.Nodup := ((nodup_map_iff _ _).mp (dedupLoop_nodup _ _ _ d₂)).1
  have nd₁ : is₁.Nodup := p.nodup_iff.mpr nd₂
  rw [convAll_congr hconv] at b₁
  have e : M₁ = M₂ := convAll_perm hk p nd₁ b₁ b₂
  subst e
  rw [dedupLoop_perm nd₂ p, p.length_eq] at d₁
  exact Except.ok.inj (d₁.symm.trans d₂)

/-- a successful preparation lists no model twice -/
theorem prepareNames_post_nodup {c : RenderCfg} {o : RenderOracles} {names N : NameMap} {roots : List Node}
    (h : prepareNames c o names roots = .ok N) : (postL roots).Nodup :=
  ((nodup_map_iff _ _).mp (prepareNames_nodup_post h)).1

end J2M.PrepNames
