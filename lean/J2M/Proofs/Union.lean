/-
  Helper lemmas about `flattenUnion`, `handleType`, `mkUnionMembers` (the model of `DUnion.__init__`).
-/
import J2M.Proofs.AuxGen
import J2M.Sem
namespace J2M.C08P

/-! ### flattenUnion -/

theorem flattenUnion_flat (ts : List Ty) : ∀ t ∈ flattenUnion ts, t.isUnion = false := by
  fun_induction flattenUnion ts with
  | case1 => simp
  | case2 ts rest ih1 ih2 =>
    intro t ht; rw [List.mem_append] at ht; cases ht <;> simp_all
  | case3 rest t hne ih =>
    intro u hu; rw [List.mem_cons] at hu
    rcases hu with rfl | hu
    · cases u <;> simp_all [Ty.isUnion]
    · exact ih u hu

theorem flattenUnion_of_flat (ts : List Ty) (h : ∀ t ∈ ts, t.isUnion = false) :
    flattenUnion ts = ts := by
  induction ts with
  | nil => simp [flattenUnion]
  | cons t ts ih =>
    have h1 : t.isUnion = false := h t (by simp)
    have h2 := ih (fun u hu => h u (by simp [hu]))
    cases t <;> simp_all [flattenUnion, Ty.isUnion]

theorem flattenUnion_append (as bs : List Ty) :
    flattenUnion (as ++ bs) = flattenUnion as ++ flattenUnion bs := by
  fun_induction flattenUnion as with
  | case1 => simp
  | case2 ts rest ih1 ih2 => simp [flattenUnion, ih2]
  | case3 rest t hne ih =>
    cases t <;> simp_all [flattenUnion]

theorem flattenUnion_singleton_union (us : List Ty) : flattenUnion [.union us] = flattenUnion us := by
  simp [flattenUnion]

/-! ### nodupStr -/

theorem nodupStr_iff (xs : List String) : nodupStr xs = true ↔ xs.Nodup := by
  induction xs <;> simp_all [nodupStr]

/-! ### first character of a hash string: `'S'` exactly for string literals -/

def hd (s : String) : Option Char := s.toList.head?

theorem hd_append_lit (a b : String) (h : a.toList ≠ []) : hd (a ++ b) = hd a := by
  unfold hd
  rw [String.toList_append]
  cases h' : a.toList with
  | nil => exact absurd h' h
  | cons x xs => simp

theorem hashStr_hd_lit (o : Bool) (vs : List String) : hd (hashStr (.lit o vs)) = some 'S' := by
  simp [hashStr, hd, String.toList_append]

theorem hashStr_hd_nonlit (t : Ty) (h : t.isLit = false) : hd (hashStr t) ≠ some 'S' := by
  cases t <;> simp_all [hashStr, hd, String.toList_append, Ty.isLit]

theorem hashStr_lit_ne (o : Bool) (vs : List String) (t : Ty) (h : t.isLit = false) :
    hashStr (.lit o vs) ≠ hashStr t := by
  intro e
  have := hashStr_hd_lit o vs
  rw [e] at this
  exact hashStr_hd_nonlit t h this

/-! ### handleType -/

theorem handleType_nonlit (st : UState) (t : Ty) (h : t.isLit = false) :
    handleType st t =
      { (if st.hashes.contains (hashStr t) then st
         else { st with unique := t :: st.unique, hashes := hashStr t :: st.hashes }) with
        useLit := (if t.isStr then false else st.useLit) && st.useLit } := by
  cases t <;> simp_all [handleType, Ty.isLit]

theorem handleType_lit_unique (st : UState) (o : Bool) (vs : List String) :
    (handleType st (.lit o vs)).unique = st.unique ∧ (handleType st (.lit o vs)).hashes = st.hashes := by
  cases hu : st.useLit <;> cases o <;> simp [handleType, Ty.isStr, hu]

/-- one step either leaves `unique`/`hashes` alone or pushes a non-literal with a fresh hash -/
theorem handleType_step (st : UState) (t : Ty) :
    ((handleType st t).unique = st.unique ∧ (handleType st t).hashes = st.hashes ∧
        (t.isLit = false → hashStr t ∈ st.hashes)) ∨
    (t.isLit = false ∧ hashStr t ∉ st.hashes ∧ (handleType st t).unique = t :: st.unique ∧
      (handleType st t).hashes = hashStr t :: st.hashes) := by
  by_cases h : t.isLit = true
  · cases t <;> simp [Ty.isLit] at h
    left
    have := handleType_lit_unique st ‹_› ‹_›
    simp [this, Ty.isLit]
  · have h' : t.isLit = false := by simpa using h
    rw [handleType_nonlit st t h']
    by_cases hc : hashStr t ∈ st.hashes
    · left; simp [hc]
    · right; simp [hc, h']

theorem handleType_useLit_le (st : UState) (t : Ty) :
    (handleType st t).useLit = true → st.useLit = true := by
  by_cases h : t.isLit = true
  · cases t <;> simp [Ty.isLit] at h
    rename_i o vs
    cases hu : st.useLit <;> cases o <;> simp [handleType, Ty.isStr, hu]
  · have h' : t.isLit = false := by simpa using h
    rw [handleType_nonlit st t h']
    simp

theorem handleType_useLit_str (st : UState) (t : Ty) (h : t.isStr = true) :
    (handleType st t).useLit = false := by
  cases t <;> simp [Ty.isStr] at h
  simp [handleType, Ty.isStr]

/-- invariant of the `DUnion.__init__` loop -/
structure UInv (st : UState) : Prop where
  hashes_eq : st.hashes = st.unique.map hashStr
  nodup : st.hashes.Nodup
  noUnion : ∀ t ∈ st.unique, t.isUnion = false
  noLit : ∀ t ∈ st.unique, t.isLit = false
  noStr : st.useLit = true → ∀ t ∈ st.unique, t.isStr = false

theorem UInv.init : UInv ⟨[], [], true, []⟩ := by
  constructor <;> simp

theorem UInv.step {st : UState} (inv : UInv st) (t : Ty) (hu : t.isUnion = false) :
    UInv (handleType st t) := by
  rcases handleType_step st t with ⟨h1, h2, _⟩ | ⟨hl, hn, h1, h2⟩
  · constructor
    · rw [h1, h2]; exact inv.hashes_eq
    · rw [h2]; exact inv.nodup
    · rw [h1]; exact inv.noUnion
    · rw [h1]; exact inv.noLit
    · intro hul; rw [h1]; exact inv.noStr (handleType_useLit_le st t hul)
  · constructor
    · rw [h1, h2, inv.hashes_eq]; simp
    · rw [h2]; exact List.nodup_cons.mpr ⟨hn, inv.nodup⟩
    · rw [h1]; intro u hu'; rcases List.mem_cons.mp hu' with rfl | hu'
      · exact hu
      · exact inv.noUnion u hu'
    · rw [h1]; intro u hu'; rcases List.mem_cons.mp hu' with rfl | hu'
      · exact hl
      · exact inv.noLit u hu'
    · intro hul; rw [h1]; intro u hu'; rcases List.mem_cons.mp hu' with rfl | hu'
      · cases hs : u.isStr with
        | false => rfl
        | true => rw [handleType_useLit_str st u hs] at hul; cases hul
      · exact inv.noStr (handleType_useLit_le st t hul) u hu'

theorem UInv.fold {st : UState} (inv : UInv st) (ts : List Ty) (hu : ∀ t ∈ ts, t.isUnion = false) :
    UInv (ts.foldl handleType st) := by
  induction ts generalizing st with
  | nil => exact inv
  | cons t ts ih =>
    rw [List.foldl_cons]
    exact ih (inv.step t (hu t (by simp))) (fun u h => hu u (by simp [h]))

/-- the kept members, in order, are a sublist of the non-literal inputs -/
theorem fold_unique_sublist (st : UState) (ts : List Ty) :
    ((ts.foldl handleType st).unique.reverse).Sublist
      (st.unique.reverse ++ ts.filter (fun t => !t.isLit)) := by
  induction ts generalizing st with
  | nil => simp
  | cons t ts ih =>
    rw [List.foldl_cons]
    refine (ih (handleType st t)).trans ?_
    rcases handleType_step st t with ⟨h1, _, _⟩ | ⟨hl, _, h1, _⟩
    · rw [h1]
      apply List.Sublist.append_left
      rw [List.filter_cons]; split
      · exact List.sublist_cons_self _ _
      · exact List.Sublist.refl _
    · rw [h1]; simp [hl]

/-! ### mkUnionMembers -/

theorem nodup_reverse {α} {l : List α} (h : l.Nodup) : l.reverse.Nodup := by
  simp only [List.Nodup] at *
  exact List.pairwise_reverse.mpr (h.imp (fun h => Ne.symm h))

def foldSt (ts : List Ty) : UState := (flattenUnion ts).foldl handleType ⟨[], [], true, []⟩

theorem mkLit_cases (c : LitCfg) (vs : List String) :
    mkLit c vs = .lit true [] ∨ mkLit c vs = .lit false vs := by
  unfold mkLit; split <;> simp

/-- the part of `DUnion.__init__` after the loop -/
def finishU (c : LitCfg) (st : UState) : List Ty :=
  let (st, useLit) :=
    if !st.lits.isEmpty && st.useLit then
      match mkLit c st.lits with
      | .lit true _ => (st, false)
      | l => ({ st with unique := l :: st.unique }, true)
    else (st, st.useLit)
  let st := if !useLit then
      (if st.hashes.contains (hashStr .str) then st else { st with unique := .str :: st.unique })
    else st
  st.unique.reverse

theorem mkUnionMembers_eq (c : LitCfg) (ts : List Ty) : mkUnionMembers c ts = finishU c (foldSt ts) := rfl

theorem finishU_cases (c : LitCfg) (st : UState) :
    (st.lits ≠ [] ∧ st.useLit = true ∧ mkLit c st.lits = .lit false st.lits ∧
       finishU c st = st.unique.reverse ++ [.lit false st.lits]) ∨
    (finishU c st = st.unique.reverse ∧
       ((st.useLit = true ∧ st.lits = []) ∨
        (hashStr .str ∈ st.hashes ∧ (st.useLit = false ∨ mkLit c st.lits = .lit true [])))) ∨
    (finishU c st = st.unique.reverse ++ [.str] ∧ hashStr .str ∉ st.hashes ∧
       (st.useLit = false ∨ mkLit c st.lits = .lit true [])) := by
  unfold finishU
  by_cases h1 : st.lits = []
  · by_cases h2 : st.useLit = true
    · right; left; simp [h1, h2]
    · by_cases h3 : hashStr .str ∈ st.hashes
      · right; left; simp_all
      · right; right; simp_all
  · by_cases h2 : st.useLit = true
    · rcases mkLit_cases c st.lits with h | h
      · by_cases h3 : hashStr .str ∈ st.hashes
        · right; left; simp_all
        · right; right; simp_all
      · left; simp_all
    · by_cases h3 : hashStr .str ∈ st.hashes
      · right; left; simp_all
      · right; right; simp_all
theorem foldSt_inv (ts : List Ty) : UInv (foldSt ts) :=
  UInv.init.fold (flattenUnion ts) (flattenUnion_flat ts)

/-- what `DUnion(*ts).types` always satisfies -/
structure UnionOut (c : LitCfg) (ms : List Ty) : Prop where
  flat : ∀ t ∈ ms, t.isUnion = false
  nodup : (ms.map hashStr).Nodup
  oneLit : (ms.filter Ty.isLit).length ≤ 1
  strLit : ¬ (ms.any Ty.isStr = true ∧ ms.any Ty.isLit = true)
  litOk : ∀ o vs, Ty.lit o vs ∈ ms → o = false ∧ vs ≠ [] ∧ mkLit c vs = .lit false vs

theorem UInv.filter_isLit {st : UState} (inv : UInv st) : st.unique.reverse.filter Ty.isLit = [] := by
  rw [List.filter_eq_nil_iff]; intro t ht; simp [inv.noLit t (by simpa using ht)]

theorem UInv.any_isLit {st : UState} (inv : UInv st) : st.unique.reverse.any Ty.isLit = false := by
  rw [List.any_eq_false]; intro t ht; simp [inv.noLit t (by simpa using ht)]

theorem UInv.map_hash {st : UState} (inv : UInv st) : st.unique.reverse.map hashStr = st.hashes.reverse := by
  rw [inv.hashes_eq]; simp

theorem mkUnionMembers_out (c : LitCfg) (ts : List Ty) : UnionOut c (mkUnionMembers c ts) := by
  rw [mkUnionMembers_eq]
  have inv := foldSt_inv ts
  generalize foldSt ts = st at inv
  rcases finishU_cases c st with ⟨hne, hul, hmk, heq⟩ | ⟨heq, _⟩ | ⟨heq, hns, _⟩
  · rw [heq]
    constructor
    · intro t ht; rcases List.mem_append.mp ht with h | h
      · exact inv.noUnion t (by simpa using h)
      · simp at h; subst h; rfl
    · rw [List.map_append, inv.map_hash, List.nodup_append]
      refine ⟨nodup_reverse inv.nodup, by simp, ?_⟩
      intro a ha b hb; simp at hb; subst hb
      rw [List.mem_reverse, inv.hashes_eq, List.mem_map] at ha
      obtain ⟨u, hu, rfl⟩ := ha
      exact fun e => hashStr_lit_ne _ _ u (inv.noLit u hu) e.symm
    · rw [List.filter_append, inv.filter_isLit]; exact List.length_filter_le _ _
    · intro ⟨h1, _⟩
      rw [List.any_eq_true] at h1
      obtain ⟨u, hu, hs⟩ := h1
      rcases List.mem_append.mp hu with hu | hu
      · rw [inv.noStr hul u (by simpa using hu)] at hs; cases hs
      · simp at hu; subst hu; cases hs
    · intro o vs hm
      rcases List.mem_append.mp hm with h | h
      · have := inv.noLit _ (by simpa using h); simp [Ty.isLit] at this
      · simp at h; obtain ⟨rfl, rfl⟩ := h; exact ⟨rfl, hne, hmk⟩
  · rw [heq]
    constructor
    · intro t ht; exact inv.noUnion t (by simpa using ht)
    · rw [inv.map_hash]; exact nodup_reverse inv.nodup
    · rw [inv.filter_isLit]; simp
    · rw [inv.any_isLit]; simp
    · intro o vs hm
      have := inv.noLit _ (by simpa using hm); simp [Ty.isLit] at this
  · rw [heq]
    constructor
    · intro t ht; rcases List.mem_append.mp ht with h | h
      · exact inv.noUnion t (by simpa using h)
      · simp at h; subst h; rfl
    · rw [List.map_append, inv.map_hash, List.nodup_append]
      refine ⟨nodup_reverse inv.nodup, by simp, ?_⟩
      intro a ha b hb; simp at hb; subst hb
      intro e; subst e; exact hns (by simpa using ha)
    · rw [List.filter_append, inv.filter_isLit]; exact List.length_filter_le _ _
    · intro ⟨_, h2⟩; rw [List.any_append, inv.any_isLit] at h2; simp [Ty.isLit] at h2
    · intro o vs hm
      rcases List.mem_append.mp hm with h | h
      · have := inv.noLit _ (by simpa using h); simp [Ty.isLit] at this
      · simp at h
/-- members of `DUnion(*ts)`: non-literal members of the flattened input, `str`, or the folded literal -/
theorem mem_mkUM {c : LitCfg} {ts : List Ty} {m : Ty} (h : m ∈ mkUnionMembers c ts) :
    (m ∈ flattenUnion ts ∧ m.isLit = false) ∨ m = .str ∨
      ∃ vs, m = .lit false vs ∧ vs ≠ [] ∧ mkLit c vs = .lit false vs := by
  have hsub := fold_unique_sublist ⟨[], [], true, []⟩ (flattenUnion ts)
  have hU : ∀ t ∈ (foldSt ts).unique.reverse, t ∈ flattenUnion ts ∧ t.isLit = false := by
    intro t ht
    have := hsub.subset ht
    simp only [List.reverse_nil, List.nil_append, List.mem_filter, Bool.not_eq_true'] at this
    exact this
  rw [mkUnionMembers_eq] at h
  rcases finishU_cases c (foldSt ts) with ⟨hne, _, hmk, heq⟩ | ⟨heq, _⟩ | ⟨heq, _⟩
  · rw [heq, List.mem_append] at h
    rcases h with h | h
    · exact Or.inl (hU m h)
    · simp at h; exact Or.inr (Or.inr ⟨_, h, hne, hmk⟩)
  · rw [heq] at h; exact Or.inl (hU m h)
  · rw [heq, List.mem_append] at h
    rcases h with h | h
    · exact Or.inl (hU m h)
    · simp at h; exact Or.inr (Or.inl h)

/-! ### non-emptiness -/

theorem insertUniq_ne_nil (x : String) (acc : List String) : insertUniq x acc ≠ [] := by
  cases acc with
  | nil => simp [insertUniq]
  | cons y ys =>
    simp only [insertUniq]
    split
    · simp
    · split <;> simp

theorem fold_insertUniq_ne_nil (vs acc : List String) (h : acc ≠ [] ∨ vs ≠ []) :
    vs.foldl (fun acc x => insertUniq x acc) acc ≠ [] := by
  induction vs generalizing acc with
  | nil => simpa using h
  | cons x vs ih => exact ih _ (Or.inl (insertUniq_ne_nil x acc))

/-- "something will be emitted" -/
def _root_.J2M.UState.NE (st : UState) : Prop := st.unique ≠ [] ∨ st.lits ≠ [] ∨ st.useLit = false

theorem handleType_lits_nonlit (st : UState) (t : Ty) (h : t.isLit = false) :
    (handleType st t).lits = st.lits := by
  rw [handleType_nonlit st t h]; split <;> rfl

theorem handleType_NE_mono (st : UState) (t : Ty) (h : st.NE) : (handleType st t).NE := by
  rcases h with h | h | h
  · left
    rcases handleType_step st t with ⟨h1, _⟩ | ⟨_, _, h1, _⟩ <;> rw [h1]
    · exact h
    · simp
  · by_cases hl : t.isLit = true
    · cases t <;> simp [Ty.isLit] at hl
      rename_i o vs
      cases hu : st.useLit <;> cases o
      · right; right; simp [handleType, Ty.isStr, hu]
      · right; right; simp [handleType, Ty.isStr, hu]
      · right; left; simp only [handleType, Ty.isStr, hu]
        simp
        exact fold_insertUniq_ne_nil _ _ (Or.inl h)
      · right; right; simp [handleType, Ty.isStr, hu]
    · right; left; rw [handleType_lits_nonlit st t (by simpa using hl)]; exact h
  · right; right
    cases hu : (handleType st t).useLit with
    | false => rfl
    | true => rw [handleType_useLit_le st t hu] at h; cases h

theorem handleType_NE_first (st : UState) (inv : UInv st) (t : Ty)
    (hok : ∀ vs, t ≠ .lit false vs ∨ vs ≠ []) : (handleType st t).NE := by
  by_cases hl : t.isLit = true
  · cases t <;> simp [Ty.isLit] at hl
    rename_i o vs
    cases hu : st.useLit <;> cases o
    · right; right; simp [handleType, Ty.isStr, hu]
    · right; right; simp [handleType, Ty.isStr, hu]
    · right; left; simp only [handleType, Ty.isStr, hu]
      simp
      refine fold_insertUniq_ne_nil _ _ (Or.inr ?_)
      rcases hok vs with h | h
      · exact absurd rfl h
      · exact h
    · right; right; simp [handleType, Ty.isStr, hu]
  · left
    rcases handleType_step st t with ⟨h1, _, h3⟩ | ⟨_, _, h1, _⟩ <;> rw [h1]
    · have := h3 (by simpa using hl)
      rw [inv.hashes_eq] at this
      intro e; rw [e] at this; simp at this
    · simp

theorem fold_NE_mono (ts : List Ty) (st : UState) (h : st.NE) : (ts.foldl handleType st).NE := by
  induction ts generalizing st with
  | nil => exact h
  | cons t ts ih => exact ih _ (handleType_NE_mono st t h)

theorem finishU_ne_nil (c : LitCfg) (st : UState) (inv : UInv st) (h : st.NE) : finishU c st ≠ [] := by
  rcases finishU_cases c st with ⟨_, _, _, heq⟩ | ⟨heq, hc⟩ | ⟨heq, _⟩
  · rw [heq]; simp
  · rw [heq]
    have : st.unique ≠ [] := by
      rcases hc with ⟨h1, h2⟩ | ⟨h1, _⟩
      · rcases h with h | h | h
        · exact h
        · exact absurd h2 h
        · rw [h1] at h; cases h
      · rw [inv.hashes_eq] at h1
        intro e; rw [e] at h1; simp at h1
    simpa using this
  · rw [heq]; simp

/-- a union built from a non-empty flattened list with no empty literal first is non-empty -/
theorem mkUM_ne_nil (c : LitCfg) (ts : List Ty) (hne : flattenUnion ts ≠ [])
    (hok : ∀ t ∈ flattenUnion ts, ∀ vs, t ≠ .lit false vs ∨ vs ≠ []) : mkUnionMembers c ts ≠ [] := by
  rw [mkUnionMembers_eq]
  apply finishU_ne_nil c _ (foldSt_inv ts)
  unfold foldSt
  cases hf : flattenUnion ts with
  | nil => exact absurd hf hne
  | cons t rest =>
    rw [List.foldl_cons]
    apply fold_NE_mono
    exact handleType_NE_first _ UInv.init t (hok t (by rw [hf]; simp))

end J2M.C08P
