/-
  Registry-level development, part 6 (C01): `process_meta_data` keeps every inhabitant — an inline field dict
  becomes a pointer to a registered model whose field dict is the processed dict.
-/
import J2M.Proofs.RegistrySound
namespace J2M.Reg
open J2M

/-! ## "`t'` represents the pointer-free type `t` in the lookup `L`" -/

mutual
def Rep (L : ModelLookup) : Ty → Ty → Prop
  | .obj fs, t' => ∃ i fs', t' = .ptr i ∧ L i = some fs' ∧ RepFields L fs fs'
  | .list t, t' => ∃ u, t' = .list u ∧ Rep L t u
  | .dict t, t' => ∃ u, t' = .dict u ∧ Rep L t u
  | .opt t, t' => ∃ u, t' = .opt u ∧ Rep L t u
  | .union ts, t' => ∃ us, t' = .union us ∧ RepList L ts us
  | .tuple ts, t' => ∃ us, t' = .tuple us ∧ RepList L ts us
  | .ptr _, _ => False
  | t, t' => t' = t
def RepList (L : ModelLookup) : List Ty → List Ty → Prop
  | [], us => us = []
  | t :: ts, us => ∃ u us', us = u :: us' ∧ Rep L t u ∧ RepList L ts us'
def RepFields (L : ModelLookup) : List (String × Ty) → List (String × Ty) → Prop
  | [], fs' => fs' = []
  | (k, t) :: fs, fs' => ∃ u fs'', fs' = (k, u) :: fs'' ∧ Rep L t u ∧ RepFields L fs fs''
end

theorem Rep.isOpt {L : ModelLookup} {t t' : Ty} (h : Rep L t t') : t'.isOpt = t.isOpt := by
  cases t <;> simp only [Rep] at h
  all_goals first
    | (subst h; rfl)
    | (obtain ⟨u, rfl, _⟩ := h; rfl)
    | (obtain ⟨i, fs', rfl, _⟩ := h; rfl)
    | exact h.elim

theorem RepList.mem {L : ModelLookup} : ∀ {ts us : List Ty}, RepList L ts us → ∀ t ∈ ts, ∃ u ∈ us, Rep L t u
  | [], _, _, t, ht => by simp at ht
  | a :: ts, us, h, t, ht => by
    simp only [RepList] at h
    obtain ⟨u, us', rfl, h1, h2⟩ := h
    rcases List.mem_cons.1 ht with rfl | ht
    · exact ⟨u, by simp, h1⟩
    · obtain ⟨u', hu', hr⟩ := RepList.mem h2 t ht
      exact ⟨u', List.mem_cons_of_mem _ hu', hr⟩

theorem RepFields.get? {L : ModelLookup} : ∀ {fs fs' : Fields}, RepFields L fs fs' → ∀ k,
    (∀ u, Fields.get? fs' k = some u → ∃ t, Fields.get? fs k = some t ∧ Rep L t u) ∧
    ((Fields.get? fs k).isSome = true → (Fields.get? fs' k).isSome = true)
  | [], _, h, k => by simp only [RepFields] at h; subst h; simp
  | (k0, t0) :: fs, fs', h, k => by
    simp only [RepFields] at h
    obtain ⟨u, fs'', rfl, h1, h2⟩ := h
    rw [Fields.get?_consI, Fields.get?_consI]
    by_cases e : k0 = k
    · simp only [e, if_true, Option.some.injEq, Option.isSome_some, implies_true, and_true]
      rintro u' rfl; exact ⟨t0, rfl, h1⟩
    · simp only [e, if_false]
      exact RepFields.get? h2 k

theorem RepFields.mem {L : ModelLookup} : ∀ {fs fs' : Fields}, RepFields L fs fs' →
    ∀ ft ∈ fs', ∃ f ∈ fs, f.1 = ft.1 ∧ Rep L f.2 ft.2
  | [], _, h, ft, hft => by simp only [RepFields] at h; subst h; simp at hft
  | (k0, t0) :: fs, fs', h, ft, hft => by
    simp only [RepFields] at h
    obtain ⟨u, fs'', rfl, h1, h2⟩ := h
    rcases List.mem_cons.1 hft with rfl | hft
    · exact ⟨(k0, t0), by simp, rfl, h1⟩
    · obtain ⟨f, hf, e, hr⟩ := RepFields.mem h2 ft hft
      exact ⟨f, List.mem_cons_of_mem _ hf, e, hr⟩

/-- **a representation holds every inhabitant** (the source type is pointer-free, so its lookup is irrelevant) -/
theorem rep_sound {acc : Accepts} {L₀ L : ModelLookup} {t : Ty} {v : Json} (h : Inh acc L₀ t v) :
    ∀ t', Rep L t t' → Inh acc L t' v := by
  induction h with
  | int => intro t' hr; simp only [Rep] at hr; subst hr; exact Inh.int
  | floatF => intro t' hr; simp only [Rep] at hr; subst hr; exact Inh.floatF
  | floatI => intro t' hr; simp only [Rep] at hr; subst hr; exact Inh.floatI
  | bool => intro t' hr; simp only [Rep] at hr; subst hr; exact Inh.bool
  | str => intro t' hr; simp only [Rep] at hr; subst hr; exact Inh.str
  | null => intro t' hr; simp only [Rep] at hr; subst hr; exact Inh.null
  | ser h => intro t' hr; simp only [Rep] at hr; subst hr; exact Inh.ser h
  | lit h => intro t' hr; simp only [Rep] at hr; subst hr; exact Inh.lit h
  | list _ ih =>
    intro t' hr; simp only [Rep] at hr; obtain ⟨u, rfl, hr⟩ := hr
    exact Inh.list (fun x hx => ih x hx u hr)
  | dict _ ih =>
    intro t' hr; simp only [Rep] at hr; obtain ⟨u, rfl, hr⟩ := hr
    exact Inh.dict (fun x hx => ih x hx u hr)
  | optNull => intro t' hr; simp only [Rep] at hr; obtain ⟨u, rfl, hr⟩ := hr; exact Inh.optNull
  | optSome _ ih =>
    intro t' hr; simp only [Rep] at hr; obtain ⟨u, rfl, hr⟩ := hr
    exact Inh.optSome (ih u hr)
  | union hm _ ih =>
    intro t' hr; simp only [Rep] at hr; obtain ⟨us, rfl, hr⟩ := hr
    obtain ⟨u, hu, hru⟩ := hr.mem _ hm
    exact Inh.union hu (ih u hru)
  | @obj fs kvs a b c ih =>
    intro t' hr; simp only [Rep] at hr; obtain ⟨i, fs', rfl, hL, hr⟩ := hr
    refine Inh.ptr hL ?_ ?_ ?_
    · intro kv hkv; exact (hr.get? kv.1).2 (a kv hkv)
    · intro kv hkv u hu
      obtain ⟨t, ht, hrt⟩ := (hr.get? kv.1).1 u hu
      exact ih kv hkv t ht u hrt
    · intro ft hft hno
      obtain ⟨f, hf, e, hrf⟩ := hr.mem ft hft
      rw [hrf.isOpt] at hno
      obtain ⟨kv, hkv, e'⟩ := c f hf hno
      exact ⟨kv, hkv, by rw [e', e]⟩
  | ptr _ _ _ _ _ => intro t' hr; simp only [Rep] at hr


/-! ## `process_meta_data` builds a representation -/

theorem processTy_list (g : Graph) (pm : Option (String × String)) (t : Ty) :
    processTy g pm (.list t) = ((processTy g pm t).1, .list (processTy g pm t).2) := by simp [processTy]
theorem processTy_dict (g : Graph) (pm : Option (String × String)) (t : Ty) :
    processTy g pm (.dict t) = ((processTy g pm t).1, .dict (processTy g pm t).2) := by simp [processTy]
theorem processTy_opt (g : Graph) (pm : Option (String × String)) (t : Ty) :
    processTy g pm (.opt t) = ((processTy g pm t).1, .opt (processTy g pm t).2) := by simp [processTy]
theorem processTy_union (g : Graph) (pm : Option (String × String)) (ts : List Ty) :
    processTy g pm (.union ts) = ((processList g pm ts).1, .union (processList g pm ts).2) := by simp [processTy]
theorem processList_cons (g : Graph) (pm : Option (String × String)) (t : Ty) (ts : List Ty) :
    processList g pm (t :: ts) =
      ((processList (processTy g pm t).1 pm ts).1, (processTy g pm t).2 :: (processList (processTy g pm t).1 pm ts).2) := by
  simp [processList]
theorem processFields_cons (g : Graph) (idx k : String) (t : Ty) (fs : List (String × Ty)) :
    processFields g idx ((k, t) :: fs) =
      ((processFields (processTy g (some (idx, k)) t).1 idx fs).1,
       (k, (processTy g (some (idx, k)) t).2) :: (processFields (processTy g (some (idx, k)) t).1 idx fs).2) := by
  simp [processFields]

/-- the lookup `L` agrees with the graph `g'` on the models registered after `g` -/
def AgreesNew (L : ModelLookup) (g g' : Graph) : Prop := ∀ i, i ∉ idxs g → i ∈ idxs g' → L i = g'.look i

/-- composition: first `g → g1`, then `g1 → g2` -/
theorem AgreesNew.split {L : ModelLookup} {S S' g g1 g2 new1 newp1 new2 newp2}
    (e1 : Ext S g g1 new1 newp1) (e2 : Ext S' g1 g2 new2 newp2) (h : AgreesNew L g g2) :
    AgreesNew L g g1 ∧ AgreesNew L g1 g2 := by
  constructor
  · intro i hi hi1
    have hi2 : i ∈ idxs g2 := by rw [e2.idxs_eq]; exact List.mem_append_left _ hi1
    rw [h i hi hi2, e2.look_old hi1]
  · intro i hi1 hi2
    exact h i (fun hi => hi1 (by rw [e1.idxs_eq]; exact List.mem_append_left _ hi)) hi2

mutual
theorem processTy_rep {K : String → Prop} : ∀ (t : Ty) (g : Graph) (pm : Option (String × String)),
    Bounded g → Ty.Good K t →
    GoodP K IsIdx (processTy g pm t).2 ∧
    (∀ m ∈ (processTy g pm t).1.models, m ∈ g.models ∨ GoodPF K IsIdx m.fields) ∧
    (∀ L, AgreesNew L g (processTy g pm t).1 → Rep L t (processTy g pm t).2)
  | .obj fs, g, pm, hb, hg => by
    rw [Ty.good_obj] at hg
    have e1 := Ext.regNew g pm fs
    obtain ⟨new2, newp2, e2, _, hkeys⟩ := processFields_ext fs (regNew g pm fs) (indexOf g.counter) (e1.bounded hb)
    obtain ⟨ha, hm, hr⟩ := processFields_rep (K := K) fs (regNew g pm fs) (indexOf g.counter) (e1.bounded hb) hg.2
    have hidx1 : indexOf g.counter ∈ idxs (regNew g pm fs) := by rw [e1.idxs_eq]; simp
    have hidx2 : indexOf g.counter ∈ idxs (processFields (regNew g pm fs) (indexOf g.counter) fs).1 := by
      rw [e2.idxs_eq]; exact List.mem_append_left _ hidx1
    rw [processTy_obj]
    refine ⟨⟨g.counter, rfl⟩, ?_, ?_⟩
    · intro m hm'
      rw [setFields_models] at hm'
      rcases mem_setF hm' with ⟨hm', hne⟩ | ⟨m0, _, _, rfl⟩
      · rcases hm m hm' with h | h
        · simp only [Reg.regNew, List.mem_append, List.mem_singleton] at h
          rcases h with h | rfl
          · exact Or.inl h
          · exact absurd rfl hne
        · exact Or.inr h
      · exact Or.inr ⟨by rw [hkeys]; exact hg.1, ha⟩
    · intro L hL
      simp only [Rep]
      refine ⟨_, _, rfl, ?_, hr L ?_⟩
      · rw [hL _ (hb.fresh (Nat.le_refl _)) (by simpa using hidx2), look_setFields, if_pos rfl]
        have := look_isSome_iff.2 hidx2
        cases hl : (processFields (regNew g pm fs) (indexOf g.counter) fs).1.look (indexOf g.counter) with
        | none => rw [hl] at this; cases this
        | some x => rfl
      · intro i hi1 hi2
        have hne : i ≠ indexOf g.counter := fun e => hi1 (e ▸ hidx1)
        have hig : i ∉ idxs g := fun h => hi1 (by rw [e1.idxs_eq]; exact List.mem_append_left _ h)
        rw [hL i hig (by simpa using hi2), look_setFields, if_neg hne]
  | .list t, g, pm, hb, hg => by
    obtain ⟨a, b, c⟩ := processTy_rep (K := K) t g pm hb (by simpa using hg)
    rw [processTy_list]
    exact ⟨by simpa using a, b, fun L hL => by simp only [Rep]; exact ⟨_, rfl, c L hL⟩⟩
  | .dict t, g, pm, hb, hg => by
    obtain ⟨a, b, c⟩ := processTy_rep (K := K) t g pm hb (by simpa using hg)
    rw [processTy_dict]
    exact ⟨by simpa using a, b, fun L hL => by simp only [Rep]; exact ⟨_, rfl, c L hL⟩⟩
  | .opt t, g, pm, hb, hg => by
    obtain ⟨a, b, c⟩ := processTy_rep (K := K) t g pm hb (by simpa using hg)
    rw [processTy_opt]
    exact ⟨by simpa using a, b, fun L hL => by simp only [Rep]; exact ⟨_, rfl, c L hL⟩⟩
  | .union ts, g, pm, hb, hg => by
    obtain ⟨a, b, c⟩ := processList_rep (K := K) ts g pm hb (by simpa using hg)
    rw [processTy_union]
    exact ⟨by simpa using a, b, fun L hL => by simp only [Rep]; exact ⟨_, rfl, c L hL⟩⟩
  | .tuple _, _, _, _, hg => by simp at hg
  | .ptr _, _, _, _, hg => by simp at hg
  | .int, g, pm, _, _ | .float, g, pm, _, _ | .bool, g, pm, _, _ | .str, g, pm, _, _ | .null, g, pm, _, _
  | .unknown, g, pm, _, _ => ⟨by simp [processTy], fun m hm => Or.inl (by simpa [processTy] using hm),
      fun L _ => by simp [processTy, Rep]⟩
  | .ser k, g, pm, _, hg => ⟨by simpa [processTy] using hg, fun m hm => Or.inl (by simpa [processTy] using hm),
      fun L _ => by simp [processTy, Rep]⟩
  | .lit o vs, g, pm, _, hg => ⟨by simpa [processTy] using hg, fun m hm => Or.inl (by simpa [processTy] using hm),
      fun L _ => by simp [processTy, Rep]⟩
theorem processList_rep {K : String → Prop} : ∀ (ts : List Ty) (g : Graph) (pm : Option (String × String)),
    Bounded g → (∀ t ∈ ts, Ty.Good K t) →
    (∀ u ∈ (processList g pm ts).2, GoodP K IsIdx u) ∧
    (∀ m ∈ (processList g pm ts).1.models, m ∈ g.models ∨ GoodPF K IsIdx m.fields) ∧
    (∀ L, AgreesNew L g (processList g pm ts).1 → RepList L ts (processList g pm ts).2)
  | [], g, pm, _, _ => ⟨by simp [processList], fun m hm => Or.inl (by simpa [processList] using hm),
      fun L _ => by simp [processList, RepList]⟩
  | t :: ts, g, pm, hb, hg => by
    obtain ⟨new1, newp1, e1, _⟩ := processTy_ext t g pm hb
    obtain ⟨new2, newp2, e2, _⟩ := processList_ext ts (processTy g pm t).1 pm (e1.bounded hb)
    obtain ⟨a1, b1, c1⟩ := processTy_rep (K := K) t g pm hb (hg t (by simp))
    obtain ⟨a2, b2, c2⟩ := processList_rep (K := K) ts (processTy g pm t).1 pm (e1.bounded hb)
      (fun u hu => hg u (List.mem_cons_of_mem _ hu))
    rw [processList_cons]
    refine ⟨?_, ?_, ?_⟩
    · intro u hu
      rcases List.mem_cons.1 hu with rfl | hu
      · exact a1
      · exact a2 u hu
    · intro m hm
      rcases b2 m hm with h | h
      · exact b1 m h
      · exact Or.inr h
    · intro L hL
      obtain ⟨h1, h2⟩ := AgreesNew.split e1 e2 hL
      simp only [RepList]
      exact ⟨_, _, rfl, c1 L h1, c2 L h2⟩
theorem processFields_rep {K : String → Prop} : ∀ (fs : List (String × Ty)) (g : Graph) (idx : String),
    Bounded g → (∀ f ∈ fs, Ty.Good K f.2) →
    (∀ f ∈ (processFields g idx fs).2, GoodP K IsIdx f.2) ∧
    (∀ m ∈ (processFields g idx fs).1.models, m ∈ g.models ∨ GoodPF K IsIdx m.fields) ∧
    (∀ L, AgreesNew L g (processFields g idx fs).1 → RepFields L fs (processFields g idx fs).2)
  | [], g, idx, _, _ => ⟨by simp [processFields], fun m hm => Or.inl (by simpa [processFields] using hm),
      fun L _ => by simp [processFields, RepFields]⟩
  | (k, t) :: fs, g, idx, hb, hg => by
    obtain ⟨new1, newp1, e1, _⟩ := processTy_ext t g (some (idx, k)) hb
    obtain ⟨new2, newp2, e2, _⟩ := processFields_ext fs (processTy g (some (idx, k)) t).1 idx (e1.bounded hb)
    obtain ⟨a1, b1, c1⟩ := processTy_rep (K := K) t g (some (idx, k)) hb (hg (k, t) (by simp))
    obtain ⟨a2, b2, c2⟩ := processFields_rep (K := K) fs (processTy g (some (idx, k)) t).1 idx (e1.bounded hb)
      (fun u hu => hg u (List.mem_cons_of_mem _ hu))
    rw [processFields_cons]
    refine ⟨?_, ?_, ?_⟩
    · intro u hu
      rcases List.mem_cons.1 hu with rfl | hu
      · exact a1
      · exact a2 u hu
    · intro m hm
      rcases b2 m hm with h | h
      · exact b1 m h
      · exact Or.inr h
    · intro L hL
      obtain ⟨h1, h2⟩ := AgreesNew.split e1 e2 hL
      simp only [RepFields]
      exact ⟨_, _, rfl, c1 L h1, c2 L h2⟩
end


/-- **processTy_sound**: every inhabitant of a generator-stage (pointer-free) type inhabits its processed form —
    inline field dicts have become pointers to registered models holding the processed dicts. -/
theorem processTy_sound {acc : Accepts} {K : String → Prop} {L₀ : ModelLookup} {g : Graph}
    {pm : Option (String × String)} {t : Ty} {v : Json} (hb : Bounded g) (hg : Ty.Good K t)
    (h : Inh acc L₀ t v) : Inh acc (processTy g pm t).1.look (processTy g pm t).2 v :=
  rep_sound h _ ((processTy_rep t g pm hb hg).2.2 _ (fun _ _ _ => rfl))

/-- models already registered are unchanged, so inhabitation facts about them persist -/
theorem Ext.inh_mono {acc : Accepts} {S g g' new newp} (e : Ext S g g' new newp) {t : Ty} {v : Json}
    (h : Inh acc g.look t v) : Inh acc g'.look t v := by
  have := sim_sound (acc := acc) (L₁ := g.look) (L₂ := g'.look) (σ := id) ?_ t v h
  · rwa [subst_id] at this
  intro i fs kvs hL hin IH
  have tr := inhFields_subst (σ := id) (L₂ := g'.look) hin IH
  rw [substFields_id] at tr
  have hi : i ∈ idxs g := look_isSome_iff.1 (by rw [hL]; rfl)
  exact ⟨fs, by simp only [id]; rw [e.look_old hi, hL], tr⟩

/-- renaming models changes no lookup -/
theorem look_map_models (g : Graph) (f : Model → Model) (hi : ∀ m, (f m).idx = m.idx)
    (hf : ∀ m, (f m).fields = m.fields) : Graph.look { g with models := g.models.map f } = g.look := by
  funext i
  unfold Graph.look Graph.find?
  simp only
  rw [List.find?_map]
  have : ((fun x : Model => x.idx == i) ∘ f) = fun x => x.idx == i := by funext m; simp [Function.comp, hi]
  rw [this]
  cases List.find? (fun x => x.idx == i) g.models with
  | none => rfl
  | some m => simp [hf]

theorem processMetaData_look (g : Graph) (fields : Fields) (name : Option String) :
    (processMetaData g fields name).1.look = (processTy g none (.obj fields)).1.look := by
  rw [processMetaData_fst]
  cases name with
  | none => rfl
  | some n => exact look_map_models _ _ (fun m => by split <;> rfl) (fun m => by split <;> rfl)

/-- **`process_meta_data` is sound**: every object of the generator-stage field dict inhabits the root pointer it
    returns; everything already registered keeps its inhabitants; the registry stays a registry of
    registry-stage field dicts. -/
theorem processMetaData_sound {acc : Accepts} {K : String → Prop} {L₀ : ModelLookup} {g : Graph} {fields : Fields}
    {name : Option String} (wf : WF g) (gg : GraphGood K g) (hg : Ty.Good K (.obj fields)) :
    GraphGood K (processMetaData g fields name).1 ∧
    (∀ v, Inh acc L₀ (.obj fields) v →
      Inh acc (processMetaData g fields name).1.look (.ptr (processMetaData g fields name).2) v) ∧
    (∀ t v, Inh acc g.look t v → Inh acc (processMetaData g fields name).1.look t v) := by
  refine ⟨?_, ?_, ?_⟩
  · have hm := (processTy_rep (K := K) (.obj fields) g none wf.bound hg).2.1
    have gg1 : GraphGood K (processTy g none (.obj fields)).1 := by
      intro m hm'
      rcases hm m hm' with h | h
      · exact gg m h
      · exact h
    rw [processMetaData_fst]
    cases name with
    | none => exact gg1
    | some n =>
      intro m hm'
      obtain ⟨m0, hm0, rfl⟩ := List.mem_map.1 hm'
      have : (if (m0.idx == indexOf g.counter) = true then { m0 with name := some n, nameGen := some false }
          else m0).fields = m0.fields := by split <;> rfl
      rw [this]; exact gg1 m0 hm0
  · intro v hv
    rw [processMetaData_look, processMetaData_snd]
    have := processTy_sound (acc := acc) (pm := none) wf.bound hg hv
    rwa [processTy_obj] at this ⊢
  · intro t v hv
    rw [processMetaData_look]
    obtain ⟨new, newp, e, _⟩ := processTy_ext (.obj fields) g none wf.bound
    exact e.inh_mono hv

end J2M.Reg
