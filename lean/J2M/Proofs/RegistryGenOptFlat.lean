/-
  Every `DUnion` anywhere in a result of `optimize_type` is flat (has no `DUnion` member) — for every input,
  with no hypothesis: all unions of the result are built by the `DUnion` constructor at the end of
  `_optimize_union`, which flattens. This gives the side condition `FlatTopF` of `optSoundP_partial`
  (Proofs/RegistryGenOpt.lean) for field dicts cut out of generator output (the side condition is not needed any
  more since `_optimize_union` splices nested unions: `optSoundPS`).
-/
import J2M.Proofs.RegistryGenOpt
namespace J2M.Reg
open J2M

mutual
/-- hereditarily flat: no `DUnion` anywhere (also below inline field dicts and tuples) has a `DUnion` member -/
def FlatAll : Ty → Prop
  | .union ts => (∀ t ∈ ts, t.isUnion = false) ∧ FlatAllL ts
  | .list t | .dict t | .opt t => FlatAll t
  | .tuple ts => FlatAllL ts
  | .obj fs => FlatAllF fs
  | _ => True
def FlatAllL : List Ty → Prop
  | [] => True
  | t :: ts => FlatAll t ∧ FlatAllL ts
def FlatAllF : List (String × Ty) → Prop
  | [] => True
  | (_, t) :: fs => FlatAll t ∧ FlatAllF fs
end

theorem flatAllL_iff {ts : List Ty} : FlatAllL ts ↔ ∀ t ∈ ts, FlatAll t := by
  induction ts with
  | nil => simp [FlatAllL]
  | cons t ts ih => simp [FlatAllL, ih]

theorem flatAllF_iff {fs : List (String × Ty)} : FlatAllF fs ↔ ∀ f ∈ fs, FlatAll f.2 := by
  induction fs with
  | nil => simp [FlatAllF]
  | cons f fs ih => obtain ⟨k, t⟩ := f; simp [FlatAllF, ih]

@[simp] theorem flatAll_union {ts} :
    FlatAll (.union ts) ↔ (∀ t ∈ ts, t.isUnion = false) ∧ ∀ t ∈ ts, FlatAll t := by
  simp [FlatAll, flatAllL_iff]
@[simp] theorem flatAll_list {t} : FlatAll (.list t) ↔ FlatAll t := by simp [FlatAll]
@[simp] theorem flatAll_dict {t} : FlatAll (.dict t) ↔ FlatAll t := by simp [FlatAll]
@[simp] theorem flatAll_opt {t} : FlatAll (.opt t) ↔ FlatAll t := by simp [FlatAll]
@[simp] theorem flatAll_tuple {ts} : FlatAll (.tuple ts) ↔ ∀ t ∈ ts, FlatAll t := by
  simp [FlatAll, flatAllL_iff]
@[simp] theorem flatAll_obj {fs} : FlatAll (.obj fs) ↔ ∀ f ∈ fs, FlatAll f.2 := by
  simp [FlatAll, flatAllF_iff]
@[simp] theorem flatAll_int : FlatAll .int := by simp [FlatAll]
@[simp] theorem flatAll_float : FlatAll .float := by simp [FlatAll]
@[simp] theorem flatAll_bool : FlatAll .bool := by simp [FlatAll]
@[simp] theorem flatAll_str : FlatAll .str := by simp [FlatAll]
@[simp] theorem flatAll_null : FlatAll .null := by simp [FlatAll]
@[simp] theorem flatAll_unknown : FlatAll .unknown := by simp [FlatAll]
@[simp] theorem flatAll_ser {k} : FlatAll (.ser k) := by simp [FlatAll]
@[simp] theorem flatAll_lit {o vs} : FlatAll (.lit o vs) := by simp [FlatAll]
@[simp] theorem flatAll_ptr {i} : FlatAll (.ptr i) := by simp [FlatAll]

theorem FlatAll.flatTop {t : Ty} (h : FlatAll t) : FlatTop t := by
  intro ts e; subst e; exact (flatAll_union.1 h).1

/-- the field dict of an inline object of a hereditarily flat type is flat at the top of every field -/
theorem FlatAll.flatTopF {fs : Fields} (h : FlatAll (.obj fs)) : FlatTopF fs :=
  fun f hf => (flatAll_obj.1 h f hf).flatTop

/-! ## the results of `optimize_type` are hereditarily flat -/

theorem flatAll_collapse0 {us : List Ty} (h : ∀ u ∈ us, u.isUnion = false ∧ FlatAll u) :
    FlatAll (collapse0 us) := by
  unfold collapse0
  split
  · simp
  · exact (h _ (by simp)).2
  · exact flatAll_union.2 ⟨fun u hu => (h u hu).1, fun u hu => (h u hu).2⟩

theorem flatAll_mkUnionMembers {c : LitCfg} {ts : List Ty} (h : ∀ t ∈ ts, FlatAll t) :
    ∀ u ∈ mkUnionMembers c ts, u.isUnion = false ∧ FlatAll u := by
  refine mkUnionMembers_forall (P := fun u => u.isUnion = false ∧ FlatAll u) ?_ ⟨rfl, by simp⟩
    (fun _ _ => ⟨rfl, by simp⟩)
  intro t ht
  exact ⟨flattenUnion_not_union t ht,
    flattenUnion_forall (P := FlatAll) (fun _ hu => (flatAll_union.1 hu).2) h t ht⟩

section
variable (cfg : GenCfg) (e : EqEnv)

def OptFlat (fuel : Nat) : Prop := ∀ t t', optimize cfg e fuel t = .ok t' → FlatAll t'
def OptUFlat (fuel : Nat) : Prop := ∀ ms t', optimizeUnion cfg e fuel ms = .ok t' → FlatAll t'

variable {cfg e}

theorem optimizeUnion_flat_step (fuel : Nat) (ih : OptFlat cfg e fuel) : OptUFlat cfg e (fuel + 1) := by
  intro ms t' h
  rw [optimizeUnion.eq_2] at h
  rw [Except.bind_eq_ok] at h
  obtain ⟨other2, _, h⟩ := h
  simp only at h
  rw [Except.bind_eq_ok] at h
  obtain ⟨other5, _, h⟩ := h
  rw [Except.bind_eq_ok] at h
  obtain ⟨types, hty, h⟩ := h
  have h6 : ∀ t ∈ types, FlatAll t := by
    intro t ht
    obtain ⟨o, _, hf⟩ := (mapM_ok_memX other5 types hty).2 t ht
    exact ih o t hf
  match types, h6, h with
  | [], _, h => simp at h
  | [t], h6, h =>
    simp only [Except.pure_eq_ok] at h; subst h
    exact h6 t (by simp)
  | t1 :: t2 :: rest, h6, h =>
    simp only [Except.pure_eq_ok] at h
    generalize hL : t1 :: t2 :: rest = L at h h6
    generalize hT1 : (if L.any Ty.isUnknown = true then removeFirst Ty.isUnknown L else L) = T1 at h
    have hT1sub : ∀ t ∈ T1, t ∈ L := by
      intro t ht; rw [← hT1] at ht
      split at ht
      · exact mem_of_mem_removeFirst ht
      · exact ht
    have hT2 : ∀ t ∈ T1.filter (fun t => !t.isNull), FlatAll t := by
      intro t ht; exact h6 t (hT1sub t (List.mem_filter.1 ht).1)
    change (if T1.any Ty.isNull = true
        then (collapse0 (mkUnionMembers cfg.lit (T1.filter (fun t => !t.isNull)))).opt
        else collapse0 (mkUnionMembers cfg.lit (T1.filter (fun t => !t.isNull)))) = t' at h
    have hmt := flatAll_collapse0 (flatAll_mkUnionMembers (c := cfg.lit) hT2)
    subst h
    split
    · simpa using hmt
    · exact hmt

theorem optimize_flat_step (fuel : Nat) (ih : OptFlat cfg e fuel) (ihU : OptUFlat cfg e fuel) :
    OptFlat cfg e (fuel + 1) := by
  intro t t' h
  cases t
  case obj fs =>
    rw [optimize.eq_2, Except.bind_eq_ok] at h
    obtain ⟨fs', hfs', h⟩ := h
    rw [Except.pure_eq_ok] at h; subst h
    refine flatAll_obj.2 (fun f hf => ?_)
    obtain ⟨kv, _, hkv⟩ := (mapM_ok_memX fs fs' hfs').2 f hf
    rw [Except.bind_eq_ok] at hkv
    obtain ⟨v, hv, hkv⟩ := hkv
    rw [Except.pure_eq_ok] at hkv; subst hkv
    exact ih _ _ hv
  case union ts =>
    rw [optimize.eq_3] at h
    exact ihU ts t' h
  case opt x =>
    rw [optimize.eq_4, Except.bind_eq_ok] at h
    obtain ⟨y, hy, h⟩ := h
    have hy' := ih x y hy
    cases y <;> simp only [Except.pure_eq_ok] at h <;> subst h <;>
      first | exact hy' | (simp only [flatAll_opt]; exact hy')
  case list x =>
    simp only [optimize] at h
    rw [Except.bind_eq_ok] at h
    obtain ⟨y, hy, h⟩ := h
    rw [Except.pure_eq_ok] at h; subst h
    simpa using ih x y hy
  case dict x =>
    simp only [optimize] at h
    rw [Except.bind_eq_ok] at h
    obtain ⟨y, hy, h⟩ := h
    rw [Except.pure_eq_ok] at h; subst h
    simpa using ih x y hy
  case tuple ts =>
    simp only [optimize] at h
    rw [Except.bind_eq_ok] at h
    obtain ⟨ys, hys, h⟩ := h
    rw [Except.pure_eq_ok] at h; subst h
    refine flatAll_tuple.2 (fun y hy => ?_)
    obtain ⟨x, _, hx⟩ := (mapM_ok_memX ts ys hys).2 y hy
    exact ih x y hx
  case lit o vs =>
    rw [optimize.eq_8] at h
    split at h <;> (rw [Except.pure_eq_ok] at h; subst h; simp)
  all_goals
    simp only [optimize, Except.pure_eq_ok] at h
    subst h
    simp

theorem optimize_flat_all : ∀ fuel, OptFlat cfg e fuel ∧ OptUFlat cfg e fuel := by
  intro fuel
  induction fuel with
  | zero =>
    exact ⟨fun t t' h => by simp [optimize] at h, fun ms t' h => by simp [optimizeUnion] at h⟩
  | succ fuel ih =>
    exact ⟨optimize_flat_step fuel ih.1 ih.2, optimizeUnion_flat_step fuel ih.1⟩

end

/-- **every result of `optimize_type` is hereditarily flat** (any input, any configuration): no `DUnion`
    anywhere in it has a `DUnion` member -/
theorem optimize_flatAll {cfg : GenCfg} {e : EqEnv} {fuel : Nat} {t t' : Ty}
    (h : optimize cfg e fuel t = .ok t') : FlatAll t' :=
  (optimize_flat_all (cfg := cfg) (e := e) fuel).1 t t' h

/-- in particular the field dict returned for a field dict is flat at the top of every field, and so is
    the field dict of every inline object inside it (`FlatAll.flatTopF`) -/
theorem optimize_obj_flatTopF {cfg : GenCfg} {e : EqEnv} {fuel : Nat} {t : Ty} {F' : Fields}
    (h : optimize cfg e fuel t = .ok (.obj F')) : FlatTopF F' :=
  (optimize_flatAll h).flatTopF

/-- `FlatAll` is not vacuous and not trivial -/
example : FlatAll (.obj [("a", .opt (.union [.ptr "1", .list (.union [.int, .str])]))]) ∧
    ¬ FlatAll (.list (.union [.union [.int, .str], .float])) := by
  constructor
  · simp [Ty.isUnion]
  · simp [Ty.isUnion]

#print axioms J2M.Reg.optimize_flatAll
#print axioms J2M.Reg.optimize_obj_flatTopF

end J2M.Reg
