/-
  Helper lemmas for C09: `int(str(i)) = i` on the `parseInt`/`renderInt` models.
-/
import J2M.Lex
namespace J2M.Strings

open J2M

/-- the value `parseDigits` accumulates over plain digits -/
def digStep (a : Nat) (c : Char) : Nat := a * 10 + (c.toNat - 48)

theorem digitChar_lt10 {d : Nat} (h : d < 10) :
    isAsciiDigit (Nat.digitChar d) = true ∧ (Nat.digitChar d).toNat - 48 = d := by
  have key : ∀ d : Fin 10, isAsciiDigit (Nat.digitChar d.val) = true ∧ (Nat.digitChar d.val).toNat - 48 = d.val := by
    decide
  exact key ⟨d, h⟩

theorem toDigits_step {n : Nat} (h : 10 ≤ n) :
    Nat.toDigits 10 n = Nat.toDigits 10 (n / 10) ++ [Nat.digitChar (n % 10)] := by
  have h1 := @Nat.toDigits_append_toDigits 10 (n / 10) (n % 10) (by decide) (by omega) (Nat.mod_lt _ (by decide))
  rw [Nat.toDigits_of_lt_base (Nat.mod_lt _ (by decide))] at h1
  rw [h1]; congr 1; omega

/-- `str(n)` consists of ASCII digits, is not empty, and its digits spell `n` -/
theorem toDigits_spec (n : Nat) :
    (∀ c ∈ Nat.toDigits 10 n, isAsciiDigit c = true) ∧ Nat.toDigits 10 n ≠ [] ∧
    (Nat.toDigits 10 n).foldl digStep 0 = n := by
  induction n using Nat.strongRecOn with
  | _ n ih =>
    by_cases h : n < 10
    · rw [Nat.toDigits_of_lt_base h]
      have := digitChar_lt10 h
      refine ⟨by simpa using this.1, by simp, ?_⟩
      simp [digStep, this.2]
    · have h' : 10 ≤ n := by omega
      obtain ⟨i1, i2, i3⟩ := ih (n / 10) (by omega)
      have hd := digitChar_lt10 (Nat.mod_lt n (by decide : 0 < 10))
      rw [toDigits_step h']
      refine ⟨?_, by simp, ?_⟩
      · intro c hc
        rcases List.mem_append.mp hc with hc | hc
        · exact i1 c hc
        · have : c = Nat.digitChar (n % 10) := by simpa using hc
          rw [this]; exact hd.1
      · rw [List.foldl_append, i3]
        simp only [List.foldl_cons, List.foldl_nil, digStep, hd.2]
        omega

theorem parseDigits_true (ds : List Char) (h : ∀ c ∈ ds, isAsciiDigit c = true) :
    ∀ acc, parseDigits true acc ds = some (ds.foldl digStep acc) := by
  induction ds with
  | nil => intro acc; simp [parseDigits]
  | cons c cs ih =>
    intro acc
    have hc := h c (by simp)
    simp only [parseDigits, hc, if_true, List.foldl_cons, digStep]
    exact ih (fun c' hc' => h c' (by simp [hc'])) _

theorem parseDigits_digits (ds : List Char) (h : ∀ c ∈ ds, isAsciiDigit c = true) (hne : ds ≠ [])
    (prev : Bool) (acc : Nat) : parseDigits prev acc ds = some (ds.foldl digStep acc) := by
  cases ds with
  | nil => exact absurd rfl hne
  | cons c cs =>
    have hc := h c (by simp)
    simp only [parseDigits, hc, if_true, List.foldl_cons, digStep]
    exact parseDigits_true cs (fun c' hc' => h c' (by simp [hc'])) _

theorem parseDigits_toDigits (n : Nat) (prev : Bool) :
    parseDigits prev 0 (Nat.toDigits 10 n) = some n := by
  obtain ⟨h1, h2, h3⟩ := toDigits_spec n
  rw [parseDigits_digits _ h1 h2, h3]

/-! ## strip -/

theorem dropWhile_of_head {p : Char → Bool} {cs : List Char} (h : ∀ c, cs.head? = some c → p c = false) :
    cs.dropWhile p = cs := by
  cases cs with
  | nil => rfl
  | cons c cs => simp [h c rfl]

theorem pyStrip_of_noSpace {cs : List Char} (h : ∀ c ∈ cs, isPySpace c = false) : pyStrip cs = cs := by
  unfold pyStrip
  rw [dropWhile_of_head (cs := cs)]
  · rw [dropWhile_of_head, List.reverse_reverse]
    intro c hc
    exact h c (by
      have := List.mem_of_mem_head? hc
      simpa using this)
  · intro c hc
    exact h c (List.mem_of_mem_head? hc)

theorem digit_not_space {c : Char} (h : isAsciiDigit c = true) : isPySpace c = false := by
  simp only [isAsciiDigit, Bool.and_eq_true, decide_eq_true_eq] at h
  have e : ∀ d : Char, c = d → c.toNat = d.toNat := fun d h => by rw [h]
  simp only [isPySpace, Bool.or_eq_false_iff, decide_eq_false_iff_not]
  refine ⟨⟨⟨⟨⟨?_, ?_⟩, ?_⟩, ?_⟩, ?_⟩, ?_⟩
  · intro h'; have := e _ h'; simp at this; omega
  · intro h'; have := e _ h'; simp at this; omega
  · intro h'; have := e _ h'; simp at this; omega
  · intro h'; have := e _ h'; simp at this; omega
  · omega
  · omega

theorem digit_not_sign {c : Char} (h : isAsciiDigit c = true) : c ≠ '-' ∧ c ≠ '+' := by
  simp only [isAsciiDigit, Bool.and_eq_true, decide_eq_true_eq] at h
  constructor <;> (intro h'; subst h'; simp at h)

/-! ## the round trip -/

theorem parseInt_renderInt (i : Int) : parseInt (renderInt i) = some i := by
  cases i with
  | ofNat n =>
    obtain ⟨h1, h2, _⟩ := toDigits_spec n
    have hs : pyStrip (Nat.toDigits 10 n) = Nat.toDigits 10 n :=
      pyStrip_of_noSpace (fun c hc => digit_not_space (h1 c hc))
    have hp := parseDigits_toDigits n false
    simp only [parseInt, renderInt, hs]
    cases hd : Nat.toDigits 10 n with
    | nil => exact absurd hd h2
    | cons c cs =>
      have hc : isAsciiDigit c = true := h1 c (by simp [hd])
      obtain ⟨n1, n2⟩ := digit_not_sign hc
      rw [hd] at hp
      simp [n1, n2, hp]
  | negSucc n =>
    obtain ⟨h1, _, _⟩ := toDigits_spec (n + 1)
    have hs : pyStrip ('-' :: Nat.toDigits 10 (n + 1)) = '-' :: Nat.toDigits 10 (n + 1) := by
      apply pyStrip_of_noSpace
      intro c hc
      rcases List.mem_cons.mp hc with rfl | hc
      · decide
      · exact digit_not_space (h1 c hc)
    simp only [parseInt, renderInt, hs, if_true, parseDigits_toDigits (n + 1) false]
    rfl

end J2M.Strings
