/-
  C07 (generator level), part 3: `DUnion(*ts)` (`mkUnionMembers`) as a function of
  * the set of non-literal, non-`str` members (`NL`), up to the member relation, and
  * the "effective literal state" `Eff` (`none`: falls back to `str`; `some V`: the folded value set).
-/
import J2M.Proofs.PermN
import J2M.Proofs.StringsUnion
import J2M.Proofs.HashInj
import J2M.Proofs.Merge
namespace J2M.Perm
open J2M

/-- non-literal, non-`str` members -/
def NL (L : List Ty) : List Ty := L.filter (fun t => !t.isLit && !t.isStr)

theorem mem_NL {L : List Ty} {t : Ty} : t ∈ NL L ↔ t ∈ L ∧ t.isLit = false ∧ t.isStr = false := by
  simp [NL]

open Classical in
/-- effective literal state of a flat member list: `none` = `str` will be a member, `some V` = the union of
    the literal value sets (within the limits; `[]` when there is no literal) -/
noncomputable def Eff (c : LitCfg) (L : List Ty) : Option (List String) :=
  if Strings.useFinal L = true ∧ ¬ Strings.Overflows c (Strings.unionVals L) then some (Strings.unionVals L) else none

theorem not_overflows_nil (c : LitCfg) : ¬ Strings.Overflows c [] := by
  simp [Strings.Overflows]

theorem eff_some_iff {c L V} : Eff c L = some V ↔
    Strings.useFinal L = true ∧ ¬ Strings.Overflows c (Strings.unionVals L) ∧ V = Strings.unionVals L := by
  unfold Eff
  split
  · rename_i h; simp only [Option.some.injEq]
    exact ⟨fun e => ⟨h.1, h.2, e.symm⟩, fun e => e.2.2.symm⟩
  · rename_i h
    constructor
    · intro e; cases e
    · rintro ⟨h1, h2, _⟩; exact absurd ⟨h1, h2⟩ h

theorem eff_none_iff {c L} : Eff c L = none ↔ Strings.fallsBackToStr c L := by
  unfold Eff Strings.fallsBackToStr
  split
  · rename_i h
    constructor
    · intro e; cases e
    · rintro (h1 | ⟨_, h2⟩)
      · rw [h.1] at h1; cases h1
      · exact absurd h2 h.2
  · rename_i h
    refine ⟨fun _ => ?_, fun _ => rfl⟩
    by_cases hu : Strings.useFinal L = true
    · have ho : Strings.Overflows c (Strings.unionVals L) := Classical.not_not.1 (fun hn => h ⟨hu, hn⟩)
      refine .inr ⟨?_, ho⟩
      intro e; rw [e] at ho; exact not_overflows_nil c ho
    · exact .inl (by simpa using hu)

theorem emitsLit_iff_eff {c L} : Strings.emitsLit c L ↔
    Eff c L = some (Strings.unionVals L) ∧ Strings.unionVals L ≠ [] := by
  unfold Strings.emitsLit
  rw [eff_some_iff]
  constructor
  · rintro ⟨h1, h2, h3⟩; exact ⟨⟨h1, h3, rfl⟩, h2⟩
  · rintro ⟨⟨h1, h3, _⟩, h2⟩; exact ⟨h1, h2, h3⟩

/-! ## what `Eff` depends on -/

theorem unionVals_eq_of_lits {L L' : List Ty}
    (h : ∀ vs, Ty.lit false vs ∈ L ↔ Ty.lit false vs ∈ L') : Strings.unionVals L = Strings.unionVals L' := by
  apply Strings.sorted_ext (Strings.sorted_unionVals L) (Strings.sorted_unionVals L')
  intro s
  simp only [Strings.mem_unionVals, h]

theorem useFinal_eq_of_killers {L L' : List Ty} (hs : Ty.str ∈ L ↔ Ty.str ∈ L')
    (ho : ∀ vs, Ty.lit true vs ∈ L ↔ Ty.lit true vs ∈ L') : Strings.useFinal L = Strings.useFinal L' := by
  have e : Strings.useFinal L = true ↔ Strings.useFinal L' = true := by
    rw [Strings.useFinal_iff, Strings.useFinal_iff, hs]
    constructor
    · rintro ⟨h1, h2⟩; exact ⟨h1, fun vs hm => h2 vs ((ho vs).2 hm)⟩
    · rintro ⟨h1, h2⟩; exact ⟨h1, fun vs hm => h2 vs ((ho vs).1 hm)⟩
  cases h1 : Strings.useFinal L <;> cases h2 : Strings.useFinal L' <;> simp_all

/-- `Eff` depends only on which literals and whether `str` occur -/
theorem eff_congr_lits {c : LitCfg} {L L' : List Ty} (hs : Ty.str ∈ L ↔ Ty.str ∈ L')
    (hl : ∀ o vs, Ty.lit o vs ∈ L ↔ Ty.lit o vs ∈ L') : Eff c L = Eff c L' := by
  unfold Eff
  rw [useFinal_eq_of_killers hs (fun vs => hl true vs), unionVals_eq_of_lits (fun vs => hl false vs)]

theorem eff_mem_congr {c : LitCfg} {L L' : List Ty} (h : ∀ t, t ∈ L ↔ t ∈ L') : Eff c L = Eff c L' :=
  eff_congr_lits (h _) (fun _ _ => h _)

theorem mem_unionVals_cons {d : Ty} {L : List Ty} {s : String} :
    s ∈ Strings.unionVals (d :: L) ↔ (∃ vs, d = .lit false vs ∧ s ∈ vs) ∨ s ∈ Strings.unionVals L := by
  simp only [Strings.mem_unionVals, List.mem_cons]
  constructor
  · rintro ⟨vs, (h | h), hs⟩
    · exact .inl ⟨vs, h.symm, hs⟩
    · exact .inr ⟨vs, h, hs⟩
  · rintro (⟨vs, h, hs⟩ | ⟨vs, h, hs⟩)
    · exact ⟨vs, .inl h.symm, hs⟩
    · exact ⟨vs, .inr h, hs⟩

theorem useFinal_cons (d : Ty) (L : List Ty) :
    Strings.useFinal (d :: L) = (!Strings.isKiller d && Strings.useFinal L) := by
  simp [Strings.useFinal]

theorem overflows_mono {c : LitCfg} {V V' : List String} (nd : V.Nodup) (sub : ∀ s ∈ V, s ∈ V')
    (h : Strings.Overflows c V) : Strings.Overflows c V' := by
  rcases h with h | ⟨s, hs, hl⟩
  · have := List.Nodup.length_le_of_subset nd (fun s hs => sub s hs)
    exact .inl (by omega)
  · exact .inr ⟨s, sub s hs, hl⟩

theorem eff_cons_none {c : LitCfg} {d : Ty} {L : List Ty} (h : Eff c L = none) : Eff c (d :: L) = none := by
  rw [eff_none_iff] at h ⊢
  rcases h with h | ⟨_, h⟩
  · exact .inl (by rw [useFinal_cons, h]; simp)
  · have ho := overflows_mono (V' := Strings.unionVals (d :: L))
      (Strings.nodup_of_sorted (Strings.sorted_unionVals L))
      (fun s hs => mem_unionVals_cons.2 (.inr hs)) h
    refine .inr ⟨?_, ho⟩
    intro e; rw [e] at ho; exact not_overflows_nil c ho

/-- the state after one more member is a function of the member and the state before -/
theorem eff_cons_congr {c : LitCfg} {d : Ty} {L L' : List Ty} (h : Eff c L = Eff c L') :
    Eff c (d :: L) = Eff c (d :: L') := by
  cases hL : Eff c L with
  | none => rw [eff_cons_none hL, eff_cons_none (h ▸ hL)]
  | some V =>
    have hL' : Eff c L' = some V := h ▸ hL
    obtain ⟨u1, _, v1⟩ := eff_some_iff.1 hL
    obtain ⟨u2, _, v2⟩ := eff_some_iff.1 hL'
    have huv : Strings.unionVals (d :: L) = Strings.unionVals (d :: L') := by
      apply Strings.sorted_ext (Strings.sorted_unionVals _) (Strings.sorted_unionVals _)
      intro s
      rw [mem_unionVals_cons, mem_unionVals_cons, ← v1, ← v2]
    unfold Eff
    rw [useFinal_cons, useFinal_cons, u1, u2, huv]

theorem eff_cons_plain {c : LitCfg} {d : Ty} {L : List Ty} (hl : d.isLit = false) (hs : d.isStr = false) :
    Eff c (d :: L) = Eff c L := by
  apply eff_congr_lits
  · simp only [List.mem_cons]
    constructor
    · rintro (h | h)
      · subst h; simp [Ty.isStr] at hs
      · exact h
    · exact .inr
  · intro o vs
    simp only [List.mem_cons]
    constructor
    · rintro (h | h)
      · subst h; simp [Ty.isLit] at hl
      · exact h
    · exact .inr

/-- a member that is already there changes nothing -/
theorem eff_cons_mem {c : LitCfg} {d : Ty} {L : List Ty} (h : d ∈ L) : Eff c (d :: L) = Eff c L :=
  eff_mem_congr (fun t => by simp only [List.mem_cons]; exact ⟨fun h' => h'.elim (fun e => e ▸ h) id, .inr⟩)

/-! ## `mkUnionMembers` on flat, well-formed lists -/

structure FlatWF (L : List Ty) : Prop where
  flat : ∀ t ∈ L, t.isUnion = false
  wf : ∀ t ∈ L, t.WFHash

theorem FlatWF.flatten {L : List Ty} (h : FlatWF L) : flattenUnion L = L := flattenUnion_id h.flat

theorem wf_str : Ty.WFHash .str := by decide

theorem mkUM_str_of_hash {c : LitCfg} {L : List Ty} (h : FlatWF L) {t : Ty} (_ht : t ∈ mkUnionMembers c L)
    (hh : hashStr t = hashStr .str) (hc : t = .str ∨ (t ∈ flattenUnion L ∧ t.isLit = false)) : t = .str := by
  rcases hc with hc | ⟨hc, _⟩
  · exact hc
  · rw [h.flatten] at hc
    exact HashInj.hashStr_inj_core _ _ (h.wf t hc) wf_str hh

theorem str_mem_mkUM_iff {c : LitCfg} {L : List Ty} (h : FlatWF L) :
    Ty.str ∈ mkUnionMembers c L ↔ Eff c L = none := by
  rw [eff_none_iff]
  constructor
  · intro hs; have := Strings.str_mem_imp c L hs; rwa [h.flatten] at this
  · intro hf
    have hf' : Strings.fallsBackToStr c (flattenUnion L) := by rwa [h.flatten]
    obtain ⟨t, ht, hh, hc⟩ := Strings.fallsBack_imp c L hf'
    rw [← mkUM_str_of_hash h ht hh hc]; exact ht

theorem lit_mem_mkUM_iff {c : LitCfg} {L : List Ty} (h : FlatWF L) {o vs} :
    Ty.lit o vs ∈ mkUnionMembers c L ↔
      Eff c L = some vs ∧ vs ≠ [] ∧ o = false := by
  rw [Strings.lit_mem_iff, h.flatten, emitsLit_iff_eff]
  constructor
  · rintro ⟨⟨h1, h2⟩, h3, h4⟩; subst h4; exact ⟨h1, h2, h3⟩
  · rintro ⟨h1, h2, h3⟩
    have := (eff_some_iff.1 h1).2.2
    subst this; exact ⟨⟨h1, h2⟩, h3, rfl⟩

theorem plain_mem_mkUM_iff {c : LitCfg} {L : List Ty} (h : FlatWF L) {u : Ty}
    (hl : u.isLit = false) (hs : u.isStr = false) : u ∈ mkUnionMembers c L ↔ u ∈ L := by
  constructor
  · intro hu
    rcases Strings.nonlit_mem_imp c L u hu hl with h1 | ⟨h1, _⟩
    · rwa [h.flatten] at h1
    · subst h1; simp [Ty.isStr] at hs
  · intro hu
    obtain ⟨hc, _⟩ := mkUnion_members_cover c L u (by rw [h.flatten]; exact hu)
    obtain ⟨u', hu', hin, _, hh⟩ := hc hl
    rw [h.flatten] at hin
    rw [← HashInj.hashStr_inj_core _ _ (h.wf u' hin) (h.wf u hu) hh]; exact hu'

theorem mem_NL_mkUM {c : LitCfg} {L : List Ty} (h : FlatWF L) {u : Ty} :
    u ∈ NL (mkUnionMembers c L) ↔ u ∈ NL L := by
  rw [mem_NL, mem_NL]
  constructor
  · rintro ⟨h1, h2, h3⟩; exact ⟨(plain_mem_mkUM_iff h h2 h3).1 h1, h2, h3⟩
  · rintro ⟨h1, h2, h3⟩; exact ⟨(plain_mem_mkUM_iff h h2 h3).2 h1, h2, h3⟩

theorem wfHash_lit_false (vs : List String) : Ty.WFHash (.lit false vs) := by
  simp [Ty.WFHash, wfHash]

theorem mkUM_flatWF {c : LitCfg} {L : List Ty} (h : FlatWF L) : FlatWF (mkUnionMembers c L) := by
  refine ⟨mkUnionMembers_nonunion c L, ?_⟩
  intro u hu
  rcases mkUnion_members_subset c L u hu with ⟨h1, _⟩ | ⟨vs, h1, _⟩ | ⟨h1, _⟩
  · rw [h.flatten] at h1; exact h.wf u h1
  · subst h1; exact wfHash_lit_false vs
  · subst h1; exact wf_str

theorem no_ovlit_mkUM {c : LitCfg} {L : List Ty} (vs : List String) : Ty.lit true vs ∉ mkUnionMembers c L := by
  intro h
  have := ((Strings.lit_mem_iff c L true vs).1 h).2.1
  cases this

/-- the state of the result is the state of the arguments -/
theorem eff_mkUM {c : LitCfg} {L : List Ty} (h : FlatWF L) : Eff c (mkUnionMembers c L) = Eff c L := by
  cases hE : Eff c L with
  | none =>
    rw [eff_none_iff]
    exact .inl (Strings.str_mem_imp_useFinal_false ((str_mem_mkUM_iff h).2 hE))
  | some V =>
    obtain ⟨_, ho, hV⟩ := eff_some_iff.1 hE
    have hstr : Ty.str ∉ mkUnionMembers c L := fun hs => by
      have := (str_mem_mkUM_iff h).1 hs; rw [hE] at this; cases this
    have huf : Strings.useFinal (mkUnionMembers c L) = true :=
      Strings.useFinal_iff.2 ⟨hstr, fun vs => no_ovlit_mkUM vs⟩
    have huv : Strings.unionVals (mkUnionMembers c L) = V := by
      apply Strings.sorted_ext (Strings.sorted_unionVals _) (hV ▸ Strings.sorted_unionVals L)
      intro s
      rw [Strings.mem_unionVals]
      constructor
      · rintro ⟨vs, hvs, hs⟩
        have := (lit_mem_mkUM_iff h).1 hvs
        rw [hE] at this
        cases this.1; exact hs
      · intro hs
        exact ⟨V, (lit_mem_mkUM_iff h).2 ⟨hE, List.ne_nil_of_mem hs, rfl⟩, hs⟩
    rw [eff_some_iff]
    exact ⟨huf, by rw [huv, hV]; exact ho, huv.symm⟩

/-- members of two lists correspond up to `r` -/
def SetR (r : Ty → Ty → Prop) (as bs : List Ty) : Prop :=
  (∀ a ∈ as, ∃ b ∈ bs, r a b) ∧ (∀ b ∈ bs, ∃ a ∈ as, r a b)

theorem setA_eq : SetA = SetR ASim := rfl
theorem setSim_eq (len : Bool) : SetSim len = SetR (Sim len) := rfl

theorem mkUM_half {r : Ty → Ty → Prop} (hrefl : ∀ a, r a a) {c : LitCfg} {L₁ L₂ : List Ty}
    (f₁ : FlatWF L₁) (f₂ : FlatWF L₂)
    (hN : ∀ a ∈ NL L₁, ∃ b ∈ NL L₂, r a b) (hE : Eff c L₁ = Eff c L₂) :
    ∀ u ∈ mkUnionMembers c L₁, ∃ u' ∈ mkUnionMembers c L₂, r u u' := by
  intro u hu
  by_cases hl : u.isLit = true
  · cases u <;> simp [Ty.isLit] at hl
    rename_i o vs
    refine ⟨.lit o vs, ?_, hrefl _⟩
    rw [lit_mem_mkUM_iff f₂, ← hE]
    exact (lit_mem_mkUM_iff f₁).1 hu
  · have hl' : u.isLit = false := by simpa using hl
    by_cases hs : u.isStr = true
    · cases u <;> simp [Ty.isStr] at hs
      refine ⟨.str, ?_, hrefl _⟩
      rw [str_mem_mkUM_iff f₂, ← hE]
      exact (str_mem_mkUM_iff f₁).1 hu
    · have hs' : u.isStr = false := by simpa using hs
      have hin : u ∈ NL L₁ := mem_NL.2 ⟨(plain_mem_mkUM_iff f₁ hl' hs').1 hu, hl', hs'⟩
      obtain ⟨b, hb, hr⟩ := hN u hin
      obtain ⟨hb1, hb2, hb3⟩ := mem_NL.1 hb
      exact ⟨b, (plain_mem_mkUM_iff f₂ hb2 hb3).2 hb1, hr⟩

/-- **`DUnion(*L₁)` and `DUnion(*L₂)` have the same members up to `r`** when the plain members correspond
    up to `r` and the literal states agree -/
theorem mkUM_congr {r : Ty → Ty → Prop} (hrefl : ∀ a, r a a) {c : LitCfg} {L₁ L₂ : List Ty}
    (f₁ : FlatWF L₁) (f₂ : FlatWF L₂)
    (hN : SetR r (NL L₁) (NL L₂)) (hE : Eff c L₁ = Eff c L₂) :
    SetR r (mkUnionMembers c L₁) (mkUnionMembers c L₂) := by
  refine ⟨mkUM_half hrefl f₁ f₂ hN.1 hE, ?_⟩
  intro b hb
  obtain ⟨a, ha, h⟩ := mkUM_half (r := fun x y => r y x) hrefl f₂ f₁ hN.2 hE.symm b hb
  exact ⟨a, ha, h⟩

/-- a relation that is plain equality on literals and `str` -/
structure LeafEq (r : Ty → Ty → Prop) : Prop where
  refl : ∀ a, r a a
  lit : ∀ {a b}, r a b → a.isLit = b.isLit
  str : ∀ {a b}, r a b → a.isStr = b.isStr
  litL : ∀ {o vs b}, r (.lit o vs) b → b = .lit o vs
  litR : ∀ {o vs a}, r a (.lit o vs) → a = .lit o vs
  strL : ∀ {b}, r .str b → b = .str
  strR : ∀ {a}, r a .str → a = .str

theorem leafEq_asim : LeafEq ASim :=
  ⟨ASim.refl, asim_isLit, fun h => by
      have := sim_isStr h
      rename_i a b
      cases a <;> cases b <;> simp_all [Um, Ty.isStr],
   asim_lit_left, asim_lit_right, asim_str_left, asim_str_right⟩

theorem leafEq_sim (len : Bool) : LeafEq (Sim len) :=
  ⟨Sim.refl len, sim_isLit, sim_isStr, sim_lit_left, sim_lit_right, sim_str_left, sim_str_right⟩

theorem setR_NL {r} (hr : LeafEq r) {L₁ L₂ : List Ty} (h : SetR r L₁ L₂) : SetR r (NL L₁) (NL L₂) := by
  constructor
  · intro a ha
    obtain ⟨h1, h2, h3⟩ := mem_NL.1 ha
    obtain ⟨b, hb, hab⟩ := h.1 a h1
    exact ⟨b, mem_NL.2 ⟨hb, by rw [← hr.lit hab]; exact h2, by rw [← hr.str hab]; exact h3⟩, hab⟩
  · intro b hb
    obtain ⟨h1, h2, h3⟩ := mem_NL.1 hb
    obtain ⟨a, ha, hab⟩ := h.2 b h1
    exact ⟨a, mem_NL.2 ⟨ha, by rw [hr.lit hab]; exact h2, by rw [hr.str hab]; exact h3⟩, hab⟩

theorem setR_eff {r} (hr : LeafEq r) {c : LitCfg} {L₁ L₂ : List Ty} (h : SetR r L₁ L₂) : Eff c L₁ = Eff c L₂ := by
  apply eff_congr_lits
  · constructor
    · intro hs; obtain ⟨b, hb, hab⟩ := h.1 _ hs; rw [hr.strL hab] at hb; exact hb
    · intro hs; obtain ⟨a, ha, hab⟩ := h.2 _ hs; rw [hr.strR hab] at ha; exact ha
  · intro o vs
    constructor
    · intro hs; obtain ⟨b, hb, hab⟩ := h.1 _ hs; rw [hr.litL hab] at hb; exact hb
    · intro hs; obtain ⟨a, ha, hab⟩ := h.2 _ hs; rw [hr.litR hab] at ha; exact ha

/-- **`DUnion` respects "same members up to `r`"** (flat, hash-well-formed arguments) -/
theorem mkUM_congr_set {r} (hr : LeafEq r) {c : LitCfg} {L₁ L₂ : List Ty}
    (f₁ : FlatWF L₁) (f₂ : FlatWF L₂) (h : SetR r L₁ L₂) :
    SetR r (mkUnionMembers c L₁) (mkUnionMembers c L₂) :=
  mkUM_congr hr.refl f₁ f₂ (setR_NL hr h) (setR_eff hr h)

/-- `DUnion(*DUnion(*L).types)` has the members of `DUnion(*L)` -/
theorem mkUM_stable {c : LitCfg} {L : List Ty} (h : FlatWF L) :
    SetA (mkUnionMembers c L) (mkUnionMembers c (mkUnionMembers c L)) := by
  have hN : SetR ASim (NL L) (NL (mkUnionMembers c L)) :=
    SetA.symm (SetA.of_mem_iff (fun t => mem_NL_mkUM h))
  exact mkUM_congr (r := ASim) ASim.refl h (mkUM_flatWF h) hN (eff_mkUM h).symm

/-! ## normal literals and single members -/

/-- a `StringLiteral` as the generator builds it: overflowed and empty, or sorted, non-empty, within limits -/
def LitN (c : LitCfg) (o : Bool) (vs : List String) : Prop :=
  (o = true ∧ vs = []) ∨ (o = false ∧ vs ≠ [] ∧ vs.Pairwise (· < ·) ∧ ¬ Strings.Overflows c vs)

theorem unionVals_single_lit {vs : List String} (h : vs.Pairwise (· < ·)) :
    Strings.unionVals [.lit false vs] = vs := by
  apply Strings.sorted_ext (Strings.sorted_unionVals _) h
  intro s
  simp [Strings.mem_unionVals]

/-- a single non-union member that is not an overflowed literal is its own `DUnion` -/
theorem mem_mkUM_single {c : LitCfg} {d : Ty} (hu : d.isUnion = false) (hw : d.WFHash)
    (hov : d.isOvLit = false) (hl : ∀ vs, d = .lit false vs → LitN c false vs) {u : Ty} :
    u ∈ mkUnionMembers c [d] ↔ u = d := by
  have f : FlatWF [d] := ⟨by simpa using hu, by simpa using hw⟩
  by_cases hdl : d.isLit = true
  · cases d <;> simp [Ty.isLit] at hdl
    rename_i o vs
    cases o
    · rcases hl vs rfl with ⟨h, _⟩ | ⟨_, hne, hsort, hno⟩
      · cases h
      · have hE : Eff c [.lit false vs] = some vs := by
          rw [eff_some_iff, unionVals_single_lit hsort]
          exact ⟨by simp [Strings.useFinal, Strings.isKiller], hno, rfl⟩
        constructor
        · intro hm
          by_cases hul : u.isLit = true
          · cases u <;> simp [Ty.isLit] at hul
            rename_i o' vs'
            have := (lit_mem_mkUM_iff f).1 hm
            rw [hE] at this
            obtain ⟨h1, _, h3⟩ := this
            cases h1; subst h3; rfl
          · have hul' : u.isLit = false := by simpa using hul
            by_cases hus : u.isStr = true
            · cases u <;> simp [Ty.isStr] at hus
              have := (str_mem_mkUM_iff f).1 hm
              rw [hE] at this; cases this
            · have := (plain_mem_mkUM_iff f hul' (by simpa using hus)).1 hm
              simp at this; subst this; simp [Ty.isLit] at hul'
        · rintro rfl
          exact (lit_mem_mkUM_iff f).2 ⟨hE, hne, rfl⟩
    · simp [Ty.isOvLit] at hov
  · have hdl' : d.isLit = false := by simpa using hdl
    by_cases hds : d.isStr = true
    · cases d <;> simp [Ty.isStr] at hds
      have hE : Eff c [Ty.str] = none := by
        rw [eff_none_iff]; exact .inl (by simp [Strings.useFinal, Strings.isKiller])
      constructor
      · intro hm
        by_cases hul : u.isLit = true
        · cases u <;> simp [Ty.isLit] at hul
          have := (lit_mem_mkUM_iff f).1 hm
          rw [hE] at this; cases this.1
        · have hul' : u.isLit = false := by simpa using hul
          by_cases hus : u.isStr = true
          · cases u <;> simp [Ty.isStr] at hus; rfl
          · have := (plain_mem_mkUM_iff f hul' (by simpa using hus)).1 hm
            simpa using this
      · rintro rfl; exact (str_mem_mkUM_iff f).2 hE
    · have hds' : d.isStr = false := by simpa using hds
      have hE : Eff c [d] = some [] := by
        rw [eff_cons_plain hdl' hds', eff_some_iff]
        exact ⟨rfl, not_overflows_nil c, rfl⟩
      constructor
      · intro hm
        by_cases hul : u.isLit = true
        · cases u <;> simp [Ty.isLit] at hul
          have := (lit_mem_mkUM_iff f).1 hm
          rw [hE] at this
          obtain ⟨h1, h2, _⟩ := this
          cases h1; exact absurd rfl h2
        · have hul' : u.isLit = false := by simpa using hul
          by_cases hus : u.isStr = true
          · cases u <;> simp [Ty.isStr] at hus
            have := (str_mem_mkUM_iff f).1 hm
            rw [hE] at this; cases this
          · have := (plain_mem_mkUM_iff f hul' (by simpa using hus)).1 hm
            simpa using this
      · rintro rfl; exact (plain_mem_mkUM_iff f hdl' hds').2 (by simp)

/-! ## `collapse` -/

theorem unionMembers_collapse {us : List Ty} (h : ∀ u ∈ us, u.isUnion = false) :
    (collapse us).unionMembers = us := by
  unfold collapse
  split
  · rename_i x; exact unionMembers_of_nonunion (h x (by simp))
  · rfl

end J2M.Perm
