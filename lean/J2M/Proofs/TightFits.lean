/-
  C02 tightness: a witness only ever looks at the values its type structurally fits.
  `fits t v` — "value `v` has the JSON shape of type `t`" (no recursion into containers).
  `Wit acc a u t vs ↔ Wit acc a u t (vs.filter (fits t))`: in particular every union member is witnessed by the
  sub-list of the values that the member itself accepts structurally, and the type below an `Optional` that
  does not itself fit `null` is witnessed by the non-null values.
-/
import J2M.Proofs.TightDef
namespace J2M.C02T
open J2M

mutual
/-- `v` has the JSON shape of `t` -/
def fits : Ty → Json → Bool
  | .int, v => match v with | .int _ => true | _ => false
  | .float, v => match v with | .float _ => true | _ => false
  | .bool, v => match v with | .bool _ => true | _ => false
  | .null, v => match v with | .null => true | _ => false
  | .str, v | .ser _, v | .lit _ _, v => match v with | .str _ => true | _ => false
  | .list _, v => match v with | .arr _ => true | _ => false
  | .dict _, v | .obj _, v => match v with | .obj _ => true | _ => false
  | .opt t, v => (match v with | .null => true | _ => false) || fits t v
  | .union ts, v => fitsAny ts v
  | .unknown, _ | .tuple _, _ | .ptr _, _ => false
def fitsAny : List Ty → Json → Bool
  | [], _ => false
  | t :: ts, v => fits t v || fitsAny ts v
end

theorem fitsAny_of_mem {ts : List Ty} {m : Ty} {v : Json} (hm : m ∈ ts) (h : fits m v = true) :
    fitsAny ts v = true := by
  induction ts with
  | nil => cases hm
  | cons t ts ih =>
    simp only [fitsAny, Bool.or_eq_true]
    rcases List.mem_cons.1 hm with rfl | hm
    · exact .inl h
    · exact .inr (ih hm)

theorem mem_filter_of {P : Json → Bool} {vs : List Json} {v : Json} (hv : v ∈ vs) (hp : P v = true) :
    v ∈ vs.filter P := List.mem_filter.2 ⟨hv, hp⟩

mutual
theorem wit_fits_aux {acc : Accepts} : ∀ (t : Ty) {a u : Prop} {vs : List Json} (P : Json → Bool),
    (∀ v, fits t v = true → P v = true) → Wit acc a u t vs → Wit acc a u t (vs.filter P)
  | .int, _, _, _, P, hP, h => by
    simp only [Wit] at h ⊢; obtain ⟨i, hi⟩ := h; exact ⟨i, mem_filter_of hi (hP _ (by simp [fits]))⟩
  | .float, _, _, _, P, hP, h => by
    simp only [Wit] at h ⊢; obtain ⟨i, hi⟩ := h; exact ⟨i, mem_filter_of hi (hP _ (by simp [fits]))⟩
  | .bool, _, _, _, P, hP, h => by
    simp only [Wit] at h ⊢; obtain ⟨i, hi⟩ := h; exact ⟨i, mem_filter_of hi (hP _ (by simp [fits]))⟩
  | .null, _, _, _, P, hP, h => by
    simp only [Wit] at h ⊢; exact mem_filter_of h (hP _ (by simp [fits]))
  | .str, _, _, _, P, hP, h => by
    simp only [Wit] at h ⊢; obtain ⟨i, hi⟩ := h; exact ⟨i, mem_filter_of hi (hP _ (by simp [fits]))⟩
  | .unknown, _, _, _, _, _, h => by simp only [Wit] at h ⊢; exact h
  | .ser k, _, _, _, P, hP, h => by
    simp only [Wit] at h ⊢; obtain ⟨s, hi, ha⟩ := h; exact ⟨s, mem_filter_of hi (hP _ (by simp [fits])), ha⟩
  | .lit true _, _, _, _, P, hP, h => by
    simp only [Wit] at h ⊢; obtain ⟨i, hi⟩ := h; exact ⟨i, mem_filter_of hi (hP _ (by simp [fits]))⟩
  | .lit false ws, _, _, _, P, hP, h => by
    simp only [Wit] at h ⊢
    exact ⟨h.1, fun w hw => mem_filter_of (h.2 w hw) (hP _ (by simp [fits]))⟩
  | .opt t, _, _, _, P, hP, h => by
    simp only [Wit] at h ⊢
    refine ⟨h.1.elim .inl (fun x => .inr (mem_filter_of x (hP _ (by simp [fits])))), ?_⟩
    exact wit_fits_aux t P (fun v hv => hP v (by simp [fits, hv])) h.2
  | .union ts, _, _, _, P, hP, h => by
    simp only [Wit] at h ⊢
    exact ⟨h.1, witAll_fits_aux ts P (fun m hm v hv => hP v (by simp only [fits]; exact fitsAny_of_mem hm hv)) h.2⟩
  | .list t, _, _, vs, P, hP, h => by
    simp only [Wit] at h ⊢
    refine Wit.mono t id (fun hx => mem_filter_of hx (hP _ (by simp [fits]))) ?_ h
    intro x hx
    obtain ⟨xs, hxs, hm⟩ := mem_elemsOf.1 hx
    exact mem_elemsOf.2 ⟨xs, mem_filter_of hxs (hP _ (by simp [fits])), hm⟩
  | .dict t, _, _, vs, P, hP, h => by
    simp only [Wit] at h ⊢
    refine Wit.mono t id (fun hx => mem_filter_of hx (hP _ (by simp [fits]))) ?_ h
    intro x hx
    obtain ⟨kvs, hkvs, hm⟩ := mem_valsOf.1 hx
    exact mem_valsOf.2 ⟨kvs, mem_filter_of hkvs (hP _ (by simp [fits])), hm⟩
  | .obj fs, _, _, vs, P, hP, h => by
    rw [wit_obj] at h ⊢
    have hobj : ∀ kvs, Json.obj kvs ∈ vs → Json.obj kvs ∈ vs.filter P :=
      fun kvs hm => mem_filter_of hm (hP _ (by simp [fits]))
    refine ⟨?_, fun kv hkv => ?_⟩
    · obtain ⟨kvs, hm, hk⟩ := h.1
      exact ⟨kvs, hobj _ hm, hk⟩
    · refine Wit.mono kv.2 ?_ id ?_ (h.2 kv hkv)
      · rintro ⟨kvs, hm, hk⟩; exact ⟨kvs, hobj _ hm, hk⟩
      · intro x hx
        obtain ⟨kvs, hm, hk⟩ := mem_fieldVals.1 hx
        exact mem_fieldVals.2 ⟨kvs, hobj _ hm, hk⟩
  | .tuple _, _, _, _, _, _, h => by simp only [Wit] at h
  | .ptr _, _, _, _, _, _, h => by simp only [Wit] at h
theorem witAll_fits_aux {acc : Accepts} : ∀ (ts : List Ty) {vs : List Json} (P : Json → Bool),
    (∀ m ∈ ts, ∀ v, fits m v = true → P v = true) → WitAll acc ts vs → WitAll acc ts (vs.filter P)
  | [], _, _, _, _ => by simp only [WitAll]
  | t :: ts, _, P, hP, h => by
    simp only [WitAll] at h ⊢
    exact ⟨wit_fits_aux t P (hP t (List.mem_cons_self ..)) h.1,
      witAll_fits_aux ts P (fun m hm => hP m (List.mem_cons_of_mem _ hm)) h.2⟩
end

/-- a witness is a witness by the values that structurally fit the type -/
theorem wit_fits {acc : Accepts} {a u : Prop} {t : Ty} {vs : List Json} :
    Wit acc a u t vs ↔ Wit acc a u t (vs.filter (fits t)) :=
  ⟨wit_fits_aux t _ (fun _ h => h), Wit.mono t id id (fun _ hv => (List.mem_filter.1 hv).1)⟩

/-- every union member is witnessed by the sub-list of the values it structurally accepts -/
theorem wit_union_routed {acc : Accepts} {a u : Prop} {ts : List Ty} {vs : List Json}
    (h : Wit acc a u (.union ts) vs) : ∀ m ∈ ts, Wit acc False False m (vs.filter (fits m)) :=
  fun m hm => wit_fits.1 ((wit_union.1 h).2 m hm)

/-- below an `Optional`, a type that does not itself fit `null` is witnessed by the non-null values -/
theorem wit_opt_nonnull {acc : Accepts} {a u : Prop} {t : Ty} {vs : List Json}
    (h : Wit acc a u (.opt t) vs) (hn : fits t .null = false) :
    Wit acc a u t (vs.filter (fun v => match v with | .null => false | _ => true)) := by
  simp only [Wit] at h
  refine wit_fits_aux t _ ?_ h.2
  intro v hv
  cases v <;> simp_all

end J2M.C02T
