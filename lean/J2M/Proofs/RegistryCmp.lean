/-
  Registry-level development, part 4: the comparators (`ModelFieldsEquals`, `ModelFieldsPercentMatch`,
  `ModelFieldsNumberMatch`, the table comparator of the harness), `_models_cmp_fn` and the similarity table.
-/
import J2M.Registry
import J2M.Proofs.Names
namespace J2M.Reg
open J2M

/-! ## duplicate-free lists with the same members have the same length -/

theorem length_le_of_subset' : ∀ (a b : List String), a.Nodup → (∀ x ∈ a, x ∈ b) → a.length ≤ b.length
  | [], _, _, _ => Nat.zero_le _
  | x :: a, b, nd, sub => by
    have hnd := List.nodup_cons.mp nd
    have hx : x ∈ b := sub x (List.mem_cons_self)
    have ih := length_le_of_subset' a (b.erase x) hnd.2 (by
      intro y hy
      have hne : y ≠ x := fun e => hnd.1 (e ▸ hy)
      exact (List.mem_erase_of_ne hne).mpr (sub y (List.mem_cons_of_mem _ hy)))
    have hl := List.length_erase_of_mem hx
    have hpos : 0 < b.length := List.length_pos_of_mem hx
    simp only [List.length_cons]
    omega

theorem length_eq_of_same_mem {a b : List String} (na : a.Nodup) (nb : b.Nodup) (h : ∀ x, x ∈ a ↔ x ∈ b) :
    a.length = b.length :=
  Nat.le_antisymm (length_le_of_subset' a b na (fun x hx => (h x).1 hx))
    (length_le_of_subset' b a nb (fun x hx => (h x).2 hx))

theorem keySetInter_comm (a b : List String) : keySetInter a b = keySetInter b a := by
  unfold keySetInter
  apply length_eq_of_same_mem
  · exact (NamesP.nodup_eraseDups a).sublist List.filter_sublist
  · exact (NamesP.nodup_eraseDups b).sublist List.filter_sublist
  · intro x
    simp only [List.mem_filter, List.mem_eraseDups, List.contains_eq_mem, decide_eq_true_eq]
    exact And.comm

theorem keySetUnion_comm (a b : List String) : keySetUnion a b = keySetUnion b a := by
  unfold keySetUnion
  apply length_eq_of_same_mem (NamesP.nodup_eraseDups _) (NamesP.nodup_eraseDups _)
  intro x
  simp only [List.mem_eraseDups, List.mem_append]
  exact Or.comm

/-- the size of the key-set intersection / union, as sets -/
theorem mem_inter_iff {a b : List String} {x : String} :
    x ∈ a.eraseDups.filter (fun k => b.contains k) ↔ x ∈ a ∧ x ∈ b := by
  simp [List.mem_filter, List.mem_eraseDups]

theorem keySetUnion_eq_zero {a b : List String} : keySetUnion a b = 0 ↔ a = [] ∧ b = [] := by
  unfold keySetUnion
  rw [List.length_eq_zero_iff]
  constructor
  · intro h
    have hm : ∀ x, x ∉ a ++ b := fun x hx => by
      have : x ∈ (a ++ b).eraseDups := List.mem_eraseDups.2 hx
      rw [h] at this; simp at this
    constructor
    · cases a with
      | nil => rfl
      | cons x _ => exact absurd (by simp) (hm x)
    · cases b with
      | nil => rfl
      | cons x _ => exact absurd (by simp) (hm x)
  · rintro ⟨rfl, rfl⟩; rfl

/-! ## `cmp_symmetric` -/

/-- **cmp_symmetric**: every comparator gives the same answer (value or exception) for `(a, b)` and `(b, a)` -/
theorem cmp_symmetric (c : Cmp) (a b : List String) : c.holds a b = c.holds b a := by
  cases c with
  | exact => simp only [Cmp.holds, Bool.and_comm]
  | percent num den => simp only [Cmp.holds, keySetUnion_comm a b, keySetInter_comm a b]
  | number n => simp only [Cmp.holds, keySetInter_comm a b]
  | table edges => simp only [Cmp.holds, Bool.or_comm]

theorem modelsCmp_symmetric (cmps : List Cmp) (a b : List String) : modelsCmp cmps a b = modelsCmp cmps b a := by
  unfold modelsCmp
  congr 1
  funext acc c
  rw [cmp_symmetric]

/-! ## what each comparator decides -/

theorem exact_holds_true (a b : List String) :
    Cmp.exact.holds a b = .ok true ↔ ∀ k, k ∈ a ↔ k ∈ b := by
  simp only [Cmp.holds, pure, Except.pure, Except.ok.injEq, Bool.and_eq_true, List.all_eq_true,
    List.contains_eq_mem, decide_eq_true_eq]
  constructor
  · rintro ⟨h1, h2⟩ k; exact ⟨h1 k, h2 k⟩
  · intro h; exact ⟨fun k hk => (h k).1 hk, fun k hk => (h k).2 hk⟩

theorem exact_holds_ok (a b : List String) : ∃ v, Cmp.exact.holds a b = .ok v := ⟨_, rfl⟩

theorem table_holds (edges : List (String × String)) (a b : List String) :
    (Cmp.table edges).holds a b =
      .ok (edges.contains (a.headD "", b.headD "") || edges.contains (b.headD "", a.headD "")) := rfl

theorem number_holds (n : Nat) (a b : List String) :
    (Cmp.number n).holds a b = .ok (decide (keySetInter a b ≥ n)) := rfl

theorem percent_holds (num den : Nat) (a b : List String) :
    (Cmp.percent num den).holds a b =
      if a = [] ∧ b = [] then .error .zeroDivision
      else .ok (decide (keySetInter a b * den ≥ num * keySetUnion a b)) := by
  simp only [Cmp.holds, pure, Except.pure]
  by_cases h : keySetUnion a b = 0
  · rw [if_pos h, if_pos (keySetUnion_eq_zero.1 h)]
  · rw [if_neg h, if_neg (fun h' => h (keySetUnion_eq_zero.2 h'))]

/-- a comparator raises only in one case: `ModelFieldsPercentMatch` on two empty key sets -/
theorem holds_error_iff {c : Cmp} {a b : List String} {e : PyErr} :
    c.holds a b = .error e ↔ (∃ num den, c = .percent num den) ∧ a = [] ∧ b = [] ∧ e = .zeroDivision := by
  cases c with
  | exact => simp [Cmp.holds, pure, Except.pure]
  | number n => simp [Cmp.holds, pure, Except.pure]
  | table edges => simp [Cmp.holds, pure, Except.pure]
  | percent num den =>
    rw [percent_holds]
    by_cases h : a = [] ∧ b = []
    · rw [if_pos h]
      constructor
      · intro h'; injection h' with h'; exact ⟨⟨num, den, rfl⟩, h.1, h.2, h'.symm⟩
      · rintro ⟨_, _, _, rfl⟩; rfl
    · rw [if_neg h]
      constructor
      · intro h'; cases h'
      · rintro ⟨_, h1, h2, _⟩; exact absurd ⟨h1, h2⟩ h

/-! ## `cmp_any`: `any(cmp.cmp(a, b) for cmp in cmps)` -/

theorem modelsCmp_go_true (cmps : List Cmp) (a b : List String) :
    cmps.foldlM (fun acc c => if acc then pure true else c.holds a b) true = (.ok true : Except PyErr Bool) := by
  induction cmps with
  | nil => rfl
  | cons c cs ih => rw [List.foldlM_cons]; simpa [bind, Except.bind, pure, Except.pure] using ih

theorem modelsCmp_nil (a b : List String) : modelsCmp [] a b = .ok false := rfl

theorem modelsCmp_cons (c : Cmp) (cs : List Cmp) (a b : List String) :
    modelsCmp (c :: cs) a b =
      match c.holds a b with
      | .ok true => .ok true
      | .ok false => modelsCmp cs a b
      | .error e => .error e := by
  unfold modelsCmp
  rw [List.foldlM_cons]
  simp only [Bool.false_eq_true, if_false, bind, Except.bind]
  cases c.holds a b with
  | error e => rfl
  | ok v => cases v with
    | true => exact modelsCmp_go_true cs a b
    | false => rfl

/-- **cmp_any** (value `True`): some comparator says `True` and every comparator before it said `False`
    (none of them raised) -/
theorem cmp_any_true {cmps : List Cmp} {a b : List String} :
    modelsCmp cmps a b = .ok true ↔
      ∃ pre c post, cmps = pre ++ c :: post ∧ (∀ d ∈ pre, d.holds a b = .ok false) ∧ c.holds a b = .ok true := by
  induction cmps with
  | nil => simp [modelsCmp_nil]
  | cons c cs ih =>
    rw [modelsCmp_cons]
    cases hc : c.holds a b with
    | error e =>
      simp only [reduceCtorEq, false_iff]
      rintro ⟨pre, c', post, heq, hpre, hc'⟩
      cases pre with
      | nil => simp at heq; rw [← heq.1, hc] at hc'; cases hc'
      | cons p pre => simp at heq; have := hpre p (by simp); rw [← heq.1, hc] at this; cases this
    | ok v =>
      cases v with
      | true =>
        simp only [true_iff]
        exact ⟨[], c, cs, rfl, by simp, hc⟩
      | false =>
        simp only [ih]
        constructor
        · rintro ⟨pre, c', post, rfl, hpre, hc'⟩
          refine ⟨c :: pre, c', post, rfl, ?_, hc'⟩
          intro d hd
          rcases List.mem_cons.1 hd with rfl | hd
          · exact hc
          · exact hpre d hd
        · rintro ⟨pre, c', post, heq, hpre, hc'⟩
          cases pre with
          | nil => simp at heq; rw [← heq.1, hc] at hc'; cases hc'
          | cons p pre =>
            simp at heq
            exact ⟨pre, c', post, heq.2, fun d hd => hpre d (List.mem_cons_of_mem _ hd), hc'⟩

/-- **cmp_any** (value `False`): every comparator says `False` -/
theorem cmp_any_false {cmps : List Cmp} {a b : List String} :
    modelsCmp cmps a b = .ok false ↔ ∀ c ∈ cmps, c.holds a b = .ok false := by
  induction cmps with
  | nil => simp [modelsCmp_nil]
  | cons c cs ih =>
    rw [modelsCmp_cons]
    cases hc : c.holds a b with
    | error e => simp [hc]
    | ok v =>
      cases v with
      | true => simp [hc]
      | false => simp [hc, ih]

/-- **cmp_any** (exception): a comparator raises and every comparator before it said `False`; by
    `holds_error_iff` that comparator is a `ModelFieldsPercentMatch`, both key sets are empty and the exception
    is `ZeroDivisionError`.  (A `True` before it hides the exception: `any` short-circuits.) -/
theorem cmp_any_error {cmps : List Cmp} {a b : List String} {e : PyErr} :
    modelsCmp cmps a b = .error e ↔
      ∃ pre c post, cmps = pre ++ c :: post ∧ (∀ d ∈ pre, d.holds a b = .ok false) ∧ c.holds a b = .error e := by
  induction cmps with
  | nil => simp [modelsCmp_nil]
  | cons c cs ih =>
    rw [modelsCmp_cons]
    cases hc : c.holds a b with
    | error e' =>
      constructor
      · intro h; injection h with h; subst h; exact ⟨[], c, cs, rfl, by simp, hc⟩
      · rintro ⟨pre, c', post, heq, hpre, hc'⟩
        cases pre with
        | nil => simp at heq; rw [← heq.1, hc] at hc'; exact hc'
        | cons p pre => simp at heq; have := hpre p (by simp); rw [← heq.1, hc] at this; cases this
    | ok v =>
      cases v with
      | true =>
        simp only [reduceCtorEq, false_iff]
        rintro ⟨pre, c', post, heq, hpre, hc'⟩
        cases pre with
        | nil => simp at heq; rw [← heq.1, hc] at hc'; cases hc'
        | cons p pre => simp at heq; have := hpre p (by simp); rw [← heq.1, hc] at this; cases this
      | false =>
        simp only [ih]
        constructor
        · rintro ⟨pre, c', post, rfl, hpre, hc'⟩
          refine ⟨c :: pre, c', post, rfl, ?_, hc'⟩
          intro d hd
          rcases List.mem_cons.1 hd with rfl | hd
          · exact hc
          · exact hpre d hd
        · rintro ⟨pre, c', post, heq, hpre, hc'⟩
          cases pre with
          | nil => simp at heq; rw [← heq.1, hc] at hc'; cases hc'
          | cons p pre =>
            simp at heq
            exact ⟨pre, c', post, heq.2, fun d hd => hpre d (List.mem_cons_of_mem _ hd), hc'⟩

/-- the Boolean answer of a comparator that does not raise -/
def holdsB (c : Cmp) (a b : List String) : Bool := match c.holds a b with | .ok true => true | _ => false

/-- when no comparator can raise on `(a, b)` (one of the key sets is non-empty): plain `any` -/
theorem cmp_any_of_no_error {cmps : List Cmp} {a b : List String} (hne : ¬ (a = [] ∧ b = [])) :
    modelsCmp cmps a b = .ok (cmps.any (fun c => holdsB c a b)) := by
  induction cmps with
  | nil => rfl
  | cons c cs ih =>
    rw [modelsCmp_cons, List.any_cons]
    unfold holdsB
    cases hc : c.holds a b with
    | error e => exact absurd ⟨(holds_error_iff.1 hc).2.1, (holds_error_iff.1 hc).2.2.1⟩ hne
    | ok v =>
      cases v with
      | true => simp
      | false => rw [ih]; simp [holdsB]


/-! ## the similarity table -/

theorem mapM_getElem {α β ε} {f : α → Except ε β} :
    ∀ (xs : List α) (l : List β), xs.mapM f = .ok l →
      l.length = xs.length ∧ ∀ i (h : i < xs.length) (h' : i < l.length), f xs[i] = .ok l[i]
  | [], l, h => by
    simp only [List.mapM_nil, pure, Except.pure, Except.ok.injEq] at h
    subst h; simp
  | x :: xs, l, h => by
    rw [List.mapM_cons] at h
    simp only [bind, Except.bind] at h
    split at h
    · simp at h
    · rename_i y hy
      split at h
      · simp at h
      · rename_i ys hys
        simp only [pure, Except.pure, Except.ok.injEq] at h
        subst h
        obtain ⟨hl, hget⟩ := mapM_getElem xs ys hys
        refine ⟨by simp [hl], ?_⟩
        intro i hi hi'
        cases i with
        | zero => simpa using hy
        | succ i => simpa using hget i (by simpa using hi) (by simpa using hi')

/-- the key list of the model at registry position `p` -/
def keysAt (g : Graph) (p : Nat) : List String := (g.models.map (fun m => m.fields.keys)).getD p []

/-- **the table holds `_models_cmp_fn` of every pair of positions `i < j`** (evaluated on the key lists the
    models have when `merge_models` starts) -/
theorem simTable_spec {cmps : List Cmp} {g : Graph} {tbl : List (List Bool)} (h : simTable cmps g = .ok tbl)
    {i j : Nat} (hij : i < j) (hj : j < g.models.length) :
    modelsCmp cmps (keysAt g i) (keysAt g j) = .ok ((tbl.getD i []).getD j false) := by
  unfold simTable at h
  simp only [List.length_map] at h
  obtain ⟨hl, hrow⟩ := mapM_getElem _ _ h
  simp only [List.length_range] at hl hrow
  have hi : i < g.models.length := Nat.lt_trans hij hj
  have hr := hrow i hi (by omega)
  simp only [List.getElem_range] at hr
  obtain ⟨hl2, hcell⟩ := mapM_getElem _ _ hr
  simp only [List.length_range] at hl2 hcell
  have hc := hcell j hj (by omega)
  simp only [List.getElem_range, hij, if_true] at hc
  have e1 : tbl.getD i [] = tbl[i]'(by omega) := by simp [List.getD, show i < tbl.length by omega]
  have e2 : (tbl[i]'(by omega)).getD j false = (tbl[i]'(by omega))[j]'(by omega) := by
    simp [List.getD, show j < (tbl[i]'(by omega)).length by omega]
  rw [e1, e2]
  exact hc

/-- if the table could be built, no pair raised -/
theorem simTable_total {cmps : List Cmp} {g : Graph} {tbl : List (List Bool)} (h : simTable cmps g = .ok tbl)
    {i j : Nat} (hi : i < g.models.length) (hj : j < g.models.length) (hij : i ≠ j) :
    ∃ v, modelsCmp cmps (keysAt g i) (keysAt g j) = .ok v := by
  rcases Nat.lt_or_gt_of_ne hij with h' | h'
  · exact ⟨_, simTable_spec h h' hj⟩
  · rw [modelsCmp_symmetric]; exact ⟨_, simTable_spec h h' hi⟩

end J2M.Reg
