/-
  C01 helpers, part 9: generator-stage types (`Ty.Good K`) are well-formed for the hash-string
  injectivity theorem (`J2M/Proofs/HashInj.lean`) as soon as every kind name allowed by `K` is a
  well-formed class name; hence hash strings are sound on them.
-/
import J2M.Proofs.Inh
import J2M.Proofs.HashInj
namespace J2M

theorem Ty.size_le_sizeList {ts : List Ty} {t : Ty} (h : t ∈ ts) : t.size ≤ Ty.sizeList ts := by
  induction ts with
  | nil => simp at h
  | cons a ts ih =>
    rcases List.mem_cons.1 h with e | h
    · subst e; simp [Ty.sizeList]
    · have := ih h; simp [Ty.sizeList]; omega

theorem Ty.size_le_sizeFields {fs : List (String × Ty)} {f : String × Ty} (h : f ∈ fs) :
    f.2.size ≤ Ty.sizeFields fs := by
  induction fs with
  | nil => simp at h
  | cons a fs ih =>
    obtain ⟨ka, ta⟩ := a
    rcases List.mem_cons.1 h with e | h
    · subst e; simp [Ty.sizeFields]
    · have := ih h; simp [Ty.sizeFields]; omega

theorem Ty.Good.toWFHash {K : String → Prop} (hK : ∀ k, K k → wfSerName k = true) {t : Ty}
    (h : Ty.Good K t) : t.WFHash := by
  have key : ∀ n (t : Ty), t.size ≤ n → Ty.Good K t → wfHash t = true := by
    intro n
    induction n with
    | zero => intro t ht; cases t <;> simp [Ty.size] at ht
    | succ n ih =>
      intro t ht h
      cases t <;> try (simp [J2M.wfHash]; done)
      case ser k => simpa [J2M.wfHash] using hK k (by simpa using h)
      case lit o vs =>
        simp only [Ty.good_lit] at h
        cases o <;> simp_all [J2M.wfHash]
      case list x => simp only [J2M.wfHash]; exact ih x (by simp [Ty.size] at ht; omega) (by simpa using h)
      case dict x => simp only [J2M.wfHash]; exact ih x (by simp [Ty.size] at ht; omega) (by simpa using h)
      case opt x => simp only [J2M.wfHash]; exact ih x (by simp [Ty.size] at ht; omega) (by simpa using h)
      case union ts =>
        simp only [J2M.wfHash, wfHashs_iff]
        intro u hu
        have := Ty.size_le_sizeList hu
        exact ih u (by simp [Ty.size] at ht; omega) (Ty.good_union.1 h u hu)
      case tuple ts => simp at h
      case ptr i => simp at h
      case obj fs =>
        simp only [J2M.wfHash, wfHashF_iff]
        intro f hf
        have := Ty.size_le_sizeFields hf
        exact ih f.2 (by simp [Ty.size] at ht; omega) ((Ty.good_obj.1 h).2 f hf)
  exact key t.size t (Nat.le_refl _) h

/-- hash strings are sound (for either relation) on generator-stage types with well-formed kind names -/
theorem hashSoundOn_good {ov : Bool} {acc : Accepts} {g : ModelLookup} {K : String → Prop}
    (hK : ∀ k, K k → wfSerName k = true) : HashSoundOn ov acc g (Ty.Good K) :=
  HashSoundOn.of_inj (fun a b ha hb e => HashInj.hashStr_inj_core a b (ha.toWFHash hK) (hb.toWFHash hK) e)

end J2M
