/-
  `renderLevel`: inversion, frame properties of the name map, rendering from a fixed point of the conversion, and
  the comparison of a first rendering with the rendering from the final names.
-/
import J2M.Proofs.Render2Class
namespace J2M.Rend2

/-! ## 7. layout trees -/

def nodeIdx : Node → String | .mk i _ => i
def nodeNested : Node → List Node | .mk _ ns => ns

mutual
/-- the indices of a layout tree in the order in which their generators are created (children first) -/
def post : Node → List String
  | .mk idx nested => postL nested ++ [idx]
def postL : List Node → List String
  | [] => []
  | n :: ns => post n ++ postL ns
end

@[simp] theorem postL_nil : postL [] = [] := by simp [postL]
@[simp] theorem postL_cons (idx : String) (nested rest : List Node) :
    postL (.mk idx nested :: rest) = postL nested ++ [idx] ++ postL rest := by simp [postL, post]

theorem postL_flat (l : List String) : postL (l.map (fun i => Node.mk i [])) = l := by
  induction l with
  | nil => simp
  | cons x xs ih => simp [ih]

/-- the model record handed to `genClass` for index `i` -/
def modelAt (g : Graph) (names : NameMap) (i : String) : Model :=
  { (g.find? i).getD default with name := lookup names i }

/-- rendering the classes whose generators were created by one call of `_generate_code` -/
def renderGens (c : RenderCfg) (o : RenderOracles) (g : Graph) (inj : List (String × String)) (names : NameMap)
    (gens : List (String × List String)) : Except PyErr (List (List Imp × String)) :=
  gens.mapM (fun (p : String × List String) => genClass c o ⟨names, inj⟩ (modelAt g names p.1) p.2)

theorem bind_eq_ok {α β : Type} {x : Except PyErr α} {f : α → Except PyErr β} {b : β} :
    (x >>= f) = .ok b ↔ ∃ a, x = .ok a ∧ f a = .ok b := by
  cases x with
  | error e => simp [bind, Except.bind]
  | ok a => simp [bind, Except.bind]

theorem renderLevel_nil (c : RenderCfg) (o : RenderOracles) (g : Graph) (inj : List (String × String)) (fuel : Nat)
    (names : NameMap) : renderLevel c o g inj (fuel + 1) names [] = .ok (names, [], []) := by
  simp [renderLevel, pure, Except.pure]

theorem renderLevel_cons (c : RenderCfg) (o : RenderOracles) (g : Graph) (inj : List (String × String)) (fuel : Nat)
    (names : NameMap) (idx : String) (nested rest : List Node) :
    renderLevel c o g inj (fuel + 1) names (.mk idx nested :: rest) =
      (renderLevel c o g inj fuel names nested >>= fun r1 =>
        renderGens c o g inj r1.1 r1.2.2 >>= fun rs =>
        convertNameAt c o r1.1 idx >>= fun names2 =>
        renderLevel c o g inj fuel names2 rest >>= fun r3 =>
        pure (r3.1, r1.2.1 ++ rs.flatMap (·.1) ++ r3.2.1, (idx, rs.map (·.2)) :: r3.2.2)) := by
  simp only [renderLevel]
  rfl

theorem renderLevel_cons_ok {c : RenderCfg} {o : RenderOracles} {g : Graph} {inj : List (String × String)} {fuel : Nat}
    {names : NameMap} {idx : String} {nested rest : List Node} {res : NameMap × List Imp × List (String × List String)} :
    renderLevel c o g inj (fuel + 1) names (.mk idx nested :: rest) = .ok res ↔
      ∃ N1 imps1 gens1 rs N2 N' imps3 restR,
        renderLevel c o g inj fuel names nested = .ok (N1, imps1, gens1) ∧
        renderGens c o g inj N1 gens1 = .ok rs ∧
        convertNameAt c o N1 idx = .ok N2 ∧
        renderLevel c o g inj fuel N2 rest = .ok (N', imps3, restR) ∧
        res = (N', imps1 ++ rs.flatMap (·.1) ++ imps3, (idx, rs.map (·.2)) :: restR) := by
  rw [renderLevel_cons]
  simp only [bind_eq_ok]
  constructor
  · rintro ⟨⟨N1, imps1, gens1⟩, h1, rs, h2, N2, h3, ⟨N', imps3, restR⟩, h4, h5⟩
    refine ⟨N1, imps1, gens1, rs, N2, N', imps3, restR, h1, h2, h3, h4, ?_⟩
    simp only [pure, Except.pure] at h5
    injection h5 with h5; exact h5.symm
  · rintro ⟨N1, imps1, gens1, rs, N2, N', imps3, restR, h1, h2, h3, h4, h5⟩
    exact ⟨(N1, imps1, gens1), h1, rs, h2, N2, h3, (N', imps3, restR), h4, by subst h5; rfl⟩

/-! ## 8. what `renderLevel` does to the name map -/

/-- a successful `renderLevel`: the keys are kept, names outside the tree are untouched, every index of the tree
    ends with a name produced by `convertClassName`, and one generator per node is returned -/
theorem renderLevel_frame (c : RenderCfg) (o : RenderOracles) (g : Graph) (inj : List (String × String)) :
    ∀ (fuel : Nat) (N : NameMap) (nodes : List Node) (N' : NameMap) (imps : List Imp) (gens : List (String × List String)),
      renderLevel c o g inj fuel N nodes = .ok (N', imps, gens) →
      N'.map (·.1) = N.map (·.1) ∧
      (∀ j, j ∉ postL nodes → lookup N' j = lookup N j) ∧
      (∀ i ∈ postL nodes, ∃ n₀ n, convertClassName c o n₀ = .ok n ∧ lookup N' i = some n) ∧
      gens.map (·.1) = nodes.map nodeIdx := by
  intro fuel
  induction fuel with
  | zero => intro N nodes N' imps gens h; simp [renderLevel] at h
  | succ fuel ih =>
    intro N nodes N' imps gens h
    cases nodes with
    | nil =>
      rw [renderLevel_nil] at h
      injection h with h; injection h with h1 h2; injection h2 with h2 h3
      subst h1; subst h3
      simp
    | cons n rest =>
      obtain ⟨idx, nested⟩ := n
      rw [renderLevel_cons_ok] at h
      obtain ⟨N1, imps1, gens1, rs, N2, N'', imps3, restR, h1, _, h3, h4, h5⟩ := h
      injection h5 with e1 e2; injection e2 with e2 e3
      subst e1; subst e3
      obtain ⟨k1, f1, c1, _⟩ := ih _ _ _ _ _ h1
      obtain ⟨k4, f4, c4, g4⟩ := ih _ _ _ _ _ h4
      obtain ⟨n, n', hl, hc, rfl⟩ := convertNameAt_ok h3
      refine ⟨by rw [k4, set_keys, k1], ?_, ?_, by simp [g4, nodeIdx]⟩
      · intro j hj
        simp only [postL_cons, List.mem_append, List.mem_singleton, not_or] at hj
        rw [f4 j hj.2, lookup_set_ne _ _ hj.1.2, f1 j hj.1.1]
      · -- every index of the tree ends with a converted name
        have hidx : ∃ n₀ n, convertClassName c o n₀ = .ok n ∧ lookup N' idx = some n := by
          by_cases hr : idx ∈ postL rest
          · exact c4 idx hr
          · refine ⟨n, n', hc, ?_⟩
            rw [f4 idx hr, lookup_set_self, any_of_lookup hl]; rfl
        intro i hi
        simp only [postL_cons, List.mem_append, List.mem_singleton] at hi
        by_cases hr : i ∈ postL rest
        · exact c4 i hr
        · by_cases hx : i = idx
          · subst hx; exact hidx
          · rcases hi with (hi | hi) | hi
            · obtain ⟨a, b, hab, hl1⟩ := c1 i hi
              exact ⟨a, b, hab, by rw [f4 i hr, lookup_set_ne _ _ hx, hl1]⟩
            · exact absurd hi hx
            · exact absurd hi hr

/-! ## 9. rendering with one fixed name map -/

/-- `_generate_code` when every class is rendered with the names `F` (no name is converted) -/
def renderPure (c : RenderCfg) (o : RenderOracles) (g : Graph) (inj : List (String × String)) (F : NameMap) :
    Nat → List Node → Except PyErr (List Imp × List (String × List String))
  | 0, _ => .error .outOfFuel
  | _, [] => pure ([], [])
  | fuel + 1, .mk idx nested :: rest => do
    let r1 ← renderPure c o g inj F fuel nested
    let rs ← renderGens c o g inj F r1.2
    let r3 ← renderPure c o g inj F fuel rest
    pure (r1.1 ++ rs.flatMap (·.1) ++ r3.1, (idx, rs.map (·.2)) :: r3.2)

theorem renderPure_cons_ok {c : RenderCfg} {o : RenderOracles} {g : Graph} {inj : List (String × String)} {F : NameMap}
    {fuel : Nat} {idx : String} {nested rest : List Node} {res : List Imp × List (String × List String)} :
    renderPure c o g inj F (fuel + 1) (.mk idx nested :: rest) = .ok res ↔
      ∃ imps1 gens1 rs imps3 restR,
        renderPure c o g inj F fuel nested = .ok (imps1, gens1) ∧
        renderGens c o g inj F gens1 = .ok rs ∧
        renderPure c o g inj F fuel rest = .ok (imps3, restR) ∧
        res = (imps1 ++ rs.flatMap (·.1) ++ imps3, (idx, rs.map (·.2)) :: restR) := by
  simp only [renderPure, bind_eq_ok]
  constructor
  · rintro ⟨⟨imps1, gens1⟩, h1, rs, h2, ⟨imps3, restR⟩, h4, h5⟩
    refine ⟨imps1, gens1, rs, imps3, restR, h1, h2, h4, ?_⟩
    simp only [pure, Except.pure] at h5
    injection h5 with h5; exact h5.symm
  · rintro ⟨imps1, gens1, rs, imps3, restR, h1, h2, h4, h5⟩
    exact ⟨(imps1, gens1), h1, rs, h2, (imps3, restR), h4, by subst h5; rfl⟩

/-- `FixedOn c o F is`: creating the generator of any `i ∈ is` leaves the name map `F` as it is -/
def FixedOn (c : RenderCfg) (o : RenderOracles) (F : NameMap) (is : List String) : Prop :=
  ∀ i ∈ is, convertNameAt c o F i = .ok F

/-- **renderLevel_fixed**: from a name map that is a fixed point of the conversions, `renderLevel` returns the same
    name map, and renders every class with it -/
theorem renderLevel_fixed (c : RenderCfg) (o : RenderOracles) (g : Graph) (inj : List (String × String)) (F : NameMap) :
    ∀ (fuel : Nat) (nodes : List Node), FixedOn c o F (postL nodes) →
      renderLevel c o g inj fuel F nodes = (renderPure c o g inj F fuel nodes).map (fun r => (F, r.1, r.2)) := by
  intro fuel
  induction fuel with
  | zero => intro nodes _; simp [renderLevel, renderPure, Except.map]
  | succ fuel ih =>
    intro nodes hfix
    cases nodes with
    | nil => simp [renderLevel, renderPure, Except.map, pure, Except.pure]
    | cons n rest =>
      obtain ⟨idx, nested⟩ := n
      have h1 : FixedOn c o F (postL nested) := fun i hi => hfix i (by simp [hi])
      have h2 : FixedOn c o F (postL rest) := fun i hi => hfix i (by simp [hi])
      have h3 : convertNameAt c o F idx = .ok F := hfix idx (by simp)
      rw [renderLevel_cons, ih nested h1]
      simp only [renderPure]
      cases renderPure c o g inj F fuel nested with
      | error e => rfl
      | ok r1 =>
        simp only [Except.map, bind, Except.bind]
        cases renderGens c o g inj F r1.2 with
        | error e => rfl
        | ok rs =>
          simp only [h3, ih rest h2]
          cases renderPure c o g inj F fuel rest with
          | error e => rfl
          | ok r3 => rfl

/-! ## 10. a first rendering against the rendering from the final names -/

mutual
/-- `ReadyN refs later n`: when the classes nested in `n` are rendered, every index they read (`refs`) already has
    its final name — it is not among the indices whose generators are created later (`n` itself and `later`) -/
def ReadyN (refs : String → List String) : List String → Node → Prop
  | later, .mk idx nested =>
    ReadyL refs (idx :: later) nested ∧ ∀ n ∈ nested, ∀ i ∈ refs (nodeIdx n), i ∉ idx :: later
def ReadyL (refs : String → List String) : List String → List Node → Prop
  | _, [] => True
  | later, n :: ns => ReadyN refs (postL ns ++ later) n ∧ ReadyL refs later ns
end

theorem readyL_cons (refs : String → List String) (later : List String) (idx : String) (nested rest : List Node) :
    ReadyL refs later (.mk idx nested :: rest) ↔
      (ReadyL refs (idx :: (postL rest ++ later)) nested ∧
       (∀ n ∈ nested, ∀ i ∈ refs (nodeIdx n), i ∉ idx :: (postL rest ++ later))) ∧ ReadyL refs later rest := by
  simp [ReadyL, ReadyN]

/-- a flat structure is always ready: nothing is nested -/
theorem readyL_flat (refs : String → List String) (later : List String) (l : List String) :
    ReadyL refs later (l.map (fun i => Node.mk i [])) := by
  induction l with
  | nil => simp [ReadyL]
  | cons x xs ih => rw [List.map_cons, readyL_cons]; exact ⟨⟨by simp [ReadyL], by simp⟩, ih⟩

/-- the indices read when the class of `i` is rendered: its own name and the references of its fields -/
def refsOf (g : Graph) (inj : List (String × String)) (i : String) : List String :=
  i :: fieldsRefs inj ((g.find? i).getD default).fields

theorem renderGens_congr (c : RenderCfg) (o : RenderOracles) (g : Graph) (inj : List (String × String)) (N F : NameMap)
    (gens : List (String × List String))
    (h : ∀ p ∈ gens, ∀ i ∈ refsOf g inj p.1, lookup N i = lookup F i) :
    renderGens c o g inj N gens = renderGens c o g inj F gens := by
  unfold renderGens
  apply mapM_congr'
  intro p hp
  have hh := h p hp
  apply genClass_congr
  · rfl
  · exact hh p.1 (by simp [refsOf])
  · intro i hi
    exact hh i (by simp only [refsOf, modelAt] at hi ⊢; exact List.mem_cons_of_mem _ hi)

/-- **renderLevel_ready**: if a first rendering succeeds on a ready structure and its final names agree with `F`
    outside `later`, then it produced what rendering everything with `F` produces -/
theorem renderLevel_ready (c : RenderCfg) (o : RenderOracles) (g : Graph) (inj : List (String × String)) (F : NameMap) :
    ∀ (fuel : Nat) (N : NameMap) (nodes : List Node) (later : List String) (N' : NameMap) (imps : List Imp)
      (gens : List (String × List String)),
      renderLevel c o g inj fuel N nodes = .ok (N', imps, gens) →
      ReadyL (refsOf g inj) later nodes →
      (∀ j, j ∉ later → lookup N' j = lookup F j) →
      renderPure c o g inj F fuel nodes = .ok (imps, gens) := by
  intro fuel
  induction fuel with
  | zero => intro N nodes later N' imps gens h; simp [renderLevel] at h
  | succ fuel ih =>
    intro N nodes later N' imps gens h hr hF
    cases nodes with
    | nil =>
      rw [renderLevel_nil] at h
      injection h with h; injection h with h1 h2; injection h2 with h2 h3
      subst h2; subst h3
      simp [renderPure, pure, Except.pure]
    | cons n rest =>
      obtain ⟨idx, nested⟩ := n
      rw [renderLevel_cons_ok] at h
      obtain ⟨N1, imps1, gens1, rs, N2, N'', imps3, restR, h1, h2, h3, h4, h5⟩ := h
      injection h5 with e1 e2; injection e2 with e2 e3
      subst e1; subst e2; subst e3
      rw [readyL_cons] at hr
      obtain ⟨⟨hr1, hr2⟩, hr3⟩ := hr
      obtain ⟨_, f4, _, _⟩ := renderLevel_frame c o g inj _ _ _ _ _ _ h4
      obtain ⟨_, _, _, g1⟩ := renderLevel_frame c o g inj _ _ _ _ _ _ h1
      obtain ⟨n, n', _, _, rfl⟩ := convertNameAt_ok h3
      -- the names after the nested level agree with `F` outside `idx :: postL rest ++ later`
      have hN1 : ∀ j, j ∉ idx :: (postL rest ++ later) → lookup N1 j = lookup F j := by
        intro j hj
        simp only [List.mem_cons, List.mem_append, not_or] at hj
        rw [← hF j hj.2.2, f4 j hj.2.1, lookup_set_ne _ _ hj.1]
      have p1 := ih _ _ _ _ _ _ h1 hr1 hN1
      have p4 := ih _ _ _ _ _ _ h4 hr3 hF
      have p2 : renderGens c o g inj F gens1 = .ok rs := by
        rw [← renderGens_congr c o g inj N1 F gens1, h2]
        intro p hp i hi
        have : p.1 ∈ nested.map nodeIdx := g1 ▸ List.mem_map_of_mem hp
        obtain ⟨nd, hnd, e⟩ := List.mem_map.mp this
        exact hN1 i (hr2 nd hnd i (e ▸ hi))
      rw [renderPure_cons_ok]
      exact ⟨imps1, gens1, rs, imps3, restR, p1, p2, p4, rfl⟩

/-! ## 11. the final names only depend on the conversion function and on the order of the tree -/

/-- creating the generators of `is`, one after the other -/
def convAll (c : RenderCfg) (o : RenderOracles) (names : NameMap) (is : List String) : Except PyErr NameMap :=
  is.foldlM (convertNameAt c o) names

theorem convAll_append (c : RenderCfg) (o : RenderOracles) (names : NameMap) (a b : List String) :
    convAll c o names (a ++ b) = (convAll c o names a >>= fun n => convAll c o n b) := by
  simp [convAll, List.foldlM_append]

theorem renderLevel_names (c : RenderCfg) (o : RenderOracles) (g : Graph) (inj : List (String × String)) :
    ∀ (fuel : Nat) (N : NameMap) (nodes : List Node) (N' : NameMap) (imps : List Imp) (gens : List (String × List String)),
      renderLevel c o g inj fuel N nodes = .ok (N', imps, gens) → convAll c o N (postL nodes) = .ok N' := by
  intro fuel
  induction fuel with
  | zero => intro N nodes N' imps gens h; simp [renderLevel] at h
  | succ fuel ih =>
    intro N nodes N' imps gens h
    cases nodes with
    | nil =>
      rw [renderLevel_nil] at h
      injection h with h; injection h with h1 h2
      subst h1
      simp [convAll, pure, Except.pure]
    | cons n rest =>
      obtain ⟨idx, nested⟩ := n
      rw [renderLevel_cons_ok] at h
      obtain ⟨N1, imps1, gens1, rs, N2, N'', imps3, restR, h1, _, h3, h4, h5⟩ := h
      injection h5 with e1 e2
      subst e1
      rw [postL_cons, convAll_append, convAll_append, ih _ _ _ _ _ h1]
      simp only [bind, Except.bind]
      have : convAll c o N1 [idx] = .ok N2 := by
        simp only [convAll, List.foldlM_cons, List.foldlM_nil, h3, bind, Except.bind]; rfl
      rw [this]
      exact ih _ _ _ _ _ h4

/-- `convertNameAt` is the same function for two configurations with the same conversion of class names -/
theorem convAll_congr {c₁ c₂ : RenderCfg} {o : RenderOracles} (h : convertClassName c₁ o = convertClassName c₂ o)
    (names : NameMap) (is : List String) : convAll c₁ o names is = convAll c₂ o names is := by
  have : convertNameAt c₁ o = convertNameAt c₂ o := by
    funext names i; unfold convertNameAt; rw [h]
  unfold convAll; rw [this]

/-! ## 12. structures in which every class refers only to classes of its own subtree are ready -/

mutual
/-- every class of the tree reads only names of its own subtree (itself and the classes nested in it) -/
def SubRefsN (refs : String → List String) : Node → Prop
  | .mk idx nested => SubRefsL refs nested ∧ ∀ i ∈ refs idx, i ∈ postL nested ++ [idx]
def SubRefsL (refs : String → List String) : List Node → Prop
  | [] => True
  | n :: ns => SubRefsN refs n ∧ SubRefsL refs ns
end

theorem post_eq (n : Node) : post n = postL (nodeNested n) ++ [nodeIdx n] := by
  cases n; simp [post, nodeNested, nodeIdx]

theorem post_subset_postL {n : Node} {ns : List Node} (h : n ∈ ns) : ∀ i ∈ post n, i ∈ postL ns := by
  induction ns with
  | nil => cases h
  | cons m ms ih =>
    intro i hi
    simp only [postL, List.mem_append]
    rcases List.mem_cons.mp h with rfl | h'
    · exact Or.inl hi
    · exact Or.inr (ih h' i hi)

theorem subRefs_mem {refs : String → List String} {n : Node} {ns : List Node} (hs : SubRefsL refs ns) (h : n ∈ ns) :
    ∀ i ∈ refs (nodeIdx n), i ∈ post n := by
  induction ns with
  | nil => cases h
  | cons m ms ih =>
    simp only [SubRefsL] at hs
    rcases List.mem_cons.mp h with rfl | h'
    · obtain ⟨idx, nested⟩ := n
      simp only [SubRefsN] at hs
      simpa [post, nodeIdx] using hs.1.2
    · exact ih hs.2 h'

mutual
theorem readyN_of_sub (refs : String → List String) :
    ∀ (n : Node) (later : List String), (post n ++ later).Nodup → SubRefsN refs n → ReadyN refs later n
  | .mk idx nested, later, hnd, hs => by
    simp only [SubRefsN] at hs
    simp only [post, List.append_assoc, List.singleton_append] at hnd
    simp only [ReadyN]
    refine ⟨readyL_of_sub refs nested (idx :: later) hnd hs.1, ?_⟩
    intro n hn i hi hmem
    have h1 : i ∈ postL nested := post_subset_postL hn i (subRefs_mem hs.1 hn i hi)
    exact (List.nodup_append.mp hnd).2.2 i h1 i hmem rfl
theorem readyL_of_sub (refs : String → List String) :
    ∀ (ns : List Node) (later : List String), (postL ns ++ later).Nodup → SubRefsL refs ns → ReadyL refs later ns
  | [], _, _, _ => by simp [ReadyL]
  | n :: ns, later, hnd, hs => by
    simp only [SubRefsL] at hs
    simp only [postL, List.append_assoc] at hnd
    simp only [ReadyL]
    exact ⟨readyN_of_sub refs n (postL ns ++ later) hnd hs.1,
      readyL_of_sub refs ns later (List.nodup_append.mp hnd).2.1 hs.2⟩
end

/-! ## 13. the final names do not depend on the order in which the generators are created -/

theorem ext_of_lookup {A B : NameMap} (hk : A.map (·.1) = B.map (·.1)) (hnd : (A.map (·.1)).Nodup)
    (h : ∀ i, lookup A i = lookup B i) : A = B := by
  induction A generalizing B with
  | nil => cases B with
    | nil => rfl
    | cons b bs => simp at hk
  | cons a as ih =>
    cases B with
    | nil => simp at hk
    | cons b bs =>
      simp only [List.map_cons, List.cons.injEq] at hk
      simp only [List.map_cons, List.nodup_cons] at hnd
      have h0 := h a.1
      rw [lookup_cons, lookup_cons] at h0
      simp only [if_true, hk.1] at h0
      have hab : a = b := Prod.ext hk.1 h0
      subst hab
      congr 1
      apply ih hk.2 hnd.2
      intro i
      have hi := h i
      rw [lookup_cons, lookup_cons] at hi
      by_cases hai : a.1 = i
      · -- `i` is the key of the head: it does not occur in the tails
        have n1 : lookup as i = none := by
          cases hl : lookup as i with
          | none => rfl
          | some n => exact absurd (hai ▸ List.mem_map_of_mem (mem_of_lookup hl)) hnd.1
        have n2 : lookup bs i = none := by
          cases hl : lookup bs i with
          | none => rfl
          | some n =>
            have : i ∈ bs.map (·.1) := List.mem_map_of_mem (mem_of_lookup hl)
            rw [← hk.2] at this
            exact absurd (hai ▸ this) hnd.1
        rw [n1, n2]
      · simpa [hai] using hi

/-- `convAll` on pairwise distinct indices: every index of the list is converted exactly once -/
theorem convAll_spec (c : RenderCfg) (o : RenderOracles) :
    ∀ (is : List String) (N N' : NameMap), convAll c o N is = .ok N' → is.Nodup →
      N'.map (·.1) = N.map (·.1) ∧ (∀ j, j ∉ is → lookup N' j = lookup N j) ∧
      ∀ i ∈ is, ∃ n n', lookup N i = some n ∧ convertClassName c o n = .ok n' ∧ lookup N' i = some n' := by
  intro is
  induction is with
  | nil =>
    intro N N' h _
    simp only [convAll, List.foldlM_nil, pure, Except.pure] at h
    injection h with h; subst h
    simp
  | cons i is ih =>
    intro N N' h hnd
    simp only [convAll, List.foldlM_cons] at h
    rw [bind_eq_ok] at h
    obtain ⟨N2, h2, h3⟩ := h
    simp only [List.nodup_cons] at hnd
    obtain ⟨k, f, cv⟩ := ih N2 N' h3 hnd.2
    obtain ⟨n, n', hl, hc, rfl⟩ := convertNameAt_ok h2
    refine ⟨by rw [k, set_keys], ?_, ?_⟩
    · intro j hj
      simp only [List.mem_cons, not_or] at hj
      rw [f j hj.2, lookup_set_ne _ _ hj.1]
    · intro x hx
      rcases List.mem_cons.mp hx with rfl | hx'
      · refine ⟨n, n', hl, hc, ?_⟩
        rw [f x hnd.1, lookup_set_self, any_of_lookup hl]; rfl
      · obtain ⟨a, b, ha, hb, hc'⟩ := cv x hx'
        have : x ≠ i := fun e => hnd.1 (e ▸ hx')
        exact ⟨a, b, by rw [← ha, lookup_set_ne _ _ this], hb, hc'⟩

/-- **convAll_perm**: two creation orders over the same (pairwise distinct) indices end with the same names -/
theorem convAll_perm {c : RenderCfg} {o : RenderOracles} {N N₁ N₂ : NameMap} {is₁ is₂ : List String}
    (hk : (N.map (·.1)).Nodup) (hp : is₁.Perm is₂) (hnd : is₁.Nodup)
    (h₁ : convAll c o N is₁ = .ok N₁) (h₂ : convAll c o N is₂ = .ok N₂) : N₁ = N₂ := by
  obtain ⟨k1, f1, c1⟩ := convAll_spec c o _ _ _ h₁ hnd
  obtain ⟨k2, f2, c2⟩ := convAll_spec c o _ _ _ h₂ (hp.nodup_iff.mp hnd)
  apply ext_of_lookup (k1.trans k2.symm) (k1 ▸ hk)
  intro i
  by_cases hi : i ∈ is₁
  · obtain ⟨a, b, ha, hb, hc⟩ := c1 i hi
    obtain ⟨a', b', ha', hb', hc'⟩ := c2 i (hp.mem_iff.mp hi)
    have : a = a' := Option.some.inj (ha.symm.trans ha')
    subst this
    have : b = b' := Except.ok.inj (hb.symm.trans hb')
    rw [hc, hc', this]
  · rw [f1 i hi, f2 i (fun h => hi (hp.mem_iff.mpr h))]

/-! ## 14. names that the conversion leaves alone -/

/-- `StableOn c o F is`: the recorded name of every `i ∈ is` is a fixed point of `convert_class_name` -/
def StableOn (c : RenderCfg) (o : RenderOracles) (F : NameMap) (is : List String) : Prop :=
  ∀ i ∈ is, ∀ n, lookup F i = some n → convertClassName c o n = .ok n

theorem fixedOn_of_stable {c : RenderCfg} {o : RenderOracles} {F : NameMap} {is : List String}
    (hnd : (F.map (·.1)).Nodup) (hsome : ∀ i ∈ is, ∃ n, lookup F i = some n) (hs : StableOn c o F is) :
    FixedOn c o F is := by
  intro i hi
  obtain ⟨n, hn⟩ := hsome i hi
  rw [convertNameAt_eq hn (hs i hi n hn), set_same hnd hn]

end J2M.Rend2
