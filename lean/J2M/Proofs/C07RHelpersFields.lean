/-
  C07, registry stage — helper development, part 3: the fields of a merged model, and the correspondence of the
  replacement entries of two runs, for registries holding the same models in a different order.
-/
import J2M.Proofs.C07RHelpers
import J2M.Props.C07P
namespace J2M.C07RH
open J2M J2M.Reg

/-! ## pointer redirection keeps the optional shape -/

theorem flattenUnion_subst (σ : String → String) (ts : List Ty) :
    flattenUnion (ts.map (substTy σ)) = (flattenUnion ts).map (substTy σ) := by
  fun_induction flattenUnion ts with
  | case1 => simp [flattenUnion]
  | case2 ts rest ih1 ih2 =>
    simp only [List.map_cons, substTy, substList_eq_map, flattenUnion, ih1, ih2, List.map_append]
  | case3 t rest hne ih =>
    cases t <;> simp [substTy, flattenUnion, ih] at hne ⊢

theorem hasOptMember_subst (σ : String → String) (t : Ty) : HasOptMember (substTy σ t) ↔ HasOptMember t := by
  have e : (substTy σ t).unionMembers = t.unionMembers.map (substTy σ) := by
    cases t <;> simp [substTy, Ty.unionMembers, substList_eq_map]
  unfold HasOptMember
  rw [e, flattenUnion_subst]
  simp only [List.mem_map]
  constructor
  · rintro ⟨m, ⟨m0, hm0, rfl⟩, ho⟩
    exact ⟨m0, hm0, by rwa [subst_isOpt] at ho⟩
  · rintro ⟨m, hm, ho⟩
    exact ⟨_, ⟨m, hm, rfl⟩, by rwa [subst_isOpt]⟩

theorem mem_substFields {σ : String → String} {F : Fields} {k : String} {t : Ty} :
    (k, t) ∈ substFields σ F ↔ ∃ t0, (k, t0) ∈ F ∧ t = substTy σ t0 := by
  rw [substFields_eq_map, List.mem_map]
  constructor
  · rintro ⟨kv, hkv, e⟩
    simp only [Prod.mk.injEq] at e
    obtain ⟨rfl, rfl⟩ := e
    exact ⟨kv.2, hkv, rfl⟩
  · rintro ⟨t0, h0, rfl⟩
    exact ⟨(k, t0), h0, rfl⟩

theorem keys_substFields (σ : String → String) (F : Fields) : Fields.keys (substFields σ F) = F.keys := by
  simp only [Fields.keys]; exact substFields_keys σ F

/-! ## the field dicts `_merge` hands to `merge_field_sets` -/

/-- the members' field dicts, in iteration order -/
def memberSets (g : Graph) (members : List String) : List Fields := (memberModels g members).map (·.fields)

theorem mem_memberSets {g : Graph} {members : List String} {fs : Fields} :
    fs ∈ memberSets g members ↔ ∃ i ∈ members, ∃ m, g.find? i = some m ∧ m.fields = fs := by
  unfold memberSets memberModels
  simp only [List.mem_map, List.mem_filterMap]
  constructor
  · rintro ⟨m, ⟨i, hi, hf⟩, rfl⟩; exact ⟨i, hi, m, hf, rfl⟩
  · rintro ⟨i, hi, m, hf, rfl⟩; exact ⟨m, ⟨i, hi, hf⟩, rfl⟩

/-- same members (any order, any repetition) of the same registry (any order): the same SET of field dicts -/
theorem sameSets_members {g g' : Graph} (hs : SameModels g g') (wf : WF g) {members members' : List String}
    (hm : ∀ i, i ∈ members ↔ i ∈ members') : C07.SameSets (memberSets g members) (memberSets g' members') := by
  intro fs
  rw [mem_memberSets, mem_memberSets]
  constructor
  · rintro ⟨i, hi, m, hf, e⟩; exact ⟨i, (hm i).1 hi, m, by rw [hs.find? wf]; exact hf, e⟩
  · rintro ⟨i, hi, m, hf, e⟩; exact ⟨i, (hm i).2 hi, m, by rw [← hs.find? wf]; exact hf, e⟩

theorem σOf_congr {members members' : List String} (hm : ∀ i, i ∈ members ↔ i ∈ members') (idx : String) :
    σOf members idx = σOf members' idx := by
  funext i
  unfold σOf
  have : members.contains i = members'.contains i := by
    rw [Bool.eq_iff_iff]; simp [hm i]
  rw [this]

/-- **one `_merge` call** on the same members met in another order, in registries that hold the same models in
    another order: the new index is the same, the pointer redirection is the same function, both calls merge
    the same SET of field dicts under the same comparison environment, and the merged model's field dict is
    the redirected `merge_field_sets` result -/
theorem mergeGroup_perm_struct {cfg : GenCfg} {so : StrOracle} {g g' g₁ g₁' : Graph} {members members' : List String}
    {idx idx' : String} (wf : WF g) (hs : SameModels g g') (hm : ∀ i, i ∈ members ↔ i ∈ members')
    (h : mergeGroup cfg so g members = .ok (g₁, idx)) (h' : mergeGroup cfg so g' members' = .ok (g₁', idx')) :
    idx' = idx ∧ ∃ F F',
      mergeFieldSets cfg.lit (g.eqEnv so) (memberSets g members) = .ok F ∧
      mergeFieldSets cfg.lit (g.eqEnv so) (memberSets g' members') = .ok F' ∧
      C07.SameSets (memberSets g members) (memberSets g' members') ∧
      g₁.look idx = some (substFields (σOf members idx) F) ∧
      g₁'.look idx = some (substFields (σOf members idx) F') := by
  obtain ⟨F, nm, ng, hF, hidx, rfl⟩ := mergeGroup_eq h
  obtain ⟨F', nm', ng', hF', hidx', rfl⟩ := mergeGroup_eq h'
  rw [hs.counter] at hidx'
  subst hidx hidx'
  rw [hs.eqEnv wf] at hF'
  refine ⟨rfl, F, F', hF, hF', sameSets_members hs wf hm, look_merged_idx wf.bound, ?_⟩
  have := look_merged_idx (members := members') (F := F') (nm := nm') (ng := ng') (hs.wf wf).bound
  rw [hs.counter] at this
  rw [σOf_congr hm]
  exact this

/-! ## the replacement entries of two runs correspond -/

/-- if "ends in the same merged model" is the same relation for two replacement lists whose entries are
    non-empty and pairwise disjoint, entries that share a member have the same members -/
theorem entries_same_of_common {repl repl' : List (String × List String)}
    (hM : ∀ i j, Merged repl i j ↔ Merged repl' i j)
    (hd : ∀ p ∈ repl, ∀ q ∈ repl, ∀ i, i ∈ p.2 → i ∈ q.2 → p = q)
    (hd' : ∀ p ∈ repl', ∀ q ∈ repl', ∀ i, i ∈ p.2 → i ∈ q.2 → p = q)
    {p q : String × List String} (hp : p ∈ repl) (hq : q ∈ repl') {i : String} (hip : i ∈ p.2) (hiq : i ∈ q.2) :
    ∀ j, j ∈ p.2 ↔ j ∈ q.2 := by
  intro j
  constructor
  · intro hj
    obtain ⟨q₂, hq₂, hi₂, hj₂⟩ := (hM i j).1 ⟨p, hp, hip, hj⟩
    rw [hd' q hq q₂ hq₂ i hiq hi₂]; exact hj₂
  · intro hj
    obtain ⟨p₂, hp₂, hi₂, hj₂⟩ := (hM i j).2 ⟨q, hq, hiq, hj⟩
    rw [hd p hp p₂ hp₂ i hip hi₂]; exact hj₂

theorem entries_correspond {repl repl' : List (String × List String)}
    (hM : ∀ i j, Merged repl i j ↔ Merged repl' i j)
    (hne : ∀ p ∈ repl, 2 ≤ p.2.length)
    (hd : ∀ p ∈ repl, ∀ q ∈ repl, ∀ i, i ∈ p.2 → i ∈ q.2 → p = q)
    (hd' : ∀ p ∈ repl', ∀ q ∈ repl', ∀ i, i ∈ p.2 → i ∈ q.2 → p = q) :
    ∀ p ∈ repl, ∃ q ∈ repl', ∀ j, j ∈ p.2 ↔ j ∈ q.2 := by
  intro p hp
  obtain ⟨i, hi⟩ : ∃ i, i ∈ p.2 := by
    have := hne p hp
    cases h : p.2 with
    | nil => rw [h] at this; simp at this
    | cons a _ => exact ⟨a, by simp⟩
  obtain ⟨q, hq, hiq, _⟩ := (hM i i).1 ⟨p, hp, hi, hi⟩
  exact ⟨q, hq, entries_same_of_common hM hd hd' hp hq hi hiq⟩

/-! ## the key list of a merged model -/

theorem merged_keys_nodup {cfg : GenCfg} {so : StrOracle} {cmps : List Cmp} {g g₁ : Graph}
    {repl : List (String × List String)} (wf : WF g) (h : mergeModels cfg so cmps g = .ok (g₁, repl))
    {p : String × List String} (hp : p ∈ repl) {ks : List String} (hks : keysOf g₁ p.1 = some ks) : ks.Nodup := by
  obtain ⟨tbl, groups, _, hgroups, _, _, _, hnew, _⟩ := mergeModels_struct wf h
  obtain ⟨tbl', groups', _, hgroups', hent, _⟩ := repl_entries wf h
  obtain ⟨k, hk, rfl⟩ := hent p hp
  have e : groups' = groups := by
    have : simTable cmps g = .ok tbl' := by assumption
    have t : tbl' = tbl := by
      have h1 : simTable cmps g = .ok tbl := by assumption
      rw [h1] at this; cases this; rfl
    subst t
    rw [hgroups] at hgroups'; cases hgroups'; rfl
  subst e
  rw [hnew k hk] at hks
  cases hks
  exact nodup_dedupStr _

/-- the whole run: corresponding merged models (entries with the same members) have the same key SET, and their
    key lists are permutations of each other -/
theorem merged_keys_same {cfg : GenCfg} {so : StrOracle} {cmps : List Cmp} {g g' g₁ g₁' : Graph}
    {repl repl' : List (String × List String)} (wf : WF g) (hs : SameModels g g')
    (h : mergeModels cfg so cmps g = .ok (g₁, repl)) (h' : mergeModels cfg so cmps g' = .ok (g₁', repl'))
    {p q : String × List String} (hp : p ∈ repl) (hq : q ∈ repl') (hpq : ∀ j, j ∈ p.2 ↔ j ∈ q.2) :
    (∀ key, (∃ ks, keysOf g₁ p.1 = some ks ∧ key ∈ ks) ↔ ∃ ks', keysOf g₁' q.1 = some ks' ∧ key ∈ ks') ∧
    (∀ ks ks', keysOf g₁ p.1 = some ks → keysOf g₁' q.1 = some ks' → ks.Perm ks') := by
  have wf' := hs.wf wf
  have hset : ∀ key, (∃ ks, keysOf g₁ p.1 = some ks ∧ key ∈ ks) ↔ ∃ ks', keysOf g₁' q.1 = some ks' ∧ key ∈ ks' := by
    intro key
    rw [C05R.mergeModels_keys_union wf h hp key, C05R.mergeModels_keys_union wf' h' hq key]
    constructor
    · rintro ⟨i, hi, ks, hks, hk⟩; exact ⟨i, (hpq i).1 hi, ks, by rw [hs.keysOf wf]; exact hks, hk⟩
    · rintro ⟨i, hi, ks, hks, hk⟩; exact ⟨i, (hpq i).2 hi, ks, by rw [← hs.keysOf wf]; exact hks, hk⟩
  refine ⟨hset, fun ks ks' hks hks' => ?_⟩
  rw [List.perm_ext_iff_of_nodup (merged_keys_nodup wf h hp hks) (merged_keys_nodup wf' h' hq hks')]
  intro key
  have := hset key
  simp only [hks, hks', Option.some.injEq, exists_eq_left'] at this
  exact this

end J2M.C07RH
