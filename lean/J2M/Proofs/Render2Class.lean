/-
  `genClass`: which names it reads (`typingCode` looks up exactly the pointer targets of the type, and the root
  class of an injected path), and how the text is assembled (class head, nested classes, fields).
-/
import J2M.Proofs.Render2
namespace J2M.Rend2

/-! ## 3. the indices a type / a model refers to -/

mutual
/-- pointer targets of a type (below `List`/`Dict`/`Optional`/`Union`/`Tuple`) -/
def tyRefs : Ty → List String
  | .ptr i => [i]
  | .list t | .dict t | .opt t => tyRefs t
  | .union ts | .tuple ts => tysRefs ts
  | _ => []
def tysRefs : List Ty → List String
  | [] => []
  | t :: ts => tyRefs t ++ tysRefs ts
end

/-- the indices whose names are read when a reference to `i` is printed: `i` and, if a path is injected for `i`,
    the root class of the path -/
def closeInj (inj : List (String × String)) (is : List String) : List String :=
  is ++ is.filterMap (fun i => (inj.find? (·.1 == i)).map (·.2))

theorem closeInj_nil (is : List String) : closeInj [] is = is := by simp [closeInj]

theorem mem_closeInj_self {inj : List (String × String)} {is : List String} {i : String} (h : i ∈ is) :
    i ∈ closeInj inj is := List.mem_append_left _ h

theorem mem_closeInj_inj {inj : List (String × String)} {is : List String} {i : String} {p : String × String}
    (h : i ∈ is) (hp : inj.find? (·.1 == i) = some p) : p.2 ∈ closeInj inj is := by
  apply List.mem_append_right
  rw [List.mem_filterMap]
  exact ⟨i, h, by simp [hp]⟩

theorem closeInj_subset {inj : List (String × String)} {a b : List String} (h : ∀ i ∈ a, i ∈ b) :
    ∀ i ∈ closeInj inj a, i ∈ closeInj inj b := by
  intro i hi
  rcases List.mem_append.mp hi with h1 | h1
  · exact List.mem_append_left _ (h i h1)
  · apply List.mem_append_right
    rw [List.mem_filterMap] at h1 ⊢
    obtain ⟨j, hj, e⟩ := h1
    exact ⟨j, h j hj, e⟩

/-- all indices read when the fields of a model are printed -/
def fieldsRefs (inj : List (String × String)) (fs : Fields) : List String :=
  closeInj inj (fs.flatMap (fun kv => tyRefs kv.2))

/-! ## 4. `typingCode` depends on the names only through `lookup` at the referenced indices -/

mutual
theorem typingCode_congr (c : RenderCfg) (inj : List (String × String)) (N F : NameMap) :
    ∀ t : Ty, (∀ i ∈ closeInj inj (tyRefs t), lookup N i = lookup F i) →
      typingCode c ⟨N, inj⟩ t = typingCode c ⟨F, inj⟩ t
  | .int, _ | .float, _ | .bool, _ | .str, _ | .null, _ | .unknown, _ | .ser _, _ | .lit _ _, _ | .obj _, _ => by
    simp [typingCode]
  | .list t, h => by
    simp only [typingCode]; rw [typingCode_congr c inj N F t (by simpa [tyRefs] using h)]
  | .dict t, h => by
    simp only [typingCode]; rw [typingCode_congr c inj N F t (by simpa [tyRefs] using h)]
  | .opt t, h => by
    simp only [typingCode]; rw [typingCode_congr c inj N F t (by simpa [tyRefs] using h)]
  | .union ts, h => by
    simp only [typingCode]; rw [typingCodes_congr c inj N F ts (by simpa [tyRefs] using h)]
  | .tuple ts, h => by
    simp only [typingCode]; rw [typingCodes_congr c inj N F ts (by simpa [tyRefs] using h)]
  | .ptr i, h => by
    have hi : lookup N i = lookup F i := h i (mem_closeInj_self (by simp [tyRefs]))
    simp only [typingCode, name?_eq, hi]
    cases hf : inj.find? (·.1 == i) with
    | none => rfl
    | some p =>
      have hr : lookup N p.2 = lookup F p.2 := h p.2 (mem_closeInj_inj (by simp [tyRefs]) hf)
      obtain ⟨a, r⟩ := p
      simp only [hr]
theorem typingCodes_congr (c : RenderCfg) (inj : List (String × String)) (N F : NameMap) :
    ∀ ts : List Ty, (∀ i ∈ closeInj inj (tysRefs ts), lookup N i = lookup F i) →
      typingCodes c ⟨N, inj⟩ ts = typingCodes c ⟨F, inj⟩ ts
  | [], _ => by simp [typingCodes]
  | t :: ts, h => by
    simp only [typingCodes]
    rw [typingCode_congr c inj N F t (fun i hi => h i (closeInj_subset (fun j hj => by simp [tysRefs, hj]) i hi)),
      typingCodes_congr c inj N F ts (fun i hi => h i (closeInj_subset (fun j hj => by simp [tysRefs, hj]) i hi))]
end

/-! ## 5. the parts of a class text -/

/-- the field lines (with their imports), required fields first -/
def classLines (c : RenderCfg) (o : RenderOracles) (e : RefEnv) (m : Model) : Except PyErr (List (List Imp × String)) := do
  let (req, opt) := sortFields m.fields (!c.convertUnicode)
  let reqLines ← (filterFields c m.fields req).mapM (fun k => fieldLine c o e k ((m.fields.get? k).getD .unknown) false)
  let optLines ← (filterFields c m.fields opt).mapM (fun k => fieldLine c o e k ((m.fields.get? k).getD .unknown) true)
  pure (reqLines ++ optLines)

/-- the decorators (with their imports); they do not depend on any class name -/
def classDecos (c : RenderCfg) (o : RenderOracles) (m : Model) : Except PyErr (List Imp × List String) := do
  let base : List Imp × List String ← (if c.postInitEff && (c.fw == .attrs || c.fw == .dataclasses) then do
      let paths ← stringFieldPaths m.fields
      let strFields ← paths.mapM (fun (p : String × String) => do
        let n ← convertFieldName c o p.1
        pure (n ++ (if p.2.isEmpty then "" else "#" ++ p.2)))
      if strFields.isEmpty then pure ([], []) else
        let ct := if c.fw == .attrs then "ClassType.Attrs" else "ClassType.Dataclass"
        pure ([⟨"json_to_models.models", some ["ClassType"]⟩,
               ⟨"json_to_models.models.string_converters", some ["convert_strings"]⟩],
              ["convert_strings(" ++ pyReprList o.isPrintable strFields ++ ", class_type=" ++ ct ++ ")"])
    else if c.postInitEff then do
      let _ ← stringFieldPaths m.fields
      pure ([], [])
    else pure ([], []))
  match c.fw with
  | .attrs => pure (base.1 ++ [⟨"attr", none⟩],
      ("attr.s" ++ (if c.decoKwargs.isEmpty then "" else "(" ++ renderKwargs c.decoKwargs ++ ")")) :: base.2)
  | .dataclasses => pure (base.1 ++ [⟨"dataclasses", some ["dataclass", "field"]⟩],
      ("dataclass" ++ (if c.decoKwargs.isEmpty then "" else "(" ++ renderKwargs c.decoKwargs ++ ")")) :: base.2)
  | _ => pure base

def classBases (c : RenderCfg) : String :=
  match c.fw with | .pydantic => "(BaseModel)" | .sqlmodel => "(SQLModel, table=True)" | _ => ""

def classExtraImps (c : RenderCfg) : List Imp :=
  match c.fw with
  | .pydantic => [⟨"pydantic.v1", some ["BaseModel", "Field"]⟩]
  | .sqlmodel => [⟨"sqlmodel", some ["SQLModel", "Field"]⟩]
  | _ => []

/-- the text in front of the class statement (sqlmodel's warning comment) -/
def classWarn (c : RenderCfg) : String :=
  match c.fw with
  | .sqlmodel => "# Warn! This generated code does not respect SQLModel Relationship and foreign_key, please add them manually.\n"
  | _ => ""

/-- `(imports, everything up to and including "class Name(bases):", the field part)` -/
def classParts (c : RenderCfg) (o : RenderOracles) (e : RefEnv) (m : Model) :
    Except PyErr (List Imp × String × String) := do
  let lines ← classLines c o e m
  let (decoImps, decos) ← classDecos c o m
  pure (lines.flatMap (·.1) ++ decoImps ++ classExtraImps c,
    classWarn c ++ (String.join (decos.map (fun d => "@" ++ d ++ "\n")) ++ "class " ++ m.name.getD "None" ++ classBases c ++ ":"),
    if lines.isEmpty then "\n    pass" else String.join (lines.map (fun l => "\n    " ++ l.2)))

/-- the nested classes of a class text, for an indentation function -/
def nestedPartI (ind : String → String) (nested : List String) : String :=
  String.join (nested.map (fun code => "\n" ++ ind code ++ "\n"))

/-- the nested classes of a class text: each one indented, after a line break and followed by one -/
def nestedPart (nested : List String) : String := nestedPartI indentBlock nested

/-- **genClass_parts**: the text of a class is `head ++ nested classes ++ fields`, where head, fields and the
    imports do not depend on the nested classes -/
theorem genClass_parts (c : RenderCfg) (o : RenderOracles) (e : RefEnv) (m : Model) (nested : List String) :
    genClass c o e m nested =
      (classParts c o e m).map (fun p => (p.1, p.2.1 ++ nestedPart nested ++ p.2.2)) := by
  unfold genClass classParts classLines classDecos
  simp only [bind_assoc, pure_bind, Except.map]
  generalize List.mapM (fun k => fieldLine c o e k ((m.fields.get? k).getD Ty.unknown) false) _ = A
  generalize List.mapM (fun k => fieldLine c o e k ((m.fields.get? k).getD Ty.unknown) true) _ = B
  generalize (if (c.postInitEff && (c.fw == Framework.attrs || c.fw == Framework.dataclasses)) = true then _ else _ :
    Except PyErr (List Imp × List String)) = D
  cases A with
  | error err => rfl
  | ok a =>
    cases B with
    | error err => rfl
    | ok b =>
      cases D with
      | error err => rfl
      | ok d =>
        cases hfw : c.fw <;>
          simp [bind, Except.bind, pure, Except.pure, classExtraImps, classWarn, classBases, nestedPart, nestedPartI,
            hfw, String.append_assoc]

/-! ## 6. `genClass` depends on the names only through `lookup` at the model's references -/

theorem mapM_congr' {α β : Type} {f g : α → Except PyErr β} :
    ∀ (l : List α), (∀ x ∈ l, f x = g x) → l.mapM f = l.mapM g
  | [], _ => rfl
  | x :: xs, h => by
    simp only [List.mapM_cons]
    rw [h x (by simp), mapM_congr' xs (fun y hy => h y (by simp [hy]))]

theorem fieldLine_congr (c : RenderCfg) (o : RenderOracles) (inj : List (String × String)) (N F : NameMap)
    (key : String) (t : Ty) (optional : Bool)
    (h : ∀ i ∈ closeInj inj (tyRefs t), lookup N i = lookup F i) :
    fieldLine c o ⟨N, inj⟩ key t optional = fieldLine c o ⟨F, inj⟩ key t optional := by
  unfold fieldLine
  rw [typingCode_congr c inj N F t h]

theorem get?_refs_subset {fs : Fields} {k : String} :
    ∀ i ∈ tyRefs ((fs.get? k).getD .unknown), i ∈ fs.flatMap (fun kv => tyRefs kv.2) := by
  intro i hi
  unfold Fields.get? at hi
  cases hf : fs.find? (·.1 == k) with
  | none => rw [hf] at hi; simp [tyRefs] at hi
  | some kv =>
    rw [hf] at hi
    simp only [Option.map_some, Option.getD_some] at hi
    exact List.mem_flatMap.mpr ⟨kv, List.mem_of_find?_eq_some hf, hi⟩

theorem classLines_congr (c : RenderCfg) (o : RenderOracles) (inj : List (String × String)) (N F : NameMap)
    (m : Model) (h : ∀ i ∈ fieldsRefs inj m.fields, lookup N i = lookup F i) :
    classLines c o ⟨N, inj⟩ m = classLines c o ⟨F, inj⟩ m := by
  unfold classLines
  have hk : ∀ (k : String) (b : Bool), fieldLine c o ⟨N, inj⟩ k ((m.fields.get? k).getD .unknown) b =
      fieldLine c o ⟨F, inj⟩ k ((m.fields.get? k).getD .unknown) b := fun k b =>
    fieldLine_congr c o inj N F k _ b (fun i hi => h i (closeInj_subset get?_refs_subset i hi))
  simp only [hk]

/-- **genClass_congr**: `genClass` reads the name map only at the indices its fields refer to (and at the roots of
    their injected paths), and the model only through its fields and its name -/
theorem genClass_congr (c : RenderCfg) (o : RenderOracles) (inj : List (String × String)) (N F : NameMap)
    (m₁ m₂ : Model) (nested : List String) (hf : m₁.fields = m₂.fields) (hn : m₁.name = m₂.name)
    (h : ∀ i ∈ fieldsRefs inj m₁.fields, lookup N i = lookup F i) :
    genClass c o ⟨N, inj⟩ m₁ nested = genClass c o ⟨F, inj⟩ m₂ nested := by
  rw [genClass_parts, genClass_parts]
  have e1 : classLines c o ⟨N, inj⟩ m₁ = classLines c o ⟨F, inj⟩ m₂ := by
    rw [classLines_congr c o inj N F m₁ h]
    unfold classLines; rw [hf]
  have e2 : classDecos c o m₁ = classDecos c o m₂ := by unfold classDecos; rw [hf]
  unfold classParts
  rw [e1, e2, hn]

/-- the weak form: only `RefEnv.name?` matters -/
theorem genClass_congr_name? (c : RenderCfg) (o : RenderOracles) (e₁ e₂ : RefEnv) (m : Model) (nested : List String)
    (hi : e₁.pathInj = e₂.pathInj) (h : ∀ i, e₁.name? i = e₂.name? i) :
    genClass c o e₁ m nested = genClass c o e₂ m nested := by
  obtain ⟨N, inj⟩ := e₁
  obtain ⟨F, inj'⟩ := e₂
  simp only at hi; subst hi
  exact genClass_congr c o inj N F m m nested rfl rfl (fun i _ => h i)

end J2M.Rend2
