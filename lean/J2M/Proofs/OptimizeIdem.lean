/-
  `optimize` is the identity on canonical normal forms (`nfc`): stage lemmas and the main induction.
-/
import J2M.Proofs.Optimize
namespace J2M.C08P

/-! mapM in `Except` -/
theorem mapM_ok_id {α ε} (f : α → Except ε α) (l : List α) (h : ∀ x ∈ l, f x = .ok x) :
    l.mapM f = .ok l := by
  induction l with
  | nil => rfl
  | cons x l ih =>
    rw [List.mapM_cons, h x (by simp), ih (fun y hy => h y (by simp [hy]))]; rfl

theorem mapM_ok_map {α β ε} (f : α → Except ε β) (g : α → β) (l : List α) (h : ∀ x ∈ l, f x = .ok (g x)) :
    l.mapM f = .ok (l.map g) := by
  induction l with
  | nil => rfl
  | cons x l ih =>
    rw [List.mapM_cons, h x (by simp), ih (fun y hy => h y (by simp [hy]))]; rfl

/-! stages -/
theorem stageInt_id (X : List Ty) (h : ¬ (X.any Ty.isInt = true ∧ X.any Ty.isFloat = true)) : stageInt X = X := by
  unfold stageInt
  simp only [Bool.and_eq_true]
  rw [if_neg h]

theorem Fields.set_fresh (fs : Fields) (k : String) (v : Ty) (h : k ∉ fs.keys) :
    Fields.set fs k v = fs ++ [(k, v)] := by
  induction fs with
  | nil => rfl
  | cons kv fs ih =>
    obtain ⟨k', v'⟩ := kv
    simp only [Fields.keys, List.map_cons, List.mem_cons, not_or] at h
    have : (k' == k) = false := by simp; exact fun e => h.1 e.symm
    simp only [Fields.set, this, Bool.false_eq_true, ↓reduceIte, List.cons_append, List.cons.injEq, true_and]
    exact ih h.2

theorem Fields.get?_fresh (fs : Fields) (k : String) (h : k ∉ fs.keys) : Fields.get? fs k = none := by
  unfold Fields.get?
  simp only [Option.map_eq_none_iff, List.find?_eq_none]
  intro kv hkv
  simp only [beq_iff_eq]
  intro e; apply h; simp only [Fields.keys, List.mem_map]; exact ⟨kv, hkv, e⟩

theorem mergeOne_fresh (c : LitCfg) (e : EqEnv) (fs : Fields) (k : String) (v : Ty) (h : k ∉ fs.keys) :
    mergeOne c e true fs k v = .ok (fs ++ [(k, v)]) := by
  unfold mergeOne
  rw [Fields.get?_fresh fs k h]
  simp only [Bool.true_or, ↓reduceIte]
  rw [Fields.set_fresh fs k v h]; rfl

theorem foldlM_mergeOne_fresh (c : LitCfg) (e : EqEnv) (fs acc : Fields)
    (hn : (fs.map (·.1)).Nodup) (hd : ∀ kv ∈ fs, kv.1 ∉ acc.keys) :
    fs.foldlM (fun a (kv : String × Ty) => mergeOne c e true a kv.1 kv.2) acc = .ok (acc ++ fs) := by
  induction fs generalizing acc with
  | nil => simp; rfl
  | cons kv fs ih =>
    rw [List.map_cons, List.nodup_cons] at hn
    rw [List.foldlM_cons, mergeOne_fresh c e acc kv.1 kv.2 (hd kv (by simp))]
    show List.foldlM _ (acc ++ [(kv.1, kv.2)]) fs = _
    rw [ih _ hn.2]
    · simp
    · intro kv' hkv'
      simp only [Fields.keys, List.map_append, List.map_cons, List.map_nil, List.mem_append,
        List.mem_cons, List.not_mem_nil, or_false, not_or]
      refine ⟨hd kv' (by simp [hkv']), ?_⟩
      intro e'; apply hn.1; rw [← e']; exact List.mem_map_of_mem hkv'

theorem mergeFieldSets_single (c : LitCfg) (e : EqEnv) (fs : Fields) (hn : (fs.map (·.1)).Nodup) :
    mergeFieldSets c e [fs] = .ok fs := by
  unfold mergeFieldSets
  simp only [mergeFieldSets.go, mergeStep]
  rw [foldlM_mergeOne_fresh c e fs [] hn (by simp [Fields.keys])]
  simp [Fields.keys]

theorem stageMerge_canon (c : LitCfg) (e : EqEnv) (X J : List Ty)
    (h : J = [] ∨ ∃ fs, J = [.obj fs] ∧ (fs.map (·.1)).Nodup) :
    stageMerge c e X (objFs J) = .ok (X ++ J) := by
  rcases h with rfl | ⟨fs, rfl, hn⟩
  · simp [stageMerge, objFs]; rfl
  · simp only [stageMerge, objFs, List.filterMap_cons, List.filterMap_nil, List.isEmpty_cons,
      Bool.false_eq_true, ↓reduceIte]
    rw [mergeFieldSets_single c e fs hn]; rfl

def relist (c : LitCfg) : Ty → Ty
  | .list x => .list (mkUnion c [x])
  | .dict x => .dict (mkUnion c [x])
  | t => t

theorem stageList_canon (c : LitCfg) (X L : List Ty) (h : L = [] ∨ ∃ x, L = [.list x]) :
    stageList c X (listEs L) = X ++ L.map (relist c) := by
  rcases h with rfl | ⟨x, rfl⟩ <;> simp [stageList, listEs, relist]

theorem stageDict_canon (c : LitCfg) (X L : List Ty) (h : L = [] ∨ ∃ x, L = [.dict x]) :
    stageDict c X (dictEs L) = X ++ L.map (relist c) := by
  rcases h with rfl | ⟨x, rfl⟩ <;> simp [stageDict, dictEs, relist]

theorem resolve_single (reg : StrRegistry) (k : String) (n : Nat) : resolve reg [k] (n + 1) = .ok [k] := by
  simp [resolve, dedupStr, replacedIn]

theorem stageStr_canon (reg : StrRegistry) (X S : List Ty) (h : S = [] ∨ S = [.str] ∨ ∃ k, S = [.ser k]) :
    stageStr reg X S = .ok (X ++ S) := by
  rcases h with rfl | rfl | ⟨k, rfl⟩
  · simp [stageStr]; rfl
  · simp [stageStr, Ty.isStr]; rfl
  · simp only [stageStr, List.any_cons, Ty.isStr, List.any_nil, Bool.or_self, Bool.false_eq_true,
      ↓reduceIte, List.isEmpty_cons, List.filterMap_cons, List.filterMap_nil, List.length_cons,
      List.length_nil, Nat.zero_add, Nat.reduceAdd]
    rw [resolve_single reg k 2]; rfl

/-! ### the category split on a canonical list -/

theorem splitStep_other (reg : StrRegistry) (s : Split) (t : Ty) (h : t.cls = 0 ∨ t.cls = 5) (ho : t.isOpt = false) :
    splitStep reg s t = { s with other := s.other ++ [t] } := by
  cases t <;> simp_all [splitStep, Ty.cls, Ty.isOpt]

theorem fold_split_other (reg : StrRegistry) (O : List Ty) (s : Split)
    (h : ∀ t ∈ O, (t.cls = 0 ∨ t.cls = 5) ∧ t.isOpt = false) :
    O.foldl (splitStep reg) s = { s with other := s.other ++ O } := by
  induction O generalizing s with
  | nil => simp
  | cons t O ih =>
    rw [List.foldl_cons, splitStep_other reg s t (h t (by simp)).1 (h t (by simp)).2, ih]
    · simp
    · intro u hu; exact h u (by simp [hu])

theorem fold_split_J (reg : StrRegistry) (J : List Ty) (s : Split) (h : J = [] ∨ ∃ fs, J = [.obj fs]) :
    J.foldl (splitStep reg) s = { s with toMerge := s.toMerge ++ objFs J } := by
  rcases h with rfl | ⟨fs, rfl⟩ <;> simp [splitStep, objFs]

theorem fold_split_L (reg : StrRegistry) (L : List Ty) (s : Split) (h : L = [] ∨ ∃ x, L = [.list x]) :
    L.foldl (splitStep reg) s = { s with lists := s.lists ++ listEs L } := by
  rcases h with rfl | ⟨fs, rfl⟩ <;> simp [splitStep, listEs]

theorem fold_split_D (reg : StrRegistry) (L : List Ty) (s : Split) (h : L = [] ∨ ∃ x, L = [.dict x]) :
    L.foldl (splitStep reg) s = { s with dicts := s.dicts ++ dictEs L } := by
  rcases h with rfl | ⟨fs, rfl⟩ <;> simp [splitStep, dictEs]

theorem fold_split_S (reg : StrRegistry) (S : List Ty) (s : Split)
    (h : S = [] ∨ S = [.str] ∨ ∃ k, S = [.ser k] ∧ reg.types.contains k = true) :
    S.foldl (splitStep reg) s = { s with strTypes := s.strTypes ++ S } := by
  rcases h with rfl | rfl | ⟨k, rfl, hk⟩ <;> simp_all [splitStep]

theorem split_canon (reg : StrRegistry) {ms O J L D S T : List Ty} (c : Canon ms O J L D S T)
    (s : Split)
    (hO : ∀ t ∈ O, t.isOpt = false)
    (hS : ∀ k, Ty.ser k ∈ S → reg.types.contains k = true) :
    ms.foldl (splitStep reg) s =
      { strTypes := s.strTypes ++ S, toMerge := s.toMerge ++ objFs J, lists := s.lists ++ listEs L,
        dicts := s.dicts ++ dictEs D, other := s.other ++ O ++ T } := by
  rw [c.eq]
  simp only [List.foldl_append]
  rw [fold_split_other reg O s (fun t ht => ⟨Or.inl (c.hO t ht), hO t ht⟩),
    fold_split_J reg J _ c.hJ, fold_split_L reg L _ c.hL, fold_split_D reg D _ c.hD,
    fold_split_S reg S, fold_split_other reg T]
  · rcases c.hT with rfl | ⟨o, vs, rfl⟩ <;> simp [Ty.cls, Ty.isOpt]
  · rcases c.hS with h | h | ⟨k, h⟩
    · exact Or.inl h
    · exact Or.inr (Or.inl h)
    · exact Or.inr (Or.inr ⟨k, h, hS k (by simp [h])⟩)
/-! ### the body of `_optimize_union` on a canonical list -/

theorem mapM_append_ok {α β ε} (f : α → Except ε β) (A B : List α) (A' B' : List β)
    (hA : A.mapM f = .ok A') (hB : B.mapM f = .ok B') : (A ++ B).mapM f = .ok (A' ++ B') := by
  rw [List.mapM_append, hA, hB]; rfl

theorem mapM_map_ok {α β ε} (f : α → Except ε β) (g : β → α) (L : List β) (h : ∀ t ∈ L, f (g t) = .ok t) :
    (L.map g).mapM f = .ok L := by
  induction L with
  | nil => rfl
  | cons x L ih =>
    rw [List.map_cons, List.mapM_cons, h x (by simp), ih (fun y hy => h y (by simp [hy]))]; rfl

def unionBody (cfg : GenCfg) (e : EqEnv) (f : Nat) (s : Split) : Except PyErr Ty := do
  let other ← stageMerge cfg.lit e (stageInt s.other) s.toMerge
  let other ← stageStr cfg.reg (stageDict cfg.lit (stageList cfg.lit other s.lists) s.dicts) s.strTypes
  let types ← other.mapM (optimize cfg e f)
  finishOpt cfg.lit types

/-- `_optimize_union` as the staged body applied to the split -/
theorem optimizeUnion_split (cfg : GenCfg) (e : EqEnv) (f : Nat) (ms : List Ty) :
    optimizeUnion cfg e (f + 1) ms = unionBody cfg e f (splitMembers cfg.reg ms) :=
  optimizeUnion_eq cfg e f ms

/-- without hidden unions among the members the split is the category fold -/
theorem optimizeUnion_body (cfg : GenCfg) (e : EqEnv) (f : Nat) (ms : List Ty)
    (h : ∀ t ∈ ms, hidden t = false) :
    optimizeUnion cfg e (f + 1) ms = unionBody cfg e f (ms.foldl (splitStep cfg.reg) {}) := by
  rw [optimizeUnion_split, splitMembers_eq _ _ h]

/-- a lone `Optional[Union[us]]` member (an element type `Optional[Union[..]]` of a list): the worklist
    contributes `Null` and splices the members `us` -/
theorem splitMembers_opt_union (reg : StrRegistry) (us : List Ty) (h : ∀ t ∈ us, hidden t = false) :
    splitMembers reg [.opt (.union us)] = us.foldl (splitStep reg) { other := [Ty.null] } := by
  rw [SplitW.splitMembers_eq]
  have hf : SplitW.fuelOf [Ty.opt (.union us)] = (us.length + (Ty.sizeList us + 3 - us.length)) + 1 := by
    have : us.length ≤ Ty.sizeList us := by
      induction us with
      | nil => simp [Ty.sizeList]
      | cons u us ih =>
        have hp : 0 < u.size := by cases u <;> simp [Ty.size] <;> omega
        have := ih (fun t ht => h t (by simp [ht]))
        simp only [Ty.sizeList, List.length_cons]; omega
    simp only [SplitW.fuelOf, List.map_cons, List.map_nil, List.sum_cons, List.sum_nil, List.length_cons,
      List.length_nil, Ty.size]
    omega
  rw [hf, SplitW.expand_succ_opt_union, List.append_nil,
    SplitW.expand_id _ us h (by omega)]
  rfl

theorem unionBody_canon (cfg : GenCfg) (e : EqEnv) (f : Nat) {ms O J L D S T : List Ty}
    (c : Canon ms O J L D S T) (pre : List Ty)
    (hO : ∀ t ∈ O, t.isOpt = false)
    (hS : ∀ k, Ty.ser k ∈ S → cfg.reg.types.contains k = true)
    (hIF : ¬ ((pre ++ O ++ T).any Ty.isInt = true ∧ (pre ++ O ++ T).any Ty.isFloat = true))
    (hJ : ∀ fs, Ty.obj fs ∈ J → (fs.map (·.1)).Nodup)
    (hopt : ∀ t ∈ pre ++ O ++ T ++ J ++ S, optimize cfg e f t = .ok t)
    (hre : ∀ t ∈ L ++ D, optimize cfg e f (relist cfg.lit t) = .ok t) :
    unionBody cfg e f (ms.foldl (splitStep cfg.reg) { other := pre }) =
      finishOpt cfg.lit (pre ++ O ++ T ++ J ++ L ++ D ++ S) := by
  rw [split_canon cfg.reg c _ hO hS]
  unfold unionBody
  simp only [List.nil_append]
  rw [stageInt_id _ hIF, stageMerge_canon]
  · show (do
      let other ← stageStr cfg.reg (stageDict cfg.lit (stageList cfg.lit (pre ++ O ++ T ++ J) (listEs L)) (dictEs D)) S
      let types ← other.mapM (optimize cfg e f)
      finishOpt cfg.lit types) = _
    rw [stageList_canon _ _ _ c.hL, stageDict_canon _ _ _ c.hD, stageStr_canon _ _ _ c.hS]
    show (do
      let types ← (pre ++ O ++ T ++ J ++ L.map (relist cfg.lit) ++ D.map (relist cfg.lit) ++ S).mapM (optimize cfg e f)
      finishOpt cfg.lit types) = _
    have h1 : (pre ++ O ++ T ++ J).mapM (optimize cfg e f) = .ok (pre ++ O ++ T ++ J) :=
      mapM_ok_id _ _ (fun t ht => hopt t (by simp only [List.mem_append] at ht ⊢; exact Or.inl ht))
    have h2 : (L.map (relist cfg.lit)).mapM (optimize cfg e f) = .ok L :=
      mapM_map_ok _ _ _ (fun t ht => hre t (by simp [ht]))
    have h3 : (D.map (relist cfg.lit)).mapM (optimize cfg e f) = .ok D :=
      mapM_map_ok _ _ _ (fun t ht => hre t (by simp [ht]))
    have h4 : S.mapM (optimize cfg e f) = .ok S :=
      mapM_ok_id _ _ (fun t ht => hopt t (by simp [ht]))
    rw [mapM_append_ok _ _ _ _ _ (mapM_append_ok _ _ _ _ _ (mapM_append_ok _ _ _ _ _ h1 h2) h3) h4]
    rfl
  · rcases c.hJ with h | ⟨fs, h⟩
    · exact Or.inl h
    · exact Or.inr ⟨fs, h, hJ fs (by simp [h])⟩
/-! ### the tail of `_optimize_union` -/

def collapse : List Ty → Ty
  | [] => .unknown
  | [t] => t
  | us => .union us

theorem finishOpt_single (c : LitCfg) (x : Ty) : finishOpt c [x] = .ok x := rfl

theorem finishOpt_multi (c : LitCfg) (types : List Ty) (hlen : 2 ≤ types.length)
    (hu : ∀ t ∈ types, t.isUnknown = false) (hn : ∀ t ∈ types, t.isNull = false) :
    finishOpt c types = .ok (collapse (mkUnionMembers c types)) := by
  obtain ⟨a, b, rest, rfl⟩ : ∃ a b rest, types = a :: b :: rest := by
    match types, hlen with
    | a :: b :: rest, _ => exact ⟨a, b, rest, rfl⟩
  have h1 : (a :: b :: rest).any Ty.isUnknown = false := by
    rw [List.any_eq_false]; intro t ht; simp [hu t ht]
  have h2 : (a :: b :: rest).any Ty.isNull = false := by
    rw [List.any_eq_false]; intro t ht; simp [hn t ht]
  have h3 : (a :: b :: rest).filter (fun t => !t.isNull) = a :: b :: rest := by
    rw [List.filter_eq_self]; intro t ht; simp [hn t ht]
  unfold finishOpt
  simp only [h1, h2, h3, Bool.false_eq_true, ↓reduceIte]
  unfold collapse
  split <;> simp_all <;> rfl

structure UM (ms : List Ty) : Prop where
  len : 2 ≤ ms.length
  mem : ∀ t ∈ ms, t.isUnion = false ∧ t.isOpt = false ∧ t.isNull = false ∧ t.isUnknown = false
  nodup : (ms.map hashStr).Nodup
  intFloat : ¬ (ms.any Ty.isInt = true ∧ ms.any Ty.isFloat = true)
  strLit : ¬ (ms.any Ty.isStr = true ∧ ms.any Ty.isLit = true)

theorem nfUnionMembers_UM {ms : List Ty} (h : nfUnionMembers ms = true) : UM ms := by
  unfold nfUnionMembers at h
  simp only [Bool.and_eq_true, decide_eq_true_eq, List.all_eq_true, Bool.not_eq_true',
    Bool.and_eq_false_iff, Bool.or_eq_false_iff] at h
  obtain ⟨⟨⟨⟨⟨⟨⟨⟨h1, h2⟩, h3⟩, h4⟩, h5⟩, _⟩, _⟩, _⟩, _⟩ := h
  refine ⟨h1, fun t ht => ?_, (nodupStr_iff _).mp h3, ?_, ?_⟩
  · have := h2 t ht; simp_all
  · intro ⟨a, b⟩; rcases h4 with h | h <;> simp_all
  · intro ⟨a, b⟩; rcases h5 with h | h <;> simp_all

/-! ### `DUnion` on normal-form member lists -/

theorem Canon.nonlit {ms O J L D S T : List Ty} (c : Canon ms O J L D S T) :
    ∀ t ∈ O ++ (J ++ L ++ D ++ S), t.isLit = false := by
  intro t ht
  simp only [List.mem_append] at ht
  rcases ht with h | ((h | h) | h) | h
  · have := c.hO t h; cases t <;> simp_all [Ty.cls, Ty.isLit]
  · rcases c.hJ with e | ⟨x, e⟩ <;> simp_all [Ty.isLit]
  · rcases c.hL with e | ⟨x, e⟩ <;> simp_all [Ty.isLit]
  · rcases c.hD with e | ⟨x, e⟩ <;> simp_all [Ty.isLit]
  · rcases c.hS with e | e | ⟨x, e⟩ <;> simp_all [Ty.isLit]

theorem Canon.eq' {ms O J L D S T : List Ty} (c : Canon ms O J L D S T) :
    ms = (O ++ (J ++ L ++ D ++ S)) ++ T := by
  rw [c.eq]; simp

theorem mkUM_of_canon (cl : LitCfg) {ms O J L D S T : List Ty} (c : Canon ms O J L D S T) (um : UM ms)
    (hlit : ∀ o vs, Ty.lit o vs ∈ ms → o = false ∧ litStable cl vs = true) :
    mkUnionMembers cl (O ++ T ++ (J ++ L ++ D ++ S)) = ms ∧ mkUnionMembers cl ms = ms := by
  have hsub : ∀ t ∈ O ++ (J ++ L ++ D ++ S), t ∈ ms := by
    intro t ht; rw [c.eq']; exact List.mem_append_left _ ht
  have hA : ∀ t ∈ O ++ (J ++ L ++ D ++ S), t.isLit = false ∧ t.isUnion = false :=
    fun t ht => ⟨c.nonlit t ht, (um.mem t (hsub t ht)).1⟩
  have hn : ((O ++ (J ++ L ++ D ++ S)).map hashStr).Nodup := by
    have := um.nodup
    rw [c.eq', List.map_append, List.nodup_append] at this
    exact this.1
  have hT : T = [] ∨ ∃ vs, T = [.lit false vs] ∧ litStable cl vs = true ∧
      ∀ t ∈ O ++ (J ++ L ++ D ++ S), t.isStr = false := by
    rcases c.hT with h | ⟨o, vs, h⟩
    · exact Or.inl h
    · right
      have hm : Ty.lit o vs ∈ ms := by rw [c.eq', h]; simp
      obtain ⟨rfl, hs⟩ := hlit o vs hm
      refine ⟨vs, h, hs, ?_⟩
      intro t ht
      cases hst : t.isStr with
      | false => rfl
      | true =>
        exfalso; apply um.strLit
        exact ⟨List.any_eq_true.mpr ⟨t, hsub t ht, hst⟩, List.any_eq_true.mpr ⟨_, hm, rfl⟩⟩
  constructor
  · rw [mkUM_canon cl O (J ++ L ++ D ++ S) T hA hn hT, ← c.eq']
  · have := mkUM_canon cl (O ++ (J ++ L ++ D ++ S)) [] T (by simpa using hA) (by simpa using hn)
      (by simpa using hT)
    rw [List.append_nil, List.append_nil, ← c.eq'] at this
    exact this

theorem nfc_union_facts {cfg : GenCfg} {us : List Ty} (h : nfc cfg (.union us) = true) :
    UM us ∧ canonOrder us = true ∧ (∀ t ∈ us, nfc cfg t = true) := by
  simp only [nfc, Bool.and_eq_true] at h
  exact ⟨nfUnionMembers_UM h.1.1, h.1.2, (nfcList_iff cfg us).mp h.2⟩

theorem nfc_lits {cfg : GenCfg} {us : List Ty} (h : ∀ t ∈ us, nfc cfg t = true) :
    ∀ o vs, Ty.lit o vs ∈ us → o = false ∧ litStable cfg.lit vs = true := by
  intro o vs hm
  have := h _ hm
  simpa [nfc] using this

theorem nfc_union_mkUM {cfg : GenCfg} {us : List Ty} (h : nfc cfg (.union us) = true) :
    mkUnionMembers cfg.lit us = us := by
  obtain ⟨um, co, hm⟩ := nfc_union_facts h
  obtain ⟨O, J, L, D, S, T, c⟩ := canon_decomp us co
  exact (mkUM_of_canon cfg.lit c um (nfc_lits hm)).2

theorem mkUM_single {cfg : GenCfg} {x : Ty} (h : nfc cfg x = true) (hu : x.isUnion = false) :
    mkUnionMembers cfg.lit [x] = [x] := by
  by_cases hl : x.isLit = true
  · cases x <;> simp [Ty.isLit] at hl
    rename_i o vs
    simp only [nfc, Bool.and_eq_true, Bool.not_eq_true'] at h
    obtain ⟨rfl, hs⟩ := h
    have := mkUM_canon cfg.lit [] [] [.lit false vs] (by simp) (by simp) (Or.inr ⟨vs, rfl, hs, by simp⟩)
    simpa using this
  · have := mkUM_canon cfg.lit [x] [] [] (by simpa using ⟨by simpa using hl, hu⟩) (by simp) (Or.inl rfl)
    simpa using this

theorem mkUM_singleton_union (c : LitCfg) (us : List Ty) :
    mkUnionMembers c [.union us] = mkUnionMembers c us := by
  simp [mkUnionMembers_eq, foldSt, flattenUnion]

/-! ### the main induction -/

theorem Ty.size_pos (t : Ty) : 0 < t.size := by
  cases t <;> simp [Ty.size] <;> omega

theorem Ty.size_le_sizeList {t : Ty} {ts : List Ty} (h : t ∈ ts) : t.size ≤ Ty.sizeList ts := by
  induction ts with
  | nil => cases h
  | cons u ts ih =>
    simp only [Ty.sizeList]
    rcases List.mem_cons.mp h with rfl | h
    · omega
    · have := ih h; omega

theorem Ty.size_le_sizeFields {kv : String × Ty} {fs : List (String × Ty)} (h : kv ∈ fs) :
    kv.2.size ≤ Ty.sizeFields fs := by
  induction fs with
  | nil => cases h
  | cons u fs ih =>
    obtain ⟨k, v⟩ := u
    simp only [Ty.sizeFields]
    rcases List.mem_cons.mp h with rfl | h
    · simp
    · have := ih h; omega

theorem collapse_ge2 {us : List Ty} (h : 2 ≤ us.length) : collapse us = .union us := by
  match us, h with
  | a :: b :: rest, _ => rfl

def MemOK (cfg : GenCfg) (ms : List Ty) : Prop :=
  (∀ m ∈ ms, nfc cfg m = true) ∧
  ((∃ x, ms = [x] ∧ x.isOptNull = false ∧ x.isUnion = false) ∨ (nfUnionMembers ms = true ∧ canonOrder ms = true))

def IdemAt (cfg : GenCfg) (e : EqEnv) (n : Nat) : Prop :=
  (∀ t, t.size ≤ n → nfc cfg t = true → ∀ F, 4 * t.size ≤ F → optimize cfg e F t = .ok t) ∧
  (∀ ms, Ty.sizeList ms ≤ n → MemOK cfg ms → ∀ F, 4 * Ty.sizeList ms + 1 ≤ F →
      optimizeUnion cfg e F ms = .ok (collapse ms))

theorem inner_ok {cfg : GenCfg} {e : EqEnv} {n : Nat} (ih : IdemAt cfg e n) (x : Ty)
    (hn : nfc cfg x = true) (hon : x.isOptNull = false) (hs : x.size ≤ n) (F : Nat) (hF : 4 * x.size + 2 ≤ F) :
    optimize cfg e F (mkUnion cfg.lit [x]) = .ok x := by
  obtain ⟨f, rfl⟩ : ∃ f, F = f + 1 := ⟨F - 1, by omega⟩
  unfold mkUnion
  rw [optimize]
  by_cases hu : x.isUnion = true
  · cases x <;> simp [Ty.isUnion] at hu
    rename_i us
    rw [mkUM_singleton_union, nfc_union_mkUM hn]
    obtain ⟨um, co, hm⟩ := nfc_union_facts hn
    have hnu : nfUnionMembers us = true := by
      simp only [nfc, Bool.and_eq_true] at hn; exact hn.1.1
    simp only [Ty.size] at hs hF
    rw [ih.2 us (by omega) ⟨hm, Or.inr ⟨hnu, co⟩⟩ f (by omega)]
    rw [collapse_ge2 um.len]
  · rw [mkUM_single hn (by simpa using hu)]
    have : Ty.sizeList [x] = x.size := by simp [Ty.sizeList]
    rw [ih.2 [x] (by omega) ⟨by simpa using hn, Or.inl ⟨x, rfl, hon, by simpa using hu⟩⟩ f (by omega)]
    rfl

theorem relist_ok {cfg : GenCfg} {e : EqEnv} {n : Nat} (ih : IdemAt cfg e n) (t x : Ty)
    (ht : t = .list x ∨ t = .dict x) (hn : nfc cfg t = true) (hs : x.size ≤ n) (F : Nat)
    (hF : 4 * x.size + 3 ≤ F) :
    optimize cfg e F (relist cfg.lit t) = .ok t := by
  obtain ⟨f, rfl⟩ : ∃ f, F = f + 1 := ⟨F - 1, by omega⟩
  rcases ht with rfl | rfl
  · simp only [nfc, Bool.and_eq_true, Bool.not_eq_true'] at hn
    simp only [relist]
    rw [optimize, inner_ok ih x hn.2 hn.1 hs f (by omega)]; rfl
  · simp only [nfc, Bool.and_eq_true, Bool.not_eq_true'] at hn
    simp only [relist]
    rw [optimize, inner_ok ih x hn.2 hn.1 hs f (by omega)]; rfl

theorem P_step {cfg : GenCfg} {e : EqEnv} {n : Nat} (ih : IdemAt cfg e n) :
    ∀ t, t.size ≤ n + 1 → nfc cfg t = true → ∀ F, 4 * t.size ≤ F → optimize cfg e F t = .ok t := by
  intro t hs hn F hF
  have hpos := Ty.size_pos t
  obtain ⟨f, rfl⟩ : ∃ f, F = f + 1 := ⟨F - 1, by omega⟩
  cases t with
  | int | float | bool | str | null | unknown | ser _ | ptr _ => simp [optimize] <;> rfl
  | lit ov vs =>
    simp only [nfc, Bool.and_eq_true, Bool.not_eq_true'] at hn
    have := litStable_spec hn.2
    rw [optimize]
    simp [hn.1, this.2.1]; rfl
  | list x =>
    simp only [nfc, Bool.and_eq_true] at hn
    simp only [Ty.size] at hs hF
    rw [optimize, ih.1 x (by omega) hn.2 f (by omega)]; rfl
  | dict x =>
    simp only [nfc, Bool.and_eq_true] at hn
    simp only [Ty.size] at hs hF
    rw [optimize, ih.1 x (by omega) hn.2 f (by omega)]; rfl
  | opt x =>
    simp only [nfc, Bool.and_eq_true, Bool.not_eq_true'] at hn
    simp only [Ty.size] at hs hF
    rw [optimize, ih.1 x (by omega) hn.2 f (by omega)]
    cases x <;> first | rfl | simp [Ty.isOpt] at hn
  | union ms =>
    obtain ⟨um, co, hm⟩ := nfc_union_facts hn
    have hnu : nfUnionMembers ms = true := by
      simp only [nfc, Bool.and_eq_true] at hn; exact hn.1.1
    simp only [Ty.size] at hs hF
    rw [optimize, ih.2 ms (by omega) ⟨hm, Or.inr ⟨hnu, co⟩⟩ f (by omega), collapse_ge2 um.len]
  | tuple ts =>
    simp only [nfc] at hn
    have hm := (nfcList_iff cfg ts).mp hn
    simp only [Ty.size] at hs hF
    rw [optimize, mapM_ok_id]
    · rfl
    · intro x hx
      have := Ty.size_le_sizeList hx
      exact ih.1 x (by omega) (hm x hx) f (by omega)
  | obj fs =>
    simp only [nfc, Bool.and_eq_true] at hn
    have hm := (nfcFields_iff cfg fs).mp hn.2
    simp only [Ty.size] at hs hF
    rw [optimize, mapM_ok_id]
    · rfl
    · intro kv hkv
      have := Ty.size_le_sizeFields hkv
      rw [ih.1 kv.2 (by omega) (hm kv hkv) f (by omega)]; rfl
theorem mkUM_nil (c : LitCfg) : mkUnionMembers c [] = [] := by
  simp [mkUnionMembers_eq, foldSt, flattenUnion, finishU]

theorem splitStep_opt (reg : StrRegistry) (s : Split) (y : Ty) (h : y.isOpt = false) :
    splitStep reg s (.opt y) = splitStep reg { s with other := s.other ++ [Ty.null] } y := by
  cases y <;> simp_all [splitStep, Ty.isOpt]

theorem Canon.mem_ms {ms O J L D S T : List Ty} (c : Canon ms O J L D S T) :
    ∀ t, t ∈ O ++ T ++ J ++ L ++ D ++ S ↔ t ∈ ms := by
  intro t; rw [c.eq]; simp only [List.mem_append]; grind

theorem Canon.length_eq {ms O J L D S T : List Ty} (c : Canon ms O J L D S T) :
    (O ++ T ++ J ++ L ++ D ++ S).length = ms.length := by
  rw [c.eq]; simp only [List.length_append]; omega

theorem eq_singleton {α} (l : List α) (x : α) (hl : l.length = 1) (hm : ∀ t ∈ l, t = x) : l = [x] := by
  match l, hl with
  | [a], _ => rw [hm a (by simp)]

theorem Canon.single {x : Ty} {O J L D S T : List Ty} (c : Canon [x] O J L D S T) :
    O ++ T ++ J ++ L ++ D ++ S = [x] :=
  eq_singleton _ _ (by rw [c.length_eq]; rfl) (fun t ht => by simpa using (c.mem_ms t).mp ht)

def dropUnknown (types : List Ty) : List Ty :=
  if types.any Ty.isUnknown then removeFirst Ty.isUnknown types else types

theorem finishOpt_ge2 (c : LitCfg) (types : List Ty) (hlen : 2 ≤ types.length) :
    finishOpt c types = .ok
      (if (dropUnknown types).any Ty.isNull
       then .opt (collapse (mkUnionMembers c ((dropUnknown types).filter (fun t => !t.isNull))))
       else collapse (mkUnionMembers c ((dropUnknown types).filter (fun t => !t.isNull)))) := by
  obtain ⟨a, b, rest, rfl⟩ : ∃ a b rest, types = a :: b :: rest := by
    match types, hlen with
    | a :: b :: rest, _ => exact ⟨a, b, rest, rfl⟩
  unfold finishOpt
  simp only []
  unfold collapse dropUnknown
  rfl
theorem finishOpt_null {cfg : GenCfg} {y : Ty} (hn : nfc cfg y = true) (hnull : y.isNull = false) :
    finishOpt cfg.lit [.null, y] = .ok (.opt y) := by
  rw [finishOpt_ge2 _ _ (by simp)]
  by_cases hu : y.isUnknown = true
  · cases y <;> simp [Ty.isUnknown] at hu
    have h1 : dropUnknown [Ty.null, Ty.unknown] = [Ty.null] := by
      simp [dropUnknown, Ty.isUnknown, removeFirst]
    rw [h1]
    simp [Ty.isNull, mkUM_nil, collapse]
  · have hu' : y.isUnknown = false := by simpa using hu
    have h1 : dropUnknown [Ty.null, y] = [Ty.null, y] := by
      simp [dropUnknown, hu', show Ty.isUnknown .null = false from rfl]
    have h2 : [Ty.null, y].any Ty.isNull = true := by simp [Ty.isNull]
    have h3 : [Ty.null, y].filter (fun t => !t.isNull) = [y] := by
      simp [hnull, show Ty.isNull .null = true from rfl]
    rw [h1, h2, h3]
    simp only [↓reduceIte]
    by_cases hun : y.isUnion = true
    · cases y <;> simp [Ty.isUnion] at hun
      rename_i us
      rw [mkUM_singleton_union, nfc_union_mkUM hn]
      obtain ⟨um, _, _⟩ := nfc_union_facts hn
      rw [collapse_ge2 um.len]
    · rw [mkUM_single hn (by simpa using hun)]; rfl

theorem body_ok {cfg : GenCfg} {e : EqEnv} {n : Nat} (ih : IdemAt cfg e n)
    (hP : ∀ t, t.size ≤ n + 1 → nfc cfg t = true → ∀ F, 4 * t.size ≤ F → optimize cfg e F t = .ok t)
    (f : Nat) {ms O J L D S T : List Ty} (c : Canon ms O J L D S T) (pre : List Ty)
    (hpre : ∀ t ∈ pre, t = Ty.null) (hf : 1 ≤ f)
    (hm : ∀ m ∈ ms, nfc cfg m = true ∧ m.isOpt = false ∧ m.size ≤ n + 1 ∧ 4 * m.size ≤ f)
    (hIF : ¬ (ms.any Ty.isInt = true ∧ ms.any Ty.isFloat = true)) :
    unionBody cfg e f (ms.foldl (splitStep cfg.reg) { other := pre }) =
      finishOpt cfg.lit (pre ++ O ++ T ++ J ++ L ++ D ++ S) := by
  have sub : ∀ t, t ∈ O ∨ t ∈ T ∨ t ∈ J ∨ t ∈ L ∨ t ∈ D ∨ t ∈ S → t ∈ ms := by
    intro t ht; rw [← c.mem_ms]; simp only [List.mem_append]; grind
  apply unionBody_canon cfg e f c pre
  · intro t ht; exact (hm t (sub t (Or.inl ht))).2.1
  · intro k hk
    have := (hm _ (sub _ (Or.inr (Or.inr (Or.inr (Or.inr (Or.inr hk))))))).1
    simpa [nfc] using this
  · intro ⟨h1, h2⟩
    apply hIF
    rw [List.any_eq_true] at h1 h2 ⊢
    obtain ⟨a, ha, ha'⟩ := h1
    obtain ⟨b, hb, hb'⟩ := h2
    constructor
    · refine ⟨a, ?_, ha'⟩
      simp only [List.mem_append] at ha
      rcases ha with (h | h) | h
      · rw [hpre a h] at ha'; cases ha'
      · exact sub a (Or.inl h)
      · exact sub a (Or.inr (Or.inl h))
    · rw [List.any_eq_true]
      refine ⟨b, ?_, hb'⟩
      simp only [List.mem_append] at hb
      rcases hb with (h | h) | h
      · rw [hpre b h] at hb'; cases hb'
      · exact sub b (Or.inl h)
      · exact sub b (Or.inr (Or.inl h))
  · intro fs hfs
    have := (hm _ (sub _ (Or.inr (Or.inr (Or.inl hfs))))).1
    simp only [nfc, Bool.and_eq_true] at this
    exact (nodupStr_iff _).mp this.1
  · intro t ht
    simp only [List.mem_append] at ht
    obtain ⟨f', rfl⟩ : ∃ f', f = f' + 1 := ⟨f - 1, by omega⟩
    have key : t ∈ ms → optimize cfg e (f' + 1) t = .ok t := fun h =>
      hP t (hm t h).2.2.1 (hm t h).1 _ (hm t h).2.2.2
    rcases ht with (((h | h) | h) | h) | h
    · rw [hpre t h]; simp [optimize]; rfl
    · exact key (sub t (Or.inl h))
    · exact key (sub t (Or.inr (Or.inl h)))
    · exact key (sub t (Or.inr (Or.inr (Or.inl h))))
    · exact key (sub t (Or.inr (Or.inr (Or.inr (Or.inr (Or.inr h))))))
  · intro t ht
    simp only [List.mem_append] at ht
    rcases ht with h | h
    · have hms := sub t (Or.inr (Or.inr (Or.inr (Or.inl h))))
      rcases c.hL with e' | ⟨x, e'⟩
      · rw [e'] at h; cases h
      · rw [e'] at h; simp at h; subst h
        have := hm _ hms
        simp only [Ty.size] at this
        exact relist_ok ih _ x (Or.inl rfl) this.1 (by omega) f (by omega)
    · have hms := sub t (Or.inr (Or.inr (Or.inr (Or.inr (Or.inl h)))))
      rcases c.hD with e' | ⟨x, e'⟩
      · rw [e'] at h; cases h
      · rw [e'] at h; simp at h; subst h
        have := hm _ hms
        simp only [Ty.size] at this
        exact relist_ok ih _ x (Or.inr rfl) this.1 (by omega) f (by omega)

theorem not_int_float_single (x : Ty) : ¬ ([x].any Ty.isInt = true ∧ [x].any Ty.isFloat = true) := by
  cases x <;> simp [Ty.isInt, Ty.isFloat]

theorem finishOpt_null_union {cfg : GenCfg} {us O J L D S T : List Ty} (c : Canon us O J L D S T) (um : UM us)
    (hm : ∀ t ∈ us, nfc cfg t = true) :
    finishOpt cfg.lit ([Ty.null] ++ O ++ T ++ J ++ L ++ D ++ S) = .ok (.opt (.union us)) := by
  have hlen : (O ++ T ++ J ++ L ++ D ++ S).length = us.length := c.length_eq
  have hmem : ∀ t ∈ O ++ T ++ J ++ L ++ D ++ S, t ∈ us := fun t ht => (c.mem_ms t).mp ht
  rw [show [Ty.null] ++ O ++ T ++ J ++ L ++ D ++ S = Ty.null :: (O ++ T ++ J ++ L ++ D ++ S) by simp]
  generalize hX : O ++ T ++ J ++ L ++ D ++ S = X at hlen hmem
  rw [finishOpt_ge2 _ _ (by have := um.len; simp only [List.length_cons]; omega)]
  have h1 : dropUnknown (Ty.null :: X) = Ty.null :: X := by
    unfold dropUnknown
    have : (Ty.null :: X).any Ty.isUnknown = false := by
      rw [List.any_eq_false]; intro t ht
      rcases List.mem_cons.mp ht with rfl | ht
      · simp [Ty.isUnknown]
      · simp [(um.mem t (hmem t ht)).2.2.2]
    rw [this]; rfl
  have h2 : (Ty.null :: X).any Ty.isNull = true := by simp [Ty.isNull]
  have h3 : (Ty.null :: X).filter (fun t => !t.isNull) = X := by
    rw [List.filter_cons]
    simp only [show Ty.isNull .null = true from rfl, Bool.not_true, Bool.false_eq_true, ↓reduceIte]
    rw [List.filter_eq_self]; intro t ht
    have := (um.mem t (hmem t ht)).2.2.1
    simp [this]
  rw [h1, h2, h3]
  simp only [↓reduceIte]
  have h4 := (mkUM_of_canon cfg.lit c um (nfc_lits hm)).1
  rw [← hX, show O ++ T ++ J ++ L ++ D ++ S = O ++ T ++ (J ++ L ++ D ++ S) by simp, h4, collapse_ge2 um.len]

theorem Q_step {cfg : GenCfg} {e : EqEnv} {n : Nat} (ih : IdemAt cfg e n)
    (hP : ∀ t, t.size ≤ n + 1 → nfc cfg t = true → ∀ F, 4 * t.size ≤ F → optimize cfg e F t = .ok t) :
    ∀ ms, Ty.sizeList ms ≤ n + 1 → MemOK cfg ms → ∀ F, 4 * Ty.sizeList ms + 1 ≤ F →
      optimizeUnion cfg e F ms = .ok (collapse ms) := by
  intro ms hs ⟨hm, hcase⟩ F hF
  obtain ⟨f, rfl⟩ : ∃ f, F = f + 1 := ⟨F - 1, by omega⟩
  rcases hcase with ⟨x, rfl, hon, hxu⟩ | ⟨hnu, co⟩
  · have hx : nfc cfg x = true := hm x (by simp)
    have hsx : Ty.sizeList [x] = x.size := by simp [Ty.sizeList]
    have hpos := Ty.size_pos x
    by_cases hopt : x.isOpt = true
    · -- `[Optional[y]]`
      cases x <;> simp [Ty.isOpt] at hopt
      rename_i y
      simp only [nfc, Bool.and_eq_true, Bool.not_eq_true'] at hx
      have hynull : y.isNull = false := by
        cases y <;> simp_all [Ty.isOptNull, Ty.isNull]
      simp only [Ty.size] at hsx
      by_cases hyu : y.isUnion = true
      · -- `[Optional[Union[us]]]`: the members of the hidden union are spliced in
        cases y <;> simp [Ty.isUnion] at hyu
        rename_i us
        obtain ⟨um, co, hmu⟩ := nfc_union_facts hx.2
        have hhid : ∀ t ∈ us, hidden t = false := fun t ht =>
          hidden_false_of (um.mem t ht).1 (um.mem t ht).2.1
        rw [optimizeUnion_split, splitMembers_opt_union _ _ hhid]
        obtain ⟨O, J, L, D, S, T, c⟩ := canon_decomp us co
        simp only [Ty.size] at hsx hs hF
        rw [hsx] at hs hF
        have := body_ok ih hP f c [Ty.null] (by simp)
          (by have := um.len
              match us, this with
              | a :: b :: rest, _ => have := Ty.size_pos a; simp only [Ty.sizeList] at hF; omega)
          (by intro m hm'
              have := Ty.size_le_sizeList hm'
              exact ⟨hmu m hm', (um.mem m hm').2.1, by omega, by omega⟩)
          um.intFloat
        rw [this]
        exact finishOpt_null_union c um hmu
      · have hyu' : y.isUnion = false := by simpa using hyu
        rw [optimizeUnion_body _ _ _ _ (by
          intro t ht; simp at ht; subst ht; exact hidden_false_opt hyu')]
        rw [List.foldl_cons, List.foldl_nil, splitStep_opt _ _ _ hx.1]
        obtain ⟨O, J, L, D, S, T, c⟩ := canon_decomp [y] (by simp [canonOrder])
        have := body_ok ih hP f c [Ty.null] (by simp) (by omega)
          (by intro m hm'; simp at hm'; subst hm'; exact ⟨hx.2, hx.1, by omega, by omega⟩)
          (not_int_float_single y)
        rw [show ([y].foldl (splitStep cfg.reg) { other := [Ty.null] }) =
          splitStep cfg.reg { other := [Ty.null] } y from rfl] at this
        show unionBody cfg e f (splitStep cfg.reg { other := [Ty.null] } y) = _
        rw [this]
        have hsing := c.single
        rw [show [Ty.null] ++ O ++ T ++ J ++ L ++ D ++ S = [Ty.null] ++ (O ++ T ++ J ++ L ++ D ++ S) by simp,
          hsing]
        exact finishOpt_null hx.2 hynull
    · have hopt' : x.isOpt = false := by simpa using hopt
      rw [optimizeUnion_body _ _ _ _ (by
        intro t ht; simp at ht; subst ht; exact hidden_false_of hxu hopt')]
      obtain ⟨O, J, L, D, S, T, c⟩ := canon_decomp [x] (by simp [canonOrder])
      have := body_ok ih hP f c [] (by simp) (by omega)
        (by intro m hm'; simp at hm'; subst hm'; exact ⟨hx, hopt', by omega, by omega⟩)
        (not_int_float_single x)
      rw [this, List.nil_append, c.single]; rfl
  · have um := nfUnionMembers_UM hnu
    rw [optimizeUnion_body _ _ _ _ (fun t ht => hidden_false_of (um.mem t ht).1 (um.mem t ht).2.1)]
    obtain ⟨O, J, L, D, S, T, c⟩ := canon_decomp ms co
    have := body_ok ih hP f c [] (by simp)
      (by have := um.len
          match ms, this with
          | a :: b :: rest, _ => have := Ty.size_pos a; simp only [Ty.sizeList] at hF; omega)
      (by intro m hm'
          have := Ty.size_le_sizeList hm'
          exact ⟨hm m hm', (um.mem m hm').2.1, by omega, by omega⟩)
      um.intFloat
    rw [this, List.nil_append]
    rw [finishOpt_multi _ _ (by rw [c.length_eq]; exact um.len)
      (fun t ht => (um.mem t ((c.mem_ms t).mp ht)).2.2.2)
      (fun t ht => (um.mem t ((c.mem_ms t).mp ht)).2.2.1)]
    have h1 := (mkUM_of_canon cfg.lit c um (nfc_lits hm)).1
    rw [show O ++ T ++ J ++ L ++ D ++ S = O ++ T ++ (J ++ L ++ D ++ S) by simp, h1]

theorem idemAt_all (cfg : GenCfg) (e : EqEnv) : ∀ n, IdemAt cfg e n := by
  intro n
  induction n with
  | zero =>
    constructor
    · intro t hs; have := Ty.size_pos t; omega
    · intro ms hs ⟨hm, hcase⟩
      exfalso
      rcases hcase with ⟨x, rfl, _, _⟩ | ⟨hnu, _⟩
      · have := Ty.size_pos x; simp [Ty.sizeList] at hs; omega
      · have := (nfUnionMembers_UM hnu).len
        match ms, this with
        | a :: b :: rest, _ => have := Ty.size_pos a; simp [Ty.sizeList] at hs; omega
  | succ n ih =>
    have hP := P_step ih
    exact ⟨hP, Q_step ih hP⟩

/-- `optimize` is the identity on canonical normal forms, for every comparison environment `e` -/
theorem optimize_idem_nfc (cfg : GenCfg) (e : EqEnv) (t : Ty) (h : nfc cfg t = true)
    (fuel : Nat) (hf : 4 * t.size ≤ fuel) : optimize cfg e fuel t = .ok t :=
  (idemAt_all cfg e t.size).1 t (Nat.le_refl _) h fuel hf

end J2M.C08P
