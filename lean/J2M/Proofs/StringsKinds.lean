/-
  Helper lemmas for C09 (3): where `ser k` members can come from.
-/
import J2M.Proofs.AuxGen
import J2M.Sem
import J2M.Proofs.StringsReg
import J2M.Proofs.StringsUnion
namespace J2M

mutual
/-- the pseudo-type names occurring in a type -/
def Ty.kinds : Ty → List String
  | .ser k => [k]
  | .list t | .dict t | .opt t => Ty.kinds t
  | .union ts | .tuple ts => Ty.kindsList ts
  | .obj fs => Ty.kindsFields fs
  | _ => []
def Ty.kindsList : List Ty → List String
  | [] => []
  | t :: ts => Ty.kinds t ++ Ty.kindsList ts
def Ty.kindsFields : List (String × Ty) → List String
  | [] => []
  | (_, t) :: fs => Ty.kinds t ++ Ty.kindsFields fs
end

namespace Strings

/-! ## removeByName -/

/-- the test of `remove_by_name`: class name or `actual_type.__name__` equals `name` -/
def matchesName (reg : StrRegistry) (name : String) (k : String) : Bool :=
  k == name || (reg.actual.find? (·.1 == k)).map (·.2) == some name

theorem removeByName_eq (reg : StrRegistry) (name : String) :
    reg.removeByName name =
      reg.types.foldl (fun r k => if matchesName reg name k then r.remove k else r) reg := rfl

theorem foldl_remove_count (p : String → Bool) (L : List String) : ∀ r : StrRegistry,
    ∀ k, p k = true →
      (L.foldl (fun r k => if p k then r.remove k else r) r).types.count k ≤ r.types.count k - L.count k := by
  induction L with
  | nil => intro r k _; simp
  | cons x L ih =>
    intro r k hk
    rw [List.foldl_cons]
    by_cases hx : p x = true
    · simp only [hx, if_true]
      refine Nat.le_trans (ih (r.remove x) k hk) ?_
      by_cases e : x = k
      · subst e
        simp only [StrRegistry.remove, List.count_erase_self, List.count_cons_self]
        omega
      · have e' : k ≠ x := fun h => e h.symm
        simp only [StrRegistry.remove, List.count_erase_of_ne e', List.count_cons_of_ne e]
        exact Nat.le_refl _
    · have e : x ≠ k := by intro h; subst h; exact hx hk
      simp only [hx, List.count_cons_of_ne e]
      exact ih r k hk

theorem foldl_remove_mem (p : String → Bool) (L : List String) : ∀ r : StrRegistry,
    (∀ k, k ∈ (L.foldl (fun r k => if p k then r.remove k else r) r).types → k ∈ r.types) ∧
    (∀ k, p k = false → k ∈ r.types → k ∈ (L.foldl (fun r k => if p k then r.remove k else r) r).types) ∧
    (∀ pr, pr ∈ (L.foldl (fun r k => if p k then r.remove k else r) r).replaces → pr ∈ r.replaces) := by
  induction L with
  | nil => intro r; simp
  | cons x L ih =>
    intro r
    rw [List.foldl_cons]
    by_cases hx : p x = true
    · simp only [hx, if_true]
      obtain ⟨h1, h2, h3⟩ := ih (r.remove x)
      refine ⟨fun k hk => List.mem_of_mem_erase (h1 k hk), fun k hk hr => h2 k hk ?_, fun pr hpr => ?_⟩
      · have : k ≠ x := by intro e; subst e; rw [hk] at hx; cases hx
        exact (List.mem_erase_of_ne this).2 hr
      · exact (List.mem_filter.mp (h3 pr hpr)).1
    · simp only [hx]
      exact ih r

/-- after `remove_by_name(name)`: exactly the registered kinds that do not match stay registered -/
theorem mem_removeByName_types (reg : StrRegistry) (name k : String) :
    k ∈ (reg.removeByName name).types ↔ k ∈ reg.types ∧ matchesName reg name k = false := by
  rw [removeByName_eq]
  obtain ⟨h1, h2, _⟩ := foldl_remove_mem (matchesName reg name) reg.types reg
  constructor
  · intro hk
    refine ⟨h1 k hk, ?_⟩
    cases hm : matchesName reg name k with
    | false => rfl
    | true =>
      have := foldl_remove_count (matchesName reg name) reg.types reg k hm
      have hpos : 0 < (reg.types.foldl (fun r k => if matchesName reg name k then r.remove k else r) reg).types.count k :=
        List.count_pos_iff.mpr hk
      omega
  · rintro ⟨hk, hm⟩
    exact h2 k hm hk


theorem foldl_remove_replaces (p : String → Bool) (L : List String) : ∀ r : StrRegistry,
    ∀ k ∈ L, p k = true →
      ∀ pr ∈ (L.foldl (fun r k => if p k then r.remove k else r) r).replaces, pr.1 ≠ k ∧ pr.2 ≠ k := by
  induction L with
  | nil => intro r k hk; cases hk
  | cons x L ih =>
    intro r k hk hpk pr hpr
    rw [List.foldl_cons] at hpr
    rcases List.mem_cons.mp hk with e | hk'
    · subst e
      simp only [hpk, if_true] at hpr
      have := (foldl_remove_mem p L (r.remove k)).2.2 pr hpr
      simpa [StrRegistry.remove] using (List.mem_filter.mp this).2
    · exact ih _ k hk' hpk pr hpr

/-- ... and no remaining `replaces` pair mentions a removed kind -/
theorem removeByName_replaces (reg : StrRegistry) (name k : String) (hk : k ∈ reg.types)
    (hm : matchesName reg name k = true) :
    ∀ pr ∈ (reg.removeByName name).replaces, pr.1 ≠ k ∧ pr.2 ≠ k := by
  rw [removeByName_eq]
  exact foldl_remove_replaces (matchesName reg name) reg.types reg k hk hm

/-! ## kinds of union members -/

theorem mem_kindsList {k : String} {ts : List Ty} : k ∈ Ty.kindsList ts ↔ ∃ t ∈ ts, k ∈ t.kinds := by
  induction ts with
  | nil => simp [Ty.kindsList]
  | cons t ts ih => simp [Ty.kindsList, ih]

theorem mem_kindsFields {k : String} {fs : List (String × Ty)} :
    k ∈ Ty.kindsFields fs ↔ ∃ ft ∈ fs, k ∈ ft.2.kinds := by
  induction fs with
  | nil => simp [Ty.kindsFields]
  | cons ft fs ih =>
    obtain ⟨n, t⟩ := ft
    simp [Ty.kindsFields, ih]

theorem kinds_flattenUnion (ts : List Ty) : ∀ t ∈ flattenUnion ts, ∀ k ∈ t.kinds, k ∈ Ty.kindsList ts := by
  fun_induction flattenUnion ts with
  | case1 => intro t ht; cases ht
  | case2 us rest ih1 ih2 =>
    intro t ht k hk
    simp only [Ty.kindsList, Ty.kinds, List.mem_append]
    rcases List.mem_append.mp ht with h | h
    · exact .inl (ih1 t h k hk)
    · exact .inr (ih2 t h k hk)
  | case3 t' rest hnu ih =>
    intro t ht k hk
    simp only [Ty.kindsList, List.mem_append]
    rcases List.mem_cons.mp ht with e | h
    · subst e; exact .inl hk
    · exact .inr (ih t h k hk)

theorem kinds_mkUnionMembers (c : LitCfg) (ts : List Ty) :
    ∀ k ∈ Ty.kindsList (mkUnionMembers c ts), k ∈ Ty.kindsList ts := by
  intro k hk
  obtain ⟨t, ht, hkt⟩ := mem_kindsList.mp hk
  by_cases hl : t.isLit = true
  · cases t <;> simp [Ty.isLit] at hl
    simp [Ty.kinds] at hkt
  · rcases nonlit_mem_imp c ts t ht (by simpa using hl) with h | ⟨rfl, _⟩
    · exact kinds_flattenUnion ts t h k hkt
    · simp [Ty.kinds] at hkt


/-! ## kinds of detected types -/

theorem bind_ok {ε α β : Type} {x : Except ε α} {f : α → Except ε β} {b : β}
    (h : (x >>= f) = .ok b) : ∃ a, x = .ok a ∧ f a = .ok b := by
  cases x with
  | error e => cases h
  | ok a => exact ⟨a, rfl, h⟩

theorem kinds_mkLit (c : LitCfg) (vs : List String) : (mkLit c vs).kinds = [] := by
  unfold mkLit; split <;> rfl

theorem kinds_wrapElems (c : LitCfg) (wrap : Ty → Ty) (hw : ∀ t, (wrap t).kinds = t.kinds) (ts : List Ty) :
    ∀ k ∈ (wrapElems c wrap ts).kinds, k ∈ Ty.kindsList ts := by
  intro k hk
  have hU := kinds_mkUnionMembers c ts
  unfold wrapElems at hk
  split at hk
  · rw [hw] at hk; simp [Ty.kindsList, hk]
  · split at hk
    · rename_i u hu
      rw [hw] at hk
      exact hU k (by rw [hu]; simp [Ty.kindsList, hk])
    · rw [hw] at hk
      exact hU k (by simpa [Ty.kinds] using hk)

section detect
variable (cfg : GenCfg) (o : GenOracles)

mutual
theorem kinds_detect : ∀ (v : Json) (cd : Bool) (t : Ty), detect cfg o cd v = .ok t →
    ∀ k ∈ t.kinds, k ∈ cfg.reg.types
  | .bool _, cd, t, h => by simp [detect, pure, Except.pure] at h; subst h; simp [Ty.kinds]
  | .int _, cd, t, h => by simp [detect, pure, Except.pure] at h; subst h; simp [Ty.kinds]
  | .float _, cd, t, h => by simp [detect, pure, Except.pure] at h; subst h; simp [Ty.kinds]
  | .null, cd, t, h => by simp [detect, pure, Except.pure] at h; subst h; simp [Ty.kinds]
  | .arr [], cd, t, h => by simp [detect, pure, Except.pure] at h; subst h; simp [Ty.kinds]
  | .arr (x :: xs), cd, t, h => by
    rw [detect] at h
    obtain ⟨ts, hts, h⟩ := bind_ok h
    have e : t = wrapElems cfg.lit .list ts := by simpa [pure, Except.pure] using h.symm
    subst e
    intro k hk
    have := kinds_wrapElems cfg.lit .list (fun _ => rfl) ts k hk
    exact kinds_detectList (x :: xs) ts hts k this
  | .obj [], cd, t, h => by simp [detect, pure, Except.pure] at h; subst h; simp [Ty.kinds]
  | .obj (kv :: kvs), cd, t, h => by
    rw [detect] at h
    obtain ⟨rx, _, h⟩ := bind_ok h
    dsimp only at h
    by_cases hc : (if rx = true then false else cd) = true
    · rw [if_pos hc] at h
      obtain ⟨fs, hfs, h⟩ := bind_ok h
      have e : t = .obj fs := by simpa [pure, Except.pure] using h.symm
      subst e
      intro k hk
      exact kinds_convertFields (kv :: kvs) fs hfs k (by simpa [Ty.kinds] using hk)
    · rw [if_neg hc] at h
      obtain ⟨ts, hts, h⟩ := bind_ok h
      have e : t = wrapElems cfg.lit .dict ts := by simpa [pure, Except.pure] using h.symm
      subst e
      intro k hk
      have := kinds_wrapElems cfg.lit .dict (fun _ => rfl) ts k hk
      exact kinds_detectVals (kv :: kvs) ts hts k this
  | .str s, cd, t, h => by
    rw [detect] at h
    obtain ⟨r, hr, h⟩ := bind_ok h
    cases r with
    | none =>
      have e : t = mkLit cfg.lit [s] := by simpa [pure, Except.pure] using h.symm
      subst e
      intro k hk; rw [kinds_mkLit] at hk; cases hk
    | some k' =>
      have e : t = .ser k' := by simpa [pure, Except.pure] using h.symm
      subst e
      intro k hk
      have : k = k' := by simpa [Ty.kinds] using hk
      subst this
      exact (detectGo_mem o.accepts s k cfg.reg.types hr).1
theorem kinds_detectList : ∀ (xs : List Json) (ts : List Ty), detectList cfg o xs = .ok ts →
    ∀ k ∈ Ty.kindsList ts, k ∈ cfg.reg.types
  | [], ts, h => by simp [detectList, pure, Except.pure] at h; subst h; simp [Ty.kindsList]
  | x :: xs, ts, h => by
    rw [detectList] at h
    obtain ⟨t, ht, h⟩ := bind_ok h
    obtain ⟨ts', hts', h⟩ := bind_ok h
    have e : ts = t :: ts' := by simpa [pure, Except.pure] using h.symm
    subst e
    intro k hk
    simp only [Ty.kindsList, List.mem_append] at hk
    rcases hk with hk | hk
    · exact kinds_detect x true t ht k hk
    · exact kinds_detectList xs ts' hts' k hk
theorem kinds_detectVals : ∀ (xs : List (String × Json)) (ts : List Ty), detectVals cfg o xs = .ok ts →
    ∀ k ∈ Ty.kindsList ts, k ∈ cfg.reg.types
  | [], ts, h => by simp [detectVals, pure, Except.pure] at h; subst h; simp [Ty.kindsList]
  | (n, x) :: xs, ts, h => by
    rw [detectVals] at h
    obtain ⟨t, ht, h⟩ := bind_ok h
    obtain ⟨ts', hts', h⟩ := bind_ok h
    have e : ts = t :: ts' := by simpa [pure, Except.pure] using h.symm
    subst e
    intro k hk
    simp only [Ty.kindsList, List.mem_append] at hk
    rcases hk with hk | hk
    · exact kinds_detect x true t ht k hk
    · exact kinds_detectVals xs ts' hts' k hk
theorem kinds_convertFields : ∀ (xs : List (String × Json)) (fs : Fields), convertFields cfg o xs = .ok fs →
    ∀ k ∈ Ty.kindsFields fs, k ∈ cfg.reg.types
  | [], fs, h => by simp [convertFields, pure, Except.pure] at h; subst h; simp [Ty.kindsFields]
  | (n, x) :: xs, fs, h => by
    rw [convertFields] at h
    obtain ⟨t, ht, h⟩ := bind_ok h
    obtain ⟨fs', hfs', h⟩ := bind_ok h
    have e : fs = (n, t) :: fs' := by simpa [pure, Except.pure] using h.symm
    subst e
    intro k hk
    simp only [Ty.kindsFields, List.mem_append] at hk
    rcases hk with hk | hk
    · exact kinds_detect x _ t ht k hk
    · exact kinds_convertFields xs fs' hfs' k hk
end

end detect

end Strings
end J2M
