/- The comparison environment `generate` uses (shared by the C01 and C02/C07/C13 developments). -/
import J2M.Generator
namespace J2M

def genEnv (o : GenOracles) : EqEnv := ⟨o.str, fun i => "Model#" ++ i, fun _ => none, 1000000⟩

end J2M
