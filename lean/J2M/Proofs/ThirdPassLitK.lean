/-
  C08, identity of a further pass at the registry stage — the representation invariant of literal sets, for ALL
  inputs.  `litK cfg t`: every non-overflowed `StringLiteral` in `t` holds a sorted, duplicate-free, non-empty list
  within the limits (`C08P.rawK` without the condition "distinct keys" on inline dicts).  It is established by
  `_detect_type` and kept by `DUnion`, `merge_field_sets`, `optimize_type` (ANY input, any fuel, any `==`) and
  `process_meta_data` — so it holds for every field of every model `buildGraph` registers, with no hypothesis on the
  JSON samples.  On registry-stage metadata (`TwoPass.out`: no inline dict) it coincides with `rawK`.
-/
import J2M.Proofs.TwoPassGen
namespace J2M.ThirdPass
open J2M J2M.C08P J2M.TwoPass J2M.Reg

/-! ## 1. the predicate -/

mutual
/-- literal sets are sorted, duplicate-free, non-empty, within the limits (or overflowed) -/
def litK (cfg : GenCfg) : Ty → Bool
  | .lit ov vs => ov || litStable cfg.lit vs
  | .list t | .dict t | .opt t => litK cfg t
  | .union ts | .tuple ts => litKList cfg ts
  | .obj fs => litKFields cfg fs
  | _ => true
def litKList (cfg : GenCfg) : List Ty → Bool
  | [] => true
  | t :: ts => litK cfg t && litKList cfg ts
def litKFields (cfg : GenCfg) : List (String × Ty) → Bool
  | [] => true
  | (_, t) :: fs => litK cfg t && litKFields cfg fs
end

theorem litKList_iff (cfg : GenCfg) (ts : List Ty) : litKList cfg ts = true ↔ ∀ t ∈ ts, litK cfg t = true := by
  induction ts <;> simp_all [litKList]

theorem litKFields_iff (cfg : GenCfg) (fs : List (String × Ty)) :
    litKFields cfg fs = true ↔ ∀ kv ∈ fs, litK cfg kv.2 = true := by
  induction fs with
  | nil => simp [litKFields]
  | cons kv fs ih => obtain ⟨k, t⟩ := kv; simp_all [litKFields]

theorem litK_union {cfg : GenCfg} {ms : List Ty} (h : litK cfg (.union ms) = true) :
    ∀ t ∈ ms, litK cfg t = true := by
  simp only [litK] at h
  exact (litKList_iff cfg ms).mp h

theorem litK_union_of {cfg : GenCfg} {ms : List Ty} (h : ∀ t ∈ ms, litK cfg t = true) :
    litK cfg (.union ms) = true := by
  simp only [litK]
  exact (litKList_iff cfg ms).mpr h

mutual
/-- on metadata without inline dicts / tuples (`out`), `litK` is `rawK` -/
theorem out_litK_rawK (cfg : GenCfg) : ∀ t, out cfg t = true → litK cfg t = true → rawK cfg t = true
  | .int, _, _ | .float, _, _ | .bool, _, _ | .str, _, _ | .null, _, _ | .unknown, _, _ | .ser _, _, _
  | .ptr _, _, _ => by simp [rawK]
  | .lit ov vs, _, h => by simpa [rawK, litK] using h
  | .list t, h1, h2 | .dict t, h1, h2 => by
    simp only [out] at h1
    simp only [litK] at h2
    simp only [rawK]; exact out_litK_rawK cfg t h1 h2
  | .opt t, h1, h2 => by
    simp only [out, Bool.and_eq_true] at h1
    simp only [litK] at h2
    simp only [rawK]; exact out_litK_rawK cfg t h1.2 h2
  | .union ts, h1, h2 => by
    simp only [out, Bool.and_eq_true] at h1
    simp only [litK] at h2
    simp only [rawK]; exact outList_litK_rawK cfg ts h1.2 h2
  | .tuple _, h1, _ | .obj _, h1, _ => by simp [out] at h1
theorem outList_litK_rawK (cfg : GenCfg) :
    ∀ ts, outList cfg ts = true → litKList cfg ts = true → rawKList cfg ts = true
  | [], _, _ => by simp [rawKList]
  | t :: ts, h1, h2 => by
    simp only [outList, Bool.and_eq_true] at h1
    simp only [litKList, Bool.and_eq_true] at h2
    simp only [rawKList, Bool.and_eq_true]
    exact ⟨out_litK_rawK cfg t h1.1 h2.1, outList_litK_rawK cfg ts h1.2 h2.2⟩
end

/-! ## 2. `DUnion` -/

theorem flatten_litK {cfg : GenCfg} (ts : List Ty) (h : ∀ t ∈ ts, litK cfg t = true) :
    ∀ t ∈ flattenUnion ts, litK cfg t = true := by
  fun_induction flattenUnion ts with
  | case1 => simp
  | case2 us rest ih1 ih2 =>
    intro t ht
    rw [List.mem_append] at ht
    rcases ht with ht | ht
    · exact ih1 (litK_union (h _ (by simp))) t ht
    · exact ih2 (fun u hu => h u (by simp [hu])) t ht
  | case3 rest u hne ih =>
    intro t ht
    rcases List.mem_cons.mp ht with rfl | ht
    · exact h _ (by simp)
    · exact ih (fun u hu => h u (by simp [hu])) t ht

theorem mkUM_litK {cfg : GenCfg} (ts : List Ty) (h : ∀ t ∈ ts, litK cfg t = true) :
    ∀ m ∈ mkUnionMembers cfg.lit ts, litK cfg m = true := by
  intro m hm
  rcases mem_mkUM hm with ⟨h1, _⟩ | rfl | ⟨vs, rfl, _, _⟩
  · exact flatten_litK ts h m h1
  · simp [litK]
  · simp only [litK, Bool.false_or]
    exact (mkUM_lit_stable cfg.lit ts false vs hm).2

theorem collapse1_litK {cfg : GenCfg} (ts : List Ty) (h : ∀ t ∈ ts, litK cfg t = true) :
    litK cfg (collapse1 (mkUnionMembers cfg.lit ts)) = true := by
  have hm := mkUM_litK ts h
  generalize mkUnionMembers cfg.lit ts = us at hm
  unfold collapse1
  split
  · exact hm _ (by simp)
  · exact litK_union_of hm

theorem collapse_litK {cfg : GenCfg} (ts : List Ty) (h : ∀ t ∈ ts, litK cfg t = true) :
    litK cfg (C08P.collapse (mkUnionMembers cfg.lit ts)) = true := by
  have hm := mkUM_litK ts h
  generalize mkUnionMembers cfg.lit ts = us at hm
  match us, hm with
  | [], _ => rfl
  | [x], hm => exact hm x (by simp)
  | a :: b :: rest, hm => exact litK_union_of hm

theorem mkUnion_litK {cfg : GenCfg} (ts : List Ty) (h : ∀ t ∈ ts, litK cfg t = true) :
    litK cfg (mkUnion cfg.lit ts) = true := litK_union_of (mkUM_litK ts h)

theorem unionMembers_litK {cfg : GenCfg} {t : Ty} (h : litK cfg t = true) :
    ∀ u ∈ t.unionMembers, litK cfg u = true := by
  cases t with
  | union ts => exact litK_union h
  | _ => simpa [Ty.unionMembers] using h

theorem merged_litK {cfg : GenCfg} {a b : Ty} (ha : litK cfg a = true) (hb : litK cfg b = true) :
    litK cfg (collapse1 (mkUnionMembers cfg.lit (a.unionMembers ++ b.unionMembers))) = true := by
  apply collapse1_litK
  intro t ht
  rcases List.mem_append.mp ht with h | h
  · exact unionMembers_litK ha t h
  · exact unionMembers_litK hb t h

/-! ## 3. `merge_field_sets` -/

def AllLitK (cfg : GenCfg) (fs : Fields) : Prop := ∀ kv ∈ fs, litK cfg kv.2 = true

theorem AllLitK.set {cfg : GenCfg} {fs : Fields} (h : AllLitK cfg fs) (k : String) {v : Ty}
    (hv : litK cfg v = true) : AllLitK cfg (Fields.set fs k v) := by
  intro kv hkv
  rcases C08P.Fields.mem_set hkv with h' | rfl
  · exact h kv h'
  · exact hv

theorem mergeOne_litK {cfg : GenCfg} {e : EqEnv} {first : Bool} {fields fields' : Fields} {name : String}
    {field : Ty} (hf : AllLitK cfg fields) (hd : litK cfg field = true)
    (h : mergeOne cfg.lit e first fields name field = .ok fields') : AllLitK cfg fields' := by
  unfold mergeOne at h
  split at h
  · simp only [pure, Except.pure, Except.ok.injEq] at h
    subst h
    apply hf.set
    split
    · exact hd
    · simpa [litK] using hd
  · rename_i orig hget
    obtain ⟨k', hmem⟩ := C08P.Fields.get?_mem hget
    have horig : litK cfg orig = true := hf _ hmem
    split at h
    · rename_i origInner
      have hin : litK cfg origInner = true := by simpa [litK] using horig
      simp only [bind, Except.bind] at h
      split at h
      · cases h
      · split at h
        · simp only [pure, Except.pure, Except.ok.injEq] at h; subst h; exact hf
        · split at h
          · cases h
          · split at h
            · simp only [pure, Except.pure, Except.ok.injEq] at h; subst h; exact hf
            · simp only [pure, Except.pure, Except.ok.injEq] at h; subst h
              apply hf.set
              simp only [litK]
              exact merged_litK hd hin
    · simp only [bind, Except.bind] at h
      split at h
      · cases h
      · split at h
        · simp only [pure, Except.pure, Except.ok.injEq] at h; subst h; exact hf
        · split at h
          · cases h
          · split at h
            · simp only [pure, Except.pure, Except.ok.injEq] at h; subst h
              apply hf.set
              exact hd
            · simp only [pure, Except.pure, Except.ok.injEq] at h; subst h
              apply hf.set
              exact merged_litK hd horig

theorem foldlM_mergeOne_litK {cfg : GenCfg} {e : EqEnv} {first : Bool} (model : Fields)
    (hmodel : ∀ kv ∈ model, litK cfg kv.2 = true) :
    ∀ (fields fields' : Fields), AllLitK cfg fields →
      model.foldlM (fun fs (kv : String × Ty) => mergeOne cfg.lit e first fs kv.1 kv.2) fields = .ok fields' →
      AllLitK cfg fields' := by
  induction model with
  | nil =>
    intro fields fields' hf h
    simp only [List.foldlM_nil, pure, Except.pure, Except.ok.injEq] at h
    subst h; exact hf
  | cons kv model ih =>
    intro fields fields' hf h
    rw [List.foldlM_cons] at h
    simp only [bind, Except.bind] at h
    split at h
    · cases h
    · rename_i f1 h1
      exact ih (fun kv' h' => hmodel kv' (by simp [h'])) f1 fields'
        (mergeOne_litK hf (hmodel kv (by simp)) h1) h

theorem mergeStep_litK {cfg : GenCfg} {e : EqEnv} {first : Bool} {fields fields' model : Fields}
    (hf : AllLitK cfg fields) (hmodel : ∀ kv ∈ model, litK cfg kv.2 = true)
    (h : mergeStep cfg.lit e first fields model = .ok fields') : AllLitK cfg fields' := by
  unfold mergeStep at h
  simp only [bind, Except.bind] at h
  split at h
  · cases h
  · rename_i f1 h1
    have hf1 := foldlM_mergeOne_litK model hmodel fields f1 hf h1
    simp only [pure, Except.pure, Except.ok.injEq] at h
    subst h
    intro kv hkv
    simp only [List.mem_map] at hkv
    obtain ⟨kv0, hkv0, rfl⟩ := hkv
    split
    · simpa [litK] using hf1 kv0 hkv0
    · exact hf1 kv0 hkv0

theorem mergeGo_litK {cfg : GenCfg} {e : EqEnv} (sets : List Fields)
    (hsets : ∀ m ∈ sets, ∀ kv ∈ m, litK cfg kv.2 = true) :
    ∀ (first : Bool) (fields fields' : Fields), AllLitK cfg fields →
      mergeFieldSets.go cfg.lit e first fields sets = .ok fields' → AllLitK cfg fields' := by
  induction sets with
  | nil =>
    intro first fields fields' hf h
    simp only [mergeFieldSets.go, pure, Except.pure, Except.ok.injEq] at h
    subst h; exact hf
  | cons m ms ih =>
    intro first fields fields' hf h
    simp only [mergeFieldSets.go, bind, Except.bind] at h
    split at h
    · cases h
    · rename_i f1 h1
      exact ih (fun m' hm' => hsets m' (by simp [hm'])) false f1 fields'
        (mergeStep_litK hf (hsets m (by simp)) h1) h

/-- **`merge_field_sets` keeps literal sets sorted** (whatever `==` answers) -/
theorem mergeFieldSets_litK {cfg : GenCfg} {e : EqEnv} {sets : List Fields} {fields' : Fields}
    (hsets : ∀ m ∈ sets, ∀ kv ∈ m, litK cfg kv.2 = true)
    (h : mergeFieldSets cfg.lit e sets = .ok fields') : AllLitK cfg fields' :=
  mergeGo_litK sets hsets true [] fields' (fun _ h => by cases h) h

/-! ## 4. `optimize_type`, any input -/

theorem finish_litK {cfg : GenCfg} {T : List Ty} {t' : Ty} (hT : ∀ t ∈ T, litK cfg t = true)
    (h : finishOpt cfg.lit T = .ok t') : litK cfg t' = true := by
  match T, h with
  | [], h => simp [finishOpt] at h
  | [t], h =>
    simp only [finishOpt, pure, Except.pure, Except.ok.injEq] at h
    subst h; exact hT _ (by simp)
  | a :: b :: rest, h =>
    rw [finishOpt_ge2 _ _ (by simp)] at h
    simp only [Except.ok.injEq] at h
    have hsub : ((dropUnknown (a :: b :: rest)).filter (fun t => !t.isNull)).Sublist (a :: b :: rest) :=
      (List.filter_sublist).trans (dropUnknown_sublist _)
    have hc := collapse_litK (cfg := cfg) _ (fun t ht => hT t (hsub.subset ht))
    subst h
    split
    · simpa [litK] using hc
    · exact hc

/-- the fields of `optimize_type` on a field dict -/
theorem mapM_fields_inv {ε} (g : Ty → Except ε Ty) (fs fs' : List (String × Ty))
    (h : fs.mapM (fun (kv : String × Ty) => do let v ← g kv.2; pure (kv.1, v)) = .ok fs') :
    ∀ kv' ∈ fs', ∃ kv ∈ fs, g kv.2 = .ok kv'.2 := by
  intro kv' hkv'
  obtain ⟨kv, hkv, hopt⟩ := mapM_mem_inv _ _ _ h kv' hkv'
  simp only [bind, Except.bind] at hopt
  split at hopt
  · cases hopt
  · rename_i v hv
    simp only [pure, Except.pure, Except.ok.injEq] at hopt
    subst hopt
    exact ⟨kv, hkv, hv⟩

theorem litK_union_step {cfg : GenCfg} {e : EqEnv} {f : Nat}
    (ih : ∀ t t', litK cfg t = true → optimize cfg e f t = .ok t' → litK cfg t' = true)
    {ms : List Ty} {t' : Ty} (hms : ∀ m ∈ ms, litK cfg m = true)
    (h : optimizeUnion cfg e (f + 1) ms = .ok t') : litK cfg t' = true := by
  rw [optimizeUnion_split] at h
  have hfl : ∀ x ∈ SplitW.flatL ms, litK cfg x = true :=
    SplitW.forall_flatL' (R := fun t => litK cfg t = true) rfl (fun x hx => by simpa [litK] using hx)
      (fun us hu => litK_union hu) hms
  have hother : ∀ x ∈ (splitMembers cfg.reg ms).other, litK cfg x = true := by
    intro x hx
    rcases SplitW.other_subset hx with rfl | hx | hx
    · rfl
    · exact hfl x hx
    · have := hfl _ hx; simpa [litK] using this
  have hlists : ∀ x ∈ (splitMembers cfg.reg ms).lists, litK cfg x = true := by
    intro x hx
    rcases SplitW.mem_lists.mp hx with hx | hx
    · have := hfl _ hx; simpa [litK] using this
    · have := hfl _ hx; simpa [litK] using this
  have hdicts : ∀ x ∈ (splitMembers cfg.reg ms).dicts, litK cfg x = true := by
    intro x hx
    rcases SplitW.mem_dicts.mp hx with hx | hx
    · have := hfl _ hx; simpa [litK] using this
    · have := hfl _ hx; simpa [litK] using this
  have hmerge : ∀ fs ∈ (splitMembers cfg.reg ms).toMerge, ∀ kv ∈ fs, litK cfg kv.2 = true := by
    intro fs hx
    rcases SplitW.mem_toMerge.mp hx with hx | hx
    · have := hfl _ hx; simp only [litK] at this; exact (litKFields_iff cfg fs).mp this
    · have := hfl _ hx; simp only [litK] at this; exact (litKFields_iff cfg fs).mp this
  unfold unionBody at h
  simp only [bind, Except.bind] at h
  split at h
  · cases h
  · rename_i o1 hm1
    split at h
    · cases h
    · rename_i o4 hstr
      split at h
      · cases h
      · rename_i types hmap
        have ho1 : ∀ x ∈ o1, litK cfg x = true := by
          intro x hx
          rcases stageMerge_inv hm1 with ⟨_, rfl⟩ | ⟨m, hm, rfl⟩
          · exact hother x ((stageInt_sublist _).subset hx)
          · rcases List.mem_append.mp hx with hx | hx
            · exact hother x ((stageInt_sublist _).subset hx)
            · simp only [List.mem_singleton] at hx; subst hx
              simp only [litK]
              exact (litKFields_iff cfg m).mpr (mergeFieldSets_litK hmerge hm)
        have hX : ∀ x ∈ stageDict cfg.lit (stageList cfg.lit o1 (splitMembers cfg.reg ms).lists)
            (splitMembers cfg.reg ms).dicts, litK cfg x = true := by
          intro x hx
          rw [stageDict_eq, stageList_eq] at hx
          simp only [List.mem_append] at hx
          rcases hx with (hx | hx) | hx
          · exact ho1 x hx
          · split at hx
            · cases hx
            · simp only [List.mem_singleton] at hx; subst hx
              simp only [litK]; exact mkUnion_litK _ hlists
          · split at hx
            · cases hx
            · simp only [List.mem_singleton] at hx; subst hx
              simp only [litK]; exact mkUnion_litK _ hdicts
        have ho4 : ∀ x ∈ o4, litK cfg x = true := by
          intro x hx
          rcases stageStr_inv hstr with rfl | rfl | ⟨k, rfl⟩
          · exact hX x hx
          · rcases List.mem_append.mp hx with hx | hx
            · exact hX x hx
            · simp only [List.mem_singleton] at hx; subst hx; rfl
          · rcases List.mem_append.mp hx with hx | hx
            · exact hX x hx
            · simp only [List.mem_singleton] at hx; subst hx; rfl
        apply finish_litK _ h
        intro t ht
        obtain ⟨x, hx, hxt⟩ := mapM_mem_inv _ _ _ hmap t ht
        exact ih x t (ho4 x hx) hxt

theorem litK_type_step {cfg : GenCfg} {e : EqEnv} {f : Nat}
    (ih : ∀ t t', litK cfg t = true → optimize cfg e f t = .ok t' → litK cfg t' = true)
    (ihU : ∀ ms t', (∀ m ∈ ms, litK cfg m = true) → optimizeUnion cfg e f ms = .ok t' → litK cfg t' = true)
    {t t' : Ty} (hk : litK cfg t = true) (h : optimize cfg e (f + 1) t = .ok t') : litK cfg t' = true := by
  cases t with
  | int | float | bool | str | null | unknown | ptr _ | ser _ =>
    simp [optimize, pure, Except.pure] at h; subst h; rfl
  | lit ov vs =>
    rw [optimize] at h
    split at h
    · simp only [pure, Except.pure, Except.ok.injEq] at h; subst h; rfl
    · simp only [pure, Except.pure, Except.ok.injEq] at h; subst h; exact hk
  | list x =>
    rw [optimize] at h
    simp only [bind, Except.bind] at h
    split at h
    · cases h
    · rename_i y hy
      simp only [pure, Except.pure, Except.ok.injEq] at h; subst h
      simp only [litK]
      exact ih x y (by simpa [litK] using hk) hy
  | dict x =>
    rw [optimize] at h
    simp only [bind, Except.bind] at h
    split at h
    · cases h
    · rename_i y hy
      simp only [pure, Except.pure, Except.ok.injEq] at h; subst h
      simp only [litK]
      exact ih x y (by simpa [litK] using hk) hy
  | opt x =>
    rw [optimize] at h
    simp only [bind, Except.bind] at h
    split at h
    · cases h
    · rename_i y hy
      have hy' := ih x y (by simpa [litK] using hk) hy
      split at h
      · simp only [pure, Except.pure, Except.ok.injEq] at h; subst h; exact hy'
      · simp only [pure, Except.pure, Except.ok.injEq] at h; subst h
        simpa [litK] using hy'
  | union ms =>
    rw [optimize] at h
    exact ihU ms t' (litK_union hk) h
  | tuple ts =>
    rw [optimize] at h
    simp only [bind, Except.bind] at h
    split at h
    · cases h
    · rename_i ts' hts'
      simp only [pure, Except.pure, Except.ok.injEq] at h; subst h
      simp only [litK] at hk ⊢
      rw [litKList_iff] at hk ⊢
      intro y hy
      obtain ⟨x, hx, hxy⟩ := mapM_mem_inv _ _ _ hts' y hy
      exact ih x y (hk x hx) hxy
  | obj fs =>
    rw [optimize] at h
    simp only [bind, Except.bind] at h
    split at h
    · cases h
    · rename_i fs' hfs'
      simp only [pure, Except.pure, Except.ok.injEq] at h; subst h
      simp only [litK] at hk ⊢
      rw [litKFields_iff] at hk ⊢
      intro kv' hkv'
      obtain ⟨kv, hkv, hv⟩ := mapM_fields_inv (optimize cfg e f) fs fs' hfs' kv' hkv'
      exact ih kv.2 kv'.2 (hk kv hkv) hv

theorem optimize_litK_all (cfg : GenCfg) (e : EqEnv) : ∀ fuel,
    (∀ t t', litK cfg t = true → optimize cfg e fuel t = .ok t' → litK cfg t' = true) ∧
    (∀ ms t', (∀ m ∈ ms, litK cfg m = true) → optimizeUnion cfg e fuel ms = .ok t' → litK cfg t' = true) := by
  intro fuel
  induction fuel with
  | zero =>
    constructor
    · intro t t' _ h; simp [optimize] at h
    · intro ms t' _ h; simp [optimizeUnion] at h
  | succ f ih =>
    exact ⟨fun t t' hk h => litK_type_step ih.1 ih.2 hk h, fun ms t' hk h => litK_union_step ih.1 hk h⟩

/-- **`optimize_type` keeps literal sets sorted** — any metadata, any fuel, any comparison environment -/
theorem optimize_litK (cfg : GenCfg) (e : EqEnv) (fuel : Nat) (t t' : Ty) (hk : litK cfg t = true)
    (h : optimize cfg e fuel t = .ok t') : litK cfg t' = true :=
  (optimize_litK_all cfg e fuel).1 t t' hk h

/-! ## 5. `_detect_type` -/

theorem mkLit_single_litK (cfg : GenCfg) (s : String) : litK cfg (mkLit cfg.lit [s]) = true := by
  have := mkLit_single_rawK cfg s
  rcases mkLit_cases cfg.lit [s] with h | h
  · rw [h]; simp [litK]
  · rw [h] at this ⊢; simpa [litK, rawK] using this

theorem wrapElems_litK {cfg : GenCfg} (wrap : Ty → Ty) (hw : ∀ t, litK cfg t = true → litK cfg (wrap t) = true)
    (ts : List Ty) (h : ∀ t ∈ ts, litK cfg t = true) : litK cfg (wrapElems cfg.lit wrap ts) = true := by
  rw [wrapElems_eq]
  split
  · exact hw _ (h _ (by simp))
  · exact hw _ (collapse1_litK ts h)

mutual
theorem detect_litK (cfg : GenCfg) (o : GenOracles) :
    ∀ (cd : Bool) (v : Json) (t : Ty), detect cfg o cd v = .ok t → litK cfg t = true
  | cd, .bool _, t, h | cd, .int _, t, h | cd, .float _, t, h | cd, .null, t, h => by
    simp only [detect, pure, Except.pure, Except.ok.injEq] at h; subst h; simp [litK]
  | cd, .arr [], t, h => by
    simp only [detect, pure, Except.pure, Except.ok.injEq] at h; subst h; simp [litK]
  | cd, .arr (x :: xs), t, h => by
    simp only [detect, bind, Except.bind] at h
    split at h
    · cases h
    · rename_i ts hts
      simp only [pure, Except.pure, Except.ok.injEq] at h; subst h
      exact wrapElems_litK .list (fun t ht => by simpa [litK] using ht) ts
        (detectList_litK cfg o (x :: xs) ts hts)
  | cd, .obj [], t, h => by
    simp only [detect, pure, Except.pure, Except.ok.injEq] at h; subst h; simp [litK]
  | cd, .obj (kv :: kvs), t, h => by
    simp only [detect, bind, Except.bind] at h
    split at h
    · cases h
    · rename_i rx hrx
      generalize (if rx = true then false else cd) = cd' at h
      cases cd'
      · simp only [Bool.false_eq_true, ↓reduceIte] at h
        split at h
        · cases h
        · rename_i ts hts
          simp only [pure, Except.pure, Except.ok.injEq] at h; subst h
          exact wrapElems_litK .dict (fun t ht => by simpa [litK] using ht) ts
            (detectVals_litK cfg o (kv :: kvs) ts hts)
      · simp only [↓reduceIte] at h
        split at h
        · cases h
        · rename_i fs hfs
          simp only [pure, Except.pure, Except.ok.injEq] at h; subst h
          simp only [litK]
          exact (litKFields_iff cfg fs).mpr (convertFields_litK cfg o (kv :: kvs) fs hfs)
  | cd, .str s, t, h => by
    simp only [detect, bind, Except.bind] at h
    split at h
    · cases h
    · split at h
      · simp only [pure, Except.pure, Except.ok.injEq] at h; subst h; simp [litK]
      · simp only [pure, Except.pure, Except.ok.injEq] at h; subst h
        exact mkLit_single_litK cfg s
theorem detectList_litK (cfg : GenCfg) (o : GenOracles) :
    ∀ (xs : List Json) (ts : List Ty), detectList cfg o xs = .ok ts → ∀ t ∈ ts, litK cfg t = true
  | [], ts, h => by
    simp only [detectList, pure, Except.pure, Except.ok.injEq] at h; subst h; simp
  | x :: xs, ts, h => by
    simp only [detectList, bind, Except.bind] at h
    split at h
    · cases h
    · rename_i t ht
      split at h
      · cases h
      · rename_i ts' hts'
        simp only [pure, Except.pure, Except.ok.injEq] at h; subst h
        intro u hu
        rcases List.mem_cons.mp hu with rfl | hu
        · exact detect_litK cfg o true x _ ht
        · exact detectList_litK cfg o xs ts' hts' u hu
theorem detectVals_litK (cfg : GenCfg) (o : GenOracles) :
    ∀ (xs : List (String × Json)) (ts : List Ty), detectVals cfg o xs = .ok ts → ∀ t ∈ ts, litK cfg t = true
  | [], ts, h => by
    simp only [detectVals, pure, Except.pure, Except.ok.injEq] at h; subst h; simp
  | (_, x) :: xs, ts, h => by
    simp only [detectVals, bind, Except.bind] at h
    split at h
    · cases h
    · rename_i t ht
      split at h
      · cases h
      · rename_i ts' hts'
        simp only [pure, Except.pure, Except.ok.injEq] at h; subst h
        intro u hu
        rcases List.mem_cons.mp hu with rfl | hu
        · exact detect_litK cfg o true x _ ht
        · exact detectVals_litK cfg o xs ts' hts' u hu
theorem convertFields_litK (cfg : GenCfg) (o : GenOracles) :
    ∀ (xs : List (String × Json)) (fs : Fields), convertFields cfg o xs = .ok fs →
      ∀ kv ∈ fs, litK cfg kv.2 = true
  | [], fs, h => by
    simp only [convertFields, pure, Except.pure, Except.ok.injEq] at h; subst h; simp
  | (k, x) :: xs, fs, h => by
    simp only [convertFields, bind, Except.bind] at h
    split at h
    · cases h
    · rename_i t ht
      split at h
      · cases h
      · rename_i fs' hfs'
        simp only [pure, Except.pure, Except.ok.injEq] at h; subst h
        intro u hu
        rcases List.mem_cons.mp hu with rfl | hu
        · exact detect_litK cfg o _ x _ ht
        · exact convertFields_litK cfg o xs fs' hfs' u hu
end

/-- **every result of `MetadataGenerator.generate` has sorted literal sets** — all samples, oracles, options -/
theorem generate_litK {cfg : GenCfg} {o : GenOracles} {samples : List Json} {t : Ty}
    (h : generate cfg o samples = .ok t) : litK cfg t = true := by
  unfold generate at h
  simp only [bind, Except.bind] at h
  split at h
  · cases h
  · rename_i sets hsets
    split at h
    · cases h
    · rename_i fields hfields
      have hK : AllLitK cfg fields := by
        apply mergeFieldSets_litK _ hfields
        intro m hm
        obtain ⟨v, _, hv⟩ := mapM_mem_inv _ _ _ hsets m hm
        cases v <;> simp [convert] at hv
        exact convertFields_litK cfg o _ m hv
      exact optimize_litK cfg _ _ _ t (by simp only [litK]; exact (litKFields_iff cfg fields).mpr hK) h

/-! ## 6. `process_meta_data` -/

theorem processTy_tuple (g : Graph) (pm : Option (String × String)) (ts : List Ty) :
    processTy g pm (.tuple ts) = ((processList g pm ts).1, .tuple (processList g pm ts).2) := by simp [processTy]

mutual
theorem processTy_litK {cfg : GenCfg} : ∀ (t : Ty) (g : Graph) (pm : Option (String × String)),
    litK cfg t = true →
    litK cfg (processTy g pm t).2 = true ∧
    (∀ m ∈ (processTy g pm t).1.models, m ∈ g.models ∨ ∀ kv ∈ m.fields, litK cfg kv.2 = true)
  | .obj fs, g, pm, h => by
    simp only [litK] at h
    obtain ⟨ha, hm⟩ := processFields_litK fs (regNew g pm fs) (indexOf g.counter) ((litKFields_iff cfg fs).mp h)
    rw [processTy_obj]
    refine ⟨rfl, ?_⟩
    intro m hm'
    rw [setFields_models] at hm'
    rcases mem_setF hm' with ⟨hm', hne⟩ | ⟨m0, _, _, rfl⟩
    · rcases hm m hm' with h' | h'
      · simp only [Reg.regNew, List.mem_append, List.mem_singleton] at h'
        rcases h' with h' | rfl
        · exact Or.inl h'
        · exact absurd rfl hne
      · exact Or.inr h'
    · exact Or.inr ha
  | .list t, g, pm, h => by
    obtain ⟨a, b⟩ := processTy_litK t g pm (by simpa [litK] using h)
    rw [processTy_list]
    exact ⟨by simpa [litK] using a, b⟩
  | .dict t, g, pm, h => by
    obtain ⟨a, b⟩ := processTy_litK t g pm (by simpa [litK] using h)
    rw [processTy_dict]
    exact ⟨by simpa [litK] using a, b⟩
  | .opt t, g, pm, h => by
    obtain ⟨a, b⟩ := processTy_litK t g pm (by simpa [litK] using h)
    rw [processTy_opt]
    exact ⟨by simpa [litK] using a, b⟩
  | .union ts, g, pm, h => by
    obtain ⟨a, b⟩ := processList_litK ts g pm (litK_union h)
    rw [processTy_union]
    exact ⟨litK_union_of a, b⟩
  | .tuple ts, g, pm, h => by
    simp only [litK] at h
    obtain ⟨a, b⟩ := processList_litK ts g pm ((litKList_iff cfg ts).mp h)
    rw [processTy_tuple]
    exact ⟨by simp only [litK]; exact (litKList_iff cfg _).mpr a, b⟩
  | .int, g, pm, _ | .float, g, pm, _ | .bool, g, pm, _ | .str, g, pm, _ | .null, g, pm, _
  | .unknown, g, pm, _ | .ptr _, g, pm, _ | .ser _, g, pm, _ =>
    ⟨by simp [processTy, litK], fun m hm => Or.inl (by simpa [processTy] using hm)⟩
  | .lit o vs, g, pm, h => ⟨by simpa [processTy] using h, fun m hm => Or.inl (by simpa [processTy] using hm)⟩
theorem processList_litK {cfg : GenCfg} : ∀ (ts : List Ty) (g : Graph) (pm : Option (String × String)),
    (∀ t ∈ ts, litK cfg t = true) →
    (∀ u ∈ (processList g pm ts).2, litK cfg u = true) ∧
    (∀ m ∈ (processList g pm ts).1.models, m ∈ g.models ∨ ∀ kv ∈ m.fields, litK cfg kv.2 = true)
  | [], g, pm, _ => ⟨by simp [processList], fun m hm => Or.inl (by simpa [processList] using hm)⟩
  | t :: ts, g, pm, h => by
    obtain ⟨a1, b1⟩ := processTy_litK t g pm (h t (by simp))
    obtain ⟨a2, b2⟩ := processList_litK ts (processTy g pm t).1 pm (fun u hu => h u (List.mem_cons_of_mem _ hu))
    rw [processList_cons]
    refine ⟨?_, ?_⟩
    · intro u hu
      rcases List.mem_cons.1 hu with rfl | hu
      · exact a1
      · exact a2 u hu
    · intro m hm
      rcases b2 m hm with h' | h'
      · exact b1 m h'
      · exact Or.inr h'
theorem processFields_litK {cfg : GenCfg} : ∀ (fs : List (String × Ty)) (g : Graph) (idx : String),
    (∀ f ∈ fs, litK cfg f.2 = true) →
    (∀ f ∈ (processFields g idx fs).2, litK cfg f.2 = true) ∧
    (∀ m ∈ (processFields g idx fs).1.models, m ∈ g.models ∨ ∀ kv ∈ m.fields, litK cfg kv.2 = true)
  | [], g, idx, _ => ⟨by simp [processFields], fun m hm => Or.inl (by simpa [processFields] using hm)⟩
  | (k, t) :: fs, g, idx, h => by
    obtain ⟨a1, b1⟩ := processTy_litK t g (some (idx, k)) (h (k, t) (by simp))
    obtain ⟨a2, b2⟩ := processFields_litK fs (processTy g (some (idx, k)) t).1 idx
      (fun u hu => h u (List.mem_cons_of_mem _ hu))
    rw [processFields_cons]
    refine ⟨?_, ?_⟩
    · intro u hu
      rcases List.mem_cons.1 hu with rfl | hu
      · exact a1
      · exact a2 u hu
    · intro m hm
      rcases b2 m hm with h' | h'
      · exact b1 m h'
      · exact Or.inr h'
end

/-- every field of every registered model has sorted literal sets (`litK` form) -/
def AllLitKG (cfg : GenCfg) (g : Graph) : Prop := ∀ m ∈ g.models, ∀ kv ∈ m.fields, litK cfg kv.2 = true

theorem processMetaData_allLitK {cfg : GenCfg} {g : Graph} {fields : Fields} {name : Option String}
    (hg : AllLitKG cfg g) (hf : litK cfg (.obj fields) = true) : AllLitKG cfg (processMetaData g fields name).1 := by
  have key : AllLitKG cfg (processTy g none (.obj fields)).1 := by
    intro m hm
    rcases (processTy_litK (.obj fields) g none hf).2 m hm with h | h
    · exact hg m h
    · exact h
  rw [processMetaData_fst]
  cases name with
  | none => exact key
  | some n =>
    intro m hm
    obtain ⟨m0, hm0, rfl⟩ := List.mem_map.1 hm
    split <;> exact key m0 hm0

theorem buildGraph_fold_allLitK {cfg : GenCfg} {o : GenOracles} :
    ∀ (inputs : List (String × List Json)) (g0 g : Graph), AllLitKG cfg g0 →
      inputs.foldlM (bgStep cfg o) g0 = .ok g → AllLitKG cfg g
  | [], g0, g, hg, h => by
    simp only [List.foldlM_nil, pure, Except.pure, Except.ok.injEq] at h
    subst h; exact hg
  | inp :: inputs, g0, g, hg, h => by
    rw [List.foldlM_cons] at h
    simp only [bind, Except.bind] at h
    split at h
    · simp at h
    · rename_i g1 hg1
      obtain ⟨fs, hgen, rfl⟩ := bgStep_ok hg1
      exact buildGraph_fold_allLitK inputs _ g (processMetaData_allLitK hg (generate_litK hgen)) h

/-- **every field of every model registered by `buildGraph` has sorted literal sets** — all inputs, options,
    oracles (no hypothesis) -/
theorem buildGraph_allLitK {cfg : GenCfg} {o : GenOracles} {inputs : List (String × List Json)} {g : Graph}
    (h : buildGraph cfg o inputs = .ok g) : AllLitKG cfg g := by
  rw [buildGraph_eq] at h
  exact buildGraph_fold_allLitK inputs {} g (by intro m hm; simp at hm) h

end J2M.ThirdPass
