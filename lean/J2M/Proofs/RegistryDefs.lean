/-
  Registry-level development (C01 through the registry, C05 structural facts): shared definitions.

  * `ptrsOf`      — the model indices a type points to
  * `substTy σ`   — pointer substitution (what `ModelPtr.replace` does, for a whole index map)
  * `GoodP K I`   — *registry-stage* types: as `Ty.Good K` (generator stage), but without inline field dicts
                    (`process_meta_data` has replaced them) and with `ModelPtr`s whose index satisfies `I`
  * `LookGood`    — a model lookup all of whose field dicts are registry-stage
  * `MergeSoundP` / `OptSoundP` — the two facts about `merge_field_sets` / `optimize_type` on registry-stage
                    types that the registry-level soundness theorem consumes
-/
import J2M.Registry
import J2M.Proofs.InhMerge
namespace J2M.Reg
open J2M

/-! ## pointers of a type -/

mutual
def ptrsOf : Ty → List String
  | .ptr i => [i]
  | .list t | .dict t | .opt t => ptrsOf t
  | .union ts | .tuple ts => ptrsOfList ts
  | .obj fs => ptrsOfFields fs
  | _ => []
def ptrsOfList : List Ty → List String
  | [] => []
  | t :: ts => ptrsOf t ++ ptrsOfList ts
def ptrsOfFields : List (String × Ty) → List String
  | [] => []
  | (_, t) :: fs => ptrsOf t ++ ptrsOfFields fs
end

theorem mem_ptrsOfList {ts : List Ty} {i : String} : i ∈ ptrsOfList ts ↔ ∃ t ∈ ts, i ∈ ptrsOf t := by
  induction ts with
  | nil => simp [ptrsOfList]
  | cons t ts ih => simp [ptrsOfList, ih]

theorem mem_ptrsOfFields {fs : List (String × Ty)} {i : String} :
    i ∈ ptrsOfFields fs ↔ ∃ f ∈ fs, i ∈ ptrsOf f.2 := by
  induction fs with
  | nil => simp [ptrsOfFields]
  | cons f fs ih => obtain ⟨k, t⟩ := f; simp [ptrsOfFields, ih]

/-! ## pointer substitution -/

mutual
def substTy (σ : String → String) : Ty → Ty
  | .ptr i => .ptr (σ i)
  | .list t => .list (substTy σ t)
  | .dict t => .dict (substTy σ t)
  | .opt t => .opt (substTy σ t)
  | .union ts => .union (substList σ ts)
  | .tuple ts => .tuple (substList σ ts)
  | .obj fs => .obj (substFields σ fs)
  | t => t
def substList (σ : String → String) : List Ty → List Ty
  | [] => []
  | t :: ts => substTy σ t :: substList σ ts
def substFields (σ : String → String) : List (String × Ty) → List (String × Ty)
  | [] => []
  | (k, t) :: fs => (k, substTy σ t) :: substFields σ fs
end

theorem substList_eq_map (σ : String → String) (ts : List Ty) : substList σ ts = ts.map (substTy σ) := by
  induction ts with
  | nil => rfl
  | cons t ts ih => simp [substList, ih]

theorem substFields_eq_map (σ : String → String) (fs : List (String × Ty)) :
    substFields σ fs = fs.map (fun kv => (kv.1, substTy σ kv.2)) := by
  induction fs with
  | nil => rfl
  | cons f fs ih => obtain ⟨k, t⟩ := f; simp [substFields, ih]

/-! ## registry-stage types -/

mutual
/-- registry-stage types: no inline field dict, no tuple; pseudo-type kinds satisfy `K`, pointer indices `I`;
    a literal is overflowed iff it carries no values -/
def GoodP (K I : String → Prop) : Ty → Prop
  | .ser k => K k
  | .lit ov vs => ov = true ↔ vs = []
  | .list t | .dict t | .opt t => GoodP K I t
  | .union ts => GoodPList K I ts
  | .ptr i => I i
  | .tuple _ | .obj _ => False
  | _ => True
def GoodPList (K I : String → Prop) : List Ty → Prop
  | [] => True
  | t :: ts => GoodP K I t ∧ GoodPList K I ts
end

theorem goodPList_iff {K I} {ts : List Ty} : GoodPList K I ts ↔ ∀ t ∈ ts, GoodP K I t := by
  induction ts with
  | nil => simp [GoodPList]
  | cons t ts ih => simp [GoodPList, ih]

@[simp] theorem goodP_int {K I} : GoodP K I .int := by simp [GoodP]
@[simp] theorem goodP_float {K I} : GoodP K I .float := by simp [GoodP]
@[simp] theorem goodP_bool {K I} : GoodP K I .bool := by simp [GoodP]
@[simp] theorem goodP_str {K I} : GoodP K I .str := by simp [GoodP]
@[simp] theorem goodP_null {K I} : GoodP K I .null := by simp [GoodP]
@[simp] theorem goodP_unknown {K I} : GoodP K I .unknown := by simp [GoodP]
@[simp] theorem goodP_ser {K I k} : GoodP K I (.ser k) ↔ K k := by simp [GoodP]
@[simp] theorem goodP_lit {K I ov vs} : GoodP K I (.lit ov vs) ↔ (ov = true ↔ vs = []) := by simp [GoodP]
@[simp] theorem goodP_list {K I t} : GoodP K I (.list t) ↔ GoodP K I t := by simp [GoodP]
@[simp] theorem goodP_dict {K I t} : GoodP K I (.dict t) ↔ GoodP K I t := by simp [GoodP]
@[simp] theorem goodP_opt {K I t} : GoodP K I (.opt t) ↔ GoodP K I t := by simp [GoodP]
@[simp] theorem goodP_union {K I ts} : GoodP K I (.union ts) ↔ ∀ t ∈ ts, GoodP K I t := by
  simp [GoodP, goodPList_iff]
@[simp] theorem goodP_tuple {K I ts} : GoodP K I (.tuple ts) ↔ False := by simp [GoodP]
@[simp] theorem goodP_obj {K I fs} : GoodP K I (.obj fs) ↔ False := by simp [GoodP]
@[simp] theorem goodP_ptr {K I i} : GoodP K I (.ptr i) ↔ I i := by simp [GoodP]

/-- a registry-stage field dict: distinct keys, registry-stage field types -/
def GoodPF (K I : String → Prop) (fs : Fields) : Prop :=
  (fs.map (·.1)).Nodup ∧ ∀ f ∈ fs, GoodP K I f.2

/-- every model the lookup knows is a registry-stage field dict -/
def LookGood (K I : String → Prop) (L : ModelLookup) : Prop :=
  ∀ i fs, L i = some fs → GoodPF K I fs

/-- index names for which the hash string `ModelPtr_#<idx>` is unambiguous (true for `Index` values) -/
def IdxAlnum (I : String → Prop) : Prop := ∀ i, I i → i.toList.all Char.isAlphanum = true

/-! ## the two generator facts on registry-stage types

`InhFieldsLX ov acc L fs kvs` (Proofs/InhMerge.lean) is the lax reading of "object `kvs` lies in field dict
`fs`": a field may be absent when its type is optional-like (`Ty.optLike`). -/

/-- `merge_field_sets` on registry-stage field dicts, compared with `==` through the lookup `L` itself:
    the merge is a registry-stage field dict and (laxly) holds every object of every input dict. -/
def MergeSoundP (ov : Bool) (acc : Accepts) (K I : String → Prop) : Prop :=
  ∀ (L : ModelLookup) (e : EqEnv) (c : LitCfg) (sets : List Fields) (F : Fields),
    e.look = L → LookGood K I L → (∀ m ∈ sets, GoodPF K I m) →
    mergeFieldSets c e sets = .ok F →
    GoodPF K I F ∧
    ∀ fs ∈ sets, ∀ kvs, InhFieldsLX ov acc L fs kvs → InhFieldsLX ov acc L F kvs

/-- `optimize_type` on a registry-stage field dict (any comparison environment — no inline dict is left to
    merge, so `==` is never consulted; any lookup): the result is a registry-stage field dict without
    overflowed literals whose optional-like fields are `DOptional`s, and it (strictly) holds every object
    that lies laxly in the input.
    NOTE: as stated this is FALSE (`optSoundP_false` in RegistryGenOpt.lean: the clause "optional-like fields of
    the RESULT are `DOptional`s" fails for a `DUnion` nested directly in a `DUnion`, which `GoodP` admits and
    Python's `DUnion.__init__` never builds).  The development uses `OptSoundPWeak` (the same without that
    clause, proved as `optSoundP_weak`) — the clause is not needed. -/
def OptSoundP (ov : Bool) (acc : Accepts) (K I : String → Prop) (cfg : GenCfg) : Prop :=
  ∀ (L : ModelLookup) (e : EqEnv) (fuel : Nat) (F : Fields) (t' : Ty),
    GoodPF K I F → optimize cfg e fuel (.obj F) = .ok t' →
    ∃ F', t' = .obj F' ∧ GoodPF K I F' ∧ F'.map (·.1) = F.map (·.1) ∧
      (∀ f ∈ F', Ty.NoOv f.2 ∧ (f.2.optLike = true → f.2.isOpt = true)) ∧
      ∀ kvs, InhFieldsLX ov acc L F kvs → InhFieldsX ov acc L F' kvs

end J2M.Reg
