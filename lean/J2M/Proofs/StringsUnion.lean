/-
  Helper lemmas for C10: what `DUnion.__init__` does with `str` and literal members.
-/
import J2M.Proofs.StringsLit
namespace J2M.Strings

open J2M

/-- members that switch literal collection off: `str`, or an overflowed literal -/
def isKiller : Ty → Bool
  | .str => true
  | .lit true _ => true
  | _ => false

/-- `use_literals` after the loop -/
def useFinal (P : List Ty) : Bool := P.all (fun t => !isKiller t)

theorem useFinal_append_singleton (P : List Ty) (t : Ty) :
    useFinal (P ++ [t]) = (useFinal P && !isKiller t) := by
  simp [useFinal, List.all_append]

theorem useFinal_iff {F : List Ty} :
    useFinal F = true ↔ (Ty.str ∉ F ∧ ∀ vs, Ty.lit true vs ∉ F) := by
  simp only [useFinal, List.all_eq_true, Bool.not_eq_true']
  constructor
  · intro h
    exact ⟨fun hm => by simpa [isKiller] using h _ hm, fun vs hm => by simpa [isKiller] using h _ hm⟩
  · rintro ⟨h1, h2⟩ t ht
    cases t with
    | str => exact absurd ht h1
    | lit o vs =>
      cases o with
      | true => exact absurd ht (h2 vs)
      | false => rfl
    | _ => rfl

/-- the `else` branch of `handle_type`: remember a non-literal member once per hash string -/
def addUnique (st : UState) (t : Ty) : UState :=
  if st.hashes.contains (hashStr t) then st
  else { st with unique := t :: st.unique, hashes := hashStr t :: st.hashes }

theorem handleType_nonlit (st : UState) (t : Ty) (h : t.isLit = false) :
    handleType st t = { addUnique st t with useLit := (!t.isStr) && st.useLit } := by
  cases t with
  | lit o vs => simp [Ty.isLit] at h
  | _ =>
    simp only [handleType, addUnique, Ty.isStr]
    cases st.useLit <;> simp

theorem handleType_lit (st : UState) (ov : Bool) (vs : List String) :
    handleType st (.lit ov vs) =
      if st.useLit = false then { st with useLit := false }
      else if ov then { st with useLit := false }
      else { st with useLit := true, lits := addVals st.lits vs } := by
  simp only [handleType, Ty.isStr, addVals]
  cases h : st.useLit <;> simp

/-- what is known about the loop state after the members `P` -/
structure Inv (P : List Ty) (st : UState) : Prop where
  use : st.useLit = useFinal P
  lits : st.useLit = true → st.lits = unionVals P
  uniq : ∀ t ∈ st.unique, t ∈ P ∧ t.isLit = false
  hashes : ∀ h, h ∈ st.hashes ↔ ∃ t ∈ st.unique, hashStr t = h
  seen : ∀ t ∈ P, t.isLit = false → hashStr t ∈ st.hashes

theorem Inv.init : Inv [] ⟨[], [], true, []⟩ :=
  ⟨rfl, fun _ => rfl, by simp, by simp, by simp⟩

theorem Inv.step {P : List Ty} {st : UState} (inv : Inv P st) (t : Ty) :
    Inv (P ++ [t]) (handleType st t) := by
  by_cases hl : t.isLit = true
  · -- a literal member
    cases t with
    | lit ov vs =>
      rw [handleType_lit]
      have hU : ∀ t ∈ st.unique, t ∈ P ++ [Ty.lit ov vs] ∧ t.isLit = false :=
        fun t ht => ⟨List.mem_append_left _ (inv.uniq t ht).1, (inv.uniq t ht).2⟩
      have hS : ∀ t ∈ P ++ [Ty.lit ov vs], t.isLit = false → hashStr t ∈ st.hashes := by
        intro t ht hnl
        rcases List.mem_append.mp ht with h | h
        · exact inv.seen t h hnl
        · have : t = Ty.lit ov vs := by simpa using h
          subst this; simp [Ty.isLit] at hnl
      by_cases hu : st.useLit = false
      · rw [if_pos hu]
        refine ⟨?_, by simp, hU, inv.hashes, hS⟩
        rw [useFinal_append_singleton, ← inv.use, hu]; rfl
      · rw [if_neg hu]
        have hu' : st.useLit = true := by simpa using hu
        cases ov with
        | true =>
          refine ⟨?_, by simp, hU, inv.hashes, hS⟩
          rw [useFinal_append_singleton]; simp [isKiller]
        | false =>
          refine ⟨?_, ?_, hU, inv.hashes, hS⟩
          · rw [useFinal_append_singleton, ← inv.use, hu']; rfl
          · intro _
            rw [unionVals_append_singleton, ← inv.lits hu']; rfl
    | _ => simp [Ty.isLit] at hl
  · -- any other member
    have hl' : t.isLit = false := by simpa using hl
    have hk : isKiller t = t.isStr := by cases t <;> simp_all [isKiller, Ty.isStr, Ty.isLit]
    have hstep : unionStep (unionVals P) t = unionVals P := by
      cases t <;> first | rfl | (simp [Ty.isLit] at hl')
    rw [handleType_nonlit st t hl']
    -- the bookkeeping part
    have hU : ∀ t' ∈ (addUnique st t).unique, t' ∈ P ++ [t] ∧ t'.isLit = false := by
      intro t' ht'
      unfold addUnique at ht'
      split at ht'
      · exact ⟨List.mem_append_left _ (inv.uniq t' ht').1, (inv.uniq t' ht').2⟩
      · rcases List.mem_cons.mp ht' with e | e
        · subst e; exact ⟨by simp, hl'⟩
        · exact ⟨List.mem_append_left _ (inv.uniq t' e).1, (inv.uniq t' e).2⟩
    have hH : ∀ h, h ∈ (addUnique st t).hashes ↔ ∃ t' ∈ (addUnique st t).unique, hashStr t' = h := by
      intro h
      unfold addUnique
      split
      · exact inv.hashes h
      · simp only [List.mem_cons, inv.hashes h]
        constructor
        · rintro (e | ⟨t', h1, h2⟩)
          · exact ⟨t, .inl rfl, e.symm⟩
          · exact ⟨t', .inr h1, h2⟩
        · rintro ⟨t', (e | h1), h2⟩
          · subst e; exact .inl h2.symm
          · exact .inr ⟨t', h1, h2⟩
    have hmono : ∀ h, h ∈ st.hashes → h ∈ (addUnique st t).hashes := by
      intro h hh; unfold addUnique; split
      · exact hh
      · exact List.mem_cons_of_mem _ hh
    have hself : hashStr t ∈ (addUnique st t).hashes := by
      unfold addUnique; split
      · rename_i hc; simpa using hc
      · simp
    have hS : ∀ t' ∈ P ++ [t], t'.isLit = false → hashStr t' ∈ (addUnique st t).hashes := by
      intro t' ht' hnl
      rcases List.mem_append.mp ht' with h | h
      · exact hmono _ (inv.seen t' h hnl)
      · have : t' = t := by simpa using h
        subst this; exact hself
    have hLits : (addUnique st t).lits = st.lits := by unfold addUnique; split <;> rfl
    refine ⟨?_, ?_, hU, hH, hS⟩
    · show ((!t.isStr) && st.useLit) = useFinal (P ++ [t])
      rw [useFinal_append_singleton, hk, ← inv.use, Bool.and_comm]
    · intro h
      have h' : ((!t.isStr) && st.useLit) = true := h
      have hu : st.useLit = true := by
        cases hs : st.useLit <;> simp_all
      show (addUnique st t).lits = unionVals (P ++ [t])
      rw [hLits, unionVals_append_singleton, hstep, inv.lits hu]

theorem Inv.foldl (rest : List Ty) : ∀ {P : List Ty} {st : UState}, Inv P st →
    Inv (P ++ rest) (rest.foldl handleType st) := by
  induction rest with
  | nil => intro P st h; simpa using h
  | cons t rest ih =>
    intro P st h
    have := ih (h.step t)
    simpa [List.append_assoc] using this

/-- the loop state of `DUnion.__init__` after all (flattened) members -/
def loopState (F : List Ty) : UState := F.foldl handleType ⟨[], [], true, []⟩

theorem inv_loopState (F : List Ty) : Inv F (loopState F) := by
  have := Inv.foldl F Inv.init
  simpa [loopState] using this


/-! ## the member list, explicitly -/

/-- a literal member is emitted: literals stayed allowed, some value was collected, the union fits the limits -/
def emitsLit (c : LitCfg) (F : List Ty) : Prop :=
  useFinal F = true ∧ unionVals F ≠ [] ∧ ¬ Overflows c (unionVals F)

/-- `str` is (re-)added at the end: literals were switched off, or the union overflowed -/
def fallsBackToStr (c : LitCfg) (F : List Ty) : Prop :=
  useFinal F = false ∨ (unionVals F ≠ [] ∧ Overflows c (unionVals F))

theorem not_emitsLit_of_fallsBack {c : LitCfg} {F : List Ty} (h : fallsBackToStr c F) : ¬ emitsLit c F := by
  rintro ⟨h1, _, h3⟩
  rcases h with h | ⟨_, h⟩
  · rw [h1] at h; cases h
  · exact h3 h

theorem mkUnionMembers_eq (c : LitCfg) (ts : List Ty) :
    let F := flattenUnion ts
    let st := loopState F
    (emitsLit c F ∧ mkUnionMembers c ts = st.unique.reverse ++ [.lit false (unionVals F)]) ∨
    (fallsBackToStr c F ∧ mkUnionMembers c ts =
        if st.hashes.contains (hashStr .str) then st.unique.reverse else st.unique.reverse ++ [.str]) ∨
    (useFinal F = true ∧ unionVals F = [] ∧ mkUnionMembers c ts = st.unique.reverse) := by
  intro F st
  have inv : Inv F st := inv_loopState F
  have hst : (flattenUnion ts).foldl handleType ⟨[], [], true, []⟩ = st := rfl
  unfold mkUnionMembers
  simp only [hst]
  cases hu : st.useLit with
  | false =>
    right; left
    have huF : useFinal F = false := by rw [← inv.use, hu]
    refine ⟨.inl huF, ?_⟩
    simp only [Bool.and_false, Bool.false_eq_true, if_false, Bool.not_false, if_true]
    split <;> simp
  | true =>
    have huF : useFinal F = true := by rw [← inv.use, hu]
    have hl : st.lits = unionVals F := inv.lits hu
    by_cases he : st.lits = []
    · right; right
      refine ⟨huF, by rw [← hl, he], ?_⟩
      simp [he]
    · have he' : (!st.lits.isEmpty && true) = true := by simpa using he
      simp only [he', if_true]
      rcases mkLit_cases' c st.lits with ⟨hov, hm⟩ | ⟨hov, hm⟩
      · right; left
        refine ⟨.inr ⟨by rw [← hl]; exact he, by rw [← hl]; exact hov⟩, ?_⟩
        rw [hm]
        simp only [Bool.not_false, if_true]
        split <;> simp
      · left
        refine ⟨⟨huF, by rw [← hl]; exact he, by rw [← hl]; exact hov⟩, ?_⟩
        rw [hm, hl]
        simp


/-! ## consequences for the members -/

section members
variable (c : LitCfg) (ts : List Ty)

theorem unique_subset (t : Ty) (ht : t ∈ (loopState (flattenUnion ts)).unique.reverse) :
    t ∈ flattenUnion ts ∧ t.isLit = false :=
  (inv_loopState (flattenUnion ts)).uniq t (by simpa using ht)

theorem str_mem_imp_useFinal_false {F : List Ty} (h : Ty.str ∈ F) : useFinal F = false := by
  cases hu : useFinal F with
  | false => rfl
  | true => exact absurd h (useFinal_iff.mp hu).1

theorem lit_mem_iff (o : Bool) (vs : List String) :
    Ty.lit o vs ∈ mkUnionMembers c ts ↔
      emitsLit c (flattenUnion ts) ∧ o = false ∧ vs = unionVals (flattenUnion ts) := by
  have hno : Ty.lit o vs ∉ (loopState (flattenUnion ts)).unique.reverse := fun h => by
    have := (unique_subset ts _ h).2; simp [Ty.isLit] at this
  rcases mkUnionMembers_eq c ts with ⟨he, hr⟩ | ⟨hf, hr⟩ | ⟨h1, h2, hr⟩
  · rw [hr]
    simp only [List.mem_append, hno, false_or, List.mem_singleton, Ty.lit.injEq]
    exact ⟨fun h => ⟨he, h⟩, fun h => h.2⟩
  · rw [hr]
    constructor
    · intro h
      split at h
      · exact absurd h hno
      · rcases List.mem_append.mp h with h | h
        · exact absurd h hno
        · simp at h
    · intro h; exact absurd h.1 (not_emitsLit_of_fallsBack hf)
  · rw [hr]
    exact ⟨fun h => absurd h hno, fun h => absurd h2 h.1.2.1⟩

theorem lit_filter :
    (emitsLit c (flattenUnion ts) →
      (mkUnionMembers c ts).filter Ty.isLit = [.lit false (unionVals (flattenUnion ts))]) ∧
    (¬ emitsLit c (flattenUnion ts) → (mkUnionMembers c ts).filter Ty.isLit = []) := by
  have hno : (loopState (flattenUnion ts)).unique.reverse.filter Ty.isLit = [] := by
    rw [List.filter_eq_nil_iff]
    intro t ht; simp [(unique_subset ts t ht).2]
  rcases mkUnionMembers_eq c ts with ⟨he, hr⟩ | ⟨hf, hr⟩ | ⟨h1, h2, hr⟩
  · refine ⟨fun _ => ?_, fun h => absurd he h⟩
    rw [hr, List.filter_append, hno]; simp [Ty.isLit]
  · refine ⟨fun h => absurd h (not_emitsLit_of_fallsBack hf), fun _ => ?_⟩
    rw [hr]; split
    · exact hno
    · rw [List.filter_append, hno]; simp [Ty.isLit]
  · refine ⟨fun h => absurd h2 h.2.1, fun _ => ?_⟩
    rw [hr]; exact hno

theorem str_mem_imp : Ty.str ∈ mkUnionMembers c ts → fallsBackToStr c (flattenUnion ts) := by
  intro h
  rcases mkUnionMembers_eq c ts with ⟨he, hr⟩ | ⟨hf, _⟩ | ⟨h1, _, hr⟩
  · rw [hr] at h
    rcases List.mem_append.mp h with h | h
    · exact .inl (str_mem_imp_useFinal_false (unique_subset ts _ h).1)
    · simp at h
  · exact hf
  · rw [hr] at h
    exact .inl (str_mem_imp_useFinal_false (unique_subset ts _ h).1)

theorem fallsBack_imp :
    fallsBackToStr c (flattenUnion ts) →
      ∃ t ∈ mkUnionMembers c ts, hashStr t = hashStr .str ∧
        (t = .str ∨ (t ∈ flattenUnion ts ∧ t.isLit = false)) := by
  intro hf
  rcases mkUnionMembers_eq c ts with ⟨he, _⟩ | ⟨_, hr⟩ | ⟨h1, h2, _⟩
  · exact absurd he (not_emitsLit_of_fallsBack hf)
  · rw [hr]
    split
    · rename_i hc
      have hc' : hashStr .str ∈ (loopState (flattenUnion ts)).hashes := by simpa using hc
      obtain ⟨t, ht, hh⟩ := ((inv_loopState (flattenUnion ts)).hashes _).1 hc'
      have ht' : t ∈ (loopState (flattenUnion ts)).unique.reverse := by simpa using ht
      exact ⟨t, ht', hh, .inr (unique_subset ts t ht')⟩
    · exact ⟨.str, by simp, rfl, .inl rfl⟩
  · rcases hf with h | ⟨h, _⟩
    · rw [h1] at h; cases h
    · exact absurd h2 h

/-- every member other than the folded literal and the fallback `str` is one of the arguments -/
theorem nonlit_mem_imp (t : Ty) (ht : t ∈ mkUnionMembers c ts) (hl : t.isLit = false) :
    t ∈ flattenUnion ts ∨ (t = .str ∧ fallsBackToStr c (flattenUnion ts)) := by
  rcases mkUnionMembers_eq c ts with ⟨_, hr⟩ | ⟨hf, hr⟩ | ⟨_, _, hr⟩
  · rw [hr] at ht
    rcases List.mem_append.mp ht with h | h
    · exact .inl (unique_subset ts t h).1
    · have : t = .lit false (unionVals (flattenUnion ts)) := by simpa using h
      subst this; simp [Ty.isLit] at hl
  · rw [hr] at ht
    split at ht
    · exact .inl (unique_subset ts t ht).1
    · rcases List.mem_append.mp ht with h | h
      · exact .inl (unique_subset ts t h).1
      · exact .inr ⟨by simpa using h, hf⟩
  · rw [hr] at ht
    exact .inl (unique_subset ts t ht).1

/-- every non-literal argument is represented by a member with the same hash string -/
theorem nonlit_covered (t : Ty) (ht : t ∈ flattenUnion ts) (hl : t.isLit = false) :
    ∃ t' ∈ mkUnionMembers c ts, hashStr t' = hashStr t := by
  have inv := inv_loopState (flattenUnion ts)
  obtain ⟨t', ht', hh⟩ := (inv.hashes _).1 (inv.seen t ht hl)
  have hu : t' ∈ (loopState (flattenUnion ts)).unique.reverse := by simpa using ht'
  refine ⟨t', ?_, hh⟩
  rcases mkUnionMembers_eq c ts with ⟨_, hr⟩ | ⟨_, hr⟩ | ⟨_, _, hr⟩
  · rw [hr]; exact List.mem_append_left _ hu
  · rw [hr]; split
    · exact hu
    · exact List.mem_append_left _ hu
  · rw [hr]; exact hu

end members

/-! ## independence of the argument order -/

theorem useFinal_congr {F F' : List Ty} (h : ∀ t, t ∈ F ↔ t ∈ F') : useFinal F = useFinal F' := by
  have key : ∀ {A B : List Ty}, (∀ t, t ∈ A → t ∈ B) → useFinal B = true → useFinal A = true := by
    intro A B hAB hB
    rw [useFinal_iff] at hB ⊢
    exact ⟨fun hm => hB.1 (hAB _ hm), fun vs hm => hB.2 vs (hAB _ hm)⟩
  cases h1 : useFinal F <;> cases h2 : useFinal F' <;> try rfl
  · have := key (fun t ht => (h t).1 ht) h2; rw [h1] at this; cases this
  · have := key (fun t ht => (h t).2 ht) h1; rw [h2] at this; cases this

theorem unionVals_congr {F F' : List Ty} (h : ∀ t, t ∈ F ↔ t ∈ F') : unionVals F = unionVals F' := by
  apply sorted_ext (sorted_unionVals F) (sorted_unionVals F')
  intro s
  simp only [mem_unionVals, h]

theorem emitsLit_congr (c : LitCfg) {F F' : List Ty} (h : ∀ t, t ∈ F ↔ t ∈ F') :
    emitsLit c F ↔ emitsLit c F' := by
  unfold emitsLit; rw [useFinal_congr h, unionVals_congr h]

end J2M.Strings
