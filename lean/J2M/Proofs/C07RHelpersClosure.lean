/-
  C07, registry stage — helper development, part 1: the grouping loop (`Closure.mergeGroups`) under a
  re-enumeration of the nodes.  Everything is derived from `C05.closure_components` (the groups are the connected
  components that contain an edge — a description that does not mention the enumeration order).
-/
import J2M.Props.C05
namespace J2M.C07RH
open J2M.Closure

/-- `π` re-enumerates the nodes `0..n-1` (new number `a` ↦ old number `π a`), `ρ` is its inverse -/
structure IsRelabel (n : Nat) (π ρ : Nat → Nat) : Prop where
  lt : ∀ a, a < n → π a < n
  inv_lt : ∀ c, c < n → ρ c < n
  left : ∀ a, a < n → ρ (π a) = a
  right : ∀ c, c < n → π (ρ c) = c

/-- the similarity table seen through the new enumeration -/
def relabel (sim : Nat → Nat → Bool) (π : Nat → Nat) : Nat → Nat → Bool := fun a b => sim (π a) (π b)

theorem relabel_symm {sim : Nat → Nat → Bool} (hs : SymmSim sim) (π : Nat → Nat) : SymmSim (relabel sim π) :=
  fun a b => hs (π a) (π b)

theorem IsRelabel.inj {n : Nat} {π ρ : Nat → Nat} (h : IsRelabel n π ρ) {a b : Nat} (ha : a < n) (hb : b < n)
    (e : π a = π b) : a = b := by
  rw [← h.left a ha, ← h.left b hb, e]

theorem IsRelabel.symm {n : Nat} {π ρ : Nat → Nat} (h : IsRelabel n π ρ) : IsRelabel n ρ π :=
  ⟨h.inv_lt, h.lt, h.right, h.left⟩

/-- a list that is a permutation of `0..n-1` is a re-enumeration: position ↦ entry, entry ↦ position -/
theorem IsRelabel.of_perm {n : Nat} {l : List Nat} (hp : l.Perm (List.range n)) :
    IsRelabel n (fun a => l.getD a 0) (fun c => l.idxOf c) := by
  have hlen : l.length = n := by rw [hp.length_eq, List.length_range]
  have hnd : l.Nodup := hp.nodup_iff.2 List.nodup_range
  have hmem : ∀ c, c ∈ l ↔ c < n := fun c => by rw [hp.mem_iff, List.mem_range]
  refine ⟨?_, ?_, ?_, ?_⟩
  · intro a ha
    have ha' : a < l.length := by omega
    simp only [List.getD_eq_getElem?_getD, List.getElem?_eq_getElem ha', Option.getD_some]
    exact (hmem _).1 (List.getElem_mem ha')
  · intro c hc
    have := List.idxOf_lt_length_iff.2 ((hmem c).2 hc)
    omega
  · intro a ha
    have ha' : a < l.length := by omega
    simp only [List.getD_eq_getElem?_getD, List.getElem?_eq_getElem ha', Option.getD_some]
    exact hnd.idxOf_getElem a ha'
  · intro c hc
    have hc' : c ∈ l := (hmem c).2 hc
    have hi : l.idxOf c < l.length := List.idxOf_lt_length_iff.2 hc'
    simp only [List.getD_eq_getElem?_getD, List.getElem?_eq_getElem hi, Option.getD_some]
    exact List.getElem_idxOf hi

section
variable {sim : Nat → Nat → Bool} {n : Nat} {π ρ : Nat → Nat}

theorem edge_relabel_fwd (h : IsRelabel n π ρ) {a b : Nat} (e : Edge (relabel sim π) n a b) :
    Edge sim n (π a) (π b) :=
  ⟨h.lt a e.1, h.lt b e.2.1, fun c => e.2.2.1 (h.inj e.1 e.2.1 c), e.2.2.2⟩

theorem edge_relabel_bwd (h : IsRelabel n π ρ) {x y : Nat} (e : Edge sim n x y) :
    Edge (relabel sim π) n (ρ x) (ρ y) := by
  refine ⟨h.inv_lt x e.1, h.inv_lt y e.2.1, fun c => e.2.2.1 ?_, ?_⟩
  · rw [← h.right x e.1, ← h.right y e.2.1, c]
  · unfold relabel; rw [h.right x e.1, h.right y e.2.1]; exact e.2.2.2

theorem reach_relabel_fwd (h : IsRelabel n π ρ) {a b : Nat} (r : Reach (relabel sim π) n a b) :
    Reach sim n (π a) (π b) := by
  induction r with
  | refl => exact .refl _
  | step _ e ih => exact .step ih (edge_relabel_fwd h e)

theorem reach_relabel_bwd (h : IsRelabel n π ρ) {x y : Nat} (r : Reach sim n x y) :
    Reach (relabel sim π) n (ρ x) (ρ y) := by
  induction r with
  | refl => exact .refl _
  | step _ e ih => exact .step ih (edge_relabel_bwd h e)

theorem reach_relabel_iff (h : IsRelabel n π ρ) {a b : Nat} (ha : a < n) (hb : b < n) :
    Reach (relabel sim π) n a b ↔ Reach sim n (π a) (π b) := by
  constructor
  · exact reach_relabel_fwd h
  · intro r
    have := reach_relabel_bwd (sim := sim) h r
    rwa [h.left a ha, h.left b hb] at this

theorem hasEdge_relabel_iff (h : IsRelabel n π ρ) {a : Nat} (ha : a < n) :
    (∃ b, Edge (relabel sim π) n a b) ↔ ∃ d, Edge sim n (π a) d := by
  constructor
  · rintro ⟨b, e⟩; exact ⟨π b, edge_relabel_fwd h e⟩
  · rintro ⟨d, e⟩
    have := edge_relabel_bwd (sim := sim) h e
    rw [h.left a ha] at this
    exact ⟨ρ d, this⟩
end

/-- groups at different positions are disjoint and no group is empty, so a node lies in at most one group -/
theorem unique_group {gs : List Grp}
    (hno : ∀ i j (hi : i < gs.length) (hj : j < gs.length), i ≠ j → gOverlap gs[i] gs[j] = false)
    {g₁ g₂ : Grp} (h₁ : g₁ ∈ gs) (h₂ : g₂ ∈ gs) {x : Nat} (hx₁ : x ∈ g₁) (hx₂ : x ∈ g₂) : g₁ = g₂ := by
  obtain ⟨i, hi, rfl⟩ := List.getElem_of_mem h₁
  obtain ⟨j, hj, rfl⟩ := List.getElem_of_mem h₂
  by_cases e : i = j
  · subst e; rfl
  · have := gOverlap_false_iff.1 (hno i j hi hj e) x hx₁
    exact absurd hx₂ this

/-- **the grouping loop does not depend on the enumeration of the nodes** (pairs, `a = b` included):
    two new numbers share a group of the re-enumerated table iff their old numbers share a group of the old one -/
theorem closure_relabel_pair {sim : Nat → Nat → Bool} {n : Nat} {π ρ : Nat → Nat} (hsym : SymmSim sim)
    (hπ : IsRelabel n π ρ) {gs gs' : List Grp} (h : mergeGroups sim n = some gs)
    (h' : mergeGroups (relabel sim π) n = some gs') {a b : Nat} (ha : a < n) (hb : b < n) :
    (∃ g' ∈ gs', a ∈ g' ∧ b ∈ g') ↔ ∃ g ∈ gs, π a ∈ g ∧ π b ∈ g := by
  obtain ⟨_, _, hr, he⟩ := C05.closure_components hsym h
  obtain ⟨_, _, hr', he'⟩ := C05.closure_components (relabel_symm hsym π) h'
  by_cases e : a = b
  · subst e
    have l : (∃ g' ∈ gs', a ∈ g' ∧ a ∈ g') ↔ ∃ g' ∈ gs', a ∈ g' :=
      ⟨fun ⟨g, hg, x, _⟩ => ⟨g, hg, x⟩, fun ⟨g, hg, x⟩ => ⟨g, hg, x, x⟩⟩
    have r : (∃ g ∈ gs, π a ∈ g ∧ π a ∈ g) ↔ ∃ g ∈ gs, π a ∈ g :=
      ⟨fun ⟨g, hg, x, _⟩ => ⟨g, hg, x⟩, fun ⟨g, hg, x⟩ => ⟨g, hg, x, x⟩⟩
    rw [l, r, he' a, he (π a), hasEdge_relabel_iff hπ ha]
  · have e' : π a ≠ π b := fun c => e (hπ.inj ha hb c)
    rw [hr' a b e, hr (π a) (π b) e', reach_relabel_iff hπ ha hb]

/-- … and as sets: every group of the re-enumerated table is (the re-enumeration of) a group of the old one -/
theorem closure_relabel_groups {sim : Nat → Nat → Bool} {n : Nat} {π ρ : Nat → Nat} (hsym : SymmSim sim)
    (hπ : IsRelabel n π ρ) {gs gs' : List Grp} (h : mergeGroups sim n = some gs)
    (h' : mergeGroups (relabel sim π) n = some gs') :
    ∀ g' ∈ gs', ∃ g ∈ gs, ∀ x, x < n → (x ∈ g' ↔ π x ∈ g) := by
  obtain ⟨hno, _, _, _⟩ := C05.closure_components hsym h
  obtain ⟨hno', hok', _, _⟩ := C05.closure_components (relabel_symm hsym π) h'
  intro g' hg'
  obtain ⟨h2, hlt, _⟩ := hok' g' hg'
  obtain ⟨a, ha⟩ : ∃ a, a ∈ g' := by
    cases g' with
    | nil => simp at h2
    | cons a _ => exact ⟨a, by simp⟩
  have han : a < n := hlt a ha
  obtain ⟨g, hg, hag, _⟩ := (closure_relabel_pair hsym hπ h h' han han).1 ⟨g', hg', ha, ha⟩
  refine ⟨g, hg, fun x hx => ⟨fun hxg' => ?_, fun hxg => ?_⟩⟩
  · obtain ⟨g₂, hg₂, ha₂, hx₂⟩ := (closure_relabel_pair hsym hπ h h' han hx).1 ⟨g', hg', ha, hxg'⟩
    rw [unique_group hno hg hg₂ hag ha₂]; exact hx₂
  · obtain ⟨g₂, hg₂, ha₂, hx₂⟩ := (closure_relabel_pair hsym hπ h h' han hx).2 ⟨g, hg, hag, hxg⟩
    rw [unique_group hno' hg' hg₂ ha ha₂]; exact hx₂

/-- … and conversely: every group of the old table is a group of the re-enumerated one -/
theorem closure_relabel_groups' {sim : Nat → Nat → Bool} {n : Nat} {π ρ : Nat → Nat} (hsym : SymmSim sim)
    (hπ : IsRelabel n π ρ) {gs gs' : List Grp} (h : mergeGroups sim n = some gs)
    (h' : mergeGroups (relabel sim π) n = some gs') :
    ∀ g ∈ gs, ∃ g' ∈ gs', ∀ x, x < n → (x ∈ g' ↔ π x ∈ g) := by
  obtain ⟨hno, hok, _, _⟩ := C05.closure_components hsym h
  obtain ⟨hno', _, _, _⟩ := C05.closure_components (relabel_symm hsym π) h'
  intro g hg
  obtain ⟨h2, hlt, _⟩ := hok g hg
  obtain ⟨c, hc⟩ : ∃ c, c ∈ g := by
    cases g with
    | nil => simp at h2
    | cons a _ => exact ⟨a, by simp⟩
  have hcn : c < n := hlt c hc
  have han : ρ c < n := hπ.inv_lt c hcn
  have hca : π (ρ c) ∈ g := by rw [hπ.right c hcn]; exact hc
  obtain ⟨g', hg', hag', _⟩ := (closure_relabel_pair hsym hπ h h' han han).2 ⟨g, hg, hca, hca⟩
  refine ⟨g', hg', fun x hx => ⟨fun hxg' => ?_, fun hxg => ?_⟩⟩
  · obtain ⟨g₂, hg₂, ha₂, hx₂⟩ := (closure_relabel_pair hsym hπ h h' han hx).1 ⟨g', hg', hag', hxg'⟩
    rw [unique_group hno hg hg₂ hca ha₂]; exact hx₂
  · obtain ⟨g₂, hg₂, ha₂, hx₂⟩ := (closure_relabel_pair hsym hπ h h' han hx).2 ⟨g, hg, hca, hxg⟩
    rw [unique_group hno' hg' hg₂ hag' ha₂]; exact hx₂

end J2M.C07RH
