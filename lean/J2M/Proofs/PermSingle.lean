/-
  C07 (generator level), part 13: a single member `x` against a union all of whose members are equal to
  `x` up to order (`tc_step`) — the situation left by `merge_field_sets` skipping `==` types.
-/
import J2M.Proofs.PermCong
import J2M.Proofs.OptimizeIdem
namespace J2M.Perm
open J2M

variable {cfg : GenCfg} {e : EqEnv}

/-! ## empty categories -/

theorem baseOther_nil {reg : StrRegistry} {ms : List Ty} (h : ms.filter (isOth reg) = []) :
    baseOther reg ms = [] := by
  unfold baseOther; rw [h]; simp

theorem exObj_nil {ms eo : List Ty} (h : ms.filterMap objF = []) (x : ExObj cfg e ms eo) : eo = [] := by
  rcases x with ⟨_, rfl⟩ | ⟨hn, _⟩
  · rfl
  · exact absurd h hn

theorem exStr_nil {reg : StrRegistry} {ms es : List Ty} (h : ms.filter (isStrT reg) = [])
    (x : ExStr reg ms es) : es = [] := by
  rcases x with ⟨a, _⟩ | ⟨_, _, rfl⟩ | ⟨_, hn, _⟩
  · rw [h] at a; simp at a
  · rfl
  · exact absurd h hn

theorem exList_nil {c : LitCfg} {ms : List Ty} (h : ms.filterMap listE = []) : exList c ms = [] := by
  unfold exList; rw [h]; rfl
theorem exDict_nil {c : LitCfg} {ms : List Ty} (h : ms.filterMap dictE = []) : exDict c ms = [] := by
  unfold exDict; rw [h]; rfl

/-- `_optimize_union` on a member list whose `other` list is a single element -/
theorem optimizeUnion_single {g : Nat} {ms : List Ty} {z u : Ty}
    (ho : ∀ other, unionOther cfg e ms = .ok other → other = [z])
    (h : optimizeUnion cfg e (g + 1) ms = .ok u) : optimize cfg e g z = .ok u := by
  rw [optimizeUnion_eq, Except.bind_ok_iff] at h
  obtain ⟨o, ho', h⟩ := h
  rw [ho o ho'] at h
  rw [Except.bind_ok_iff] at h
  obtain ⟨T, hT, h⟩ := h
  have F := mapM_forall₂ hT
  cases F with
  | cons hy hr =>
    cases hr
    simp only [unionFinish, pure, Except.pure, Except.ok.injEq] at h
    subst h; exact hy

theorem eq_singleton_of_nodup {l : List Ty} {x : Ty} (nd : l.Nodup) (hne : l ≠ [])
    (h : ∀ m ∈ l, m = x) : l = [x] := by
  match l, nd, hne, h with
  | [a], _, _, h => rw [h a (by simp)]
  | a :: b :: r, nd, _, h =>
    have e1 := h a (by simp)
    have e2 := h b (by simp)
    rw [e1, e2] at nd
    simp at nd

/-! ## a leaf -/

theorem leaf_oth {reg : StrRegistry} {x : Ty} (h : Ty.isLeaf x = true) (ht : ∀ ts, x ≠ .tuple ts)
    (hp : ∀ i, x ≠ .ptr i) : isOth reg x = !isStrT reg x := by
  cases x <;> simp [Ty.isLeaf, isOth, isStrT] at *

theorem unionOther_leaf {x : Ty} (hr : RawN cfg.lit x) (hl : Ty.isLeaf x = true) {other : List Ty}
    (h : unionOther cfg e [x] = .ok other) : other = [x] := by
  have hno : ∀ m ∈ [x], m.isOpt = false := by intro m hm; simp at hm; subst hm; exact hr.not_opt
  have hnu : ∀ m ∈ [x], m.isUnion = false := by
    intro m hm; simp at hm; subst hm; cases m <;> simp [Ty.isLeaf] at hl <;> rfl
  obtain ⟨eo, es, rfl, xo, xs⟩ := unionOther_spec hno hnu h
  have ho : [x].filterMap objF = [] := by cases x <;> simp [Ty.isLeaf] at hl <;> rfl
  have hli : [x].filterMap listE = [] := by cases x <;> simp [Ty.isLeaf] at hl <;> rfl
  have hd : [x].filterMap dictE = [] := by cases x <;> simp [Ty.isLeaf] at hl <;> rfl
  rw [exObj_nil ho xo, exList_nil hli, exDict_nil hd]
  have hoth := leaf_oth (reg := cfg.reg) hl (fun ts hh => by subst hh; simp at hr) (fun i hh => by subst hh; simp at hr)
  by_cases hs : isStrT cfg.reg x = true
  · have hb : [x].filter (isOth cfg.reg) = [] := by simp [hoth, hs]
    have hS : [x].filter (isStrT cfg.reg) = [x] := by simp [hs]
    rw [baseOther_nil hb]
    rcases xs with ⟨a, rfl⟩ | ⟨_, hn, _⟩ | ⟨a, hn2, r, hr', hc⟩
    · rw [hS] at a
      cases x <;> simp [Ty.isStr] at a
      rfl
    · rw [hS] at hn; simp at hn
    · rw [hS] at a hr'
      cases x
      case ser k =>
        have : r = [k] := by
          rw [hr']
          exact (Strings.resolve_ok (C08P.resolve_single cfg.reg k 0)).symm
        rcases hc with ⟨k', e1, rfl⟩ | ⟨hlen, _⟩
        · rw [this] at e1; simp at e1; subst e1; rfl
        · rw [this] at hlen; simp at hlen
      all_goals simp [isStrT, Ty.isStr] at hs a
  · have hs' : isStrT cfg.reg x = false := by simpa using hs
    have hb : [x].filter (isOth cfg.reg) = [x] := by simp [hoth, hs']
    have hS : [x].filter (isStrT cfg.reg) = [] := by simp [hs']
    rw [exStr_nil hS xs]
    have : baseOther cfg.reg [x] = [x] := by
      unfold baseOther; rw [hb]
      have : ([x].any Ty.isInt && [x].any Ty.isFloat) = false := by
        cases x <;> simp [Ty.isInt, Ty.isFloat]
      rw [this]; rfl
    rw [this]; rfl

/-! ## a list / dict element type against the merged element types -/

theorem setA_mems_stable {c : LitCfg} {a : Ty} (ra : RawN c a) (hne : a ≠ .lit true []) :
    SetA a.unionMembers (mkUnionMembers c a.unionMembers) := by
  by_cases hu : a.isUnion = true
  · cases a <;> simp [Ty.isUnion] at hu
    exact SetA.symm (SetA.of_mem_iff (rawN_union.1 ra).2.2)
  · have hu' : a.isUnion = false := by simpa using hu
    rw [unionMembers_of_nonunion hu']
    have hov : a.isOvLit = false := by
      cases a <;> try rfl
      rename_i o vs
      cases o
      · rfl
      · exact absurd (by rw [rawN_ovlit ra]) hne
    refine SetA.of_mem_iff (fun t => ?_)
    rw [mem_mkUM_single hu' ra.wf hov (fun vs e => by subst e; simpa using ra)]
    simp

theorem nsim_elem_union {c : LitCfg} {a : Ty} {bs : List Ty} (ra : RawN c a) (hne : a ≠ .lit true [])
    (hbs : bs ≠ []) (rb : ∀ b ∈ bs, RawN c b) (hs : ∀ b ∈ bs, NSim a b) : NSim a (mkUnion c bs) := by
  unfold mkUnion
  rw [nsim_iff]
  show SetA a.unionMembers (mkUnionMembers c bs)
  rw [← mkUM_flatten, flatten_eq_flatMap rb]
  have hmem : ∀ t ∈ bs.flatMap Ty.unionMembers, RawN c t ∧ t.isUnion = false := by
    intro t ht
    obtain ⟨b, hb, htb⟩ := List.mem_flatMap.1 ht
    exact (rb b hb).members t htb
  have fw : FlatWF (bs.flatMap Ty.unionMembers) :=
    ⟨fun t ht => (hmem t ht).2, fun t ht => (hmem t ht).1.wf⟩
  refine SetA.trans (setA_mems_stable ra hne) (mkUM_congr_set leafEq_asim ra.members_flatWF fw ⟨?_, ?_⟩)
  · intro x hx
    obtain ⟨b₀, hb₀⟩ := List.exists_mem_of_ne_nil _ hbs
    obtain ⟨y, hy, hxy⟩ := (nsim_iff.1 (hs b₀ hb₀)).1 x hx
    exact ⟨y, List.mem_flatMap.2 ⟨b₀, hb₀, hy⟩, hxy⟩
  · intro y hy
    obtain ⟨b, hb, hyb⟩ := List.mem_flatMap.1 hy
    exact (nsim_iff.1 (hs b hb)).2 y hyb

theorem setA_str_ovlits {c : LitCfg} {bs : List Ty} (hbs : bs ≠ []) (h : ∀ b ∈ bs, b = .lit true []) :
    SetA [.str] (mkUnionMembers c bs) := by
  have f : FlatWF bs := ⟨fun t ht => by rw [h t ht]; rfl, fun t ht => by rw [h t ht]; decide⟩
  have hE : Eff c bs = none := by
    rw [eff_none_iff]
    left
    obtain ⟨b, hb⟩ := List.exists_mem_of_ne_nil _ hbs
    cases hu : Strings.useFinal bs
    · rfl
    · have := (Strings.useFinal_iff.1 hu).2 []
      rw [h b hb] at hb
      exact absurd hb this
  refine SetA.of_mem_iff (fun t => ?_)
  simp only [List.mem_singleton]
  constructor
  · rintro rfl; exact (str_mem_mkUM_iff f).2 hE
  · intro ht
    by_cases hl : t.isLit = true
    · cases t <;> simp [Ty.isLit] at hl
      have := (lit_mem_mkUM_iff f).1 ht
      rw [hE] at this; cases this.1
    · have hl' : t.isLit = false := by simpa using hl
      by_cases hs : t.isStr = true
      · cases t <;> simp [Ty.isStr] at hs; rfl
      · have := (plain_mem_mkUM_iff f hl' (by simpa using hs)).1 ht
        rw [h t this] at hl'; simp [Ty.isLit] at hl'

/-- the element type `a` of one container against the merged element types of several containers whose
    element types all equal `a` up to order -/
theorem elem_vs_union {n g₁ h : Nat} (ih : Cong cfg e n) (hb : g₁ + h + 2 ≤ n) {a : Ty} {bs : List Ty} {w z : Ty}
    (ra : RawN cfg.lit a) (hbs : bs ≠ []) (rb : ∀ b ∈ bs, RawN cfg.lit b) (hs : ∀ b ∈ bs, NSim a b)
    (h₁ : optimize cfg e g₁ a = .ok w) (h₂ : optimize cfg e h (mkUnion cfg.lit bs) = .ok z) : NSim w z := by
  have rU : RawN cfg.lit (mkUnion cfg.lit bs) :=
    (elems_rel rb rb (fun b hb => ⟨b, hb, NSim.refl _⟩) (fun b hb => ⟨b, hb, NSim.refl _⟩)).1
  by_cases hne : a = .lit true []
  · subst hne
    have hall : ∀ b ∈ bs, b = .lit true [] := by
      intro b hb
      have hS := nsim_iff.1 (hs b hb)
      by_cases hu : b.isUnion = true
      · cases b <;> simp [Ty.isUnion] at hu
        rename_i us
        obtain ⟨m, hm, hxm⟩ := hS.1 (.lit true []) (by simp [Ty.unionMembers])
        have := asim_lit_left hxm
        subst this
        have := ((rawN_union.1 (rb _ hb)).1 _ hm).2.2
        simp [Ty.isOvLit] at this
      · rw [unionMembers_of_nonunion (t := b) (by simpa using hu)] at hS
        obtain ⟨m, hm, hxm⟩ := hS.1 (.lit true []) (by simp [Ty.unionMembers])
        simp at hm; subst hm
        exact asim_lit_left hxm
    cases g₁ with
    | zero => exact absurd h₁ (fun h => optimize_zero h)
    | succ k =>
      rw [optimize_lit] at h₁; cases h₁
      cases h with
      | zero => exact absurd h₂ (fun h => optimize_zero h)
      | succ h' =>
        unfold mkUnion at h₂ rU
        rw [optimize_union] at h₂
        simp only [Bool.true_or, if_true]
        exact ih.tc 1 h' .str (mkUnionMembers cfg.lit bs) .str z (by omega) (by simp) rfl rU
          (setA_str_ovlits hbs hall) (optimize_leaf rfl rfl (fun _ hh => by cases hh)) h₂
  · exact ih.oc g₁ h a (mkUnion cfg.lit bs) w z (by omega) (.inl ⟨ra, rU⟩)
      (nsim_elem_union ra hne hbs rb hs) h₁ h₂

/-! ## the step -/

theorem optimizeUnion_single' {g : Nat} {ms : List Ty} {u : Ty}
    (h : optimizeUnion cfg e (g + 1) ms = .ok u) :
    ∃ other, unionOther cfg e ms = .ok other ∧ ∀ z, other = [z] → optimize cfg e g z = .ok u := by
  rw [optimizeUnion_eq, Except.bind_ok_iff] at h
  obtain ⟨o, ho', h⟩ := h
  refine ⟨o, ho', fun z hz => ?_⟩
  subst hz
  rw [Except.bind_ok_iff] at h
  obtain ⟨T, hT, h⟩ := h
  have F := mapM_forall₂ hT
  cases F with
  | cons hy hr =>
    cases hr
    simp only [unionFinish, pure, Except.pure, Except.ok.injEq] at h
    subst h; exact hy

theorem tc_leaf {n : Nat} (ih : Cong cfg e n) {f₁ g₂ : Nat} {x : Ty} {ms : List Ty} {u₁ u₂ : Ty}
    (hf : f₁ + g₂ ≤ n) (rx : RawN cfg.lit x) (hux : x.isUnion = false) (hl : Ty.isLeaf x = true)
    (rms : RawN cfg.lit (.union ms)) (hs : SetA [x] ms)
    (h₁ : optimize cfg e f₁ x = .ok u₁) (h₂ : optimizeUnion cfg e (g₂ + 1) ms = .ok u₂) : NSim u₁ u₂ := by
  have mok := memOK_of_raw rms
  have hne : ms ≠ [] := by obtain ⟨m, hm, _⟩ := hs.1 x (by simp); exact List.ne_nil_of_mem hm
  have hms : ms = [x] := by
    apply eq_singleton_of_nodup mok.nd hne
    intro m hm
    obtain ⟨a, ha, h⟩ := hs.2 m hm
    simp at ha; subst ha
    exact (asim_leaf hl).1 h
  subst hms
  obtain ⟨other, ho, hz⟩ := optimizeUnion_single' h₂
  have := hz x (unionOther_leaf rx hl ho)
  exact ih.oc f₁ g₂ x x u₁ u₂ hf (.inl ⟨rx, rx⟩) (NSim.refl _) h₁ this

theorem tc_step {n : Nat} (ih : Cong cfg e n) :
    ∀ f₁ f₂ x ms u₁ u₂, f₁ + f₂ ≤ n + 1 → RawN cfg.lit x → x.isUnion = false → RawN cfg.lit (.union ms) →
    SetA [x] ms → optimize cfg e f₁ x = .ok u₁ → optimizeUnion cfg e f₂ ms = .ok u₂ → NSim u₁ u₂ := by
  intro f₁ f₂ x ms u₁ u₂ hf rx hux rms hs h₁ h₂
  have mok := memOK_of_raw rms
  have hall : ∀ m ∈ ms, ASim x m := fun m hm => by
    obtain ⟨a, ha, h⟩ := hs.2 m hm; simp at ha; subst ha; exact h
  have hne : ms ≠ [] := by obtain ⟨m, hm, _⟩ := hs.1 x (by simp); exact List.ne_nil_of_mem hm
  cases f₂ with
  | zero => exact absurd h₂ (fun h => optimizeUnion_zero h)
  | succ g₂ =>
  cases f₁ with
  | zero => exact absurd h₁ (fun h => optimize_zero h)
  | succ g₁ =>
  cases x
  case list a =>
    have hform : ∀ m ∈ ms, ∃ b, m = .list b ∧ NSim a b := fun m hm => asim_list.1 (hall m hm)
    have hbs : ms.filterMap listE ≠ [] := by
      obtain ⟨m, hm⟩ := List.exists_mem_of_ne_nil _ hne
      obtain ⟨b, rfl, _⟩ := hform m hm
      exact List.ne_nil_of_mem (mem_filterMap_listE.2 hm)
    obtain ⟨other, ho, hz⟩ := optimizeUnion_single' h₂
    obtain ⟨eo, es, rfl, xo, xs⟩ := unionOther_spec mok.noopt mok.flat ho
    have e1 : ms.filter (isOth cfg.reg) = [] := List.filter_eq_nil_iff.2 (fun m hm => by
      obtain ⟨b, rfl, _⟩ := hform m hm; simp [isOth])
    have e2 : ms.filterMap objF = [] := List.filterMap_eq_nil_iff.2 (fun m hm => by
      obtain ⟨b, rfl, _⟩ := hform m hm; rfl)
    have e3 : ms.filterMap dictE = [] := List.filterMap_eq_nil_iff.2 (fun m hm => by
      obtain ⟨b, rfl, _⟩ := hform m hm; rfl)
    have e4 : ms.filter (isStrT cfg.reg) = [] := List.filter_eq_nil_iff.2 (fun m hm => by
      obtain ⟨b, rfl, _⟩ := hform m hm; simp [isStrT])
    have e5 : exList cfg.lit ms = [.list (mkUnion cfg.lit (ms.filterMap listE))] := by
      unfold exList; simp [hbs]
    have := hz (.list (mkUnion cfg.lit (ms.filterMap listE)))
      (by rw [baseOther_nil e1, exObj_nil e2 xo, e5, exDict_nil e3, exStr_nil e4 xs]; rfl)
    cases g₂ with
    | zero => exact absurd this (fun h => optimize_zero h)
    | succ h =>
      obtain ⟨z, hz', rfl⟩ := optimize_list.1 this
      obtain ⟨w, hw, rfl⟩ := optimize_list.1 h₁
      refine nsim_of_asim' (asim_list_list.2 (elem_vs_union ih (by omega) (by simpa using rx) hbs ?_ ?_ hw hz'))
      · intro b hb
        simpa using mok.raw _ (mem_filterMap_listE.1 hb)
      · intro b hb
        obtain ⟨b', e', hn⟩ := hform _ (mem_filterMap_listE.1 hb)
        cases e'; exact hn
  case dict a =>
    have hform : ∀ m ∈ ms, ∃ b, m = .dict b ∧ NSim a b := fun m hm => asim_dict.1 (hall m hm)
    have hbs : ms.filterMap dictE ≠ [] := by
      obtain ⟨m, hm⟩ := List.exists_mem_of_ne_nil _ hne
      obtain ⟨b, rfl, _⟩ := hform m hm
      exact List.ne_nil_of_mem (mem_filterMap_dictE.2 hm)
    obtain ⟨other, ho, hz⟩ := optimizeUnion_single' h₂
    obtain ⟨eo, es, rfl, xo, xs⟩ := unionOther_spec mok.noopt mok.flat ho
    have e1 : ms.filter (isOth cfg.reg) = [] := List.filter_eq_nil_iff.2 (fun m hm => by
      obtain ⟨b, rfl, _⟩ := hform m hm; simp [isOth])
    have e2 : ms.filterMap objF = [] := List.filterMap_eq_nil_iff.2 (fun m hm => by
      obtain ⟨b, rfl, _⟩ := hform m hm; rfl)
    have e3 : ms.filterMap listE = [] := List.filterMap_eq_nil_iff.2 (fun m hm => by
      obtain ⟨b, rfl, _⟩ := hform m hm; rfl)
    have e4 : ms.filter (isStrT cfg.reg) = [] := List.filter_eq_nil_iff.2 (fun m hm => by
      obtain ⟨b, rfl, _⟩ := hform m hm; simp [isStrT])
    have e5 : exDict cfg.lit ms = [.dict (mkUnion cfg.lit (ms.filterMap dictE))] := by
      unfold exDict; simp [hbs]
    have := hz (.dict (mkUnion cfg.lit (ms.filterMap dictE)))
      (by rw [baseOther_nil e1, exObj_nil e2 xo, e5, exList_nil e3, exStr_nil e4 xs]; rfl)
    cases g₂ with
    | zero => exact absurd this (fun h => optimize_zero h)
    | succ h =>
      obtain ⟨z, hz', rfl⟩ := optimize_dict.1 this
      obtain ⟨w, hw, rfl⟩ := optimize_dict.1 h₁
      refine nsim_of_asim' (asim_dict_dict.2 (elem_vs_union ih (by omega) (by simpa using rx) hbs ?_ ?_ hw hz'))
      · intro b hb
        simpa using mok.raw _ (mem_filterMap_dictE.1 hb)
      · intro b hb
        obtain ⟨b', e', hn⟩ := hform _ (mem_filterMap_dictE.1 hb)
        cases e'; exact hn
  case obj A =>
    have hform : ∀ m ∈ ms, ∃ B, m = .obj B ∧ FieldsN A B := fun m hm => asim_obj.1 (hall m hm)
    have hBs : ms.filterMap objF ≠ [] := by
      obtain ⟨m, hm⟩ := List.exists_mem_of_ne_nil _ hne
      obtain ⟨b, rfl, _⟩ := hform m hm
      exact List.ne_nil_of_mem (mem_filterMap_objF.2 hm)
    have hAB : ∀ B ∈ ms.filterMap objF, FieldsN A B := by
      intro B hB
      obtain ⟨B', e', hn⟩ := hform _ (mem_filterMap_objF.1 hB)
      cases e'; exact hn
    obtain ⟨other, ho, hz⟩ := optimizeUnion_single' h₂
    obtain ⟨eo, es, rfl, xo, xs⟩ := unionOther_spec mok.noopt mok.flat ho
    have e1 : ms.filter (isOth cfg.reg) = [] := List.filter_eq_nil_iff.2 (fun m hm => by
      obtain ⟨b, rfl, _⟩ := hform m hm; simp [isOth])
    have e2 : ms.filterMap listE = [] := List.filterMap_eq_nil_iff.2 (fun m hm => by
      obtain ⟨b, rfl, _⟩ := hform m hm; rfl)
    have e3 : ms.filterMap dictE = [] := List.filterMap_eq_nil_iff.2 (fun m hm => by
      obtain ⟨b, rfl, _⟩ := hform m hm; rfl)
    have e4 : ms.filter (isStrT cfg.reg) = [] := List.filter_eq_nil_iff.2 (fun m hm => by
      obtain ⟨b, rfl, _⟩ := hform m hm; simp [isStrT])
    rcases xo with ⟨en, _⟩ | ⟨_, M, hM, rfl⟩
    · exact absurd en hBs
    have := hz (.obj M) (by rw [baseOther_nil e1, exList_nil e2, exDict_nil e3, exStr_nil e4 xs]; rfl)
    have hraw : RawSets cfg.lit (ms.filterMap objF) := by
      intro fs hfs kv hkv
      exact (rawN_obj.1 (mok.raw _ (mem_filterMap_objF.1 hfs))).2 kv hkv
    have mM : MObj cfg.lit M := mergeFieldSets_rawT hraw hM
    have ndA : Fields.keys A |>.Nodup := (rawN_obj.1 rx).1
    have hA : ∀ kv ∈ A, RawF cfg.lit kv.2 := (rawN_obj.1 rx).2
    obtain ⟨items, inv, mem⟩ := mergeFieldSets_finv hraw hM
    have invA := finv_self ndA hA
    obtain ⟨B₀, hB₀⟩ := List.exists_mem_of_ne_nil _ hBs
    have key : ∀ k t u, (k, t) ∈ A → (k, u) ∈ M → NSim t u := by
      intro k t u ht hu
      have hkA : k ∈ Fields.keys A := List.mem_map.2 ⟨_, ht, rfl⟩
      apply finv_nsim invA inv (Fields.get?_of_mem_nodup ndA ht) (Fields.get?_of_mem_nodup mM.1 hu)
      · constructor
        · intro d hd
          obtain ⟨d', hd', hn⟩ := (hAB B₀ hB₀).1 _ (mem_typesOf.1 hd)
          exact ⟨d', mem_typesOf.2 ((mem _).2 ⟨B₀, hB₀, hd'⟩),
            asim_of_nsim (hA _ (mem_typesOf.1 hd)).2 (hraw B₀ hB₀ _ hd').2 hn⟩
        · intro d' hd'
          obtain ⟨B, hB, hin⟩ := (mem _).1 (mem_typesOf.1 hd')
          obtain ⟨d, hd, hn⟩ := (hAB B hB).2 _ hin
          exact ⟨d, mem_typesOf.2 hd, asim_of_nsim (hA _ hd).2 (hraw B hB _ hin).2 hn⟩
      · have h1 : t.isOpt = false := (hA _ ht).1.not_opt
        have h2 : ¬ u.isOpt = true := by
          rw [mergeFieldSets_opt_iff_of_optFree hM hraw.optFree hu]
          rintro ⟨B, hB, hk⟩
          exact hk ((fieldsN_keys (hAB B hB) k).1 hkA)
        rw [h1]
        constructor
        · intro h; cases h
        · intro h; exact absurd h h2
    have hN : FieldsN A M := by
      constructor
      · intro kv hkv
        have hk : kv.1 ∈ M.keys := by
          rw [mergeFieldSets_keys hM, mem_dedupStr, List.mem_flatMap]
          exact ⟨B₀, hB₀, (fieldsN_keys (hAB B₀ hB₀) kv.1).1 (List.mem_map.2 ⟨_, hkv, rfl⟩)⟩
        obtain ⟨u, hu⟩ := mem_keys_iff.1 hk
        exact ⟨u, hu, key kv.1 kv.2 u hkv hu⟩
      · intro kv hkv
        have hk : kv.1 ∈ M.keys := List.mem_map.2 ⟨_, hkv, rfl⟩
        rw [mergeFieldSets_keys hM, mem_dedupStr, List.mem_flatMap] at hk
        obtain ⟨B, hB, hkB⟩ := hk
        obtain ⟨t, ht⟩ := mem_keys_iff.1 ((fieldsN_keys (hAB B hB) kv.1).2 hkB)
        exact ⟨t, ht, key kv.1 t kv.2 ht hkv⟩
    cases g₂ with
    | zero => exact absurd this (fun h => optimize_zero h)
    | succ h => exact obj_step ih (by omega) (mobj_of_raw rx) mM hN h₁ this
  case opt a => simp at rx
  case tuple ts => simp at rx
  case ptr i => simp at rx
  case union us => simp [Ty.isUnion] at hux
  all_goals exact tc_leaf ih (by omega) rx hux rfl rms hs h₁ h₂

/-- **the three congruence statements hold for every fuel** -/
theorem cong_all (cfg : GenCfg) (e : EqEnv) : ∀ n, Cong cfg e n := by
  intro n
  induction n with
  | zero =>
    refine ⟨?_, ?_, ?_⟩
    · intro f₁ f₂ t₁ t₂ u₁ u₂ hf _ _ h₁ _
      have : f₁ = 0 := by omega
      subst this; exact absurd h₁ (fun h => optimize_zero h)
    · intro f₁ f₂ ms₁ ms₂ u₁ u₂ hf _ _ _ h₁ _
      have : f₁ = 0 := by omega
      subst this; exact absurd h₁ (fun h => optimizeUnion_zero h)
    · intro f₁ f₂ x ms u₁ u₂ hf _ _ _ _ h₁ _
      have : f₁ = 0 := by omega
      subst this; exact absurd h₁ (fun h => optimize_zero h)
  | succ n ih => exact ⟨oc_step ih, uc_step ih, tc_step ih⟩

/-- **`optimize_congr`**: `optimize_type` maps arguments that are equal up to order (`NSim`: member sets
    equal up to order in every type position) to results that are equal up to order, whatever the fuel. -/
theorem optimize_congr {cfg : GenCfg} {e : EqEnv} {f₁ f₂ : Nat} {t₁ t₂ u₁ u₂ : Ty}
    (hp : GPair cfg.lit t₁ t₂) (hs : NSim t₁ t₂)
    (h₁ : optimize cfg e f₁ t₁ = .ok u₁) (h₂ : optimize cfg e f₂ t₂ = .ok u₂) : NSim u₁ u₂ :=
  (cong_all cfg e (f₁ + f₂)).oc f₁ f₂ t₁ t₂ u₁ u₂ (Nat.le_refl _) hp hs h₁ h₂

end J2M.Perm
