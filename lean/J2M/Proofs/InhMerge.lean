/-
  C01 helpers, part 5: `merge_field_sets` keeps every object of every input field set, provided no
  field of an input set is a `DOptional` (the general statement is false, see Props/C01.lean).
-/
import J2M.Proofs.InhEq
import J2M.Proofs.InhDetect
namespace J2M

/-- the type built when an incoming field differs from the existing one -/
def mergeNew (c : LitCfg) (field other : Ty) : Ty :=
  collapse (mkUnionMembers c (field.unionMembers ++ other.unionMembers))

theorem mergeOne_none {c e first} {F : Fields} {name field} (hg : Fields.get? F name = none) :
    mergeOne c e first F name field =
      pure (F.set name (if first || field.isOpt then field else .opt field)) := by
  unfold mergeOne; rw [hg]

theorem mergeOne_some_opt {c e first} {F : Fields} {name field oi}
    (hg : Fields.get? F name = some (.opt oi)) :
    mergeOne c e first F name field = (do
      let b1 ← e.eq (.opt oi) field
      if b1 = true then pure F else do
      let b2 ← e.eq oi field
      if b2 = true then pure F else pure (F.set name (.opt (mergeNew c field oi)))) := by
  unfold mergeOne; rw [hg]; rfl

theorem mergeOne_some_other {c e first} {F : Fields} {name field orig}
    (hg : Fields.get? F name = some orig) (ho : orig.isOpt = false) :
    mergeOne c e first F name field = (do
      let same ← e.eq orig field
      if same = true then pure F else do
      let sameInner ← (match field with | .opt fi => e.eq orig fi | _ => pure false)
      if sameInner = true then pure (F.set name field) else pure (F.set name (mergeNew c field orig))) := by
  unfold mergeOne; rw [hg]
  cases orig <;> first | rfl | simp [Ty.isOpt] at ho

/-- a class of types closed under what `merge_field_sets` builds -/
structure MergeClosed (K : String → Prop) (P : Ty → Prop) : Prop where
  str : P .str
  lit : ∀ vs, vs ≠ [] → P (.lit false vs)
  unionMem : ∀ us, P (.union us) → ∀ u ∈ us, P u
  union : ∀ us, (∀ u ∈ us, P u) → P (.union us)
  opt : ∀ t, P t ↔ P (.opt t)
  good : ∀ t, P t → Ty.Good K t

theorem mergeClosed_good {K} : MergeClosed K (Ty.Good K) :=
  ⟨by simp, by simp, fun _ h => Ty.good_union.1 h, fun _ h => Ty.good_union.2 h, by simp, fun _ h => h⟩

theorem mergeClosed_goodSafe {K} : MergeClosed K (fun t => Ty.Good K t ∧ Ty.MergeSafe true t) :=
  ⟨by simp, by simp,
   fun _ h u hu => ⟨Ty.good_union.1 h.1 u hu, Ty.mergeSafe_union.1 h.2 u hu⟩,
   fun _ h => ⟨Ty.good_union.2 (fun u hu => (h u hu).1), Ty.mergeSafe_union.2 (fun u hu => (h u hu).2)⟩,
   by simp, fun _ h => h.1⟩

/-- every inhabitant of `a` is an inhabitant of `b` -/
def Covers (ov : Bool) (acc : Accepts) (g : ModelLookup) (a b : Ty) : Prop :=
  ∀ v, InhX ov acc g a v → InhX ov acc g b v

theorem Covers.refl {ov acc g a} : Covers ov acc g a a := fun _ h => h
theorem Covers.trans {ov acc g a b c} (h1 : Covers ov acc g a b) (h2 : Covers ov acc g b c) :
    Covers ov acc g a c := fun v h => h2 v (h1 v h)
theorem Covers.toOpt {ov acc g a} : Covers ov acc g a (.opt a) := fun _ h => InhX.optSome h

theorem inh_unionMembers {ov acc g t v} (h : InhX ov acc g t v) : ∃ m ∈ t.unionMembers, InhX ov acc g m v := by
  cases t with
  | union ts => exact inh_union_iff.1 h
  | _ => exact ⟨_, by simp [Ty.unionMembers], h⟩

theorem closed_unionMembers {K P} (cl : MergeClosed K P) {t : Ty} (h : P t) : ∀ m ∈ t.unionMembers, P m := by
  cases t with
  | union ts => exact cl.unionMem _ h
  | _ => simpa [Ty.unionMembers] using h

theorem closed_flatten {K P} (cl : MergeClosed K P) {ts : List Ty} (h : ∀ t ∈ ts, P t) :
    ∀ t ∈ flattenUnion ts, P t :=
  flattenUnion_forall (P := P) cl.unionMem h

theorem closed_collapse {K P} (cl : MergeClosed K P) {us : List Ty} (h : ∀ u ∈ us, P u) : P (collapse us) := by
  unfold collapse
  split
  · exact h _ (by simp)
  · exact cl.union _ h

section
variable {ov : Bool} {acc : Accepts} {g : ModelLookup} {K : String → Prop} {P : Ty → Prop}

theorem closed_mergeNew (cl : MergeClosed K P) {c : LitCfg} {a b : Ty} (ha : P a) (hb : P b) :
    P (mergeNew c a b) := by
  apply closed_collapse cl
  apply mkUnionMembers_forall _ cl.str cl.lit
  apply closed_flatten cl
  intro t ht
  rcases List.mem_append.1 ht with ht | ht
  · exact closed_unionMembers cl ha t ht
  · exact closed_unionMembers cl hb t ht

theorem covers_mergeNew (cl : MergeClosed K P) (hs : HashSoundOn ov acc g (Ty.Good K)) {c : LitCfg} {a b : Ty}
    (ha : P a) (hb : P b) : Covers ov acc g a (mergeNew c a b) ∧ Covers ov acc g b (mergeNew c a b) := by
  have hall : ∀ t ∈ a.unionMembers ++ b.unionMembers, Ty.Good K t := by
    intro t ht
    rcases List.mem_append.1 ht with ht | ht
    · exact cl.good _ (closed_unionMembers cl ha t ht)
    · exact cl.good _ (closed_unionMembers cl hb t ht)
  have hsnd := hashSound_of_good hs hall
  constructor
  · intro v hv
    obtain ⟨m, hm, hi⟩ := inh_unionMembers hv
    exact inh_collapse (mkUnion_sound' hsnd (List.mem_append_left _ hm) hi)
  · intro v hv
    obtain ⟨m, hm, hi⟩ := inh_unionMembers hv
    exact inh_collapse (mkUnion_sound' hsnd (List.mem_append_right _ hm) hi)

/-- invariant of the accumulated field dict -/
def FInv (P : Ty → Prop) (F : Fields) : Prop :=
  (F.map (·.1)).Nodup ∧ ∀ k t, Fields.get? F k = some t → P t

theorem FInv.set {F : Fields} {name t} (h : FInv P F) (ht : P t) : FInv P (F.set name t) := by
  refine ⟨Fields.nodup_set h.1, ?_⟩
  intro k t' hk
  rw [Fields.get?_set] at hk
  split at hk
  · cases hk; exact ht
  · exact h.2 k t' hk

/-- one incoming `(name, field)` -/
theorem mergeOne_spec (cl : MergeClosed K P) (hs : HashSoundOn ov acc g (Ty.Good K))
    {e : EqEnv} (he : EqSoundOn ov acc g e (Ty.Good K)) {c : LitCfg} {first : Bool}
    {F F' : Fields} {name : String} {field : Ty}
    (inv : FInv P F) (hf : P field) (h : mergeOne c e first F name field = .ok F') :
    FInv P F' ∧
    (∀ k, k ≠ name → Fields.get? F' k = Fields.get? F k) ∧
    ∃ t', Fields.get? F' name = some t' ∧
      (∀ orig, Fields.get? F name = some orig →
        Covers ov acc g orig t' ∧ (orig.isOpt = true → t'.isOpt = true)) ∧
      (Fields.get? F name = none → first = false → t'.isOpt = true) ∧
      (field.isOpt = false → Covers ov acc g field t') := by
  cases hg : Fields.get? F name with
  | none =>
    rw [mergeOne_none hg, Except.pure_eq_ok] at h
    subst h
    have hP : P (if first || field.isOpt then field else .opt field) := by
      split
      · exact hf
      · exact (cl.opt _).1 hf
    refine ⟨inv.set hP, ?_, (if first || field.isOpt then field else .opt field),
      by simp [Fields.get?_set], ?_, ?_, ?_⟩
    · intro k hk
      have : ¬ name = k := fun e => hk e.symm
      simp [Fields.get?_set, this]
    · intro orig ho; simp at ho
    · intro _ hfirst
      subst hfirst
      cases hfo : field.isOpt <;> simp [Ty.isOpt]
      exact hfo
    · intro _
      split
      · exact Covers.refl
      · exact Covers.toOpt
  | some orig =>
    have hPo : P orig := inv.2 _ _ hg
    cases hio : orig.isOpt with
    | true =>
      obtain ⟨oi, rfl⟩ : ∃ oi, orig = .opt oi := by
        cases orig <;> simp [Ty.isOpt] at hio; exact ⟨_, rfl⟩
      have hPoi : P oi := (cl.opt _).2 hPo
      rw [mergeOne_some_opt hg, Except.bind_eq_ok] at h
      obtain ⟨b1, hb1, h⟩ := h
      rw [Except.bind_eq_ok] at h
      obtain ⟨b2, hb2, h⟩ := h
      split at h
      · rename_i hb
        rw [Except.pure_eq_ok] at h; subst h
        refine ⟨inv, fun _ _ => rfl, _, hg, ?_, by simp, ?_⟩
        · intro orig' ho; cases ho; exact ⟨Covers.refl, fun _ => rfl⟩
        · intro _ v hv
          have hb' : b1 = true ∨ b2 = true := by simpa using hb
          rcases hb' with hb | hb
          · subst hb
            exact (he _ _ (cl.good _ hPo) (cl.good _ hf) hb1 v).2 hv
          · subst hb
            exact InhX.optSome ((he _ _ (cl.good _ hPoi) (cl.good _ hf) hb2 v).2 hv)
      · rw [Except.pure_eq_ok] at h; subst h
        have hPn : P (mergeNew c field oi) := closed_mergeNew cl hf hPoi
        obtain ⟨cv1, cv2⟩ := covers_mergeNew (c := c) cl hs hf hPoi
        refine ⟨inv.set ((cl.opt _).1 hPn), ?_, .opt (mergeNew c field oi), by simp [Fields.get?_set], ?_,
          by simp, ?_⟩
        · intro k hk
          have : ¬ name = k := fun e => hk e.symm
          simp [Fields.get?_set, this]
        · intro orig' ho; cases ho
          refine ⟨?_, fun _ => rfl⟩
          intro v hv
          rcases inh_opt_iff.1 hv with rfl | hv
          · exact InhX.optNull
          · exact InhX.optSome (cv2 v hv)
        · intro _ v hv; exact InhX.optSome (cv1 v hv)
    | false =>
      rw [mergeOne_some_other hg hio, Except.bind_eq_ok] at h
      obtain ⟨b1, hb1, h⟩ := h
      rw [Except.bind_eq_ok] at h
      obtain ⟨b2, hb2, h⟩ := h
      split at h
      · rename_i hb
        rw [Except.pure_eq_ok] at h; subst h
        refine ⟨inv, fun _ _ => rfl, _, hg, ?_, by simp, ?_⟩
        · intro orig' ho; cases ho; exact ⟨Covers.refl, fun h => h⟩
        · intro hfo v hv
          have hb2' : b2 = false := by
            cases field <;> simp_all [Ty.isOpt, pure, Except.pure]
          subst hb2'
          have : b1 = true := by simpa using hb
          subst this
          exact (he _ _ (cl.good _ hPo) (cl.good _ hf) hb1 v).2 hv
      · rw [Except.pure_eq_ok] at h; subst h
        have hPn : P (mergeNew c field orig) := closed_mergeNew cl hf hPo
        obtain ⟨cv1, cv2⟩ := covers_mergeNew (c := c) cl hs hf hPo
        refine ⟨inv.set hPn, ?_, mergeNew c field orig, by simp [Fields.get?_set], ?_, by simp, ?_⟩
        · intro k hk
          have : ¬ name = k := fun e => hk e.symm
          simp [Fields.get?_set, this]
        · intro orig' ho; cases ho
          exact ⟨cv2, fun h => by rw [hio] at h; simp at h⟩
        · intro _; exact cv1

/-- the inner loop `for name, field in model.items()` -/
theorem mergeFold_spec (cl : MergeClosed K P) (hs : HashSoundOn ov acc g (Ty.Good K))
    {e : EqEnv} (he : EqSoundOn ov acc g e (Ty.Good K)) {c : LitCfg} {first : Bool} :
    ∀ (m : Fields) (F F1 : Fields), FInv P F → (∀ f ∈ m, P f.2) →
      m.foldlM (fun fs (kv : String × Ty) => mergeOne c e first fs kv.1 kv.2) F = .ok F1 →
      FInv P F1 ∧
      (∀ k, k ∈ F1.map (·.1) ↔ k ∈ F.map (·.1) ∨ k ∈ m.map (·.1)) ∧
      (∀ k orig, Fields.get? F k = some orig → ∃ t1, Fields.get? F1 k = some t1 ∧
        Covers ov acc g orig t1 ∧ (orig.isOpt = true → t1.isOpt = true)) ∧
      (first = false → ∀ k, Fields.get? F k = none → ∀ t1, Fields.get? F1 k = some t1 → t1.isOpt = true) ∧
      ((∀ f ∈ m, f.2.isOpt = false) → ∀ k t0, Fields.get? m k = some t0 →
        ∃ t1, Fields.get? F1 k = some t1 ∧ Covers ov acc g t0 t1) := by
  intro m
  induction m with
  | nil =>
    intro F F1 inv _ h
    simp only [List.foldlM_nil, Except.pure_eq_ok] at h
    subst h
    exact ⟨inv, by simp, fun k orig ho => ⟨orig, ho, Covers.refl, fun h => h⟩,
      fun _ k hk t1 ht => by rw [hk] at ht; simp at ht, fun _ k t0 hk => by simp at hk⟩
  | cons kv m ih =>
    obtain ⟨name, field⟩ := kv
    intro F F1 inv hm h
    rw [List.foldlM_cons, Except.bind_eq_ok] at h
    obtain ⟨F', hF', h⟩ := h
    obtain ⟨inv', hother, t', ht', hc1, hc2, hc3⟩ :=
      mergeOne_spec cl hs he inv (hm _ List.mem_cons_self) hF'
    obtain ⟨inv1, hkeys, hwid, hnew, hcov⟩ := ih F' F1 inv' (fun f hf => hm f (List.mem_cons_of_mem _ hf)) h
    have hkeys' : ∀ k, k ∈ F'.map (·.1) ↔ k = name ∨ k ∈ F.map (·.1) := by
      intro k
      by_cases hk : k = name
      · subst hk
        simp only [true_or, iff_true]
        rw [← Fields.get?_isSome_iff, ht']; rfl
      · rw [← Fields.get?_isSome_iff, hother k hk, Fields.get?_isSome_iff]; simp [hk]
    refine ⟨inv1, ?_, ?_, ?_, ?_⟩
    · intro k
      rw [hkeys k, hkeys' k]
      simp only [List.map_cons, List.mem_cons]
      constructor
      · rintro ((h | h) | h) <;> simp [h]
      · rintro (h | h | h) <;> simp [h]
    · intro k orig ho
      by_cases hk : k = name
      · subst hk
        obtain ⟨cv, hopt⟩ := hc1 orig ho
        obtain ⟨t1, ht1, cv1, hopt1⟩ := hwid k t' ht'
        exact ⟨t1, ht1, cv.trans cv1, fun h => hopt1 (hopt h)⟩
      · exact hwid k orig (by rw [hother k hk]; exact ho)
    · intro hfirst k hk t1 ht1
      by_cases hkn : k = name
      · subst hkn
        obtain ⟨t1', ht1', _, hopt1⟩ := hwid k t' ht'
        rw [ht1] at ht1'; cases ht1'
        exact hopt1 (hc2 hk hfirst)
      · exact hnew hfirst k (by rw [hother k hkn]; exact hk) t1 ht1
    · intro hno k t0 hk
      rw [Fields.get?_cons] at hk
      split at hk
      · rename_i hkn
        subst hkn
        cases hk
        obtain ⟨t1, ht1, cv1, _⟩ := hwid name t' ht'
        exact ⟨t1, ht1, (hc3 (hno _ List.mem_cons_self)).trans cv1⟩
      · exact hcov (fun f hf => hno f (List.mem_cons_of_mem _ hf)) k t0 hk

theorem covers_inhF_lookup {fs : Fields} {kvs : List (String × Json)} (h : InhF ov acc g fs kvs)
    {k : String} (hk : ∃ kv ∈ kvs, kv.1 = k) : (Fields.get? fs k).isSome = true := by
  obtain ⟨kv, hkv, rfl⟩ := hk
  obtain ⟨t, ht, _⟩ := h.1 kv hkv
  simp [ht]

/-- one `for model in field_sets` iteration -/
theorem mergeStep_spec (cl : MergeClosed K P) (hs : HashSoundOn ov acc g (Ty.Good K))
    {e : EqEnv} (he : EqSoundOn ov acc g e (Ty.Good K)) {c : LitCfg} {first : Bool}
    {m F F2 : Fields} (inv : FInv P F) (hm : ∀ f ∈ m, P f.2)
    (h : mergeStep c e first F m = .ok F2) :
    FInv P F2 ∧
    (first = false → ∀ kvs, InhF ov acc g F kvs → InhF ov acc g F2 kvs) ∧
    ((∀ f ∈ m, f.2.isOpt = false) → ∀ kvs, InhF ov acc g m kvs → InhF ov acc g F2 kvs) := by
  unfold mergeStep at h
  simp only at h
  rw [Except.bind_eq_ok] at h
  obtain ⟨F1, hF1, h⟩ := h
  rw [Except.pure_eq_ok] at h
  obtain ⟨inv1, hkeys, hwid, hnew, hcov⟩ := mergeFold_spec cl hs he m F F1 inv hm hF1
  -- the final pass only wraps some types in `DOptional`
  let wrap : String → Ty → Ty := fun k t =>
    if (F.keys.contains k && !m.has k && !t.isOpt) = true then Ty.opt t else t
  have hwrap : ∀ k t, wrap k t = t ∨ wrap k t = .opt t := by
    intro k t; simp only [wrap]; split <;> simp
  have hget : ∀ k, Fields.get? F2 k = (Fields.get? F1 k).map (wrap k) := by
    intro k
    rw [← h, Fields.get?_map (f := fun kv : String × Ty =>
      if (F.keys.contains kv.1 && !m.has kv.1 && !kv.2.isOpt) = true then (kv.1, Ty.opt kv.2) else kv)]
    · cases Fields.get? F1 k with
      | none => rfl
      | some t => simp only [Option.map_some, wrap]; split <;> rfl
    · intro kv; split <;> rfl
  have hget' : ∀ k t2, Fields.get? F2 k = some t2 → ∃ t1, Fields.get? F1 k = some t1 ∧ t2 = wrap k t1 := by
    intro k t2 hk
    rw [hget k] at hk
    cases h1 : Fields.get? F1 k with
    | none => rw [h1] at hk; simp at hk
    | some t1 => rw [h1] at hk; simp only [Option.map_some, Option.some.injEq] at hk; exact ⟨t1, rfl, hk.symm⟩
  have hkeys2 : F2.map (·.1) = F1.map (·.1) := by
    rw [← h]; apply Fields.keys_map; intro kv; split <;> rfl
  have hcovwrap : ∀ k t, Covers ov acc g t (wrap k t) := by
    intro k t
    rcases hwrap k t with e | e <;> rw [e]
    · exact Covers.refl
    · exact Covers.toOpt
  refine ⟨⟨by rw [hkeys2]; exact inv1.1, ?_⟩, ?_, ?_⟩
  · intro k t hk
    obtain ⟨t1, h1, rfl⟩ := hget' k t hk
    have := inv1.2 k t1 h1
    rcases hwrap k t1 with e | e <;> rw [e]
    · exact this
    · exact (cl.opt _).1 this
  · intro hfirst kvs hin
    refine ⟨?_, ?_⟩
    · intro kv hkv
      obtain ⟨t, ht, hi⟩ := hin.1 kv hkv
      obtain ⟨t1, ht1, cv, _⟩ := hwid _ _ ht
      exact ⟨wrap kv.1 t1, by rw [hget, ht1]; rfl, hcovwrap _ _ _ (cv _ hi)⟩
    · intro k t2 hk hno
      obtain ⟨t1, h1, rfl⟩ := hget' k t2 hk
      have ht1 : t1.isOpt = false := by
        rcases hwrap k t1 with e | e <;> rw [e] at hno
        · exact hno
        · simp [Ty.isOpt] at hno
      cases h0 : Fields.get? F k with
      | none =>
        have := hnew hfirst k h0 t1 h1
        rw [ht1] at this; simp at this
      | some orig =>
        obtain ⟨t1', ht1', _, hopt⟩ := hwid k orig h0
        rw [h1] at ht1'; cases ht1'
        have horig : orig.isOpt = false := by
          cases ho : orig.isOpt with
          | false => rfl
          | true => have := hopt ho; rw [ht1] at this; simp at this
        exact hin.2 k orig h0 horig
  · intro hno kvs hin
    have hpresent : ∀ k, k ∈ m.map (·.1) → ∃ kv ∈ kvs, kv.1 = k := by
      intro k hk
      rw [← Fields.get?_isSome_iff] at hk
      cases h0 : Fields.get? m k with
      | none => rw [h0] at hk; simp at hk
      | some t0 => exact hin.2 k t0 h0 (hno _ (Fields.mem_of_get? h0))
    refine ⟨?_, ?_⟩
    · intro kv hkv
      obtain ⟨t0, ht0, hi⟩ := hin.1 kv hkv
      obtain ⟨t1, ht1, cv⟩ := hcov hno _ _ ht0
      exact ⟨wrap kv.1 t1, by rw [hget, ht1]; rfl, hcovwrap _ _ _ (cv _ hi)⟩
    · intro k t2 hk hno2
      obtain ⟨t1, h1, rfl⟩ := hget' k t2 hk
      by_cases hmk : k ∈ m.map (·.1)
      · exact hpresent k hmk
      · -- not a key of this model: it was there before, so the final pass made it optional
        exfalso
        have hk1 : k ∈ F1.map (·.1) := by rw [← Fields.get?_isSome_iff, h1]; rfl
        have hbefore : k ∈ F.map (·.1) := by
          rcases (hkeys k).1 hk1 with h | h
          · exact h
          · exact absurd h hmk
        have hc1 : F.keys.contains k = true := by simpa [Fields.keys] using hbefore
        have hc2 : m.has k = false := by
          cases hh : m.has k with
          | false => rfl
          | true => exact absurd (Fields.has_iff.1 hh) hmk
        cases ho : t1.isOpt with
        | true =>
          have hw : wrap k t1 = t1 := by simp only [wrap, hc1, hc2, ho]; rfl
          rw [hw, ho] at hno2; simp at hno2
        | false =>
          have hw : wrap k t1 = .opt t1 := by simp only [wrap, hc1, hc2, ho]; rfl
          rw [hw] at hno2; simp [Ty.isOpt] at hno2

/-- the outer loop -/
theorem mergeGo_spec (cl : MergeClosed K P) (hs : HashSoundOn ov acc g (Ty.Good K))
    {e : EqEnv} (he : EqSoundOn ov acc g e (Ty.Good K)) {c : LitCfg} :
    ∀ (sets : List Fields) (first : Bool) (F F' : Fields), FInv P F →
      (∀ m ∈ sets, ∀ f ∈ m, P f.2 ∧ f.2.isOpt = false) →
      mergeFieldSets.go c e first F sets = .ok F' →
      FInv P F' ∧
      (first = false → ∀ kvs, InhF ov acc g F kvs → InhF ov acc g F' kvs) ∧
      (∀ m ∈ sets, ∀ kvs, InhF ov acc g m kvs → InhF ov acc g F' kvs) := by
  intro sets
  induction sets with
  | nil =>
    intro first F F' inv _ h
    simp only [mergeFieldSets.go, Except.pure_eq_ok] at h
    subst h
    exact ⟨inv, fun _ _ h => h, by simp⟩
  | cons m ms ih =>
    intro first F F' inv hsets h
    rw [mergeFieldSets.go, Except.bind_eq_ok] at h
    obtain ⟨F1, hF1, h⟩ := h
    have hm := hsets m List.mem_cons_self
    obtain ⟨inv1, hB, hA⟩ := mergeStep_spec cl hs he inv (fun f hf => (hm f hf).1) hF1
    obtain ⟨inv', hB', hA'⟩ := ih false F1 F' inv1 (fun m' hm' => hsets m' (List.mem_cons_of_mem _ hm')) h
    refine ⟨inv', ?_, ?_⟩
    · intro hfirst kvs hin
      exact hB' rfl kvs (hB hfirst kvs hin)
    · intro m' hm' kvs hin
      rcases List.mem_cons.1 hm' with e | hm'
      · subst e
        exact hB' rfl kvs (hA (fun f hf => (hm f hf).2) kvs hin)
      · exact hA' m' hm' kvs hin

/-- `merge_field_sets` for input sets whose fields lie in `P` and are not `DOptional` -/
theorem mergeFieldSets_spec (cl : MergeClosed K P) (hs : HashSoundOn ov acc g (Ty.Good K))
    {e : EqEnv} (he : EqSoundOn ov acc g e (Ty.Good K)) {c : LitCfg} {sets : List Fields} {F : Fields}
    (hsets : ∀ m ∈ sets, ∀ f ∈ m, P f.2 ∧ f.2.isOpt = false)
    (h : mergeFieldSets c e sets = .ok F) :
    (F.map (·.1)).Nodup ∧ (∀ f ∈ F, P f.2) ∧
    ∀ m ∈ sets, ∀ kvs, InhFieldsX ov acc g m kvs → InhFieldsX ov acc g F kvs := by
  unfold mergeFieldSets at h
  obtain ⟨inv, _, hA⟩ := mergeGo_spec cl hs he sets true [] F ⟨by simp, by simp⟩ hsets h
  refine ⟨inv.1, fun f hf => inv.2 f.1 f.2 (Fields.get?_of_mem inv.1 hf), ?_⟩
  intro m hm kvs hin
  exact (hA m hm kvs hin.toInhF).toInhFields inv.1

end

end J2M
