/-
  C01 helpers, part 5: `merge_field_sets` keeps every object of every input field set, provided no
  field of an input set is a `DOptional` (the general statement is false, see Props/C01.lean).
-/
import J2M.Proofs.InhEq
import J2M.Proofs.InhDetect
import J2M.Proofs.HashOpt
namespace J2M

/-- the type built when an incoming field differs from the existing one -/
def mergeNew (c : LitCfg) (field other : Ty) : Ty :=
  collapseU (mkUnionMembers c (field.unionMembers ++ other.unionMembers))

theorem mergeOne_none {c e first} {F : Fields} {name field} (hg : Fields.get? F name = none) :
    mergeOne c e first F name field =
      pure (F.set name (if first || field.isOpt then field else .opt field)) := by
  unfold mergeOne; rw [hg]

theorem mergeOne_some_opt {c e first} {F : Fields} {name field oi}
    (hg : Fields.get? F name = some (.opt oi)) :
    mergeOne c e first F name field = (do
      let b1 ← e.eq (.opt oi) field
      if b1 = true then pure F else do
      let b2 ← e.eq oi field
      if b2 = true then pure F else pure (F.set name (.opt (mergeNew c field oi)))) := by
  unfold mergeOne; rw [hg]; rfl

theorem mergeOne_some_other {c e first} {F : Fields} {name field orig}
    (hg : Fields.get? F name = some orig) (ho : orig.isOpt = false) :
    mergeOne c e first F name field = (do
      let same ← e.eq orig field
      if same = true then pure F else do
      let sameInner ← (match field with | .opt fi => e.eq orig fi | _ => pure false)
      if sameInner = true then pure (F.set name field) else pure (F.set name (mergeNew c field orig))) := by
  unfold mergeOne; rw [hg]
  cases orig <;> first | rfl | simp [Ty.isOpt] at ho

/-- a class of types closed under what `merge_field_sets` builds -/
structure MergeClosed (K : String → Prop) (P : Ty → Prop) : Prop where
  str : P .str
  lit : ∀ vs, vs ≠ [] → P (.lit false vs)
  unionMem : ∀ us, P (.union us) → ∀ u ∈ us, P u
  union : ∀ us, (∀ u ∈ us, P u) → P (.union us)
  opt : ∀ t, P t ↔ P (.opt t)
  good : ∀ t, P t → Ty.Good K t

theorem mergeClosed_good {K} : MergeClosed K (Ty.Good K) :=
  ⟨by simp, by simp, fun _ h => Ty.good_union.1 h, fun _ h => Ty.good_union.2 h, by simp, fun _ h => h⟩

theorem mergeClosed_goodSafe {K} : MergeClosed K (fun t => Ty.Good K t ∧ Ty.MergeSafe true t) :=
  ⟨by simp, by simp,
   fun _ h u hu => ⟨Ty.good_union.1 h.1 u hu, Ty.mergeSafe_union.1 h.2 u hu⟩,
   fun _ h => ⟨Ty.good_union.2 (fun u hu => (h u hu).1), Ty.mergeSafe_union.2 (fun u hu => (h u hu).2)⟩,
   by simp, fun _ h => h.1⟩

/-- every inhabitant of `a` is an inhabitant of `b` -/
def Covers (ov : Bool) (acc : Accepts) (g : ModelLookup) (a b : Ty) : Prop :=
  ∀ v, InhX ov acc g a v → InhX ov acc g b v

theorem Covers.refl {ov acc g a} : Covers ov acc g a a := fun _ h => h
theorem Covers.trans {ov acc g a b c} (h1 : Covers ov acc g a b) (h2 : Covers ov acc g b c) :
    Covers ov acc g a c := fun v h => h2 v (h1 v h)
theorem Covers.toOpt {ov acc g a} : Covers ov acc g a (.opt a) := fun _ h => InhX.optSome h

theorem inh_unionMembers {ov acc g t v} (h : InhX ov acc g t v) : ∃ m ∈ t.unionMembers, InhX ov acc g m v := by
  cases t with
  | union ts => exact inh_union_iff.1 h
  | _ => exact ⟨_, by simp [Ty.unionMembers], h⟩

theorem closed_unionMembers {K P} (cl : MergeClosed K P) {t : Ty} (h : P t) : ∀ m ∈ t.unionMembers, P m := by
  cases t with
  | union ts => exact cl.unionMem _ h
  | _ => simpa [Ty.unionMembers] using h

theorem closed_flatten {K P} (cl : MergeClosed K P) {ts : List Ty} (h : ∀ t ∈ ts, P t) :
    ∀ t ∈ flattenUnion ts, P t :=
  flattenUnion_forall (P := P) cl.unionMem h

theorem closed_collapse {K P} (cl : MergeClosed K P) {us : List Ty} (h : ∀ u ∈ us, P u) : P (collapseU us) := by
  unfold collapseU
  split
  · exact h _ (by simp)
  · exact cl.union _ h

section
variable {ov : Bool} {acc : Accepts} {g : ModelLookup} {K : String → Prop} {P : Ty → Prop}

theorem closed_mergeNew (cl : MergeClosed K P) {c : LitCfg} {a b : Ty} (ha : P a) (hb : P b) :
    P (mergeNew c a b) := by
  apply closed_collapse cl
  apply mkUnionMembers_forall _ cl.str cl.lit
  apply closed_flatten cl
  intro t ht
  rcases List.mem_append.1 ht with ht | ht
  · exact closed_unionMembers cl ha t ht
  · exact closed_unionMembers cl hb t ht

theorem covers_mergeNew (cl : MergeClosed K P) (hs : HashSoundOn ov acc g (Ty.Good K)) {c : LitCfg} {a b : Ty}
    (ha : P a) (hb : P b) : Covers ov acc g a (mergeNew c a b) ∧ Covers ov acc g b (mergeNew c a b) := by
  have hall : ∀ t ∈ a.unionMembers ++ b.unionMembers, Ty.Good K t := by
    intro t ht
    rcases List.mem_append.1 ht with ht | ht
    · exact cl.good _ (closed_unionMembers cl ha t ht)
    · exact cl.good _ (closed_unionMembers cl hb t ht)
  have hsnd := hashSound_of_good hs hall
  constructor
  · intro v hv
    obtain ⟨m, hm, hi⟩ := inh_unionMembers hv
    exact inh_collapse (mkUnion_sound' hsnd (List.mem_append_left _ hm) hi)
  · intro v hv
    obtain ⟨m, hm, hi⟩ := inh_unionMembers hv
    exact inh_collapse (mkUnion_sound' hsnd (List.mem_append_right _ hm) hi)

/-- invariant of the accumulated field dict -/
def FInv (P : Ty → Prop) (F : Fields) : Prop :=
  (F.map (·.1)).Nodup ∧ ∀ k t, Fields.get? F k = some t → P t

theorem FInv.set {F : Fields} {name t} (h : FInv P F) (ht : P t) : FInv P (F.set name t) := by
  refine ⟨Fields.nodup_set h.1, ?_⟩
  intro k t' hk
  rw [Fields.get?_set] at hk
  split at hk
  · cases hk; exact ht
  · exact h.2 k t' hk

/-! ### "optional-like" types -/

/-- a `DOptional`, or a `DUnion` with a `DOptional` member: the field types that `optimize_type` rewrites to a
    `DOptional` (`Union[Optional[str], int]` is `Optional[Union[str, int]]`) -/
def Ty.optLike (t : Ty) : Bool := t.unionMembers.any Ty.isOpt

theorem Ty.optLike_of_isOpt {t : Ty} (h : t.isOpt = true) : t.optLike = true := by
  cases t <;> simp [Ty.isOpt] at h
  simp [Ty.optLike, Ty.unionMembers, Ty.isOpt]

@[simp] theorem Ty.optLike_opt {t : Ty} : (Ty.opt t).optLike = true := Ty.optLike_of_isOpt rfl

theorem Ty.isOpt_false_of_optLike {t : Ty} (h : t.optLike = false) : t.isOpt = false := by
  cases ho : t.isOpt with
  | false => rfl
  | true => rw [Ty.optLike_of_isOpt ho] at h; cases h

theorem Ty.optLike_iff {t : Ty} : t.optLike = true ↔ ∃ m ∈ t.unionMembers, m.isOpt = true := by
  simp [Ty.optLike]

theorem Ty.optLike_union {ts : List Ty} : (Ty.union ts).optLike = true ↔ ∃ m ∈ ts, m.isOpt = true := by
  simp [Ty.optLike, Ty.unionMembers]

theorem Ty.optLike_eq_isOpt {t : Ty} (h : t.isUnion = false) : t.optLike = t.isOpt := by
  cases t <;> first | rfl | simp [Ty.isUnion] at h

theorem mem_flattenUnion_of_mem {ts : List Ty} {m : Ty} (hm : m ∈ ts) (hu : m.isUnion = false) :
    m ∈ flattenUnion ts := by
  induction ts with
  | nil => cases hm
  | cons t ts ih =>
    rcases List.mem_cons.1 hm with e | hm
    · subst e
      cases m <;> first | (simp [Ty.isUnion] at hu; done) | simp [flattenUnion]
    · have := ih hm
      cases t <;> simp [flattenUnion, this]

/-- `DUnion.__init__` keeps a `DOptional` member when an argument is one -/
theorem mkUnionMembers_opt {c : LitCfg} {ts : List Ty} {t : Ty} (ht : t ∈ flattenUnion ts)
    (ho : t.isOpt = true) : ∃ u ∈ mkUnionMembers c ts, u.isOpt = true := by
  have inv := unionState_inv ts
  have hl : t.isLit = false := by cases t <;> first | rfl | simp [Ty.isOpt] at ho
  have hh := inv.nonlit t (by simpa using ht) hl
  rw [inv.hashes_eq, List.mem_map] at hh
  obtain ⟨u, hu, he⟩ := hh
  exact ⟨u, mem_mkUnionMembers.2 (Or.inl hu), isOpt_of_hashStr_eq he.symm ho⟩

theorem optLike_collapse {us : List Ty} (h : ∃ u ∈ us, u.isOpt = true) : (collapseU us).optLike = true := by
  unfold collapseU
  split
  · obtain ⟨u, hu, ho⟩ := h
    simp at hu; subst hu; exact Ty.optLike_of_isOpt ho
  · exact Ty.optLike_union.2 h

theorem optLike_mergeNew {c : LitCfg} {a b : Ty} (h : a.optLike = true ∨ b.optLike = true) :
    (mergeNew c a b).optLike = true := by
  have : ∃ m ∈ a.unionMembers ++ b.unionMembers, m.isOpt = true := by
    rcases h with h | h
    · obtain ⟨m, hm, ho⟩ := Ty.optLike_iff.1 h; exact ⟨m, List.mem_append_left _ hm, ho⟩
    · obtain ⟨m, hm, ho⟩ := Ty.optLike_iff.1 h; exact ⟨m, List.mem_append_right _ hm, ho⟩
  obtain ⟨m, hm, ho⟩ := this
  have hnu : m.isUnion = false := by cases m <;> first | rfl | simp [Ty.isOpt] at ho
  exact optLike_collapse (mkUnionMembers_opt (mem_flattenUnion_of_mem hm hnu) ho)

/-- Python `==` relates only types of the same top-level class, and the members of equal `DUnion`s pairwise -/
theorem pyEq_optLike {so ms g} : ∀ (fuel : Nat) (a b : Ty), pyEq so ms g fuel a b = some true →
    a.isOpt = b.isOpt ∧ a.optLike = b.optLike := by
  intro fuel a b h
  cases fuel with
  | zero => simp [pyEq] at h
  | succ fuel =>
    have key : ∀ (fuel' : Nat) (x y : Ty), pyEq so ms g fuel' x y = some true → x.isOpt = y.isOpt := by
      intro fuel' x y hxy
      cases fuel' with
      | zero => simp [pyEq] at hxy
      | succ n => cases x <;> cases y <;> first | rfl | (simp [pyEq] at hxy; done)
    refine ⟨key _ a b h, ?_⟩
    cases a <;> cases b <;> try (first | rfl | (simp [pyEq] at h; done))
    case union.union xs ys =>
      rw [pyEq_union_eq] at h
      obtain ⟨hlen, hall⟩ := eqListF_true h
      have hiff : (Ty.union xs).optLike = true ↔ (Ty.union ys).optLike = true := by
        rw [Ty.optLike_union, Ty.optLike_union]
        constructor
        · rintro ⟨m, hm, ho⟩
          obtain ⟨y, hy⟩ := exists_zip_left (sortedMembers so ms xs) (sortedMembers so ms ys) (by omega) m
            (mem_sortByKey.2 hm)
          have := key _ _ _ (hall _ hy)
          exact ⟨y, mem_sortByKey.1 (List.of_mem_zip hy).2, by rw [← this]; exact ho⟩
        · rintro ⟨m, hm, ho⟩
          obtain ⟨x, hx⟩ := exists_zip_right (sortedMembers so ms xs) (sortedMembers so ms ys) (by omega) m
            (mem_sortByKey.2 hm)
          have := key _ _ _ (hall _ hx)
          exact ⟨x, mem_sortByKey.1 (List.of_mem_zip hx).1, by rw [this]; exact ho⟩
      cases h1 : (Ty.union xs).optLike <;> cases h2 : (Ty.union ys).optLike <;> simp_all

theorem EqEnv.eq_optLike {e : EqEnv} {a b : Ty} (h : e.eq a b = .ok true) :
    a.isOpt = b.isOpt ∧ a.optLike = b.optLike := by
  unfold EqEnv.eq at h
  split at h
  · rename_i r hr
    simp only [pure, Except.pure, Except.ok.injEq] at h
    subst h
    exact pyEq_optLike _ _ _ hr
  · cases h

/-- one incoming `(name, field)` -/
theorem mergeOne_spec (cl : MergeClosed K P) (hs : HashSoundOn ov acc g (Ty.Good K))
    {e : EqEnv} (he : EqSoundOn ov acc g e (Ty.Good K)) {c : LitCfg} {first : Bool}
    {F F' : Fields} {name : String} {field : Ty}
    (inv : FInv P F) (hf : P field) (h : mergeOne c e first F name field = .ok F') :
    FInv P F' ∧
    (∀ k, k ≠ name → Fields.get? F' k = Fields.get? F k) ∧
    ∃ t', Fields.get? F' name = some t' ∧
      (∀ orig, Fields.get? F name = some orig →
        Covers ov acc g orig t' ∧ (orig.isOpt = true → t'.isOpt = true) ∧
        (orig.optLike = true → t'.optLike = true)) ∧
      (Fields.get? F name = none → first = false → t'.isOpt = true) ∧
      Covers ov acc g field t' ∧ (field.optLike = true → t'.optLike = true) := by
  cases hg : Fields.get? F name with
  | none =>
    rw [mergeOne_none hg, Except.pure_eq_ok] at h
    subst h
    have hP : P (if first || field.isOpt then field else .opt field) := by
      split
      · exact hf
      · exact (cl.opt _).1 hf
    refine ⟨inv.set hP, ?_, (if first || field.isOpt then field else .opt field),
      by simp [Fields.get?_set], ?_, ?_, ?_, ?_⟩
    · intro k hk
      have : ¬ name = k := fun e => hk e.symm
      simp [Fields.get?_set, this]
    · intro orig ho; simp at ho
    · intro _ hfirst
      subst hfirst
      cases hfo : field.isOpt <;> simp [Ty.isOpt]
      exact hfo
    · split
      · exact Covers.refl
      · exact Covers.toOpt
    · intro hol
      split
      · exact hol
      · exact Ty.optLike_opt
  | some orig =>
    have hPo : P orig := inv.2 _ _ hg
    cases hio : orig.isOpt with
    | true =>
      obtain ⟨oi, rfl⟩ : ∃ oi, orig = .opt oi := by
        cases orig <;> simp [Ty.isOpt] at hio; exact ⟨_, rfl⟩
      have hPoi : P oi := (cl.opt _).2 hPo
      rw [mergeOne_some_opt hg, Except.bind_eq_ok] at h
      obtain ⟨b1, hb1, h⟩ := h
      have keep : F' = F → FInv P F' ∧
          (∀ k, k ≠ name → Fields.get? F' k = Fields.get? F k) ∧
          ∃ t', Fields.get? F' name = some t' ∧
            (∀ orig, some (Ty.opt oi) = some orig →
              Covers ov acc g orig t' ∧ (orig.isOpt = true → t'.isOpt = true) ∧
              (orig.optLike = true → t'.optLike = true)) ∧
            (some (Ty.opt oi) = none → first = false → t'.isOpt = true) ∧
            (Covers ov acc g field (.opt oi) → Covers ov acc g field t') ∧
            (field.optLike = true → t'.optLike = true) := by
        intro e; subst e
        refine ⟨inv, fun _ _ => rfl, _, hg, ?_, by simp, fun h => h, fun _ => Ty.optLike_opt⟩
        intro orig' ho; cases ho; exact ⟨Covers.refl, fun _ => rfl, fun _ => Ty.optLike_opt⟩
      split at h
      · rename_i hb
        rw [Except.pure_eq_ok] at h
        obtain ⟨i1, i2, t', i3, i4, i5, i6, i7⟩ := keep h.symm
        refine ⟨i1, i2, t', i3, i4, i5, i6 ?_, i7⟩
        intro v hv
        subst hb
        exact (he _ _ (cl.good _ hPo) (cl.good _ hf) hb1 v).2 hv
      · rw [Except.bind_eq_ok] at h
        obtain ⟨b2, hb2, h⟩ := h
        split at h
        · rename_i hb
          rw [Except.pure_eq_ok] at h
          obtain ⟨i1, i2, t', i3, i4, i5, i6, i7⟩ := keep h.symm
          refine ⟨i1, i2, t', i3, i4, i5, i6 ?_, i7⟩
          intro v hv
          subst hb
          exact InhX.optSome ((he _ _ (cl.good _ hPoi) (cl.good _ hf) hb2 v).2 hv)
        · rw [Except.pure_eq_ok] at h; subst h
          have hPn : P (mergeNew c field oi) := closed_mergeNew cl hf hPoi
          obtain ⟨cv1, cv2⟩ := covers_mergeNew (c := c) cl hs hf hPoi
          refine ⟨inv.set ((cl.opt _).1 hPn), ?_, .opt (mergeNew c field oi), by simp [Fields.get?_set], ?_,
            by simp, ?_, fun _ => Ty.optLike_opt⟩
          · intro k hk
            have : ¬ name = k := fun e => hk e.symm
            simp [Fields.get?_set, this]
          · intro orig' ho; cases ho
            refine ⟨?_, fun _ => rfl, fun _ => Ty.optLike_opt⟩
            intro v hv
            rcases inh_opt_iff.1 hv with rfl | hv
            · exact InhX.optNull
            · exact InhX.optSome (cv2 v hv)
          · intro v hv; exact InhX.optSome (cv1 v hv)
    | false =>
      rw [mergeOne_some_other hg hio, Except.bind_eq_ok] at h
      obtain ⟨b1, hb1, h⟩ := h
      split at h
      · rename_i hb
        rw [Except.pure_eq_ok] at h; subst h
        subst hb
        obtain ⟨_, hol⟩ := EqEnv.eq_optLike hb1
        refine ⟨inv, fun _ _ => rfl, _, hg, ?_, by simp, ?_, fun h => by rw [hol]; exact h⟩
        · intro orig' ho; cases ho; exact ⟨Covers.refl, fun h => h, fun h => h⟩
        · intro v hv
          exact (he _ _ (cl.good _ hPo) (cl.good _ hf) hb1 v).2 hv
      · rw [Except.bind_eq_ok] at h
        obtain ⟨b2, hb2, h⟩ := h
        split at h
        · rename_i hb
          rw [Except.pure_eq_ok] at h; subst h
          subst hb
          -- the incoming field is `Optional[T]` for the existing `T`: it replaces the existing one
          obtain ⟨fi, rfl⟩ : ∃ fi, field = .opt fi := by
            cases field <;> first | exact ⟨_, rfl⟩ | (simp [pure, Except.pure] at hb2)
          have hPfi : P fi := (cl.opt _).2 hf
          refine ⟨inv.set hf, ?_, .opt fi, by simp [Fields.get?_set], ?_, by simp, Covers.refl, fun h => h⟩
          · intro k hk
            have : ¬ name = k := fun e => hk e.symm
            simp [Fields.get?_set, this]
          · intro orig' ho; cases ho
            refine ⟨?_, fun _ => rfl, fun _ => Ty.optLike_opt⟩
            intro v hv
            exact InhX.optSome ((he _ _ (cl.good _ hPo) (cl.good _ hPfi) hb2 v).1 hv)
        · rw [Except.pure_eq_ok] at h; subst h
          have hPn : P (mergeNew c field orig) := closed_mergeNew cl hf hPo
          obtain ⟨cv1, cv2⟩ := covers_mergeNew (c := c) cl hs hf hPo
          refine ⟨inv.set hPn, ?_, mergeNew c field orig, by simp [Fields.get?_set], ?_, by simp, cv1,
            fun h => optLike_mergeNew (Or.inl h)⟩
          · intro k hk
            have : ¬ name = k := fun e => hk e.symm
            simp [Fields.get?_set, this]
          · intro orig' ho; cases ho
            exact ⟨cv2, fun h => by rw [hio] at h; simp at h, fun h => optLike_mergeNew (Or.inr h)⟩

/-- `InhF` with the test "this field may be absent" as a parameter -/
def InhFG (ρ : Ty → Bool) (ov : Bool) (acc : Accepts) (g : ModelLookup) (fs : Fields)
    (kvs : List (String × Json)) : Prop :=
  (∀ kv ∈ kvs, ∃ t, Fields.get? fs kv.1 = some t ∧ InhX ov acc g t kv.2) ∧
  (∀ k t, Fields.get? fs k = some t → ρ t = false → ∃ kv ∈ kvs, kv.1 = k)

theorem inhFG_isOpt {fs : Fields} {kvs} : InhFG Ty.isOpt ov acc g fs kvs ↔ InhF ov acc g fs kvs := Iff.rfl

/-- lax reading of a field dict: a field may be absent when its type is `Ty.optLike` -/
abbrev InhFL (ov : Bool) (acc : Accepts) (g : ModelLookup) (fs : Fields) (kvs : List (String × Json)) : Prop :=
  InhFG Ty.optLike ov acc g fs kvs

theorem InhF.toLax {fs : Fields} {kvs} (h : InhF ov acc g fs kvs) : InhFL ov acc g fs kvs :=
  ⟨h.1, fun k t hk hno => h.2 k t hk (Ty.isOpt_false_of_optLike hno)⟩

theorem InhFL.toStrict {fs : Fields} {kvs} (hopt : ∀ f ∈ fs, f.2.optLike = true → f.2.isOpt = true)
    (h : InhFL ov acc g fs kvs) : InhF ov acc g fs kvs := by
  refine ⟨h.1, fun k t hk hno => h.2 k t hk ?_⟩
  cases hl : t.optLike with
  | false => rfl
  | true => have := hopt (k, t) (Fields.mem_of_get? hk) hl; rw [hno] at this; cases this

/-- the inner loop `for name, field in model.items()` -/
theorem mergeFold_spec (cl : MergeClosed K P) (hs : HashSoundOn ov acc g (Ty.Good K))
    {e : EqEnv} (he : EqSoundOn ov acc g e (Ty.Good K)) {c : LitCfg} {first : Bool} :
    ∀ (m : Fields) (F F1 : Fields), FInv P F → (∀ f ∈ m, P f.2) →
      m.foldlM (fun fs (kv : String × Ty) => mergeOne c e first fs kv.1 kv.2) F = .ok F1 →
      FInv P F1 ∧
      (∀ k, k ∈ F1.map (·.1) ↔ k ∈ F.map (·.1) ∨ k ∈ m.map (·.1)) ∧
      (∀ k orig, Fields.get? F k = some orig → ∃ t1, Fields.get? F1 k = some t1 ∧
        Covers ov acc g orig t1 ∧ (orig.isOpt = true → t1.isOpt = true) ∧
        (orig.optLike = true → t1.optLike = true)) ∧
      (first = false → ∀ k, Fields.get? F k = none → ∀ t1, Fields.get? F1 k = some t1 → t1.isOpt = true) ∧
      (∀ k t0, Fields.get? m k = some t0 →
        ∃ t1, Fields.get? F1 k = some t1 ∧ Covers ov acc g t0 t1 ∧ (t0.optLike = true → t1.optLike = true)) := by
  intro m
  induction m with
  | nil =>
    intro F F1 inv _ h
    simp only [List.foldlM_nil, Except.pure_eq_ok] at h
    subst h
    exact ⟨inv, by simp, fun k orig ho => ⟨orig, ho, Covers.refl, fun h => h, fun h => h⟩,
      fun _ k hk t1 ht => by rw [hk] at ht; simp at ht, fun k t0 hk => by simp at hk⟩
  | cons kv m ih =>
    obtain ⟨name, field⟩ := kv
    intro F F1 inv hm h
    rw [List.foldlM_cons, Except.bind_eq_ok] at h
    obtain ⟨F', hF', h⟩ := h
    obtain ⟨inv', hother, t', ht', hc1, hc2, hc3, hc4⟩ :=
      mergeOne_spec cl hs he inv (hm _ List.mem_cons_self) hF'
    obtain ⟨inv1, hkeys, hwid, hnew, hcov⟩ := ih F' F1 inv' (fun f hf => hm f (List.mem_cons_of_mem _ hf)) h
    have hkeys' : ∀ k, k ∈ F'.map (·.1) ↔ k = name ∨ k ∈ F.map (·.1) := by
      intro k
      by_cases hk : k = name
      · subst hk
        simp only [true_or, iff_true]
        rw [← Fields.get?_isSome_iff, ht']; rfl
      · rw [← Fields.get?_isSome_iff, hother k hk, Fields.get?_isSome_iff]; simp [hk]
    refine ⟨inv1, ?_, ?_, ?_, ?_⟩
    · intro k
      rw [hkeys k, hkeys' k]
      simp only [List.map_cons, List.mem_cons]
      constructor
      · rintro ((h | h) | h) <;> simp [h]
      · rintro (h | h | h) <;> simp [h]
    · intro k orig ho
      by_cases hk : k = name
      · subst hk
        obtain ⟨cv, hopt, hol⟩ := hc1 orig ho
        obtain ⟨t1, ht1, cv1, hopt1, hol1⟩ := hwid k t' ht'
        exact ⟨t1, ht1, cv.trans cv1, fun h => hopt1 (hopt h), fun h => hol1 (hol h)⟩
      · exact hwid k orig (by rw [hother k hk]; exact ho)
    · intro hfirst k hk t1 ht1
      by_cases hkn : k = name
      · subst hkn
        obtain ⟨t1', ht1', _, hopt1, _⟩ := hwid k t' ht'
        rw [ht1] at ht1'; cases ht1'
        exact hopt1 (hc2 hk hfirst)
      · exact hnew hfirst k (by rw [hother k hkn]; exact hk) t1 ht1
    · intro k t0 hk
      rw [Fields.get?_consI] at hk
      split at hk
      · rename_i hkn
        subst hkn
        cases hk
        obtain ⟨t1, ht1, cv1, _, hol1⟩ := hwid name t' ht'
        exact ⟨t1, ht1, hc3.trans cv1, fun h => hol1 (hc4 h)⟩
      · exact hcov k t0 hk

theorem covers_inhF_lookup {fs : Fields} {kvs : List (String × Json)} (h : InhF ov acc g fs kvs)
    {k : String} (hk : ∃ kv ∈ kvs, kv.1 = k) : (Fields.get? fs k).isSome = true := by
  obtain ⟨kv, hkv, rfl⟩ := hk
  obtain ⟨t, ht, _⟩ := h.1 kv hkv
  simp [ht]

/-- one `for model in field_sets` iteration -/
theorem mergeStep_spec (cl : MergeClosed K P) (hs : HashSoundOn ov acc g (Ty.Good K))
    {e : EqEnv} (he : EqSoundOn ov acc g e (Ty.Good K)) {c : LitCfg} {first : Bool}
    {m F F2 : Fields} (inv : FInv P F) (hm : ∀ f ∈ m, P f.2)
    (h : mergeStep c e first F m = .ok F2) :
    FInv P F2 ∧
    (first = false → ∀ kvs, InhF ov acc g F kvs → InhF ov acc g F2 kvs) ∧
    (first = false → ∀ kvs, InhFL ov acc g F kvs → InhFL ov acc g F2 kvs) ∧
    ((∀ f ∈ m, f.2.isOpt = false) → ∀ kvs, InhF ov acc g m kvs → InhF ov acc g F2 kvs) ∧
    (∀ kvs, InhFL ov acc g m kvs → InhFL ov acc g F2 kvs) := by
  unfold mergeStep at h
  simp only at h
  rw [Except.bind_eq_ok] at h
  obtain ⟨F1, hF1, h⟩ := h
  rw [Except.pure_eq_ok] at h
  obtain ⟨inv1, hkeys, hwid, hnew, hcov⟩ := mergeFold_spec cl hs he m F F1 inv hm hF1
  -- the final pass only wraps some types in `DOptional`
  let wrap : String → Ty → Ty := fun k t =>
    if (F.keys.contains k && !m.has k && !t.isOpt) = true then Ty.opt t else t
  have hwrap : ∀ k t, wrap k t = t ∨ wrap k t = .opt t := by
    intro k t; simp only [wrap]; split <;> simp
  have hget : ∀ k, Fields.get? F2 k = (Fields.get? F1 k).map (wrap k) := by
    intro k
    rw [← h, Fields.get?_map (f := fun kv : String × Ty =>
      if (F.keys.contains kv.1 && !m.has kv.1 && !kv.2.isOpt) = true then (kv.1, Ty.opt kv.2) else kv)]
    · cases Fields.get? F1 k with
      | none => rfl
      | some t => simp only [Option.map_some, wrap]; split <;> rfl
    · intro kv; split <;> rfl
  have hget' : ∀ k t2, Fields.get? F2 k = some t2 → ∃ t1, Fields.get? F1 k = some t1 ∧ t2 = wrap k t1 := by
    intro k t2 hk
    rw [hget k] at hk
    cases h1 : Fields.get? F1 k with
    | none => rw [h1] at hk; simp at hk
    | some t1 => rw [h1] at hk; simp only [Option.map_some, Option.some.injEq] at hk; exact ⟨t1, rfl, hk.symm⟩
  have hkeys2 : F2.map (·.1) = F1.map (·.1) := by
    rw [← h]; apply Fields.keys_map; intro kv; split <;> rfl
  have hcovwrap : ∀ k t, Covers ov acc g t (wrap k t) := by
    intro k t
    rcases hwrap k t with e | e <;> rw [e]
    · exact Covers.refl
    · exact Covers.toOpt
  -- a key that is not in this model is optional afterwards
  have hmissing : ∀ k t1, Fields.get? F1 k = some t1 → k ∉ m.map (·.1) → (wrap k t1).isOpt = true := by
    intro k t1 h1 hmk
    have hk1 : k ∈ F1.map (·.1) := by rw [← Fields.get?_isSome_iff, h1]; rfl
    have hbefore : k ∈ F.map (·.1) := by
      rcases (hkeys k).1 hk1 with h | h
      · exact h
      · exact absurd h hmk
    have hc1 : F.keys.contains k = true := by simpa [Fields.keys] using hbefore
    have hc2 : m.has k = false := by
      cases hh : m.has k with
      | false => rfl
      | true => exact absurd (Fields.has_iffI.1 hh) hmk
    cases ho : t1.isOpt with
    | true =>
      have hw : wrap k t1 = t1 := by simp only [wrap, hc1, hc2, ho]; rfl
      rw [hw, ho]
    | false =>
      have hw : wrap k t1 = .opt t1 := by simp only [wrap, hc1, hc2, ho]; rfl
      rw [hw]; rfl
  -- the two inclusions, for any "may be absent" test `ρ` that holds of every `DOptional`
  have coreB : ∀ ρ : Ty → Bool, (∀ t, t.isOpt = true → ρ t = true) →
      (∀ k orig, Fields.get? F k = some orig → ∃ t1, Fields.get? F1 k = some t1 ∧
        Covers ov acc g orig t1 ∧ (ρ orig = true → ρ t1 = true)) →
      first = false → ∀ kvs, InhFG ρ ov acc g F kvs → InhFG ρ ov acc g F2 kvs := by
    intro ρ hρ hw hfirst kvs hin
    refine ⟨?_, ?_⟩
    · intro kv hkv
      obtain ⟨t, ht, hi⟩ := hin.1 kv hkv
      obtain ⟨t1, ht1, cv, _⟩ := hw _ _ ht
      exact ⟨wrap kv.1 t1, by rw [hget, ht1]; rfl, hcovwrap _ _ _ (cv _ hi)⟩
    · intro k t2 hk hno
      obtain ⟨t1, h1, rfl⟩ := hget' k t2 hk
      have ht1 : ρ t1 = false := by
        rcases hwrap k t1 with e | e <;> rw [e] at hno
        · exact hno
        · rw [hρ _ rfl] at hno; cases hno
      cases h0 : Fields.get? F k with
      | none =>
        have := hρ _ (hnew hfirst k h0 t1 h1)
        rw [ht1] at this; cases this
      | some orig =>
        obtain ⟨t1', ht1', _, hopt⟩ := hw k orig h0
        rw [h1] at ht1'; cases ht1'
        have horig : ρ orig = false := by
          cases ho : ρ orig with
          | false => rfl
          | true => have := hopt ho; rw [ht1] at this; cases this
        exact hin.2 k orig h0 horig
  have coreA : ∀ ρ : Ty → Bool, (∀ t, t.isOpt = true → ρ t = true) →
      (∀ k t0, Fields.get? m k = some t0 → ∃ t1, Fields.get? F1 k = some t1 ∧
        Covers ov acc g t0 t1 ∧ (ρ t0 = true → ρ t1 = true)) →
      ∀ kvs, InhFG ρ ov acc g m kvs → InhFG ρ ov acc g F2 kvs := by
    intro ρ hρ hc kvs hin
    refine ⟨?_, ?_⟩
    · intro kv hkv
      obtain ⟨t0, ht0, hi⟩ := hin.1 kv hkv
      obtain ⟨t1, ht1, cv, _⟩ := hc _ _ ht0
      exact ⟨wrap kv.1 t1, by rw [hget, ht1]; rfl, hcovwrap _ _ _ (cv _ hi)⟩
    · intro k t2 hk hno2
      obtain ⟨t1, h1, rfl⟩ := hget' k t2 hk
      have ht1 : ρ t1 = false := by
        rcases hwrap k t1 with e | e <;> rw [e] at hno2
        · exact hno2
        · rw [hρ _ rfl] at hno2; cases hno2
      by_cases hmk : k ∈ m.map (·.1)
      · rw [← Fields.get?_isSome_iff] at hmk
        cases h0 : Fields.get? m k with
        | none => rw [h0] at hmk; simp at hmk
        | some t0 =>
          obtain ⟨t1', ht1', _, hopt⟩ := hc k t0 h0
          rw [h1] at ht1'; cases ht1'
          have h00 : ρ t0 = false := by
            cases ho : ρ t0 with
            | false => rfl
            | true => have := hopt ho; rw [ht1] at this; cases this
          exact hin.2 k t0 h0 h00
      · -- not a key of this model: it was there before, so the final pass made it optional
        have := hρ _ (hmissing k t1 h1 hmk)
        rw [hno2] at this; cases this
  refine ⟨⟨by rw [hkeys2]; exact inv1.1, ?_⟩, ?_, ?_, ?_, ?_⟩
  · intro k t hk
    obtain ⟨t1, h1, rfl⟩ := hget' k t hk
    have := inv1.2 k t1 h1
    rcases hwrap k t1 with e | e <;> rw [e]
    · exact this
    · exact (cl.opt _).1 this
  · exact coreB Ty.isOpt (fun _ h => h) (fun k orig ho => by
      obtain ⟨t1, a, b, c, _⟩ := hwid k orig ho; exact ⟨t1, a, b, c⟩)
  · exact coreB Ty.optLike (fun _ h => Ty.optLike_of_isOpt h) (fun k orig ho => by
      obtain ⟨t1, a, b, _, d⟩ := hwid k orig ho; exact ⟨t1, a, b, d⟩)
  · intro hno
    exact coreA Ty.isOpt (fun _ h => h) (fun k t0 h0 => by
      obtain ⟨t1, a, b, _⟩ := hcov k t0 h0
      refine ⟨t1, a, b, fun h => ?_⟩
      rw [hno _ (Fields.mem_of_get? h0)] at h; cases h)
  · exact coreA Ty.optLike (fun _ h => Ty.optLike_of_isOpt h) hcov

/-- the outer loop -/
theorem mergeGo_spec (cl : MergeClosed K P) (hs : HashSoundOn ov acc g (Ty.Good K))
    {e : EqEnv} (he : EqSoundOn ov acc g e (Ty.Good K)) {c : LitCfg} :
    ∀ (sets : List Fields) (first : Bool) (F F' : Fields), FInv P F →
      (∀ m ∈ sets, ∀ f ∈ m, P f.2) →
      mergeFieldSets.go c e first F sets = .ok F' →
      FInv P F' ∧
      (first = false → ∀ kvs, InhF ov acc g F kvs → InhF ov acc g F' kvs) ∧
      (first = false → ∀ kvs, InhFL ov acc g F kvs → InhFL ov acc g F' kvs) ∧
      ((∀ m ∈ sets, ∀ f ∈ m, f.2.isOpt = false) →
        ∀ m ∈ sets, ∀ kvs, InhF ov acc g m kvs → InhF ov acc g F' kvs) ∧
      (∀ m ∈ sets, ∀ kvs, InhFL ov acc g m kvs → InhFL ov acc g F' kvs) := by
  intro sets
  induction sets with
  | nil =>
    intro first F F' inv _ h
    simp only [mergeFieldSets.go, Except.pure_eq_ok] at h
    subst h
    exact ⟨inv, fun _ _ h => h, fun _ _ h => h, by simp, by simp⟩
  | cons m ms ih =>
    intro first F F' inv hsets h
    rw [mergeFieldSets.go, Except.bind_eq_ok] at h
    obtain ⟨F1, hF1, h⟩ := h
    have hm := hsets m List.mem_cons_self
    obtain ⟨inv1, hB, hBL, hA, hAL⟩ := mergeStep_spec cl hs he inv hm hF1
    obtain ⟨inv', hB', hBL', hA', hAL'⟩ :=
      ih false F1 F' inv1 (fun m' hm' => hsets m' (List.mem_cons_of_mem _ hm')) h
    refine ⟨inv', ?_, ?_, ?_, ?_⟩
    · intro hfirst kvs hin
      exact hB' rfl kvs (hB hfirst kvs hin)
    · intro hfirst kvs hin
      exact hBL' rfl kvs (hBL hfirst kvs hin)
    · intro hno m' hm' kvs hin
      rcases List.mem_cons.1 hm' with e | hm'
      · subst e
        exact hB' rfl kvs (hA (hno _ List.mem_cons_self) kvs hin)
      · exact hA' (fun m'' hm'' => hno m'' (List.mem_cons_of_mem _ hm'')) m' hm' kvs hin
    · intro m' hm' kvs hin
      rcases List.mem_cons.1 hm' with e | hm'
      · subst e
        exact hBL' rfl kvs (hAL kvs hin)
      · exact hAL' m' hm' kvs hin

/-- lax reading of "object `kvs` lies in field dict `fs`": as `InhFieldsX`, but a field may also be absent
    when its type is a `DUnion` with a `DOptional` member (`Ty.optLike`) -/
def InhFieldsLX (ov : Bool) (acc : Accepts) (g : ModelLookup) (fs : Fields) (kvs : List (String × Json)) : Prop :=
  (∀ kv ∈ kvs, (Fields.get? fs kv.1).isSome = true) ∧
  (∀ kv ∈ kvs, ∀ t, Fields.get? fs kv.1 = some t → InhX ov acc g t kv.2) ∧
  (∀ ft ∈ fs, ft.2.optLike = false → ∃ kv ∈ kvs, kv.1 = ft.1)

theorem InhFieldsX.toLax {fs : Fields} {kvs} (h : InhFieldsX ov acc g fs kvs) : InhFieldsLX ov acc g fs kvs :=
  ⟨h.1, h.2.1, fun ft hft hno => h.2.2 ft hft (Ty.isOpt_false_of_optLike hno)⟩

/-- the lax and the strict reading agree on a field dict without "`DUnion` with a `DOptional` member" fields -/
theorem InhFieldsLX.toStrict {fs : Fields} {kvs} (hopt : ∀ f ∈ fs, f.2.optLike = true → f.2.isOpt = true)
    (h : InhFieldsLX ov acc g fs kvs) : InhFieldsX ov acc g fs kvs := by
  refine ⟨h.1, h.2.1, fun ft hft hno => h.2.2 ft hft ?_⟩
  cases hl : ft.2.optLike with
  | false => rfl
  | true => have := hopt ft hft hl; rw [hno] at this; cases this

theorem InhFieldsLX.toInhFL {fs : Fields} {kvs} (h : InhFieldsLX ov acc g fs kvs) : InhFL ov acc g fs kvs := by
  obtain ⟨h1, h2, h3⟩ := h
  refine ⟨?_, ?_⟩
  · intro kv hkv
    have := h1 kv hkv
    cases hg : Fields.get? fs kv.1 with
    | none => simp [hg] at this
    | some t => exact ⟨t, rfl, h2 kv hkv t hg⟩
  · intro k t hg hno
    exact h3 (k, t) (Fields.mem_of_get? hg) hno

theorem InhFL.toInhFieldsLX {fs : Fields} {kvs} (nd : (fs.map (·.1)).Nodup) (h : InhFL ov acc g fs kvs) :
    InhFieldsLX ov acc g fs kvs := by
  obtain ⟨h1, h2⟩ := h
  refine ⟨?_, ?_, ?_⟩
  · intro kv hkv; obtain ⟨t, ht, _⟩ := h1 kv hkv; simp [ht]
  · intro kv hkv t ht; obtain ⟨t', ht', hi⟩ := h1 kv hkv
    rw [ht] at ht'; cases ht'; exact hi
  · intro ft hft hno
    exact h2 ft.1 ft.2 (Fields.get?_of_mem nd hft) hno

/-- `merge_field_sets` for input sets whose fields lie in `P` (a `DOptional` field is allowed): every object
    of an input set lies in the merge, under the lax reading of required fields -/
theorem mergeFieldSets_spec_lax (cl : MergeClosed K P) (hs : HashSoundOn ov acc g (Ty.Good K))
    {e : EqEnv} (he : EqSoundOn ov acc g e (Ty.Good K)) {c : LitCfg} {sets : List Fields} {F : Fields}
    (hsets : ∀ m ∈ sets, ∀ f ∈ m, P f.2)
    (h : mergeFieldSets c e sets = .ok F) :
    (F.map (·.1)).Nodup ∧ (∀ f ∈ F, P f.2) ∧
    ∀ m ∈ sets, ∀ kvs, InhFieldsLX ov acc g m kvs → InhFieldsLX ov acc g F kvs := by
  unfold mergeFieldSets at h
  obtain ⟨inv, _, _, _, hAL⟩ := mergeGo_spec cl hs he sets true [] F ⟨by simp, by simp⟩ hsets h
  refine ⟨inv.1, fun f hf => inv.2 f.1 f.2 (Fields.get?_of_mem inv.1 hf), ?_⟩
  intro m hm kvs hin
  exact (hAL m hm kvs hin.toInhFL).toInhFieldsLX inv.1

/-- `merge_field_sets` for input sets whose fields lie in `P` and are not `DOptional` -/
theorem mergeFieldSets_spec (cl : MergeClosed K P) (hs : HashSoundOn ov acc g (Ty.Good K))
    {e : EqEnv} (he : EqSoundOn ov acc g e (Ty.Good K)) {c : LitCfg} {sets : List Fields} {F : Fields}
    (hsets : ∀ m ∈ sets, ∀ f ∈ m, P f.2 ∧ f.2.isOpt = false)
    (h : mergeFieldSets c e sets = .ok F) :
    (F.map (·.1)).Nodup ∧ (∀ f ∈ F, P f.2) ∧
    ∀ m ∈ sets, ∀ kvs, InhFieldsX ov acc g m kvs → InhFieldsX ov acc g F kvs := by
  unfold mergeFieldSets at h
  obtain ⟨inv, _, _, hA, _⟩ := mergeGo_spec cl hs he sets true [] F ⟨by simp, by simp⟩
    (fun m hm f hf => (hsets m hm f hf).1) h
  refine ⟨inv.1, fun f hf => inv.2 f.1 f.2 (Fields.get?_of_mem inv.1 hf), ?_⟩
  intro m hm kvs hin
  exact (hA (fun m hm f hf => (hsets m hm f hf).2) m hm kvs hin.toInhF).toInhFields inv.1

end

end J2M
