/-
  "No new atoms" (C02.4): the value atoms (int/float/bool/str/pseudo-type/literal value/pointer) of
  `optimize_type t` are atoms of `t`, up to the widening "string-like ⇒ str".
-/
import J2M.Proofs.Merge
import J2M.Proofs.SplitWorklist
namespace J2M

/-- the value atoms of a type (`null`, `unknown` and the `opt` constructor are *not* value atoms) -/
inductive Atom where
  | int | float | bool | str
  | ser (k : String)
  | litAny                      -- "some string literal type occurs here"
  | litVal (s : String)         -- a literal value
  | ptr (i : String)

/-- atoms that `str` may replace: `str` itself, pseudo-types, literals -/
def Atom.strLike : Atom → Prop
  | .str | .ser _ | .litAny | .litVal _ => True
  | _ => False

mutual
def Ty.atoms : Ty → List Atom
  | .int => [.int] | .float => [.float] | .bool => [.bool] | .str => [.str]
  | .null => [] | .unknown => []
  | .ser k => [.ser k]
  | .lit _ vs => .litAny :: vs.map .litVal
  | .list t | .dict t | .opt t => t.atoms
  | .union ts | .tuple ts => Ty.atomsList ts
  | .obj fs => Ty.atomsFields fs
  | .ptr i => [.ptr i]
def Ty.atomsList : List Ty → List Atom
  | [] => []
  | t :: ts => t.atoms ++ Ty.atomsList ts
def Ty.atomsFields : List (String × Ty) → List Atom
  | [] => []
  | (_, t) :: fs => t.atoms ++ Ty.atomsFields fs
end

theorem mem_atomsList {a : Atom} {ts : List Ty} : a ∈ Ty.atomsList ts ↔ ∃ t ∈ ts, a ∈ t.atoms := by
  induction ts with
  | nil => simp [Ty.atomsList]
  | cons t ts ih => simp [Ty.atomsList, ih]

theorem mem_atomsFields {a : Atom} {fs : List (String × Ty)} :
    a ∈ Ty.atomsFields fs ↔ ∃ kv ∈ fs, a ∈ kv.2.atoms := by
  induction fs with
  | nil => simp [Ty.atomsFields]
  | cons kv fs ih => obtain ⟨k, t⟩ := kv; simp [Ty.atomsFields, ih]

/-- a set of atoms closed under the widening "string-like ⇒ str" -/
def AClosed (P : Atom → Prop) : Prop := ∀ b, P b → b.strLike → P .str

/-- every atom of `t` is in `P` -/
def Ty.atomsIn (P : Atom → Prop) (t : Ty) : Prop := ∀ a ∈ t.atoms, P a

theorem atomsIn_union {P : Atom → Prop} {ts : List Ty} :
    (Ty.union ts).atomsIn P ↔ ∀ t ∈ ts, t.atomsIn P := by
  simp only [Ty.atomsIn, Ty.atoms, mem_atomsList]
  constructor
  · intro h t ht a ha; exact h a ⟨t, ht, ha⟩
  · rintro h a ⟨t, ht, ha⟩; exact h t ht a ha

theorem atomsIn_obj {P : Atom → Prop} {fs : Fields} :
    (Ty.obj fs).atomsIn P ↔ ∀ kv ∈ fs, kv.2.atomsIn P := by
  simp only [Ty.atomsIn, Ty.atoms, mem_atomsFields]
  constructor
  · intro h t ht a ha; exact h a ⟨t, ht, ha⟩
  · rintro h a ⟨t, ht, ha⟩; exact h t ht a ha

theorem atomsIn_flatten {P : Atom → Prop} {ts : List Ty} (h : ∀ t ∈ ts, t.atomsIn P) :
    ∀ t ∈ flattenUnion ts, t.atomsIn P := by
  induction ts using flattenUnion.induct with
  | case1 => simp [flattenUnion]
  | case2 ms rest ih1 ih2 =>
    intro t ht
    rw [flattenUnion] at ht
    rcases List.mem_append.1 ht with h1 | h1
    · exact ih1 (atomsIn_union.1 (h _ (List.mem_cons_self ..))) t h1
    · exact ih2 (fun t ht => h t (List.mem_cons_of_mem _ ht)) t h1
  | case3 t0 rest hnu ih =>
    intro t ht
    rw [flattenUnion.eq_3 _ _ hnu] at ht
    rcases List.mem_cons.1 ht with h1 | h1
    · subst h1; exact h _ (List.mem_cons_self ..)
    · exact ih (fun t ht => h t (List.mem_cons_of_mem _ ht)) t h1

/-- `DUnion(*ts)` has no new atoms (up to the widening) -/
theorem atomsIn_mkUnionMembers {P : Atom → Prop} (hP : AClosed P) {c : LitCfg} {ts : List Ty}
    (h : ∀ t ∈ ts, t.atomsIn P) : ∀ u ∈ mkUnionMembers c ts, u.atomsIn P := by
  intro u hu
  have hf := atomsIn_flatten h
  rcases mkUnion_members_subset c ts u hu with ⟨h1, _⟩ | ⟨vs, h1, hne, hlf, _, _⟩ | ⟨h1, hc⟩
  · exact hf u h1
  · subst h1
    intro a ha
    simp only [Ty.atoms, List.mem_cons, List.mem_map] at ha
    rcases ha with rfl | ⟨s, hs, rfl⟩
    · obtain ⟨s, hs⟩ := List.exists_mem_of_ne_nil _ hne
      obtain ⟨ws, hw, _⟩ := (hlf s).1 hs
      exact hf _ hw _ (by simp [Ty.atoms])
    · obtain ⟨ws, hw, hsw⟩ := (hlf s).1 hs
      exact hf _ hw _ (by simp only [Ty.atoms, List.mem_cons, List.mem_map]; exact Or.inr ⟨s, hsw, rfl⟩)
  · subst h1
    intro a ha
    simp only [Ty.atoms, List.mem_singleton] at ha
    subst ha
    rcases hc with h2 | ⟨vs, h2⟩ | ⟨_, vs, hlf, hov⟩
    · exact hf _ h2 _ (by simp [Ty.atoms])
    · exact hP .litAny (hf _ h2 _ (by simp [Ty.atoms])) trivial
    · obtain ⟨s, hs⟩ := List.exists_mem_of_ne_nil _ (litOverflows_ne_nil hov)
      obtain ⟨ws, hw, _⟩ := (hlf s).1 hs
      exact hP .litAny (hf _ hw _ (by simp [Ty.atoms])) trivial

theorem atomsIn_opt {P : Atom → Prop} {t : Ty} : (Ty.opt t).atomsIn P ↔ t.atomsIn P := by
  simp [Ty.atomsIn, Ty.atoms]

theorem atomsIn_unionMembers {P : Atom → Prop} {t : Ty} (h : t.atomsIn P) :
    ∀ m ∈ t.unionMembers, m.atomsIn P := by
  cases t <;> try (intro m hm; simp [Ty.unionMembers] at hm; subst hm; exact h)
  exact atomsIn_union.1 h

theorem atomsIn_collapse {P : Atom → Prop} {us : List Ty} (h : ∀ u ∈ us, u.atomsIn P) :
    (collapse us).atomsIn P := by
  unfold collapse
  split
  · exact h _ (List.mem_cons_self ..)
  · exact atomsIn_union.2 h

theorem atomsIn_collapse_merge {P : Atom → Prop} (hP : AClosed P) {c : LitCfg} {a b : Ty}
    (ha : a.atomsIn P) (hb : b.atomsIn P) :
    (collapse (mkUnionMembers c (a.unionMembers ++ b.unionMembers))).atomsIn P := by
  apply atomsIn_collapse
  apply atomsIn_mkUnionMembers hP
  intro t ht
  rcases List.mem_append.1 ht with h | h
  · exact atomsIn_unionMembers ha t h
  · exact atomsIn_unionMembers hb t h

/-- every field type has its atoms in `P` -/
def FieldsIn (P : Atom → Prop) (fs : Fields) : Prop := ∀ kv ∈ fs, kv.2.atomsIn P

theorem FieldsIn.set {P : Atom → Prop} {fs : Fields} {k : String} {v : Ty}
    (h : FieldsIn P fs) (hv : v.atomsIn P) : FieldsIn P (fs.set k v) := by
  intro kv hkv
  rcases Fields.mem_set hkv with h1 | h1
  · subst h1; exact hv
  · exact h kv h1

theorem mergeOne_atoms {P : Atom → Prop} (hP : AClosed P) {c e first fs fs' name field}
    (h : mergeOne c e first fs name field = .ok fs') (hfs : FieldsIn P fs) (hf : field.atomsIn P) :
    FieldsIn P fs' := by
  rcases mergeOne_cases h with ⟨_, h2⟩ | ⟨orig, hg, h2 | ⟨oi, ho, h2⟩ | ⟨_, h2⟩ | ⟨_, _, h2⟩⟩
  rotate_left 4
  · subst h2; exact hfs.set hf
  · subst h2
    apply hfs.set
    split
    · exact hf
    · exact atomsIn_opt.2 hf
  · subst h2; exact hfs
  · subst h2
    apply hfs.set
    have horig := hfs _ (Fields.get?_mem hg)
    rw [ho] at horig
    exact atomsIn_opt.2 (atomsIn_collapse_merge hP hf (atomsIn_opt.1 horig))
  · subst h2
    apply hfs.set
    exact atomsIn_collapse_merge hP hf (hfs _ (Fields.get?_mem hg))

theorem mergeItems_atoms {P : Atom → Prop} (hP : AClosed P) {c e first fs m r}
    (h : mergeItems c e first fs m = .ok r) (hfs : FieldsIn P fs) (hm : FieldsIn P m) :
    FieldsIn P r := by
  induction m generalizing fs with
  | nil => rw [mergeItems_nil, Except.ok.injEq] at h; subst h; exact hfs
  | cons kv m ih =>
    obtain ⟨fs', h1, h2⟩ := mergeItems_cons.1 h
    exact ih h2 (mergeOne_atoms hP h1 hfs (hm kv (List.mem_cons_self ..)))
      (fun kv' h' => hm kv' (List.mem_cons_of_mem _ h'))

theorem mergeStep_atoms {P : Atom → Prop} (hP : AClosed P) {c e first fields m r}
    (h : mergeStep c e first fields m = .ok r) (hfs : FieldsIn P fields) (hm : FieldsIn P m) :
    FieldsIn P r := by
  obtain ⟨fs1, h1, h2⟩ := mergeStep_eq.1 h
  subst h2
  intro kv hkv
  obtain ⟨kv0, h0, rfl⟩ := List.mem_map.1 hkv
  have := mergeItems_atoms hP h1 hfs hm kv0 h0
  unfold wrapMissing
  split
  · exact atomsIn_opt.2 this
  · exact this

theorem go_atoms {P : Atom → Prop} (hP : AClosed P) {c e first fields sets r}
    (h : mergeFieldSets.go c e first fields sets = .ok r) (hfs : FieldsIn P fields)
    (hs : ∀ m ∈ sets, FieldsIn P m) : FieldsIn P r := by
  induction sets generalizing first fields with
  | nil => simp [mergeFieldSets.go, pure, Except.pure] at h; subst h; exact hfs
  | cons m ms ih =>
    rw [mergeFieldSets.go, Except.bind_ok_iff] at h
    obtain ⟨f1, h1, h2⟩ := h
    exact ih h2 (mergeStep_atoms hP h1 hfs (hs m (List.mem_cons_self ..)))
      (fun m' h' => hs m' (List.mem_cons_of_mem _ h'))

/-- `merge_field_sets` has no new atoms (up to the widening) -/
theorem mergeFieldSets_atoms {P : Atom → Prop} (hP : AClosed P) {c e sets r}
    (h : mergeFieldSets c e sets = .ok r) (hs : ∀ m ∈ sets, FieldsIn P m) : FieldsIn P r := by
  unfold mergeFieldSets at h
  exact go_atoms hP h (by intro kv hkv; simp at hkv) hs

/-! ### pieces of `_optimize_union` -/

theorem mem_replaced_filter {α} {p : α → Bool} {xs : List α} {x : α} (h : x ∈ xs.filter p) : x ∈ xs :=
  (List.mem_filter.1 h).1

theorem resolve_subset {reg : StrRegistry} {fuel : Nat} {ts r : List String}
    (h : resolve reg ts fuel = .ok r) : ∀ k ∈ r, k ∈ ts := by
  induction fuel generalizing ts with
  | zero => simp [resolve] at h
  | succ n ih =>
    rw [resolve] at h
    split at h
    · rw [Except.ok.injEq] at h; subst h
      intro k hk; exact mem_dedupStr.1 hk
    · intro k hk
      exact mem_dedupStr.1 (mem_replaced_filter (ih h k hk))

theorem removeFirst_subset {α} {p : α → Bool} {xs : List α} : ∀ x ∈ removeFirst p xs, x ∈ xs := by
  induction xs with
  | nil => simp [removeFirst]
  | cons y ys ih =>
    intro x hx
    unfold removeFirst at hx
    split at hx
    · exact List.mem_cons_of_mem _ hx
    · rcases List.mem_cons.1 hx with h | h
      · exact h ▸ List.mem_cons_self ..
      · exact List.mem_cons_of_mem _ (ih x h)

/-- one iteration of the category split -/
def splitStep (reg : StrRegistry) (s : Split) (item : Ty) : Split :=
    let (item, s) := match item with
      | .opt x => (x, { s with other := s.other ++ [Ty.null] })
      | x => (x, s)
    match item with
    | .obj fs => { s with toMerge := s.toMerge ++ [fs] }
    | .str => { s with strTypes := s.strTypes ++ [item] }
    | .ser k => if reg.types.contains k then { s with strTypes := s.strTypes ++ [item] }
                else { s with other := s.other ++ [item] }
    | .list x => { s with lists := s.lists ++ [x] }
    | .dict x => { s with dicts := s.dicts ++ [x] }
    | x => { s with other := s.other ++ [x] }

theorem splitStep_eq_W : @splitStep = @SplitW.splitStep := rfl

/-- the worklist split is the fold of `splitStep` over the flattened member list (`SplitW.flatL`: unions and
    optional unions among the members are replaced by their members, an optional union also leaves a `Null`) -/
theorem splitMembers_flat (reg : StrRegistry) (ts : List Ty) :
    splitMembers reg ts = (SplitW.flatL ts).foldl (splitStep reg) {} :=
  SplitW.splitMembers_eq_flat_foldl reg ts

/-- without unions / optional unions among the members: the plain fold (the old `splitMembers_eq`) -/
theorem splitMembers_plain (reg : StrRegistry) {ts : List Ty} (h : ∀ t ∈ ts, SplitW.hidden t = false) :
    splitMembers reg ts = ts.foldl (splitStep reg) {} :=
  SplitW.splitMembers_eq_foldl h

theorem not_hidden_of_flags {t : Ty} (ho : t.isOpt = false) (hu : t.isUnion = false) : SplitW.hidden t = false := by
  cases t <;> simp_all [SplitW.hidden, Ty.isOpt, Ty.isUnion]

/-- invariants of the split: `I` is kept by every step on an item satisfying `R`, and `R` passes from the
    members to what the worklist splices in -/
theorem splitMembers_invariant {I : Split → Prop} {R : Ty → Prop} {reg : StrRegistry} {ts : List Ty}
    (h0 : I {}) (hstep : ∀ s t, I s → R t → I (splitStep reg s t))
    (hnull : R .null) (hu : ∀ ms, R (.union ms) → ∀ m ∈ ms, R m)
    (hou : ∀ ms, R (.opt (.union ms)) → ∀ m ∈ ms, R m)
    (h : ∀ t ∈ ts, R t) : I (splitMembers reg ts) := by
  rw [splitMembers_flat]
  have hf := SplitW.forall_flatL hnull hu hou h
  generalize SplitW.flatL ts = l at hf
  generalize ({} : Split) = s at h0
  induction l generalizing s with
  | nil => exact h0
  | cons t l ih =>
    exact ih (fun t' h' => hf t' (List.mem_cons_of_mem _ h')) _ (hstep s t h0 (hf t (List.mem_cons_self ..)))

/-- all categories of a split have their atoms in `P`; the string category holds only `str`/pseudo-types -/
structure SplitIn (P : Atom → Prop) (s : Split) : Prop where
  strTypes : ∀ t ∈ s.strTypes, t.atomsIn P ∧ (t = .str ∨ ∃ k, t = .ser k)
  toMerge : ∀ fs ∈ s.toMerge, FieldsIn P fs
  lists : ∀ t ∈ s.lists, t.atomsIn P
  dicts : ∀ t ∈ s.dicts, t.atomsIn P
  other : ∀ t ∈ s.other, t.atomsIn P

theorem atomsIn_null (P : Atom → Prop) : Ty.null.atomsIn P := by simp [Ty.atomsIn, Ty.atoms]
theorem atomsIn_unknown (P : Atom → Prop) : Ty.unknown.atomsIn P := by simp [Ty.atomsIn, Ty.atoms]

theorem forall_mem_append_singleton {α} {Q : α → Prop} {xs : List α} {x : α}
    (h : ∀ y ∈ xs, Q y) (hx : Q x) : ∀ y ∈ xs ++ [x], Q y := by
  intro y hy
  rcases List.mem_append.1 hy with h1 | h1
  · exact h y h1
  · simp at h1; subst h1; exact hx

/-- the non-optional part of `splitStep` -/
def splitPlain (reg : StrRegistry) (s : Split) (item : Ty) : Split :=
    match item with
    | .obj fs => { s with toMerge := s.toMerge ++ [fs] }
    | .str => { s with strTypes := s.strTypes ++ [item] }
    | .ser k => if reg.types.contains k then { s with strTypes := s.strTypes ++ [item] }
                else { s with other := s.other ++ [item] }
    | .list x => { s with lists := s.lists ++ [x] }
    | .dict x => { s with dicts := s.dicts ++ [x] }
    | x => { s with other := s.other ++ [x] }

theorem splitStep_eq (reg : StrRegistry) (s : Split) (item : Ty) :
    splitStep reg s item =
      match item with
      | .opt x => splitPlain reg { s with other := s.other ++ [Ty.null] } x
      | x => splitPlain reg s x := by
  cases item <;> rfl

theorem splitPlain_in {P : Atom → Prop} {reg : StrRegistry} {s : Split} {item : Ty}
    (hs : SplitIn P s) (hi : item.atomsIn P) : SplitIn P (splitPlain reg s item) := by
  cases item with
  | obj fs =>
    exact { hs with toMerge := forall_mem_append_singleton hs.toMerge (atomsIn_obj.1 hi) }
  | str =>
    exact { hs with strTypes := forall_mem_append_singleton hs.strTypes ⟨hi, .inl rfl⟩ }
  | ser k =>
    show SplitIn P (if reg.types.contains k then _ else _)
    split
    · exact { hs with strTypes := forall_mem_append_singleton hs.strTypes ⟨hi, .inr ⟨k, rfl⟩⟩ }
    · exact { hs with other := forall_mem_append_singleton hs.other hi }
  | list x =>
    exact { hs with lists := forall_mem_append_singleton hs.lists (by simpa [Ty.atomsIn, Ty.atoms] using hi) }
  | dict x =>
    exact { hs with dicts := forall_mem_append_singleton hs.dicts (by simpa [Ty.atomsIn, Ty.atoms] using hi) }
  | _ => exact { hs with other := forall_mem_append_singleton hs.other hi }

theorem splitStep_in {P : Atom → Prop} {reg : StrRegistry} {s : Split} {item : Ty}
    (hs : SplitIn P s) (hi : item.atomsIn P) : SplitIn P (splitStep reg s item) := by
  rw [splitStep_eq]
  split
  · exact splitPlain_in { hs with other := forall_mem_append_singleton hs.other (atomsIn_null P) }
      (atomsIn_opt.1 hi)
  · exact splitPlain_in hs hi

theorem splitMembers_in {P : Atom → Prop} {reg : StrRegistry} {ts : List Ty}
    (h : ∀ t ∈ ts, t.atomsIn P) : SplitIn P (splitMembers reg ts) := by
  have h0 : SplitIn P ({} : Split) := ⟨by simp, by simp, by simp, by simp, by simp⟩
  exact splitMembers_invariant (R := Ty.atomsIn P) h0 (fun _ _ hs hi => splitStep_in hs hi) (atomsIn_null P)
    (fun _ hm => atomsIn_union.1 hm) (fun _ hm => atomsIn_union.1 (atomsIn_opt.1 hm)) h

/-! ### `optimize_type` / `_optimize_union` -/

theorem mapM_atomsIn {P : Atom → Prop} {f : Ty → Except PyErr Ty} {xs ys : List Ty}
    (hf : ∀ x y, f x = .ok y → x.atomsIn P → y.atomsIn P)
    (h : xs.mapM f = .ok ys) (hx : ∀ x ∈ xs, x.atomsIn P) : ∀ y ∈ ys, y.atomsIn P := by
  intro y hy
  obtain ⟨x, hxm, hfx⟩ := mapM_ok_mem h hy
  exact hf x y hfx (hx x hxm)

theorem atomsIn_list {P : Atom → Prop} {t : Ty} : (Ty.list t).atomsIn P ↔ t.atomsIn P := by
  simp [Ty.atomsIn, Ty.atoms]
theorem atomsIn_dict {P : Atom → Prop} {t : Ty} : (Ty.dict t).atomsIn P ↔ t.atomsIn P := by
  simp [Ty.atomsIn, Ty.atoms]
theorem atomsIn_tuple {P : Atom → Prop} {ts : List Ty} :
    (Ty.tuple ts).atomsIn P ↔ ∀ t ∈ ts, t.atomsIn P := by
  simp only [Ty.atomsIn, Ty.atoms, mem_atomsList]
  constructor
  · intro h t ht a ha; exact h a ⟨t, ht, ha⟩
  · rintro h a ⟨t, ht, ha⟩; exact h t ht a ha

theorem atomsIn_mkUnion {P : Atom → Prop} (hP : AClosed P) {c : LitCfg} {ts : List Ty}
    (h : ∀ t ∈ ts, t.atomsIn P) : (mkUnion c ts).atomsIn P :=
  atomsIn_union.2 (atomsIn_mkUnionMembers hP h)

/-- the member list `other` after the category merge steps, before the recursive optimisation -/
theorem optimizeUnion_atoms_step {P : Atom → Prop} (hP : AClosed P) {cfg : GenCfg} {e : EqEnv} {n : Nat}
    (ih : ∀ t t', optimize cfg e n t = .ok t' → t.atomsIn P → t'.atomsIn P)
    {ms : List Ty} {t' : Ty} (h : optimizeUnion cfg e (n + 1) ms = .ok t')
    (hm : ∀ m ∈ ms, m.atomsIn P) : t'.atomsIn P := by
  rw [optimizeUnion] at h
  have hs := splitMembers_in (reg := cfg.reg) hm
  generalize splitMembers cfg.reg ms = s at h hs
  -- first bind: objects
  rw [Except.bind_ok_iff] at h
  obtain ⟨other1, h1, h⟩ := h
  have ho0 : ∀ t ∈ (if (s.other.any Ty.isInt && s.other.any Ty.isFloat) = true then
      removeFirst Ty.isInt s.other else s.other), t.atomsIn P := by
    split
    · exact fun t ht => hs.other t (removeFirst_subset t ht)
    · exact hs.other
  have ho1 : ∀ t ∈ other1, t.atomsIn P := by
    split at h1
    · rw [Except.pure_ok_iff] at h1; subst h1; exact ho0
    · rw [Except.bind_ok_iff] at h1
      obtain ⟨m, hm1, h1⟩ := h1
      rw [Except.pure_ok_iff] at h1; subst h1
      exact forall_mem_append_singleton ho0
        (atomsIn_obj.2 (mergeFieldSets_atoms hP hm1 hs.toMerge))
  -- lists, dicts
  dsimp only at h
  have ho2 : ∀ t ∈ (if s.lists.isEmpty = true then other1
      else other1 ++ [(mkUnion cfg.lit s.lists).list]), t.atomsIn P := by
    split
    · exact ho1
    · exact forall_mem_append_singleton ho1 (atomsIn_list.2 (atomsIn_mkUnion hP hs.lists))
  generalize (if s.lists.isEmpty = true then other1
      else other1 ++ [(mkUnion cfg.lit s.lists).list]) = other2 at h ho2
  have ho3 : ∀ t ∈ (if s.dicts.isEmpty = true then other2
      else other2 ++ [(mkUnion cfg.lit s.dicts).dict]), t.atomsIn P := by
    split
    · exact ho2
    · exact forall_mem_append_singleton ho2 (atomsIn_dict.2 (atomsIn_mkUnion hP hs.dicts))
  generalize (if s.dicts.isEmpty = true then other2
      else other2 ++ [(mkUnion cfg.lit s.dicts).dict]) = other3 at h ho3
  -- string types
  rw [Except.bind_ok_iff] at h
  obtain ⟨other4, h4, h⟩ := h
  have hstr_of_mem : ∀ t ∈ s.strTypes, P .str := by
    intro t ht
    obtain ⟨hin, hk⟩ := hs.strTypes t ht
    rcases hk with rfl | ⟨k, rfl⟩
    · exact hin _ (by simp [Ty.atoms])
    · exact hP (.ser k) (hin _ (by simp [Ty.atoms])) trivial
  have hstrIn : ∀ t ∈ s.strTypes, (Ty.str).atomsIn P := by
    intro t ht a ha
    simp only [Ty.atoms, List.mem_singleton] at ha
    subst ha; exact hstr_of_mem t ht
  have ho4 : ∀ t ∈ other4, t.atomsIn P := by
    split at h4
    · rename_i hany
      rw [Except.pure_ok_iff] at h4; subst h4
      obtain ⟨t, ht, _⟩ := List.any_eq_true.1 hany
      exact forall_mem_append_singleton ho3 (hstrIn t ht)
    · split at h4
      · rw [Except.pure_ok_iff] at h4; subst h4; exact ho3
      · rename_i hne
        rw [Except.bind_ok_iff] at h4
        obtain ⟨r, hr, h4⟩ := h4
        obtain ⟨t0, ht0⟩ : ∃ t0, t0 ∈ s.strTypes := by
          cases hst : s.strTypes with
          | nil => simp [hst] at hne
          | cons a as => exact ⟨a, List.mem_cons_self ..⟩
        split at h4
        · rename_i k
          rw [Except.pure_ok_iff] at h4; subst h4
          apply forall_mem_append_singleton ho3
          have hk := resolve_subset hr k (List.mem_cons_self ..)
          obtain ⟨t, ht, hte⟩ := List.mem_filterMap.1 hk
          cases t <;> simp at hte
          subst hte
          exact (hs.strTypes _ ht).1
        · cases h4
        · rw [Except.pure_ok_iff] at h4; subst h4
          exact forall_mem_append_singleton ho3 (hstrIn t0 ht0)
  -- recursive optimisation of the members
  rw [Except.bind_ok_iff] at h
  obtain ⟨types, h5, h⟩ := h
  have ht : ∀ t ∈ types, t.atomsIn P := mapM_atomsIn ih h5 ho4
  split at h
  · cases h
  · rw [Except.pure_ok_iff] at h; subst h; exact ht _ (List.mem_cons_self ..)
  · rw [Except.pure_ok_iff] at h; subst h
    have ht1 : ∀ t ∈ (if types.any Ty.isUnknown = true then removeFirst Ty.isUnknown types else types),
        t.atomsIn P := by
      split
      · exact fun t h' => ht t (removeFirst_subset t h')
      · exact ht
    generalize (if types.any Ty.isUnknown = true then removeFirst Ty.isUnknown types else types) = types1
      at ht1 ⊢
    have ht2 : ∀ t ∈ types1.filter (fun t => !t.isNull), t.atomsIn P :=
      fun t h' => ht1 t (List.mem_filter.1 h').1
    have hmm := atomsIn_mkUnionMembers hP (c := cfg.lit) ht2
    have hmt : (match mkUnionMembers cfg.lit (types1.filter (fun t => !t.isNull)) with
        | [] => Ty.unknown
        | [t] => t
        | us => Ty.union us).atomsIn P := by
      split
      · exact atomsIn_unknown P
      · rename_i t he; exact hmm t (by rw [he]; exact List.mem_cons_self ..)
      · exact atomsIn_union.2 hmm
    split
    · exact atomsIn_opt.2 hmt
    · exact hmt

theorem optimize_atoms_succ {P : Atom → Prop} (hP : AClosed P) {cfg : GenCfg} {e : EqEnv} {n : Nat}
    (ih : ∀ t t', optimize cfg e n t = .ok t' → t.atomsIn P → t'.atomsIn P)
    (ihU : ∀ ms t', optimizeUnion cfg e n ms = .ok t' → (∀ m ∈ ms, m.atomsIn P) → t'.atomsIn P)
    {t t' : Ty} (h : optimize cfg e (n + 1) t = .ok t') (ht : t.atomsIn P) : t'.atomsIn P := by
  cases t with
  | obj fs =>
    obtain ⟨m, fs', hm, rfl, _, hr⟩ := optimize_obj h
    cases hm
    refine atomsIn_obj.2 ?_
    intro kv hkv
    obtain ⟨a, ha, _, hopt⟩ := forall₂_mem_right hr hkv
    exact ih _ _ hopt (atomsIn_obj.1 ht a ha)
  | union ts =>
    rw [optimize] at h
    exact ihU ts t' h (atomsIn_union.1 ht)
  | opt x =>
    rw [optimize, Except.bind_ok_iff] at h
    obtain ⟨y, hy, h⟩ := h
    have := ih x y hy (atomsIn_opt.1 ht)
    split at h <;> (rw [Except.pure_ok_iff] at h; subst h)
    · exact this
    · exact atomsIn_opt.2 this
  | list x =>
    rw [optimize, Except.bind_ok_iff] at h
    obtain ⟨y, hy, h⟩ := h
    rw [Except.pure_ok_iff] at h; subst h
    exact atomsIn_list.2 (ih x y hy (atomsIn_list.1 ht))
  | dict x =>
    rw [optimize, Except.bind_ok_iff] at h
    obtain ⟨y, hy, h⟩ := h
    rw [Except.pure_ok_iff] at h; subst h
    exact atomsIn_dict.2 (ih x y hy (atomsIn_dict.1 ht))
  | tuple ts =>
    rw [optimize, Except.bind_ok_iff] at h
    obtain ⟨ys, hy, h⟩ := h
    rw [Except.pure_ok_iff] at h; subst h
    exact atomsIn_tuple.2 (mapM_atomsIn ih hy (atomsIn_tuple.1 ht))
  | lit ov vs =>
    rw [optimize] at h
    split at h <;> (rw [Except.pure_ok_iff] at h; subst h)
    · intro a ha
      simp only [Ty.atoms, List.mem_singleton] at ha
      subst ha
      exact hP .litAny (ht _ (by simp [Ty.atoms])) trivial
    · exact ht
  | _ => (simp [optimize, pure, Except.pure] at h; subst h; exact ht)

/-- `optimize_type` / `_optimize_union` introduce no value atom outside a widening-closed set that
    contains the atoms of the input -/
theorem optimize_atoms {P : Atom → Prop} (hP : AClosed P) (cfg : GenCfg) (e : EqEnv) (fuel : Nat) :
    (∀ t t', optimize cfg e fuel t = .ok t' → t.atomsIn P → t'.atomsIn P) ∧
    (∀ ms t', optimizeUnion cfg e fuel ms = .ok t' → (∀ m ∈ ms, m.atomsIn P) → t'.atomsIn P) := by
  induction fuel with
  | zero =>
    constructor
    · intro t t' h; simp [optimize] at h
    · intro ms t' h; simp [optimizeUnion] at h
  | succ n ih =>
    exact ⟨fun t t' h ht => optimize_atoms_succ hP ih.1 ih.2 h ht,
           fun ms t' h hm => optimizeUnion_atoms_step hP ih.1 h hm⟩

/-- the widening closure of the atoms of `t` -/
def Widen (t : Ty) (a : Atom) : Prop := a ∈ t.atoms ∨ (a = .str ∧ ∃ b ∈ t.atoms, b.strLike)

theorem widen_closed (t : Ty) : AClosed (Widen t) := by
  intro b hb hs
  rcases hb with hb | ⟨rfl, b', hb', hs'⟩
  · exact .inr ⟨rfl, b, hb, hs⟩
  · exact .inr ⟨rfl, b', hb', hs'⟩

end J2M
