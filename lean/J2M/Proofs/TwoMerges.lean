/-
  Several `merge_models()` calls on one registry (library use: "merge, receive more data, merge again").

  `buildGraphFrom cfg o g0 inputs` registers further named sample lists into an EXISTING registry `g0`;
  `pipelineTwo` is `buildGraph` + `merge_models` + `buildGraphFrom` + `merge_models` + `generate_names`.
  This file lifts the invariants that the single-round theorems thread (`Reg.WF`, `TwoPass.AllOut`, `ThirdPass.AllK`,
  `ThirdPass.AllStable`, `Reg.GraphGood`) to `buildGraphFrom` from any registry satisfying them, and iterates them
  over any number of rounds (`mergeRounds`).
-/
import J2M.Props.C01R
import J2M.Props.C07R
import J2M.Props.C08I
import J2M.Proofs.RSoundRefs
namespace J2M.TwoMerges
open J2M J2M.Reg J2M.TwoPass J2M.ThirdPass J2M.C08P

/-! ## 1. `buildGraphFrom` -/

theorem buildGraphFrom_eq (cfg : GenCfg) (o : GenOracles) (g0 : Graph) (inputs : List (String × List Json)) :
    buildGraphFrom cfg o g0 inputs = inputs.foldlM (bgStep cfg o) g0 := rfl

theorem buildGraph_eq_from (cfg : GenCfg) (o : GenOracles) (inputs : List (String × List Json)) :
    buildGraph cfg o inputs = buildGraphFrom cfg o {} inputs := rfl

theorem buildGraphFrom_nil (cfg : GenCfg) (o : GenOracles) (g0 : Graph) : buildGraphFrom cfg o g0 [] = .ok g0 := rfl

theorem buildGraphFrom_cons (cfg : GenCfg) (o : GenOracles) (g0 : Graph) (inp : String × List Json)
    (inputs : List (String × List Json)) :
    buildGraphFrom cfg o g0 (inp :: inputs) = (bgStep cfg o g0 inp >>= fun g => buildGraphFrom cfg o g inputs) := by
  simp only [buildGraphFrom_eq, List.foldlM_cons]

/-- registering `xs ++ ys` is registering `xs`, then `ys` into the result -/
theorem buildGraphFrom_append (cfg : GenCfg) (o : GenOracles) (g0 : Graph) (xs ys : List (String × List Json)) :
    buildGraphFrom cfg o g0 (xs ++ ys) = (buildGraphFrom cfg o g0 xs >>= fun g => buildGraphFrom cfg o g ys) := by
  simp only [buildGraphFrom_eq, List.foldlM_append]

/-- in particular: one `buildGraph` of `xs ++ ys` is `buildGraph xs` followed by `buildGraphFrom … ys` -/
theorem buildGraph_append (cfg : GenCfg) (o : GenOracles) (xs ys : List (String × List Json)) :
    buildGraph cfg o (xs ++ ys) = (buildGraph cfg o xs >>= fun g => buildGraphFrom cfg o g ys) :=
  buildGraphFrom_append cfg o {} xs ys

/-- induction over the `process_meta_data` calls of `buildGraphFrom` -/
theorem buildGraphFrom_induct {cfg : GenCfg} {o : GenOracles} {P : Graph → Prop}
    (step : ∀ (g : Graph) (inp : String × List Json) (fs : Fields), P g → generate cfg o inp.2 = .ok (.obj fs) →
      P (processMetaData g fs (some inp.1)).1) :
    ∀ (inputs : List (String × List Json)) (g0 g : Graph), P g0 → buildGraphFrom cfg o g0 inputs = .ok g → P g := by
  intro inputs
  induction inputs with
  | nil =>
    intro g0 g h0 h
    rw [buildGraphFrom_nil] at h
    injection h with h; subst h; exact h0
  | cons inp inputs ih =>
    intro g0 g h0 h
    rw [buildGraphFrom_cons] at h
    simp only [bind, Except.bind] at h
    split at h
    · cases h
    · rename_i g1 hg1
      obtain ⟨fs, hgen, rfl⟩ := bgStep_ok hg1
      exact ih _ g (step g0 inp fs h0 hgen) h

/-- **buildGraphFrom_WF**: registering more data into a well-formed registry keeps it well-formed -/
theorem buildGraphFrom_WF {cfg : GenCfg} {o : GenOracles} {g0 g : Graph} {inputs : List (String × List Json)}
    (wf : WF g0) (h : buildGraphFrom cfg o g0 inputs = .ok g) : WF g := by
  refine buildGraphFrom_induct (P := WF) ?_ inputs g0 g wf h
  intro g inp fs wfg hgen
  have hnp : ptrsOfFields fs = [] := by simpa [ptrsOf] using generate_noPtr hgen
  exact processMetaData_WF wfg (by rw [hnp]; simp)

/-- **mergeModels_WF**: `merge_models` keeps the registry well-formed (`C05R.mergeModels_spec` (d)) -/
theorem mergeModels_WF {cfg : GenCfg} {so : StrOracle} {cmps : List Cmp} {g g' : Graph}
    {repl : List (String × List String)} (wf : WF g) (h : mergeModels cfg so cmps g = .ok (g', repl)) : WF g' :=
  (mergeModels_struct wf h).choose_spec.choose_spec.2.2.2.2.2.2.1

/-! ### what is already registered is kept -/

/-- `g` extends `g0`: every model of `g0` is still registered with the same field dict, the pointer records of `g0`
    are a prefix of those of `g`, the `Index` counter did not go back -/
structure Keeps (g0 g : Graph) : Prop where
  idx : ∀ i ∈ idxs g0, i ∈ idxs g
  look : ∀ i ∈ idxs g0, g.look i = g0.look i
  counter : g0.counter ≤ g.counter
  ptrs : ∃ newp, g.ptrs = g0.ptrs ++ newp

theorem Keeps.refl (g : Graph) : Keeps g g := ⟨fun _ h => h, fun _ _ => rfl, Nat.le_refl _, [], by simp⟩

theorem Keeps.trans {a b c : Graph} (h1 : Keeps a b) (h2 : Keeps b c) : Keeps a c := by
  obtain ⟨p1, e1⟩ := h1.ptrs
  obtain ⟨p2, e2⟩ := h2.ptrs
  exact ⟨fun i hi => h2.idx i (h1.idx i hi), fun i hi => (h2.look i (h1.idx i hi)).trans (h1.look i hi),
    Nat.le_trans h1.counter h2.counter, p1 ++ p2, by rw [e2, e1, List.append_assoc]⟩

theorem Keeps.keysOf {g0 g : Graph} (h : Keeps g0 g) {i : String} (hi : i ∈ idxs g0) : keysOf g i = keysOf g0 i := by
  unfold Reg.keysOf; rw [h.look i hi]

theorem processMetaData_idxs (g : Graph) (fields : Fields) (name : Option String) :
    idxs (processMetaData g fields name).1 = idxs (processTy g none (.obj fields)).1 := by
  rw [processMetaData_fst]
  cases name with
  | none => rfl
  | some n =>
    simp only [idxs, List.map_map]
    apply List.map_congr_left
    intro m _
    simp only [Function.comp]
    split <;> rfl

theorem processMetaData_ptrs (g : Graph) (fields : Fields) (name : Option String) :
    (processMetaData g fields name).1.ptrs = (processTy g none (.obj fields)).1.ptrs := by
  rw [processMetaData_fst]; cases name <;> rfl

theorem processMetaData_counter (g : Graph) (fields : Fields) (name : Option String) :
    (processMetaData g fields name).1.counter = (processTy g none (.obj fields)).1.counter := by
  rw [processMetaData_fst]; cases name <;> rfl

theorem processMetaData_keeps {g : Graph} (hb : Bounded g) (fields : Fields) (name : Option String) :
    Keeps g (processMetaData g fields name).1 := by
  obtain ⟨new, newp, e, _⟩ := processTy_ext (.obj fields) g none hb
  refine ⟨?_, ?_, ?_, newp, ?_⟩
  · intro i hi
    rw [processMetaData_idxs, e.idxs_eq]
    exact List.mem_append_left _ hi
  · intro i hi
    rw [processMetaData_look]
    exact e.look_old hi
  · rw [processMetaData_counter]; exact e.counter
  · rw [processMetaData_ptrs]; exact e.ptrs

/-- **`buildGraphFrom` only appends**: the models of `g0` (in particular the merged, possibly self-referencing models
    of an earlier `merge_models`) are registered unchanged in the result -/
theorem buildGraphFrom_keeps {cfg : GenCfg} {o : GenOracles} {g0 g : Graph} {inputs : List (String × List Json)}
    (wf : WF g0) (h : buildGraphFrom cfg o g0 inputs = .ok g) : Keeps g0 g := by
  have := buildGraphFrom_induct (P := fun g => WF g ∧ Keeps g0 g) ?_ inputs g0 g ⟨wf, Keeps.refl g0⟩ h
  · exact this.2
  · intro g inp fs ⟨wfg, hk⟩ hgen
    have hnp : ptrsOfFields fs = [] := by simpa [ptrsOf] using generate_noPtr hgen
    exact ⟨processMetaData_WF wfg (by rw [hnp]; simp), hk.trans (processMetaData_keeps wfg.bound fs _)⟩

/-! ### the normal-form invariants -/

mutual
/-- sorted literal sets: `rawK` (with "distinct keys of inline dicts") implies `litK` (without) -/
theorem rawK_litK (cfg : GenCfg) : ∀ t, rawK cfg t = true → litK cfg t = true
  | .int, _ | .float, _ | .bool, _ | .str, _ | .null, _ | .unknown, _ | .ser _, _ | .ptr _, _ => by simp [litK]
  | .lit ov vs, h => by simpa [rawK, litK] using h
  | .list t, h | .dict t, h | .opt t, h => by
    simp only [rawK] at h
    simp only [litK]; exact rawK_litK cfg t h
  | .union ts, h | .tuple ts, h => by
    simp only [rawK] at h
    simp only [litK]; exact rawKList_litK cfg ts h
  | .obj fs, h => by
    simp only [rawK, Bool.and_eq_true] at h
    simp only [litK]; exact rawKFields_litK cfg fs h.2
theorem rawKList_litK (cfg : GenCfg) : ∀ ts, rawKList cfg ts = true → litKList cfg ts = true
  | [], _ => by simp [litKList]
  | t :: ts, h => by
    simp only [rawKList, Bool.and_eq_true] at h
    simp only [litKList, Bool.and_eq_true]; exact ⟨rawK_litK cfg t h.1, rawKList_litK cfg ts h.2⟩
theorem rawKFields_litK (cfg : GenCfg) : ∀ fs, rawKFields cfg fs = true → litKFields cfg fs = true
  | [], _ => by simp [litKFields]
  | (_, t) :: fs, h => by
    simp only [rawKFields, Bool.and_eq_true] at h
    simp only [litKFields, Bool.and_eq_true]; exact ⟨rawK_litK cfg t h.1, rawKFields_litK cfg fs h.2⟩
end

/-- **buildGraphFrom_out** (generalises `C08M.buildGraph_out`): from a registry whose fields are all `out` -/
theorem buildGraphFrom_allOut {cfg : GenCfg} {o : GenOracles} {g0 g : Graph} {inputs : List (String × List Json)}
    (hg : AllOut cfg g0) (h : buildGraphFrom cfg o g0 inputs = .ok g) : AllOut cfg g :=
  buildGraph_fold_allOut inputs g0 g hg h

/-- **buildGraphFrom_rawK** (generalises `C08I.buildGraph_rawK`): from a registry whose fields are all `out` with
    sorted literal sets -/
theorem buildGraphFrom_allK {cfg : GenCfg} {o : GenOracles} {g0 g : Graph} {inputs : List (String × List Json)}
    (hg : AllOut cfg g0) (hk : AllK cfg g0) (h : buildGraphFrom cfg o g0 inputs = .ok g) : AllK cfg g := by
  have h1 : AllLitKG cfg g := buildGraph_fold_allLitK inputs g0 g
    (fun m hm kv hkv => rawK_litK cfg kv.2 (hk m hm kv hkv)) h
  have h2 := buildGraphFrom_allOut hg h
  exact fun m hm kv hkv => out_litK_rawK cfg kv.2 (h2 m hm kv hkv) (h1 m hm kv hkv)

/-- **buildGraphFrom_sound** (generalises `C01R.buildGraph_sound`): from a well-formed registry of registry-stage
    field dicts; inhabitation facts about `g0` persist, every new input gets a root accepting its samples -/
theorem buildGraphFrom_sound {cfg : GenCfg} {o : GenOracles} {g0 g : Graph} {inputs : List (String × List Json)}
    (hwf : ∀ inp ∈ inputs, ∀ s ∈ inp.2, Json.WF s)
    (hnames : ∀ k ∈ cfg.reg.types, wfSerName k = true)
    (hrep : ReplacesSound o.accepts cfg.reg) (hrank : ReplacesRanked cfg.reg)
    (wf : WF g0) (gg : GraphGood (KOf cfg) g0) (h : buildGraphFrom cfg o g0 inputs = .ok g) :
    WF g ∧ GraphGood (KOf cfg) g ∧ (∀ t v, Inh o.accepts g0.look t v → Inh o.accepts g.look t v) ∧
    ∀ inp ∈ inputs, ∃ root, ∀ s ∈ inp.2, Inh o.accepts g.look (.ptr root) s :=
  buildGraph_fold hnames hrep hrank inputs g0 g hwf wf gg h

/-! ## 2. one `merge_models`: the new models are registered, the replaced ones are gone -/

/-- the merged model of every replacement entry is registered afterwards -/
theorem mergeModels_new_registered {cfg : GenCfg} {so : StrOracle} {cmps : List Cmp} {g g' : Graph}
    {repl : List (String × List String)} (wf : WF g) (h : mergeModels cfg so cmps g = .ok (g', repl))
    {p : String × List String} (hp : p ∈ repl) : p.1 ∈ idxs g' ∧ p.1 ∉ idxs g := by
  obtain ⟨tbl, groups, _, _, hrepl, hidx, _⟩ := mergeModels_struct wf h
  rw [hrepl] at hp
  obtain ⟨Mk, hMk, rfl⟩ := List.mem_map.1 hp
  obtain ⟨hk, _⟩ := List.mem_zipIdx' (x := Mk.1) (i := Mk.2) hMk
  simp only [List.length_map] at hk
  refine ⟨?_, newIdx_not_mem wf _⟩
  rw [hidx]
  exact List.mem_append_right _ (List.mem_map.2 ⟨Mk.2, List.mem_range.2 hk, rfl⟩)

/-- a replaced model is registered before and not registered afterwards -/
theorem mergeModels_member_gone {cfg : GenCfg} {so : StrOracle} {cmps : List Cmp} {g g' : Graph}
    {repl : List (String × List String)} (wf : WF g) (h : mergeModels cfg so cmps g = .ok (g', repl))
    {p : String × List String} (hp : p ∈ repl) {j : String} (hj : j ∈ p.2) : j ∈ idxs g ∧ j ∉ idxs g' := by
  have hreg := (C07RH.repl_facts wf h).1 p hp j hj
  refine ⟨hreg, fun hin => ?_⟩
  obtain ⟨tbl, groups, _, _, hrepl, hidx, _⟩ := mergeModels_struct wf h
  rw [hidx, List.mem_append, List.mem_filter] at hin
  rcases hin with ⟨_, hno⟩ | hnew
  · have hno' : inSome (groups.map (memsOf (idxs g))) j = false := by simpa using hno
    rw [hrepl] at hp
    obtain ⟨Mk, hMk, rfl⟩ := List.mem_map.1 hp
    have := inSome_false_iff.1 hno' Mk.1 (List.fst_mem_of_mem_zipIdx hMk)
    simp only [List.contains_eq_mem, decide_eq_false_iff_not] at this
    exact this hj
  · obtain ⟨k, _, rfl⟩ := List.mem_map.1 hnew
    exact newIdx_not_mem wf k hreg

/-- **no stale reference**: after `merge_models` no field pointer and no pointer record mentions a replaced model -/
theorem mergeModels_no_stale {cfg : GenCfg} {so : StrOracle} {cmps : List Cmp} {g g' : Graph}
    {repl : List (String × List String)} (wf : WF g) (h : mergeModels cfg so cmps g = .ok (g', repl))
    {p : String × List String} (hp : p ∈ repl) {j : String} (hj : j ∈ p.2) :
    (∀ m ∈ g'.models, j ∉ ptrsOfFields m.fields) ∧ (∀ q ∈ g'.ptrs, q.target ≠ j ∧ q.parent ≠ some j) := by
  have wf' := mergeModels_WF wf h
  have hgone := (mergeModels_member_gone wf h hp hj).2
  refine ⟨fun m hm hin => hgone (wf'.fields m hm j hin), fun q hq => ⟨fun e => ?_, fun e => ?_⟩⟩
  · exact hgone (e ▸ (wf'.ptrs q hq).1)
  · exact hgone ((wf'.ptrs q hq).2 j e)

/-! ### replaced models stay replaced -/

/-- `j` was handed out by the `Index` of the registry and is not registered (any more): a replaced model -/
def Retired (g : Graph) (j : String) : Prop := j ∉ idxs g ∧ ∃ k, k < g.counter ∧ j = indexOf k

/-- nothing in a well-formed registry refers to a retired index -/
theorem Retired.not_referenced {g : Graph} {j : String} (wf : WF g) (h : Retired g j) :
    (∀ m ∈ g.models, j ∉ ptrsOfFields m.fields) ∧ (∀ q ∈ g.ptrs, q.target ≠ j ∧ q.parent ≠ some j) :=
  ⟨fun m hm hin => h.1 (wf.fields m hm j hin),
   fun q hq => ⟨fun e => h.1 (e ▸ (wf.ptrs q hq).1), fun e => h.1 ((wf.ptrs q hq).2 j e)⟩⟩

theorem Retired.processMetaData {g : Graph} {j : String} (hb : Bounded g) (h : Retired g j) (fields : Fields)
    (name : Option String) : Retired (processMetaData g fields name).1 j := by
  obtain ⟨new, newp, e, _⟩ := processTy_ext (.obj fields) g none hb
  obtain ⟨hno, k, hk, rfl⟩ := h
  refine ⟨?_, k, ?_, rfl⟩
  · rw [processMetaData_idxs, e.idxs_eq, List.mem_append]
    rintro (hin | hin)
    · exact hno hin
    · obtain ⟨m, hm, hmi⟩ := List.mem_map.1 hin
      obtain ⟨k', hk1, _, hk3⟩ := e.range m hm
      have := indexOf_inj (hmi.symm.trans hk3)
      omega
  · rw [processMetaData_counter]; exact Nat.lt_of_lt_of_le hk e.counter

theorem Retired.buildGraphFrom {cfg : GenCfg} {o : GenOracles} {g0 g : Graph} {inputs : List (String × List Json)}
    {j : String} (wf : WF g0) (hr : Retired g0 j) (h : buildGraphFrom cfg o g0 inputs = .ok g) : Retired g j := by
  have := buildGraphFrom_induct (P := fun g => WF g ∧ Retired g j) ?_ inputs g0 g ⟨wf, hr⟩ h
  · exact this.2
  · intro g inp fs ⟨wfg, hk⟩ hgen
    have hnp : ptrsOfFields fs = [] := by simpa [ptrsOf] using generate_noPtr hgen
    exact ⟨processMetaData_WF wfg (by rw [hnp]; simp), hk.processMetaData wfg.bound fs _⟩

theorem Retired.mergeModels {cfg : GenCfg} {so : StrOracle} {cmps : List Cmp} {g g' : Graph}
    {repl : List (String × List String)} {j : String} (wf : WF g) (hr : Retired g j)
    (h : mergeModels cfg so cmps g = .ok (g', repl)) : Retired g' j := by
  obtain ⟨tbl, groups, _, _, _, hidx, _, _, _, hc⟩ := mergeModels_struct wf h
  obtain ⟨hno, k, hk, rfl⟩ := hr
  refine ⟨?_, k, by rw [hc]; omega, rfl⟩
  rw [hidx, List.mem_append]
  rintro (hin | hin)
  · exact hno (List.mem_filter.1 hin).1
  · obtain ⟨k', _, e⟩ := List.mem_map.1 hin
    have := indexOf_inj e
    omega

/-- a model replaced by `merge_models` is retired -/
theorem mergeModels_member_retired {cfg : GenCfg} {so : StrOracle} {cmps : List Cmp} {g g' : Graph}
    {repl : List (String × List String)} (wf : WF g) (h : mergeModels cfg so cmps g = .ok (g', repl))
    {p : String × List String} (hp : p ∈ repl) {j : String} (hj : j ∈ p.2) : Retired g' j := by
  obtain ⟨hreg, hgone⟩ := mergeModels_member_gone wf h hp hj
  obtain ⟨m, hm, rfl⟩ := List.mem_map.1 hreg
  obtain ⟨k, hk, e⟩ := wf.bound m hm
  have hc := (mergeModels_struct wf h).choose_spec.choose_spec.2.2.2.2.2.2.2
  exact ⟨hgone, k, by rw [hc]; omega, e⟩

/-- `optimize_type` on a field dict whose field types are all `stable` returns it unchanged (any `==` environment) -/
theorem optimize_obj_stable_id {cfg : GenCfg} (e : EqEnv) {fs : Fields}
    (hs : ∀ kv ∈ fs, stable cfg kv.2 = true) :
    optimize cfg e (Ty.fuelFor (.obj fs)) (.obj fs) = .ok (.obj fs) := by
  have hF : Ty.fuelFor (.obj fs) = (10 * Ty.sizeFields fs + 19) + 1 := by
    simp only [Ty.fuelFor, Ty.size]; omega
  rw [hF, optimize, mapM_ok_id]
  · rfl
  · intro kv hkv
    have := Ty.size_le_sizeFields hkv
    rw [C08I.optimize_stable_id cfg _ kv.2 (hs kv hkv) _ (by omega)]; rfl

/-- `optimize_type(model_meta)` on a model whose fields are all `stable` changes nothing -/
theorem optimizeModel_stable_id {cfg : GenCfg} {so : StrOracle} {g : Graph} {i : String} {m : Model}
    (hf : g.find? i = some m) (hs : ∀ kv ∈ m.fields, stable cfg kv.2 = true) :
    optimizeModel cfg so g i = .ok (g.setFields i m.fields) := by
  unfold optimizeModel
  simp only [hf, bind, Except.bind, optimize_obj_stable_id (g.eqEnv so) hs, pure, Except.pure]

/-- `generate_names` keeps every model's index and field dict -/
theorem generateNames_fields {no : NameOracles} {g g' : Graph} (h : generateNames no g = .ok g') :
    ∀ m' ∈ g'.models, ∃ m ∈ g.models, m'.idx = m.idx ∧ m'.fields = m.fields := by
  intro m' hm'
  obtain ⟨m, hm, r⟩ := RSound.forall₂_mem_right (RSound.generateNames_spec h).1 m' hm'
  exact ⟨m, hm, r.1, r.2.1⟩

/-! ## 3. `pipelineTwo`, stage by stage -/

theorem pipelineTwo_ok {cfg : GenCfg} {o : PipeOracles} {cmps : List Cmp} {first more : List (String × List Json)}
    {r : PipeResult} (h : pipelineTwo cfg o cmps first more = .ok r) :
    ∃ g0 g1 repl1, buildGraph cfg o.gen first = .ok g0 ∧ mergeModels cfg o.gen.str cmps g0 = .ok (g1, repl1) ∧
      buildGraphFrom cfg o.gen g1 more = .ok r.afterProcess ∧
      mergeModels cfg o.gen.str cmps r.afterProcess = .ok (r.afterMerge, r.replaces) ∧
      generateNames o.names r.afterMerge = .ok r.named := by
  unfold pipelineTwo at h
  simp only [bind, Except.bind] at h
  split at h
  · cases h
  · rename_i g0 h0
    split at h
    · cases h
    · rename_i x1 h1
      obtain ⟨g1, repl1⟩ := x1
      simp only at h
      split at h
      · cases h
      · rename_i g2 h2
        split at h
        · cases h
        · rename_i x3 h3
          obtain ⟨g3, repl⟩ := x3
          simp only at h
          split at h
          · cases h
          · rename_i g4 h4
            simp only [pure, Except.pure] at h
            injection h with h
            subst h
            exact ⟨g0, g1, repl1, h0, h1, h2, h3, h4⟩

/-! ## 4. any number of rounds -/

/-- `rounds.length` times "register the next named sample lists, `merge_models()`" on a registry -/
def mergeRounds (cfg : GenCfg) (o : GenOracles) (cmps : List Cmp) :
    Graph → List (List (String × List Json)) → Except PyErr Graph
  | g, [] => .ok g
  | g, r :: rs =>
    match buildGraphFrom cfg o g r with
    | .error e => .error e
    | .ok g' =>
      match mergeModels cfg o.str cmps g' with
      | .error e => .error e
      | .ok (g'', _) => mergeRounds cfg o cmps g'' rs

theorem mergeRounds_cons_ok {cfg : GenCfg} {o : GenOracles} {cmps : List Cmp} {g gF : Graph}
    {r : List (String × List Json)} {rs : List (List (String × List Json))}
    (h : mergeRounds cfg o cmps g (r :: rs) = .ok gF) :
    ∃ g' g'' repl, buildGraphFrom cfg o g r = .ok g' ∧ mergeModels cfg o.str cmps g' = .ok (g'', repl) ∧
      mergeRounds cfg o cmps g'' rs = .ok gF := by
  rw [mergeRounds] at h
  split at h
  · cases h
  · rename_i g' h1
    split at h
    · cases h
    · rename_i g'' repl h2
      exact ⟨g', g'', repl, h1, h2, h⟩

/-- `pipelineTwo` is two rounds from the empty registry (followed by `generate_names`) -/
theorem pipelineTwo_rounds {cfg : GenCfg} {o : PipeOracles} {cmps : List Cmp} {first more : List (String × List Json)}
    {r : PipeResult} (h : pipelineTwo cfg o cmps first more = .ok r) :
    mergeRounds cfg o.gen cmps {} [first, more] = .ok r.afterMerge := by
  obtain ⟨g0, g1, repl1, h0, h1, h2, h3, _⟩ := pipelineTwo_ok h
  rw [buildGraph_eq_from] at h0
  simp only [mergeRounds, h0, h1, h2, h3]

/-- the invariants that every single-round theorem needs and restores -/
structure Inv (cfg : GenCfg) (g : Graph) : Prop where
  wf : WF g
  out : AllOut cfg g
  k : AllK cfg g

theorem inv_empty (cfg : GenCfg) : Inv cfg {} :=
  ⟨wf_empty, by intro m hm; simp at hm, by intro m hm; simp at hm⟩

/-- one round: more data, then `merge_models` — the invariants hold again and every field is `stable` -/
theorem round_inv {cfg : GenCfg} {o : GenOracles} {so : StrOracle} {cmps : List Cmp} {g g' g'' : Graph}
    {inputs : List (String × List Json)} {repl : List (String × List String)} (hi : Inv cfg g)
    (h1 : buildGraphFrom cfg o g inputs = .ok g') (h2 : mergeModels cfg so cmps g' = .ok (g'', repl)) :
    Inv cfg g' ∧ Inv cfg g'' ∧ AllStable cfg g'' := by
  have i' : Inv cfg g' := ⟨buildGraphFrom_WF hi.wf h1, buildGraphFrom_allOut hi.out h1,
    buildGraphFrom_allK hi.out hi.k h1⟩
  obtain ⟨a, b, c⟩ := C08I.mergeModels_stable i'.out i'.k h2
  exact ⟨i', ⟨mergeModels_WF i'.wf h2, b, c⟩, a⟩

theorem mergeRounds_inv {cfg : GenCfg} {o : GenOracles} {cmps : List Cmp} :
    ∀ (rs : List (List (String × List Json))) (g gF : Graph), Inv cfg g →
      mergeRounds cfg o cmps g rs = .ok gF → Inv cfg gF
  | [], g, gF, hi, h => by
    simp only [mergeRounds] at h
    injection h with h; subst h; exact hi
  | r :: rs, g, gF, hi, h => by
    obtain ⟨g', g'', repl, h1, h2, h3⟩ := mergeRounds_cons_ok h
    exact mergeRounds_inv rs g'' gF (round_inv hi h1 h2).2.1 h3

theorem mergeRounds_stable_aux {cfg : GenCfg} {o : GenOracles} {cmps : List Cmp} :
    ∀ (rs : List (List (String × List Json))) (g gF : Graph), Inv cfg g → (AllStable cfg g ∨ rs ≠ []) →
      mergeRounds cfg o cmps g rs = .ok gF → AllStable cfg gF
  | [], g, gF, _, hs, h => by
    simp only [mergeRounds] at h
    injection h with h; subst h
    rcases hs with hs | hs
    · exact hs
    · exact absurd rfl hs
  | r :: rs, g, gF, hi, _, h => by
    obtain ⟨g', g'', repl, h1, h2, h3⟩ := mergeRounds_cons_ok h
    obtain ⟨_, i'', s''⟩ := round_inv hi h1 h2
    exact mergeRounds_stable_aux rs g'' gF i'' (Or.inl s'') h3

theorem mergeRounds_WF {cfg : GenCfg} {o : GenOracles} {cmps : List Cmp} :
    ∀ (rs : List (List (String × List Json))) (g gF : Graph), WF g → mergeRounds cfg o cmps g rs = .ok gF → WF gF
  | [], g, gF, wf, h => by
    simp only [mergeRounds] at h
    injection h with h; subst h; exact wf
  | r :: rs, g, gF, wf, h => by
    obtain ⟨g', g'', repl, h1, h2, h3⟩ := mergeRounds_cons_ok h
    exact mergeRounds_WF rs g'' gF (mergeModels_WF (buildGraphFrom_WF wf h1) h2) h3

/-- a replaced model stays replaced through all further rounds -/
theorem mergeRounds_retired {cfg : GenCfg} {o : GenOracles} {cmps : List Cmp} {j : String} :
    ∀ (rs : List (List (String × List Json))) (g gF : Graph), WF g → Retired g j →
      mergeRounds cfg o cmps g rs = .ok gF → Retired gF j
  | [], g, gF, _, hr, h => by
    simp only [mergeRounds] at h
    injection h with h; subst h; exact hr
  | r :: rs, g, gF, wf, hr, h => by
    obtain ⟨g', g'', repl, h1, h2, h3⟩ := mergeRounds_cons_ok h
    have wf' := buildGraphFrom_WF wf h1
    exact mergeRounds_retired rs g'' gF (mergeModels_WF wf' h2) ((hr.buildGraphFrom wf h1).mergeModels wf' h2) h3

/-- after at least one round every field of every registered model is `stable` -/
theorem mergeRounds_stable {cfg : GenCfg} {o : GenOracles} {cmps : List Cmp}
    {rs : List (List (String × List Json))} {g gF : Graph} (hi : Inv cfg g) (hne : rs ≠ [])
    (h : mergeRounds cfg o cmps g rs = .ok gF) : AllStable cfg gF :=
  mergeRounds_stable_aux rs g gF hi (Or.inr hne) h

/-! ### soundness over the rounds -/

mutual
theorem substTy_comp (σ τ : String → String) : ∀ t : Ty, substTy τ (substTy σ t) = substTy (τ ∘ σ) t
  | .ptr _ => by simp [substTy]
  | .list t | .dict t | .opt t => by simp [substTy, substTy_comp σ τ t]
  | .union ts | .tuple ts => by simp [substTy, substList_comp σ τ ts]
  | .obj fs => by simp [substTy, substFields_comp σ τ fs]
  | .int | .float | .bool | .str | .null | .unknown | .ser _ | .lit _ _ => by simp [substTy]
theorem substList_comp (σ τ : String → String) : ∀ ts : List Ty, substList τ (substList σ ts) = substList (τ ∘ σ) ts
  | [] => by simp [substList]
  | t :: ts => by simp [substList, substTy_comp σ τ t, substList_comp σ τ ts]
theorem substFields_comp (σ τ : String → String) :
    ∀ fs : List (String × Ty), substFields τ (substFields σ fs) = substFields (τ ∘ σ) fs
  | [] => by simp [substFields]
  | (k, t) :: fs => by simp [substFields, substTy_comp σ τ t, substFields_comp σ τ fs]
end

mutual
theorem substTy_id : ∀ t : Ty, substTy id t = t
  | .ptr _ => by simp [substTy]
  | .list t | .dict t | .opt t => by simp [substTy, substTy_id t]
  | .union ts | .tuple ts => by simp [substTy, substList_id ts]
  | .obj fs => by simp [substTy, substFields_id fs]
  | .int | .float | .bool | .str | .null | .unknown | .ser _ | .lit _ _ => by simp [substTy]
theorem substList_id : ∀ ts : List Ty, substList id ts = ts
  | [] => by simp [substList]
  | t :: ts => by simp [substList, substTy_id t, substList_id ts]
theorem substFields_id : ∀ fs : List (String × Ty), substFields id fs = fs
  | [] => by simp [substFields]
  | (k, t) :: fs => by simp [substFields, substTy_id t, substFields_id fs]
end

/-- **soundness over any number of rounds**: from a well-formed registry of registry-stage field dicts, after the
    rounds every inhabitation fact about the start registry holds for the retargeted type (for ONE index map `σ`, the
    composition of the maps of the `merge_models` calls), and every input of every round has a root model accepting
    all its samples -/
theorem mergeRounds_sound {cfg : GenCfg} {o : GenOracles} {cmps : List Cmp}
    (hnames : ∀ k ∈ cfg.reg.types, wfSerName k = true)
    (hrep : ReplacesSound o.accepts cfg.reg) (hrank : ReplacesRanked cfg.reg) :
    ∀ (rs : List (List (String × List Json))) (g gF : Graph),
      (∀ r ∈ rs, ∀ inp ∈ r, ∀ s ∈ inp.2, Json.WF s) → WF g → GraphGood (KOf cfg) g →
      mergeRounds cfg o cmps g rs = .ok gF →
      WF gF ∧ GraphGood (KOf cfg) gF ∧
      (∃ σ : String → String, ∀ t v, Inh o.accepts g.look t v → Inh o.accepts gF.look (substTy σ t) v) ∧
      ∀ r ∈ rs, ∀ inp ∈ r, ∃ root, ∀ s ∈ inp.2, Inh o.accepts gF.look (.ptr root) s
  | [], g, gF, _, wf, gg, h => by
    simp only [mergeRounds] at h
    injection h with h; subst h
    exact ⟨wf, gg, ⟨id, fun t v hv => by rw [substTy_id]; exact hv⟩, by simp⟩
  | r :: rs, g, gF, hwf, wf, gg, h => by
    obtain ⟨g', g'', repl, h1, h2, h3⟩ := mergeRounds_cons_ok h
    obtain ⟨wf', gg', mono, roots⟩ := buildGraphFrom_sound (fun inp hi => hwf r (by simp) inp hi) hnames hrep hrank
      wf gg h1
    obtain ⟨hs, _, _, wf'', gg''⟩ := C01R.mergeModels_sound (acc := o.accepts) (K := KOf cfg) hnames hrep hrank
      wf' gg' h2
    obtain ⟨wfF, ggF, ⟨σ, hσ⟩, rest⟩ := mergeRounds_sound hnames hrep hrank rs g'' gF
      (fun r' hr' => hwf r' (List.mem_cons_of_mem _ hr')) wf'' gg'' h3
    refine ⟨wfF, ggF, ⟨σ ∘ σFold repl, fun t v hv => ?_⟩, ?_⟩
    · rw [← substTy_comp]; exact hσ _ v (hs t v (mono t v hv))
    · intro r' hr' inp hinp
      rcases List.mem_cons.1 hr' with rfl | hr'
      · obtain ⟨root, hroot⟩ := roots inp hinp
        exact ⟨σ (σFold repl root), fun s hs' => by simpa [substTy] using hσ _ s (hs _ s (hroot s hs'))⟩
      · exact rest r' hr' inp hinp

/-- **two merges, explicitly**: `g0 →merge→ g1 →more data→ g2 →merge→ g3`.  What inhabited a type of `g0` inhabits the
    type retargeted by BOTH index maps in `g3`; what inhabited a type of `g2` the type retargeted by the second. -/
theorem twoMerges_sound {cfg : GenCfg} {o : GenOracles} {cmps : List Cmp} {first more : List (String × List Json)}
    {g0 g1 g2 g3 : Graph} {repl1 repl2 : List (String × List String)}
    (hwf1 : ∀ inp ∈ first, ∀ s ∈ inp.2, Json.WF s) (hwf2 : ∀ inp ∈ more, ∀ s ∈ inp.2, Json.WF s)
    (hnames : ∀ k ∈ cfg.reg.types, wfSerName k = true)
    (hrep : ReplacesSound o.accepts cfg.reg) (hrank : ReplacesRanked cfg.reg)
    (h0 : buildGraph cfg o first = .ok g0) (h1 : mergeModels cfg o.str cmps g0 = .ok (g1, repl1))
    (h2 : buildGraphFrom cfg o g1 more = .ok g2) (h3 : mergeModels cfg o.str cmps g2 = .ok (g3, repl2)) :
    WF g3 ∧ GraphGood (KOf cfg) g3 ∧
    (∀ t v, Inh o.accepts g0.look t v → Inh o.accepts g3.look (substTy (σFold repl2 ∘ σFold repl1) t) v) ∧
    (∀ t v, Inh o.accepts g2.look t v → Inh o.accepts g3.look (substTy (σFold repl2) t) v) ∧
    (∀ inp ∈ first, ∃ root, (∀ s ∈ inp.2, Inh o.accepts g0.look (.ptr root) s) ∧
      ∀ s ∈ inp.2, Inh o.accepts g3.look (.ptr (σFold repl2 (σFold repl1 root))) s) ∧
    (∀ inp ∈ more, ∃ root, (∀ s ∈ inp.2, Inh o.accepts g2.look (.ptr root) s) ∧
      ∀ s ∈ inp.2, Inh o.accepts g3.look (.ptr (σFold repl2 root)) s) := by
  obtain ⟨wf0, gg0, roots0⟩ := C01R.buildGraph_sound hwf1 hnames hrep hrank h0
  obtain ⟨hs1, _, _, wf1, gg1⟩ := C01R.mergeModels_sound (acc := o.accepts) (K := KOf cfg) hnames hrep hrank wf0 gg0 h1
  obtain ⟨wf2, gg2, mono, roots2⟩ := buildGraphFrom_sound hwf2 hnames hrep hrank wf1 gg1 h2
  obtain ⟨hs3, _, _, wf3, gg3⟩ := C01R.mergeModels_sound (acc := o.accepts) (K := KOf cfg) hnames hrep hrank wf2 gg2 h3
  have hall : ∀ t v, Inh o.accepts g0.look t v →
      Inh o.accepts g3.look (substTy (σFold repl2 ∘ σFold repl1) t) v := by
    intro t v hv
    rw [← substTy_comp]
    exact hs3 _ v (mono _ v (hs1 t v hv))
  refine ⟨wf3, gg3, hall, hs3, ?_, ?_⟩
  · intro inp hinp
    obtain ⟨root, hroot⟩ := roots0 inp hinp
    exact ⟨root, hroot, fun s hs => by simpa [substTy] using hall _ s (hroot s hs)⟩
  · intro inp hinp
    obtain ⟨root, hroot⟩ := roots2 inp hinp
    exact ⟨root, hroot, fun s hs => by simpa [substTy] using hs3 _ s (hroot s hs)⟩

end J2M.TwoMerges
