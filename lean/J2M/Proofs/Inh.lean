/-
  C01 helpers, part 1: well-formedness predicates, the named hypotheses of the C01 theorems,
  association-list lemmas for `Fields`, and basic facts about `Inh`.
-/
import J2M.Sem
namespace J2M

/-! ## Well-formed JSON: keys of every object pairwise distinct (what `json.load` produces) -/

mutual
def Json.WF : Json → Prop
  | .arr xs => Json.WFList xs
  | .obj kvs => (kvs.map (·.1)).Nodup ∧ Json.WFKvs kvs
  | _ => True
def Json.WFList : List Json → Prop
  | [] => True
  | x :: xs => Json.WF x ∧ Json.WFList xs
def Json.WFKvs : List (String × Json) → Prop
  | [] => True
  | (_, v) :: kvs => Json.WF v ∧ Json.WFKvs kvs
end

theorem Json.wfList_iff {xs : List Json} : Json.WFList xs ↔ ∀ x ∈ xs, Json.WF x := by
  induction xs with
  | nil => simp [Json.WFList]
  | cons x xs ih => simp [Json.WFList, ih]

theorem Json.wfKvs_iff {kvs : List (String × Json)} : Json.WFKvs kvs ↔ ∀ kv ∈ kvs, Json.WF kv.2 := by
  induction kvs with
  | nil => simp [Json.WFKvs]
  | cons kv kvs ih => obtain ⟨k, v⟩ := kv; simp [Json.WFKvs, ih]

/-! ## Generator-stage types

`Ty.Good K t`: the metadata the generator stage works on —
* no model pointers, no tuples (the generator never builds them);
* every pseudo-type kind `k` occurring in `t` satisfies `K k` (e.g. "is registered");
* a literal is overflowed iff it carries no values (`StringLiteral.__init__` clears them on overflow and
  is never called with an empty set);
* every inline field dict has pairwise distinct keys (it is a Python dict).
-/
mutual
def Ty.Good (K : String → Prop) : Ty → Prop
  | .ser k => K k
  | .lit ov vs => ov = true ↔ vs = []
  | .list t | .dict t | .opt t => Ty.Good K t
  | .union ts => Ty.GoodList K ts
  | .obj fs => (fs.map (·.1)).Nodup ∧ Ty.GoodFields K fs
  | .tuple _ | .ptr _ => False
  | _ => True
def Ty.GoodList (K : String → Prop) : List Ty → Prop
  | [] => True
  | t :: ts => Ty.Good K t ∧ Ty.GoodList K ts
def Ty.GoodFields (K : String → Prop) : List (String × Ty) → Prop
  | [] => True
  | (_, t) :: fs => Ty.Good K t ∧ Ty.GoodFields K fs
end

theorem Ty.goodList_iff {K} {ts : List Ty} : Ty.GoodList K ts ↔ ∀ t ∈ ts, Ty.Good K t := by
  induction ts with
  | nil => simp [Ty.GoodList]
  | cons t ts ih => simp [Ty.GoodList, ih]

theorem Ty.goodFields_iff {K} {fs : List (String × Ty)} :
    Ty.GoodFields K fs ↔ ∀ f ∈ fs, Ty.Good K f.2 := by
  induction fs with
  | nil => simp [Ty.GoodFields]
  | cons f fs ih => obtain ⟨k, t⟩ := f; simp [Ty.GoodFields, ih]

@[simp] theorem Ty.good_int {K} : Ty.Good K .int := by simp [Ty.Good]
@[simp] theorem Ty.good_float {K} : Ty.Good K .float := by simp [Ty.Good]
@[simp] theorem Ty.good_bool {K} : Ty.Good K .bool := by simp [Ty.Good]
@[simp] theorem Ty.good_str {K} : Ty.Good K .str := by simp [Ty.Good]
@[simp] theorem Ty.good_null {K} : Ty.Good K .null := by simp [Ty.Good]
@[simp] theorem Ty.good_unknown {K} : Ty.Good K .unknown := by simp [Ty.Good]
@[simp] theorem Ty.good_ser {K k} : Ty.Good K (.ser k) ↔ K k := by simp [Ty.Good]
@[simp] theorem Ty.good_lit {K ov vs} : Ty.Good K (.lit ov vs) ↔ (ov = true ↔ vs = []) := by simp [Ty.Good]
@[simp] theorem Ty.good_list {K t} : Ty.Good K (.list t) ↔ Ty.Good K t := by simp [Ty.Good]
@[simp] theorem Ty.good_dict {K t} : Ty.Good K (.dict t) ↔ Ty.Good K t := by simp [Ty.Good]
@[simp] theorem Ty.good_opt {K t} : Ty.Good K (.opt t) ↔ Ty.Good K t := by simp [Ty.Good]
@[simp] theorem Ty.good_union {K ts} : Ty.Good K (.union ts) ↔ ∀ t ∈ ts, Ty.Good K t := by
  simp [Ty.Good, Ty.goodList_iff]
@[simp] theorem Ty.good_tuple {K ts} : Ty.Good K (.tuple ts) ↔ False := by simp [Ty.Good]
@[simp] theorem Ty.good_ptr {K i} : Ty.Good K (.ptr i) ↔ False := by simp [Ty.Good]
@[simp] theorem Ty.good_obj {K fs} :
    Ty.Good K (.obj fs) ↔ (fs.map (·.1)).Nodup ∧ ∀ f ∈ fs, Ty.Good K f.2 := by
  simp [Ty.Good, Ty.goodFields_iff]

/-
`Ty.MergeSafe u t`: an inline field dict in a position that `_optimize_union` may hand to
`merge_field_sets` (a union member, or anything below one — flag `u = true`) has no `DOptional` field.
Before the repair of generator.py:155 `merge_field_sets` was not sound for optional fields of a later set, and
the C01 theorems about `optimize_type` needed this restriction; since the repair they do not
(`C01.optimize_sound`), the predicate is kept for the former `_partial` statements only.
Everything `detect` builds is `MergeSafe true`; the result of the top-level merge is `MergeSafe false`.
-/
mutual
def Ty.MergeSafe : Bool → Ty → Prop
  | u, .list t | u, .dict t | u, .opt t => Ty.MergeSafe u t
  | _, .union ts => Ty.MergeSafeList ts
  | u, .obj fs => (u = true → ∀ f ∈ fs, f.2.isOpt = false) ∧ Ty.MergeSafeFields u fs
  | _, _ => True
def Ty.MergeSafeList : List Ty → Prop
  | [] => True
  | t :: ts => Ty.MergeSafe true t ∧ Ty.MergeSafeList ts
def Ty.MergeSafeFields : Bool → List (String × Ty) → Prop
  | _, [] => True
  | u, (_, t) :: fs => Ty.MergeSafe u t ∧ Ty.MergeSafeFields u fs
end

theorem Ty.mergeSafeList_iff {ts : List Ty} : Ty.MergeSafeList ts ↔ ∀ t ∈ ts, Ty.MergeSafe true t := by
  induction ts with
  | nil => simp [Ty.MergeSafeList]
  | cons t ts ih => simp [Ty.MergeSafeList, ih]

theorem Ty.mergeSafeFields_iff {u} {fs : List (String × Ty)} :
    Ty.MergeSafeFields u fs ↔ ∀ f ∈ fs, Ty.MergeSafe u f.2 := by
  induction fs with
  | nil => simp [Ty.MergeSafeFields]
  | cons f fs ih => obtain ⟨k, t⟩ := f; simp [Ty.MergeSafeFields, ih]

@[simp] theorem Ty.mergeSafe_list {u t} : Ty.MergeSafe u (.list t) ↔ Ty.MergeSafe u t := by simp [Ty.MergeSafe]
@[simp] theorem Ty.mergeSafe_dict {u t} : Ty.MergeSafe u (.dict t) ↔ Ty.MergeSafe u t := by simp [Ty.MergeSafe]
@[simp] theorem Ty.mergeSafe_opt {u t} : Ty.MergeSafe u (.opt t) ↔ Ty.MergeSafe u t := by simp [Ty.MergeSafe]
@[simp] theorem Ty.mergeSafe_union {u ts} :
    Ty.MergeSafe u (.union ts) ↔ ∀ t ∈ ts, Ty.MergeSafe true t := by
  simp [Ty.MergeSafe, Ty.mergeSafeList_iff]
@[simp] theorem Ty.mergeSafe_obj {u fs} :
    Ty.MergeSafe u (.obj fs) ↔
      (u = true → ∀ f ∈ fs, f.2.isOpt = false) ∧ ∀ f ∈ fs, Ty.MergeSafe u f.2 := by
  simp [Ty.MergeSafe, Ty.mergeSafeFields_iff]
@[simp] theorem Ty.mergeSafe_int {u} : Ty.MergeSafe u .int := by simp [Ty.MergeSafe]
@[simp] theorem Ty.mergeSafe_float {u} : Ty.MergeSafe u .float := by simp [Ty.MergeSafe]
@[simp] theorem Ty.mergeSafe_bool {u} : Ty.MergeSafe u .bool := by simp [Ty.MergeSafe]
@[simp] theorem Ty.mergeSafe_str {u} : Ty.MergeSafe u .str := by simp [Ty.MergeSafe]
@[simp] theorem Ty.mergeSafe_null {u} : Ty.MergeSafe u .null := by simp [Ty.MergeSafe]
@[simp] theorem Ty.mergeSafe_unknown {u} : Ty.MergeSafe u .unknown := by simp [Ty.MergeSafe]
@[simp] theorem Ty.mergeSafe_ser {u k} : Ty.MergeSafe u (.ser k) := by simp [Ty.MergeSafe]
@[simp] theorem Ty.mergeSafe_lit {u o vs} : Ty.MergeSafe u (.lit o vs) := by simp [Ty.MergeSafe]
@[simp] theorem Ty.mergeSafe_tuple {u ts} : Ty.MergeSafe u (.tuple ts) := by simp [Ty.MergeSafe]
@[simp] theorem Ty.mergeSafe_ptr {u i} : Ty.MergeSafe u (.ptr i) := by simp [Ty.MergeSafe]

/-! ## Raw inhabitation

`detect` turns a long string into an *overflowed* literal `.lit true []` (Python: `StringLiteral` with
`overflowed = True`), which every later stage treats as "some string" (`DUnion.__init__` adds `str`,
`optimize_type` rewrites it to `str`).  `Sem.Inh` gives an overflowed literal no inhabitants, so the
intermediate stages are stated for `InhX ov`: the same relation with one more rule, enabled by the flag
`ov`: "an overflowed literal holds every string".  `InhX false` is `Inh` (`inhX_false_iff`);
`InhR = InhX true` is the raw relation; on types without overflowed literals (everything `optimize`
returns) the two agree (`InhX.strict`).
-/
inductive InhX (ov : Bool) (acc : Accepts) (g : ModelLookup) : Ty → Json → Prop
  | int {i} : InhX ov acc g .int (.int i)
  | floatF {x} : InhX ov acc g .float (.float x)
  | floatI {i} : InhX ov acc g .float (.int i)
  | bool {b} : InhX ov acc g .bool (.bool b)
  | str {s} : InhX ov acc g .str (.str s)
  | null : InhX ov acc g .null .null
  | ser {k s} : acc k s = some true → InhX ov acc g (.ser k) (.str s)
  | lit {vs s} : s ∈ vs → InhX ov acc g (.lit false vs) (.str s)
  | litOv {vs s} : ov = true → InhX ov acc g (.lit true vs) (.str s)
  | list {t xs} : (∀ x ∈ xs, InhX ov acc g t x) → InhX ov acc g (.list t) (.arr xs)
  | dict {t kvs} : (∀ kv ∈ kvs, InhX ov acc g t kv.2) → InhX ov acc g (.dict t) (.obj kvs)
  | optNull {t} : InhX ov acc g (.opt t) .null
  | optSome {t v} : InhX ov acc g t v → InhX ov acc g (.opt t) v
  | union {ts t v} : t ∈ ts → InhX ov acc g t v → InhX ov acc g (.union ts) v
  | obj {fs kvs} :
      (∀ kv ∈ kvs, (Fields.get? fs kv.1).isSome = true) →
      (∀ kv ∈ kvs, ∀ t, Fields.get? fs kv.1 = some t → InhX ov acc g t kv.2) →
      (∀ ft ∈ fs, ft.2.isOpt = false → ∃ kv ∈ kvs, kv.1 = ft.1) →
      InhX ov acc g (.obj fs) (.obj kvs)
  | ptr {i fs kvs} : g i = some fs →
      (∀ kv ∈ kvs, (Fields.get? fs kv.1).isSome = true) →
      (∀ kv ∈ kvs, ∀ t, Fields.get? fs kv.1 = some t → InhX ov acc g t kv.2) →
      (∀ ft ∈ fs, ft.2.isOpt = false → ∃ kv ∈ kvs, kv.1 = ft.1) →
      InhX ov acc g (.ptr i) (.obj kvs)

/-- raw inhabitation: an overflowed literal stands for `str` -/
abbrev InhR := InhX true

theorem inhX_false_iff {acc g t v} : InhX false acc g t v ↔ Inh acc g t v := by
  constructor
  · intro h
    induction h with
    | int => exact Inh.int
    | floatF => exact Inh.floatF
    | floatI => exact Inh.floatI
    | bool => exact Inh.bool
    | str => exact Inh.str
    | null => exact Inh.null
    | ser h => exact Inh.ser h
    | lit h => exact Inh.lit h
    | litOv h => simp at h
    | list _ ih => exact Inh.list ih
    | dict _ ih => exact Inh.dict ih
    | optNull => exact Inh.optNull
    | optSome _ ih => exact Inh.optSome ih
    | union hm _ ih => exact Inh.union hm ih
    | obj a _ c ih => exact Inh.obj a ih c
    | ptr hg a _ c ih => exact Inh.ptr hg a ih c
  · intro h
    induction h with
    | int => exact InhX.int
    | floatF => exact InhX.floatF
    | floatI => exact InhX.floatI
    | bool => exact InhX.bool
    | str => exact InhX.str
    | null => exact InhX.null
    | ser h => exact InhX.ser h
    | lit h => exact InhX.lit h
    | list _ ih => exact InhX.list ih
    | dict _ ih => exact InhX.dict ih
    | optNull => exact InhX.optNull
    | optSome _ ih => exact InhX.optSome ih
    | union hm _ ih => exact InhX.union hm ih
    | obj a _ c ih => exact InhX.obj a ih c
    | ptr hg a _ c ih => exact InhX.ptr hg a ih c

/-- the strict relation is contained in the raw one -/
theorem InhX.relax {ov acc g t v} (h : InhX false acc g t v) : InhX ov acc g t v := by
  induction h with
  | int => exact InhX.int
  | floatF => exact InhX.floatF
  | floatI => exact InhX.floatI
  | bool => exact InhX.bool
  | str => exact InhX.str
  | null => exact InhX.null
  | ser h => exact InhX.ser h
  | lit h => exact InhX.lit h
  | litOv h => simp at h
  | list _ ih => exact InhX.list ih
  | dict _ ih => exact InhX.dict ih
  | optNull => exact InhX.optNull
  | optSome _ ih => exact InhX.optSome ih
  | union hm _ ih => exact InhX.union hm ih
  | obj a _ c ih => exact InhX.obj a ih c
  | ptr hg a _ c ih => exact InhX.ptr hg a ih c

/-! ### types without overflowed literals -/
mutual
def Ty.NoOv : Ty → Prop
  | .lit ov _ => ov = false
  | .list t | .dict t | .opt t => Ty.NoOv t
  | .union ts | .tuple ts => Ty.NoOvList ts
  | .obj fs => Ty.NoOvFields fs
  | _ => True
def Ty.NoOvList : List Ty → Prop
  | [] => True
  | t :: ts => Ty.NoOv t ∧ Ty.NoOvList ts
def Ty.NoOvFields : List (String × Ty) → Prop
  | [] => True
  | (_, t) :: fs => Ty.NoOv t ∧ Ty.NoOvFields fs
end

theorem Ty.noOvList_iff {ts : List Ty} : Ty.NoOvList ts ↔ ∀ t ∈ ts, Ty.NoOv t := by
  induction ts with
  | nil => simp [Ty.NoOvList]
  | cons t ts ih => simp [Ty.NoOvList, ih]

theorem Ty.noOvFields_iff {fs : List (String × Ty)} : Ty.NoOvFields fs ↔ ∀ f ∈ fs, Ty.NoOv f.2 := by
  induction fs with
  | nil => simp [Ty.NoOvFields]
  | cons f fs ih => obtain ⟨k, t⟩ := f; simp [Ty.NoOvFields, ih]

@[simp] theorem Ty.noOv_lit {o vs} : Ty.NoOv (.lit o vs) ↔ o = false := by simp [Ty.NoOv]
@[simp] theorem Ty.noOv_list {t} : Ty.NoOv (.list t) ↔ Ty.NoOv t := by simp [Ty.NoOv]
@[simp] theorem Ty.noOv_dict {t} : Ty.NoOv (.dict t) ↔ Ty.NoOv t := by simp [Ty.NoOv]
@[simp] theorem Ty.noOv_opt {t} : Ty.NoOv (.opt t) ↔ Ty.NoOv t := by simp [Ty.NoOv]
@[simp] theorem Ty.noOv_union {ts} : Ty.NoOv (.union ts) ↔ ∀ t ∈ ts, Ty.NoOv t := by
  simp [Ty.NoOv, Ty.noOvList_iff]
@[simp] theorem Ty.noOv_tuple {ts} : Ty.NoOv (.tuple ts) ↔ ∀ t ∈ ts, Ty.NoOv t := by
  simp [Ty.NoOv, Ty.noOvList_iff]
@[simp] theorem Ty.noOv_obj {fs} : Ty.NoOv (.obj fs) ↔ ∀ f ∈ fs, Ty.NoOv f.2 := by
  simp [Ty.NoOv, Ty.noOvFields_iff]
@[simp] theorem Ty.noOv_int : Ty.NoOv .int := by simp [Ty.NoOv]
@[simp] theorem Ty.noOv_float : Ty.NoOv .float := by simp [Ty.NoOv]
@[simp] theorem Ty.noOv_bool : Ty.NoOv .bool := by simp [Ty.NoOv]
@[simp] theorem Ty.noOv_str : Ty.NoOv .str := by simp [Ty.NoOv]
@[simp] theorem Ty.noOv_null : Ty.NoOv .null := by simp [Ty.NoOv]
@[simp] theorem Ty.noOv_unknown : Ty.NoOv .unknown := by simp [Ty.NoOv]
@[simp] theorem Ty.noOv_ser {k} : Ty.NoOv (.ser k) := by simp [Ty.NoOv]
@[simp] theorem Ty.noOv_ptr {i} : Ty.NoOv (.ptr i) := by simp [Ty.NoOv]

/-- "object `kvs` lies in field dict `fs`" for `InhX` -/
def InhFieldsX (ov : Bool) (acc : Accepts) (g : ModelLookup) (fs : Fields) (kvs : List (String × Json)) : Prop :=
  (∀ kv ∈ kvs, (Fields.get? fs kv.1).isSome = true) ∧
  (∀ kv ∈ kvs, ∀ t, Fields.get? fs kv.1 = some t → InhX ov acc g t kv.2) ∧
  (∀ ft ∈ fs, ft.2.isOpt = false → ∃ kv ∈ kvs, kv.1 = ft.1)

theorem inhFieldsX_false_iff {acc g fs kvs} : InhFieldsX false acc g fs kvs ↔ InhFields acc g fs kvs := by
  simp [InhFieldsX, InhFields, inhX_false_iff]

/-! ## Named hypotheses of the C01 theorems -/

/-- On the class `U`, equal hash strings mean the same inhabitants
    (a consequence of injectivity of `hashStr` on `U`, see `HashSoundOn.of_inj`). -/
def HashSoundOn (ov : Bool) (acc : Accepts) (g : ModelLookup) (U : Ty → Prop) : Prop :=
  ∀ a b, U a → U b → hashStr a = hashStr b → ∀ v, InhX ov acc g a v ↔ InhX ov acc g b v

theorem HashSoundOn.of_inj {ov acc g} {U : Ty → Prop}
    (h : ∀ a b, U a → U b → hashStr a = hashStr b → a = b) : HashSoundOn ov acc g U := by
  intro a b ha hb e v; rw [h a b ha hb e]

theorem HashSoundOn.mono {ov acc g} {U V : Ty → Prop} (h : HashSoundOn ov acc g V) (sub : ∀ t, U t → V t) :
    HashSoundOn ov acc g U := fun a b ha hb => h a b (sub a ha) (sub b hb)

/-- On the class `U`, Python `==` (as decided by `e.eq`) means the same inhabitants. -/
def EqSoundOn (ov : Bool) (acc : Accepts) (g : ModelLookup) (e : EqEnv) (U : Ty → Prop) : Prop :=
  ∀ a b, U a → U b → e.eq a b = .ok true → ∀ v, InhX ov acc g a v ↔ InhX ov acc g b v

/-- every `replaces` pair `(particular, general)` is a semantic inclusion of the parsers -/
def ReplacesSound (acc : Accepts) (reg : StrRegistry) : Prop :=
  ∀ a b, (a, b) ∈ reg.replaces → ∀ s, acc a s = some true → acc b s = some true

/-- the `replaces` relation has no cycles (witnessed by a rank function) -/
def ReplacesRanked (reg : StrRegistry) : Prop :=
  ∃ rank : String → Nat, ∀ p ∈ reg.replaces, rank p.1 < rank p.2

/-! ## `Fields` as association lists -/

@[simp] theorem Fields.get?_nilI {k} : Fields.get? [] k = none := rfl

theorem Fields.get?_consI {k' t fs k} :
    Fields.get? ((k', t) :: fs) k = if k' = k then some t else Fields.get? fs k := by
  unfold Fields.get?
  rw [List.find?_cons]
  by_cases h : k' = k
  · simp [h]
  · have : (k' == k) = false := by simpa using h
    simp [this, h]

theorem Fields.mem_of_get? {fs : Fields} {k t} (h : Fields.get? fs k = some t) : (k, t) ∈ fs := by
  induction fs with
  | nil => simp at h
  | cons f fs ih =>
    obtain ⟨k', t'⟩ := f
    rw [Fields.get?_consI] at h
    split at h
    · simp_all
    · simp [ih h]

theorem Fields.get?_of_mem {fs : Fields} {k t} (nd : (fs.map (·.1)).Nodup) (h : (k, t) ∈ fs) :
    Fields.get? fs k = some t := by
  induction fs with
  | nil => simp at h
  | cons f fs ih =>
    obtain ⟨k', t'⟩ := f
    rw [Fields.get?_consI]
    simp only [List.map_cons, List.nodup_cons, List.mem_map, not_exists, not_and] at nd
    rcases List.mem_cons.1 h with h | h
    · simp at h; simp [h.1, h.2]
    · have : ¬ k' = k := fun e => nd.1 (k, t) h (by simp [e])
      simp [this, ih nd.2 h]

theorem Fields.get?_isSome_iff {fs : Fields} {k} : (Fields.get? fs k).isSome = true ↔ k ∈ fs.map (·.1) := by
  induction fs with
  | nil => simp
  | cons f fs ih =>
    obtain ⟨k', t'⟩ := f
    rw [Fields.get?_consI]
    by_cases h : k' = k
    · simp [h]
    · simp only [h, if_false, ih, List.map_cons, List.mem_cons]
      constructor
      · exact Or.inr
      · rintro (e | e)
        · exact absurd e.symm h
        · exact e

theorem Fields.get?_eq_none_iff {fs : Fields} {k} : Fields.get? fs k = none ↔ k ∉ fs.map (·.1) := by
  rw [← Fields.get?_isSome_iff]; cases Fields.get? fs k <;> simp

theorem Fields.has_iffI {fs : Fields} {k} : Fields.has fs k = true ↔ k ∈ fs.map (·.1) := by
  simp [Fields.has]

theorem Fields.get?_set {fs : Fields} {k v k'} :
    Fields.get? (Fields.set fs k v) k' = if k = k' then some v else Fields.get? fs k' := by
  induction fs with
  | nil => simp [Fields.set, Fields.get?_consI]
  | cons f fs ih =>
    obtain ⟨k0, t0⟩ := f
    by_cases h : k0 = k
    · subst h
      simp only [Fields.set, beq_self_eq_true, if_true, Fields.get?_consI]
      by_cases h2 : k0 = k' <;> simp [h2]
    · have hb : (k0 == k) = false := by simpa using h
      simp only [Fields.set, hb, Bool.false_eq_true, if_false, Fields.get?_consI, ih]
      by_cases h2 : k0 = k'
      · subst h2
        have : ¬ k = k0 := fun e => h e.symm
        simp [this]
      · simp [h2]

theorem Fields.keys_set_mem {fs : Fields} {k v k'} :
    k' ∈ (Fields.set fs k v).map (·.1) ↔ k' = k ∨ k' ∈ fs.map (·.1) := by
  rw [← Fields.get?_isSome_iff, Fields.get?_set, ← Fields.get?_isSome_iff]
  by_cases h : k = k'
  · simp [h]
  · have : ¬ k' = k := fun e => h e.symm
    simp [h, this]

theorem Fields.nodup_set {fs : Fields} {k v} (nd : (fs.map (·.1)).Nodup) :
    ((Fields.set fs k v).map (·.1)).Nodup := by
  induction fs with
  | nil => simp [Fields.set]
  | cons f fs ih =>
    obtain ⟨k0, t0⟩ := f
    simp only [List.map_cons, List.nodup_cons] at nd
    by_cases h : k0 = k
    · subst h
      simp only [Fields.set, beq_self_eq_true, if_true, List.map_cons, List.nodup_cons]
      exact nd
    · have hb : (k0 == k) = false := by simpa using h
      simp only [Fields.set, hb, Bool.false_eq_true, if_false, List.map_cons, List.nodup_cons]
      refine ⟨?_, ih nd.2⟩
      intro hm
      rcases Fields.keys_set_mem.1 hm with e | e
      · exact h e
      · exact nd.1 e

/-- a key-preserving map acts on `get?` pointwise -/
theorem Fields.get?_map {fs : Fields} {f : String × Ty → String × Ty} (hf : ∀ kv, (f kv).1 = kv.1) {k} :
    Fields.get? (fs.map f) k = (Fields.get? fs k).map (fun t => (f (k, t)).2) := by
  induction fs with
  | nil => simp
  | cons x fs ih =>
    obtain ⟨k0, t0⟩ := x
    have e : f (k0, t0) = (k0, (f (k0, t0)).2) := by
      have := hf (k0, t0); cases h : f (k0, t0); simp_all
    rw [List.map_cons, e, Fields.get?_consI, Fields.get?_consI]
    by_cases h : k0 = k
    · subst h; simp
    · simp [h, ih]

theorem Fields.keys_map {fs : Fields} {f : String × Ty → String × Ty} (hf : ∀ kv, (f kv).1 = kv.1) :
    (fs.map f).map (·.1) = fs.map (·.1) := by
  simp [List.map_map, Function.comp_def, hf]

/-- on a type without overflowed literals the raw relation is the strict one -/
theorem InhX.strict {ov acc g t v} (hg : ∀ i fs, g i = some fs → ∀ f ∈ fs, Ty.NoOv f.2)
    (h : InhX ov acc g t v) (hn : Ty.NoOv t) : InhX false acc g t v := by
  induction h with
  | int => exact InhX.int
  | floatF => exact InhX.floatF
  | floatI => exact InhX.floatI
  | bool => exact InhX.bool
  | str => exact InhX.str
  | null => exact InhX.null
  | ser h => exact InhX.ser h
  | lit h => exact InhX.lit h
  | litOv h => simp at hn
  | list _ ih => exact InhX.list (fun x hx => ih x hx (by simpa using hn))
  | dict _ ih => exact InhX.dict (fun x hx => ih x hx (by simpa using hn))
  | optNull => exact InhX.optNull
  | optSome _ ih => exact InhX.optSome (ih (by simpa using hn))
  | union hm _ ih => exact InhX.union hm (ih (Ty.noOv_union.1 hn _ hm))
  | obj a _ c ih =>
    exact InhX.obj a (fun kv hkv t ht => ih kv hkv t ht (Ty.noOv_obj.1 hn _ (Fields.mem_of_get? ht))) c
  | ptr hgi a _ c ih =>
    exact InhX.ptr hgi a (fun kv hkv t ht => ih kv hkv t ht (hg _ _ hgi _ (Fields.mem_of_get? ht))) c

/-! ## `InhFieldsX` through `get?` only -/

/-- `InhFieldsX` phrased through `get?` only (equivalent when the keys of `fs` are distinct) -/
def InhF (ov : Bool) (acc : Accepts) (g : ModelLookup) (fs : Fields) (kvs : List (String × Json)) : Prop :=
  (∀ kv ∈ kvs, ∃ t, Fields.get? fs kv.1 = some t ∧ InhX ov acc g t kv.2) ∧
  (∀ k t, Fields.get? fs k = some t → t.isOpt = false → ∃ kv ∈ kvs, kv.1 = k)

theorem InhFieldsX.toInhF {ov acc g fs kvs} (h : InhFieldsX ov acc g fs kvs) : InhF ov acc g fs kvs := by
  obtain ⟨h1, h2, h3⟩ := h
  refine ⟨?_, ?_⟩
  · intro kv hkv
    have := h1 kv hkv
    cases hg : Fields.get? fs kv.1 with
    | none => simp [hg] at this
    | some t => exact ⟨t, rfl, h2 kv hkv t hg⟩
  · intro k t hg hno
    exact h3 (k, t) (Fields.mem_of_get? hg) hno

theorem InhF.toInhFields {ov acc g fs kvs} (nd : (fs.map (·.1)).Nodup) (h : InhF ov acc g fs kvs) :
    InhFieldsX ov acc g fs kvs := by
  obtain ⟨h1, h2⟩ := h
  refine ⟨?_, ?_, ?_⟩
  · intro kv hkv; obtain ⟨t, ht, _⟩ := h1 kv hkv; simp [ht]
  · intro kv hkv t ht; obtain ⟨t', ht', hi⟩ := h1 kv hkv
    rw [ht] at ht'; cases ht'; exact hi
  · intro ft hft hno
    exact h2 ft.1 ft.2 (Fields.get?_of_mem nd hft) hno

theorem inh_obj_iff {ov acc g fs kvs} : InhX ov acc g (.obj fs) (.obj kvs) ↔ InhFieldsX ov acc g fs kvs := by
  constructor
  · intro h; cases h with | obj a b c => exact ⟨a, b, c⟩
  · rintro ⟨a, b, c⟩; exact InhX.obj a b c

/-! ## Inversion lemmas for `Inh` -/

theorem inh_union_iff {ov acc g ts v} : InhX ov acc g (.union ts) v ↔ ∃ t ∈ ts, InhX ov acc g t v := by
  constructor
  · intro h; cases h with | union hm ht => exact ⟨_, hm, ht⟩
  · rintro ⟨t, hm, ht⟩; exact InhX.union hm ht

theorem inh_opt_iff {ov acc g t v} : InhX ov acc g (.opt t) v ↔ v = .null ∨ InhX ov acc g t v := by
  constructor
  · intro h; cases h with
    | optNull => exact Or.inl rfl
    | optSome hx => exact Or.inr hx
  · rintro (rfl | h)
    · exact InhX.optNull
    · exact InhX.optSome h

theorem not_inh_unknown {ov acc g v} : ¬ InhX ov acc g .unknown v := by intro h; cases h
theorem not_inh_tuple {ov acc g ts v} : ¬ InhX ov acc g (.tuple ts) v := by intro h; cases h
theorem not_inh_lit_true {acc g vs v} : ¬ InhX false acc g (.lit true vs) v := by
  intro h; cases h with | litOv h => simp at h

theorem inh_list_iff {ov acc g t v} :
    InhX ov acc g (.list t) v ↔ ∃ xs, v = .arr xs ∧ ∀ x ∈ xs, InhX ov acc g t x := by
  constructor
  · intro h; cases h with | list hx => exact ⟨_, rfl, hx⟩
  · rintro ⟨xs, rfl, h⟩; exact InhX.list h

theorem inh_dict_iff {ov acc g t v} :
    InhX ov acc g (.dict t) v ↔ ∃ kvs, v = .obj kvs ∧ ∀ kv ∈ kvs, InhX ov acc g t kv.2 := by
  constructor
  · intro h; cases h with | dict hx => exact ⟨_, rfl, hx⟩
  · rintro ⟨xs, rfl, h⟩; exact InhX.dict h

theorem inh_singleton_union {ov acc g t v} : InhX ov acc g (.union [t]) v ↔ InhX ov acc g t v := by
  simp [inh_union_iff]

/-- `[x] => x | us => .union us` (the "union of one member is that member" idiom) -/
def collapseU (us : List Ty) : Ty := match us with | [x] => x | us => .union us

theorem inh_collapse {ov acc g} {us : List Ty} {v} (h : InhX ov acc g (.union us) v) :
    InhX ov acc g (collapseU us) v := by
  unfold collapseU
  split
  · exact inh_singleton_union.1 h
  · exact h

end J2M
