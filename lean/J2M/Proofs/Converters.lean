/-
  Helper lemmas for C18: `stringFieldPath` characterisation, `processValue` on inhabitants of chain types,
  `stringFieldPaths` as a filter, `postInit` frame lemma.
-/
import J2M.Render
import J2M.Converters
namespace J2M.Conv

open J2M

/-! ## chains -/

/-- types built from `opt`/`list`/`dict` over exactly one `ser k` leaf -/
inductive Chain (k : String) : Ty → Prop
  | ser : Chain k (.ser k)
  | opt {t} : Chain k t → Chain k (.opt t)
  | list {t} : Chain k t → Chain k (.list t)
  | dict {t} : Chain k t → Chain k (.dict t)

theorem chain_iff_isChain {k t} : Chain k t ↔ isChain k t = true := by
  constructor
  · intro h
    induction h with
    | ser => simp [isChain, spineLeaf]
    | opt _ ih => simpa [isChain, spineLeaf] using ih
    | list _ ih => simpa [isChain, spineLeaf] using ih
    | dict _ ih => simpa [isChain, spineLeaf] using ih
  · fun_induction spineLeaf t with
    | case1 t ih => intro h; exact .opt (ih (by simpa [isChain, spineLeaf] using h))
    | case2 t ih => intro h; exact .list (ih (by simpa [isChain, spineLeaf] using h))
    | case3 t ih => intro h; exact .dict (ih (by simpa [isChain, spineLeaf] using h))
    | case4 t h1 h2 h3 =>
      intro h
      cases t <;> simp [isChain, spineLeaf] at h
      · subst h; exact .ser
      all_goals simp_all

instance {k t} : Decidable (Chain k t) := decidable_of_iff _ chain_iff_isChain.symm

theorem Chain.spineLeaf {k t} (h : Chain k t) : spineLeaf t = .ser k := by
  induction h <;> simp_all [J2M.spineLeaf]

theorem chain_of_spineLeaf {k t} (h : spineLeaf t = .ser k) : Chain k t := by
  rw [chain_iff_isChain]; simp [isChain, h]

theorem Chain.unique {k k' t} (h : Chain k t) (h' : Chain k' t) : k = k' := by
  have := h.spineLeaf; rw [h'.spineLeaf] at this; cases this; rfl

theorem Chain.pathOf_ne_nil {k t} (h : Chain k t) : pathOf t ≠ [] := by
  cases h <;> simp [pathOf]

/-- the spine has neither `tuple` nor a raw field dict below its wrappers -/
def NoTupleObj (t : Ty) : Prop :=
  match spineLeaf t with
  | .tuple _ | .obj _ => False
  | _ => True

instance {t} : Decidable (NoTupleObj t) := by unfold NoTupleObj; split <;> infer_instance

/-! ## `stringFieldPath` -/

/-- complete description of `stringFieldPath` by the leaf of the spine -/
theorem stringFieldPath_eq (t : Ty) :
    stringFieldPath t =
      match spineLeaf t with
      | .ser _ => .ok (some (pathOf t))
      | .tuple _ | .obj _ => .error .typeError
      | _ => .ok none := by
  fun_induction spineLeaf t with
  | case1 t ih =>
    simp only [stringFieldPath, pathOf, ih]
    split <;> rfl
  | case2 t ih =>
    simp only [stringFieldPath, pathOf, ih]
    split <;> rfl
  | case3 t ih =>
    simp only [stringFieldPath, pathOf, ih]
    split <;> rfl
  | case4 t h1 h2 h3 =>
    cases t <;> simp_all [stringFieldPath, pathOf] <;> rfl

theorem stringFieldPath_chain {k t} (h : Chain k t) : stringFieldPath t = .ok (some (pathOf t)) := by
  rw [stringFieldPath_eq, h.spineLeaf]

theorem stringFieldPath_none {t} (h1 : ∀ k, ¬ Chain k t) (h2 : NoTupleObj t) : stringFieldPath t = .ok none := by
  rw [stringFieldPath_eq]
  unfold NoTupleObj at h2
  split
  · rename_i k hk; exact absurd (chain_of_spineLeaf hk) (h1 k)
  · rename_i hk; simp [hk] at h2
  · rename_i hk; simp [hk] at h2
  · rfl

theorem stringFieldPath_error_iff {t e} :
    stringFieldPath t = .error e ↔ (¬ NoTupleObj t ∧ e = .typeError) := by
  rw [stringFieldPath_eq]; unfold NoTupleObj
  split <;> simp_all <;> exact eq_comm

theorem stringFieldPath_some_iff {t p} :
    stringFieldPath t = .ok (some p) ↔ (∃ k, Chain k t) ∧ p = pathOf t := by
  rw [stringFieldPath_eq]
  constructor
  · split
    · rename_i k hk; intro h; cases h; exact ⟨⟨k, chain_of_spineLeaf hk⟩, rfl⟩
    all_goals intro h; cases h
  · rintro ⟨⟨k, hk⟩, rfl⟩; rw [hk.spineLeaf]

/-! ## `mapLeaves` -/

theorem mapLeavesList_eq (k : String) (xs : List Json) : mapLeavesList k xs = xs.map (mapLeaves k) := by
  induction xs with
  | nil => rfl
  | cons x xs ih => simp [mapLeavesList, ih]

theorem mapLeavesKvs_eq (k : String) (kvs : List (String × Json)) :
    mapLeavesKvs k kvs = kvs.map (fun kv => (kv.1, mapLeaves k kv.2)) := by
  induction kvs with
  | nil => rfl
  | cons x xs ih => obtain ⟨a, b⟩ := x; simp [mapLeavesKvs, ih]

/-! ## `mapM` in `Except` when nothing fails -/

theorem mapM_ok {α β ε} (f : α → Except ε β) (g : α → β) (xs : List α) (h : ∀ x ∈ xs, f x = .ok (g x)) :
    xs.mapM f = .ok (xs.map g) := by
  induction xs with
  | nil => rfl
  | cons x xs ih =>
    rw [List.mapM_cons, h x (by simp), ih (fun y hy => h y (by simp [hy]))]
    rfl

/-! ## `Inh` inversion -/

theorem inh_ser {acc g k v} (h : Inh acc g (.ser k) v) : ∃ s, v = .str s ∧ acc k s = some true := by
  cases h with | ser h => exact ⟨_, rfl, h⟩

theorem inh_opt {acc g t v} (h : Inh acc g (.opt t) v) : v = .null ∨ Inh acc g t v := by
  cases h with
  | optNull => exact .inl rfl
  | optSome h => exact .inr h

theorem inh_list {acc g t v} (h : Inh acc g (.list t) v) : ∃ xs, v = .arr xs ∧ ∀ x ∈ xs, Inh acc g t x := by
  cases h with | list h => exact ⟨_, rfl, h⟩

theorem inh_dict {acc g t v} (h : Inh acc g (.dict t) v) :
    ∃ kvs, v = .obj kvs ∧ ∀ kv ∈ kvs, Inh acc g t kv.2 := by
  cases h with | dict h => exact ⟨_, rfl, h⟩

/-! ## `processValue` on inhabitants of a chain -/

theorem processValue_chain {acc g k t} (hc : Chain k t) :
    ∀ (v : Json) (optional : Bool), Inh acc g t v →
      processValue acc (pathOf t) v t optional = .ok (mapLeaves k v) := by
  induction hc with
  | ser =>
    intro v optional h
    obtain ⟨s, rfl, hs⟩ := inh_ser h
    simp [pathOf, processValue, hs, mapLeaves]
  | @opt t _ ih =>
    intro v optional h
    rcases inh_opt h with rfl | h
    · simp [pathOf, processValue, mapLeaves]
    · by_cases hv : v = .null
      · subst hv; simp [pathOf, processValue, mapLeaves]
      · have := ih v true h
        cases v <;> simp_all [pathOf, processValue]
  | @list t _ ih =>
    intro v optional h
    obtain ⟨xs, rfl, hxs⟩ := inh_list h
    simp only [pathOf, processValue]
    rw [mapM_ok _ (mapLeaves k) xs (fun x hx => ih x optional (hxs x hx))]
    simp [mapLeaves, mapLeavesList_eq, Except.map]
  | @dict t _ ih =>
    intro v optional h
    obtain ⟨kvs, rfl, hkvs⟩ := inh_dict h
    simp only [pathOf, processValue]
    rw [mapM_ok _ (fun kv => (kv.1, mapLeaves k kv.2)) kvs
      (fun kv hkv => by rw [ih kv.2 optional (hkvs kv hkv)]; rfl)]
    simp [mapLeaves, mapLeavesKvs_eq, Except.map]

end J2M.Conv
