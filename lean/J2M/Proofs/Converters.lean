/-
  Helper lemmas for C18: `stringFieldPath` characterisation, `processValue` on inhabitants of chain types,
  `stringFieldPaths` as a filter, `postInit` frame lemma.
-/
import J2M.Render
import J2M.Converters
import J2M.Proofs.Inh
namespace J2M.Conv

open J2M

/-! ## chains -/

/-- types built from `opt`/`list`/`dict` over exactly one `ser k` leaf -/
inductive Chain (k : String) : Ty → Prop
  | ser : Chain k (.ser k)
  | opt {t} : Chain k t → Chain k (.opt t)
  | list {t} : Chain k t → Chain k (.list t)
  | dict {t} : Chain k t → Chain k (.dict t)

theorem chain_iff_isChain {k t} : Chain k t ↔ isChain k t = true := by
  constructor
  · intro h
    induction h with
    | ser => simp [isChain, spineLeaf]
    | opt _ ih => simpa [isChain, spineLeaf] using ih
    | list _ ih => simpa [isChain, spineLeaf] using ih
    | dict _ ih => simpa [isChain, spineLeaf] using ih
  · fun_induction spineLeaf t with
    | case1 t ih => intro h; exact .opt (ih (by simpa [isChain, spineLeaf] using h))
    | case2 t ih => intro h; exact .list (ih (by simpa [isChain, spineLeaf] using h))
    | case3 t ih => intro h; exact .dict (ih (by simpa [isChain, spineLeaf] using h))
    | case4 t h1 h2 h3 =>
      intro h
      cases t <;> simp [isChain, spineLeaf] at h
      · subst h; exact .ser
      all_goals simp_all

instance {k t} : Decidable (Chain k t) := decidable_of_iff _ chain_iff_isChain.symm

theorem Chain.spineLeaf {k t} (h : Chain k t) : spineLeaf t = .ser k := by
  induction h <;> simp_all [J2M.spineLeaf]

theorem chain_of_spineLeaf {k t} (h : spineLeaf t = .ser k) : Chain k t := by
  rw [chain_iff_isChain]; simp [isChain, h]

theorem Chain.unique {k k' t} (h : Chain k t) (h' : Chain k' t) : k = k' := by
  have := h.spineLeaf; rw [h'.spineLeaf] at this; cases this; rfl

theorem Chain.pathOf_ne_nil {k t} (h : Chain k t) : pathOf t ≠ [] := by
  cases h <;> simp [pathOf]

/-- the spine has neither `tuple` nor a raw field dict below its wrappers -/
def NoTupleObj (t : Ty) : Prop :=
  match spineLeaf t with
  | .tuple _ | .obj _ => False
  | _ => True

instance {t} : Decidable (NoTupleObj t) := by unfold NoTupleObj; split <;> infer_instance

/-! ## `stringFieldPath` -/

/-- complete description of `stringFieldPath` by the leaf of the spine -/
theorem stringFieldPath_eq (t : Ty) :
    stringFieldPath t =
      match spineLeaf t with
      | .ser _ => .ok (some (pathOf t))
      | .tuple _ | .obj _ => .error .typeError
      | _ => .ok none := by
  fun_induction spineLeaf t with
  | case1 t ih =>
    simp only [stringFieldPath, pathOf, ih]
    split <;> rfl
  | case2 t ih =>
    simp only [stringFieldPath, pathOf, ih]
    split <;> rfl
  | case3 t ih =>
    simp only [stringFieldPath, pathOf, ih]
    split <;> rfl
  | case4 t h1 h2 h3 =>
    cases t <;> simp_all [stringFieldPath, pathOf] <;> rfl

theorem stringFieldPath_chain {k t} (h : Chain k t) : stringFieldPath t = .ok (some (pathOf t)) := by
  rw [stringFieldPath_eq, h.spineLeaf]

theorem stringFieldPath_none {t} (h1 : ∀ k, ¬ Chain k t) (h2 : NoTupleObj t) : stringFieldPath t = .ok none := by
  rw [stringFieldPath_eq]
  unfold NoTupleObj at h2
  split
  · rename_i k hk; exact absurd (chain_of_spineLeaf hk) (h1 k)
  · rename_i hk; simp [hk] at h2
  · rename_i hk; simp [hk] at h2
  · rfl

theorem stringFieldPath_error_iff {t e} :
    stringFieldPath t = .error e ↔ (¬ NoTupleObj t ∧ e = .typeError) := by
  rw [stringFieldPath_eq]; unfold NoTupleObj
  split <;> simp_all <;> exact eq_comm

theorem stringFieldPath_some_iff {t p} :
    stringFieldPath t = .ok (some p) ↔ (∃ k, Chain k t) ∧ p = pathOf t := by
  rw [stringFieldPath_eq]
  constructor
  · split
    · rename_i k hk; intro h; cases h; exact ⟨⟨k, chain_of_spineLeaf hk⟩, rfl⟩
    all_goals intro h; cases h
  · rintro ⟨⟨k, hk⟩, rfl⟩; rw [hk.spineLeaf]

/-! ## `mapLeaves` -/

theorem mapLeavesList_eq (k : String) (xs : List Json) : mapLeavesList k xs = xs.map (mapLeaves k) := by
  induction xs with
  | nil => rfl
  | cons x xs ih => simp [mapLeavesList, ih]

theorem mapLeavesKvs_eq (k : String) (kvs : List (String × Json)) :
    mapLeavesKvs k kvs = kvs.map (fun kv => (kv.1, mapLeaves k kv.2)) := by
  induction kvs with
  | nil => rfl
  | cons x xs ih => obtain ⟨a, b⟩ := x; simp [mapLeavesKvs, ih]

/-! ## `mapM` in `Except` when nothing fails -/

theorem mapM_ok {α β ε} (f : α → Except ε β) (g : α → β) (xs : List α) (h : ∀ x ∈ xs, f x = .ok (g x)) :
    xs.mapM f = .ok (xs.map g) := by
  induction xs with
  | nil => rfl
  | cons x xs ih =>
    rw [List.mapM_cons, h x (by simp), ih (fun y hy => h y (by simp [hy]))]
    rfl

/-! ## `Inh` inversion -/

theorem inh_ser {acc g k v} (h : Inh acc g (.ser k) v) : ∃ s, v = .str s ∧ acc k s = some true := by
  cases h with | ser h => exact ⟨_, rfl, h⟩

theorem inh_opt {acc g t v} (h : Inh acc g (.opt t) v) : v = .null ∨ Inh acc g t v := by
  cases h with
  | optNull => exact .inl rfl
  | optSome h => exact .inr h

theorem inh_list {acc g t v} (h : Inh acc g (.list t) v) : ∃ xs, v = .arr xs ∧ ∀ x ∈ xs, Inh acc g t x := by
  cases h with | list h => exact ⟨_, rfl, h⟩

theorem inh_dict {acc g t v} (h : Inh acc g (.dict t) v) :
    ∃ kvs, v = .obj kvs ∧ ∀ kv ∈ kvs, Inh acc g t kv.2 := by
  cases h with | dict h => exact ⟨_, rfl, h⟩

/-! ## `processValue` on inhabitants of a chain -/

theorem processValue_chain {acc g k t} (hc : Chain k t) :
    ∀ (v : Json) (optional : Bool), Inh acc g t v →
      processValue acc (pathOf t) v t optional = .ok (mapLeaves k v) := by
  induction hc with
  | ser =>
    intro v optional h
    obtain ⟨s, rfl, hs⟩ := inh_ser h
    simp [pathOf, processValue, hs, mapLeaves]
  | @opt t _ ih =>
    intro v optional h
    rcases inh_opt h with rfl | h
    · simp [pathOf, processValue, mapLeaves]
    · by_cases hv : v = .null
      · subst hv; simp [pathOf, processValue, mapLeaves]
      · have := ih v true h
        cases v <;> simp_all [pathOf, processValue]
  | @list t _ ih =>
    intro v optional h
    obtain ⟨xs, rfl, hxs⟩ := inh_list h
    simp only [pathOf, processValue]
    rw [mapM_ok _ (mapLeaves k) xs (fun x hx => ih x optional (hxs x hx))]
    simp [mapLeaves, mapLeavesList_eq, Except.map]
  | @dict t _ ih =>
    intro v optional h
    obtain ⟨kvs, rfl, hkvs⟩ := inh_dict h
    simp only [pathOf, processValue]
    rw [mapM_ok _ (fun kv => (kv.1, mapLeaves k kv.2)) kvs
      (fun kv hkv => by rw [ih kv.2 optional (hkvs kv hkv)]; rfl)]
    simp [mapLeaves, mapLeavesKvs_eq, Except.map]

/-! ## `stringFieldPaths` -/

/-- the kind at the leaf of a chain -/
def chainKind? (t : Ty) : Option String :=
  match spineLeaf t with
  | .ser k => some k
  | _ => none

theorem chainKind?_eq_some {t k} : chainKind? t = some k ↔ Chain k t := by
  unfold chainKind?
  constructor
  · intro h
    split at h
    · rename_i k' hk; cases h; exact chain_of_spineLeaf hk
    · cases h
  · intro h; rw [h.spineLeaf]

theorem chainKind?_eq_none {t} : chainKind? t = none ↔ ∀ k, ¬ Chain k t := by
  constructor
  · intro h k hk; rw [chainKind?_eq_some.2 hk] at h; cases h
  · intro h
    cases hc : chainKind? t with
    | none => rfl
    | some k => exact absurd (chainKind?_eq_some.1 hc) (h k)

/-- the dotted path text of the decorator entry: empty for a bare pseudo-type -/
def pathStr (t : Ty) : String := if pathOf t = ["S"] then "" else ".".intercalate (pathOf t)

/-- what one field contributes to `get_string_field_paths` -/
def fieldEntry (kv : String × Ty) : Option (String × String) :=
  (chainKind? kv.2).map (fun _ => (kv.1, pathStr kv.2))

theorem stringFieldPaths_step (kv : String × Ty) (h : NoTupleObj kv.2) :
    (do match ← stringFieldPath kv.2 with
        | some ["S"] => pure (some (kv.1, ""))
        | some p => pure (some (kv.1, ".".intercalate p))
        | none => pure none : Except PyErr (Option (String × String))) = .ok (fieldEntry kv) := by
  unfold fieldEntry
  cases hc : chainKind? kv.2 with
  | none =>
    rw [stringFieldPath_none (chainKind?_eq_none.1 hc) h]; rfl
  | some k =>
    rw [stringFieldPath_chain (chainKind?_eq_some.1 hc)]
    simp only [bind, Except.bind, Option.map_some, pathStr]
    by_cases hp : pathOf kv.2 = ["S"]
    · rw [hp]; rfl
    · simp only [hp, if_false]
      rfl

theorem stringFieldPaths_eq (fields : Fields) (h : ∀ f ∈ fields, NoTupleObj f.2) :
    stringFieldPaths fields = .ok (fields.filterMap fieldEntry) := by
  unfold stringFieldPaths
  rw [mapM_ok (g := fieldEntry)]
  · simp [bind, Except.bind, pure, Except.pure, List.filterMap_map]
  · intro kv hkv; exact stringFieldPaths_step kv (h kv hkv)

theorem mapM_ok_imp {α β ε} (f : α → Except ε β) :
    ∀ (xs : List α) (ys : List β), xs.mapM f = .ok ys → ∀ x ∈ xs, ∃ y, f x = .ok y
  | [], _, _ => by simp
  | x :: xs, ys, h => by
    rw [List.mapM_cons] at h
    cases hx : f x with
    | error e => rw [hx] at h; cases h
    | ok y =>
      cases hxs : xs.mapM f with
      | error e => rw [hx, hxs] at h; cases h
      | ok ys' =>
        intro x' hx'
        rcases List.mem_cons.1 hx' with rfl | hx'
        · exact ⟨y, hx⟩
        · exact mapM_ok_imp f xs ys' hxs x' hx'

theorem mapM_error_imp {α β ε} (f : α → Except ε β) :
    ∀ (xs : List α) (e : ε), xs.mapM f = .error e → ∃ x ∈ xs, f x = .error e
  | [], e, h => by cases h
  | x :: xs, e, h => by
    rw [List.mapM_cons] at h
    cases hx : f x with
    | error e' => rw [hx] at h; cases h; exact ⟨x, by simp, hx⟩
    | ok y =>
      cases hxs : xs.mapM f with
      | error e' =>
        rw [hx, hxs] at h; cases h
        obtain ⟨x', hx', he⟩ := mapM_error_imp f xs e hxs
        exact ⟨x', by simp [hx'], he⟩
      | ok ys' => rw [hx, hxs] at h; cases h

/-- the walk succeeds exactly when no field has a `tuple` / raw-dict leaf, and otherwise raises `TypeError` -/
theorem stringFieldPaths_ok_iff (fields : Fields) :
    (∃ ps, stringFieldPaths fields = .ok ps) ↔ ∀ f ∈ fields, NoTupleObj f.2 := by
  constructor
  · rintro ⟨ps, h⟩ f hf
    unfold stringFieldPaths at h
    simp only [bind, Except.bind] at h
    split at h
    · cases h
    · rename_i r hr
      obtain ⟨y, hy⟩ := mapM_ok_imp _ _ _ hr f hf
      by_cases hn : NoTupleObj f.2
      · exact hn
      · have := (stringFieldPath_error_iff (t := f.2) (e := .typeError)).2 ⟨hn, rfl⟩
        simp [this] at hy
  · intro h; exact ⟨_, stringFieldPaths_eq fields h⟩

theorem stringFieldPaths_error (fields : Fields) (e : PyErr) (h : stringFieldPaths fields = .error e) :
    e = .typeError ∧ ∃ f ∈ fields, ¬ NoTupleObj f.2 := by
  unfold stringFieldPaths at h
  simp only [bind, Except.bind] at h
  split at h
  · rename_i e' hr
    cases h
    obtain ⟨f, hf, he⟩ := mapM_error_imp _ _ _ hr
    cases hs : stringFieldPath f.2 with
    | error e2 =>
      have := stringFieldPath_error_iff.1 hs
      simp [hs] at he
      exact ⟨by rw [← he, this.2], f, hf, this.1⟩
    | ok r =>
      exfalso
      simp only [hs] at he
      split at he <;> cases he
  · cases h

/-- the entries: exactly the fields whose type is a chain, in field order, each with its path -/
theorem mem_stringFieldPaths {fields : Fields} {ps : List (String × String)} (h : stringFieldPaths fields = .ok ps)
    (name p : String) :
    (name, p) ∈ ps ↔ ∃ t k, (name, t) ∈ fields ∧ Chain k t ∧ p = pathStr t := by
  have hn := (stringFieldPaths_ok_iff fields).1 ⟨ps, h⟩
  rw [stringFieldPaths_eq fields hn] at h
  cases h
  simp only [List.mem_filterMap, fieldEntry, Option.map_eq_some_iff]
  constructor
  · rintro ⟨⟨n, t⟩, hm, k, hk, heq⟩
    cases heq
    exact ⟨t, k, hm, chainKind?_eq_some.1 hk, rfl⟩
  · rintro ⟨t, k, hm, hk, rfl⟩
    exact ⟨(name, t), hm, k, chainKind?_eq_some.2 hk, rfl⟩

/-! ## `postInit` touches only the listed names -/

theorem find?_setAttr_ne (self : List (String × PVal)) (name name' : String) (v : PVal) (hne : name' ≠ name) :
    (setAttr self name v).find? (·.1 = name') = self.find? (·.1 = name') := by
  induction self with
  | nil => rfl
  | cons p self ih =>
    unfold setAttr at ih ⊢
    simp only [List.map_cons, List.find?_cons]
    by_cases hp : p.1 = name
    · simp [hp, Ne.symm hne, ih]
    · simp only [hp, if_false]
      split <;> simp_all

theorem keys_setAttr (self : List (String × PVal)) (name : String) (v : PVal) :
    (setAttr self name v).map (·.1) = self.map (·.1) := by
  induction self with
  | nil => rfl
  | cons p self ih =>
    unfold setAttr at ih ⊢
    simp only [List.map_cons, ih]
    by_cases hp : p.1 = name <;> simp [hp]

theorem postInit_frame (acc : Accepts) (ann : Fields) :
    ∀ (ps : List (String × List String)) (self self' : List (String × PVal)),
      postInit acc ann ps self = .ok self' →
      self'.map (·.1) = self.map (·.1) ∧
      ∀ name, name ∉ ps.map (·.1) → self'.find? (·.1 = name) = self.find? (·.1 = name)
  | [], self, self', h => by simp [postInit] at h; subst h; simp
  | (n, path) :: rest, self, self', h => by
    simp only [postInit] at h
    split at h
    · rename_i j t hj ht
      split at h
      · rename_i nv hnv
        obtain ⟨hk, hf⟩ := postInit_frame acc ann rest _ _ h
        refine ⟨by rw [hk, keys_setAttr], fun name hname => ?_⟩
        simp only [List.map_cons, List.mem_cons, not_or] at hname
        rw [hf name hname.2, find?_setAttr_ne _ _ _ _ hname.1]
      · cases h
    · cases h
    · cases h

/-! ## the dotted path text splits back into the tokens -/

theorem splitDotsGo_tok (tok rest cur : List Char) (h : '.' ∉ tok) :
    splitDotsGo (tok ++ rest) cur = splitDotsGo rest (tok.reverse ++ cur) := by
  induction tok generalizing cur with
  | nil => rfl
  | cons c tok ih =>
    have hc : c ≠ '.' := fun e => h (by simp [e])
    have ht : '.' ∉ tok := fun e => h (by simp [e])
    simp only [List.cons_append, splitDotsGo, hc, if_false, ih _ ht]
    simp

theorem splitDotsGo_intercalate (toks : List (List Char)) (hne : toks ≠ []) (h : ∀ tok ∈ toks, '.' ∉ tok) :
    splitDotsGo (['.'].intercalate toks) [] = toks.map String.ofList := by
  induction toks with
  | nil => exact absurd rfl hne
  | cons a l ih =>
    cases l with
    | nil =>
      have := splitDotsGo_tok a [] [] (h a (by simp))
      simp only [List.append_nil] at this
      simp [List.intercalate, this, splitDotsGo]
    | cons b l =>
      have e : ['.'].intercalate (a :: b :: l) = a ++ ('.' :: ['.'].intercalate (b :: l)) := by
        simp [List.intercalate]
      rw [e, splitDotsGo_tok a _ [] (h a (by simp))]
      simp only [splitDotsGo, if_true, List.append_nil, List.reverse_reverse]
      rw [ih (by simp) (fun tok ht => h tok (by simp [ht]))]
      simp

theorem pathOf_tokens {k t} (hc : Chain k t) : ∀ tok ∈ pathOf t, '.' ∉ tok.toList ∧ tok ≠ "" := by
  induction hc with
  | ser => intro tok h; simp [pathOf] at h; subst h; decide
  | opt _ ih => intro tok h; simp [pathOf] at h; rcases h with rfl | h; · decide
                exact ih tok h
  | list _ ih => intro tok h; simp [pathOf] at h; rcases h with rfl | h; · decide
                 exact ih tok h
  | dict _ ih => intro tok h; simp [pathOf] at h; rcases h with rfl | h; · decide
                 exact ih tok h

/-- the decorator entry of a chain field spells its path: splitting the text at `.` (or taking `["S"]` for the
    empty text) gives back `pathOf t` -/
theorem splitPathStr_pathStr {k t} (hc : Chain k t) : splitPathStr (pathStr t) = pathOf t := by
  unfold pathStr
  by_cases hp : pathOf t = ["S"]
  · simp [hp, splitPathStr]
  · simp only [hp, if_false]
    have hne := hc.pathOf_ne_nil
    have htok := pathOf_tokens hc
    have hl : (".".intercalate (pathOf t)).toList = ['.'].intercalate ((pathOf t).map String.toList) := by
      rw [String.toList_intercalate]; rfl
    have hnonempty : (".".intercalate (pathOf t)).isEmpty = false := by
      rw [String.isEmpty_eq_false_iff, Ne, ← String.toList_eq_nil_iff, hl]
      cases hpt : pathOf t with
      | nil => exact absurd hpt hne
      | cons a l =>
        have ha : a.toList ≠ [] := by
          rw [Ne, String.toList_eq_nil_iff]; exact (htok a (by simp [hpt])).2
        cases l with
        | nil => simpa [List.intercalate] using ha
        | cons b l => simp [List.intercalate, ha]
    unfold splitPathStr
    rw [hnonempty, hl]
    simp only [Bool.false_eq_true, if_false]
    rw [splitDotsGo_intercalate _ (by simpa using hne)
      (by intro tok ht; simp only [List.mem_map] at ht; obtain ⟨s, hs, rfl⟩ := ht; exact (htok s hs).1)]
    simp [List.map_map, Function.comp_def]

/-! ## the whole post-init on an instance built from a sample -/

/-- the converted value of one attribute: `mapLeaves` under the kind of its chain type, untouched otherwise -/
def convAttr (fields : Fields) (kv : String × Json) : PVal :=
  match (Fields.get? fields kv.1).bind chainKind? with
  | some k => mapLeaves k kv.2
  | none => .raw kv.2

/-- instance state after the names in `D` were converted -/
def stAttr (fields : Fields) (D : List String) (kv : String × Json) : String × PVal :=
  (kv.1, if kv.1 ∈ D then convAttr fields kv else .raw kv.2)

/-- the decorator's entries with their paths as token lists -/
def tokenPaths (fields : Fields) : List (String × List String) :=
  fields.filterMap (fun f => (chainKind? f.2).map (fun _ => (f.1, pathOf f.2)))

def GoodEntry (fields : Fields) (e : String × List String) : Prop :=
  ∃ t k, Fields.get? fields e.1 = some t ∧ Chain k t ∧ e.2 = pathOf t

theorem find?_map_key {α β} (f : String × α → String × β) (hf : ∀ kv, (f kv).1 = kv.1) (n : String)
    (xs : List (String × α)) :
    (xs.map f).find? (·.1 = n) = (xs.find? (·.1 = n)).map f := by
  induction xs with
  | nil => rfl
  | cons x xs ih =>
    simp only [List.map_cons, List.find?_cons, hf]
    split <;> simp [ih]

theorem key_unique {α} {xs : List (String × α)} (nd : (xs.map (·.1)).Nodup) {a b : String × α}
    (ha : a ∈ xs) (hb : b ∈ xs) (h : a.1 = b.1) : a = b := by
  induction xs with
  | nil => cases ha
  | cons x xs ih =>
    simp only [List.map_cons, List.nodup_cons, List.mem_map, not_exists, not_and] at nd
    rcases List.mem_cons.1 ha with rfl | ha' <;> rcases List.mem_cons.1 hb with rfl | hb'
    · rfl
    · exact absurd h.symm (nd.1 b hb')
    · exact absurd h (nd.1 a ha')
    · exact ih nd.2 ha' hb'

theorem postInit_go (acc : Accepts) (g : ModelLookup) (fields : Fields) (attrs : List (String × Json))
    (hnda : (attrs.map (·.1)).Nodup)
    (hinh : ∀ kv ∈ attrs, ∀ t, Fields.get? fields kv.1 = some t → Inh acc g t kv.2) :
    ∀ (ps : List (String × List String)) (D : List String),
      (∀ e ∈ ps, GoodEntry fields e ∧ e.1 ∈ attrs.map (·.1)) → (ps.map (·.1)).Nodup → (∀ e ∈ ps, e.1 ∉ D) →
      postInit acc fields ps (attrs.map (stAttr fields D))
        = .ok (attrs.map (stAttr fields (D ++ ps.map (·.1))))
  | [], D, _, _, _ => by simp [postInit]
  | (n, p) :: rest, D, hgood, hnd, hD => by
    obtain ⟨⟨t, k, hget, hc, hp⟩, hmem⟩ := hgood (n, p) (by simp)
    simp only at hget hp hmem
    subst hp
    -- the attribute exists
    have hsome : (attrs.find? (·.1 = n)).isSome = true := by
      rw [List.find?_isSome]
      obtain ⟨kv, hkv, hk⟩ := List.mem_map.1 hmem
      exact ⟨kv, hkv, by simpa using hk⟩
    obtain ⟨kv, hfind⟩ := Option.isSome_iff_exists.1 hsome
    have hkv_mem : kv ∈ attrs := List.mem_of_find?_eq_some hfind
    have hkv_key : kv.1 = n := by simpa using List.find?_some hfind
    have hnD : n ∉ D := hD (n, pathOf t) (by simp)
    have hval := processValue_chain (acc := acc) (g := g) hc kv.2 false (hinh kv hkv_mem t (hkv_key ▸ hget))
    have hlook : ((attrs.map (stAttr fields D)).find? (·.1 = n)).map (·.2) = some (.raw kv.2) := by
      rw [find?_map_key (stAttr fields D) (fun _ => rfl), hfind]
      simp [stAttr, hkv_key, hnD]
    -- the write
    have hset : setAttr (attrs.map (stAttr fields D)) n (mapLeaves k kv.2) = attrs.map (stAttr fields (D ++ [n])) := by
      unfold setAttr
      rw [List.map_map]
      apply List.map_congr_left
      intro kv' hkv'
      simp only [Function.comp, stAttr]
      by_cases hk' : kv'.1 = n
      · have : kv' = kv := key_unique hnda hkv' hkv_mem (hk'.trans hkv_key.symm)
        subst this
        have hck : chainKind? t = some k := chainKind?_eq_some.2 hc
        simp [hk', convAttr, hget, hck]
      · have : (kv'.1 ∈ D ++ [n]) ↔ kv'.1 ∈ D := by simp [hk']
        simp [hk', this]
    simp only [postInit, hlook, hget, hval, hset]
    have ih := postInit_go acc g fields attrs hnda hinh rest (D ++ [n])
      (fun e he => hgood e (by simp [he]))
      (by simp only [List.map_cons, List.nodup_cons] at hnd; exact hnd.2)
      (by
        intro e he hm
        simp only [List.map_cons, List.nodup_cons, List.mem_map, not_exists, not_and] at hnd
        rcases List.mem_append.1 hm with hm | hm
        · exact hD e (by simp [he]) hm
        · simp at hm; exact hnd.1 e he hm)
    rw [ih]
    simp [List.append_assoc]

theorem tokenPaths_mem {fields : Fields} {e : String × List String} (h : e ∈ tokenPaths fields) :
    ∃ f ∈ fields, ∃ k, Chain k f.2 ∧ e = (f.1, pathOf f.2) := by
  simp only [tokenPaths, List.mem_filterMap, Option.map_eq_some_iff] at h
  obtain ⟨f, hf, k, hk, rfl⟩ := h
  exact ⟨f, hf, k, chainKind?_eq_some.1 hk, rfl⟩

theorem tokenPaths_keys_sub (fields : Fields) : ∀ n ∈ (tokenPaths fields).map (·.1), n ∈ fields.map (·.1) := by
  intro n hn
  obtain ⟨e, he, rfl⟩ := List.mem_map.1 hn
  obtain ⟨f, hf, k, _, rfl⟩ := tokenPaths_mem he
  exact List.mem_map.2 ⟨f, hf, rfl⟩

theorem tokenPaths_nodup : ∀ (fields : Fields), (fields.map (·.1)).Nodup → ((tokenPaths fields).map (·.1)).Nodup
  | [], _ => by simp [tokenPaths]
  | f :: fs, h => by
    simp only [List.map_cons, List.nodup_cons] at h
    have ih := tokenPaths_nodup fs h.2
    unfold tokenPaths at ih ⊢
    rw [List.filterMap_cons]
    cases hk : chainKind? f.2 with
    | none => simpa [hk] using ih
    | some k =>
      simp only [Option.map_some, List.map_cons, List.nodup_cons]
      exact ⟨fun hm => h.1 (tokenPaths_keys_sub fs _ hm), ih⟩

/-- the text entries of the decorator, split as `post_init_converters` splits them, are the token paths -/
theorem decoratorPaths_eq (fields : Fields) :
    (fields.filterMap fieldEntry).map (fun p => (p.1, splitPathStr p.2)) = tokenPaths fields := by
  induction fields with
  | nil => rfl
  | cons f fs ih =>
    unfold tokenPaths at ih ⊢
    rw [List.filterMap_cons, List.filterMap_cons]
    unfold fieldEntry at ih ⊢
    cases hk : chainKind? f.2 with
    | none => simpa [hk] using ih
    | some k => simp [splitPathStr_pathStr (chainKind?_eq_some.1 hk), ih]

theorem postInit_correct (acc : Accepts) (g : ModelLookup) (fields : Fields) (attrs : List (String × Json))
    (hndf : (fields.map (·.1)).Nodup) (hnda : (attrs.map (·.1)).Nodup)
    (hcover : ∀ f ∈ fields, (∃ k, Chain k f.2) → f.1 ∈ attrs.map (·.1))
    (hinh : ∀ kv ∈ attrs, ∀ t, Fields.get? fields kv.1 = some t → Inh acc g t kv.2) :
    postInit acc fields (tokenPaths fields) (attrs.map (fun kv => (kv.1, .raw kv.2)))
      = .ok (attrs.map (fun kv => (kv.1, convAttr fields kv))) := by
  have h0 : attrs.map (fun kv => (kv.1, PVal.raw kv.2)) = attrs.map (stAttr fields []) := by
    apply List.map_congr_left; intro kv _; simp [stAttr]
  rw [h0, postInit_go acc g fields attrs hnda hinh (tokenPaths fields) []
    (by
      intro e he
      obtain ⟨f, hf, k, hc, rfl⟩ := tokenPaths_mem he
      exact ⟨⟨f.2, k, Fields.get?_of_mem hndf hf, hc, rfl⟩, hcover f hf ⟨k, hc⟩⟩)
    (tokenPaths_nodup fields hndf) (by simp)]
  congr 1
  apply List.map_congr_left
  intro kv _
  simp only [stAttr, List.nil_append]
  by_cases hm : kv.1 ∈ (tokenPaths fields).map (·.1)
  · simp [hm]
  · simp only [hm, if_false]
    -- not listed: no chain type under that key
    unfold convAttr
    cases hg : Fields.get? fields kv.1 with
    | none => rfl
    | some t =>
      cases hk : chainKind? t with
      | none => simp [hk]
      | some k =>
        exfalso; apply hm
        refine List.mem_map.2 ⟨(kv.1, pathOf t), ?_, rfl⟩
        simp only [tokenPaths, List.mem_filterMap, Option.map_eq_some_iff]
        exact ⟨(kv.1, t), Fields.mem_of_get? hg, k, hk, rfl⟩

end J2M.Conv
