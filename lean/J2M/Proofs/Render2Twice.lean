/-
  `generateCode` on a registry whose class names were already converted by an earlier rendering.
-/
import J2M.Proofs.Render2Level
namespace J2M.Rend2

/-! ## 11. `generateCode` in terms of `renderLevel` / `renderGens` -/

/-- the module text from the collected imports and the rendered top-level classes -/
def finishText (preamble : Option String) (imps1 : List Imp) (rs : List (List Imp × String)) : String :=
  let imps := imps1 ++ rs.flatMap (·.1)
  let delim := "\n\n\n"
  let importsStr := if imps.isEmpty then "" else compileImports imps ++ delim
  let importsStr := match preamble with
    | some p => if p.isEmpty then importsStr else importsStr ++ p ++ delim
    | none => importsStr
  importsStr ++ delim.intercalate (rs.map (·.2)) ++ "\n"

/-- the name map a rendering starts from: the names recorded in the registry -/
def names0 (g : Graph) : NameMap := g.models.map (fun m => (m.idx, m.name))

theorem generateCode_eq (c : RenderCfg) (o : RenderOracles) (g : Graph) (roots : List Node) (inj : List (String × String))
    (pre : Option String) :
    generateCode c o g roots inj pre =
      (renderLevel c o g inj (g.models.length + 2) (names0 g) roots >>= fun r =>
        renderGens c o g inj r.1 r.2.2 >>= fun rs => pure (finishText pre r.2.1 rs, r.1)) := by
  unfold generateCode
  rfl

theorem generateCode_ok {c : RenderCfg} {o : RenderOracles} {g : Graph} {roots : List Node} {inj : List (String × String)}
    {pre : Option String} {text : String} {F : NameMap} :
    generateCode c o g roots inj pre = .ok (text, F) ↔
      ∃ imps1 gens rs, renderLevel c o g inj (g.models.length + 2) (names0 g) roots = .ok (F, imps1, gens) ∧
        renderGens c o g inj F gens = .ok rs ∧ text = finishText pre imps1 rs := by
  rw [generateCode_eq]
  simp only [bind_eq_ok]
  constructor
  · rintro ⟨⟨N, imps1, gens⟩, h1, rs, h2, h3⟩
    simp only [pure, Except.pure] at h3
    injection h3 with h3; injection h3 with h3 h4
    subst h4
    exact ⟨imps1, gens, rs, h1, h2, h3.symm⟩
  · rintro ⟨imps1, gens, rs, h1, h2, h3⟩
    exact ⟨(F, imps1, gens), h1, rs, h2, by subst h3; rfl⟩

/-! ## 12. graphs that differ only in the recorded names -/

/-- `SameShape g' g`: the same indices and fields (the recorded names may differ) -/
def SameShape (g' g : Graph) : Prop :=
  g'.models.length = g.models.length ∧
  ∀ (i : String) (X : Option String),
    ({ (g'.find? i).getD default with name := X } : Model) = { (g.find? i).getD default with name := X }

theorem renderGens_shape (c : RenderCfg) (o : RenderOracles) {g' g : Graph} (h : SameShape g' g)
    (inj : List (String × String)) (names : NameMap) (gens : List (String × List String)) :
    renderGens c o g' inj names gens = renderGens c o g inj names gens := by
  unfold renderGens modelAt
  simp only [h.2]

theorem renderLevel_shape (c : RenderCfg) (o : RenderOracles) {g' g : Graph} (h : SameShape g' g)
    (inj : List (String × String)) :
    ∀ (fuel : Nat) (names : NameMap) (nodes : List Node),
      renderLevel c o g' inj fuel names nodes = renderLevel c o g inj fuel names nodes := by
  intro fuel
  induction fuel with
  | zero => intro names nodes; simp [renderLevel]
  | succ fuel ih =>
    intro names nodes
    cases nodes with
    | nil => simp [renderLevel]
    | cons n rest =>
      obtain ⟨idx, nested⟩ := n
      rw [renderLevel_cons, renderLevel_cons]
      simp only [ih, renderGens_shape c o h]

/-- the registry after a rendering: every model carries the name recorded in the name map -/
def withNames (g : Graph) (names : NameMap) : Graph :=
  { g with models := g.models.map (fun m => { m with name := lookup names m.idx }) }

theorem find?_map_name (ms : List Model) (f : Model → Option String) (i : String) :
    (ms.map (fun m => { m with name := f m })).find? (·.idx == i) =
      (ms.find? (·.idx == i)).map (fun m => { m with name := f m }) := by
  induction ms with
  | nil => rfl
  | cons m rest ih =>
    simp only [List.map_cons, List.find?_cons]
    by_cases h : m.idx = i
    · simp [h]
    · have hb : (m.idx == i) = false := by simpa using h
      simp only [hb, ih]

theorem withNames_shape (g : Graph) (names : NameMap) : SameShape (withNames g names) g := by
  refine ⟨by simp [withNames], ?_⟩
  intro i X
  unfold withNames Graph.find?
  simp only [find?_map_name]
  cases g.models.find? (·.idx == i) <;> rfl

/-- with distinct indices, and a name map over exactly these indices, the names of `withNames g F` are `F` -/
theorem names0_withNames {g : Graph} {F : NameMap} (hk : F.map (·.1) = g.models.map (·.idx))
    (hnd : (g.models.map (·.idx)).Nodup) : names0 (withNames g F) = F := by
  have e1 : names0 (withNames g F) = (g.models.map (·.idx)).map (fun i => (i, lookup F i)) := by
    simp [names0, withNames, List.map_map, Function.comp_def]
  rw [e1, ← hk, List.map_map]
  conv => rhs; rw [← List.map_id F]
  apply List.map_congr_left
  intro p hp
  have := lookup_of_mem (hk ▸ hnd) hp
  simp [this]

theorem names0_keys (g : Graph) : (names0 g).map (·.1) = g.models.map (·.idx) := by
  simp [names0, List.map_map, Function.comp_def]

/-! ## 13. rendering again -/

/-- **generateCode_again**: if a rendering of `g` succeeded with final names `F` on a ready structure, and `F` is
    fixed by the conversions of the structure, then rendering any registry of the same shape that carries the names
    `F` gives the same text and the same names -/
theorem generateCode_again {c : RenderCfg} {o : RenderOracles} {g g' : Graph} {roots : List Node}
    {inj : List (String × String)} {pre : Option String} {text : String} {F : NameMap}
    (h : generateCode c o g roots inj pre = .ok (text, F))
    (hready : ReadyL (refsOf g inj) [] roots)
    (hfix : FixedOn c o F (postL roots))
    (hshape : SameShape g' g) (hn0 : names0 g' = F) :
    generateCode c o g' roots inj pre = .ok (text, F) := by
  rw [generateCode_ok] at h ⊢
  obtain ⟨imps1, gens, rs, h1, h2, h3⟩ := h
  have hp := renderLevel_ready c o g inj F _ _ _ [] _ _ _ h1 hready (fun _ _ => rfl)
  refine ⟨imps1, gens, rs, ?_, ?_, h3⟩
  · rw [hn0, renderLevel_shape c o hshape, hshape.1, renderLevel_fixed c o g inj F _ _ hfix, hp]
    rfl
  · rw [renderGens_shape c o hshape, h2]

/-- `StableOn c o F is`: the recorded name of every `i ∈ is` is a fixed point of `convert_class_name` -/
def StableOn (c : RenderCfg) (o : RenderOracles) (F : NameMap) (is : List String) : Prop :=
  ∀ i ∈ is, ∀ n, lookup F i = some n → convertClassName c o n = .ok n

theorem fixedOn_of_stable {c : RenderCfg} {o : RenderOracles} {F : NameMap} {is : List String}
    (hnd : (F.map (·.1)).Nodup) (hsome : ∀ i ∈ is, ∃ n, lookup F i = some n) (hs : StableOn c o F is) :
    FixedOn c o F is := by
  intro i hi
  obtain ⟨n, hn⟩ := hsome i hi
  rw [convertNameAt_eq hn (hs i hi n hn), set_same hnd hn]

/-- after a successful rendering every index of the structure has a name, produced by `convert_class_name` -/
theorem generateCode_converted {c : RenderCfg} {o : RenderOracles} {g : Graph} {roots : List Node}
    {inj : List (String × String)} {pre : Option String} {text : String} {F : NameMap}
    (h : generateCode c o g roots inj pre = .ok (text, F)) :
    F.map (·.1) = g.models.map (·.idx) ∧
    (∀ j, j ∉ postL roots → lookup F j = lookup (names0 g) j) ∧
    ∀ i ∈ postL roots, ∃ n₀ n, convertClassName c o n₀ = .ok n ∧ lookup F i = some n := by
  rw [generateCode_ok] at h
  obtain ⟨imps1, gens, rs, h1, _, _⟩ := h
  obtain ⟨k, f, cv, _⟩ := renderLevel_frame c o g inj _ _ _ _ _ _ h1
  exact ⟨by rw [k, names0_keys], f, cv⟩

/-- **render_twice (general form)**: rendering the registry left behind by a successful rendering gives the same
    text and the same names, when the structure is ready and the converted names are stable -/
theorem render_twice_gen {c : RenderCfg} {o : RenderOracles} {g : Graph} {roots : List Node}
    {inj : List (String × String)} {pre : Option String} {text : String} {F : NameMap}
    (hnd : (g.models.map (·.idx)).Nodup)
    (h : generateCode c o g roots inj pre = .ok (text, F))
    (hready : ReadyL (refsOf g inj) [] roots)
    (hs : StableOn c o F (postL roots)) :
    generateCode c o (withNames g F) roots inj pre = .ok (text, F) := by
  obtain ⟨hk, _, hcv⟩ := generateCode_converted h
  apply generateCode_again h hready
  · exact fixedOn_of_stable (hk ▸ hnd) (fun i hi => by obtain ⟨_, n, _, hn⟩ := hcv i hi; exact ⟨n, hn⟩) hs
  · exact withNames_shape g F
  · exact names0_withNames hk hnd

end J2M.Rend2
