/-
  `generateCode` on a registry whose class names were already converted by an earlier rendering.
-/
import J2M.Proofs.Render2Level
import J2M.Proofs.PrepNames
namespace J2M.Rend2
open J2M.PrepNames

/-! ## 11. `generateCode` in terms of `renderLevel` / `renderGens` -/

/-- the module text from the collected imports and the rendered top-level classes -/
def finishText (preamble : Option String) (imps1 : List Imp) (rs : List (List Imp × String)) : String :=
  let imps := imps1 ++ rs.flatMap (·.1)
  let delim := "\n\n\n"
  let importsStr := if imps.isEmpty then "" else compileImports imps ++ delim
  let importsStr := match preamble with
    | some p => if p.isEmpty then importsStr else importsStr ++ p ++ delim
    | none => importsStr
  importsStr ++ delim.intercalate (rs.map (·.2)) ++ "\n"

/-- the name map a rendering starts from: the names recorded in the registry -/
def names0 (g : Graph) : NameMap := g.models.map (fun m => (m.idx, m.name))

theorem generateCode_eq (c : RenderCfg) (o : RenderOracles) (g : Graph) (roots : List Node) (inj : List (String × String))
    (pre : Option String) :
    generateCode c o g roots inj pre =
      (prepareNames c o (names0 g) roots >>= fun N0 =>
        renderLevel c o g inj (g.models.length + 2) N0 roots >>= fun r =>
        renderGens c o g inj r.1 r.2.2 >>= fun rs => pure (finishText pre r.2.1 rs, r.1)) := by
  unfold generateCode
  rfl

/-- `generate_code` succeeds iff the preparation of the class names succeeds (`N0`), `_generate_code` succeeds from
    the prepared names, and the top-level classes can be rendered -/
theorem generateCode_ok {c : RenderCfg} {o : RenderOracles} {g : Graph} {roots : List Node} {inj : List (String × String)}
    {pre : Option String} {text : String} {F : NameMap} :
    generateCode c o g roots inj pre = .ok (text, F) ↔
      ∃ N0 imps1 gens rs, prepareNames c o (names0 g) roots = .ok N0 ∧
        renderLevel c o g inj (g.models.length + 2) N0 roots = .ok (F, imps1, gens) ∧
        renderGens c o g inj F gens = .ok rs ∧ text = finishText pre imps1 rs := by
  rw [generateCode_eq]
  simp only [bind_eq_ok]
  constructor
  · rintro ⟨N0, h0, ⟨N, imps1, gens⟩, h1, rs, h2, h3⟩
    simp only [pure, Except.pure] at h3
    injection h3 with h3; injection h3 with h3 h4
    subst h4
    exact ⟨N0, imps1, gens, rs, h0, h1, h2, h3.symm⟩
  · rintro ⟨N0, imps1, gens, rs, h0, h1, h2, h3⟩
    exact ⟨N0, h0, (F, imps1, gens), h1, rs, h2, by subst h3; rfl⟩

theorem names0_length (g : Graph) : (names0 g).length = g.models.length := by simp [names0]

/-! ## 12. graphs that differ only in the recorded names -/

/-- `SameShape g' g`: the same indices and fields (the recorded names may differ) -/
def SameShape (g' g : Graph) : Prop :=
  g'.models.length = g.models.length ∧
  ∀ (i : String) (X : Option String),
    ({ (g'.find? i).getD default with name := X } : Model) = { (g.find? i).getD default with name := X }

theorem renderGens_shape (c : RenderCfg) (o : RenderOracles) {g' g : Graph} (h : SameShape g' g)
    (inj : List (String × String)) (names : NameMap) (gens : List (String × List String)) :
    renderGens c o g' inj names gens = renderGens c o g inj names gens := by
  unfold renderGens modelAt
  simp only [h.2]

theorem renderLevel_shape (c : RenderCfg) (o : RenderOracles) {g' g : Graph} (h : SameShape g' g)
    (inj : List (String × String)) :
    ∀ (fuel : Nat) (names : NameMap) (nodes : List Node),
      renderLevel c o g' inj fuel names nodes = renderLevel c o g inj fuel names nodes := by
  intro fuel
  induction fuel with
  | zero => intro names nodes; simp [renderLevel]
  | succ fuel ih =>
    intro names nodes
    cases nodes with
    | nil => simp [renderLevel]
    | cons n rest =>
      obtain ⟨idx, nested⟩ := n
      rw [renderLevel_cons, renderLevel_cons]
      simp only [ih, renderGens_shape c o h]

/-- the registry after a rendering: every model carries the name recorded in the name map -/
def withNames (g : Graph) (names : NameMap) : Graph :=
  { g with models := g.models.map (fun m => { m with name := lookup names m.idx }) }

theorem find?_map_name (ms : List Model) (f : Model → Option String) (i : String) :
    (ms.map (fun m => { m with name := f m })).find? (·.idx == i) =
      (ms.find? (·.idx == i)).map (fun m => { m with name := f m }) := by
  induction ms with
  | nil => rfl
  | cons m rest ih =>
    simp only [List.map_cons, List.find?_cons]
    by_cases h : m.idx = i
    · simp [h]
    · have hb : (m.idx == i) = false := by simpa using h
      simp only [hb, ih]

theorem withNames_shape (g : Graph) (names : NameMap) : SameShape (withNames g names) g := by
  refine ⟨by simp [withNames], ?_⟩
  intro i X
  unfold withNames Graph.find?
  simp only [find?_map_name]
  cases g.models.find? (·.idx == i) <;> rfl

/-- with distinct indices, and a name map over exactly these indices, the names of `withNames g F` are `F` -/
theorem names0_withNames {g : Graph} {F : NameMap} (hk : F.map (·.1) = g.models.map (·.idx))
    (hnd : (g.models.map (·.idx)).Nodup) : names0 (withNames g F) = F := by
  have e1 : names0 (withNames g F) = (g.models.map (·.idx)).map (fun i => (i, lookup F i)) := by
    simp [names0, withNames, List.map_map, Function.comp_def]
  rw [e1, ← hk, List.map_map]
  conv => rhs; rw [← List.map_id F]
  apply List.map_congr_left
  intro p hp
  have := lookup_of_mem (hk ▸ hnd) hp
  simp [this]

theorem names0_keys (g : Graph) : (names0 g).map (·.1) = g.models.map (·.idx) := by
  simp [names0, List.map_map, Function.comp_def]

/-! ## 13. rendering again -/

/-- a successful rendering: the pre-order walk of the structure succeeds, and lists every model of the structure
    exactly once (otherwise the `while True` loop of `_prepare_class_names` does not end) -/
theorem generateCode_preorder {c : RenderCfg} {o : RenderOracles} {g : Graph} {roots : List Node}
    {inj : List (String × String)} {pre : Option String} {text : String} {F : NameMap}
    (h : generateCode c o g roots inj pre = .ok (text, F)) :
    ∃ idxs, preorder (g.models.length + 2) roots = .ok idxs ∧ idxs.Nodup ∧ idxs.Perm (postL roots) := by
  rw [generateCode_ok] at h
  obtain ⟨N0, _, _, _, h0, _, _, _⟩ := h
  obtain ⟨idxs, N1, hidx, _, hd⟩ := prepareNames_ok.mp h0
  rw [names0_length] at hidx
  exact ⟨idxs, hidx, ((nodup_map_iff _ _).mp (dedupLoop_nodup _ _ _ hd)).1, preorder_perm _ _ _ hidx⟩

theorem generateCode_post_nodup {c : RenderCfg} {o : RenderOracles} {g : Graph} {roots : List Node}
    {inj : List (String × String)} {pre : Option String} {text : String} {F : NameMap}
    (h : generateCode c o g roots inj pre = .ok (text, F)) : (postL roots).Nodup := by
  obtain ⟨idxs, _, hnd, hp⟩ := generateCode_preorder h
  exact hp.nodup_iff.mp hnd

/-- **generateCode_again**: if a rendering of `g` succeeded with final names `F` on a ready structure, `F` is
    fixed by the conversions of the structure and the names `F` of the classes of the structure are pairwise distinct
    (so that `_prepare_class_names` leaves `F` as it is), then rendering any registry of the same shape that carries
    the names `F` gives the same text and the same names -/
theorem generateCode_again {c : RenderCfg} {o : RenderOracles} {g g' : Graph} {roots : List Node}
    {inj : List (String × String)} {pre : Option String} {text : String} {F : NameMap}
    (h : generateCode c o g roots inj pre = .ok (text, F))
    (hready : ReadyL (refsOf g inj) [] roots)
    (hfix : FixedOn c o F (postL roots))
    (hd : DistinctOn F (postL roots))
    (hshape : SameShape g' g) (hn0 : names0 g' = F) :
    generateCode c o g' roots inj pre = .ok (text, F) := by
  obtain ⟨idxs, hidx, _, _⟩ := generateCode_preorder h
  have hpn := generateCode_post_nodup h
  rw [generateCode_ok] at h ⊢
  obtain ⟨N0, imps1, gens, rs, h0, h1, h2, h3⟩ := h
  have hp := renderLevel_ready c o g inj F _ _ _ [] _ _ _ h1 hready (fun _ _ => rfl)
  obtain ⟨k1, _, _, _⟩ := renderLevel_frame c o g inj _ _ _ _ _ _ h1
  have hlen : F.length = g.models.length := by
    have := congrArg List.length (k1.trans (prepareNames_same_keys h0))
    simpa [names0_length] using this
  have hprep : prepareNames c o F roots = .ok F :=
    prepareNames_fixed (by rw [hlen]; exact hidx) hfix ((nodup_map_iff _ _).mpr ⟨hpn, hd⟩)
  refine ⟨F, imps1, gens, rs, by rw [hn0]; exact hprep, ?_, ?_, h3⟩
  · rw [renderLevel_shape c o hshape, hshape.1, renderLevel_fixed c o g inj F _ _ hfix, hp]
    rfl
  · rw [renderGens_shape c o hshape, h2]

/-- after a successful rendering every index of the structure has a name, produced by `convert_class_name` -/
theorem generateCode_converted {c : RenderCfg} {o : RenderOracles} {g : Graph} {roots : List Node}
    {inj : List (String × String)} {pre : Option String} {text : String} {F : NameMap}
    (h : generateCode c o g roots inj pre = .ok (text, F)) :
    F.map (·.1) = g.models.map (·.idx) ∧
    (∀ j, j ∉ postL roots → lookup F j = lookup (names0 g) j) ∧
    ∀ i ∈ postL roots, ∃ n₀ n, convertClassName c o n₀ = .ok n ∧ lookup F i = some n := by
  rw [generateCode_ok] at h
  obtain ⟨N0, imps1, gens, rs, h0, h1, _, _⟩ := h
  obtain ⟨k, f, cv, _⟩ := renderLevel_frame c o g inj _ _ _ _ _ _ h1
  exact ⟨by rw [k, prepareNames_same_keys h0, names0_keys],
    fun j hj => by rw [f j hj, prepareNames_outside h0 hj], cv⟩

/-- **render_twice (general form)**: rendering the registry left behind by a successful rendering gives the same
    text and the same names, when the structure is ready, the converted names are stable and pairwise distinct -/
theorem render_twice_gen {c : RenderCfg} {o : RenderOracles} {g : Graph} {roots : List Node}
    {inj : List (String × String)} {pre : Option String} {text : String} {F : NameMap}
    (hnd : (g.models.map (·.idx)).Nodup)
    (h : generateCode c o g roots inj pre = .ok (text, F))
    (hready : ReadyL (refsOf g inj) [] roots)
    (hs : StableOn c o F (postL roots)) (hd : DistinctOn F (postL roots)) :
    generateCode c o (withNames g F) roots inj pre = .ok (text, F) := by
  obtain ⟨hk, _, hcv⟩ := generateCode_converted h
  apply generateCode_again h hready
  · exact fixedOn_of_stable (hk ▸ hnd) (fun i hi => by obtain ⟨_, n, _, hn⟩ := hcv i hi; exact ⟨n, hn⟩) hs
  · exact hd
  · exact withNames_shape g F
  · exact names0_withNames hk hnd

/-! ## 14. conversion that leaves the prepared names alone -/

/-- if `convert_class_name` leaves the prepared names of the structure alone, the rendering does not change them -/
theorem generateCode_stable_lookup {c : RenderCfg} {o : RenderOracles} {g : Graph} {roots : List Node}
    {inj : List (String × String)} {pre : Option String} {text : String} {F N0 : NameMap}
    (h : generateCode c o g roots inj pre = .ok (text, F))
    (hN0 : prepareNames c o (names0 g) roots = .ok N0) (hs : StableOn c o N0 (postL roots)) :
    ∀ j, lookup F j = lookup N0 j := by
  rw [generateCode_ok] at h
  obtain ⟨N0', imps1, gens, rs, h0, h1, _, _⟩ := h
  cases hN0.symm.trans h0
  exact convAll_stable_lookup _ _ _ hs (renderLevel_names _ _ _ _ _ _ _ _ _ _ h1)

/-- … hence the final class names of the structure are pairwise distinct (and every class has one) -/
theorem generateCode_names_nodup {c : RenderCfg} {o : RenderOracles} {g : Graph} {roots : List Node}
    {inj : List (String × String)} {pre : Option String} {text : String} {F N0 : NameMap}
    (h : generateCode c o g roots inj pre = .ok (text, F))
    (hN0 : prepareNames c o (names0 g) roots = .ok N0) (hs : StableOn c o N0 (postL roots)) :
    ((postL roots).map (nameOf F)).Nodup := by
  have e : (postL roots).map (nameOf F) = (postL roots).map (nameOf N0) :=
    List.map_congr_left (fun j _ => generateCode_stable_lookup h hN0 hs j)
  rw [e]
  exact prepareNames_nodup_post hN0

/-- **generateCode_again_prepared**: if the conversion leaves the prepared names alone, the rendering ends with the
    prepared names, and rendering any registry of the same shape that carries these names gives the same text and
    names — for every structure (no readiness condition: no class is rendered with a name that changes later) -/
theorem generateCode_again_prepared {c : RenderCfg} {o : RenderOracles} {g g' : Graph} {roots : List Node}
    {inj : List (String × String)} {pre : Option String} {text : String} {F N0 : NameMap}
    (hnd : (g.models.map (·.idx)).Nodup)
    (h : generateCode c o g roots inj pre = .ok (text, F))
    (hN0 : prepareNames c o (names0 g) roots = .ok N0) (hs : StableOn c o N0 (postL roots))
    (hshape : SameShape g' g) (hn0 : names0 g' = F) :
    F = N0 ∧ generateCode c o g' roots inj pre = .ok (text, F) := by
  obtain ⟨idxs, hidx, _, _⟩ := generateCode_preorder h
  rw [generateCode_ok] at h ⊢
  obtain ⟨N0', imps1, gens, rs, h0, h1, h2, h3⟩ := h
  cases hN0.symm.trans h0
  have hk0 : N0.map (·.1) = g.models.map (·.idx) := by rw [prepareNames_same_keys h0, names0_keys]
  have e : F = N0 := convAll_stable (hk0 ▸ hnd) hs (renderLevel_names _ _ _ _ _ _ _ _ _ _ h1)
  subst e
  obtain ⟨_, _, cv, _⟩ := renderLevel_frame c o g inj _ _ _ _ _ _ h1
  have hfix : FixedOn c o F (postL roots) :=
    fixedOn_of_stable (hk0 ▸ hnd) (fun i hi => by obtain ⟨_, n, _, hn⟩ := cv i hi; exact ⟨n, hn⟩) hs
  have hlen : F.length = g.models.length := by
    have := congrArg List.length hk0
    simpa using this
  have hprep : prepareNames c o F roots = .ok F :=
    prepareNames_fixed (by rw [hlen]; exact hidx) hfix (prepareNames_nodup_post h0)
  refine ⟨rfl, F, imps1, gens, rs, by rw [hn0]; exact hprep, ?_, ?_, h3⟩
  · rw [renderLevel_shape c o hshape, hshape.1]; exact h1
  · rw [renderGens_shape c o hshape, h2]

/-- **render_twice_prepared** -/
theorem render_twice_prepared {c : RenderCfg} {o : RenderOracles} {g : Graph} {roots : List Node}
    {inj : List (String × String)} {pre : Option String} {text : String} {F N0 : NameMap}
    (hnd : (g.models.map (·.idx)).Nodup)
    (h : generateCode c o g roots inj pre = .ok (text, F))
    (hN0 : prepareNames c o (names0 g) roots = .ok N0) (hs : StableOn c o N0 (postL roots)) :
    F = N0 ∧ generateCode c o (withNames g F) roots inj pre = .ok (text, F) := by
  obtain ⟨hk, _, _⟩ := generateCode_converted h
  exact generateCode_again_prepared hnd h hN0 hs (withNames_shape g F) (names0_withNames hk hnd)

end J2M.Rend2
