/-
  The worklist `splitMembersAux` of `J2M/Generator.lean` as the old category fold over the *expanded* member list:
  `splitMembers reg ts = splitFold reg (expand (fuelOf ts) ts)`, and `= splitFold reg ts` when no member is a
  `.union _` / `.opt (.union _)`.
-/
import J2M.Generator
namespace J2M.SplitW
open J2M

/-! ## 1. the old fold -/

/-- one step of the old fold -/
def splitStep (reg : StrRegistry) (s : Split) (item : Ty) : Split :=
  let (item, s) := match item with
    | .opt x => (x, { s with other := s.other ++ [Ty.null] })
    | x => (x, s)
  match item with
  | .obj fs => { s with toMerge := s.toMerge ++ [fs] }
  | .str => { s with strTypes := s.strTypes ++ [item] }
  | .ser k => if reg.types.contains k then { s with strTypes := s.strTypes ++ [item] }
              else { s with other := s.other ++ [item] }
  | .list x => { s with lists := s.lists ++ [x] }
  | .dict x => { s with dicts := s.dicts ++ [x] }
  | x => { s with other := s.other ++ [x] }

/-- the old `splitMembers` (a fold over the member list), verbatim -/
def splitFold (reg : StrRegistry) (ts : List Ty) : Split :=
  ts.foldl (fun (s : Split) item =>
    let (item, s) := match item with
      | .opt x => (x, { s with other := s.other ++ [Ty.null] })
      | x => (x, s)
    match item with
    | .obj fs => { s with toMerge := s.toMerge ++ [fs] }
    | .str => { s with strTypes := s.strTypes ++ [item] }
    | .ser k => if reg.types.contains k then { s with strTypes := s.strTypes ++ [item] }
                else { s with other := s.other ++ [item] }
    | .list x => { s with lists := s.lists ++ [x] }
    | .dict x => { s with dicts := s.dicts ++ [x] }
    | x => { s with other := s.other ++ [x] }) {}

/-- the same fold from an arbitrary start -/
def splitFoldFrom (reg : StrRegistry) (s : Split) (ts : List Ty) : Split :=
  ts.foldl (splitStep reg) s

theorem splitFold_eq_from (reg : StrRegistry) (ts : List Ty) : splitFold reg ts = splitFoldFrom reg {} ts := rfl

theorem splitFold_eq_foldl (reg : StrRegistry) (ts : List Ty) : splitFold reg ts = ts.foldl (splitStep reg) {} := rfl

theorem splitFoldFrom_eq_foldl (reg : StrRegistry) (s : Split) (ts : List Ty) :
    splitFoldFrom reg s ts = ts.foldl (splitStep reg) s := rfl

@[simp] theorem splitFoldFrom_nil (reg : StrRegistry) (s : Split) : splitFoldFrom reg s [] = s := rfl

@[simp] theorem splitFoldFrom_cons (reg : StrRegistry) (s : Split) (t : Ty) (ts : List Ty) :
    splitFoldFrom reg s (t :: ts) = splitFoldFrom reg (splitStep reg s t) ts := rfl

theorem splitFoldFrom_append (reg : StrRegistry) (s : Split) (as bs : List Ty) :
    splitFoldFrom reg s (as ++ bs) = splitFoldFrom reg (splitFoldFrom reg s as) bs := by
  simp [splitFoldFrom, List.foldl_append]

@[simp] theorem splitFold_nil (reg : StrRegistry) : splitFold reg [] = {} := rfl

theorem splitFold_append (reg : StrRegistry) (as bs : List Ty) :
    splitFold reg (as ++ bs) = splitFoldFrom reg (splitFold reg as) bs := by
  rw [splitFold_eq_from, splitFoldFrom_append]; rfl

/-! ### `splitStep` by constructor -/

@[simp] theorem splitStep_opt_union (reg : StrRegistry) (s : Split) (ms : List Ty) :
    splitStep reg s (.opt (.union ms)) = { s with other := s.other ++ [Ty.null] ++ [.union ms] } := by
  simp [splitStep]

@[simp] theorem splitStep_null (reg : StrRegistry) (s : Split) :
    splitStep reg s .null = { s with other := s.other ++ [Ty.null] } := rfl

/-! ## 2. `expand` and `hidden` -/

/-- a member the worklist splices: a union, or an optional union -/
def hidden : Ty → Bool
  | .union _ => true
  | .opt (.union _) => true
  | _ => false

@[simp] theorem hidden_union (ms : List Ty) : hidden (.union ms) = true := rfl
@[simp] theorem hidden_opt_union (ms : List Ty) : hidden (.opt (.union ms)) = true := rfl

/-- the member list the worklist really folds over -/
def expand : Nat → List Ty → List Ty
  | 0, _ => []
  | _, [] => []
  | fuel + 1, .opt (.union ms) :: rest => .null :: expand fuel (ms ++ rest)
  | fuel + 1, .union ms :: rest => expand fuel (ms ++ rest)
  | fuel + 1, x :: rest => x :: expand fuel rest

@[simp] theorem expand_zero (ts : List Ty) : expand 0 ts = [] := by
  unfold expand; rfl

@[simp] theorem expand_nil (fuel : Nat) : expand fuel [] = [] := by
  cases fuel <;> simp [expand]

@[simp] theorem expand_succ_opt_union (fuel : Nat) (ms rest : List Ty) :
    expand (fuel + 1) (.opt (.union ms) :: rest) = .null :: expand fuel (ms ++ rest) := by
  simp [expand]

@[simp] theorem expand_succ_union (fuel : Nat) (ms rest : List Ty) :
    expand (fuel + 1) (.union ms :: rest) = expand fuel (ms ++ rest) := by
  simp [expand]

theorem expand_succ_plain (fuel : Nat) {x : Ty} (rest : List Ty) (h : hidden x = false) :
    expand (fuel + 1) (x :: rest) = x :: expand fuel rest := by
  cases x with
  | union ms => simp [hidden] at h
  | opt y => cases y <;> first | (simp [hidden] at h; done) | simp [expand]
  | _ => simp [expand]

/-- the fuel `splitMembers` starts with -/
def fuelOf (ts : List Ty) : Nat := (ts.map Ty.size).sum + ts.length + 1

theorem splitMembers_def (reg : StrRegistry) (ts : List Ty) :
    splitMembers reg ts = splitMembersAux reg (fuelOf ts) ts {} := rfl

/-! ## 3. the worklist is the fold over `expand` (for every fuel: both stop together) -/

theorem splitMembersAux_eq (reg : StrRegistry) : ∀ (fuel : Nat) (items : List Ty) (s : Split),
    splitMembersAux reg fuel items s = splitFoldFrom reg s (expand fuel items)
  | 0, items, s => by simp [splitMembersAux]
  | fuel + 1, [], s => by simp [splitMembersAux]
  | fuel + 1, item :: rest, s => by
    cases item with
    | union ms =>
      simp only [splitMembersAux, expand_succ_union]
      exact splitMembersAux_eq reg fuel (ms ++ rest) s
    | opt y =>
      cases y with
      | union ms =>
        simp only [splitMembersAux, expand_succ_opt_union, splitFoldFrom_cons, splitStep_null]
        exact splitMembersAux_eq reg fuel (ms ++ rest) _
      | _ =>
        rw [expand_succ_plain fuel rest rfl, splitFoldFrom_cons, ← splitMembersAux_eq reg fuel rest]
        simp [splitMembersAux, splitStep]
    | _ =>
      rw [expand_succ_plain fuel rest rfl, splitFoldFrom_cons, ← splitMembersAux_eq reg fuel rest]
      simp [splitMembersAux, splitStep]

theorem splitMembers_eq (reg : StrRegistry) (ts : List Ty) :
    splitMembers reg ts = splitFold reg (expand (fuelOf ts) ts) := by
  rw [splitMembers_def, splitMembersAux_eq]; rfl

/-! ## 4. no hidden unions: `expand` is the identity -/

theorem expand_id : ∀ (fuel : Nat) (ts : List Ty), (∀ t ∈ ts, hidden t = false) → ts.length ≤ fuel →
    expand fuel ts = ts
  | _, [], _, _ => by simp
  | 0, _ :: _, _, hl => by simp at hl
  | fuel + 1, t :: ts, h, hl => by
    rw [expand_succ_plain fuel ts (h t (by simp)),
      expand_id fuel ts (fun x hx => h x (by simp [hx])) (by simpa using hl)]

theorem length_le_fuelOf (ts : List Ty) : ts.length ≤ fuelOf ts := by
  unfold fuelOf; omega

theorem expand_fuelOf_id {ts : List Ty} (h : ∀ t ∈ ts, hidden t = false) : expand (fuelOf ts) ts = ts :=
  expand_id _ ts h (length_le_fuelOf ts)

/-- **the bridge for old proofs**: without hidden unions, `splitMembers` is the old fold -/
theorem splitMembers_eq_fold {reg : StrRegistry} {ts : List Ty} (h : ∀ t ∈ ts, hidden t = false) :
    splitMembers reg ts = splitFold reg ts := by
  rw [splitMembers_eq, expand_fuelOf_id h]

/-- the same, as a fold over `splitStep` -/
theorem splitMembers_eq_foldl {reg : StrRegistry} {ts : List Ty} (h : ∀ t ∈ ts, hidden t = false) :
    splitMembers reg ts = ts.foldl (splitStep reg) {} :=
  splitMembers_eq_fold h

/-- `Bool` form of the hypothesis -/
theorem splitMembers_eq_fold_of_all {reg : StrRegistry} {ts : List Ty} (h : ts.all (fun t => !hidden t) = true) :
    splitMembers reg ts = splitFold reg ts :=
  splitMembers_eq_fold (by simpa using h)

end J2M.SplitW
