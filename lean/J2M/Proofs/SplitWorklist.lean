/-
  The worklist `splitMembersAux` of `J2M/Generator.lean` as the old category fold over the *expanded* member list:
  `splitMembers reg ts = splitFold reg (expand (fuelOf ts) ts)`, and `= splitFold reg ts` when no member is a
  `.union _` / `.opt (.union _)`.
-/
import J2M.Generator
namespace J2M.SplitW
open J2M

/-! ## 1. the old fold -/

/-- one step of the old fold -/
def splitStep (reg : StrRegistry) (s : Split) (item : Ty) : Split :=
  let (item, s) := match item with
    | .opt x => (x, { s with other := s.other ++ [Ty.null] })
    | x => (x, s)
  match item with
  | .obj fs => { s with toMerge := s.toMerge ++ [fs] }
  | .str => { s with strTypes := s.strTypes ++ [item] }
  | .ser k => if reg.types.contains k then { s with strTypes := s.strTypes ++ [item] }
              else { s with other := s.other ++ [item] }
  | .list x => { s with lists := s.lists ++ [x] }
  | .dict x => { s with dicts := s.dicts ++ [x] }
  | x => { s with other := s.other ++ [x] }

/-- the old `splitMembers` (a fold over the member list), verbatim -/
def splitFold (reg : StrRegistry) (ts : List Ty) : Split :=
  ts.foldl (fun (s : Split) item =>
    let (item, s) := match item with
      | .opt x => (x, { s with other := s.other ++ [Ty.null] })
      | x => (x, s)
    match item with
    | .obj fs => { s with toMerge := s.toMerge ++ [fs] }
    | .str => { s with strTypes := s.strTypes ++ [item] }
    | .ser k => if reg.types.contains k then { s with strTypes := s.strTypes ++ [item] }
                else { s with other := s.other ++ [item] }
    | .list x => { s with lists := s.lists ++ [x] }
    | .dict x => { s with dicts := s.dicts ++ [x] }
    | x => { s with other := s.other ++ [x] }) {}

/-- the same fold from an arbitrary start -/
def splitFoldFrom (reg : StrRegistry) (s : Split) (ts : List Ty) : Split :=
  ts.foldl (splitStep reg) s

theorem splitFold_eq_from (reg : StrRegistry) (ts : List Ty) : splitFold reg ts = splitFoldFrom reg {} ts := rfl

theorem splitFold_eq_foldl (reg : StrRegistry) (ts : List Ty) : splitFold reg ts = ts.foldl (splitStep reg) {} := rfl

theorem splitFoldFrom_eq_foldl (reg : StrRegistry) (s : Split) (ts : List Ty) :
    splitFoldFrom reg s ts = ts.foldl (splitStep reg) s := rfl

@[simp] theorem splitFoldFrom_nil (reg : StrRegistry) (s : Split) : splitFoldFrom reg s [] = s := rfl

@[simp] theorem splitFoldFrom_cons (reg : StrRegistry) (s : Split) (t : Ty) (ts : List Ty) :
    splitFoldFrom reg s (t :: ts) = splitFoldFrom reg (splitStep reg s t) ts := rfl

theorem splitFoldFrom_append (reg : StrRegistry) (s : Split) (as bs : List Ty) :
    splitFoldFrom reg s (as ++ bs) = splitFoldFrom reg (splitFoldFrom reg s as) bs := by
  simp [splitFoldFrom, List.foldl_append]

@[simp] theorem splitFold_nil (reg : StrRegistry) : splitFold reg [] = {} := rfl

theorem splitFold_append (reg : StrRegistry) (as bs : List Ty) :
    splitFold reg (as ++ bs) = splitFoldFrom reg (splitFold reg as) bs := by
  rw [splitFold_eq_from, splitFoldFrom_append]; rfl

/-! ### `splitStep` by constructor -/

@[simp] theorem splitStep_opt_union (reg : StrRegistry) (s : Split) (ms : List Ty) :
    splitStep reg s (.opt (.union ms)) = { s with other := s.other ++ [Ty.null] ++ [.union ms] } := by
  simp [splitStep]

@[simp] theorem splitStep_null (reg : StrRegistry) (s : Split) :
    splitStep reg s .null = { s with other := s.other ++ [Ty.null] } := rfl

/-! ## 2. `expand` and `hidden` -/

/-- a member the worklist splices: a union, or an optional union -/
def hidden : Ty → Bool
  | .union _ => true
  | .opt (.union _) => true
  | _ => false

@[simp] theorem hidden_union (ms : List Ty) : hidden (.union ms) = true := rfl
@[simp] theorem hidden_opt_union (ms : List Ty) : hidden (.opt (.union ms)) = true := rfl

/-- the member list the worklist really folds over -/
def expand : Nat → List Ty → List Ty
  | 0, _ => []
  | _, [] => []
  | fuel + 1, .opt (.union ms) :: rest => .null :: expand fuel (ms ++ rest)
  | fuel + 1, .union ms :: rest => expand fuel (ms ++ rest)
  | fuel + 1, x :: rest => x :: expand fuel rest

@[simp] theorem expand_zero (ts : List Ty) : expand 0 ts = [] := by
  unfold expand; rfl

@[simp] theorem expand_nil (fuel : Nat) : expand fuel [] = [] := by
  cases fuel <;> simp [expand]

@[simp] theorem expand_succ_opt_union (fuel : Nat) (ms rest : List Ty) :
    expand (fuel + 1) (.opt (.union ms) :: rest) = .null :: expand fuel (ms ++ rest) := by
  simp [expand]

@[simp] theorem expand_succ_union (fuel : Nat) (ms rest : List Ty) :
    expand (fuel + 1) (.union ms :: rest) = expand fuel (ms ++ rest) := by
  simp [expand]

theorem expand_succ_plain (fuel : Nat) {x : Ty} (rest : List Ty) (h : hidden x = false) :
    expand (fuel + 1) (x :: rest) = x :: expand fuel rest := by
  cases x with
  | union ms => simp [hidden] at h
  | opt y => cases y <;> first | (simp [hidden] at h; done) | simp [expand]
  | _ => simp [expand]

/-- the fuel `splitMembers` starts with -/
def fuelOf (ts : List Ty) : Nat := (ts.map Ty.size).sum + ts.length + 1

theorem splitMembers_def (reg : StrRegistry) (ts : List Ty) :
    splitMembers reg ts = splitMembersAux reg (fuelOf ts) ts {} := rfl

/-! ## 3. the worklist is the fold over `expand` (for every fuel: both stop together) -/

theorem splitMembersAux_eq (reg : StrRegistry) : ∀ (fuel : Nat) (items : List Ty) (s : Split),
    splitMembersAux reg fuel items s = splitFoldFrom reg s (expand fuel items)
  | 0, items, s => by simp [splitMembersAux]
  | fuel + 1, [], s => by simp [splitMembersAux]
  | fuel + 1, item :: rest, s => by
    cases item with
    | union ms =>
      simp only [splitMembersAux, expand_succ_union]
      exact splitMembersAux_eq reg fuel (ms ++ rest) s
    | opt y =>
      cases y with
      | union ms =>
        simp only [splitMembersAux, expand_succ_opt_union, splitFoldFrom_cons, splitStep_null]
        exact splitMembersAux_eq reg fuel (ms ++ rest) _
      | _ =>
        rw [expand_succ_plain fuel rest rfl, splitFoldFrom_cons, ← splitMembersAux_eq reg fuel rest]
        simp [splitMembersAux, splitStep]
    | _ =>
      rw [expand_succ_plain fuel rest rfl, splitFoldFrom_cons, ← splitMembersAux_eq reg fuel rest]
      simp [splitMembersAux, splitStep]

theorem splitMembers_eq (reg : StrRegistry) (ts : List Ty) :
    splitMembers reg ts = splitFold reg (expand (fuelOf ts) ts) := by
  rw [splitMembers_def, splitMembersAux_eq]; rfl

/-! ## 4. no hidden unions: `expand` is the identity -/

theorem expand_id : ∀ (fuel : Nat) (ts : List Ty), (∀ t ∈ ts, hidden t = false) → ts.length ≤ fuel →
    expand fuel ts = ts
  | _, [], _, _ => by simp
  | 0, _ :: _, _, hl => by simp at hl
  | fuel + 1, t :: ts, h, hl => by
    rw [expand_succ_plain fuel ts (h t (by simp)),
      expand_id fuel ts (fun x hx => h x (by simp [hx])) (by simpa using hl)]

theorem length_le_fuelOf (ts : List Ty) : ts.length ≤ fuelOf ts := by
  unfold fuelOf; omega

theorem expand_fuelOf_id {ts : List Ty} (h : ∀ t ∈ ts, hidden t = false) : expand (fuelOf ts) ts = ts :=
  expand_id _ ts h (length_le_fuelOf ts)

/-- **the bridge for old proofs**: without hidden unions, `splitMembers` is the old fold -/
theorem splitMembers_eq_fold {reg : StrRegistry} {ts : List Ty} (h : ∀ t ∈ ts, hidden t = false) :
    splitMembers reg ts = splitFold reg ts := by
  rw [splitMembers_eq, expand_fuelOf_id h]

/-- the same, as a fold over `splitStep` -/
theorem splitMembers_eq_foldl {reg : StrRegistry} {ts : List Ty} (h : ∀ t ∈ ts, hidden t = false) :
    splitMembers reg ts = ts.foldl (splitStep reg) {} :=
  splitMembers_eq_fold h

/-- `Bool` form of the hypothesis -/
theorem splitMembers_eq_fold_of_all {reg : StrRegistry} {ts : List Ty} (h : ts.all (fun t => !hidden t) = true) :
    splitMembers reg ts = splitFold reg ts :=
  splitMembers_eq_fold (by simpa using h)

/-! ## 5. the fuel-free form of `expand`, and its structure -/

mutual
/-- what one member contributes to the list the split folds over -/
def flatT : Ty → List Ty
  | .union ms => flatL ms
  | .opt (.union ms) => .null :: flatL ms
  | x => [x]
/-- `expand` without fuel (`expand_eq_flat`) -/
def flatL : List Ty → List Ty
  | [] => []
  | t :: ts => flatT t ++ flatL ts
end

@[simp] theorem flatT_union (ms : List Ty) : flatT (.union ms) = flatL ms := by simp [flatT]
@[simp] theorem flatT_opt_union (ms : List Ty) : flatT (.opt (.union ms)) = .null :: flatL ms := by simp [flatT]
@[simp] theorem flatL_nil : flatL [] = [] := by simp [flatL]
@[simp] theorem flatL_cons (t : Ty) (ts : List Ty) : flatL (t :: ts) = flatT t ++ flatL ts := by simp [flatL]

theorem flatT_plain {t : Ty} (h : hidden t = false) : flatT t = [t] := by
  cases t with
  | union ms => simp [hidden] at h
  | opt y => cases y <;> first | (simp [hidden] at h; done) | simp [flatT]
  | _ => simp [flatT]

theorem flatL_eq_flatMap (ts : List Ty) : flatL ts = ts.flatMap flatT := by
  induction ts with
  | nil => simp
  | cons t ts ih => simp [ih]

@[simp] theorem flatL_append (as bs : List Ty) : flatL (as ++ bs) = flatL as ++ flatL bs := by
  simp [flatL_eq_flatMap]

theorem mem_flatL {x : Ty} {ts : List Ty} : x ∈ flatL ts ↔ ∃ t ∈ ts, x ∈ flatT t := by
  simp [flatL_eq_flatMap, List.mem_flatMap]

theorem flatL_id {ts : List Ty} (h : ∀ t ∈ ts, hidden t = false) : flatL ts = ts := by
  induction ts with
  | nil => simp
  | cons t ts ih =>
    rw [flatL_cons, flatT_plain (h t (by simp)), ih (fun x hx => h x (by simp [hx]))]; rfl

/-! ### sizes -/

theorem size_pos (t : Ty) : 0 < t.size := by
  cases t <;> simp [Ty.size] <;> omega

theorem sizeList_eq_sum (ts : List Ty) : Ty.sizeList ts = (ts.map Ty.size).sum := by
  induction ts with
  | nil => simp [Ty.sizeList]
  | cons t ts ih => simp [Ty.sizeList, ih]

theorem size_le_sum {m : Ty} {ms : List Ty} (h : m ∈ ms) : m.size ≤ (ms.map Ty.size).sum := by
  induction ms with
  | nil => cases h
  | cons a as ih =>
    rcases List.mem_cons.1 h with rfl | h
    · simp
    · have := ih h; simp; omega

theorem size_union (ms : List Ty) : (Ty.union ms).size = 1 + (ms.map Ty.size).sum := by
  simp [Ty.size, sizeList_eq_sum]

theorem size_opt_union (ms : List Ty) : (Ty.opt (.union ms)).size = 2 + (ms.map Ty.size).sum := by
  simp [Ty.size, sizeList_eq_sum]; omega

/-- induction along `flatT`: through unions and optional unions down to the members that are neither -/
theorem flat_induct {P : Ty → Prop} (hu : ∀ ms, (∀ m ∈ ms, P m) → P (.union ms))
    (hou : ∀ ms, (∀ m ∈ ms, P m) → P (.opt (.union ms))) (hp : ∀ t, hidden t = false → P t) : ∀ t, P t := by
  have key : ∀ n (t : Ty), t.size ≤ n → P t := by
    intro n
    induction n with
    | zero => intro t h; have := size_pos t; omega
    | succ n ih =>
      intro t h
      by_cases hh : hidden t = true
      · cases t with
        | union ms =>
          refine hu ms (fun m hm => ih m ?_)
          have := size_le_sum hm; rw [size_union] at h; omega
        | opt y =>
          cases y with
          | union ms =>
            refine hou ms (fun m hm => ih m ?_)
            have := size_le_sum hm; rw [size_opt_union] at h; omega
          | _ => simp [hidden] at hh
        | _ => simp [hidden] at hh
      · exact hp t (by simpa using hh)
  exact fun t => key _ t (Nat.le_refl _)

/-! ### `expand` is `flatL` once the fuel covers the sizes -/

theorem expand_eq_flat : ∀ (fuel : Nat) (ts : List Ty), (ts.map Ty.size).sum ≤ fuel → expand fuel ts = flatL ts
  | _, [], _ => by simp
  | 0, t :: ts, h => by have := size_pos t; simp at h; omega
  | fuel + 1, t :: ts, h => by
    by_cases hh : hidden t = true
    · cases t with
      | union ms =>
        rw [expand_succ_union, expand_eq_flat fuel (ms ++ ts)]
        · simp
        · simp [size_union] at h ⊢; omega
      | opt y =>
        cases y with
        | union ms =>
          rw [expand_succ_opt_union, expand_eq_flat fuel (ms ++ ts)]
          · simp
          · simp [size_opt_union] at h ⊢; omega
        | _ => simp [hidden] at hh
      | _ => simp [hidden] at hh
    · have hh : hidden t = false := by simpa using hh
      rw [expand_succ_plain fuel ts hh, expand_eq_flat fuel ts, flatL_cons, flatT_plain hh]; rfl
      have := size_pos t; simp at h; omega

theorem sum_le_fuelOf (ts : List Ty) : (ts.map Ty.size).sum ≤ fuelOf ts := by
  unfold fuelOf; omega

@[simp] theorem expand_fuelOf (ts : List Ty) : expand (fuelOf ts) ts = flatL ts :=
  expand_eq_flat _ ts (sum_le_fuelOf ts)

/-- the worklist is the old fold over the flattened member list -/
theorem splitMembers_eq_flat (reg : StrRegistry) (ts : List Ty) : splitMembers reg ts = splitFold reg (flatL ts) := by
  rw [splitMembers_eq, expand_fuelOf]

theorem splitMembers_eq_flat_foldl (reg : StrRegistry) (ts : List Ty) :
    splitMembers reg ts = (flatL ts).foldl (splitStep reg) {} :=
  splitMembers_eq_flat reg ts

/-! ### nothing hidden is left -/

theorem flatT_no_hidden : ∀ (t : Ty) {x : Ty}, x ∈ flatT t → hidden x = false := by
  intro t
  induction t using flat_induct with
  | hu ms ih => intro x hx; rw [flatT_union, mem_flatL] at hx; obtain ⟨m, hm, hx⟩ := hx; exact ih m hm hx
  | hou ms ih =>
    intro x hx
    rw [flatT_opt_union, List.mem_cons, mem_flatL] at hx
    rcases hx with rfl | ⟨m, hm, hx⟩
    · rfl
    · exact ih m hm hx
  | hp t h => intro x hx; rw [flatT_plain h] at hx; simp at hx; subst hx; exact h

theorem flatL_no_hidden {ts : List Ty} {x : Ty} (hx : x ∈ flatL ts) : hidden x = false := by
  obtain ⟨t, _, hx⟩ := mem_flatL.1 hx; exact flatT_no_hidden t hx

/-- no element of `expand` is a union or an optional union (any fuel) -/
theorem expand_no_hidden_top : ∀ (fuel : Nat) (ts : List Ty) {x : Ty}, x ∈ expand fuel ts → hidden x = false
  | 0, _, _, h => by simp at h
  | _ + 1, [], _, h => by simp at h
  | fuel + 1, t :: ts, x, h => by
    by_cases hh : hidden t = true
    · cases t with
      | union ms => rw [expand_succ_union] at h; exact expand_no_hidden_top fuel _ h
      | opt y =>
        cases y with
        | union ms =>
          rw [expand_succ_opt_union, List.mem_cons] at h
          rcases h with rfl | h
          · rfl
          · exact expand_no_hidden_top fuel _ h
        | _ => simp [hidden] at hh
      | _ => simp [hidden] at hh
    · have hh : hidden t = false := by simpa using hh
      rw [expand_succ_plain fuel ts hh, List.mem_cons] at h
      rcases h with rfl | h
      · exact hh
      · exact expand_no_hidden_top fuel _ h

theorem not_hidden_ne_union {x : Ty} (h : hidden x = false) (ms : List Ty) : x ≠ .union ms := by
  rintro rfl; simp at h

theorem not_hidden_opt {y : Ty} (h : hidden (.opt y) = false) : y.isUnion = false := by
  cases y <;> simp_all [hidden, Ty.isUnion]

theorem expand_ne_union {fuel : Nat} {ts : List Ty} {x : Ty} (hx : x ∈ expand fuel ts) (ms : List Ty) :
    x ≠ .union ms := not_hidden_ne_union (expand_no_hidden_top fuel ts hx) ms

theorem expand_opt_not_union {fuel : Nat} {ts : List Ty} {y : Ty} (hx : Ty.opt y ∈ expand fuel ts) :
    y.isUnion = false := not_hidden_opt (expand_no_hidden_top fuel ts hx)

theorem flatL_ne_union {ts : List Ty} {x : Ty} (hx : x ∈ flatL ts) (ms : List Ty) : x ≠ .union ms :=
  not_hidden_ne_union (flatL_no_hidden hx) ms

theorem flatL_opt_not_union {ts : List Ty} {y : Ty} (hx : Ty.opt y ∈ flatL ts) : y.isUnion = false :=
  not_hidden_opt (flatL_no_hidden hx)

/-! ### transfer of invariants, both directions -/

/-- an invariant of the members that survives the descent holds for the flattened list -/
theorem forall_flatT {R : Ty → Prop} (hnull : R .null) (hu : ∀ ms, R (.union ms) → ∀ m ∈ ms, R m)
    (hou : ∀ ms, R (.opt (.union ms)) → ∀ m ∈ ms, R m) : ∀ (t : Ty), R t → ∀ x ∈ flatT t, R x := by
  intro t
  induction t using flat_induct with
  | hu ms ih =>
    intro h x hx; rw [flatT_union, mem_flatL] at hx; obtain ⟨m, hm, hx⟩ := hx
    exact ih m hm (hu ms h m hm) x hx
  | hou ms ih =>
    intro h x hx
    rw [flatT_opt_union, List.mem_cons, mem_flatL] at hx
    rcases hx with rfl | ⟨m, hm, hx⟩
    · exact hnull
    · exact ih m hm (hou ms h m hm) x hx
  | hp t h => intro ht x hx; rw [flatT_plain h] at hx; simp at hx; subst hx; exact ht

theorem forall_flatL {R : Ty → Prop} (hnull : R .null) (hu : ∀ ms, R (.union ms) → ∀ m ∈ ms, R m)
    (hou : ∀ ms, R (.opt (.union ms)) → ∀ m ∈ ms, R m) {ts : List Ty} (h : ∀ t ∈ ts, R t) :
    ∀ x ∈ flatL ts, R x := by
  intro x hx; obtain ⟨t, ht, hx⟩ := mem_flatL.1 hx
  exact forall_flatT hnull hu hou t (h t ht) x hx

/-- the usual instance: `R` goes under `Optional` and to union members -/
theorem forall_flatL' {R : Ty → Prop} (hnull : R .null) (hopt : ∀ x, R (.opt x) → R x)
    (hu : ∀ ms, R (.union ms) → ∀ m ∈ ms, R m) {ts : List Ty} (h : ∀ t ∈ ts, R t) : ∀ x ∈ flatL ts, R x :=
  forall_flatL hnull hu (fun ms h => hu ms (hopt _ h)) h

/-- conversely: what holds of the flattened list and is built up by unions / optional unions holds of the members -/
theorem cover_flatT {C : Ty → Prop} {L : List Ty} (hu : ∀ ms, (∀ m ∈ ms, C m) → C (.union ms))
    (hou : ∀ ms, Ty.null ∈ L → (∀ m ∈ ms, C m) → C (.opt (.union ms)))
    (hL : ∀ x ∈ L, hidden x = false → C x) : ∀ (t : Ty), (∀ x ∈ flatT t, x ∈ L) → C t := by
  intro t
  induction t using flat_induct with
  | hu ms ih =>
    intro h; refine hu ms (fun m hm => ih m hm (fun x hx => h x ?_))
    rw [flatT_union, mem_flatL]; exact ⟨m, hm, hx⟩
  | hou ms ih =>
    intro h
    refine hou ms (h _ (by simp)) (fun m hm => ih m hm (fun x hx => h x ?_))
    rw [flatT_opt_union, List.mem_cons, mem_flatL]; exact Or.inr ⟨m, hm, hx⟩
  | hp t ht => intro h; exact hL t (h t (by simp [flatT_plain ht])) ht

theorem cover_flatL {C : Ty → Prop} {ts : List Ty} (hu : ∀ ms, (∀ m ∈ ms, C m) → C (.union ms))
    (hou : ∀ ms, Ty.null ∈ flatL ts → (∀ m ∈ ms, C m) → C (.opt (.union ms)))
    (hL : ∀ x ∈ flatL ts, hidden x = false → C x) : ∀ t ∈ ts, C t := by
  intro t ht
  exact cover_flatT hu hou hL t (fun x hx => mem_flatL.2 ⟨t, ht, hx⟩)

/-! ### membership -/

/-- `Reach t x`: `x` is `t`, or is found in `t` by descending through `.union` / `.opt (.union)` -/
inductive Reach : Ty → Ty → Prop
  | refl (t : Ty) : Reach t t
  | union {ms : List Ty} {m x : Ty} : m ∈ ms → Reach m x → Reach (.union ms) x
  | optUnion {ms : List Ty} {m x : Ty} : m ∈ ms → Reach m x → Reach (.opt (.union ms)) x

theorem Reach.trans {a b c : Ty} (h1 : Reach a b) (h2 : Reach b c) : Reach a c := by
  induction h1 with
  | refl => exact h2
  | union hm _ ih => exact .union hm (ih h2)
  | optUnion hm _ ih => exact .optUnion hm (ih h2)

theorem Reach.of_not_hidden {t x : Ty} (h : Reach t x) (ht : hidden t = false) : x = t := by
  cases h with
  | refl => rfl
  | union => simp at ht
  | optUnion => simp at ht

/-- an element of `flatT t` is reachable from `t`, or is the `.null` of a reachable optional union -/
theorem mem_flatT_reach : ∀ (t : Ty) {x : Ty}, x ∈ flatT t →
    Reach t x ∨ (x = .null ∧ ∃ ms, Reach t (.opt (.union ms))) := by
  intro t
  induction t using flat_induct with
  | hu ms ih =>
    intro x hx; rw [flatT_union, mem_flatL] at hx; obtain ⟨m, hm, hx⟩ := hx
    rcases ih m hm hx with h | ⟨rfl, ms', h⟩
    · exact .inl (.union hm h)
    · exact .inr ⟨rfl, ms', .union hm h⟩
  | hou ms ih =>
    intro x hx
    rw [flatT_opt_union, List.mem_cons, mem_flatL] at hx
    rcases hx with rfl | ⟨m, hm, hx⟩
    · exact .inr ⟨rfl, ms, .refl _⟩
    · rcases ih m hm hx with h | ⟨rfl, ms', h⟩
      · exact .inl (.optUnion hm h)
      · exact .inr ⟨rfl, ms', .optUnion hm h⟩
  | hp t h => intro x hx; rw [flatT_plain h] at hx; simp at hx; subst hx; exact .inl (.refl _)

/-- every reachable member that is not itself spliced is in `flatT t` -/
theorem reach_mem_flatT {t x : Ty} (h : Reach t x) (hx : hidden x = false) : x ∈ flatT t := by
  induction h with
  | refl t => simp [flatT_plain hx]
  | union hm _ ih => rw [flatT_union, mem_flatL]; exact ⟨_, hm, ih hx⟩
  | optUnion hm _ ih => rw [flatT_opt_union, List.mem_cons, mem_flatL]; exact .inr ⟨_, hm, ih hx⟩

theorem reach_opt_union_null {t : Ty} {ms : List Ty} (h : Reach t (.opt (.union ms))) : Ty.null ∈ flatT t := by
  generalize hy : Ty.opt (.union ms) = y at h
  induction h with
  | refl t => subst hy; simp
  | union hm _ ih => rw [flatT_union, mem_flatL]; exact ⟨_, hm, ih hy⟩
  | optUnion hm _ ih => rw [flatT_opt_union, List.mem_cons, mem_flatL]; exact .inr ⟨_, hm, ih hy⟩

theorem mem_flatT_iff {t x : Ty} : x ∈ flatT t ↔
    hidden x = false ∧ (Reach t x ∨ (x = .null ∧ ∃ ms, Reach t (.opt (.union ms)))) := by
  constructor
  · intro h; exact ⟨flatT_no_hidden t h, mem_flatT_reach t h⟩
  · rintro ⟨hx, h | ⟨rfl, ms, h⟩⟩
    · exact reach_mem_flatT h hx
    · exact reach_opt_union_null h

theorem mem_flatL_iff {ts : List Ty} {x : Ty} : x ∈ flatL ts ↔
    hidden x = false ∧ ∃ t ∈ ts, Reach t x ∨ (x = .null ∧ ∃ ms, Reach t (.opt (.union ms))) := by
  rw [mem_flatL]
  constructor
  · rintro ⟨t, ht, h⟩; have := mem_flatT_iff.1 h; exact ⟨this.1, t, ht, this.2⟩
  · rintro ⟨hx, t, ht, h⟩; exact ⟨t, ht, mem_flatT_iff.2 ⟨hx, h⟩⟩

/-- `mem_expand` (sufficient fuel) -/
theorem mem_expand {fuel : Nat} {ts : List Ty} (hf : (ts.map Ty.size).sum ≤ fuel) {x : Ty} :
    x ∈ expand fuel ts ↔
      hidden x = false ∧ ∃ t ∈ ts, Reach t x ∨ (x = .null ∧ ∃ ms, Reach t (.opt (.union ms))) := by
  rw [expand_eq_flat fuel ts hf, mem_flatL_iff]

/-- a member that is not spliced stays -/
theorem mem_flatL_of_mem {ts : List Ty} {t : Ty} (ht : t ∈ ts) (h : hidden t = false) : t ∈ flatL ts :=
  mem_flatL.2 ⟨t, ht, by simp [flatT_plain h]⟩

/-! ### append, sizes, idempotence -/

theorem expand_append {fuel : Nat} {as bs : List Ty} (hf : ((as ++ bs).map Ty.size).sum ≤ fuel) :
    expand fuel (as ++ bs) = expand fuel as ++ expand fuel bs := by
  have h1 : (as.map Ty.size).sum ≤ fuel := by simp at hf; omega
  have h2 : (bs.map Ty.size).sum ≤ fuel := by simp at hf; omega
  rw [expand_eq_flat _ _ hf, expand_eq_flat _ _ h1, expand_eq_flat _ _ h2, flatL_append]

theorem flatT_sizes : ∀ t : Ty, ((flatT t).map Ty.size).sum ≤ t.size := by
  have hL : ∀ ms : List Ty, (∀ m ∈ ms, ((flatT m).map Ty.size).sum ≤ m.size) →
      ((flatL ms).map Ty.size).sum ≤ (ms.map Ty.size).sum := by
    intro ms
    induction ms with
    | nil => simp
    | cons a as ih =>
      intro h
      have h1 := h a (by simp)
      have h2 := ih (fun m hm => h m (by simp [hm]))
      simp; omega
  intro t
  induction t using flat_induct with
  | hu ms ih => rw [flatT_union, size_union]; have := hL ms ih; omega
  | hou ms ih =>
    rw [flatT_opt_union, size_opt_union]; have := hL ms ih
    simp [Ty.size]; omega
  | hp t h => simp [flatT_plain h]

theorem flatL_sizes (ts : List Ty) : ((flatL ts).map Ty.size).sum ≤ (ts.map Ty.size).sum := by
  induction ts with
  | nil => simp
  | cons a as ih => have := flatT_sizes a; simp; omega

theorem expand_sizes {fuel : Nat} {ts : List Ty} (hf : (ts.map Ty.size).sum ≤ fuel) :
    ((expand fuel ts).map Ty.size).sum ≤ (ts.map Ty.size).sum := by
  rw [expand_eq_flat _ _ hf]; exact flatL_sizes ts

theorem flatL_idem (ts : List Ty) : flatL (flatL ts) = flatL ts :=
  flatL_id (fun _ h => flatL_no_hidden h)

theorem expand_idem {fuel : Nat} {ts : List Ty} (hf : (ts.map Ty.size).sum ≤ fuel) :
    expand fuel (expand fuel ts) = expand fuel ts := by
  rw [expand_eq_flat _ _ hf, expand_eq_flat _ _ (Nat.le_trans (flatL_sizes ts) hf), flatL_idem]

theorem flatL_eq_nil {ts : List Ty} (h : flatL ts = []) : ∀ t ∈ ts, ∃ ms, t = .union ms := by
  intro t ht
  by_cases hh : hidden t = true
  · cases t with
    | union ms => exact ⟨ms, rfl⟩
    | opt y =>
      have : Ty.null ∈ flatL ts := by
        cases y with
        | union ms => exact mem_flatL.2 ⟨_, ht, by simp⟩
        | _ => simp [hidden] at hh
      simp [h] at this
    | _ => simp [hidden] at hh
  · have := mem_flatL_of_mem ht (by simpa using hh); simp [h] at this


/-! ## 6. what the fold produces -/

/-- the member after `Optional` is taken off -/
def core : Ty → Ty
  | .opt x => x
  | x => x

@[simp] theorem core_opt (x : Ty) : core (.opt x) = x := rfl
theorem core_of_not_opt {t : Ty} (h : t.isOpt = false) : core t = t := by
  cases t <;> first | rfl | simp [Ty.isOpt] at h

/-- the category step on an unwrapped member (`InhOptimize.classify`, `MergeAtoms.splitPlain`) -/
def classify (reg : StrRegistry) (item : Ty) (s : Split) : Split :=
  match item with
  | .obj fs => { s with toMerge := s.toMerge ++ [fs] }
  | .str => { s with strTypes := s.strTypes ++ [item] }
  | .ser k => if reg.types.contains k then { s with strTypes := s.strTypes ++ [item] }
              else { s with other := s.other ++ [item] }
  | .list x => { s with lists := s.lists ++ [x] }
  | .dict x => { s with dicts := s.dicts ++ [x] }
  | x => { s with other := s.other ++ [x] }

theorem splitStep_opt (reg : StrRegistry) (s : Split) (x : Ty) :
    splitStep reg s (.opt x) = classify reg x { s with other := s.other ++ [Ty.null] } := by
  cases x <;> rfl

theorem splitStep_of_not_opt (reg : StrRegistry) (s : Split) {t : Ty} (h : t.isOpt = false) :
    splitStep reg s t = classify reg t s := by
  cases t <;> first | rfl | simp [Ty.isOpt] at h

theorem splitStep_eq_match (reg : StrRegistry) (s : Split) (item : Ty) :
    splitStep reg s item =
      match item with
      | .opt x => classify reg x { s with other := s.other ++ [Ty.null] }
      | x => classify reg x s := by
  cases item <;> first | rfl | exact splitStep_opt reg s _

def isStrT (reg : StrRegistry) : Ty → Bool
  | .str => true
  | .ser k => reg.types.contains k
  | _ => false
def objF : Ty → Option Fields | .obj fs => some fs | _ => none
def listE : Ty → Option Ty | .list x => some x | _ => none
def dictE : Ty → Option Ty | .dict x => some x | _ => none
/-- the members that go to `other` as they are -/
def isOth (reg : StrRegistry) : Ty → Bool
  | .obj _ | .str | .list _ | .dict _ => false
  | .ser k => !reg.types.contains k
  | _ => true

/-- what a member adds to `other` -/
def othOf (reg : StrRegistry) (t : Ty) : List Ty :=
  (if t.isOpt then [Ty.null] else []) ++ (if isOth reg (core t) then [core t] else [])

theorem classify_spec (reg : StrRegistry) (s : Split) (item : Ty) :
    classify reg item s =
      { strTypes := s.strTypes ++ (if isStrT reg item then [item] else []),
        toMerge := s.toMerge ++ (objF item).toList,
        lists := s.lists ++ (listE item).toList,
        dicts := s.dicts ++ (dictE item).toList,
        other := s.other ++ (if isOth reg item then [item] else []) } := by
  cases item <;> try (simp [classify, isStrT, objF, listE, dictE, isOth]; done)
  rename_i k
  simp only [classify, isStrT, objF, listE, dictE, isOth]
  by_cases h : k ∈ reg.types <;> simp [h]

theorem splitStep_spec (reg : StrRegistry) (s : Split) (t : Ty) :
    splitStep reg s t =
      { strTypes := s.strTypes ++ (if isStrT reg (core t) then [core t] else []),
        toMerge := s.toMerge ++ (objF (core t)).toList,
        lists := s.lists ++ (listE (core t)).toList,
        dicts := s.dicts ++ (dictE (core t)).toList,
        other := s.other ++ othOf reg t } := by
  by_cases h : t.isOpt = true
  · cases t with
    | opt x =>
      rw [splitStep_opt, classify_spec]
      simp only [othOf, Ty.isOpt, core_opt, if_true, List.append_assoc]
      rfl
    | _ => simp [Ty.isOpt] at h
  · have h : t.isOpt = false := by simpa using h
    rw [splitStep_of_not_opt reg s h, classify_spec, core_of_not_opt h]
    simp only [othOf, h, core_of_not_opt h, Bool.false_eq_true, if_false, List.nil_append]

/-- the fold in closed form -/
theorem splitFoldFrom_spec (reg : StrRegistry) : ∀ (ts : List Ty) (s : Split),
    splitFoldFrom reg s ts =
      { strTypes := s.strTypes ++ (ts.map core).filter (isStrT reg),
        toMerge := s.toMerge ++ (ts.map core).filterMap objF,
        lists := s.lists ++ (ts.map core).filterMap listE,
        dicts := s.dicts ++ (ts.map core).filterMap dictE,
        other := s.other ++ ts.flatMap (othOf reg) }
  | [], s => by simp
  | t :: ts, s => by
    rw [splitFoldFrom_cons, splitFoldFrom_spec reg ts, splitStep_spec]
    cases h1 : isStrT reg (core t) <;> cases h2 : objF (core t) <;> cases h3 : listE (core t) <;>
      cases h4 : dictE (core t) <;>
      simp [h1, h2, h3, h4, List.append_assoc]

theorem splitFold_spec (reg : StrRegistry) (ts : List Ty) :
    splitFold reg ts =
      { strTypes := (ts.map core).filter (isStrT reg), toMerge := (ts.map core).filterMap objF,
        lists := (ts.map core).filterMap listE, dicts := (ts.map core).filterMap dictE,
        other := ts.flatMap (othOf reg) } := by
  rw [splitFold_eq_from, splitFoldFrom_spec]; simp

theorem splitMembers_spec (reg : StrRegistry) (ts : List Ty) :
    splitMembers reg ts =
      { strTypes := ((flatL ts).map core).filter (isStrT reg), toMerge := ((flatL ts).map core).filterMap objF,
        lists := ((flatL ts).map core).filterMap listE, dicts := ((flatL ts).map core).filterMap dictE,
        other := (flatL ts).flatMap (othOf reg) } := by
  rw [splitMembers_eq_flat, splitFold_spec]

/-! ### invariants along the fold -/

theorem splitFoldFrom_induct {I : Split → Prop} {reg : StrRegistry} {ts : List Ty} {s : Split} (h0 : I s)
    (hstep : ∀ s t, t ∈ ts → I s → I (splitStep reg s t)) : I (splitFoldFrom reg s ts) := by
  induction ts generalizing s with
  | nil => exact h0
  | cons t ts ih =>
    rw [splitFoldFrom_cons]
    exact ih (hstep s t (by simp) h0) (fun s x hx => hstep s x (by simp [hx]))

theorem splitFold_induct {I : Split → Prop} {reg : StrRegistry} {ts : List Ty} (h0 : I {})
    (hstep : ∀ s t, t ∈ ts → I s → I (splitStep reg s t)) : I (splitFold reg ts) :=
  splitFoldFrom_induct (s := {}) h0 hstep

/-- an invariant of the split: it is enough to keep it along the steps on the members of `flatL ts` -/
theorem splitMembers_induct {I : Split → Prop} {reg : StrRegistry} {ts : List Ty} (h0 : I {})
    (hstep : ∀ s t, t ∈ flatL ts → I s → I (splitStep reg s t)) : I (splitMembers reg ts) := by
  rw [splitMembers_eq_flat]; exact splitFold_induct h0 hstep

/-- the same with a member invariant `R` that survives the descent through `Optional`/unions -/
theorem splitMembers_induct' {I : Split → Prop} {R : Ty → Prop} {reg : StrRegistry} {ts : List Ty}
    (hnull : R .null) (hopt : ∀ x, R (.opt x) → R x) (hu : ∀ ms, R (.union ms) → ∀ m ∈ ms, R m)
    (hts : ∀ t ∈ ts, R t) (h0 : I {})
    (hstep : ∀ s t, R t → hidden t = false → I s → I (splitStep reg s t)) : I (splitMembers reg ts) :=
  splitMembers_induct h0 (fun s t ht hs =>
    hstep s t (forall_flatL' hnull hopt hu hts t ht) (flatL_no_hidden ht) hs)

/-! ### membership in the categories -/

theorem exists_core_iff {ts : List Ty} {y : Ty} :
    (∃ t ∈ ts, core t = y) ↔ (y ∈ ts ∧ y.isOpt = false) ∨ Ty.opt y ∈ ts := by
  constructor
  · rintro ⟨t, ht, rfl⟩
    by_cases h : t.isOpt = true
    · cases t <;> simp [Ty.isOpt] at h; exact .inr ht
    · have h : t.isOpt = false := by simpa using h
      rw [core_of_not_opt h]; exact .inl ⟨ht, h⟩
  · rintro (⟨h, ho⟩ | h)
    · exact ⟨y, h, core_of_not_opt ho⟩
    · exact ⟨_, h, rfl⟩

theorem mem_filterMap_objF {ms : List Ty} {fs : Fields} : fs ∈ ms.filterMap objF ↔ Ty.obj fs ∈ ms := by
  simp only [List.mem_filterMap]
  constructor
  · rintro ⟨a, ha, h⟩; cases a <;> simp [objF] at h; subst h; exact ha
  · intro h; exact ⟨_, h, rfl⟩
theorem mem_filterMap_listE {ms : List Ty} {x : Ty} : x ∈ ms.filterMap listE ↔ Ty.list x ∈ ms := by
  simp only [List.mem_filterMap]
  constructor
  · rintro ⟨a, ha, h⟩; cases a <;> simp [listE] at h; subst h; exact ha
  · intro h; exact ⟨_, h, rfl⟩
theorem mem_filterMap_dictE {ms : List Ty} {x : Ty} : x ∈ ms.filterMap dictE ↔ Ty.dict x ∈ ms := by
  simp only [List.mem_filterMap]
  constructor
  · rintro ⟨a, ha, h⟩; cases a <;> simp [dictE] at h; subst h; exact ha
  · intro h; exact ⟨_, h, rfl⟩

theorem mem_map_core {ts : List Ty} {y : Ty} : y ∈ ts.map core ↔ ∃ t ∈ ts, core t = y := by
  simp [List.mem_map]

theorem mem_lists_fold {reg : StrRegistry} {ts : List Ty} {x : Ty} :
    x ∈ (splitFold reg ts).lists ↔ Ty.list x ∈ ts ∨ Ty.opt (.list x) ∈ ts := by
  rw [splitFold_spec]; simp only [mem_filterMap_listE, mem_map_core, exists_core_iff]; simp [Ty.isOpt]

theorem mem_dicts_fold {reg : StrRegistry} {ts : List Ty} {x : Ty} :
    x ∈ (splitFold reg ts).dicts ↔ Ty.dict x ∈ ts ∨ Ty.opt (.dict x) ∈ ts := by
  rw [splitFold_spec]; simp only [mem_filterMap_dictE, mem_map_core, exists_core_iff]; simp [Ty.isOpt]

theorem mem_toMerge_fold {reg : StrRegistry} {ts : List Ty} {fs : Fields} :
    fs ∈ (splitFold reg ts).toMerge ↔ Ty.obj fs ∈ ts ∨ Ty.opt (.obj fs) ∈ ts := by
  rw [splitFold_spec]; simp only [mem_filterMap_objF, mem_map_core, exists_core_iff]; simp [Ty.isOpt]

theorem isStrT_iff {reg : StrRegistry} {x : Ty} :
    isStrT reg x = true ↔ x = .str ∨ ∃ k, x = .ser k ∧ reg.types.contains k = true := by
  cases x <;> simp [isStrT]

theorem isStrT_not_opt {reg : StrRegistry} {x : Ty} (h : isStrT reg x = true) : x.isOpt = false := by
  cases x <;> simp_all [isStrT, Ty.isOpt]

theorem mem_strTypes_fold {reg : StrRegistry} {ts : List Ty} {x : Ty} :
    x ∈ (splitFold reg ts).strTypes ↔ isStrT reg x = true ∧ (x ∈ ts ∨ Ty.opt x ∈ ts) := by
  rw [splitFold_spec]; simp only [List.mem_filter, mem_map_core, exists_core_iff]
  constructor
  · rintro ⟨h | h, hs⟩
    · exact ⟨hs, .inl h.1⟩
    · exact ⟨hs, .inr h⟩
  · rintro ⟨hs, h | h⟩
    · exact ⟨.inl ⟨h, isStrT_not_opt hs⟩, hs⟩
    · exact ⟨.inr h, hs⟩

theorem mem_othOf {reg : StrRegistry} {t x : Ty} :
    x ∈ othOf reg t ↔ (x = .null ∧ t.isOpt = true) ∨ (x = core t ∧ isOth reg x = true) := by
  unfold othOf
  by_cases h1 : t.isOpt = true <;> by_cases h2 : isOth reg (core t) = true <;> simp [h1, h2]
  · constructor
    · rintro (h | rfl)
      · exact .inl h
      · exact .inr ⟨rfl, h2⟩
    · rintro (h | ⟨h, _⟩)
      · exact .inl h
      · exact .inr h
  · rintro rfl h; simp [h] at h2
  · rintro rfl; exact h2
  · rintro rfl; simpa using h2

theorem mem_other_fold {reg : StrRegistry} {ts : List Ty} {x : Ty} :
    x ∈ (splitFold reg ts).other ↔
      (x = .null ∧ ∃ t ∈ ts, t.isOpt = true) ∨ (isOth reg x = true ∧ ((x ∈ ts ∧ x.isOpt = false) ∨ Ty.opt x ∈ ts)) := by
  rw [splitFold_spec]; simp only [List.mem_flatMap, mem_othOf, ← exists_core_iff]
  constructor
  · rintro ⟨t, ht, ⟨rfl, ho⟩ | ⟨rfl, ho⟩⟩
    · exact .inl ⟨rfl, t, ht, ho⟩
    · exact .inr ⟨ho, t, ht, rfl⟩
  · rintro (⟨rfl, t, ht, ho⟩ | ⟨ho, t, ht, rfl⟩)
    · exact ⟨t, ht, .inl ⟨rfl, ho⟩⟩
    · exact ⟨t, ht, .inr ⟨rfl, ho⟩⟩

/-- every `other` entry is `.null` or a member with `Optional` taken off -/
theorem other_subset_fold {reg : StrRegistry} {ts : List Ty} {x : Ty} (h : x ∈ (splitFold reg ts).other) :
    x = .null ∨ x ∈ ts ∨ Ty.opt x ∈ ts := by
  rcases mem_other_fold.1 h with ⟨h, _⟩ | ⟨_, h | h⟩
  · exact .inl h
  · exact .inr (.inl h.1)
  · exact .inr (.inr h)

theorem other_null_iff_fold {reg : StrRegistry} {ts : List Ty} :
    Ty.null ∈ (splitFold reg ts).other ↔ ∃ t ∈ ts, t.isOpt = true ∨ t = .null := by
  rw [mem_other_fold]
  constructor
  · rintro (⟨_, t, ht, ho⟩ | ⟨_, h | h⟩)
    · exact ⟨t, ht, .inl ho⟩
    · exact ⟨_, h.1, .inr rfl⟩
    · exact ⟨_, h, .inl rfl⟩
  · rintro ⟨t, ht, ho | rfl⟩
    · exact .inl ⟨rfl, t, ht, ho⟩
    · exact .inr ⟨rfl, .inl ⟨ht, rfl⟩⟩

/-! ### the same for `splitMembers`, through `flatL` -/

theorem mem_lists {reg : StrRegistry} {ts : List Ty} {x : Ty} :
    x ∈ (splitMembers reg ts).lists ↔ Ty.list x ∈ flatL ts ∨ Ty.opt (.list x) ∈ flatL ts := by
  rw [splitMembers_eq_flat, mem_lists_fold]

theorem mem_dicts {reg : StrRegistry} {ts : List Ty} {x : Ty} :
    x ∈ (splitMembers reg ts).dicts ↔ Ty.dict x ∈ flatL ts ∨ Ty.opt (.dict x) ∈ flatL ts := by
  rw [splitMembers_eq_flat, mem_dicts_fold]

theorem mem_toMerge {reg : StrRegistry} {ts : List Ty} {fs : Fields} :
    fs ∈ (splitMembers reg ts).toMerge ↔ Ty.obj fs ∈ flatL ts ∨ Ty.opt (.obj fs) ∈ flatL ts := by
  rw [splitMembers_eq_flat, mem_toMerge_fold]

theorem mem_strTypes {reg : StrRegistry} {ts : List Ty} {x : Ty} :
    x ∈ (splitMembers reg ts).strTypes ↔ isStrT reg x = true ∧ (x ∈ flatL ts ∨ Ty.opt x ∈ flatL ts) := by
  rw [splitMembers_eq_flat, mem_strTypes_fold]

theorem mem_other {reg : StrRegistry} {ts : List Ty} {x : Ty} :
    x ∈ (splitMembers reg ts).other ↔
      (x = .null ∧ ∃ t ∈ flatL ts, t.isOpt = true) ∨
      (isOth reg x = true ∧ ((x ∈ flatL ts ∧ x.isOpt = false) ∨ Ty.opt x ∈ flatL ts)) := by
  rw [splitMembers_eq_flat, mem_other_fold]

theorem other_subset {reg : StrRegistry} {ts : List Ty} {x : Ty} (h : x ∈ (splitMembers reg ts).other) :
    x = .null ∨ x ∈ flatL ts ∨ Ty.opt x ∈ flatL ts := by
  rw [splitMembers_eq_flat] at h; exact other_subset_fold h

/-- no union is ever put in `other` (the point of the worklist) -/
theorem other_ne_union {reg : StrRegistry} {ts : List Ty} {x : Ty} (h : x ∈ (splitMembers reg ts).other)
    (ms : List Ty) : x ≠ .union ms := by
  rintro rfl
  rcases other_subset h with h | h | h
  · cases h
  · exact flatL_ne_union h ms rfl
  · have := flatL_opt_not_union h; simp [Ty.isUnion] at this

theorem split_other_null_iff {reg : StrRegistry} {ts : List Ty} :
    Ty.null ∈ (splitMembers reg ts).other ↔ ∃ t ∈ flatL ts, t.isOpt = true ∨ t = .null := by
  rw [splitMembers_eq_flat, other_null_iff_fold]

/-- in terms of `expand`, as `splitMembers_eq` states it -/
theorem split_other_null_iff_expand {reg : StrRegistry} {ts : List Ty} :
    Ty.null ∈ (splitMembers reg ts).other ↔ ∃ t ∈ expand (fuelOf ts) ts, t.isOpt = true ∨ t = .null := by
  rw [expand_fuelOf, split_other_null_iff]

/-- an `Optional` member always leaves a `.null` in the flattened list, or stays as it is -/
theorem exists_opt_flatL {ts : List Ty} (h : ∃ m ∈ ts, m.isOpt = true) : ∃ t ∈ flatL ts, t.isOpt = true ∨ t = .null := by
  obtain ⟨m, hm, ho⟩ := h
  by_cases hh : hidden m = true
  · refine ⟨.null, mem_flatL.2 ⟨m, hm, ?_⟩, .inr rfl⟩
    cases m with
    | opt y => cases y <;> first | (simp [hidden] at hh; done) | simp
    | _ => simp [Ty.isOpt] at ho
  · exact ⟨m, mem_flatL_of_mem hm (by simpa using hh), .inl ho⟩

theorem other_null_of_opt {reg : StrRegistry} {ts : List Ty} (h : ∃ m ∈ ts, m.isOpt = true) :
    Ty.null ∈ (splitMembers reg ts).other :=
  split_other_null_iff.2 (exists_opt_flatL h)


/-! ### recognising `hidden` -/

theorem hidden_iff {t : Ty} : hidden t = true ↔ (∃ ms, t = .union ms) ∨ ∃ ms, t = .opt (.union ms) := by
  cases t with
  | opt y => cases y <;> simp [hidden]
  | _ => simp [hidden]

theorem hidden_false_iff {t : Ty} : hidden t = false ↔ (∀ ms, t ≠ .union ms) ∧ ∀ ms, t ≠ .opt (.union ms) := by
  cases t with
  | opt y => cases y <;> simp [hidden]
  | _ => simp [hidden]

theorem hidden_false_of_not_opt_not_union {t : Ty} (h1 : t.isOpt = false) (h2 : t.isUnion = false) :
    hidden t = false := by
  cases t <;> simp_all [hidden, Ty.isOpt, Ty.isUnion]

theorem hidden_opt_false {y : Ty} (h : y.isUnion = false) : hidden (.opt y) = false := by
  cases y <;> simp_all [hidden, Ty.isUnion]

/-! ### sanity checks -/

example : expand 10 [.opt (.union [.int, .union [.str]]), .float] = [.null, .int, .str, .float] := by
  simp [expand]
example : flatL [.opt (.union [.int, .union [.str]]), .float, .opt (.list .int)] =
    [.null, .int, .str, .float, .opt (.list .int)] := by
  simp [flatT]
example (reg : StrRegistry) : splitMembers reg [.opt (.union [.int, .list .str]), .opt (.dict .int)] =
    { other := [.null, .int, .null], lists := [.str], dicts := [.int] } := by
  simp [splitMembers, splitMembersAux, Ty.size, Ty.sizeList]
example (reg : StrRegistry) : splitFold reg [.opt (.union [.int, .list .str])] =
    { other := [.null, .union [.int, .list .str]] } := by
  simp [splitFold]

end J2M.SplitW
