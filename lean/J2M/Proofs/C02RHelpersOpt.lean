/-
  C02 at the registry stage, part 3: `optimize_type` / `_optimize_union` keep the LAX witness `LWit`, for
  ARBITRARY (inline-dict free) types — no `Raw`/normal-form hypothesis, so the lemma applies to what
  `ModelRegistry._merge` builds from already optimised field dicts and to a second `optimize_type` pass.

  Why the lax relation: one `optimize_type` of a merged registry field can leave `Unknown` inside a `DUnion`
  (`Union[List[Optional[Any]], List[Any], List[int]] ↦ List[Optional[Union[int, Any]]]`, the single
  `types.remove(Unknown)` meets two `Unknown`s); only the final pass of `merge_models` removes it.
-/
import J2M.Proofs.C02RHelpersUnion
namespace J2M.C02RH
open J2M J2M.C02T

variable {Obj : ObjRel} {acc : Accepts}

/-! ### the split -/

/-- an entry of `other_types`: witnessed, or the `Null` that the split adds for a `DOptional` member
    (licensed like the `DOptional` was) -/
def JW (Obj : ObjRel) (acc : Accepts) (a u : Prop) (vs : List Json) (t : Ty) : Prop :=
  (t = .null ∧ (a ∨ Json.null ∈ vs)) ∨ LWit Obj acc a u t vs

theorem JW.lwit_of_nonnull {a u : Prop} {vs : List Json} {t : Ty} (h : JW Obj acc a u vs t)
    (hn : t.isNull = false) : LWit Obj acc a u t vs := by
  rcases h with ⟨rfl, _⟩ | h
  · simp [Ty.isNull] at hn
  · exact h

theorem JW.lic_of_null {a u : Prop} {vs : List Json} (h : JW Obj acc a u vs .null) : a ∨ Json.null ∈ vs := by
  rcases h with ⟨_, h⟩ | h
  · exact h
  · simp only [LWit] at h; exact .inr h

/-- provenance of the categories of the split: everything comes from a member satisfying `Q` -/
def SPr (Q : Ty → Prop) (s : Split) : Prop :=
  (∀ o ∈ s.other, Q o) ∧ (∀ fs ∈ s.toMerge, Q (.obj fs)) ∧ (∀ x ∈ s.lists, Q (.list x)) ∧
  (∀ x ∈ s.dicts, Q (.dict x)) ∧
  (∀ st ∈ s.strTypes, (st = .str ∨ ∃ k, st = .ser k) ∧ Q st)

theorem classify_pr {Q : Ty → Prop} (reg : StrRegistry) (x : Ty) (s : Split)
    (hx : Q x) (hp : SPr Q s) : SPr Q (classify reg x s) := by
  obtain ⟨p1, p2, p3, p4, p5⟩ := hp
  have e1 : ∀ (l : List Ty) (a : Ty) (R : Ty → Prop), (∀ o ∈ l, R o) → R a → ∀ o ∈ l ++ [a], R o := by
    intro l a R hl ha o ho
    rcases List.mem_append.1 ho with h | h
    · exact hl o h
    · simp at h; rw [h]; exact ha
  cases x <;> simp only [classify]
  case obj fs =>
    refine ⟨p1, ?_, p3, p4, p5⟩
    intro o ho
    rcases List.mem_append.1 ho with h | h
    · exact p2 o h
    · simp at h; rw [h]; exact hx
  case list x => exact ⟨p1, p2, e1 _ _ (fun x => Q (.list x)) p3 hx, p4, p5⟩
  case dict x => exact ⟨p1, p2, p3, e1 _ _ (fun x => Q (.dict x)) p4 hx, p5⟩
  case str => exact ⟨p1, p2, p3, p4, e1 _ _ _ p5 ⟨Or.inl rfl, hx⟩⟩
  case ser k =>
    split
    · exact ⟨p1, p2, p3, p4, e1 _ _ _ p5 ⟨Or.inr ⟨k, rfl⟩, hx⟩⟩
    · exact ⟨e1 _ _ _ p1 hx, p2, p3, p4, p5⟩
  all_goals exact ⟨e1 _ _ _ p1 hx, p2, p3, p4, p5⟩

theorem splitStep_pr {Q : Ty → Prop} (hopt : ∀ x, Q (.opt x) → Q .null ∧ Q x)
    (reg : StrRegistry) (s : Split) (m : Ty) (hm : Q m) (hp : SPr Q s) :
    SPr Q (splitStepX reg s m) := by
  cases m
  case opt x =>
    simp only [splitStepX]
    obtain ⟨hn, hx⟩ := hopt x hm
    have hp0 : SPr Q { s with other := s.other ++ [Ty.null] } := by
      obtain ⟨p1, p2, p3, p4, p5⟩ := hp
      refine ⟨?_, p2, p3, p4, p5⟩
      intro o ho
      rcases List.mem_append.1 ho with h | h
      · exact p1 o h
      · simp at h; rw [h]; exact hn
    exact classify_pr reg x _ hx hp0
  all_goals exact classify_pr reg _ s hm hp

theorem splitFold_pr {Q : Ty → Prop} (hopt : ∀ x, Q (.opt x) → Q .null ∧ Q x) (reg : StrRegistry) :
    ∀ (ms : List Ty) (s : Split), (∀ m ∈ ms, Q m) → SPr Q s → SPr Q (ms.foldl (splitStepX reg) s)
  | [], _, _, hp => hp
  | m :: ms, s, hms, hp =>
    splitFold_pr hopt reg ms _ (fun x hx => hms x (List.mem_cons_of_mem _ hx))
      (splitStep_pr hopt reg s m (hms m List.mem_cons_self) hp)

/-- "the split holds a contribution satisfying `R`": an `other` entry satisfying `R`, or any entry in one of
    the four collecting categories -/
def SHas (R : Ty → Prop) (s : Split) : Prop :=
  (∃ o ∈ s.other, R o) ∨ (∃ x, x ∈ s.toMerge) ∨ (∃ x, x ∈ s.lists) ∨ (∃ x, x ∈ s.dicts) ∨ (∃ x, x ∈ s.strTypes)

theorem SHas.mono {R : Ty → Prop} {s s' : Split} (hle : SLe s s') (h : SHas R s) : SHas R s' := by
  rcases h with ⟨o, ho, hr⟩ | ⟨x, hx⟩ | ⟨x, hx⟩ | ⟨x, hx⟩ | ⟨x, hx⟩
  · exact .inl ⟨o, hle.1 o ho, hr⟩
  · exact .inr (.inl ⟨x, hle.2.1 x hx⟩)
  · exact .inr (.inr (.inl ⟨x, hle.2.2.1 x hx⟩))
  · exact .inr (.inr (.inr (.inl ⟨x, hle.2.2.2.1 x hx⟩)))
  · exact .inr (.inr (.inr (.inr ⟨x, hle.2.2.2.2 x hx⟩)))

theorem classify_has {R : Ty → Prop} (reg : StrRegistry) (x : Ty) (s : Split) (hx : R x) :
    SHas R (classify reg x s) := by
  cases x <;> simp only [classify, SHas]
  case obj fs => exact .inr (.inl ⟨fs, by simp⟩)
  case list x => exact .inr (.inr (.inl ⟨x, by simp⟩))
  case dict x => exact .inr (.inr (.inr (.inl ⟨x, by simp⟩)))
  case str => exact .inr (.inr (.inr (.inr ⟨_, List.mem_append_right _ (List.mem_singleton.2 rfl)⟩)))
  case ser k =>
    split
    · exact .inr (.inr (.inr (.inr ⟨_, List.mem_append_right _ (List.mem_singleton.2 rfl)⟩)))
    · exact .inl ⟨_, List.mem_append_right _ (List.mem_singleton.2 rfl), hx⟩
  all_goals exact .inl ⟨_, List.mem_append_right _ (List.mem_singleton.2 rfl), hx⟩

theorem splitStepX_le (reg : StrRegistry) (s : Split) (m : Ty) : SLe s (splitStepX reg s m) := by
  cases m
  case opt x =>
    simp only [splitStepX]
    have hle0 : SLe s { s with other := s.other ++ [Ty.null] } :=
      ⟨fun o h => by simp [h], fun _ h => h, fun _ h => h, fun _ h => h, fun _ h => h⟩
    exact hle0.trans (classify_le reg x _)
  all_goals exact classify_le reg _ s

theorem splitStep_has {R : Ty → Prop} (hopt : ∀ x, R (.opt x) → R x) (reg : StrRegistry) (s : Split) (m : Ty)
    (hm : R m) : SHas R (splitStepX reg s m) := by
  cases m
  case opt x =>
    simp only [splitStepX]
    exact classify_has reg x _ (hopt x hm)
  all_goals exact classify_has reg _ s hm

theorem splitFold_le (reg : StrRegistry) : ∀ (ms : List Ty) (s : Split), SLe s (ms.foldl (splitStepX reg) s)
  | [], _ => ⟨fun _ h => h, fun _ h => h, fun _ h => h, fun _ h => h, fun _ h => h⟩
  | m :: ms, s => (splitStepX_le reg s m).trans (splitFold_le reg ms _)

/-- the fold holds a contribution as soon as one of the folded members satisfies `R` -/
theorem splitFold_has {R : Ty → Prop} (hopt : ∀ x, R (.opt x) → R x) (reg : StrRegistry) :
    ∀ (L : List Ty) (s : Split), (∃ x ∈ L, R x) → SHas R (L.foldl (splitStepX reg) s)
  | [], _, h => by obtain ⟨_, hx, _⟩ := h; cases hx
  | m :: rest, s, h => by
    rw [List.foldl_cons]
    obtain ⟨x, hx, hr⟩ := h
    rcases List.mem_cons.1 hx with rfl | hx
    · exact (splitStep_has hopt reg s x hr).mono (splitFold_le reg rest _)
    · exact splitFold_has hopt reg rest _ ⟨x, hx, hr⟩

/-- a member invariant that goes under `Optional` (also giving the `Null` of the split) and to union members
    holds of everything the worklist folds over (D21: the members of a union hidden under `Optional` too) -/
theorem forall_flatT_pr {Q : Ty → Prop} (hopt : ∀ x, Q (.opt x) → Q .null ∧ Q x)
    (hu : ∀ ms, Q (.union ms) → ∀ m ∈ ms, Q m) : ∀ (t : Ty), Q t → ∀ x ∈ SplitW.flatT t, Q x := by
  intro t
  induction t using SplitW.flat_induct with
  | hu ms ih =>
    intro h x hx; rw [SplitW.flatT_union, SplitW.mem_flatL] at hx; obtain ⟨m, hm, hx⟩ := hx
    exact ih m hm (hu ms h m hm) x hx
  | hou ms ih =>
    intro h x hx
    rw [SplitW.flatT_opt_union, List.mem_cons, SplitW.mem_flatL] at hx
    rcases hx with rfl | ⟨m, hm, hx⟩
    · exact (hopt _ h).1
    · exact ih m hm (hu ms (hopt _ h).2 m hm) x hx
  | hp t h => intro ht x hx; rw [SplitW.flatT_plain h] at hx; simp at hx; subst hx; exact ht

theorem forall_flatL_pr {Q : Ty → Prop} (hopt : ∀ x, Q (.opt x) → Q .null ∧ Q x)
    (hu : ∀ ms, Q (.union ms) → ∀ m ∈ ms, Q m) {ts : List Ty} (h : ∀ t ∈ ts, Q t) :
    ∀ x ∈ SplitW.flatL ts, Q x := by
  intro x hx; obtain ⟨t, ht, hx⟩ := SplitW.mem_flatL.1 hx
  exact forall_flatT_pr hopt hu t (h t ht) x hx

/-- a member satisfying `R` (which goes under `Optional` and to SOME member of a union) leaves an element
    satisfying `R` in the list the worklist folds over -/
theorem exists_flatT_has {R : Ty → Prop} (hopt : ∀ x, R (.opt x) → R x)
    (hu : ∀ ms, R (.union ms) → ∃ m ∈ ms, R m) : ∀ (t : Ty), R t → ∃ x ∈ SplitW.flatT t, R x := by
  intro t
  induction t using SplitW.flat_induct with
  | hu ms ih =>
    intro h
    obtain ⟨m, hm, hr⟩ := hu ms h
    obtain ⟨x, hx, hxr⟩ := ih m hm hr
    exact ⟨x, by rw [SplitW.flatT_union, SplitW.mem_flatL]; exact ⟨m, hm, hx⟩, hxr⟩
  | hou ms ih =>
    intro h
    obtain ⟨m, hm, hr⟩ := hu ms (hopt _ h)
    obtain ⟨x, hx, hxr⟩ := ih m hm hr
    exact ⟨x, by rw [SplitW.flatT_opt_union, List.mem_cons, SplitW.mem_flatL]; exact .inr ⟨m, hm, hx⟩, hxr⟩
  | hp t h => intro ht; exact ⟨t, by simp [SplitW.flatT_plain h], ht⟩

theorem splitMembers_has {R : Ty → Prop} (hopt : ∀ x, R (.opt x) → R x)
    (hu : ∀ ms, R (.union ms) → ∃ m ∈ ms, R m) (reg : StrRegistry) {ms : List Ty}
    (hne : ms ≠ []) (hms : ∀ m ∈ ms, R m) : SHas R (splitMembers reg ms) := by
  rw [splitMembers_eqX]
  obtain ⟨m, rest, rfl⟩ := List.exists_cons_of_ne_nil hne
  obtain ⟨x, hx, hr⟩ := exists_flatT_has hopt hu m (hms m List.mem_cons_self)
  exact splitFold_has hopt reg _ _ ⟨x, SplitW.mem_flatL.2 ⟨m, List.mem_cons_self, hx⟩, hr⟩

/-! ### the end of `_optimize_union` -/

/-- drop one `Unknown`, fold `Null` into `DOptional`, rebuild the union — given that every entry is witnessed or
    a licensed `Null`, and that at least one entry is witnessed -/
theorem finish_lwit {a u : Prop} {c : LitCfg} {vs : List Json} {types : List Ty} {t' : Ty}
    (h : (match types with
          | [] => Except.error PyErr.indexError
          | [t] => pure t
          | types =>
            let types := if types.any Ty.isUnknown = true then removeFirst Ty.isUnknown types else types
            let optional := types.any Ty.isNull
            let types := types.filter (fun t => !t.isNull)
            let mt := match mkUnionMembers c types with
              | [] => Ty.unknown
              | [t] => t
              | us => Ty.union us
            pure (if optional = true then mt.opt else mt) : Except PyErr Ty) = .ok t')
    (hA : ∀ t ∈ types, JW Obj acc a u vs t) (hB : ∃ t ∈ types, LWit Obj acc a u t vs) :
    LWit Obj acc a u t' vs := by
  match types, hA, hB, h with
  | [], _, _, h => simp at h
  | [t], _, hB, h =>
    simp only [Except.pure_eq_ok] at h; subst h
    obtain ⟨t0, ht0, hw⟩ := hB
    simp only [List.mem_singleton] at ht0
    subst ht0; exact hw
  | t1 :: t2 :: rest, hA, hB, h =>
    simp only [Except.pure_eq_ok] at h
    generalize hL : t1 :: t2 :: rest = L at h hA hB
    generalize hT1 : (if L.any Ty.isUnknown = true then removeFirst Ty.isUnknown L else L) = T1 at h
    have hT1sub : ∀ t ∈ T1, t ∈ L := by
      intro t ht; rw [← hT1] at ht
      split at ht
      · exact mem_of_mem_removeFirst ht
      · exact ht
    have hT1keep : ∀ t ∈ L, t.isUnknown = false → t ∈ T1 := by
      intro t ht hu; rw [← hT1]
      split
      · exact mem_removeFirst_of_not ht hu
      · exact ht
    have hT2 : ∀ t ∈ T1.filter (fun t => !t.isNull), LWit Obj acc a u t vs := by
      intro t ht
      obtain ⟨h1, h2⟩ := List.mem_filter.1 ht
      exact (hA t (hT1sub t h1)).lwit_of_nonnull (by simpa using h2)
    have hmt : (match mkUnionMembers c (T1.filter (fun t => !t.isNull)) with
              | [] => Ty.unknown
              | [t] => t
              | us => Ty.union us) = collapse0 (mkUnionMembers c (T1.filter (fun t => !t.isNull))) := rfl
    rw [hmt] at h
    have hus := mkUnion_lwit (c := c) hT2
    have hmtw : LWit Obj acc a u (collapse0 (mkUnionMembers c (T1.filter (fun t => !t.isNull)))) vs := by
      cases hu : mkUnionMembers c (T1.filter (fun t => !t.isNull)) with
      | nil =>
        simp only [collapse0, LWit]
        have hT2nil : T1.filter (fun t => !t.isNull) = [] := by
          apply Classical.byContradiction
          intro hne
          exact mkUnion_ne_nil_of_lwit (c := c) hne hT2 hu
        obtain ⟨p, hp, hpw⟩ := hB
        by_cases hpu : p.isUnknown = true
        · have : p = .unknown := by cases p <;> simp [Ty.isUnknown] at hpu; rfl
          subst this
          simpa [LWit] using hpw
        · have hp1 : p ∈ T1 := hT1keep p hp (by simpa using hpu)
          have hpn : p.isNull = true := by
            cases hn : p.isNull with
            | true => rfl
            | false =>
              have : p ∈ T1.filter (fun t => !t.isNull) := List.mem_filter.2 ⟨hp1, by simp [hn]⟩
              rw [hT2nil] at this; cases this
          have : p = .null := by cases p <;> simp [Ty.isNull] at hpn; rfl
          subst this
          simp only [LWit] at hpw
          exact .inr hpw
      | cons x xs =>
        rw [hu] at hus
        cases xs with
        | nil => simp only [collapse0]; exact hus x (by simp)
        | cons y ys => simp only [collapse0]; exact lwit_union.2 ⟨by simp, hus⟩
    subst h
    split
    · rename_i hopt
      simp only [LWit]
      refine ⟨?_, hmtw⟩
      obtain ⟨t, ht, hn⟩ := List.any_eq_true.1 hopt
      have : t = .null := by cases t <;> simp [Ty.isNull] at hn; rfl
      subst this
      exact (hA _ (hT1sub _ ht)).lic_of_null
    · exact hmtw

/-! ### the pseudo-type stage -/

theorem stage_str_lwit {a u : Prop} {vs : List Json} {reg : StrRegistry} {strTypes other other' : List Ty}
    (hst : ∀ st ∈ strTypes, (st = .str ∨ ∃ k, st = .ser k) ∧ LWit Obj acc a u st vs)
    (h : (if strTypes.any Ty.isStr = true then pure (other ++ [Ty.str])
          else if strTypes.isEmpty = true then pure other
          else
            let kinds := strTypes.filterMap (fun t => match t with | .ser k => some k | _ => none)
            do
              let r ← resolve reg kinds (kinds.length + 2)
              match r with
              | [k] => pure (other ++ [Ty.ser k])
              | [] => Except.error PyErr.stopIteration
              | _ => pure (other ++ [Ty.str]) : Except PyErr (List Ty)) = .ok other') :
    (strTypes = [] ∧ other' = other) ∨ (strTypes ≠ [] ∧ ∃ x, other' = other ++ [x] ∧ LWit Obj acc a u x vs) := by
  have hstr : ∀ st ∈ strTypes, LWit Obj acc a u .str vs := by
    intro st hst'
    obtain ⟨hk, hw⟩ := hst st hst'
    rcases hk with rfl | ⟨k, rfl⟩
    · exact hw
    · simp only [LWit] at hw ⊢
      obtain ⟨s, hs, _⟩ := hw
      exact ⟨s, hs⟩
  split at h
  · rename_i hany
    rw [Except.pure_eq_ok] at h; subst h
    obtain ⟨st, hst', _⟩ := List.any_eq_true.1 hany
    exact .inr ⟨List.ne_nil_of_mem hst', _, rfl, hstr st hst'⟩
  · rename_i hnostr
    split at h
    · rename_i hempty
      rw [Except.pure_eq_ok] at h; subst h
      exact .inl ⟨by simpa using hempty, rfl⟩
    · rename_i hne
      have hne' : strTypes ≠ [] := by simpa using hne
      obtain ⟨st0, hst0⟩ := List.exists_mem_of_ne_nil _ hne'
      simp only at h
      rw [Except.bind_eq_ok] at h
      obtain ⟨r, hr, h⟩ := h
      match r, h, hr with
      | [k], h, hr =>
        simp only [Except.pure_eq_ok] at h; subst h
        refine .inr ⟨hne', _, rfl, ?_⟩
        have := resolve_subsetX _ _ _ hr k (by simp)
        obtain ⟨st, hst', hm⟩ := List.mem_filterMap.1 this
        obtain ⟨hk, hw⟩ := hst st hst'
        rcases hk with rfl | ⟨k', rfl⟩
        · simp at hm
        · simp at hm; subst hm; exact hw
      | [], h, _ => simp at h
      | _ :: _ :: _, h, _ =>
        simp only [Except.pure_eq_ok] at h; subst h
        exact .inr ⟨hne', _, rfl, hstr st0 hst0⟩

/-! ### the main induction on fuel -/

def OptL (cfg : GenCfg) (e : EqEnv) (Obj : ObjRel) (acc : Accepts) (fuel : Nat) : Prop :=
  ∀ (a u : Prop) (t t' : Ty) (vs : List Json), LWit Obj acc a u t vs → optimize cfg e fuel t = .ok t' →
    LWit Obj acc a u t' vs

def OptUL (cfg : GenCfg) (e : EqEnv) (Obj : ObjRel) (acc : Accepts) (fuel : Nat) : Prop :=
  ∀ (a u : Prop) (ms : List Ty) (t' : Ty) (vs : List Json), ms ≠ [] → (∀ m ∈ ms, LWit Obj acc a u m vs) →
    optimizeUnion cfg e fuel ms = .ok t' → LWit Obj acc a u t' vs

variable {cfg : GenCfg} {e : EqEnv}

theorem optimizeUnion_lwit_step (fuel : Nat) (ih : OptL cfg e Obj acc fuel) : OptUL cfg e Obj acc (fuel + 1) := by
  intro a u ms t' vs hne hms h
  rw [optimizeUnion.eq_2] at h
  have hQopt : ∀ x, JW Obj acc a u vs (.opt x) → JW Obj acc a u vs .null ∧ JW Obj acc a u vs x := by
    intro x hx
    rcases hx with ⟨h0, _⟩ | hx
    · cases h0
    · simp only [LWit] at hx
      exact ⟨.inl ⟨rfl, hx.1⟩, .inr hx.2⟩
  have hprov : SPr (JW Obj acc a u vs) (splitMembers cfg.reg ms) := by
    have hQu : ∀ ms', JW Obj acc a u vs (.union ms') → ∀ m ∈ ms', JW Obj acc a u vs m := by
      intro ms' hx m hm
      rcases hx with ⟨h0, _⟩ | hx
      · cases h0
      · exact .inr ((lwit_union.1 hx).2 m hm)
    rw [splitMembers_eqX]
    exact splitFold_pr hQopt cfg.reg (SplitW.flatL ms) {}
      (forall_flatL_pr hQopt hQu (fun m hm => .inr (hms m hm))) ⟨by simp, by simp, by simp, by simp, by simp⟩
  have hhas : SHas (fun t => LWit Obj acc a u t vs) (splitMembers cfg.reg ms) :=
    splitMembers_has (R := fun t => LWit Obj acc a u t vs)
      (fun x hx => by simp only [LWit] at hx; exact hx.2)
      (fun ms' hx => by
        obtain ⟨hne', hall⟩ := lwit_union.1 hx
        obtain ⟨m, hm⟩ := List.exists_mem_of_ne_nil _ hne'
        exact ⟨m, hm, hall m hm⟩) cfg.reg hne hms
  generalize splitMembers cfg.reg ms = s at h hprov hhas
  obtain ⟨p1, p2, p3, p4, p5⟩ := hprov
  have hnil : s.toMerge = [] := by
    cases hm : s.toMerge with
    | nil => rfl
    | cons fs rest =>
      rcases p2 fs (by rw [hm]; simp) with ⟨h0, _⟩ | h0
      · cases h0
      · simp only [LWit] at h0
  rw [Except.bind_eq_ok] at h
  obtain ⟨other2, ho2, h⟩ := h
  simp only at h
  rw [Except.bind_eq_ok] at h
  obtain ⟨other5, ho5, h⟩ := h
  rw [Except.bind_eq_ok] at h
  obtain ⟨types, hty, h⟩ := h
  -- stage 1/2: int absorbed by float; no inline object
  rw [hnil] at ho2
  simp only [List.isEmpty_nil, if_true] at ho2
  rw [Except.pure_eq_ok] at ho2
  have h2A : ∀ o ∈ other2, JW Obj acc a u vs o := by
    intro o ho
    rw [← ho2] at ho
    split at ho
    · exact p1 o (mem_of_mem_removeFirst ho)
    · exact p1 o ho
  have h2B : (∃ o ∈ s.other, LWit Obj acc a u o vs) → ∃ o ∈ other2, LWit Obj acc a u o vs := by
    rintro ⟨o, ho, hw⟩
    rw [← ho2]
    split
    · rename_i hc
      by_cases hoi : o.isInt = true
      · simp only [Bool.and_eq_true] at hc
        obtain ⟨f, hf, hff⟩ := List.any_eq_true.1 hc.2
        have hfi : f.isInt = false := by cases f <;> simp [Ty.isFloat] at hff <;> rfl
        have hfn : f.isNull = false := by cases f <;> simp [Ty.isFloat] at hff <;> rfl
        exact ⟨f, mem_removeFirst_of_not hf hfi, (p1 f hf).lwit_of_nonnull hfn⟩
      · exact ⟨o, mem_removeFirst_of_not ho (by simpa using hoi), hw⟩
    · exact ⟨o, ho, hw⟩
  -- stage 3: lists
  have hLw : s.lists ≠ [] → LWit Obj acc a u (.list (mkUnion cfg.lit s.lists)) vs := by
    intro hl
    simp only [LWit]
    refine mkUnion_lwit_union hl ?_
    intro x hx
    have := (p3 x hx).lwit_of_nonnull rfl
    simpa only [LWit] using this
  have hDw : s.dicts ≠ [] → LWit Obj acc a u (.dict (mkUnion cfg.lit s.dicts)) vs := by
    intro hl
    simp only [LWit]
    refine mkUnion_lwit_union hl ?_
    intro x hx
    have := (p4 x hx).lwit_of_nonnull rfl
    simpa only [LWit] using this
  have h3 : (∀ o ∈ (if s.lists.isEmpty = true then other2 else other2 ++ [(mkUnion cfg.lit s.lists).list]),
        JW Obj acc a u vs o) ∧
      (∀ o ∈ other2, o ∈ (if s.lists.isEmpty = true then other2
        else other2 ++ [(mkUnion cfg.lit s.lists).list])) ∧
      ((∃ x, x ∈ s.lists) → ∃ o ∈ (if s.lists.isEmpty = true then other2
        else other2 ++ [(mkUnion cfg.lit s.lists).list]), LWit Obj acc a u o vs) := by
    split
    · rename_i hempty
      have : s.lists = [] := by simpa using hempty
      refine ⟨h2A, fun _ h => h, ?_⟩
      rintro ⟨x, hx⟩; rw [this] at hx; cases hx
    · rename_i hne'
      have hl : s.lists ≠ [] := by simpa using hne'
      refine ⟨?_, fun o ho => List.mem_append_left _ ho, fun _ => ⟨_, by simp, hLw hl⟩⟩
      intro o ho
      rcases List.mem_append.1 ho with h | h
      · exact h2A o h
      · simp at h; subst h; exact .inr (hLw hl)
  generalize (if s.lists.isEmpty = true then other2 else other2 ++ [(mkUnion cfg.lit s.lists).list]) = other3
    at h3 ho5
  obtain ⟨h3A, h3sub, h3B⟩ := h3
  -- stage 4: dicts
  have h4 : (∀ o ∈ (if s.dicts.isEmpty = true then other3 else other3 ++ [(mkUnion cfg.lit s.dicts).dict]),
        JW Obj acc a u vs o) ∧
      (∀ o ∈ other3, o ∈ (if s.dicts.isEmpty = true then other3
        else other3 ++ [(mkUnion cfg.lit s.dicts).dict])) ∧
      ((∃ x, x ∈ s.dicts) → ∃ o ∈ (if s.dicts.isEmpty = true then other3
        else other3 ++ [(mkUnion cfg.lit s.dicts).dict]), LWit Obj acc a u o vs) := by
    split
    · rename_i hempty
      have : s.dicts = [] := by simpa using hempty
      refine ⟨h3A, fun _ h => h, ?_⟩
      rintro ⟨x, hx⟩; rw [this] at hx; cases hx
    · rename_i hne'
      have hl : s.dicts ≠ [] := by simpa using hne'
      refine ⟨?_, fun o ho => List.mem_append_left _ ho, fun _ => ⟨_, by simp, hDw hl⟩⟩
      intro o ho
      rcases List.mem_append.1 ho with h | h
      · exact h3A o h
      · simp at h; subst h; exact .inr (hDw hl)
  generalize (if s.dicts.isEmpty = true then other3 else other3 ++ [(mkUnion cfg.lit s.dicts).dict]) = other4
    at h4 ho5
  obtain ⟨h4A, h4sub, h4B⟩ := h4
  -- stage 5: pseudo-types
  have hp5 : ∀ st ∈ s.strTypes, (st = .str ∨ ∃ k, st = .ser k) ∧ LWit Obj acc a u st vs := by
    intro st hst
    obtain ⟨hk, hq⟩ := p5 st hst
    refine ⟨hk, hq.lwit_of_nonnull ?_⟩
    rcases hk with rfl | ⟨k, rfl⟩ <;> rfl
  have h5 : (∀ o ∈ other5, JW Obj acc a u vs o) ∧ ∃ o ∈ other5, LWit Obj acc a u o vs := by
    rcases stage_str_lwit hp5 ho5 with ⟨hs0, rfl⟩ | ⟨_, x, rfl, hxw⟩
    · refine ⟨h4A, ?_⟩
      rcases hhas with hh | ⟨x, hx⟩ | hh | hh | ⟨x, hx⟩
      · obtain ⟨o, ho, hw⟩ := h2B hh
        exact ⟨o, h4sub o (h3sub o ho), hw⟩
      · rw [hnil] at hx; cases hx
      · obtain ⟨o, ho, hw⟩ := h3B hh
        exact ⟨o, h4sub o ho, hw⟩
      · exact h4B hh
      · rw [hs0] at hx; cases hx
    · refine ⟨?_, x, by simp, hxw⟩
      intro o ho
      rcases List.mem_append.1 ho with h | h
      · exact h4A o h
      · simp at h; subst h; exact .inr hxw
  obtain ⟨h5A, o5, ho5m, ho5w⟩ := h5
  -- stage 6: the entries are optimised
  obtain ⟨hm1, hm2⟩ := mapM_ok_memX other5 types hty
  have hA : ∀ t ∈ types, JW Obj acc a u vs t := by
    intro t ht
    obtain ⟨o, ho, hf⟩ := hm2 t ht
    rcases h5A o ho with ⟨rfl, hN⟩ | hw
    · cases fuel with
      | zero => simp [optimize] at hf
      | succ n =>
        simp only [optimize, Except.pure_eq_ok] at hf
        subst hf
        exact .inl ⟨rfl, hN⟩
    · exact .inr (ih a u o t vs hw hf)
  have hB : ∃ t ∈ types, LWit Obj acc a u t vs := by
    obtain ⟨t, ht, hf⟩ := hm1 o5 ho5m
    exact ⟨t, ht, ih a u o5 t vs ho5w hf⟩
  exact finish_lwit h hA hB

theorem lwit_opt {a u : Prop} {t : Ty} {vs : List Json} :
    LWit Obj acc a u (.opt t) vs ↔ (a ∨ Json.null ∈ vs) ∧ LWit Obj acc a u t vs := by rw [LWit]
theorem lwit_list {a u : Prop} {t : Ty} {vs : List Json} :
    LWit Obj acc a u (.list t) vs ↔ LWit Obj acc False (Json.arr [] ∈ vs) t (elemsOf vs) := by rw [LWit]
theorem lwit_dict {a u : Prop} {t : Ty} {vs : List Json} :
    LWit Obj acc a u (.dict t) vs ↔ LWit Obj acc False (Json.obj [] ∈ vs) t (valsOf vs) := by rw [LWit]

theorem optimize_lwit_step (fuel : Nat) (ih : OptL cfg e Obj acc fuel) (ihU : OptUL cfg e Obj acc fuel) :
    OptL cfg e Obj acc (fuel + 1) := by
  intro a u t t' vs hw h
  cases t
  case obj fs => simp only [LWit] at hw
  case tuple ts => simp only [LWit] at hw
  case union ts =>
    rw [optimize.eq_3] at h
    obtain ⟨hne, hms⟩ := lwit_union.1 hw
    exact ihU a u ts t' vs hne hms h
  case opt x =>
    rw [optimize.eq_4, Except.bind_eq_ok] at h
    obtain ⟨y, hy, h⟩ := h
    obtain ⟨hN, hx⟩ := lwit_opt.1 hw
    have hyw := ih a u x y vs hx hy
    cases y <;> simp only [Except.pure_eq_ok] at h <;> subst h
    case opt z => exact hyw
    all_goals exact lwit_opt.2 ⟨hN, hyw⟩
  case list x =>
    simp only [optimize] at h
    rw [Except.bind_eq_ok] at h
    obtain ⟨y, hy, h⟩ := h
    rw [Except.pure_eq_ok] at h; subst h
    exact lwit_list.2 (ih _ _ x y _ (lwit_list.1 hw) hy)
  case dict x =>
    simp only [optimize] at h
    rw [Except.bind_eq_ok] at h
    obtain ⟨y, hy, h⟩ := h
    rw [Except.pure_eq_ok] at h; subst h
    exact lwit_dict.2 (ih _ _ x y _ (lwit_dict.1 hw) hy)
  case lit o ws =>
    rw [optimize.eq_8] at h
    split at h
    · rename_i hc
      rw [Except.pure_eq_ok] at h; subst h
      cases o
      · simp only [LWit] at hw
        simp only [Bool.false_or, List.isEmpty_iff] at hc
        exact absurd hc hw.1
      · simpa only [LWit] using hw
    · rw [Except.pure_eq_ok] at h; subst h; exact hw
  all_goals
    simp only [optimize, Except.pure_eq_ok] at h
    subst h
    exact hw

/-- **`optimize_lwit`**: `optimize_type` and `_optimize_union` keep a (laxly) witnessed type witnessed — same
    values, same licences, same attribution; any fuel, any `==`, no normal-form hypothesis. -/
theorem optimize_lwit_all (cfg : GenCfg) (e : EqEnv) (Obj : ObjRel) (acc : Accepts) :
    ∀ fuel, OptL cfg e Obj acc fuel ∧ OptUL cfg e Obj acc fuel := by
  intro fuel
  induction fuel with
  | zero =>
    exact ⟨fun _ _ t t' _ _ h => by simp [optimize] at h, fun _ _ ms t' _ _ _ h => by simp [optimizeUnion] at h⟩
  | succ fuel ih =>
    exact ⟨optimize_lwit_step fuel ih.1 ih.2, optimizeUnion_lwit_step fuel ih.1⟩

theorem optimize_lwit {cfg : GenCfg} {e : EqEnv} {fuel : Nat} {a u : Prop} {t t' : Ty} {vs : List Json}
    (hw : LWit Obj acc a u t vs) (h : optimize cfg e fuel t = .ok t') : LWit Obj acc a u t' vs :=
  (optimize_lwit_all cfg e Obj acc fuel).1 a u t t' vs hw h

/-- `optimize_type` on a (laxly) witnessed field dict: a witnessed field dict over the same objects -/
theorem optimize_obj_lmodel {cfg : GenCfg} {e : EqEnv} {fuel : Nat} {F : Fields} {t' : Ty} {ws : List Json}
    (hF : LModel Obj acc F ws) (h : optimize cfg e fuel (.obj F) = .ok t') :
    ∃ F', t' = .obj F' ∧ F'.map (·.1) = F.map (·.1) ∧ LModel Obj acc F' ws := by
  obtain ⟨n, fs', rfl, rfl, hk, hr⟩ := J2M.optimize_obj h
  have hk' : fs'.map (·.1) = F.map (·.1) := hk
  refine ⟨fs', rfl, hk', ?_, ?_⟩
  · rw [hk']; exact hF.1
  · intro kv hkv
    obtain ⟨a0, ha0, hk1, ho⟩ := J2M.forall₂_mem_right hr hkv
    rw [hk1]
    exact optimize_lwit (hF.2 a0 ha0) ho

end J2M.C02RH
