/-
  Helper development for property C05: the grouping loop of `merge_models`
  (`J2M.Closure.mergeGroups`) computes the connected components (with an edge) of the similarity graph.
  Core Lean only.
-/
import J2M.Closure
namespace J2M.Closure

/-! ### canonical groups: `insNat`, `canon`, `gUnion`, `gOverlap` -/

abbrev Sorted (l : List Nat) : Prop := l.Pairwise (· < ·)

theorem mem_insNat {x y : Nat} {l : List Nat} : y ∈ insNat x l ↔ y = x ∨ y ∈ l := by
  induction l with
  | nil => simp [insNat]
  | cons z zs ih =>
    simp only [insNat]
    split
    · simp
    · split
      · subst_vars; simp
      · simp only [List.mem_cons, ih]
        constructor
        · rintro (h | h | h) <;> simp [h]
        · rintro (h | h | h) <;> simp [h]

theorem sorted_insNat {x : Nat} {l : List Nat} (h : Sorted l) : Sorted (insNat x l) := by
  induction l with
  | nil => simp [insNat, Sorted]
  | cons z zs ih =>
    have hz := List.pairwise_cons.mp h
    simp only [insNat]
    split
    · rename_i hxz
      refine List.pairwise_cons.mpr ⟨?_, h⟩
      intro y hy
      rcases List.mem_cons.mp hy with rfl | hy
      · exact hxz
      · exact Nat.lt_trans hxz (hz.1 y hy)
    · split
      · exact h
      · rename_i h1 h2
        refine List.pairwise_cons.mpr ⟨?_, ih hz.2⟩
        intro y hy
        rcases mem_insNat.mp hy with rfl | hy
        · omega
        · exact hz.1 y hy

theorem mem_foldl_insNat {y : Nat} (xs acc : List Nat) :
    y ∈ xs.foldl (fun acc x => insNat x acc) acc ↔ y ∈ xs ∨ y ∈ acc := by
  induction xs generalizing acc with
  | nil => simp
  | cons x xs ih =>
    simp only [List.foldl_cons, ih, mem_insNat, List.mem_cons]
    constructor
    · rintro (h | h | h) <;> simp [h]
    · rintro ((h | h) | h) <;> simp [h]

theorem sorted_foldl_insNat (xs acc : List Nat) (h : Sorted acc) :
    Sorted (xs.foldl (fun acc x => insNat x acc) acc) := by
  induction xs generalizing acc with
  | nil => simpa
  | cons x xs ih => exact ih _ (sorted_insNat h)

theorem mem_canon {y : Nat} {xs : List Nat} : y ∈ canon xs ↔ y ∈ xs := by
  simp [canon, mem_foldl_insNat]

theorem sorted_canon (xs : List Nat) : Sorted (canon xs) :=
  sorted_foldl_insNat xs [] List.Pairwise.nil

theorem mem_gUnion {a b : Grp} {x : Nat} : x ∈ gUnion a b ↔ x ∈ a ∨ x ∈ b := by
  simp [gUnion, mem_canon]

theorem sorted_gUnion (a b : Grp) : Sorted (gUnion a b) := sorted_canon _

theorem gOverlap_iff {a b : Grp} : gOverlap a b = true ↔ ∃ x, x ∈ a ∧ x ∈ b := by
  simp [gOverlap, List.any_eq_true]

theorem gOverlap_false_iff {a b : Grp} : gOverlap a b = false ↔ ∀ x, x ∈ a → x ∉ b := by
  rw [← Bool.not_eq_true, gOverlap_iff]; simp

theorem gOverlap_symm {a b : Grp} (h : gOverlap a b = true) : gOverlap b a = true := by
  obtain ⟨x, h1, h2⟩ := gOverlap_iff.mp h
  exact gOverlap_iff.mpr ⟨x, h2, h1⟩

theorem Sorted.nodup {l : List Nat} (h : Sorted l) : l.Nodup :=
  List.Pairwise.imp (fun h => Nat.ne_of_lt h) h

/-- a duplicate-free list included in another one is not longer -/
theorem length_le_of_subset : ∀ (a b : List Nat), a.Nodup → (∀ x ∈ a, x ∈ b) → a.length ≤ b.length
  | [], _, _, _ => Nat.zero_le _
  | x :: a, b, nd, sub => by
    have hnd := List.nodup_cons.mp nd
    have hx : x ∈ b := sub x (List.mem_cons_self)
    have ih := length_le_of_subset a (b.erase x) hnd.2 (by
      intro y hy
      have hne : y ≠ x := fun e => hnd.1 (e ▸ hy)
      exact (List.mem_erase_of_ne hne).mpr (sub y (List.mem_cons_of_mem _ hy)))
    have hl := List.length_erase_of_mem hx
    have hpos : 0 < b.length := List.length_pos_of_mem hx
    simp only [List.length_cons]
    omega

/-- … and if it is at least as long, the inclusion is an equality of sets -/
theorem subset_of_length_le {a b : List Nat} (nd : a.Nodup) (sub : ∀ x ∈ a, x ∈ b)
    (hl : b.length ≤ a.length) : ∀ y ∈ b, y ∈ a := by
  intro y hy
  apply Classical.byContradiction
  intro hya
  have h1 := length_le_of_subset a (b.erase y) nd (by
    intro x hx
    have hne : x ≠ y := fun e => hya (e ▸ hx)
    exact (List.mem_erase_of_ne hne).mpr (sub x hx))
  have h2 := List.length_erase_of_mem hy
  have hpos : 0 < b.length := List.length_pos_of_mem hy
  omega

theorem sorted_ext {a b : List Nat} (ha : Sorted a) (hb : Sorted b) (h : ∀ x, x ∈ a ↔ x ∈ b) : a = b := by
  have hp : a.Perm b := (List.perm_ext_iff_of_nodup ha.nodup hb.nodup).mpr h
  exact List.Perm.eq_of_pairwise (le := (· < ·)) (fun x y _ _ h1 h2 => by omega) ha hb hp

theorem length_le_of_bound {g : List Nat} {n : Nat} (hs : g.Nodup) (hb : ∀ x ∈ g, x < n) : g.length ≤ n := by
  have := length_le_of_subset g (List.range n) hs (fun x hx => List.mem_range.mpr (hb x hx))
  simpa using this

/-! ### `osAdd` -/

theorem mem_osAdd {s : List Grp} {g u : Grp} : u ∈ (osAdd s g).1 ↔ u ∈ s ∨ u = g := by
  unfold osAdd
  split
  · rename_i h
    have hg : g ∈ s := by simpa using h
    constructor
    · exact Or.inl
    · rintro (h | rfl)
      · exact h
      · exact hg
  · simp

theorem nodup_osAdd {s : List Grp} {g : Grp} (h : s.Nodup) : (osAdd s g).1.Nodup := by
  unfold osAdd
  split
  · exact h
  · rename_i hc
    have hg : g ∉ s := by simpa using hc
    refine List.nodup_append.mpr ⟨h, by simp, ?_⟩
    intro a ha b hb
    have : b = g := by simpa using hb
    subst this
    exact fun e => hg (e ▸ ha)

theorem osAdd_false {s : List Grp} {g : Grp} (h : (osAdd s g).2 = false) : g ∈ s ∧ (osAdd s g).1 = s := by
  unfold osAdd at h ⊢
  by_cases hc : s.contains g = true
  · rw [if_pos hc]; exact ⟨by simpa using hc, rfl⟩
  · rw [if_neg hc] at h; cases h

/-! ### the inner `for gr2 in groups` loop -/

/-- `gr2` (at position `q.2`) is a different object than `gr1` (position `i`) and intersects it -/
def Hit (i : Nat) (g1 : Grp) (q : Grp × Nat) : Prop := q.2 ≠ i ∧ gOverlap g1 q.1 = true

instance (i : Nat) (g1 : Grp) (q : Grp × Nat) : Decidable (Hit i g1 q) := by unfold Hit; infer_instance

def innerStep (i : Nat) (g1 : Grp) (acc : List Grp × Bool × Bool) (gj : Grp × Nat) : List Grp × Bool × Bool :=
  if gj.2 = i then acc
  else if gOverlap g1 gj.1 then
    let r := osAdd acc.1 (gUnion g1 gj.1)
    (r.1, acc.2.1 || r.2, true)
  else acc

theorem inner_eq (groups : List Grp) (i : Nat) (g1 : Grp) (st : List Grp × Bool) :
    inner groups i g1 st = groups.zipIdx.foldl (innerStep i g1) (st.1, st.2, false) := rfl

theorem innerStep_hit {i : Nat} {g1 : Grp} {s : List Grp × Bool × Bool} {q : Grp × Nat} (h : Hit i g1 q) :
    innerStep i g1 s q =
      ((osAdd s.1 (gUnion g1 q.1)).1, (s.2.1 || (osAdd s.1 (gUnion g1 q.1)).2), true) := by
  unfold innerStep; simp [h.1, h.2]

theorem innerStep_miss {i : Nat} {g1 : Grp} {s : List Grp × Bool × Bool} {q : Grp × Nat} (h : ¬ Hit i g1 q) :
    innerStep i g1 s q = s := by
  unfold innerStep
  by_cases h1 : q.2 = i
  · simp [h1]
  · have : gOverlap g1 q.1 = false := by
      cases hh : gOverlap g1 q.1
      · rfl
      · exact absurd ⟨h1, hh⟩ h
    simp [h1, this]

section InnerFold
variable {i : Nat} {g1 : Grp}

theorem inner_nohit (l : List (Grp × Nat)) (s : List Grp × Bool × Bool) (h : ∀ q ∈ l, ¬ Hit i g1 q) :
    l.foldl (innerStep i g1) s = s := by
  induction l generalizing s with
  | nil => rfl
  | cons q l ih =>
    rw [List.foldl_cons, innerStep_miss (h q List.mem_cons_self)]
    exact ih s (fun q' hq' => h q' (List.mem_cons_of_mem _ hq'))

theorem inner_mem (l : List (Grp × Nat)) (s : List Grp × Bool × Bool) {u : Grp}
    (hu : u ∈ (l.foldl (innerStep i g1) s).1) :
    u ∈ s.1 ∨ ∃ q ∈ l, Hit i g1 q ∧ u = gUnion g1 q.1 := by
  induction l generalizing s with
  | nil => exact Or.inl hu
  | cons q l ih =>
    rw [List.foldl_cons] at hu
    by_cases hq : Hit i g1 q
    · rw [innerStep_hit hq] at hu
      rcases ih _ hu with h | ⟨q', hq', h1, h2⟩
      · rcases mem_osAdd.mp h with h | h
        · exact Or.inl h
        · exact Or.inr ⟨q, List.mem_cons_self, hq, h⟩
      · exact Or.inr ⟨q', List.mem_cons_of_mem _ hq', h1, h2⟩
    · rw [innerStep_miss hq] at hu
      rcases ih _ hu with h | ⟨q', hq', h1, h2⟩
      · exact Or.inl h
      · exact Or.inr ⟨q', List.mem_cons_of_mem _ hq', h1, h2⟩

theorem inner_mono (l : List (Grp × Nat)) (s : List Grp × Bool × Bool) {u : Grp} (hu : u ∈ s.1) :
    u ∈ (l.foldl (innerStep i g1) s).1 := by
  induction l generalizing s with
  | nil => exact hu
  | cons q l ih =>
    rw [List.foldl_cons]
    by_cases hq : Hit i g1 q
    · rw [innerStep_hit hq]; exact ih _ (mem_osAdd.mpr (Or.inl hu))
    · rw [innerStep_miss hq]; exact ih _ hu

theorem inner_hit_mem (l : List (Grp × Nat)) (s : List Grp × Bool × Bool) {q : Grp × Nat}
    (hq : q ∈ l) (hh : Hit i g1 q) : gUnion g1 q.1 ∈ (l.foldl (innerStep i g1) s).1 := by
  induction l generalizing s with
  | nil => cases hq
  | cons q' l ih =>
    rw [List.foldl_cons]
    rcases List.mem_cons.mp hq with rfl | hq
    · rw [innerStep_hit hh]; exact inner_mono _ _ (mem_osAdd.mpr (Or.inr rfl))
    · exact ih _ hq

theorem inner_inset (l : List (Grp × Nat)) (s : List Grp × Bool × Bool) :
    (l.foldl (innerStep i g1) s).2.2 = true ↔ s.2.2 = true ∨ ∃ q ∈ l, Hit i g1 q := by
  induction l generalizing s with
  | nil => simp
  | cons q l ih =>
    rw [List.foldl_cons, ih]
    by_cases hq : Hit i g1 q
    · rw [innerStep_hit hq]
      constructor
      · intro _; exact Or.inr ⟨q, List.mem_cons_self, hq⟩
      · intro _; exact Or.inl rfl
    · rw [innerStep_miss hq]
      constructor
      · rintro (h | ⟨q', hq', h⟩)
        · exact Or.inl h
        · exact Or.inr ⟨q', List.mem_cons_of_mem _ hq', h⟩
      · rintro (h | ⟨q', hq', h⟩)
        · exact Or.inl h
        · rcases List.mem_cons.mp hq' with rfl | hq'
          · exact absurd h hq
          · exact Or.inr ⟨q', hq', h⟩

theorem inner_flag_false (l : List (Grp × Nat)) (s : List Grp × Bool × Bool)
    (h : (l.foldl (innerStep i g1) s).2.1 = false) :
    s.2.1 = false ∧ (l.foldl (innerStep i g1) s).1 = s.1 ∧ ∀ q ∈ l, Hit i g1 q → gUnion g1 q.1 ∈ s.1 := by
  induction l generalizing s with
  | nil => exact ⟨h, rfl, fun _ hq => by cases hq⟩
  | cons q l ih =>
    rw [List.foldl_cons] at h ⊢
    by_cases hq : Hit i g1 q
    · rw [innerStep_hit hq] at h ⊢
      obtain ⟨h1, h2, h3⟩ := ih _ h
      simp only [Bool.or_eq_false_iff] at h1
      obtain ⟨hin, heq⟩ := osAdd_false h1.2
      refine ⟨h1.1, by rw [h2]; exact heq, ?_⟩
      intro q' hq' hh
      rcases List.mem_cons.mp hq' with rfl | hq'
      · exact hin
      · have := h3 q' hq' hh
        rw [heq] at this; exact this
    · rw [innerStep_miss hq] at h ⊢
      obtain ⟨h1, h2, h3⟩ := ih _ h
      refine ⟨h1, h2, ?_⟩
      intro q' hq' hh
      rcases List.mem_cons.mp hq' with rfl | hq'
      · exact absurd hh hq
      · exact h3 q' hq' hh

theorem inner_flag_true (l : List (Grp × Nat)) (s : List Grp × Bool × Bool)
    (h : (l.foldl (innerStep i g1) s).2.1 = true) : s.2.1 = true ∨ ∃ q ∈ l, Hit i g1 q := by
  by_cases hex : ∃ q ∈ l, Hit i g1 q
  · exact Or.inr hex
  · have : ∀ q ∈ l, ¬ Hit i g1 q := fun q hq hh => hex ⟨q, hq, hh⟩
    rw [inner_nohit l s this] at h
    exact Or.inl h

theorem inner_nodup (l : List (Grp × Nat)) (s : List Grp × Bool × Bool) (h : s.1.Nodup) :
    (l.foldl (innerStep i g1) s).1.Nodup := by
  induction l generalizing s with
  | nil => exact h
  | cons q l ih =>
    rw [List.foldl_cons]
    by_cases hq : Hit i g1 q
    · rw [innerStep_hit hq]; exact ih _ (nodup_osAdd h)
    · rw [innerStep_miss hq]; exact ih _ h

end InnerFold

/-! ### one pass of the `while flag` body -/

def roundStep (L : List (Grp × Nat)) (st : List Grp × Bool) (gi : Grp × Nat) : List Grp × Bool :=
  let r := L.foldl (innerStep gi.2 gi.1) (st.1, st.2, false)
  if r.2.2 then (r.1, r.2.1) else ((osAdd r.1 gi.1).1, r.2.1)

theorem round_eq (groups : List Grp) :
    round groups = groups.zipIdx.foldl (roundStep groups.zipIdx) ([], false) := rfl

/-- position `p.2` intersects no group at another position -/
def Iso (L : List (Grp × Nat)) (p : Grp × Nat) : Prop := ∀ q ∈ L, ¬ Hit p.2 p.1 q

theorem roundStep_iso {L : List (Grp × Nat)} {st : List Grp × Bool} {p : Grp × Nat} (h : Iso L p) :
    roundStep L st p = ((osAdd st.1 p.1).1, st.2) := by
  unfold roundStep
  rw [inner_nohit L _ h]
  simp

theorem roundStep_hit {L : List (Grp × Nat)} {st : List Grp × Bool} {p : Grp × Nat} (h : ¬ Iso L p) :
    roundStep L st p = ((L.foldl (innerStep p.2 p.1) (st.1, st.2, false)).1,
                        (L.foldl (innerStep p.2 p.1) (st.1, st.2, false)).2.1) := by
  have hex : ∃ q ∈ L, Hit p.2 p.1 q := by
    apply Classical.byContradiction
    intro hne
    exact h (fun q hq hh => hne ⟨q, hq, hh⟩)
  have : (L.foldl (innerStep p.2 p.1) (st.1, st.2, false)).2.2 = true :=
    (inner_inset L _).mpr (Or.inr hex)
  unfold roundStep
  simp only [this, if_true]

theorem not_iso {L : List (Grp × Nat)} {p : Grp × Nat} (h : ¬ Iso L p) : ∃ q ∈ L, Hit p.2 p.1 q := by
  apply Classical.byContradiction
  intro hne
  exact h (fun q hq hh => hne ⟨q, hq, hh⟩)

section RoundFold
variable {L : List (Grp × Nat)}

theorem rs_mem {st : List Grp × Bool} {p : Grp × Nat} {u : Grp} (hu : u ∈ (roundStep L st p).1) :
    u ∈ st.1 ∨ (Iso L p ∧ u = p.1) ∨ (∃ q ∈ L, Hit p.2 p.1 q ∧ u = gUnion p.1 q.1) := by
  by_cases hi : Iso L p
  · rw [roundStep_iso hi] at hu
    rcases mem_osAdd.mp hu with h | h
    · exact Or.inl h
    · exact Or.inr (Or.inl ⟨hi, h⟩)
  · rw [roundStep_hit hi] at hu
    rcases inner_mem L _ hu with h | h
    · exact Or.inl h
    · exact Or.inr (Or.inr h)

theorem rs_mono {st : List Grp × Bool} {p : Grp × Nat} {u : Grp} (hu : u ∈ st.1) :
    u ∈ (roundStep L st p).1 := by
  by_cases hi : Iso L p
  · rw [roundStep_iso hi]; exact mem_osAdd.mpr (Or.inl hu)
  · rw [roundStep_hit hi]; exact inner_mono L _ hu

theorem rs_nodup {st : List Grp × Bool} {p : Grp × Nat} (h : st.1.Nodup) : (roundStep L st p).1.Nodup := by
  by_cases hi : Iso L p
  · rw [roundStep_iso hi]; exact nodup_osAdd h
  · rw [roundStep_hit hi]; exact inner_nodup L _ h

theorem round_mem (l : List (Grp × Nat)) (st : List Grp × Bool) {u : Grp}
    (hu : u ∈ (l.foldl (roundStep L) st).1) :
    u ∈ st.1 ∨ (∃ p ∈ l, Iso L p ∧ u = p.1) ∨ (∃ p ∈ l, ∃ q ∈ L, Hit p.2 p.1 q ∧ u = gUnion p.1 q.1) := by
  induction l generalizing st with
  | nil => exact Or.inl hu
  | cons p l ih =>
    rw [List.foldl_cons] at hu
    rcases ih _ hu with h | ⟨p', hp', h⟩ | ⟨p', hp', h⟩
    · rcases rs_mem h with h | h | h
      · exact Or.inl h
      · exact Or.inr (Or.inl ⟨p, List.mem_cons_self, h⟩)
      · exact Or.inr (Or.inr ⟨p, List.mem_cons_self, h⟩)
    · exact Or.inr (Or.inl ⟨p', List.mem_cons_of_mem _ hp', h⟩)
    · exact Or.inr (Or.inr ⟨p', List.mem_cons_of_mem _ hp', h⟩)

theorem round_mono (l : List (Grp × Nat)) (st : List Grp × Bool) {u : Grp} (hu : u ∈ st.1) :
    u ∈ (l.foldl (roundStep L) st).1 := by
  induction l generalizing st with
  | nil => exact hu
  | cons p l ih => rw [List.foldl_cons]; exact ih _ (rs_mono hu)

theorem round_nodup (l : List (Grp × Nat)) (st : List Grp × Bool) (h : st.1.Nodup) :
    (l.foldl (roundStep L) st).1.Nodup := by
  induction l generalizing st with
  | nil => exact h
  | cons p l ih => rw [List.foldl_cons]; exact ih _ (rs_nodup h)

theorem round_keep_iso (l : List (Grp × Nat)) (st : List Grp × Bool) {p : Grp × Nat}
    (hp : p ∈ l) (hi : Iso L p) : p.1 ∈ (l.foldl (roundStep L) st).1 := by
  induction l generalizing st with
  | nil => cases hp
  | cons p' l ih =>
    rw [List.foldl_cons]
    rcases List.mem_cons.mp hp with rfl | hp
    · apply round_mono
      rw [roundStep_iso hi]; exact mem_osAdd.mpr (Or.inr rfl)
    · exact ih _ hp

theorem round_keep_hit (l : List (Grp × Nat)) (st : List Grp × Bool) {p q : Grp × Nat}
    (hp : p ∈ l) (hq : q ∈ L) (hh : Hit p.2 p.1 q) : gUnion p.1 q.1 ∈ (l.foldl (roundStep L) st).1 := by
  induction l generalizing st with
  | nil => cases hp
  | cons p' l ih =>
    rw [List.foldl_cons]
    rcases List.mem_cons.mp hp with rfl | hp
    · apply round_mono
      have hi : ¬ Iso L p := fun hi => hi q hq hh
      rw [roundStep_hit hi]; exact inner_hit_mem L _ hq hh
    · exact ih _ hp

theorem rs_flag_true {st : List Grp × Bool} {p : Grp × Nat} (h : (roundStep L st p).2 = true) :
    st.2 = true ∨ ∃ q ∈ L, Hit p.2 p.1 q := by
  by_cases hi : Iso L p
  · rw [roundStep_iso hi] at h; exact Or.inl h
  · exact Or.inr (not_iso hi)

theorem round_flag_true (l : List (Grp × Nat)) (st : List Grp × Bool)
    (h : (l.foldl (roundStep L) st).2 = true) :
    st.2 = true ∨ ∃ p ∈ l, ∃ q ∈ L, Hit p.2 p.1 q := by
  induction l generalizing st with
  | nil => exact Or.inl h
  | cons p l ih =>
    rw [List.foldl_cons] at h
    rcases ih _ h with h | ⟨p', hp', h⟩
    · rcases rs_flag_true h with h | h
      · exact Or.inl h
      · exact Or.inr ⟨p, List.mem_cons_self, h⟩
    · exact Or.inr ⟨p', List.mem_cons_of_mem _ hp', h⟩

/-- The exit fact.  If the pass ends with `flag = false` then every scanned position is isolated: the first
non-isolated position would have to find its union already in `new_groups`, which so far holds only isolated
old groups – but a union of two overlapping groups cannot be isolated. -/
theorem round_flag_false (l : List (Grp × Nat)) (st : List Grp × Bool)
    (h : (l.foldl (roundStep L) st).2 = false)
    (hacc : ∀ u ∈ st.1, ∃ p ∈ L, Iso L p ∧ u = p.1) (hl : ∀ p ∈ l, p ∈ L) :
    st.2 = false ∧ ∀ p ∈ l, Iso L p := by
  induction l generalizing st with
  | nil => exact ⟨h, fun _ hp => by cases hp⟩
  | cons p l ih =>
    rw [List.foldl_cons] at h
    have hpL : p ∈ L := hl p List.mem_cons_self
    have hl' : ∀ p' ∈ l, p' ∈ L := fun p' hp' => hl p' (List.mem_cons_of_mem _ hp')
    -- `p` is isolated
    have key : (roundStep L st p).2 = false → Iso L p := by
      intro hf
      apply Classical.byContradiction
      intro hi
      rw [roundStep_hit hi] at hf
      obtain ⟨_, _, h3⟩ := inner_flag_false L _ hf
      obtain ⟨q, hq, hh⟩ := not_iso hi
      obtain ⟨pk, hpk, hik, huk⟩ := hacc _ (h3 q hq hh)
      -- the isolated `pk` equals `p ∪ q`, hence meets both
      obtain ⟨x, hx1, hx2⟩ := gOverlap_iff.mp hh.2
      have hxk : x ∈ pk.1 := by rw [← huk]; exact mem_gUnion.mpr (Or.inl hx1)
      by_cases hkp : p.2 = pk.2
      · -- then `q` is at another position than `pk`
        exact hik q hq ⟨by rw [← hkp]; exact hh.1, gOverlap_iff.mpr ⟨x, hxk, hx2⟩⟩
      · exact hik p hpL ⟨hkp, gOverlap_iff.mpr ⟨x, hxk, hx1⟩⟩
    by_cases hi : Iso L p
    · have hacc' : ∀ u ∈ (roundStep L st p).1, ∃ p ∈ L, Iso L p ∧ u = p.1 := by
        intro u hu
        rw [roundStep_iso hi] at hu
        rcases mem_osAdd.mp hu with hu | hu
        · exact hacc u hu
        · exact ⟨p, hpL, hi, hu⟩
      obtain ⟨h1, h2⟩ := ih _ h hacc' hl'
      rw [roundStep_iso hi] at h1
      refine ⟨h1, ?_⟩
      intro p' hp'
      rcases List.mem_cons.mp hp' with rfl | hp'
      · exact hi
      · exact h2 p' hp'
    · -- impossible: the flag after this step is already `false` (it never resets)
      have hmono : ∀ (l : List (Grp × Nat)) (st : List Grp × Bool),
          (l.foldl (roundStep L) st).2 = false → st.2 = false := by
        intro l
        induction l with
        | nil => intro st h; exact h
        | cons p l ih =>
          intro st h
          rw [List.foldl_cons] at h
          have := ih _ h
          by_cases hi : Iso L p
          · rw [roundStep_iso hi] at this; exact this
          · rw [roundStep_hit hi] at this
            exact (inner_flag_false L _ this).1
      exact absurd (key (hmono l _ h)) hi

end RoundFold

/-! ### positional reading of `round` -/

/-- no two groups at different positions intersect -/
def NoOverlap (gs : List Grp) : Prop :=
  ∀ i j (hi : i < gs.length) (hj : j < gs.length), i ≠ j → gOverlap gs[i] gs[j] = false

theorem mem_zipIdx' {gs : List Grp} {p : Grp × Nat} :
    p ∈ gs.zipIdx ↔ ∃ h : p.2 < gs.length, gs[p.2] = p.1 := by
  rw [List.mem_zipIdx_iff_getElem?, List.getElem?_eq_some_iff]

theorem getElem_mem_zipIdx {gs : List Grp} {i : Nat} (h : i < gs.length) : (gs[i], i) ∈ gs.zipIdx :=
  mem_zipIdx'.mpr ⟨h, rfl⟩

theorem iso_iff {gs : List Grp} {i : Nat} (hi : i < gs.length) :
    Iso gs.zipIdx (gs[i], i) ↔ ∀ j (hj : j < gs.length), j ≠ i → gOverlap gs[i] gs[j] = false := by
  constructor
  · intro h j hj hne
    cases hh : gOverlap gs[i] gs[j]
    · rfl
    · exact absurd ⟨hne, hh⟩ (h (gs[j], j) (getElem_mem_zipIdx hj))
  · intro h q hq hh
    obtain ⟨hj, hqe⟩ := mem_zipIdx'.mp hq
    have := h q.2 hj hh.1
    rw [hqe] at this
    have h2 : gOverlap gs[i] q.1 = true := hh.2
    rw [this] at h2
    cases h2

theorem round_members {gs : List Grp} {u : Grp} (hu : u ∈ (round gs).1) :
    (∃ i, ∃ hi : i < gs.length, u = gs[i] ∧
        ∀ j (hj : j < gs.length), j ≠ i → gOverlap gs[i] gs[j] = false) ∨
    (∃ i j, ∃ (hi : i < gs.length) (hj : j < gs.length), i ≠ j ∧ gOverlap gs[i] gs[j] = true ∧
        u = gUnion gs[i] gs[j]) := by
  rw [round_eq] at hu
  rcases round_mem _ _ hu with h | ⟨p, hp, hi, rfl⟩ | ⟨p, hp, q, hq, hh, rfl⟩
  · cases h
  · obtain ⟨hlt, he⟩ := mem_zipIdx'.mp hp
    refine Or.inl ⟨p.2, hlt, he.symm, ?_⟩
    have : p = (gs[p.2], p.2) := by rw [he]
    rw [this] at hi
    exact (iso_iff hlt).mp hi
  · obtain ⟨hlt, he⟩ := mem_zipIdx'.mp hp
    obtain ⟨hlt', he'⟩ := mem_zipIdx'.mp hq
    refine Or.inr ⟨p.2, q.2, hlt, hlt', fun e => hh.1 e.symm, ?_, ?_⟩
    · rw [he, he']; exact hh.2
    · rw [he, he']

/-- every old group survives inside some new group -/
theorem round_covers {gs : List Grp} {i : Nat} (hi : i < gs.length) :
    ∃ u ∈ (round gs).1, ∀ x ∈ gs[i], x ∈ u := by
  rw [round_eq]
  by_cases hiso : Iso gs.zipIdx (gs[i], i)
  · exact ⟨gs[i], round_keep_iso _ _ (getElem_mem_zipIdx hi) hiso, fun x hx => hx⟩
  · obtain ⟨q, hq, hh⟩ := not_iso hiso
    exact ⟨_, round_keep_hit _ _ (getElem_mem_zipIdx hi) hq hh, fun x hx => mem_gUnion.mpr (Or.inl hx)⟩

theorem round_result_nodup (gs : List Grp) : (round gs).1.Nodup := by
  rw [round_eq]; exact round_nodup _ _ List.nodup_nil

theorem round_true {gs : List Grp} (h : (round gs).2 = true) :
    ∃ i j, ∃ (hi : i < gs.length) (hj : j < gs.length), i ≠ j ∧ gOverlap gs[i] gs[j] = true := by
  rw [round_eq] at h
  rcases round_flag_true _ _ h with h | ⟨p, hp, q, hq, hh⟩
  · cases h
  · obtain ⟨hlt, he⟩ := mem_zipIdx'.mp hp
    obtain ⟨hlt', he'⟩ := mem_zipIdx'.mp hq
    exact ⟨p.2, q.2, hlt, hlt', fun e => hh.1 e.symm, by rw [he, he']; exact hh.2⟩

theorem round_false {gs : List Grp} (h : (round gs).2 = false) : NoOverlap gs := by
  rw [round_eq] at h
  obtain ⟨_, h2⟩ := round_flag_false _ _ h (fun u hu => by cases hu) (fun p hp => hp)
  intro i j hi hj hne
  exact (iso_iff hi).mp (h2 _ (getElem_mem_zipIdx hi)) j hj (fun e => hne e.symm)

/-- conversely a list without overlaps is left alone -/
theorem round_of_noOverlap {gs : List Grp} (h : NoOverlap gs) : (round gs).2 = false := by
  cases hf : (round gs).2
  · rfl
  · obtain ⟨i, j, hi, hj, hne, ho⟩ := round_true hf
    rw [h i j hi hj hne] at ho; cases ho

/-! ### the similarity graph -/

section Graph
variable (sim : Nat → Nat → Bool) (n : Nat)

/-- an edge of the similarity graph on positions `0..n-1` -/
def Edge (x y : Nat) : Prop := x < n ∧ y < n ∧ x ≠ y ∧ sim x y = true

/-- reflexive-transitive closure of `Edge` -/
inductive Reach : Nat → Nat → Prop
  | refl (a : Nat) : Reach a a
  | step {a b c : Nat} : Reach a b → Edge sim n b c → Reach a c

def SymmSim : Prop := ∀ a b, sim a b = sim b a

variable {sim n}

theorem Edge.symm (hs : SymmSim sim) {x y : Nat} (h : Edge sim n x y) : Edge sim n y x :=
  ⟨h.2.1, h.1, fun e => h.2.2.1 e.symm, by rw [hs]; exact h.2.2.2⟩

theorem Reach.single {a b : Nat} (h : Edge sim n a b) : Reach sim n a b := .step (.refl a) h

theorem Reach.trans {a b c : Nat} (h1 : Reach sim n a b) (h2 : Reach sim n b c) : Reach sim n a c := by
  induction h2 with
  | refl => exact h1
  | step _ e ih => exact .step ih e

theorem Reach.symm (hs : SymmSim sim) {a b : Nat} (h : Reach sim n a b) : Reach sim n b a := by
  induction h with
  | refl => exact .refl _
  | step _ e ih => exact (Reach.single (e.symm hs)).trans ih

/-- a non-trivial path starts with an edge -/
theorem Reach.head {a b : Nat} (h : Reach sim n a b) : a = b ∨ ∃ c, Edge sim n a c := by
  induction h with
  | refl => exact Or.inl rfl
  | step _ e ih =>
    rcases ih with rfl | h
    · exact Or.inr ⟨_, e⟩
    · exact Or.inr h

variable (sim n)
def Conn (g : Grp) : Prop := ∀ a ∈ g, ∀ b ∈ g, Reach sim n a b
def Cover (gs : List Grp) : Prop := ∀ a b, Edge sim n a b → ∃ g ∈ gs, a ∈ g ∧ b ∈ g

/-- what every group satisfies at every moment of the loop -/
structure GOK (g : Grp) : Prop where
  sorted : Sorted g
  bound : ∀ x ∈ g, x < n
  conn : Conn sim n g
  two : 2 ≤ g.length

/-- the loop invariant -/
structure Inv (gs : List Grp) : Prop where
  ok : ∀ g ∈ gs, GOK sim n g
  cover : Cover sim n gs
variable {sim n}

theorem conn_union {g h : Grp} (hg : Conn sim n g) (hh : Conn sim n h) (ho : gOverlap g h = true) :
    Conn sim n (gUnion g h) := by
  obtain ⟨x, xg, xh⟩ := gOverlap_iff.mp ho
  intro a ha b hb
  rcases mem_gUnion.mp ha with ha | ha <;> rcases mem_gUnion.mp hb with hb | hb
  · exact hg a ha b hb
  · exact (hg a ha x xg).trans (hh x xh b hb)
  · exact (hh a ha x xh).trans (hg x xg b hb)
  · exact hh a ha b hb

theorem gok_union {g h : Grp} (hg : GOK sim n g) (hh : GOK sim n h) (ho : gOverlap g h = true) :
    GOK sim n (gUnion g h) where
  sorted := sorted_gUnion g h
  bound := by
    intro x hx
    rcases mem_gUnion.mp hx with hx | hx
    · exact hg.bound x hx
    · exact hh.bound x hx
  conn := conn_union hg.conn hh.conn ho
  two := by
    have := length_le_of_subset g (gUnion g h) hg.sorted.nodup (fun x hx => mem_gUnion.mpr (Or.inl hx))
    have := hg.two
    omega

theorem inv_round {gs : List Grp} (h : Inv sim n gs) : Inv sim n (round gs).1 where
  ok := by
    intro u hu
    rcases round_members hu with ⟨i, hi, rfl, _⟩ | ⟨i, j, hi, hj, _, ho, rfl⟩
    · exact h.ok _ (List.getElem_mem hi)
    · exact gok_union (h.ok _ (List.getElem_mem hi)) (h.ok _ (List.getElem_mem hj)) ho
  cover := by
    intro a b e
    obtain ⟨g, hg, ha, hb⟩ := h.cover a b e
    obtain ⟨i, hi, rfl⟩ := List.getElem_of_mem hg
    obtain ⟨u, hu, hsub⟩ := round_covers hi
    exact ⟨u, hu, hsub a ha, hsub b hb⟩

/-- exit condition of the loop + invariants ⇒ groups are exactly the components that have an edge -/
theorem exit_components {gs : List Grp} (hinv : Inv sim n gs) (hno : NoOverlap gs)
    {a b : Nat} (hab : a ≠ b) :
    (∃ g ∈ gs, a ∈ g ∧ b ∈ g) ↔ Reach sim n a b := by
  constructor
  · rintro ⟨g, hg, ha, hb⟩
    exact (hinv.ok g hg).conn a ha b hb
  · intro h
    have key : ∀ c, Reach sim n a c → c ≠ a → ∃ g ∈ gs, a ∈ g ∧ c ∈ g := by
      intro c hc
      induction hc with
      | refl => intro h; exact absurd rfl h
      | @step m c hr e ih =>
        intro hca
        obtain ⟨ge, hge, hm, hc'⟩ := hinv.cover _ _ e
        by_cases hma : m = a
        · subst hma; exact ⟨ge, hge, hm, hc'⟩
        · obtain ⟨g1, hg1, ha1, hm1⟩ := ih hma
          obtain ⟨i, hi, rfl⟩ := List.getElem_of_mem hg1
          obtain ⟨j, hj, rfl⟩ := List.getElem_of_mem hge
          by_cases hij : i = j
          · subst hij; exact ⟨_, hg1, ha1, hc'⟩
          · have := hno i j hi hj hij
            have ho : gOverlap gs[i] gs[j] = true := gOverlap_iff.mpr ⟨m, hm1, hm⟩
            rw [this] at ho; cases ho
    exact key b h (Ne.symm hab)

end Graph

/-! ### the initial groups -/

theorem mem_pairs {n a b : Nat} : (a, b) ∈ pairs n ↔ a < b ∧ b < n := by
  simp only [pairs, List.mem_flatMap, List.mem_range, List.mem_map, List.mem_filter, decide_eq_true_eq,
    Prod.mk.injEq]
  constructor
  · rintro ⟨i, hi, j, ⟨hj, hij⟩, rfl, rfl⟩; exact ⟨hij, hj⟩
  · rintro ⟨h1, h2⟩; exact ⟨a, by omega, b, ⟨h2, h1⟩, rfl, rfl⟩

/-- the neighbour dict says `b ∈ d[a]` -/
def Has (d : List (Nat × List Nat)) (a b : Nat) : Prop := ∃ vs, (a, vs) ∈ d ∧ b ∈ vs

theorem ddAdd_has (d : List (Nat × List Nat)) (k v : Nat) : Has (ddAdd d k v) k v := by
  induction d with
  | nil => exact ⟨[v], by simp [ddAdd], by simp⟩
  | cons kv d ih =>
    obtain ⟨k', vs⟩ := kv
    simp only [ddAdd]
    split
    · rename_i hk
      subst hk
      refine ⟨_, List.mem_cons_self, ?_⟩
      split
      · rename_i hc; simpa using hc
      · simp
    · obtain ⟨vs', h1, h2⟩ := ih
      exact ⟨vs', List.mem_cons_of_mem _ h1, h2⟩

theorem ddAdd_keeps (d : List (Nat × List Nat)) (k v : Nat) {a b : Nat} (h : Has d a b) :
    Has (ddAdd d k v) a b := by
  induction d with
  | nil => obtain ⟨_, h, _⟩ := h; cases h
  | cons kv d ih =>
    obtain ⟨k', vs⟩ := kv
    obtain ⟨vs0, h1, h2⟩ := h
    simp only [ddAdd]
    split
    · rename_i hk
      rcases List.mem_cons.mp h1 with he | h1
      · injection he with he1 he2
        subst he1; subst he2
        refine ⟨_, List.mem_cons_self, ?_⟩
        split
        · exact h2
        · exact List.mem_append_left _ h2
      · exact ⟨vs0, List.mem_cons_of_mem _ h1, h2⟩
    · rcases List.mem_cons.mp h1 with he | h1
      · exact ⟨vs0, by rw [he]; exact List.mem_cons_self, h2⟩
      · obtain ⟨vs', h3, h4⟩ := ih ⟨vs0, h1, h2⟩
        exact ⟨vs', List.mem_cons_of_mem _ h3, h4⟩

/-- every entry of the dict has a non-empty value whose members are `Q`-related to the key -/
def DictOK (Q : Nat → Nat → Prop) (d : List (Nat × List Nat)) : Prop :=
  ∀ kv ∈ d, kv.2 ≠ [] ∧ ∀ x ∈ kv.2, Q kv.1 x

theorem ddAdd_ok {Q : Nat → Nat → Prop} (d : List (Nat × List Nat)) (k v : Nat)
    (hd : DictOK Q d) (hq : Q k v) : DictOK Q (ddAdd d k v) := by
  induction d with
  | nil =>
    intro kv hkv
    simp only [ddAdd, List.mem_singleton] at hkv
    subst hkv
    exact ⟨by simp, by simpa using hq⟩
  | cons kv d ih =>
    obtain ⟨k', vs⟩ := kv
    have hhead := hd (k', vs) List.mem_cons_self
    have htail : DictOK Q d := fun kv hkv => hd kv (List.mem_cons_of_mem _ hkv)
    simp only [ddAdd]
    split
    · rename_i hk
      subst hk
      intro kv hkv
      rcases List.mem_cons.mp hkv with rfl | hkv
      · split
        · exact hhead
        · refine ⟨by simp, ?_⟩
          intro x hx
          rcases List.mem_append.mp hx with hx | hx
          · exact hhead.2 x hx
          · have : x = v := by simpa using hx
            subst this; exact hq
      · exact htail kv hkv
    · intro kv hkv
      rcases List.mem_cons.mp hkv with rfl | hkv
      · exact hhead
      · exact ih htail kv hkv

section Init
variable {sim : Nat → Nat → Bool} {n : Nat}

def nbStep (sim : Nat → Nat → Bool) (d : List (Nat × List Nat)) (p : Nat × Nat) : List (Nat × List Nat) :=
  if sim p.1 p.2 then ddAdd (ddAdd d p.1 p.2) p.2 p.1 else d

theorem neighbours_eq (sim : Nat → Nat → Bool) (n : Nat) :
    neighbours sim n = (pairs n).foldl (nbStep sim) [] := rfl

theorem nb_keeps (ps : List (Nat × Nat)) (d : List (Nat × List Nat)) {a b : Nat} (h : Has d a b) :
    Has (ps.foldl (nbStep sim) d) a b := by
  induction ps generalizing d with
  | nil => exact h
  | cons p ps ih =>
    rw [List.foldl_cons]
    apply ih
    unfold nbStep
    split
    · exact ddAdd_keeps _ _ _ (ddAdd_keeps _ _ _ h)
    · exact h

theorem nb_has (ps : List (Nat × Nat)) (d : List (Nat × List Nat)) {a b : Nat}
    (hp : (a, b) ∈ ps) (hs : sim a b = true) :
    Has (ps.foldl (nbStep sim) d) a b ∧ Has (ps.foldl (nbStep sim) d) b a := by
  induction ps generalizing d with
  | nil => cases hp
  | cons p ps ih =>
    rw [List.foldl_cons]
    rcases List.mem_cons.mp hp with rfl | hp
    · have : nbStep sim d (a, b) = ddAdd (ddAdd d a b) b a := by simp [nbStep, hs]
      rw [this]
      exact ⟨nb_keeps _ _ (ddAdd_keeps _ _ _ (ddAdd_has _ _ _)), nb_keeps _ _ (ddAdd_has _ _ _)⟩
    · exact ih _ hp

theorem nb_ok (hsym : SymmSim sim) (ps : List (Nat × Nat)) (d : List (Nat × List Nat))
    (hps : ∀ p ∈ ps, p.1 < n ∧ p.2 < n ∧ p.1 ≠ p.2) (hd : DictOK (Edge sim n) d) :
    DictOK (Edge sim n) (ps.foldl (nbStep sim) d) := by
  induction ps generalizing d with
  | nil => exact hd
  | cons p ps ih =>
    rw [List.foldl_cons]
    apply ih _ (fun p' hp' => hps p' (List.mem_cons_of_mem _ hp'))
    obtain ⟨h1, h2, h3⟩ := hps p List.mem_cons_self
    unfold nbStep
    split
    · rename_i hs
      have e : Edge sim n p.1 p.2 := ⟨h1, h2, h3, hs⟩
      exact ddAdd_ok _ _ _ (ddAdd_ok _ _ _ hd e) (e.symm hsym)
    · exact hd

theorem inv_init (hsym : SymmSim sim) : Inv sim n (initGroups sim n) where
  ok := by
    intro g hg
    simp only [initGroups, List.mem_map] at hg
    obtain ⟨kv, hkv, rfl⟩ := hg
    have hok : DictOK (Edge sim n) (neighbours sim n) := by
      rw [neighbours_eq]
      apply nb_ok hsym
      · rintro ⟨a, b⟩ hp
        have := mem_pairs.mp hp
        exact ⟨by omega, this.2, by simp only; omega⟩
      · intro kv hkv; cases hkv
    obtain ⟨hne, hall⟩ := hok kv hkv
    -- every member is the key or adjacent to the key
    have hmem : ∀ x ∈ canon (kv.1 :: kv.2), x = kv.1 ∨ Edge sim n kv.1 x := by
      intro x hx
      rcases List.mem_cons.mp (mem_canon.mp hx) with h | h
      · exact Or.inl h
      · exact Or.inr (hall x h)
    obtain ⟨v, hv⟩ := List.exists_mem_of_ne_nil _ hne
    have ekv := hall v hv
    refine ⟨sorted_canon _, ?_, ?_, ?_⟩
    · intro x hx
      rcases hmem x hx with rfl | e
      · exact ekv.1
      · exact e.2.1
    · intro a ha b hb
      have ra : Reach sim n a kv.1 := by
        rcases hmem a ha with rfl | e
        · exact .refl _
        · exact Reach.single (e.symm hsym)
      have rb : Reach sim n kv.1 b := by
        rcases hmem b hb with rfl | e
        · exact .refl _
        · exact Reach.single e
      exact ra.trans rb
    · -- `[kv.1, v]` (or its mirror) embeds
      have h1 : kv.1 ∈ canon (kv.1 :: kv.2) := mem_canon.mpr List.mem_cons_self
      have h2 : v ∈ canon (kv.1 :: kv.2) := mem_canon.mpr (List.mem_cons_of_mem _ hv)
      have hne' : kv.1 ≠ v := ekv.2.2.1
      have := length_le_of_subset [kv.1, v] (canon (kv.1 :: kv.2)) (by simp [hne']) (by
        intro x hx
        rcases List.mem_cons.mp hx with rfl | hx
        · exact h1
        · have : x = v := by simpa using hx
          subst this; exact h2)
      simpa using this
  cover := by
    intro a b e
    -- wlog the pair is scanned as (min, max)
    have hboth : Has (neighbours sim n) a b := by
      rw [neighbours_eq]
      rcases Nat.lt_or_gt_of_ne e.2.2.1 with hlt | hgt
      · exact (nb_has _ _ (mem_pairs.mpr ⟨hlt, e.2.1⟩) e.2.2.2).1
      · exact (nb_has _ _ (mem_pairs.mpr ⟨hgt, e.1⟩) (by rw [hsym]; exact e.2.2.2)).2
    obtain ⟨vs, h1, h2⟩ := hboth
    refine ⟨canon (a :: vs), ?_, mem_canon.mpr List.mem_cons_self, mem_canon.mpr (List.mem_cons_of_mem _ h2)⟩
    simp only [initGroups, List.mem_map]
    exact ⟨(a, vs), h1, rfl⟩

end Init

/-! ### partial correctness of the loop -/

theorem loop_exit {sim : Nat → Nat → Bool} {n : Nat} :
    ∀ (fuel : Nat) (gs r : List Grp), Inv sim n gs → loop fuel gs = some r → Inv sim n r ∧ NoOverlap r
  | 0, _, _, _, h => by simp [loop] at h
  | fuel + 1, gs, r, hinv, h => by
    simp only [loop] at h
    by_cases hf : (round gs).2 = true
    · rw [if_pos hf] at h
      exact loop_exit fuel _ r (inv_round hinv) h
    · rw [if_neg hf] at h
      injection h with h
      subst h
      exact ⟨hinv, round_false (by simpa using hf)⟩

/-! ### termination -/

/-- every group that meets a different group of the list has at least `k` members -/
def Big (k : Nat) (gs : List Grp) : Prop :=
  ∀ g ∈ gs, (∃ h ∈ gs, h ≠ g ∧ gOverlap g h = true) → k ≤ g.length

/-- From the second pass on (the list is then duplicate-free) the smallest non-isolated group grows. -/
theorem big_round {k : Nat} {gs : List Grp} (hs : ∀ g ∈ gs, Sorted g) (hnd : gs.Nodup) (hb : Big k gs) :
    Big (k + 1) (round gs).1 := by
  intro u hu ⟨h, hh, hne, ho⟩
  rcases round_members hu with ⟨i, hi, rfl, hiso⟩ | ⟨i, j, hi, hj, hij, hov, rfl⟩
  · -- an isolated old group stays isolated
    exfalso
    obtain ⟨x, hx1, hx2⟩ := gOverlap_iff.mp ho
    rcases round_members hh with ⟨j, hj, rfl, _⟩ | ⟨j, l, hj, hl, hjl, _, rfl⟩
    · have hji : j ≠ i := fun e => hne (by subst e; rfl)
      have := hiso j hj hji
      rw [gOverlap_false_iff] at this
      exact this x hx1 hx2
    · rcases mem_gUnion.mp hx2 with hx2 | hx2
      · by_cases hji : j = i
        · subst hji
          have := hiso l hl (fun e => hjl e.symm)
          rw [gOverlap_false_iff] at this
          -- gs[j] meets gs[l]
          rename_i hjl' _
          obtain ⟨y, hy1, hy2⟩ := gOverlap_iff.mp hjl'
          exact this y hy1 hy2
        · have := hiso j hj hji
          rw [gOverlap_false_iff] at this
          exact this x hx1 hx2
      · by_cases hli : l = i
        · subst hli
          have := hiso j hj hjl
          rw [gOverlap_false_iff] at this
          rename_i hjl' _
          obtain ⟨y, hy1, hy2⟩ := gOverlap_iff.mp hjl'
          exact this y hy2 hy1
        · have := hiso l hl hli
          rw [gOverlap_false_iff] at this
          exact this x hx1 hx2
  · -- a union of two different overlapping groups is bigger than the smaller one
    have hvne : gs[i] ≠ gs[j] := fun e => hij ((List.getElem_inj hnd).mp e)
    have hki : k ≤ gs[i].length :=
      hb _ (List.getElem_mem hi) ⟨gs[j], List.getElem_mem hj, fun e => hvne e.symm, hov⟩
    have hkj : k ≤ gs[j].length :=
      hb _ (List.getElem_mem hj) ⟨gs[i], List.getElem_mem hi, hvne, gOverlap_symm hov⟩
    apply Classical.byContradiction
    intro hlt
    have hlen : (gUnion gs[i] gs[j]).length ≤ k := by omega
    have hsi := hs _ (List.getElem_mem hi)
    have hsj := hs _ (List.getElem_mem hj)
    have h1 := subset_of_length_le hsi.nodup (fun x hx => mem_gUnion.mpr (Or.inl hx))
      (Nat.le_trans hlen hki)
    have h2 := subset_of_length_le hsj.nodup (fun x hx => mem_gUnion.mpr (Or.inr hx))
      (Nat.le_trans hlen hkj)
    apply hvne
    apply sorted_ext hsi hsj
    intro x
    constructor
    · intro hx; exact h2 x (mem_gUnion.mpr (Or.inl hx))
    · intro hx; exact h1 x (mem_gUnion.mpr (Or.inr hx))

theorem loop_terminates {sim : Nat → Nat → Bool} {n : Nat} :
    ∀ (fuel k : Nat) (gs : List Grp), Inv sim n gs → gs.Nodup → Big k gs → 1 ≤ fuel → n + 2 ≤ k + fuel →
      ∃ r, loop fuel gs = some r
  | 0, _, _, _, _, _, h, _ => by omega
  | fuel + 1, k, gs, hinv, hnd, hb, _, hk => by
    simp only [loop]
    by_cases hf : (round gs).2 = true
    · rw [if_pos hf]
      obtain ⟨i, j, hi, hj, hij, hov⟩ := round_true hf
      have hvne : gs[i] ≠ gs[j] := fun e => hij ((List.getElem_inj hnd).mp e)
      have hki : k ≤ gs[i].length :=
        hb _ (List.getElem_mem hi) ⟨gs[j], List.getElem_mem hj, fun e => hvne e.symm, hov⟩
      have hok := hinv.ok _ (List.getElem_mem hi)
      have hn := length_le_of_bound hok.sorted.nodup hok.bound
      exact loop_terminates fuel (k + 1) _ (inv_round hinv) (round_result_nodup gs)
        (big_round (fun g hg => (hinv.ok g hg).sorted) hnd hb) (by omega) (by omega)
    · rw [if_neg hf]; exact ⟨gs, rfl⟩

theorem mergeGroups_terminates {sim : Nat → Nat → Bool} {n : Nat} (hsym : SymmSim sim) :
    ∃ gs, mergeGroups sim n = some gs := by
  have hinv : Inv sim n (initGroups sim n) := inv_init hsym
  unfold mergeGroups
  simp only [loop]
  by_cases hf : (round (initGroups sim n)).2 = true
  · rw [if_pos hf]
    have hinv1 := inv_round hinv
    apply loop_terminates (n + 1) 1 _ hinv1 (round_result_nodup _) _ (by omega) (by omega)
    intro g hg _
    have := (hinv1.ok g hg).two
    omega
  · rw [if_neg hf]; exact ⟨_, rfl⟩

end J2M.Closure
