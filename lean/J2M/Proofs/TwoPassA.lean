/-
  C08 at the registry stage, part A: ONE `optimize_type` pass takes ANY admissible type (`adm`) — in particular
  whatever `merge_field_sets` builds from the fields of registered models — to an `out` type
  ("one pass from normal").  With part B: two passes reach the normal form.
-/
import J2M.Proofs.TwoPassB
namespace J2M.TwoPass
open J2M J2M.C08P

/-! ## 1. `adm` through `DUnion` and through the worklist -/

theorem adm_union {cfg : GenCfg} {ms : List Ty} (h : adm cfg (.union ms) = true) : ∀ t ∈ ms, adm cfg t = true := by
  simp only [adm] at h
  exact (admList_iff cfg ms).mp h

theorem adm_opt {cfg : GenCfg} {x : Ty} (h : adm cfg (.opt x) = true) : x.isOpt = false ∧ adm cfg x = true := by
  simpa [adm] using h

theorem flatten_adm {cfg : GenCfg} (ts : List Ty) (h : ∀ t ∈ ts, adm cfg t = true) :
    ∀ t ∈ flattenUnion ts, adm cfg t = true := by
  fun_induction flattenUnion ts with
  | case1 => simp
  | case2 us rest ih1 ih2 =>
    intro t ht
    rw [List.mem_append] at ht
    rcases ht with ht | ht
    · exact ih1 (adm_union (h _ (by simp))) t ht
    · exact ih2 (fun u hu => h u (by simp [hu])) t ht
  | case3 rest u hne ih =>
    intro t ht
    rcases List.mem_cons.mp ht with rfl | ht
    · exact h _ (by simp)
    · exact ih (fun u hu => h u (by simp [hu])) t ht

theorem adm_lit_of {cfg : GenCfg} {vs : List String} (hne : vs ≠ []) (hg : goodLits cfg.lit vs) :
    adm cfg (.lit false vs) = true := out_adm cfg _ (out_lit_of hne hg)

theorem mkUM_adm {cfg : GenCfg} (ts : List Ty) (h : ∀ t ∈ ts, adm cfg t = true) :
    ∀ m ∈ mkUnionMembers cfg.lit ts, adm cfg m = true := by
  intro m hm
  rcases mem_mkUM hm with ⟨h1, _⟩ | rfl | ⟨vs, rfl, hne, hmk⟩
  · exact flatten_adm ts h m h1
  · rfl
  · exact adm_lit_of hne (mkLit_goodLits hmk)

theorem mkUnion_adm {cfg : GenCfg} (ts : List Ty) (h : ∀ t ∈ ts, adm cfg t = true) :
    adm cfg (mkUnion cfg.lit ts) = true := by
  simp only [mkUnion, adm]
  exact (admList_iff cfg _).mpr (mkUM_adm ts h)

/-- every member the worklist really folds over is admissible and not a (hidden) union -/
theorem expand_adm {cfg : GenCfg} : ∀ (fuel : Nat) (ts : List Ty), (∀ t ∈ ts, adm cfg t = true) →
    ∀ x ∈ SplitW.expand fuel ts, adm cfg x = true ∧ hidden x = false
  | 0, ts, _ => by simp
  | fuel + 1, [], _ => by simp
  | fuel + 1, t :: rest, h => by
    have hrest : ∀ u ∈ rest, adm cfg u = true := fun u hu => h u (by simp [hu])
    by_cases hh : hidden t = true
    · cases t with
      | union ms =>
        rw [SplitW.expand_succ_union]
        apply expand_adm fuel
        intro u hu
        rcases List.mem_append.mp hu with hu | hu
        · exact adm_union (h _ (by simp)) u hu
        · exact hrest u hu
      | opt y =>
        cases y with
        | union ms =>
          rw [SplitW.expand_succ_opt_union]
          intro x hx
          rcases List.mem_cons.mp hx with rfl | hx
          · exact ⟨rfl, rfl⟩
          · apply expand_adm fuel _ _ x hx
            intro u hu
            rcases List.mem_append.mp hu with hu | hu
            · exact adm_union (adm_opt (h _ (by simp))).2 u hu
            · exact hrest u hu
        | _ => simp [hidden, SplitW.hidden] at hh
      | _ => simp [hidden, SplitW.hidden] at hh
    · have hh' : hidden t = false := by simpa using hh
      rw [SplitW.expand_succ_plain fuel rest hh']
      intro x hx
      rcases List.mem_cons.mp hx with rfl | hx
      · exact ⟨h _ (by simp), hh'⟩
      · exact expand_adm fuel rest hrest x hx

/-! ## 2. unwrapping the `Optional` members -/

/-- `Optional[y]` contributes `Null` and `y` -/
def unwrapE : List Ty → List Ty
  | [] => []
  | .opt y :: rest => .null :: y :: unwrapE rest
  | t :: rest => t :: unwrapE rest

theorem fold_unwrapE (reg : StrRegistry) : ∀ (E : List Ty) (s : Split),
    (∀ y, Ty.opt y ∈ E → y.isOpt = false) →
    E.foldl (splitStep reg) s = (unwrapE E).foldl (splitStep reg) s
  | [], _, _ => rfl
  | t :: rest, s, h => by
    have hr : ∀ y, Ty.opt y ∈ rest → y.isOpt = false := fun y hy => h y (by simp [hy])
    cases t with
    | opt y =>
      simp only [unwrapE, List.foldl_cons]
      rw [splitStep_opt reg s y (h y (by simp)), fold_unwrapE reg rest _ hr]
      rfl
    | _ => simp only [unwrapE, List.foldl_cons]; exact fold_unwrapE reg rest _ hr

theorem mem_unwrapE {E : List Ty} {x : Ty} (h : x ∈ unwrapE E) :
    x = .null ∨ (x ∈ E ∧ x.isOpt = false) ∨ Ty.opt x ∈ E := by
  induction E with
  | nil => simp [unwrapE] at h
  | cons t rest ih =>
    cases t with
    | opt y =>
      simp only [unwrapE, List.mem_cons] at h
      rcases h with rfl | rfl | h
      · exact Or.inl rfl
      · exact Or.inr (Or.inr (by simp))
      · rcases ih h with h1 | ⟨h1, h2⟩ | h1
        · exact Or.inl h1
        · exact Or.inr (Or.inl ⟨by simp [h1], h2⟩)
        · exact Or.inr (Or.inr (by simp [h1]))
    | _ =>
      simp only [unwrapE, List.mem_cons] at h
      rcases h with rfl | h
      · exact Or.inr (Or.inl ⟨by simp, rfl⟩)
      · rcases ih h with h1 | ⟨h1, h2⟩ | h1
        · exact Or.inl h1
        · exact Or.inr (Or.inl ⟨by simp [h1], h2⟩)
        · exact Or.inr (Or.inr (by simp [h1]))

/-- the members of the unwrapped expansion: admissible, not `Optional`, not a union -/
structure AdmE (cfg : GenCfg) (E : List Ty) : Prop where
  adm : ∀ t ∈ E, adm cfg t = true
  noOpt : ∀ t ∈ E, t.isOpt = false
  flat : ∀ t ∈ E, t.isUnion = false

theorem admE_unwrap {cfg : GenCfg} {E : List Ty} (h : ∀ x ∈ E, TwoPass.adm cfg x = true ∧ hidden x = false) :
    AdmE cfg (unwrapE E) ∧ (∀ y, Ty.opt y ∈ E → y.isOpt = false) := by
  have hopt : ∀ y, Ty.opt y ∈ E → y.isOpt = false := fun y hy => (adm_opt (h _ hy).1).1
  refine ⟨⟨?_, ?_, ?_⟩, hopt⟩
  · intro t ht
    rcases mem_unwrapE ht with rfl | ⟨h1, _⟩ | h1
    · rfl
    · exact (h t h1).1
    · exact (adm_opt (h _ h1).1).2
  · intro t ht
    rcases mem_unwrapE ht with rfl | ⟨_, h2⟩ | h1
    · rfl
    · exact h2
    · exact hopt t h1
  · intro t ht
    rcases mem_unwrapE ht with rfl | ⟨h1, _⟩ | h1
    · rfl
    · have := (h t h1).2
      cases t <;> simp_all [hidden, SplitW.hidden, Ty.isUnion]
    · have := (h _ h1).2
      cases t <;> simp_all [hidden, SplitW.hidden, Ty.isUnion]

theorem AdmE.plain {cfg : GenCfg} {E : List Ty} (h : AdmE cfg E) : Plain cfg E := by
  refine ⟨h.noOpt, ?_, ?_⟩
  · intro t ht
    have := h.adm t ht
    cases t <;> simp_all [Ty.isObj, TwoPass.adm]
  · intro t ht k hk
    have := h.adm t ht
    subst hk
    simpa [TwoPass.adm] using this

/-- `_optimize_union` on ANY admissible member list is the staged body on the unwrapped expansion -/
theorem optimizeUnion_adm {cfg : GenCfg} {e : EqEnv} {f : Nat} {ms : List Ty}
    (h : ∀ t ∈ ms, adm cfg t = true) :
    ∃ E, AdmE cfg E ∧ optimizeUnion cfg e (f + 1) ms = unionBody cfg e f (E.foldl (splitStep cfg.reg) {}) := by
  obtain ⟨hE, hopt⟩ := admE_unwrap (expand_adm (cfg := cfg) (SplitW.fuelOf ms) ms h)
  refine ⟨_, hE, ?_⟩
  rw [optimizeUnion_split, SplitW.splitMembers_eq, ← fold_unwrapE cfg.reg _ _ hopt]
  rfl


/-! ## 3. the tail of `_optimize_union` produces an `out` type
(parametric in the class `P`: `out cfg`, or its variant with inline dicts for the generator stage) -/

/-- what the tail needs of the class `P` -/
structure OutLike (cfg : GenCfg) (P : Ty → Bool) : Prop where
  str : P .str = true
  unknown : P .unknown = true
  lit : ∀ vs, vs ≠ [] → goodLits cfg.lit vs → P (.lit false vs) = true
  union : ∀ us, outU us = true → (∀ t ∈ us, P t = true) → P (.union us) = true
  opt : ∀ c, c.isOpt = false → P c = true → P (.opt c) = true

theorem outLike_out (cfg : GenCfg) : OutLike cfg (out cfg) where
  str := rfl
  unknown := rfl
  lit := fun _ hne hg => out_lit_of hne hg
  union := fun us h1 h2 => by simp only [out, Bool.and_eq_true]; exact ⟨h1, (outList_iff cfg us).mpr h2⟩
  opt := fun c h1 h2 => by simp only [out, Bool.and_eq_true, Bool.not_eq_true']; exact ⟨h1, h2⟩

/-- what is known about the member list handed to the tail -/
structure TysA (P : Ty → Bool) (T : List Ty) : Prop where
  mem : ∀ t ∈ T, P t = true
  flat : ∀ t ∈ T, t.isUnion = false
  noOpt : ∀ t ∈ T, t.isOpt = false
  oneList : (T.filter Ty.isList).length ≤ 1
  oneDict : (T.filter Ty.isDict).length ≤ 1

theorem TysA.sublist {P : Ty → Bool} {l l' : List Ty} (h : TysA P l) (hs : l'.Sublist l) : TysA P l' :=
  ⟨fun t ht => h.mem t (hs.subset ht), fun t ht => h.flat t (hs.subset ht), fun t ht => h.noOpt t (hs.subset ht),
    Nat.le_trans (hs.filter _).length_le h.oneList, Nat.le_trans (hs.filter _).length_le h.oneDict⟩

theorem union_out {cfg : GenCfg} {P : Ty → Bool} (hP : OutLike cfg P) {T : List Ty} (hT : TysA P T)
    (hnn : ∀ t ∈ T, t.isNull = false) :
    P (collapse (mkUnionMembers cfg.lit T)) = true ∧ (collapse (mkUnionMembers cfg.lit T)).isOpt = false := by
  have o := mkUnionMembers_out cfg.lit T
  have hfl := flattenUnion_of_flat T hT.flat
  have hmem : ∀ m ∈ mkUnionMembers cfg.lit T, (m ∈ T ∧ m.isLit = false) ∨ m = .str ∨
      ∃ vs, m = .lit false vs ∧ vs ≠ [] ∧ mkLit cfg.lit vs = .lit false vs := by
    intro m hm
    rcases mem_mkUM hm with ⟨h1, h2⟩ | h1 | h1
    · rw [hfl] at h1; exact Or.inl ⟨h1, h2⟩
    · exact Or.inr (Or.inl h1)
    · exact Or.inr (Or.inr h1)
  have hm3 : ∀ m ∈ mkUnionMembers cfg.lit T, P m = true ∧ m.isOpt = false ∧ m.isNull = false := by
    intro m hm
    rcases hmem m hm with ⟨h1, _⟩ | rfl | ⟨vs, rfl, hne, hmk⟩
    · exact ⟨hT.mem m h1, hT.noOpt m h1, hnn m h1⟩
    · exact ⟨hP.str, rfl, rfl⟩
    · exact ⟨hP.lit vs hne (mkLit_goodLits hmk), rfl, rfl⟩
  have hcount : ∀ (p : Ty → Bool), (∀ t, p t = true → t.isLit = false ∧ t.isStr = false) →
      (T.filter p).length ≤ 1 → ((mkUnionMembers cfg.lit T).filter p).length ≤ 1 := by
    intro p hp h1
    have := mkUM_filter_le cfg.lit T p hp
    rw [hfl] at this
    omega
  generalize hM : mkUnionMembers cfg.lit T = M at *
  match M, hM with
  | [], _ => exact ⟨hP.unknown, rfl⟩
  | [x], _ =>
    have := hm3 x (by simp)
    exact ⟨this.1, this.2.1⟩
  | a :: b :: rest, hM =>
    refine ⟨?_, rfl⟩
    show P (.union (a :: b :: rest)) = true
    refine hP.union _ ((outU_iff _).mpr ⟨by simp, o.flat, fun t ht => (hm3 t ht).2.1, fun t ht => (hm3 t ht).2.2, ?_, ?_,
      hcount _ isList_nls hT.oneList, hcount _ isDict_nls hT.oneDict, o.oneLit⟩) (fun t ht => (hm3 t ht).1)
    · exact nodup_hash_count _ .int Ty.isInt (by intro t ht; cases t <;> simp [Ty.isInt] at ht; rfl) o.nodup
    · exact nodup_hash_count _ .unknown Ty.isUnknown
        (by intro t ht; cases t <;> simp [Ty.isUnknown] at ht; rfl) o.nodup

theorem finish_out {cfg : GenCfg} {P : Ty → Bool} (hP : OutLike cfg P) {T : List Ty} {t' : Ty} (hT : TysA P T)
    (h : finishOpt cfg.lit T = .ok t') : P t' = true := by
  match T, h with
  | [], h => simp [finishOpt] at h
  | [t], h =>
    simp only [finishOpt, pure, Except.pure, Except.ok.injEq] at h
    subst h; exact hT.mem _ (by simp)
  | a :: b :: rest, h =>
    rw [finishOpt_ge2 _ _ (by simp)] at h
    simp only [Except.ok.injEq] at h
    have hsub : ((dropUnknown (a :: b :: rest)).filter (fun t => !t.isNull)).Sublist (a :: b :: rest) :=
      (List.filter_sublist).trans (dropUnknown_sublist _)
    have hnn : ∀ t ∈ (dropUnknown (a :: b :: rest)).filter (fun t => !t.isNull), t.isNull = false := by
      intro t ht
      rw [List.mem_filter] at ht
      simpa using ht.2
    obtain ⟨h1, h2⟩ := union_out hP (hT.sublist hsub) hnn
    subst h
    split
    · exact hP.opt _ h2 h1
    · exact h1

/-! ## 4. the induction on fuel -/

/-- the claim for a type, at fuel `f` -/
def AdmAt (cfg : GenCfg) (e : EqEnv) (f : Nat) : Prop :=
  ∀ t t', adm cfg t = true → optimize cfg e f t = .ok t' → out cfg t' = true

theorem adm_not_tuple {cfg : GenCfg} {t : Ty} (h : adm cfg t = true) : t.isTuple = false := by
  cases t <;> simp_all [Ty.isTuple, adm]

theorem filter_nil_of {l : List Ty} {p : Ty → Bool} (h : ∀ t ∈ l, p t = false) : l.filter p = [] := by
  rw [List.filter_eq_nil_iff]; intro t ht; simp [h t ht]

theorem adm_union_step {cfg : GenCfg} {e : EqEnv} {f : Nat} (ih : ∀ f', f' < f → AdmAt cfg e f')
    {ms : List Ty} {t' : Ty} (hms : ∀ t ∈ ms, adm cfg t = true)
    (h : optimizeUnion cfg e f ms = .ok t') : out cfg t' = true := by
  cases f with
  | zero => simp [optimizeUnion] at h
  | succ f2 =>
  obtain ⟨E, hE, heq⟩ := optimizeUnion_adm (e := e) (f := f2) hms
  rw [heq] at h
  obtain ⟨Sx, To, Tl, Td, Ts, hSx, hTo, hTl, hTd, hTs, hfin⟩ := body_inv hE.plain h
  have hsubO : (stageInt (E.filter isOtherCls)).Sublist E := (stageInt_sublist _).trans List.filter_sublist
  -- the surviving "other" members
  have hTo' : ∀ y ∈ To, out cfg y = true ∧ y.isUnion = false ∧ y.isOpt = false ∧ y.isList = false ∧
      y.isDict = false := by
    intro y hy
    obtain ⟨m, hm, hmy⟩ := mapM_mem_inv _ _ _ hTo y hy
    have hmE := hsubO.subset hm
    have hc : isOtherCls m = true := (List.mem_filter.mp ((stageInt_sublist _).subset hm)).2
    have ha := hE.adm m hmE
    rcases optimize_other hc (hE.noOpt m hmE) (hE.flat m hmE) (adm_not_tuple ha) hmy with ⟨rfl, hb⟩ | ⟨rfl, _⟩
    · refine ⟨?_, hE.flat _ hmE, hE.noOpt _ hmE, ?_, ?_⟩
      · cases y with
        | lit o vs =>
          simp only [Ty.isBadLit, Bool.or_eq_false_iff] at hb
          obtain ⟨rfl, _⟩ := hb
          simpa [out, adm] using ha
        | int | float | bool | str | null | unknown | ptr _ => rfl
        | ser _ | list _ | dict _ | obj _ => simp [isOtherCls, Ty.cls] at hc
        | opt _ => have := hE.noOpt _ hmE; simp [Ty.isOpt] at this
        | union _ => have := hE.flat _ hmE; simp [Ty.isUnion] at this
        | tuple _ => simp [adm] at ha
      · cases y <;> simp_all [isOtherCls, Ty.cls, Ty.isList]
      · cases y <;> simp_all [isOtherCls, Ty.cls, Ty.isDict]
    · exact ⟨rfl, rfl, rfl, rfl, rfl⟩
  -- the rebuilt list
  have hTl' : Tl.length ≤ 1 ∧ ∀ y ∈ Tl, out cfg y = true ∧ y.isUnion = false ∧ y.isOpt = false ∧ y.isDict = false := by
    refine ⟨by rw [mapM_length _ _ _ hTl]; split <;> simp, ?_⟩
    intro y hy
    obtain ⟨m, hm, hmy⟩ := mapM_mem_inv _ _ _ hTl y hy
    split at hm
    · cases hm
    · simp at hm; subst hm
      cases f2 with
      | zero => simp [optimize] at hmy
      | succ f3 =>
        rw [optimize] at hmy
        simp only [bind, Except.bind] at hmy
        split at hmy
        · cases hmy
        · rename_i z hz
          simp only [pure, Except.pure, Except.ok.injEq] at hmy; subst hmy
          have hz' := ih f3 (by omega) _ z (mkUnion_adm (listEs E) (fun t ht => by
            have := hE.adm _ (mem_listEs ht); simpa [adm] using this)) hz
          exact ⟨by simpa [out] using hz', rfl, rfl, rfl⟩
  have hTd' : Td.length ≤ 1 ∧ ∀ y ∈ Td, out cfg y = true ∧ y.isUnion = false ∧ y.isOpt = false ∧ y.isList = false := by
    refine ⟨by rw [mapM_length _ _ _ hTd]; split <;> simp, ?_⟩
    intro y hy
    obtain ⟨m, hm, hmy⟩ := mapM_mem_inv _ _ _ hTd y hy
    split at hm
    · cases hm
    · simp at hm; subst hm
      cases f2 with
      | zero => simp [optimize] at hmy
      | succ f3 =>
        rw [optimize] at hmy
        simp only [bind, Except.bind] at hmy
        split at hmy
        · cases hmy
        · rename_i z hz
          simp only [pure, Except.pure, Except.ok.injEq] at hmy; subst hmy
          have hz' := ih f3 (by omega) _ z (mkUnion_adm (dictEs E) (fun t ht => by
            have := hE.adm _ (mem_dictEs ht); simpa [adm] using this)) hz
          exact ⟨by simpa [out] using hz', rfl, rfl, rfl⟩
  have hTs' : ∀ y ∈ Ts, out cfg y = true ∧ y.isUnion = false ∧ y.isOpt = false ∧ y.isList = false ∧
      y.isDict = false := by
    intro y hy
    obtain ⟨m, hm, hmy⟩ := mapM_mem_inv _ _ _ hTs y hy
    cases f2 with
    | zero => simp [optimize] at hmy
    | succ f3 =>
      rcases hSx with rfl | rfl | ⟨k, rfl, hk⟩
      · cases hm
      · simp at hm; subst hm
        simp [optimize, pure, Except.pure] at hmy; subst hmy
        exact ⟨rfl, rfl, rfl, rfl, rfl⟩
      · simp at hm; subst hm
        simp [optimize, pure, Except.pure] at hmy; subst hmy
        exact ⟨by simpa [out] using hk, rfl, rfl, rfl, rfl⟩
  apply finish_out (outLike_out cfg) _ hfin
  refine ⟨?_, ?_, ?_, ?_, ?_⟩
  · intro t ht
    simp only [List.mem_append] at ht
    rcases ht with ((h1 | h1) | h1) | h1
    · exact (hTo' t h1).1
    · exact (hTl'.2 t h1).1
    · exact (hTd'.2 t h1).1
    · exact (hTs' t h1).1
  · intro t ht
    simp only [List.mem_append] at ht
    rcases ht with ((h1 | h1) | h1) | h1
    · exact (hTo' t h1).2.1
    · exact (hTl'.2 t h1).2.1
    · exact (hTd'.2 t h1).2.1
    · exact (hTs' t h1).2.1
  · intro t ht
    simp only [List.mem_append] at ht
    rcases ht with ((h1 | h1) | h1) | h1
    · exact (hTo' t h1).2.2.1
    · exact (hTl'.2 t h1).2.2.1
    · exact (hTd'.2 t h1).2.2.1
    · exact (hTs' t h1).2.2.1
  · simp only [List.filter_append]
    rw [filter_nil_of (fun t ht => (hTo' t ht).2.2.2.1), filter_nil_of (fun t ht => (hTd'.2 t ht).2.2.2),
      filter_nil_of (fun t ht => (hTs' t ht).2.2.2.1)]
    simpa using Nat.le_trans (List.length_filter_le _ _) hTl'.1
  · simp only [List.filter_append]
    rw [filter_nil_of (fun t ht => (hTo' t ht).2.2.2.2), filter_nil_of (fun t ht => (hTl'.2 t ht).2.2.2),
      filter_nil_of (fun t ht => (hTs' t ht).2.2.2.2)]
    simpa using Nat.le_trans (List.length_filter_le _ _) hTd'.1

theorem adm_step {cfg : GenCfg} {e : EqEnv} {f : Nat} (ih : ∀ f', f' < f → AdmAt cfg e f') : AdmAt cfg e f := by
  intro t t' ht h
  cases f with
  | zero => simp [optimize] at h
  | succ f1 =>
  cases t with
  | int | float | bool | str | null | unknown | ptr _ =>
    simp [optimize, pure, Except.pure] at h; subst h; rfl
  | ser k =>
    simp [optimize, pure, Except.pure] at h; subst h; simpa [out, adm] using ht
  | tuple _ | obj _ => simp [adm] at ht
  | lit ov vs =>
    rw [optimize] at h
    split at h
    · simp only [pure, Except.pure, Except.ok.injEq] at h; subst h; rfl
    · rename_i hb
      simp only [pure, Except.pure, Except.ok.injEq] at h; subst h
      simp only [Bool.or_eq_true, not_or, Bool.not_eq_true] at hb
      obtain ⟨rfl, _⟩ := hb
      simpa [out, adm] using ht
  | list x =>
    rw [optimize] at h
    simp only [bind, Except.bind] at h
    split at h
    · cases h
    · rename_i y hy
      simp only [pure, Except.pure, Except.ok.injEq] at h; subst h
      simp only [out]
      exact ih f1 (by omega) x y (by simpa [adm] using ht) hy
  | dict x =>
    rw [optimize] at h
    simp only [bind, Except.bind] at h
    split at h
    · cases h
    · rename_i y hy
      simp only [pure, Except.pure, Except.ok.injEq] at h; subst h
      simp only [out]
      exact ih f1 (by omega) x y (by simpa [adm] using ht) hy
  | opt x =>
    rw [optimize] at h
    simp only [bind, Except.bind] at h
    split at h
    · cases h
    · rename_i y hy
      have hy' := ih f1 (by omega) x y (adm_opt ht).2 hy
      split at h
      · simp only [pure, Except.pure, Except.ok.injEq] at h; subst h; exact hy'
      · rename_i hno
        simp only [pure, Except.pure, Except.ok.injEq] at h; subst h
        simp only [out, Bool.and_eq_true, Bool.not_eq_true']
        refine ⟨?_, hy'⟩
        cases y <;> first | rfl | exact absurd rfl (hno _)
  | union ms =>
    rw [optimize] at h
    exact adm_union_step (fun f' hf' => ih f' (by omega)) (adm_union ht) h

theorem adm_all (cfg : GenCfg) (e : EqEnv) : ∀ f, AdmAt cfg e f := by
  intro f
  induction f using Nat.strongRecOn with
  | ind f ih => exact adm_step ih

/-- **one pass on admissible metadata gives an `out` type**: whatever the fuel and the comparison environment -/
theorem optimize_adm_out (cfg : GenCfg) (e : EqEnv) (f : Nat) (t t' : Ty) (ht : adm cfg t = true)
    (h : optimize cfg e f t = .ok t') : out cfg t' = true :=
  adm_all cfg e f t t' ht h

end J2M.TwoPass
