/-
  C07 (generator level), part 11: `optimize_type` respects "equal up to order" (`optimize_congr`).
-/
import J2M.Proofs.PermFinish
namespace J2M.Perm
open J2M

variable {cfg : GenCfg} {e : EqEnv}

/-! ## `optimize` constructor by constructor -/

theorem optimize_list {f x u} : optimize cfg e (f + 1) (.list x) = .ok u ↔
    ∃ y, optimize cfg e f x = .ok y ∧ u = .list y := by
  rw [optimize, Except.bind_ok_iff]
  constructor
  · rintro ⟨y, h1, h2⟩; rw [Except.pure_ok_iff] at h2; exact ⟨y, h1, h2.symm⟩
  · rintro ⟨y, h1, h2⟩; exact ⟨y, h1, by rw [Except.pure_ok_iff]; exact h2.symm⟩

theorem optimize_dict {f x u} : optimize cfg e (f + 1) (.dict x) = .ok u ↔
    ∃ y, optimize cfg e f x = .ok y ∧ u = .dict y := by
  rw [optimize, Except.bind_ok_iff]
  constructor
  · rintro ⟨y, h1, h2⟩; rw [Except.pure_ok_iff] at h2; exact ⟨y, h1, h2.symm⟩
  · rintro ⟨y, h1, h2⟩; exact ⟨y, h1, by rw [Except.pure_ok_iff]; exact h2.symm⟩

/-- `Optional[Optional[T]]` collapses -/
def stripOpt : Ty → Ty | .opt y => y | y => y

theorem optimize_opt {f x u} : optimize cfg e (f + 1) (.opt x) = .ok u ↔
    ∃ y, optimize cfg e f x = .ok y ∧ u = .opt (stripOpt y) := by
  rw [optimize, Except.bind_ok_iff]
  constructor
  · rintro ⟨y, h1, h2⟩
    refine ⟨y, h1, ?_⟩
    cases y <;> simp only [pure, Except.pure, Except.ok.injEq] at h2 <;> exact h2.symm
  · rintro ⟨y, h1, h2⟩
    refine ⟨y, h1, ?_⟩
    subst h2
    cases y <;> rfl

theorem optimize_union {f ms} : optimize cfg e (f + 1) (.union ms) = optimizeUnion cfg e f ms := by
  rw [optimize]

theorem optimize_leaf {f t} (h : Ty.isLeaf t = true) (hl : t.isLit = false) (ht : ∀ ts, t ≠ .tuple ts) :
    optimize cfg e (f + 1) t = .ok t := by
  cases t <;> simp [Ty.isLeaf, Ty.isLit] at h hl <;> first | rfl | exact absurd rfl (ht _)

theorem optimize_lit {f o vs} : optimize cfg e (f + 1) (.lit o vs) =
    .ok (if o || vs.isEmpty then .str else .lit o vs) := by
  rw [optimize]; split <;> rfl

theorem optimize_zero {t u} : optimize cfg e 0 t = .ok u → False := by
  intro h; simp [optimize] at h

theorem optimizeUnion_zero {ms u} : optimizeUnion cfg e 0 ms = .ok u → False := by
  intro h; simp [optimizeUnion] at h

/-- the shape of the result for a member handed to a recursive call -/
theorem optimize_shape {f x y} (hu : x.isUnion = false) (ho : x.isOpt = false)
    (h : optimize cfg e f x = .ok y) :
    y.isUnion = false ∧ y.isOpt = false ∧ (y.isUnknown = true → x.isUnknown = true) := by
  cases f with
  | zero => exact absurd h (fun h => optimize_zero h)
  | succ f =>
    cases x
    case list a => obtain ⟨_, _, rfl⟩ := optimize_list.1 h; simp [Ty.isUnion, Ty.isOpt, Ty.isUnknown]
    case dict a => obtain ⟨_, _, rfl⟩ := optimize_dict.1 h; simp [Ty.isUnion, Ty.isOpt, Ty.isUnknown]
    case obj fs => obtain ⟨_, _, _, rfl, _⟩ := optimize_obj h; simp [Ty.isUnion, Ty.isOpt, Ty.isUnknown]
    case opt a => simp [Ty.isOpt] at ho
    case union ms => simp [Ty.isUnion] at hu
    case lit o vs =>
      rw [optimize_lit] at h; cases h
      split <;> simp [Ty.isUnion, Ty.isOpt, Ty.isUnknown]
    case tuple ts =>
      rw [optimize, Except.bind_ok_iff] at h
      obtain ⟨_, _, h⟩ := h
      rw [Except.pure_ok_iff] at h; subst h
      simp [Ty.isUnion, Ty.isOpt, Ty.isUnknown]
    all_goals
      rw [optimize_leaf rfl rfl (fun _ hh => by cases hh)] at h
      cases h
      simp [Ty.isUnion, Ty.isOpt, Ty.isUnknown]

/-! ## what the results look like -/

/-- results are hash-well-formed, and a result that is a union has no `DOptional` member -/
def OutOK (u : Ty) : Prop := u.WFHash ∧ ∀ us, u = .union us → ∀ m ∈ us, m.isOpt = false

theorem OutOK.nonunion {u : Ty} (w : u.WFHash) (h : u.isUnion = false) : OutOK u :=
  ⟨w, fun us e => by subst e; simp [Ty.isUnion] at h⟩

theorem wf_list {y : Ty} : (Ty.list y).WFHash ↔ y.WFHash := by simp [Ty.WFHash, wfHash]
theorem wf_dict {y : Ty} : (Ty.dict y).WFHash ↔ y.WFHash := by simp [Ty.WFHash, wfHash]
theorem wf_opt {y : Ty} : (Ty.opt y).WFHash ↔ y.WFHash := by simp [Ty.WFHash, wfHash]
theorem wf_union {us : List Ty} : (Ty.union us).WFHash ↔ ∀ t ∈ us, t.WFHash := by
  simp only [Ty.WFHash, wfHash]; exact wfHashs_iff us
theorem wf_obj {fs : List (String × Ty)} : (Ty.obj fs).WFHash ↔ ∀ kt ∈ fs, kt.2.WFHash := by
  simp only [Ty.WFHash, wfHash]; exact wfHashF_iff fs

theorem GIn.field {c : LitCfg} {t : Ty} (h : FT c t) : GIn c t := .inl h

theorem wf_stripOpt {y : Ty} (h : y.WFHash) : (stripOpt y).WFHash := by
  cases y <;> first | exact h | exact wf_opt.1 h

theorem outOK_finish {T : List Ty} {u : Ty} (f : FlatWF T) (ho : ∀ t ∈ T, t.isOpt = false)
    (k : T.countP Ty.isUnknown ≤ 1) (h : unionFinish cfg T = .ok u) : OutOK u := by
  match T with
  | [] => simp [unionFinish] at h
  | [t] =>
    simp only [unionFinish, pure, Except.pure, Except.ok.injEq] at h
    subst h
    exact OutOK.nonunion (f.wf _ (by simp)) (f.flat _ (by simp))
  | a :: b :: r =>
    rw [unionFinish_big (by simp)] at h
    cases h
    have fD : FlatWF ((dropUnknown (a :: b :: r)).filter (fun t => !t.isNull)) :=
      ⟨fun t ht => f.flat t ((mem_dropUnknown k).1 (List.mem_filter.1 ht).1).1,
       fun t ht => f.wf t ((mem_dropUnknown k).1 (List.mem_filter.1 ht).1).1⟩
    have hoD : ∀ t ∈ (dropUnknown (a :: b :: r)).filter (fun t => !t.isNull), t.isOpt = false :=
      fun t ht => ho t ((mem_dropUnknown k).1 (List.mem_filter.1 ht).1).1
    generalize (dropUnknown (a :: b :: r)).filter (fun t => !t.isNull) = L at fD hoD
    have hmt : OutOK (mtOf cfg.lit L) := by
      have fM := mkUM_flatWF (c := cfg.lit) fD
      unfold mtOf
      split
      · exact OutOK.nonunion (by decide) rfl
      · rename_i t he
        exact OutOK.nonunion (fM.wf t (by rw [he]; simp)) (fM.flat t (by rw [he]; simp))
      · refine ⟨wf_union.2 fM.wf, fun us he m hm => ?_⟩
        cases he
        rcases mkUnion_members_subset cfg.lit L m hm with ⟨h1, _⟩ | ⟨vs, h1, _⟩ | ⟨h1, _⟩
        · rw [fD.flatten] at h1; exact hoD m h1
        · subst h1; rfl
        · subst h1; rfl
    split
    · exact OutOK.nonunion (wf_opt.2 hmt.1) rfl
    · exact hmt

/-- every result of `optimize_type` on a generator-stage argument is `OutOK` -/
theorem optimize_out : ∀ (f : Nat) (t u : Ty), GIn cfg.lit t → optimize cfg e f t = .ok u → OutOK u := by
  intro f
  induction f using Nat.strongRecOn with
  | _ f ih =>
  intro t u hg h
  cases f with
  | zero => exact absurd h (fun h => optimize_zero h)
  | succ f =>
    have hobj : ∀ fs : Fields, (∀ kv ∈ fs, GIn cfg.lit kv.2) → optimize cfg e (f + 1) (.obj fs) = .ok u → OutOK u := by
      intro fs hfs h
      obtain ⟨n, fs', hn, rfl, _, hr⟩ := optimize_obj h
      cases hn
      refine OutOK.nonunion (wf_obj.2 ?_) rfl
      intro kt hkt
      obtain ⟨a, ha, _, hopt⟩ := forall₂_mem_right hr hkt
      exact (ih f (by omega) a.2 kt.2 (hfs a ha) hopt).1
    rcases hg with (hr | ⟨x, rfl, hx⟩) | ⟨fs, rfl, _, hfs⟩
    · cases t
      case list a =>
        obtain ⟨y, hy, rfl⟩ := optimize_list.1 h
        exact OutOK.nonunion (wf_list.2 (ih f (by omega) a y (.of_raw (by simpa using hr)) hy).1) rfl
      case dict a =>
        obtain ⟨y, hy, rfl⟩ := optimize_dict.1 h
        exact OutOK.nonunion (wf_dict.2 (ih f (by omega) a y (.of_raw (by simpa using hr)) hy).1) rfl
      case obj fs => exact hobj fs (fun kv hkv => .of_raw ((rawN_obj.1 hr).2 kv hkv).1) h
      case opt a => simp at hr
      case tuple ts => simp at hr
      case ptr i => simp at hr
      case lit o vs =>
        rw [optimize_lit] at h; cases h
        split
        · exact OutOK.nonunion (by decide) rfl
        · exact OutOK.nonunion hr.wf rfl
      case union ms =>
        rw [optimize_union] at h
        cases f with
        | zero => exact absurd h (fun h => optimizeUnion_zero h)
        | succ f =>
          rw [optimizeUnion_eq, Except.bind_ok_iff] at h
          obtain ⟨other, ho, h⟩ := h
          rw [Except.bind_ok_iff] at h
          obtain ⟨types, ht, h⟩ := h
          have hrel := other_rel hr hr (SetA.refl ms) ho ho
          have hF := mapM_forall₂ ht
          have hx : ∀ y ∈ types, ∃ x ∈ other, optimize cfg e f x = .ok y := fun y hy => forall₂_mem_right hF hy
          have hprop : ∀ y ∈ types, y.WFHash ∧ y.isUnion = false ∧ y.isOpt = false := by
            intro y hy
            obtain ⟨x, hxo, hxy⟩ := hx y hy
            obtain ⟨_, _, r⟩ := hrel.rel.fwd x hxo
            have hs := optimize_shape r.ux r.ox hxy
            exact ⟨(ih f (by omega) x y r.pair.left hxy).1, hs.1, hs.2.1⟩
          refine outOK_finish ⟨fun t ht => (hprop t ht).2.1, fun t ht => (hprop t ht).1⟩
            (fun t ht => (hprop t ht).2.2) ?_ h
          refine Nat.le_trans (forall₂_countP_le (p := Ty.isUnknown) hF ?_) hrel.unk₁
          intro a ha b hab hb
          obtain ⟨_, _, r⟩ := hrel.rel.fwd a ha
          exact (optimize_shape r.ux r.ox hab).2.2 hb
      all_goals
        rw [optimize_leaf rfl rfl (fun _ hh => by cases hh)] at h
        cases h
        exact OutOK.nonunion hr.wf rfl
    · obtain ⟨y, hy, rfl⟩ := optimize_opt.1 h
      exact OutOK.nonunion (wf_opt.2 (wf_stripOpt (ih f (by omega) x y (.of_raw hx) hy).1)) rfl
    · exact hobj fs (fun kv hkv => .field (hfs kv hkv)) h

end J2M.Perm
