/-
  C07 (generator level), part 1: "equal up to order" on metadata.

  `Sim len a b`:
  * atoms, pseudo-types, literals, pointers, tuples: equal;
  * `list` / `dict` / `opt`: congruent;
  * `union as` vs `union bs`: every member of one has a `Sim`-equal member in the other
    (and, when `len = true`, the two member lists have the same length);
  * `obj fs` vs `obj gs`: every `(k, t)` of one has a `(k, u)` in the other with `Sim t u`
    (same key sets, field order irrelevant).

  `Sim true`  is the relation `≈` of the final statement, `Sim false` (`≃`, unions compared as plain sets)
  is what holds between the *raw* (not yet optimised) types of two runs.
-/
import J2M.Proofs.InhHash
namespace J2M.Perm
open J2M

mutual
def Sim (len : Bool) : Ty → Ty → Prop
  | .list x, b => ∃ y, b = .list y ∧ Sim len x y
  | .dict x, b => ∃ y, b = .dict y ∧ Sim len x y
  | .opt x, b => ∃ y, b = .opt y ∧ Sim len x y
  | .union as, b => ∃ bs, b = .union bs ∧ SimSub len as bs ∧ (∀ y, y ∈ bs → SimAny len as y) ∧
      (len = true → as.length = bs.length)
  | .obj fs, b => ∃ gs, b = .obj gs ∧ SimFSub len fs gs ∧ (∀ kv, kv ∈ gs → SimFAny len fs kv.1 kv.2)
  | a, b => b = a
/-- every member of `as` has a partner in `bs` -/
def SimSub (len : Bool) : List Ty → List Ty → Prop
  | [], _ => True
  | a :: as, bs => (∃ b, b ∈ bs ∧ Sim len a b) ∧ SimSub len as bs
/-- `y` has a partner in `as` -/
def SimAny (len : Bool) : List Ty → Ty → Prop
  | [], _ => False
  | a :: as, y => Sim len a y ∨ SimAny len as y
def SimFSub (len : Bool) : List (String × Ty) → List (String × Ty) → Prop
  | [], _ => True
  | (k, t) :: fs, gs => (∃ u, (k, u) ∈ gs ∧ Sim len t u) ∧ SimFSub len fs gs
def SimFAny (len : Bool) : List (String × Ty) → String → Ty → Prop
  | [], _, _ => False
  | (k, t) :: fs, k', u => (k = k' ∧ Sim len t u) ∨ SimFAny len fs k' u
end

theorem simSub_iff {len as bs} : SimSub len as bs ↔ ∀ a ∈ as, ∃ b ∈ bs, Sim len a b := by
  induction as with
  | nil => simp [SimSub]
  | cons a as ih => simp [SimSub, ih]

theorem simAny_iff {len as y} : SimAny len as y ↔ ∃ a ∈ as, Sim len a y := by
  induction as with
  | nil => simp [SimAny]
  | cons a as ih => simp [SimAny, ih]

theorem simFSub_iff {len fs gs} :
    SimFSub len fs gs ↔ ∀ kv ∈ fs, ∃ u, (kv.1, u) ∈ gs ∧ Sim len kv.2 u := by
  induction fs with
  | nil => simp [SimFSub]
  | cons f fs ih => obtain ⟨k, t⟩ := f; simp [SimFSub, ih]

theorem simFAny_iff {len fs k u} : SimFAny len fs k u ↔ ∃ t, (k, t) ∈ fs ∧ Sim len t u := by
  induction fs with
  | nil => simp [SimFAny]
  | cons f fs ih =>
    obtain ⟨k', t⟩ := f
    simp only [SimFAny, ih, List.mem_cons, Prod.mk.injEq]
    constructor
    · rintro (⟨rfl, h⟩ | ⟨t', h1, h2⟩)
      · exact ⟨t, .inl ⟨rfl, rfl⟩, h⟩
      · exact ⟨t', .inr h1, h2⟩
    · rintro ⟨t', (⟨rfl, rfl⟩ | h1), h2⟩
      · exact .inl ⟨rfl, h2⟩
      · exact .inr ⟨t', h1, h2⟩

/-- members of two lists correspond, as sets up to `Sim` -/
def SetSim (len : Bool) (as bs : List Ty) : Prop :=
  (∀ a ∈ as, ∃ b ∈ bs, Sim len a b) ∧ (∀ b ∈ bs, ∃ a ∈ as, Sim len a b)

/-- two field dicts correspond key by key up to `Sim` -/
def FieldsSim (len : Bool) (fs gs : Fields) : Prop :=
  (∀ kv ∈ fs, ∃ u, (kv.1, u) ∈ gs ∧ Sim len kv.2 u) ∧ (∀ kv ∈ gs, ∃ t, (kv.1, t) ∈ fs ∧ Sim len t kv.2)

theorem sim_list {len x b} : Sim len (.list x) b ↔ ∃ y, b = .list y ∧ Sim len x y := by rw [Sim]
theorem sim_dict {len x b} : Sim len (.dict x) b ↔ ∃ y, b = .dict y ∧ Sim len x y := by rw [Sim]
theorem sim_opt {len x b} : Sim len (.opt x) b ↔ ∃ y, b = .opt y ∧ Sim len x y := by rw [Sim]
theorem sim_union {len as b} : Sim len (.union as) b ↔
    ∃ bs, b = .union bs ∧ SetSim len as bs ∧ (len = true → as.length = bs.length) := by
  rw [Sim]
  simp only [simSub_iff, simAny_iff, SetSim, and_assoc]
theorem sim_obj {len fs b} : Sim len (.obj fs) b ↔ ∃ gs, b = .obj gs ∧ FieldsSim len fs gs := by
  rw [Sim]
  simp only [simFSub_iff, simFAny_iff, FieldsSim]

@[simp] theorem sim_list_list {len x y} : Sim len (.list x) (.list y) ↔ Sim len x y := by
  rw [sim_list]; simp
@[simp] theorem sim_dict_dict {len x y} : Sim len (.dict x) (.dict y) ↔ Sim len x y := by
  rw [sim_dict]; simp
@[simp] theorem sim_opt_opt {len x y} : Sim len (.opt x) (.opt y) ↔ Sim len x y := by
  rw [sim_opt]; simp
theorem sim_union_union {len as bs} : Sim len (.union as) (.union bs) ↔
    SetSim len as bs ∧ (len = true → as.length = bs.length) := by
  rw [sim_union]; simp
theorem sim_obj_obj {len fs gs} : Sim len (.obj fs) (.obj gs) ↔ FieldsSim len fs gs := by
  rw [sim_obj]; simp

/-- the remaining constructors: plain equality -/
def Ty.isLeaf : Ty → Bool
  | .list _ | .dict _ | .opt _ | .union _ | .obj _ => false
  | _ => true

theorem sim_leaf {len a b} (h : Ty.isLeaf a = true) : Sim len a b ↔ b = a := by
  cases a <;> simp [Ty.isLeaf] at h <;> (rw [Sim] <;> (intro _ hh; cases hh))

/-! ## equivalence -/

theorem sim_refl_aux (len : Bool) : ∀ n (a : Ty), a.size ≤ n → Sim len a a := by
  intro n
  induction n with
  | zero => intro a h; cases a <;> simp [Ty.size] at h
  | succ n ih =>
    intro a h
    cases a
    case list x => exact sim_list_list.2 (ih x (by simp [Ty.size] at h; omega))
    case dict x => exact sim_dict_dict.2 (ih x (by simp [Ty.size] at h; omega))
    case opt x => exact sim_opt_opt.2 (ih x (by simp [Ty.size] at h; omega))
    case union as =>
      have hm : ∀ a ∈ as, Sim len a a := fun a ha => by
        have := Ty.size_le_sizeList ha
        exact ih a (by simp [Ty.size] at h; omega)
      exact sim_union_union.2 ⟨⟨fun a ha => ⟨a, ha, hm a ha⟩, fun a ha => ⟨a, ha, hm a ha⟩⟩, fun _ => rfl⟩
    case obj fs =>
      have hm : ∀ kv ∈ fs, Sim len kv.2 kv.2 := fun kv hkv => by
        have := Ty.size_le_sizeFields hkv
        exact ih kv.2 (by simp [Ty.size] at h; omega)
      exact sim_obj_obj.2 ⟨fun kv hkv => ⟨kv.2, hkv, hm kv hkv⟩, fun kv hkv => ⟨kv.2, hkv, hm kv hkv⟩⟩
    all_goals exact (sim_leaf rfl).2 rfl

theorem Sim.refl (len : Bool) (a : Ty) : Sim len a a := sim_refl_aux len a.size a (Nat.le_refl _)

theorem sim_symm_aux (len : Bool) : ∀ n (a b : Ty), a.size ≤ n → Sim len a b → Sim len b a := by
  intro n
  induction n with
  | zero => intro a b h; cases a <;> simp [Ty.size] at h
  | succ n ih =>
    intro a b h hs
    cases a
    case list x =>
      obtain ⟨y, rfl, h1⟩ := sim_list.1 hs
      exact sim_list_list.2 (ih x y (by simp [Ty.size] at h; omega) h1)
    case dict x =>
      obtain ⟨y, rfl, h1⟩ := sim_dict.1 hs
      exact sim_dict_dict.2 (ih x y (by simp [Ty.size] at h; omega) h1)
    case opt x =>
      obtain ⟨y, rfl, h1⟩ := sim_opt.1 hs
      exact sim_opt_opt.2 (ih x y (by simp [Ty.size] at h; omega) h1)
    case union as =>
      obtain ⟨bs, rfl, ⟨h1, h2⟩, h3⟩ := sim_union.1 hs
      have hm : ∀ a ∈ as, ∀ b, Sim len a b → Sim len b a := fun a ha b hab => by
        have := Ty.size_le_sizeList ha
        exact ih a b (by simp [Ty.size] at h; omega) hab
      refine sim_union_union.2 ⟨⟨?_, ?_⟩, fun hl => (h3 hl).symm⟩
      · intro b hb
        obtain ⟨a, ha, hab⟩ := h2 b hb
        exact ⟨a, ha, hm a ha b hab⟩
      · intro a ha
        obtain ⟨b, hb, hab⟩ := h1 a ha
        exact ⟨b, hb, hm a ha b hab⟩
    case obj fs =>
      obtain ⟨gs, rfl, h1, h2⟩ := sim_obj.1 hs
      have hm : ∀ kv ∈ fs, ∀ b, Sim len kv.2 b → Sim len b kv.2 := fun kv hkv b hab => by
        have := Ty.size_le_sizeFields hkv
        exact ih kv.2 b (by simp [Ty.size] at h; omega) hab
      refine sim_obj_obj.2 ⟨?_, ?_⟩
      · intro kv hkv
        obtain ⟨t, ht, hab⟩ := h2 kv hkv
        exact ⟨t, ht, hm (kv.1, t) ht _ hab⟩
      · intro kv hkv
        obtain ⟨u, hu, hab⟩ := h1 kv hkv
        exact ⟨u, hu, hm kv hkv _ hab⟩
    all_goals
      have := (sim_leaf (len := len) rfl).1 hs
      subst this; exact Sim.refl _ _

theorem Sim.symm {len : Bool} {a b : Ty} (h : Sim len a b) : Sim len b a :=
  sim_symm_aux len a.size a b (Nat.le_refl _) h

theorem sim_trans_aux (len : Bool) : ∀ n (a b c : Ty), a.size ≤ n → Sim len a b → Sim len b c → Sim len a c := by
  intro n
  induction n with
  | zero => intro a b c h; cases a <;> simp [Ty.size] at h
  | succ n ih =>
    intro a b c h hab hbc
    cases a
    case list x =>
      obtain ⟨y, rfl, h1⟩ := sim_list.1 hab
      obtain ⟨z, rfl, h2⟩ := sim_list.1 hbc
      exact sim_list_list.2 (ih x y z (by simp [Ty.size] at h; omega) h1 h2)
    case dict x =>
      obtain ⟨y, rfl, h1⟩ := sim_dict.1 hab
      obtain ⟨z, rfl, h2⟩ := sim_dict.1 hbc
      exact sim_dict_dict.2 (ih x y z (by simp [Ty.size] at h; omega) h1 h2)
    case opt x =>
      obtain ⟨y, rfl, h1⟩ := sim_opt.1 hab
      obtain ⟨z, rfl, h2⟩ := sim_opt.1 hbc
      exact sim_opt_opt.2 (ih x y z (by simp [Ty.size] at h; omega) h1 h2)
    case union as =>
      obtain ⟨bs, rfl, ⟨h1, h2⟩, h3⟩ := sim_union.1 hab
      obtain ⟨cs, rfl, ⟨k1, k2⟩, k3⟩ := sim_union.1 hbc
      have hm : ∀ a ∈ as, ∀ b c, Sim len a b → Sim len b c → Sim len a c := fun a ha b c hab hbc => by
        have := Ty.size_le_sizeList ha
        exact ih a b c (by simp [Ty.size] at h; omega) hab hbc
      refine sim_union_union.2 ⟨⟨?_, ?_⟩, fun hl => (h3 hl).trans (k3 hl)⟩
      · intro a ha
        obtain ⟨b, hb, hab⟩ := h1 a ha
        obtain ⟨c, hc, hbc⟩ := k1 b hb
        exact ⟨c, hc, hm a ha b c hab hbc⟩
      · intro c hc
        obtain ⟨b, hb, hbc⟩ := k2 c hc
        obtain ⟨a, ha, hab⟩ := h2 b hb
        exact ⟨a, ha, hm a ha b c hab hbc⟩
    case obj fs =>
      obtain ⟨gs, rfl, h1, h2⟩ := sim_obj.1 hab
      obtain ⟨hs, rfl, k1, k2⟩ := sim_obj.1 hbc
      have hm : ∀ kv ∈ fs, ∀ b c, Sim len kv.2 b → Sim len b c → Sim len kv.2 c := fun kv hkv b c hab hbc => by
        have := Ty.size_le_sizeFields hkv
        exact ih kv.2 b c (by simp [Ty.size] at h; omega) hab hbc
      refine sim_obj_obj.2 ⟨?_, ?_⟩
      · intro kv hkv
        obtain ⟨u, hu, hab⟩ := h1 kv hkv
        obtain ⟨w, hw, hbc⟩ := k1 (kv.1, u) hu
        exact ⟨w, hw, hm kv hkv u w hab hbc⟩
      · intro kv hkv
        obtain ⟨u, hu, hbc⟩ := k2 kv hkv
        obtain ⟨t, ht, hab⟩ := h2 (kv.1, u) hu
        exact ⟨t, ht, hm (kv.1, t) ht u kv.2 hab hbc⟩
    all_goals
      have := (sim_leaf (len := len) rfl).1 hab
      subst this; exact hbc

theorem Sim.trans {len : Bool} {a b c : Ty} (h1 : Sim len a b) (h2 : Sim len b c) : Sim len a c :=
  sim_trans_aux len a.size a b c (Nat.le_refl _) h1 h2

/-- `Sim len` is an equivalence relation -/
theorem sim_equivalence (len : Bool) : Equivalence (Sim len) :=
  ⟨Sim.refl len, Sim.symm, Sim.trans⟩

/-- the multiset-flavoured relation refines the set-flavoured one -/
theorem sim_weaken_aux : ∀ n (a b : Ty), a.size ≤ n → Sim true a b → Sim false a b := by
  intro n
  induction n with
  | zero => intro a b h; cases a <;> simp [Ty.size] at h
  | succ n ih =>
    intro a b h hs
    cases a
    case list x =>
      obtain ⟨y, rfl, h1⟩ := sim_list.1 hs
      exact sim_list_list.2 (ih x y (by simp [Ty.size] at h; omega) h1)
    case dict x =>
      obtain ⟨y, rfl, h1⟩ := sim_dict.1 hs
      exact sim_dict_dict.2 (ih x y (by simp [Ty.size] at h; omega) h1)
    case opt x =>
      obtain ⟨y, rfl, h1⟩ := sim_opt.1 hs
      exact sim_opt_opt.2 (ih x y (by simp [Ty.size] at h; omega) h1)
    case union as =>
      obtain ⟨bs, rfl, ⟨h1, h2⟩, _⟩ := sim_union.1 hs
      have hm : ∀ a ∈ as, ∀ b, Sim true a b → Sim false a b := fun a ha b hab => by
        have := Ty.size_le_sizeList ha
        exact ih a b (by simp [Ty.size] at h; omega) hab
      refine sim_union_union.2 ⟨⟨?_, ?_⟩, by simp⟩
      · intro a ha
        obtain ⟨b, hb, hab⟩ := h1 a ha
        exact ⟨b, hb, hm a ha b hab⟩
      · intro b hb
        obtain ⟨a, ha, hab⟩ := h2 b hb
        exact ⟨a, ha, hm a ha b hab⟩
    case obj fs =>
      obtain ⟨gs, rfl, h1, h2⟩ := sim_obj.1 hs
      have hm : ∀ kv ∈ fs, ∀ b, Sim true kv.2 b → Sim false kv.2 b := fun kv hkv b hab => by
        have := Ty.size_le_sizeFields hkv
        exact ih kv.2 b (by simp [Ty.size] at h; omega) hab
      refine sim_obj_obj.2 ⟨?_, ?_⟩
      · intro kv hkv
        obtain ⟨u, hu, hab⟩ := h1 kv hkv
        exact ⟨u, hu, hm kv hkv _ hab⟩
      · intro kv hkv
        obtain ⟨t, ht, hab⟩ := h2 kv hkv
        exact ⟨t, ht, hm (kv.1, t) ht _ hab⟩
    all_goals
      have := (sim_leaf (len := true) rfl).1 hs
      subst this; exact Sim.refl _ _

theorem Sim.weaken {a b : Ty} (h : Sim true a b) : Sim false a b :=
  sim_weaken_aux a.size a b (Nat.le_refl _) h

/-! ## `SetSim` / `FieldsSim` as relations -/

theorem SetSim.refl (len : Bool) (as : List Ty) : SetSim len as as :=
  ⟨fun a ha => ⟨a, ha, Sim.refl _ _⟩, fun a ha => ⟨a, ha, Sim.refl _ _⟩⟩

theorem SetSim.symm {len as bs} (h : SetSim len as bs) : SetSim len bs as :=
  ⟨fun b hb => by obtain ⟨a, ha, h'⟩ := h.2 b hb; exact ⟨a, ha, h'.symm⟩,
   fun a ha => by obtain ⟨b, hb, h'⟩ := h.1 a ha; exact ⟨b, hb, h'.symm⟩⟩

theorem SetSim.trans {len as bs cs} (h1 : SetSim len as bs) (h2 : SetSim len bs cs) : SetSim len as cs :=
  ⟨fun a ha => by
    obtain ⟨b, hb, h'⟩ := h1.1 a ha
    obtain ⟨c, hc, h''⟩ := h2.1 b hb
    exact ⟨c, hc, h'.trans h''⟩,
   fun c hc => by
    obtain ⟨b, hb, h'⟩ := h2.2 c hc
    obtain ⟨a, ha, h''⟩ := h1.2 b hb
    exact ⟨a, ha, h''.trans h'⟩⟩

theorem SetSim.of_mem_iff {len as bs} (h : ∀ t, t ∈ as ↔ t ∈ bs) : SetSim len as bs :=
  ⟨fun a ha => ⟨a, (h a).1 ha, Sim.refl _ _⟩, fun b hb => ⟨b, (h b).2 hb, Sim.refl _ _⟩⟩

theorem SetSim.append {len as bs as' bs'} (h1 : SetSim len as bs) (h2 : SetSim len as' bs') :
    SetSim len (as ++ as') (bs ++ bs') := by
  constructor
  · intro a ha
    rcases List.mem_append.1 ha with ha | ha
    · obtain ⟨b, hb, h⟩ := h1.1 a ha; exact ⟨b, List.mem_append_left _ hb, h⟩
    · obtain ⟨b, hb, h⟩ := h2.1 a ha; exact ⟨b, List.mem_append_right _ hb, h⟩
  · intro b hb
    rcases List.mem_append.1 hb with hb | hb
    · obtain ⟨a, ha, h⟩ := h1.2 b hb; exact ⟨a, List.mem_append_left _ ha, h⟩
    · obtain ⟨a, ha, h⟩ := h2.2 b hb; exact ⟨a, List.mem_append_right _ ha, h⟩

theorem FieldsSim.refl (len : Bool) (fs : Fields) : FieldsSim len fs fs :=
  ⟨fun kv hkv => ⟨kv.2, hkv, Sim.refl _ _⟩, fun kv hkv => ⟨kv.2, hkv, Sim.refl _ _⟩⟩

theorem FieldsSim.symm {len fs gs} (h : FieldsSim len fs gs) : FieldsSim len gs fs :=
  sim_obj_obj.1 (Sim.symm (sim_obj_obj.2 h))

theorem FieldsSim.trans {len fs gs hs} (h1 : FieldsSim len fs gs) (h2 : FieldsSim len gs hs) :
    FieldsSim len fs hs :=
  sim_obj_obj.1 (Sim.trans (sim_obj_obj.2 h1) (sim_obj_obj.2 h2))

/-! ## `Sim` keeps the top constructor -/

theorem sim_isLit {len a b} (h : Sim len a b) : a.isLit = b.isLit := by
  cases a <;> first
    | (have := (sim_leaf (len := len) rfl).1 h; subst this; rfl)
    | (rw [Sim] at h; obtain ⟨_, rfl, _⟩ := h; rfl)

theorem sim_isStr {len a b} (h : Sim len a b) : a.isStr = b.isStr := by
  cases a <;> first
    | (have := (sim_leaf (len := len) rfl).1 h; subst this; rfl)
    | (rw [Sim] at h; obtain ⟨_, rfl, _⟩ := h; rfl)

theorem sim_isUnion {len a b} (h : Sim len a b) : a.isUnion = b.isUnion := by
  cases a <;> first
    | (have := (sim_leaf (len := len) rfl).1 h; subst this; rfl)
    | (rw [Sim] at h; obtain ⟨_, rfl, _⟩ := h; rfl)

theorem sim_isOpt {len a b} (h : Sim len a b) : a.isOpt = b.isOpt := by
  cases a <;> first
    | (have := (sim_leaf (len := len) rfl).1 h; subst this; rfl)
    | (rw [Sim] at h; obtain ⟨_, rfl, _⟩ := h; rfl)

theorem sim_lit_left {len o vs b} (h : Sim len (.lit o vs) b) : b = .lit o vs := (sim_leaf rfl).1 h
theorem sim_lit_right {len o vs a} (h : Sim len a (.lit o vs)) : a = .lit o vs := sim_lit_left h.symm
theorem sim_str_left {len b} (h : Sim len .str b) : b = .str := (sim_leaf rfl).1 h
theorem sim_str_right {len a} (h : Sim len a .str) : a = .str := sim_str_left h.symm

end J2M.Perm
