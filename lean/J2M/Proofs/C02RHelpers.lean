/-
  C02 at the registry stage, part 1: the graph-level witness relations and their algebra.

  * `GWit Obj acc a u t vs`  — STRICT graph-level witness: clause by clause `C02T.Wit`, for registry-stage types
    (no inline field dict; a model pointer `.ptr j` is witnessed by an object among `vs` that is attributed to
    model `j` by `Obj`).
  * `LWit Obj acc a u t vs`  — LAX graph-level witness, the invariant that survives ONE `_merge` +
    `optimize_type`: as `GWit`, but (1) the licences `a` ("some object lacks the key") and `u` ("the enclosing
    container was observed empty") are handed down through `DUnion` members, and (2) `Unknown` is also licensed
    by an observed `null` (the documented "`_optimize_union` returns `Unknown` when every member was `Null`").
  * `Reach L t v j o`        — routing: read at type `t`, the value `v` routes its sub-object `o` to model `j`.
  * `GModel` / `LModel`      — a field dict witnessed by a list of objects (the `.obj` clause of `C02T.Wit`).
  * `TightG` / `TightL`      — every registered model is witnessed by objects attributed to it.
-/
import J2M.Proofs.TightMerge
import J2M.Proofs.RegistryPipeline
namespace J2M.C02RH
open J2M J2M.C02T J2M.Reg

/-- attribution of sample sub-objects to registered models -/
abbrev ObjRel := String → Json → Prop

/-! ## the strict relation -/

mutual
/-- strict graph-level witness (see the file header) -/
def GWit (Obj : ObjRel) (acc : Accepts) (a u : Prop) : Ty → List Json → Prop
  | .int, vs => ∃ i, Json.int i ∈ vs
  | .float, vs => ∃ x, Json.float x ∈ vs
  | .bool, vs => ∃ b, Json.bool b ∈ vs
  | .null, vs => Json.null ∈ vs
  | .str, vs => ∃ s, Json.str s ∈ vs
  | .unknown, _ => u
  | .ser k, vs => ∃ s, Json.str s ∈ vs ∧ acc k s = some true
  | .lit true _, vs => ∃ s, Json.str s ∈ vs
  | .lit false ws, vs => ws ≠ [] ∧ ∀ w ∈ ws, Json.str w ∈ vs
  | .opt t, vs => (a ∨ Json.null ∈ vs) ∧ GWit Obj acc a u t vs
  | .union ts, vs => ts ≠ [] ∧ GWitAll Obj acc ts vs
  | .list t, vs => GWit Obj acc False (Json.arr [] ∈ vs) t (elemsOf vs)
  | .dict t, vs => GWit Obj acc False (Json.obj [] ∈ vs) t (valsOf vs)
  | .obj _, _ => False
  | .tuple _, _ => False
  | .ptr j, vs => ∃ kvs, Json.obj kvs ∈ vs ∧ Obj j (.obj kvs)
/-- every union member is witnessed, with no licence -/
def GWitAll (Obj : ObjRel) (acc : Accepts) : List Ty → List Json → Prop
  | [], _ => True
  | t :: ts, vs => GWit Obj acc False False t vs ∧ GWitAll Obj acc ts vs
end

theorem gwitAll_iff {Obj : ObjRel} {acc : Accepts} {ts : List Ty} {vs : List Json} :
    GWitAll Obj acc ts vs ↔ ∀ t ∈ ts, GWit Obj acc False False t vs := by
  induction ts with
  | nil => simp [GWitAll]
  | cons t ts ih => simp [GWitAll, ih]

theorem gwit_union {Obj : ObjRel} {acc : Accepts} {a u : Prop} {ts : List Ty} {vs : List Json} :
    GWit Obj acc a u (.union ts) vs ↔ ts ≠ [] ∧ ∀ t ∈ ts, GWit Obj acc False False t vs := by
  rw [GWit, gwitAll_iff]

/-! ## the lax relation -/

mutual
/-- lax graph-level witness (see the file header) -/
def LWit (Obj : ObjRel) (acc : Accepts) (a u : Prop) : Ty → List Json → Prop
  | .int, vs => ∃ i, Json.int i ∈ vs
  | .float, vs => ∃ x, Json.float x ∈ vs
  | .bool, vs => ∃ b, Json.bool b ∈ vs
  | .null, vs => Json.null ∈ vs
  | .str, vs => ∃ s, Json.str s ∈ vs
  | .unknown, vs => u ∨ Json.null ∈ vs
  | .ser k, vs => ∃ s, Json.str s ∈ vs ∧ acc k s = some true
  | .lit true _, vs => ∃ s, Json.str s ∈ vs
  | .lit false ws, vs => ws ≠ [] ∧ ∀ w ∈ ws, Json.str w ∈ vs
  | .opt t, vs => (a ∨ Json.null ∈ vs) ∧ LWit Obj acc a u t vs
  | .union ts, vs => ts ≠ [] ∧ LWitAll Obj acc a u ts vs
  | .list t, vs => LWit Obj acc False (Json.arr [] ∈ vs) t (elemsOf vs)
  | .dict t, vs => LWit Obj acc False (Json.obj [] ∈ vs) t (valsOf vs)
  | .obj _, _ => False
  | .tuple _, _ => False
  | .ptr j, vs => ∃ kvs, Json.obj kvs ∈ vs ∧ Obj j (.obj kvs)
/-- every union member is witnessed, under the licences of the union -/
def LWitAll (Obj : ObjRel) (acc : Accepts) (a u : Prop) : List Ty → List Json → Prop
  | [], _ => True
  | t :: ts, vs => LWit Obj acc a u t vs ∧ LWitAll Obj acc a u ts vs
end

theorem lwitAll_iff {Obj : ObjRel} {acc : Accepts} {a u : Prop} {ts : List Ty} {vs : List Json} :
    LWitAll Obj acc a u ts vs ↔ ∀ t ∈ ts, LWit Obj acc a u t vs := by
  induction ts with
  | nil => simp [LWitAll]
  | cons t ts ih => simp [LWitAll, ih]

theorem lwit_union {Obj : ObjRel} {acc : Accepts} {a u : Prop} {ts : List Ty} {vs : List Json} :
    LWit Obj acc a u (.union ts) vs ↔ ts ≠ [] ∧ ∀ t ∈ ts, LWit Obj acc a u t vs := by
  rw [LWit, lwitAll_iff]

/-! ## monotonicity -/

mutual
theorem GWit.mono {Obj Obj' : ObjRel} {acc : Accepts} (hO : ∀ j o, Obj j o → Obj' j o) :
    ∀ (t : Ty) {a a' u u' : Prop} {vs vs' : List Json},
    (a → a') → (u → u') → (∀ v ∈ vs, v ∈ vs') → GWit Obj acc a u t vs → GWit Obj' acc a' u' t vs'
  | .int, _, _, _, _, _, _, _, _, hs, h => by
    simp only [GWit] at h ⊢; obtain ⟨i, hi⟩ := h; exact ⟨i, hs _ hi⟩
  | .float, _, _, _, _, _, _, _, _, hs, h => by
    simp only [GWit] at h ⊢; obtain ⟨i, hi⟩ := h; exact ⟨i, hs _ hi⟩
  | .bool, _, _, _, _, _, _, _, _, hs, h => by
    simp only [GWit] at h ⊢; obtain ⟨i, hi⟩ := h; exact ⟨i, hs _ hi⟩
  | .null, _, _, _, _, _, _, _, _, hs, h => by
    simp only [GWit] at h ⊢; exact hs _ h
  | .str, _, _, _, _, _, _, _, _, hs, h => by
    simp only [GWit] at h ⊢; obtain ⟨i, hi⟩ := h; exact ⟨i, hs _ hi⟩
  | .unknown, _, _, _, _, _, _, _, hu, _, h => by
    simp only [GWit] at h ⊢; exact hu h
  | .ser k, _, _, _, _, _, _, _, _, hs, h => by
    simp only [GWit] at h ⊢; obtain ⟨s, hi, ha⟩ := h; exact ⟨s, hs _ hi, ha⟩
  | .lit true _, _, _, _, _, _, _, _, _, hs, h => by
    simp only [GWit] at h ⊢; obtain ⟨i, hi⟩ := h; exact ⟨i, hs _ hi⟩
  | .lit false ws, _, _, _, _, _, _, _, _, hs, h => by
    simp only [GWit] at h ⊢; exact ⟨h.1, fun w hw => hs _ (h.2 w hw)⟩
  | .opt t, _, _, _, _, _, _, ha, hu, hs, h => by
    simp only [GWit] at h ⊢
    exact ⟨h.1.elim (fun x => .inl (ha x)) (fun x => .inr (hs _ x)), GWit.mono hO t ha hu hs h.2⟩
  | .union ts, _, _, _, _, _, _, _, _, hs, h => by
    simp only [GWit] at h ⊢
    exact ⟨h.1, GWitAll.mono hO ts hs h.2⟩
  | .list t, _, _, _, _, _, _, _, _, hs, h => by
    simp only [GWit] at h ⊢
    exact GWit.mono hO t id (hs _) (elemsOf_mono hs) h
  | .dict t, _, _, _, _, _, _, _, _, hs, h => by
    simp only [GWit] at h ⊢
    exact GWit.mono hO t id (hs _) (valsOf_mono hs) h
  | .obj _, _, _, _, _, _, _, _, _, _, h => by simp only [GWit] at h
  | .tuple _, _, _, _, _, _, _, _, _, _, h => by simp only [GWit] at h
  | .ptr j, _, _, _, _, _, _, _, _, hs, h => by
    simp only [GWit] at h ⊢
    obtain ⟨kvs, h1, h2⟩ := h
    exact ⟨kvs, hs _ h1, hO _ _ h2⟩
theorem GWitAll.mono {Obj Obj' : ObjRel} {acc : Accepts} (hO : ∀ j o, Obj j o → Obj' j o) :
    ∀ (ts : List Ty) {vs vs' : List Json},
    (∀ v ∈ vs, v ∈ vs') → GWitAll Obj acc ts vs → GWitAll Obj' acc ts vs'
  | [], _, _, _, _ => by simp only [GWitAll]
  | t :: ts, _, _, hs, h => by
    simp only [GWitAll] at h ⊢
    exact ⟨GWit.mono hO t id id hs h.1, GWitAll.mono hO ts hs h.2⟩
end

mutual
theorem LWit.mono {Obj Obj' : ObjRel} {acc : Accepts} (hO : ∀ j o, Obj j o → Obj' j o) :
    ∀ (t : Ty) {a a' u u' : Prop} {vs vs' : List Json},
    (a → a') → (u → u') → (∀ v ∈ vs, v ∈ vs') → LWit Obj acc a u t vs → LWit Obj' acc a' u' t vs'
  | .int, _, _, _, _, _, _, _, _, hs, h => by
    simp only [LWit] at h ⊢; obtain ⟨i, hi⟩ := h; exact ⟨i, hs _ hi⟩
  | .float, _, _, _, _, _, _, _, _, hs, h => by
    simp only [LWit] at h ⊢; obtain ⟨i, hi⟩ := h; exact ⟨i, hs _ hi⟩
  | .bool, _, _, _, _, _, _, _, _, hs, h => by
    simp only [LWit] at h ⊢; obtain ⟨i, hi⟩ := h; exact ⟨i, hs _ hi⟩
  | .null, _, _, _, _, _, _, _, _, hs, h => by
    simp only [LWit] at h ⊢; exact hs _ h
  | .str, _, _, _, _, _, _, _, _, hs, h => by
    simp only [LWit] at h ⊢; obtain ⟨i, hi⟩ := h; exact ⟨i, hs _ hi⟩
  | .unknown, _, _, _, _, _, _, _, hu, hs, h => by
    simp only [LWit] at h ⊢; exact h.elim (fun x => .inl (hu x)) (fun x => .inr (hs _ x))
  | .ser k, _, _, _, _, _, _, _, _, hs, h => by
    simp only [LWit] at h ⊢; obtain ⟨s, hi, ha⟩ := h; exact ⟨s, hs _ hi, ha⟩
  | .lit true _, _, _, _, _, _, _, _, _, hs, h => by
    simp only [LWit] at h ⊢; obtain ⟨i, hi⟩ := h; exact ⟨i, hs _ hi⟩
  | .lit false ws, _, _, _, _, _, _, _, _, hs, h => by
    simp only [LWit] at h ⊢; exact ⟨h.1, fun w hw => hs _ (h.2 w hw)⟩
  | .opt t, _, _, _, _, _, _, ha, hu, hs, h => by
    simp only [LWit] at h ⊢
    exact ⟨h.1.elim (fun x => .inl (ha x)) (fun x => .inr (hs _ x)), LWit.mono hO t ha hu hs h.2⟩
  | .union ts, _, _, _, _, _, _, ha, hu, hs, h => by
    simp only [LWit] at h ⊢
    exact ⟨h.1, LWitAll.mono hO ts ha hu hs h.2⟩
  | .list t, _, _, _, _, _, _, _, _, hs, h => by
    simp only [LWit] at h ⊢
    exact LWit.mono hO t id (hs _) (elemsOf_mono hs) h
  | .dict t, _, _, _, _, _, _, _, _, hs, h => by
    simp only [LWit] at h ⊢
    exact LWit.mono hO t id (hs _) (valsOf_mono hs) h
  | .obj _, _, _, _, _, _, _, _, _, _, h => by simp only [LWit] at h
  | .tuple _, _, _, _, _, _, _, _, _, _, h => by simp only [LWit] at h
  | .ptr j, _, _, _, _, _, _, _, _, hs, h => by
    simp only [LWit] at h ⊢
    obtain ⟨kvs, h1, h2⟩ := h
    exact ⟨kvs, hs _ h1, hO _ _ h2⟩
theorem LWitAll.mono {Obj Obj' : ObjRel} {acc : Accepts} (hO : ∀ j o, Obj j o → Obj' j o) :
    ∀ (ts : List Ty) {a a' u u' : Prop} {vs vs' : List Json},
    (a → a') → (u → u') → (∀ v ∈ vs, v ∈ vs') → LWitAll Obj acc a u ts vs → LWitAll Obj' acc a' u' ts vs'
  | [], _, _, _, _, _, _, _, _, _, _ => by simp only [LWitAll]
  | t :: ts, _, _, _, _, _, _, ha, hu, hs, h => by
    simp only [LWitAll] at h ⊢
    exact ⟨LWit.mono hO t ha hu hs h.1, LWitAll.mono hO ts ha hu hs h.2⟩
end

/-- more values, weaker licences (same attribution) -/
theorem LWit.mono' {Obj : ObjRel} {acc : Accepts} {t : Ty} {a a' u u' : Prop} {vs vs' : List Json}
    (ha : a → a') (hu : u → u') (hs : ∀ v ∈ vs, v ∈ vs') (h : LWit Obj acc a u t vs) :
    LWit Obj acc a' u' t vs' := LWit.mono (fun _ _ h => h) t ha hu hs h

theorem GWit.mono' {Obj : ObjRel} {acc : Accepts} {t : Ty} {a a' u u' : Prop} {vs vs' : List Json}
    (ha : a → a') (hu : u → u') (hs : ∀ v ∈ vs, v ∈ vs') (h : GWit Obj acc a u t vs) :
    GWit Obj acc a' u' t vs' := GWit.mono (fun _ _ h => h) t ha hu hs h

/-! ## strict ⇒ lax -/

mutual
theorem GWit.toL {Obj : ObjRel} {acc : Accepts} :
    ∀ (t : Ty) {a u : Prop} {vs : List Json}, GWit Obj acc a u t vs → LWit Obj acc a u t vs
  | .int, _, _, _, h | .float, _, _, _, h | .bool, _, _, _, h | .null, _, _, _, h | .str, _, _, _, h
  | .ser _, _, _, _, h | .lit true _, _, _, _, h | .lit false _, _, _, _, h | .ptr _, _, _, _, h => by
    simp only [GWit] at h; simp only [LWit]; exact h
  | .unknown, _, _, _, h => by simp only [GWit] at h; simp only [LWit]; exact .inl h
  | .opt t, _, _, _, h => by
    simp only [GWit] at h; simp only [LWit]; exact ⟨h.1, GWit.toL t h.2⟩
  | .union ts, _, _, _, h => by
    simp only [GWit] at h; simp only [LWit]
    exact ⟨h.1, GWitAll.toL ts h.2⟩
  | .list t, _, _, _, h => by simp only [GWit] at h; simp only [LWit]; exact GWit.toL t h
  | .dict t, _, _, _, h => by simp only [GWit] at h; simp only [LWit]; exact GWit.toL t h
  | .obj _, _, _, _, h => by simp only [GWit] at h
  | .tuple _, _, _, _, h => by simp only [GWit] at h
theorem GWitAll.toL {Obj : ObjRel} {acc : Accepts} :
    ∀ (ts : List Ty) {a u : Prop} {vs : List Json}, GWitAll Obj acc ts vs → LWitAll Obj acc a u ts vs
  | [], _, _, _, _ => by simp only [LWitAll]
  | t :: ts, _, _, _, h => by
    simp only [GWitAll] at h; simp only [LWitAll]
    exact ⟨LWit.mono' False.elim False.elim (fun _ h => h) (GWit.toL t h.1), GWitAll.toL ts h.2⟩
end

/-! ## pointer substitution: witnesses only look at the attribution of the pointer targets -/

mutual
theorem LWit.subst {Obj Obj' : ObjRel} {acc : Accepts} {σ : String → String}
    (hO : ∀ j o, Obj j o → Obj' (σ j) o) :
    ∀ (t : Ty) {a u : Prop} {vs : List Json}, LWit Obj acc a u t vs → LWit Obj' acc a u (substTy σ t) vs
  | .int, _, _, _, h | .float, _, _, _, h | .bool, _, _, _, h | .null, _, _, _, h | .str, _, _, _, h
  | .ser _, _, _, _, h | .lit true _, _, _, _, h | .lit false _, _, _, _, h | .unknown, _, _, _, h => by
    simp only [LWit] at h; simp only [substTy, LWit]; exact h
  | .ptr j, _, _, _, h => by
    simp only [LWit] at h; simp only [substTy, LWit]
    obtain ⟨kvs, h1, h2⟩ := h
    exact ⟨kvs, h1, hO _ _ h2⟩
  | .opt t, _, _, _, h => by
    simp only [LWit] at h; simp only [substTy, LWit]; exact ⟨h.1, LWit.subst hO t h.2⟩
  | .union ts, _, _, _, h => by
    simp only [LWit] at h; simp only [substTy, LWit]
    refine ⟨?_, LWitAll.subst hO ts h.2⟩
    cases ts with
    | nil => exact absurd rfl h.1
    | cons t ts => simp [substList]
  | .list t, _, _, _, h => by simp only [LWit] at h; simp only [substTy, LWit]; exact LWit.subst hO t h
  | .dict t, _, _, _, h => by simp only [LWit] at h; simp only [substTy, LWit]; exact LWit.subst hO t h
  | .obj _, _, _, _, h => by simp only [LWit] at h
  | .tuple _, _, _, _, h => by simp only [LWit] at h
theorem LWitAll.subst {Obj Obj' : ObjRel} {acc : Accepts} {σ : String → String}
    (hO : ∀ j o, Obj j o → Obj' (σ j) o) :
    ∀ (ts : List Ty) {a u : Prop} {vs : List Json}, LWitAll Obj acc a u ts vs →
      LWitAll Obj' acc a u (substList σ ts) vs
  | [], _, _, _, _ => by simp only [substList, LWitAll]
  | t :: ts, _, _, _, h => by
    simp only [LWitAll] at h; simp only [substList, LWitAll]
    exact ⟨LWit.subst hO t h.1, LWitAll.subst hO ts h.2⟩
end

/-! ## witnessed field dicts -/

/-- a field dict witnessed by the objects `ws` (the `.obj` clause of `C02T.Wit`): some object has only keys of
    the dict, every field type is witnessed by the values at its key, `Optional` being licensed there by an
    object lacking the key -/
def GModel (Obj : ObjRel) (acc : Accepts) (fs : Fields) (ws : List Json) : Prop :=
  HasObjWithin (fs.map (·.1)) ws ∧
  ∀ kv ∈ fs, GWit Obj acc (LacksKey kv.1 ws) False kv.2 (fieldVals kv.1 ws)

/-- the same with the lax relation -/
def LModel (Obj : ObjRel) (acc : Accepts) (fs : Fields) (ws : List Json) : Prop :=
  HasObjWithin (fs.map (·.1)) ws ∧
  ∀ kv ∈ fs, LWit Obj acc (LacksKey kv.1 ws) False kv.2 (fieldVals kv.1 ws)

theorem GModel.toL {Obj : ObjRel} {acc : Accepts} {fs : Fields} {ws : List Json} (h : GModel Obj acc fs ws) :
    LModel Obj acc fs ws := ⟨h.1, fun kv hkv => GWit.toL _ (h.2 kv hkv)⟩

theorem LModel.mono {Obj Obj' : ObjRel} {acc : Accepts} {fs : Fields} {ws ws' : List Json}
    (hO : ∀ j o, Obj j o → Obj' j o) (hs : ∀ v ∈ ws, v ∈ ws') (h : LModel Obj acc fs ws) :
    LModel Obj' acc fs ws' :=
  ⟨h.1.mono hs (fun _ hk => hk),
   fun kv hkv => LWit.mono hO _ (LacksKey.mono hs) id (fieldVals_mono hs) (h.2 kv hkv)⟩

theorem GModel.mono {Obj Obj' : ObjRel} {acc : Accepts} {fs : Fields} {ws ws' : List Json}
    (hO : ∀ j o, Obj j o → Obj' j o) (hs : ∀ v ∈ ws, v ∈ ws') (h : GModel Obj acc fs ws) :
    GModel Obj' acc fs ws' :=
  ⟨h.1.mono hs (fun _ hk => hk),
   fun kv hkv => GWit.mono hO _ (LacksKey.mono hs) id (fieldVals_mono hs) (h.2 kv hkv)⟩

theorem mem_substFields' {σ : String → String} {fs : Fields} {ft : String × Ty} :
    ft ∈ substFields σ fs ↔ ∃ f ∈ fs, ft = (f.1, substTy σ f.2) := mem_substFields

theorem LModel.subst {Obj Obj' : ObjRel} {acc : Accepts} {σ : String → String} {fs : Fields} {ws : List Json}
    (hO : ∀ j o, Obj j o → Obj' (σ j) o) (h : LModel Obj acc fs ws) :
    LModel Obj' acc (substFields σ fs) ws := by
  refine ⟨by rw [substFields_keys]; exact h.1, ?_⟩
  intro kv hkv
  obtain ⟨f, hf, rfl⟩ := mem_substFields.1 hkv
  exact LWit.subst hO _ (h.2 f hf)

/-! ## tight registries -/

/-- STRICT: every registered model is witnessed (`GModel`) by objects attributed to it -/
def TightG (Obj : ObjRel) (acc : Accepts) (g : Graph) : Prop :=
  ∀ m ∈ g.models, ∃ ws, GModel Obj acc m.fields ws ∧ ∀ o ∈ ws, Obj m.idx o

/-- LAX: every registered model is witnessed (`LModel`) by objects attributed to it -/
def TightL (Obj : ObjRel) (acc : Accepts) (g : Graph) : Prop :=
  ∀ m ∈ g.models, ∃ ws, LModel Obj acc m.fields ws ∧ ∀ o ∈ ws, Obj m.idx o

theorem TightG.toL {Obj : ObjRel} {acc : Accepts} {g : Graph} (h : TightG Obj acc g) : TightL Obj acc g := by
  intro m hm
  obtain ⟨ws, h1, h2⟩ := h m hm
  exact ⟨ws, h1.toL, h2⟩

/-- attribution after a pointer renaming: `i` gets the objects of every `j` renamed to `i` -/
def ObjMap (σ : String → String) (Obj : ObjRel) : ObjRel := fun i o => ∃ j, σ j = i ∧ Obj j o

theorem ObjMap.intro {σ : String → String} {Obj : ObjRel} {j : String} {o : Json} (h : Obj j o) :
    ObjMap σ Obj (σ j) o := ⟨j, rfl, h⟩

theorem ObjMap.comp {σ τ : String → String} {Obj : ObjRel} {i : String} {o : Json}
    (h : ObjMap τ (ObjMap σ Obj) i o) : ObjMap (τ ∘ σ) Obj i o := by
  obtain ⟨j, rfl, k, rfl, h⟩ := h
  exact ⟨k, rfl, h⟩

theorem TightL.mono {Obj Obj' : ObjRel} {acc : Accepts} {g : Graph} (hO : ∀ j o, Obj j o → Obj' j o)
    (h : TightL Obj acc g) : TightL Obj' acc g := by
  intro m hm
  obtain ⟨ws, h1, h2⟩ := h m hm
  exact ⟨ws, h1.mono hO (fun _ h => h), fun o ho => hO _ _ (h2 o ho)⟩

theorem TightG.mono {Obj Obj' : ObjRel} {acc : Accepts} {g : Graph} (hO : ∀ j o, Obj j o → Obj' j o)
    (h : TightG Obj acc g) : TightG Obj' acc g := by
  intro m hm
  obtain ⟨ws, h1, h2⟩ := h m hm
  exact ⟨ws, h1.mono hO (fun _ h => h), fun o ho => hO _ _ (h2 o ho)⟩

/-! ## routing -/

/-- `Reach L t v j o`: reading the JSON value `v` at the type `t` (model pointers resolved through `L`) routes
    its sub-object `o` to model `j` — `o` sits at a `ModelPtr j` position of the unfolded type. -/
inductive Reach (L : ModelLookup) : Ty → Json → String → Json → Prop
  | here {j kvs} : Reach L (.ptr j) (.obj kvs) j (.obj kvs)
  | into {j kvs fs k t v j' o} : L j = some fs → (k, t) ∈ fs → (k, v) ∈ kvs → Reach L t v j' o →
      Reach L (.ptr j) (.obj kvs) j' o
  | list {t xs x j o} : x ∈ xs → Reach L t x j o → Reach L (.list t) (.arr xs) j o
  | dict {t kvs kv j o} : kv ∈ kvs → Reach L t kv.2 j o → Reach L (.dict t) (.obj kvs) j o
  | opt {t v j o} : Reach L t v j o → Reach L (.opt t) v j o
  | union {ts t v j o} : t ∈ ts → Reach L t v j o → Reach L (.union ts) v j o

/-- routed objects are objects -/
theorem Reach.isObj {L : ModelLookup} {t : Ty} {v : Json} {j : String} {o : Json} (h : Reach L t v j o) :
    ∃ kvs, o = .obj kvs := by
  induction h with
  | here => exact ⟨_, rfl⟩
  | into _ _ _ _ ih => exact ih
  | list _ _ ih => exact ih
  | dict _ _ ih => exact ih
  | opt _ ih => exact ih
  | union _ _ ih => exact ih

/-- extending the lookup keeps the routing -/
theorem Reach.mono {L L' : ModelLookup} (hL : ∀ i fs, L i = some fs → L' i = some fs)
    {t : Ty} {v : Json} {j : String} {o : Json} (h : Reach L t v j o) : Reach L' t v j o := by
  induction h with
  | here => exact .here
  | into h1 h2 h3 _ ih => exact .into (hL _ _ h1) h2 h3 ih
  | list h1 _ ih => exact .list h1 ih
  | dict h1 _ ih => exact .dict h1 ih
  | opt _ ih => exact .opt ih
  | union h1 _ ih => exact .union h1 ih

/-- an object routed to `j` routes the sub-objects of its fields -/
theorem Reach.step {L : ModelLookup} {t : Ty} {v : Json} {j : String} {kvs : List (String × Json)}
    (h : Reach L t v j (.obj kvs)) {fs : Fields} {k : String} {t' : Ty} {v' : Json} {j' : String} {o : Json}
    (hL : L j = some fs) (hk : (k, t') ∈ fs) (hv : (k, v') ∈ kvs) (h' : Reach L t' v' j' o) :
    Reach L t v j' o := by
  generalize ho : Json.obj kvs = ob at h
  induction h with
  | here => cases ho; exact .into hL hk hv h'
  | into h1 h2 h3 _ ih => exact .into h1 h2 h3 (ih hL ho)
  | list h1 _ ih => exact .list h1 (ih hL ho)
  | dict h1 _ ih => exact .dict h1 (ih hL ho)
  | opt _ ih => exact .opt (ih hL ho)
  | union h1 _ ih => exact .union h1 (ih hL ho)

/-- the objects a position (type `t`, values `vs`) routes to model `j` -/
def At (L : ModelLookup) (t : Ty) (vs : List Json) : ObjRel := fun j o => ∃ v ∈ vs, Reach L t v j o

/-- the attribution of a registry with root models: the sub-objects of the root samples, routed through the
    registry from the root pointers; `roots` pairs a root model index with one of its samples -/
def Routed (L : ModelLookup) (roots : List (String × Json)) : ObjRel :=
  fun j o => ∃ r ∈ roots, Reach L (.ptr r.1) r.2 j o

theorem Routed.mono {L L' : ModelLookup} {roots roots' : List (String × Json)}
    (hL : ∀ i fs, L i = some fs → L' i = some fs) (hr : ∀ r ∈ roots, r ∈ roots') {j : String} {o : Json}
    (h : Routed L roots j o) : Routed L' roots' j o := by
  obtain ⟨r, hr', h⟩ := h
  exact ⟨r, hr r hr', h.mono hL⟩

end J2M.C02RH
