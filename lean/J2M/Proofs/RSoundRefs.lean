/-
  Helper development for C03S: the quoted references of an annotation, where they come from, when an annotation
  exists at all, and what `generate_names` does to the registry.
-/
import J2M.Proofs.Render
import J2M.Proofs.Registry
import Batteries.Data.List.Basic
namespace J2M.RSound
open J2M J2M.Rend J2M.Reg

/-! ## quoted references of an annotation term -/

mutual
/-- the texts of the quoted forward references (`'A'`, `'A.B'`) in an annotation, left to right -/
def annRefs : Ann → List String
  | .fwd r => [r]
  | .list a | .dict a | .opt a => annRefs a
  | .union as | .tuple as => annRefsList as
  | _ => []
def annRefsList : List Ann → List String
  | [] => []
  | a :: as => annRefs a ++ annRefsList as
end

theorem mem_annRefsList {as : List Ann} {r : String} : r ∈ annRefsList as ↔ ∃ a ∈ as, r ∈ annRefs a := by
  induction as with
  | nil => simp [annRefsList]
  | cons a as ih => simp [annRefsList, ih]

/-- without path injection the reference text is the class name itself -/
theorem ptrRef_flat (names : List (String × Option String)) (i n : String) : ptrRef ⟨names, []⟩ i n = n := by
  simp only [ptrRef, List.find?_nil]
  by_cases h : n.isEmpty = true
  · have : n = "" := String.isEmpty_iff.mp h
    subst this
    rfl
  · have hn : n.isEmpty = false := by simpa using h
    simp [hn]

/-- `RefEnv.name?` is the association-list lookup -/
theorem name?_eq_lookup (e : RefEnv) (i : String) : e.name? i = (e.names.lookup i).join := by
  unfold RefEnv.name?
  generalize e.names = ns
  induction ns with
  | nil => rfl
  | cons p ns ih =>
    obtain ⟨k, v⟩ := p
    simp only [List.find?_cons, List.lookup_cons]
    by_cases h : k = i
    · subst h; simp
    · have h1 : (k == i) = false := by simpa using h
      have h2 : (i == k) = false := by simpa using fun e : i = k => h e.symm
      simp only [h1, h2]
      exact ih

mutual
/-- every quoted reference comes from a pointer of the type: it is the reference text of a pointed-to model that has
    a name -/
theorem annRefs_of_tyAnn (c : RenderCfg) (e : RefEnv) :
    ∀ (t : Ty) (a : Ann), tyAnn c e t = some a → ∀ r ∈ annRefs a,
      ∃ i ∈ ptrsOf t, ∃ n, e.name? i = some n ∧ r = ptrRef e i n
  | .int, a, h | .float, a, h | .bool, a, h | .str, a, h | .null, a, h | .unknown, a, h => by
    simp [tyAnn] at h; subst h; simp [annRefs]
  | .ser k, a, h => by
    simp only [tyAnn] at h
    split at h
    · split at h <;> cases h; simp [annRefs]
    · cases h; simp [annRefs]
  | .lit o vs, a, h => by
    simp only [tyAnn] at h
    split at h <;> cases h <;> simp [annRefs]
  | .list t, a, h => by
    simp only [tyAnn, Option.map_eq_some_iff] at h
    obtain ⟨a', ha', rfl⟩ := h
    simpa [annRefs, ptrsOf] using annRefs_of_tyAnn c e t a' ha'
  | .dict t, a, h => by
    simp only [tyAnn, Option.map_eq_some_iff] at h
    obtain ⟨a', ha', rfl⟩ := h
    simpa [annRefs, ptrsOf] using annRefs_of_tyAnn c e t a' ha'
  | .opt t, a, h => by
    simp only [tyAnn, Option.map_eq_some_iff] at h
    obtain ⟨a', ha', rfl⟩ := h
    simpa [annRefs, ptrsOf] using annRefs_of_tyAnn c e t a' ha'
  | .union ts, a, h => by
    simp only [tyAnn] at h
    split at h
    · cases h
    · simp only [Option.map_eq_some_iff] at h
      obtain ⟨as, has, rfl⟩ := h
      simpa [annRefs, ptrsOf] using annRefsList_of_tyAnns c e ts as has
  | .tuple ts, a, h => by
    simp only [tyAnn] at h
    split at h
    · cases h
    · simp only [Option.map_eq_some_iff] at h
      obtain ⟨as, has, rfl⟩ := h
      simpa [annRefs, ptrsOf] using annRefsList_of_tyAnns c e ts as has
  | .obj fs, a, h => by simp [tyAnn] at h
  | .ptr i, a, h => by
    simp only [tyAnn, Option.map_eq_some_iff] at h
    obtain ⟨n, hn, rfl⟩ := h
    intro r hr
    simp only [annRefs, List.mem_singleton] at hr
    exact ⟨i, by simp [ptrsOf], n, hn, hr⟩
theorem annRefsList_of_tyAnns (c : RenderCfg) (e : RefEnv) :
    ∀ (ts : List Ty) (as : List Ann), tyAnns c e ts = some as → ∀ r ∈ annRefsList as,
      ∃ i ∈ ptrsOfList ts, ∃ n, e.name? i = some n ∧ r = ptrRef e i n
  | [], as, h => by simp [tyAnns] at h; subst h; simp [annRefsList]
  | t :: ts, as, h => by
    simp only [tyAnns] at h
    split at h
    · rename_i a as' ha has
      cases h
      intro r hr
      simp only [annRefsList, List.mem_append] at hr
      rcases hr with hr | hr
      · obtain ⟨i, hi, n, hn, e'⟩ := annRefs_of_tyAnn c e t a ha r hr
        exact ⟨i, by simp [ptrsOfList, hi], n, hn, e'⟩
      · obtain ⟨i, hi, n, hn, e'⟩ := annRefsList_of_tyAnns c e ts as' has r hr
        exact ⟨i, by simp [ptrsOfList, hi], n, hn, e'⟩
    · cases h
end

/-! ## when the annotation exists -/

mutual
/-- everything `metadata_to_typing` needs of a type apart from the names of the models it points to:
    no inline field dict, no empty `Union`/`Tuple`, and — where the framework writes the actual type of a pseudo-type —
    an entry for the pseudo-type in the table of actual types -/
def typable (c : RenderCfg) : Ty → Bool
  | .ser k => !c.useActual || (c.serInfo.find? (·.1 == k)).isSome
  | .list t | .dict t | .opt t => typable c t
  | .union ts | .tuple ts => !ts.isEmpty && typableList c ts
  | .obj _ => false
  | _ => true
def typableList (c : RenderCfg) : List Ty → Bool
  | [] => true
  | t :: ts => typable c t && typableList c ts
end

mutual
theorem tyAnn_isSome_iff (c : RenderCfg) (e : RefEnv) :
    ∀ t : Ty, (tyAnn c e t).isSome = true ↔ typable c t = true ∧ ∀ i ∈ ptrsOf t, (e.name? i).isSome = true
  | .int | .float | .bool | .str | .null | .unknown => by simp [tyAnn, typable, ptrsOf]
  | .ser k => by
    simp only [tyAnn, typable, ptrsOf]
    cases hu : c.useActual
    · simp
    · cases hf : c.serInfo.find? (·.1 == k) with
      | none => simp
      | some p => obtain ⟨_, an, am⟩ := p; simp
  | .lit o vs => by
    simp only [tyAnn, typable, ptrsOf]
    split <;> simp
  | .list t => by simpa [tyAnn, typable, ptrsOf] using tyAnn_isSome_iff c e t
  | .dict t => by simpa [tyAnn, typable, ptrsOf] using tyAnn_isSome_iff c e t
  | .opt t => by simpa [tyAnn, typable, ptrsOf] using tyAnn_isSome_iff c e t
  | .union ts => by
    simp only [tyAnn, typable, ptrsOf]
    cases hts : ts.isEmpty
    · simpa using tyAnns_isSome_iff c e ts
    · simp
  | .tuple ts => by
    simp only [tyAnn, typable, ptrsOf]
    cases hts : ts.isEmpty
    · simpa using tyAnns_isSome_iff c e ts
    · simp
  | .obj fs => by simp [tyAnn, typable]
  | .ptr i => by simp [tyAnn, typable, ptrsOf]
theorem tyAnns_isSome_iff (c : RenderCfg) (e : RefEnv) :
    ∀ ts : List Ty, (tyAnns c e ts).isSome = true ↔
      typableList c ts = true ∧ ∀ i ∈ ptrsOfList ts, (e.name? i).isSome = true
  | [] => by simp [tyAnns, typableList, ptrsOfList]
  | t :: ts => by
    have h1 := tyAnn_isSome_iff c e t
    have h2 := tyAnns_isSome_iff c e ts
    simp only [tyAnns, typableList, ptrsOfList, List.mem_append, Bool.and_eq_true]
    cases ha : tyAnn c e t with
    | none =>
      rw [ha] at h1
      simp only [Option.isSome_none, Bool.false_eq_true, false_iff]
      intro ⟨⟨a, _⟩, b⟩
      exact absurd (h1.2 ⟨a, fun i hi => b i (Or.inl hi)⟩) (by simp)
    | some a =>
      rw [ha] at h1
      have h1' := h1.1 rfl
      cases has : tyAnns c e ts with
      | none =>
        rw [has] at h2
        simp only [Option.isSome_none, Bool.false_eq_true, false_iff]
        intro ⟨⟨_, a'⟩, b⟩
        exact absurd (h2.2 ⟨a', fun i hi => b i (Or.inr hi)⟩) (by simp)
      | some as =>
        rw [has] at h2
        have h2' := h2.1 rfl
        simp only [Option.isSome_some, true_iff]
        exact ⟨⟨h1'.1, h2'.1⟩, fun i hi => hi.elim (h1'.2 i) (h2'.2 i)⟩
end

/-! ## `generate_names` -/

theorem mapM_ok_forall₂ {α β ε : Type} {f : α → Except ε β} :
    ∀ {l : List α} {r : List β}, l.mapM f = .ok r → List.Forall₂ (fun a b => f a = .ok b) l r
  | [], r, h => by
    simp only [List.mapM_nil, pure, Except.pure] at h
    cases h; exact .nil
  | a :: l, r, h => by
    rw [List.mapM_cons] at h
    cases ha : f a with
    | error e => simp [ha, bind, Except.bind] at h
    | ok b =>
      cases hl : l.mapM f with
      | error e => simp [ha, hl, bind, Except.bind] at h
      | ok bs =>
        simp only [ha, hl, bind, Except.bind, pure, Except.pure] at h
        cases h
        exact .cons ha (mapM_ok_forall₂ hl)

/-- `generate_name` touches only the name -/
theorem generateName_spec {no : NameOracles} {g : Graph} {m m' : Model} (h : generateName no g m = .ok m') :
    m'.idx = m.idx ∧ m'.fields = m.fields ∧ (m.name.isSome = true → m'.name.isSome = true) := by
  unfold generateName at h
  simp only [bind, Except.bind] at h
  split at h
  · cases h
  · split at h
    · cases h
    · simp only [pure, Except.pure] at h
      injection h with h
      subst h
      split <;> simp

/-- the relation between a model before and after `fix_name_duplicates` -/
def SameButName (m m' : Model) : Prop :=
  m'.idx = m.idx ∧ m'.fields = m.fields ∧ (m.name.isSome = true → m'.name.isSome = true)

theorem sameButName_ite (p : Prop) [Decidable p] (m : Model) (n : String) :
    SameButName m (if p then { m with name := some n, nameGen := some true } else m) := by
  by_cases h : p <;> simp [SameButName, h]

theorem fixStep_spec (st : List Model × List (String × Nat)) (m : Model) :
    ∃ m', (NamesP.fixStep st m).1 = st.1 ++ [m'] ∧ SameButName m m' := by
  unfold NamesP.fixStep
  exact ⟨_, rfl, sameButName_ite _ _ _⟩

theorem fixFold_spec' : ∀ (ms : List Model) (st : List Model × List (String × Nat)),
    ∃ out, (ms.foldl NamesP.fixStep st).1 = st.1 ++ out ∧ List.Forall₂ SameButName ms out
  | [], st => ⟨[], by simp, .nil⟩
  | m :: ms, st => by
    obtain ⟨m', e, hm⟩ := fixStep_spec st m
    obtain ⟨out, e2, ho⟩ := fixFold_spec' ms (NamesP.fixStep st m)
    refine ⟨m' :: out, ?_, .cons hm ho⟩
    rw [List.foldl_cons, e2, e]
    simp

theorem fixNameDuplicates_spec' (ms : List Model) : List.Forall₂ SameButName ms (fixNameDuplicates ms) := by
  obtain ⟨out, e, ho⟩ := fixFold_spec' ms ([], [])
  rw [NamesP.fixNameDuplicates_eq, e]
  simpa using ho

theorem forall₂_trans' {α β γ : Type} {R : α → β → Prop} {S : β → γ → Prop} {T : α → γ → Prop}
    (h : ∀ a b c, R a b → S b c → T a c) :
    ∀ {l₁ : List α} {l₂ : List β} {l₃ : List γ}, List.Forall₂ R l₁ l₂ → List.Forall₂ S l₂ l₃ → List.Forall₂ T l₁ l₃
  | _, _, _, .nil, .nil => .nil
  | _, _, _, .cons r rs, .cons s ss => .cons (h _ _ _ r s) (forall₂_trans' h rs ss)

/-- **generateNames_spec**: `generate_names` keeps the registry order, every index, every field dict, the pointer
    records and the counter; afterwards every model has a name -/
theorem generateNames_spec {no : NameOracles} {g g' : Graph} (h : generateNames no g = .ok g') :
    List.Forall₂ (fun m m' => m'.idx = m.idx ∧ m'.fields = m.fields ∧ m'.name.isSome = true) g.models g'.models ∧
    g'.ptrs = g.ptrs ∧ g'.counter = g.counter := by
  unfold generateNames at h
  simp only [bind, Except.bind] at h
  split at h
  · cases h
  · rename_i ms hms
    simp only [pure, Except.pure] at h
    injection h with h
    subst h
    refine ⟨?_, rfl, rfl⟩
    have h1 := mapM_ok_forall₂ hms
    have h2 := fixNameDuplicates_spec' ms
    refine forall₂_trans' ?_ h1 h2
    intro m m1 m2 hm1 hm2
    -- first loop: the model has a name afterwards
    have hfirst : m1.idx = m.idx ∧ m1.fields = m.fields ∧ m1.name.isSome = true := by
      have key : ∀ v : Model, v.idx = m.idx → v.fields = m.fields →
          (pure (if v.name.isNone = true then
              { v with name := some ("Unknown_" ++ v.idx), nameGen := some true } else v) : Except PyErr Model)
            = .ok m1 → m1.idx = m.idx ∧ m1.fields = m.fields ∧ m1.name.isSome = true := by
        intro v hv1 hv2 hv
        simp only [pure, Except.pure] at hv
        injection hv with hv
        subst hv
        split
        · exact ⟨hv1, hv2, rfl⟩
        · rename_i hn
          refine ⟨hv1, hv2, ?_⟩
          cases hh : v.name <;> simp_all
      split at hm1
      · cases hgn : generateName no g m with
        | error e => rw [hgn] at hm1; cases hm1
        | ok v => rw [hgn] at hm1; exact key v (generateName_spec hgn).1 (generateName_spec hgn).2.1 hm1
      · exact key m rfl rfl hm1
    obtain ⟨a, b, c⟩ := hm2
    exact ⟨a.trans hfirst.1, b.trans hfirst.2.1, c hfirst.2.2⟩

theorem forall₂_map_eq {α β γ : Type} {R : α → β → Prop} {f : α → γ} {f' : β → γ} (h : ∀ a b, R a b → f' b = f a) :
    ∀ {l : List α} {l' : List β}, List.Forall₂ R l l' → l'.map f' = l.map f
  | _, _, .nil => rfl
  | _, _, .cons r rs => by simp [h _ _ r, forall₂_map_eq h rs]

theorem forall₂_mem_right {α β : Type} {R : α → β → Prop} :
    ∀ {l : List α} {l' : List β}, List.Forall₂ R l l' → ∀ b ∈ l', ∃ a ∈ l, R a b
  | _, _, .nil, b, hb => by simp at hb
  | _, _, .cons r rs, b, hb => by
    rcases List.mem_cons.1 hb with rfl | hb
    · exact ⟨_, List.mem_cons_self .., r⟩
    · obtain ⟨a, ha, hr⟩ := forall₂_mem_right rs b hb
      exact ⟨a, List.mem_cons_of_mem _ ha, hr⟩

theorem forall₂_find? {R : Model → Model → Prop} (hi : ∀ a b, R a b → b.idx = a.idx) (i : String) :
    ∀ {l l' : List Model}, List.Forall₂ R l l' →
      (l.find? (·.idx == i) = none ∧ l'.find? (·.idx == i) = none) ∨
      ∃ a b, l.find? (·.idx == i) = some a ∧ l'.find? (·.idx == i) = some b ∧ R a b
  | _, _, .nil => Or.inl ⟨rfl, rfl⟩
  | _, _, .cons (a := a) (b := b) r rs => by
    simp only [List.find?_cons, hi a b r]
    cases h : a.idx == i
    · exact forall₂_find? hi i rs
    · exact Or.inr ⟨a, b, rfl, rfl, r⟩

/-- the lookup the semantics uses is unchanged by `generate_names` -/
theorem generateNames_look {no : NameOracles} {g g' : Graph} (h : generateNames no g = .ok g') : g'.look = g.look := by
  funext i
  have hs := (generateNames_spec h).1
  unfold Graph.look Graph.find?
  rcases forall₂_find? (R := fun m m' => m'.idx = m.idx ∧ m'.fields = m.fields ∧ m'.name.isSome = true)
    (fun a b r => r.1) i hs with ⟨h1, h2⟩ | ⟨a, b, h1, h2, r⟩
  · rw [h1, h2]
  · rw [h1, h2]; simp [r.2.1]

theorem generateNames_idxs {no : NameOracles} {g g' : Graph} (h : generateNames no g = .ok g') : idxs g' = idxs g :=
  forall₂_map_eq (fun _ _ r => r.1) (generateNames_spec h).1

/-- `generate_names` keeps the registry well-formed -/
theorem generateNames_WF {no : NameOracles} {g g' : Graph} (h : generateNames no g = .ok g') (wf : WF g) : WF g' := by
  obtain ⟨hs, hp, hc⟩ := generateNames_spec h
  have hi := generateNames_idxs h
  refine ⟨by rw [hi]; exact wf.nodup, ?_, ?_, ?_⟩
  · intro m' hm'
    obtain ⟨m, hm, r⟩ := forall₂_mem_right hs m' hm'
    obtain ⟨k, hk, e⟩ := wf.bound m hm
    exact ⟨k, by rw [hc]; exact hk, by rw [r.1, e]⟩
  · intro m' hm' i hi'
    obtain ⟨m, hm, r⟩ := forall₂_mem_right hs m' hm'
    rw [hi]
    rw [r.2.1] at hi'
    exact wf.fields m hm i hi'
  · intro p hp'
    rw [hi]; rw [hp] at hp'
    exact wf.ptrs p hp'

end J2M.RSound
