/-
  `pipelineTwo` on a concrete recursive document, by evaluation (non-vacuity of `Props/C05T.lean`).

  first = `Node: {"id":1,"name":"n","v":2,"children":[{"id":2,"name":"m","v":3,"children":[]}]}`,
  more  = `Item:` the same object with one more key (`"extra": 0`); default merge policy of the CLI.
  The first `merge_models` folds the tree into ONE self-referencing model `1C`; the second joins `1C` with the two
  models of `Item` into `1F`, whose `children` pointer (and its pointer record) targets `1F` itself.
-/
import J2M.Proofs.TwoMerges
namespace J2M.TwoMerges.Ex
open J2M J2M.Reg J2M.TwoPass J2M.ThirdPass J2M.C08P J2M.TwoPass.W

set_option maxRecDepth 100000
set_option linter.unusedSimpArgs false

def cfgT : GenCfg := ⟨⟨15, 20⟩, ⟨[], [], []⟩, [], []⟩
def oT : GenOracles := ⟨fun _ _ => some false, fun _ _ => some false, StrOracle.default⟩
def pT : PipeOracles := ⟨oT, ⟨some, some⟩⟩
def childT : Json := .obj [("id", .int 2), ("name", .str "m"), ("v", .int 3), ("children", .arr [])]
def nodeT : Json := .obj [("id", .int 1), ("name", .str "n"), ("v", .int 2), ("children", .arr [childT])]
def itemT : Json :=
  .obj [("id", .int 1), ("name", .str "n"), ("v", .int 2), ("children", .arr [childT]), ("extra", .int 0)]
def firstT : List (String × List Json) := [("Node", [nodeT])]
def moreT : List (String × List Json) := [("Item", [itemT])]
/-- the default merge policy of the CLI -/
def cmpsT : List Cmp := [.percent 7 10, .number 10]

/-! ## round 1 -/

def fA : Fields := [("id", .int), ("name", .lit false ["n"]), ("v", .int), ("children", .list (.ptr "1B"))]
def fB : Fields := [("id", .int), ("name", .lit false ["m"]), ("v", .int), ("children", .list .unknown)]

/-- after `process_meta_data` of `Node` -/
def g0T : Graph :=
  { models := [{ idx := "1A", fields := fA, name := some "Node", nameGen := some false },
               { idx := "1B", fields := fB }],
    ptrs := [⟨"1A", none, none⟩, ⟨"1B", some "1A", some "children"⟩], counter := 2 }

theorem exT_build : buildGraph cfgT oT firstT = .ok g0T := by rfl

theorem sim0 : simTable cmpsT g0T = .ok [[false, true], [false, false]] := by rfl
theorem groups0 : Closure.mergeGroups (simOfTbl [[false, true], [false, false]]) g0T.models.length = some [[0, 1]] := by
  rfl

theorem eq0a (so : StrOracle) : (g0T.eqEnv so).eq .int .int = .ok true := by rfl
theorem eq0b (so : StrOracle) : (g0T.eqEnv so).eq (.lit false ["n"]) (.lit false ["m"]) = .ok false := by rfl
theorem eq0c (so : StrOracle) : (g0T.eqEnv so).eq (.list (.ptr "1B")) (.list .unknown) = .ok false := by rfl

/-- `_merge` of `1A`, `1B` (before the pointer retargeting) -/
def fM0 : Fields := [("id", .int), ("name", .lit false ["m", "n"]), ("v", .int),
  ("children", .union [.list .unknown, .list (.ptr "1B")])]

theorem mergeFields0 (so : StrOracle) : mergeFieldSets cfgT.lit (g0T.eqEnv so) [fA, fB] = .ok fM0 := by
  simp +decide [fA, fB, fM0, mergeFieldSets, mergeFieldSets.go, mergeStep, mergeOne, Fields.get?, Fields.set,
    Fields.keys, Fields.has, Ty.isOpt, eq0a, eq0b, eq0c, bind, Except.bind, pure, Except.pure, Ty.unionMembers,
    mkUnionMembers, flattenUnion, handleType, hashStr, hashStrs, Ty.isStr, cfgT, insertUniq, mkLit]

/-- `fM0` with the pointer to `1B` retargeted to the merged model `1C` itself -/
def fMa : Fields := [("id", .int), ("name", .lit false ["m", "n"]), ("v", .int),
  ("children", .union [.list .unknown, .list (.ptr "1C")])]

/-- the registry after `_merge` of the group: the pointer to `1B` has become a pointer to the merged model itself -/
def gaT : Graph :=
  { models := [{ idx := "1C", fields := fMa, name := some "Node", nameGen := some false }],
    ptrs := [⟨"1C", none, none⟩, ⟨"1C", some "1C", some "children"⟩], counter := 3 }

theorem mergeGroup0 (so : StrOracle) : mergeGroup cfgT so g0T ["1A", "1B"] = .ok (gaT, "1C") := by
  have h := mergeFields0 so
  unfold mergeGroup
  simp only [bind, Except.bind]
  have hm : List.map (fun (x : Model) => x.fields) (List.filterMap g0T.find? ["1A", "1B"]) = [fA, fB] := rfl
  rw [hm, h]
  rfl

/-- the fields of the self-referencing model `1C` -/
def fC : Fields := [("id", .int), ("name", .lit false ["m", "n"]), ("v", .int), ("children", .list (.ptr "1C"))]

/-- after the first `merge_models` -/
def g1T : Graph :=
  { models := [{ idx := "1C", fields := fC, name := some "Node", nameGen := some false }],
    ptrs := [⟨"1C", none, none⟩, ⟨"1C", some "1C", some "children"⟩], counter := 3 }

theorem opt_children (e : EqEnv) (n : Nat) :
    optimize cfgT e (n + 9) (.union [.list .unknown, .list (.ptr "1C")]) = .ok (.list (.ptr "1C")) := by
  simp +decide [optimize, optimizeUnion, splitMembers, splitMembersAux, Ty.size, Ty.sizeList,
    Ty.isInt, Ty.isFloat, Ty.isStr, Ty.isUnknown, Ty.isNull, bind, Except.bind, pure, Except.pure, mkUnion,
    mkUnionMembers, flattenUnion, handleType, hashStr, hashStrs, removeFirst, cfgT, insertUniq, mkLit]

theorem opt_a (e : EqEnv) (n : Nat) : optimize cfgT e (n + 12) (.obj fMa) = .ok (.obj fC) := by
  rw [optimize]
  simp only [fMa, List.mapM_cons, List.mapM_nil, bind, Except.bind, pure, Except.pure, opt_children e (n + 2)]
  simp [optimize, pure, Except.pure, fC]

def mA : Model := { idx := "1C", fields := fMa, name := some "Node", nameGen := some false }

theorem optimizeModel0 (so : StrOracle) : optimizeModel cfgT so gaT "1C" = .ok g1T := by
  unfold optimizeModel
  have hf : gaT.find? "1C" = some mA := rfl
  simp only [hf, bind, Except.bind, mA]
  have hfuel : Ty.fuelFor (.obj fMa) = 88 + 12 := by
    simp [Ty.fuelFor, Ty.size, Ty.sizeFields, Ty.sizeList, fMa]
  rw [hfuel, opt_a]
  rfl

def mC : Model := { idx := "1C", fields := fC, name := some "Node", nameGen := some false }

theorem optimizeModel0' (so : StrOracle) : optimizeModel cfgT so g1T "1C" = .ok g1T := by
  have hf : g1T.find? "1C" = some mC := rfl
  rw [optimizeModel_stable_id hf (by decide)]
  rfl

/-- the first `merge_models`: the tree is folded into the self-referencing model `1C` -/
theorem exT_merge1 (so : StrOracle) : mergeModels cfgT so cmpsT g0T = .ok (g1T, [("1C", ["1A", "1B"])]) := by
  apply mergeModels_of sim0 groups0 (gm := g1T)
  · simp only [List.foldlM_cons, List.foldlM_nil, Reg.groupStep, bind, Except.bind]
    have hm : Reg.memsOf (Reg.idxs g0T) [0, 1] = ["1A", "1B"] := rfl
    rw [hm, mergeGroup0]
    simp only [optimizeModel0, pure, Except.pure]
    rfl
  · have hi : Reg.idxs g1T = ["1C"] := rfl
    rw [hi]
    simp only [List.foldlM_cons, List.foldlM_nil, bind, Except.bind, optimizeModel0', pure, Except.pure]

/-! ## round 2 -/

def fD : Fields := [("id", .int), ("name", .lit false ["n"]), ("v", .int), ("children", .list (.ptr "1E")),
  ("extra", .int)]
def fE : Fields := [("id", .int), ("name", .lit false ["m"]), ("v", .int), ("children", .list .unknown)]

/-- after `process_meta_data` of `Item` into the merged registry: `1C` (self-referencing) is still there -/
def g2T : Graph :=
  { models := [{ idx := "1C", fields := fC, name := some "Node", nameGen := some false },
               { idx := "1D", fields := fD, name := some "Item", nameGen := some false },
               { idx := "1E", fields := fE }],
    ptrs := [⟨"1C", none, none⟩, ⟨"1C", some "1C", some "children"⟩, ⟨"1D", none, none⟩,
             ⟨"1E", some "1D", some "children"⟩],
    counter := 5 }

theorem exT_more : buildGraphFrom cfgT oT g1T moreT = .ok g2T := by rfl

theorem sim2 : simTable cmpsT g2T = .ok [[false, true, true], [false, false, true], [false, false, false]] := by rfl
theorem groups2 : Closure.mergeGroups (simOfTbl [[false, true, true], [false, false, true], [false, false, false]])
    g2T.models.length = some [[0, 1, 2]] := by rfl

theorem eq2a (so : StrOracle) : (g2T.eqEnv so).eq .int .int = .ok true := by rfl
theorem eq2b (so : StrOracle) : (g2T.eqEnv so).eq (.lit false ["m", "n"]) (.lit false ["n"]) = .ok false := by rfl
/-- `ModelPtr == ModelPtr` compares the models: the self-referencing `1C` against `1E` -/
theorem eq2c (so : StrOracle) : (g2T.eqEnv so).eq (.list (.ptr "1C")) (.list (.ptr "1E")) = .ok false := by rfl
theorem eq2d (so : StrOracle) : (g2T.eqEnv so).eq (.lit false ["m", "n"]) (.lit false ["m"]) = .ok false := by rfl
theorem eq2e (so : StrOracle) :
    (g2T.eqEnv so).eq (.union [.list (.ptr "1E"), .list (.ptr "1C")]) (.list .unknown) = .ok false := by rfl

/-- `_merge` of `1C`, `1D`, `1E` (before the pointer retargeting) -/
def fM2 : Fields := [("id", .int), ("name", .lit false ["m", "n"]), ("v", .int),
  ("children", .union [.list .unknown, .list (.ptr "1E"), .list (.ptr "1C")]), ("extra", .opt .int)]

theorem mergeFields2 (so : StrOracle) : mergeFieldSets cfgT.lit (g2T.eqEnv so) [fC, fD, fE] = .ok fM2 := by
  simp +decide [fC, fD, fE, fM2, mergeFieldSets, mergeFieldSets.go, mergeStep, mergeOne, Fields.get?, Fields.set,
    Fields.keys, Fields.has, Ty.isOpt, eq2a, eq2b, eq2c, eq2d, eq2e, bind, Except.bind, pure, Except.pure,
    Ty.unionMembers, mkUnionMembers, flattenUnion, handleType, hashStr, hashStrs, Ty.isStr, cfgT, insertUniq, mkLit]

/-- `fM2` with every pointer to a member (`1C` — the former SELF-reference —, `1E`) retargeted to `1F` -/
def fMb : Fields := [("id", .int), ("name", .lit false ["m", "n"]), ("v", .int),
  ("children", .union [.list .unknown, .list (.ptr "1F"), .list (.ptr "1F")]), ("extra", .opt .int)]

def gbT : Graph :=
  { models := [{ idx := "1F", fields := fMb, name := some "Item_Node", nameGen := some false }],
    ptrs := [⟨"1F", none, none⟩, ⟨"1F", some "1F", some "children"⟩, ⟨"1F", none, none⟩,
             ⟨"1F", some "1F", some "children"⟩],
    counter := 6 }

theorem mergeGroup2 (so : StrOracle) : mergeGroup cfgT so g2T ["1C", "1D", "1E"] = .ok (gbT, "1F") := by
  have h := mergeFields2 so
  unfold mergeGroup
  simp only [bind, Except.bind]
  have hm : List.map (fun (x : Model) => x.fields) (List.filterMap g2T.find? ["1C", "1D", "1E"]) = [fC, fD, fE] := rfl
  rw [hm, h]
  rfl

/-- the fields of the final model `1F`: the `children` pointer targets `1F` itself -/
def fF : Fields := [("id", .int), ("name", .lit false ["m", "n"]), ("v", .int), ("children", .list (.ptr "1F")),
  ("extra", .opt .int)]

/-- after the second `merge_models` -/
def g3T : Graph :=
  { models := [{ idx := "1F", fields := fF, name := some "Item_Node", nameGen := some false }],
    ptrs := [⟨"1F", none, none⟩, ⟨"1F", some "1F", some "children"⟩, ⟨"1F", none, none⟩,
             ⟨"1F", some "1F", some "children"⟩],
    counter := 6 }

theorem opt_children2 (e : EqEnv) (n : Nat) :
    optimize cfgT e (n + 12) (.union [.list .unknown, .list (.ptr "1F"), .list (.ptr "1F")]) =
      .ok (.list (.ptr "1F")) := by
  simp +decide [optimize, optimizeUnion, splitMembers, splitMembersAux, Ty.size, Ty.sizeList,
    Ty.isInt, Ty.isFloat, Ty.isStr, Ty.isUnknown, Ty.isNull, bind, Except.bind, pure, Except.pure, mkUnion,
    mkUnionMembers, flattenUnion, handleType, hashStr, hashStrs, removeFirst, cfgT, insertUniq, mkLit]

theorem opt_b (e : EqEnv) (n : Nat) : optimize cfgT e (n + 15) (.obj fMb) = .ok (.obj fF) := by
  rw [optimize]
  simp only [fMb, List.mapM_cons, List.mapM_nil, bind, Except.bind, pure, Except.pure, opt_children2 e (n + 2)]
  simp [optimize, pure, Except.pure, bind, Except.bind, fF]

def mB : Model := { idx := "1F", fields := fMb, name := some "Item_Node", nameGen := some false }
def mF : Model := { idx := "1F", fields := fF, name := some "Item_Node", nameGen := some false }

theorem optimizeModel2 (so : StrOracle) : optimizeModel cfgT so gbT "1F" = .ok g3T := by
  unfold optimizeModel
  have hf : gbT.find? "1F" = some mB := rfl
  simp only [hf, bind, Except.bind, mB]
  have hfuel : Ty.fuelFor (.obj fMb) = 125 + 15 := by
    simp [Ty.fuelFor, Ty.size, Ty.sizeFields, Ty.sizeList, fMb]
  rw [hfuel, opt_b]
  rfl

theorem optimizeModel2' (so : StrOracle) : optimizeModel cfgT so g3T "1F" = .ok g3T := by
  have hf : g3T.find? "1F" = some mF := rfl
  rw [optimizeModel_stable_id hf (by decide)]
  rfl

/-- the second `merge_models`: `Item` (`1D`, `1E`) joins the self-referencing `1C` -/
theorem exT_merge2 (so : StrOracle) :
    mergeModels cfgT so cmpsT g2T = .ok (g3T, [("1F", ["1C", "1D", "1E"])]) := by
  apply mergeModels_of sim2 groups2 (gm := g3T)
  · simp only [List.foldlM_cons, List.foldlM_nil, Reg.groupStep, bind, Except.bind]
    have hm : Reg.memsOf (Reg.idxs g2T) [0, 1, 2] = ["1C", "1D", "1E"] := rfl
    rw [hm, mergeGroup2]
    simp only [optimizeModel2, pure, Except.pure]
    rfl
  · have hi : Reg.idxs g3T = ["1F"] := rfl
    rw [hi]
    simp only [List.foldlM_cons, List.foldlM_nil, bind, Except.bind, optimizeModel2', pure, Except.pure]

/-- every model already has a (non-generated) name -/
theorem exT_names : generateNames pT.names g3T = .ok g3T := by rfl

/-- **the run** -/
theorem exT_run : pipelineTwo cfgT pT cmpsT firstT moreT =
    .ok ⟨g2T, g3T, [("1F", ["1C", "1D", "1E"])], g3T⟩ := by
  unfold pipelineTwo
  have h0 : buildGraph cfgT pT.gen firstT = .ok g0T := exT_build
  have h1 : mergeModels cfgT pT.gen.str cmpsT g0T = .ok (g1T, [("1C", ["1A", "1B"])]) := exT_merge1 _
  have h2 : buildGraphFrom cfgT pT.gen g1T moreT = .ok g2T := exT_more
  have h3 : mergeModels cfgT pT.gen.str cmpsT g2T = .ok (g3T, [("1F", ["1C", "1D", "1E"])]) := exT_merge2 _
  simp only [bind, Except.bind, h0, h1, h2, h3, exT_names, pure, Except.pure]

end J2M.TwoMerges.Ex
