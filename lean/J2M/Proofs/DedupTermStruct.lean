/-
  Termination of `_prepare_class_names` on the structures the tool builds:
  * the fuel of the pre-order walk (`preorder`) suffices when the structure has at most `fuel - 1` nodes;
  * converting all names (`convAll`): when it succeeds / fails;
  * `prepareNames` never fails in the loop;
  * the structure built by `compose_models` (`buildNodes`) lists no model twice (each model has at most one parent and
    top-level models have none), so it has at most `g.models.length` nodes.
-/
import J2M.Proofs.DedupTerm
import J2M.Proofs.NestedRefs
namespace J2M.DedupTerm
open J2M J2M.Rend2 J2M.PrepNames J2M.LayoutP J2M.NestedRefs

/-! ## 1. the pre-order walk -/

theorem postL_length_cons (idx : String) (nested rest : List Node) :
    (postL (.mk idx nested :: rest)).length = (postL nested).length + (postL rest).length + 1 := by
  rw [postL_cons]; simp only [List.length_append, List.length_cons, List.length_nil]; omega

/-- the walk succeeds when the fuel exceeds the number of nodes -/
theorem preorder_ok_of_fuel : ∀ (fuel : Nat) (nodes : List Node), (postL nodes).length < fuel →
    ∃ r, preorder fuel nodes = .ok r := by
  intro fuel
  induction fuel with
  | zero => intro nodes h; omega
  | succ fuel ih =>
    intro nodes h
    cases nodes with
    | nil => exact ⟨[], preorder_nil fuel⟩
    | cons n rest =>
      obtain ⟨idx, nested⟩ := n
      rw [postL_length_cons] at h
      obtain ⟨a, ha⟩ := ih nested (by omega)
      obtain ⟨b, hb⟩ := ih rest (by omega)
      exact ⟨idx :: a ++ b, preorder_cons_ok.mpr ⟨a, b, ha, hb, rfl⟩⟩

/-- the walk has no other way to fail than its fuel -/
theorem preorder_error : ∀ (fuel : Nat) (nodes : List Node) (e : PyErr), preorder fuel nodes = .error e →
    e = .outOfFuel := by
  intro fuel
  induction fuel with
  | zero => intro nodes e h; simp only [preorder] at h; injection h with h; exact h.symm
  | succ fuel ih =>
    intro nodes e h
    cases nodes with
    | nil => rw [preorder_nil] at h; cases h
    | cons n rest =>
      obtain ⟨idx, nested⟩ := n
      simp only [preorder] at h
      cases ha : preorder fuel nested with
      | error e1 =>
        rw [ha] at h
        simp only [bind, Except.bind] at h
        injection h with h; subst h
        exact ih _ _ ha
      | ok a =>
        cases hb : preorder fuel rest with
        | error e2 =>
          rw [ha, hb] at h
          simp only [bind, Except.bind] at h
          injection h with h; subst h
          exact ih _ _ hb
        | ok b =>
          rw [ha, hb] at h
          simp [bind, Except.bind, pure, Except.pure] at h

/-! ## 2. converting all names -/

/-- `convert_class_name` fails with a missing-oracle or an `IndexError`, never through fuel -/
theorem convertClassName_ne_outOfFuel (c : RenderCfg) (o : RenderOracles) (n : String) :
    convertClassName c o n ≠ .error .outOfFuel := by
  unfold convertClassName
  rw [NamesP.prepareLabel_eq]
  cases h1 : NamesP.labelHead o.label c.convertUnicode n with
  | error e =>
    simp only [bind, Except.bind]
    unfold NamesP.labelHead at h1
    intro h
    injection h with h
    subst h
    split at h1
    · cases h1
    · split at h1 <;> cases h1
  | ok s2 =>
    simp only [bind, Except.bind]
    unfold NamesP.labelTail
    split
    · simp
    · split
      · simp
      · simp only
        split
        · split <;> simp
        · simp

theorem convertNameAt_eq (c : RenderCfg) (o : RenderOracles) (N : NameMap) (i : String) :
    convertNameAt c o N i = (match lookup N i with
      | none => Except.error PyErr.typeError
      | some n => (convertClassName c o n).map (fun n' => NameMap.set N i (some n'))) := by
  unfold convertNameAt
  change (match lookup N i with
    | none => Except.error PyErr.typeError
    | some n => do pure (N.set i (some (← convertClassName c o n)))) = _
  cases lookup N i with
  | none => rfl
  | some n => cases convertClassName c o n <;> rfl

/-- creating a generator fails when the model has no name (`TypeError`) or when the conversion of its name fails -/
theorem convertNameAt_error_iff {c : RenderCfg} {o : RenderOracles} {N : NameMap} {i : String} {e : PyErr} :
    convertNameAt c o N i = .error e ↔
      (lookup N i = none ∧ e = .typeError) ∨ ∃ n, lookup N i = some n ∧ convertClassName c o n = .error e := by
  rw [convertNameAt_eq]
  cases hl : lookup N i with
  | none =>
    simp only [true_and, reduceCtorEq, false_and, exists_false, or_false]
    constructor
    · intro h; injection h with h; exact h.symm
    · intro h; rw [h]
  | some n =>
    simp only [reduceCtorEq, false_and, Option.some.injEq, exists_eq_left', false_or]
    cases convertClassName c o n <;> simp [Except.map]

theorem convertNameAt_ok_of {c : RenderCfg} {o : RenderOracles} {N : NameMap} {i n n' : String}
    (hl : lookup N i = some n) (hc : convertClassName c o n = .ok n') :
    convertNameAt c o N i = .ok (NameMap.set N i (some n')) := by
  rw [convertNameAt_eq, hl]; simp only [hc, Except.map]

theorem convertNameAt_ne_outOfFuel (c : RenderCfg) (o : RenderOracles) (N : NameMap) (i : String) :
    convertNameAt c o N i ≠ .error .outOfFuel := by
  intro h
  rcases convertNameAt_error_iff.mp h with ⟨_, h⟩ | ⟨n, _, h⟩
  · cases h
  · exact convertClassName_ne_outOfFuel c o n h

/-- all conversions succeed when no model is listed twice, every listed model has a name, and the conversion of that
    name succeeds -/
theorem convAll_ok_of {c : RenderCfg} {o : RenderOracles} : ∀ (is : List String) (N : NameMap), is.Nodup →
    (∀ i ∈ is, ∃ n n', lookup N i = some n ∧ convertClassName c o n = .ok n') → ∃ N', convAll c o N is = .ok N' := by
  intro is
  induction is with
  | nil => intro N _ _; exact ⟨N, rfl⟩
  | cons i is ih =>
    intro N hnd h
    simp only [List.nodup_cons] at hnd
    obtain ⟨n, n', hl, hc⟩ := h i (by simp)
    obtain ⟨N', hN'⟩ := ih (NameMap.set N i (some n')) hnd.2 (fun j hj => by
      have hji : j ≠ i := fun e => hnd.1 (e ▸ hj)
      rw [lookup_set_ne _ _ hji]
      exact h j (by simp [hj]))
    exact ⟨N', convAll_cons_ok.mpr ⟨_, convertNameAt_ok_of hl hc, hN'⟩⟩

/-- `convAll` fails exactly when one of the generator constructors fails, after the earlier ones succeeded -/
theorem convAll_error_iff {c : RenderCfg} {o : RenderOracles} {e : PyErr} : ∀ (is : List String) (N : NameMap),
    convAll c o N is = .error e ↔
      ∃ pre i post N1, is = pre ++ i :: post ∧ convAll c o N pre = .ok N1 ∧ convertNameAt c o N1 i = .error e := by
  intro is
  induction is with
  | nil =>
    intro N
    constructor
    · intro h; cases h
    · rintro ⟨pre, i, post, _, h, _⟩; simp at h
  | cons j is ih =>
    intro N
    have hcons : convAll c o N (j :: is) = (convertNameAt c o N j >>= fun N2 => convAll c o N2 is) := by
      simp only [convAll, List.foldlM_cons]
    rw [hcons]
    cases hj : convertNameAt c o N j with
    | error e1 =>
      simp only [bind, Except.bind]
      constructor
      · intro h; injection h with h; subst h
        exact ⟨[], j, is, _, rfl, rfl, hj⟩
      · rintro ⟨pre, i, post, N1, hs, hp, hi⟩
        cases pre with
        | nil =>
          simp only [List.nil_append, List.cons.injEq] at hs
          obtain ⟨rfl, _⟩ := hs
          cases hp
          rw [hj] at hi; exact hi
        | cons p pre =>
          simp only [List.cons_append, List.cons.injEq] at hs
          obtain ⟨rfl, _⟩ := hs
          obtain ⟨N2, h2, _⟩ := convAll_cons_ok.mp hp
          rw [hj] at h2; cases h2
    | ok N2 =>
      simp only [bind, Except.bind]
      rw [ih N2]
      constructor
      · rintro ⟨pre, i, post, N1, hs, hp, hi⟩
        exact ⟨j :: pre, i, post, N1, by rw [hs]; rfl, convAll_cons_ok.mpr ⟨N2, hj, hp⟩, hi⟩
      · rintro ⟨pre, i, post, N1, hs, hp, hi⟩
        cases pre with
        | nil =>
          simp only [List.nil_append, List.cons.injEq] at hs
          obtain ⟨rfl, _⟩ := hs
          cases hp
          rw [hj] at hi; cases hi
        | cons p pre =>
          simp only [List.cons_append, List.cons.injEq] at hs
          obtain ⟨rfl, rfl⟩ := hs
          obtain ⟨N2', h2, h3⟩ := convAll_cons_ok.mp hp
          rw [hj] at h2; cases h2
          exact ⟨pre, i, post, N1, rfl, h3, hi⟩

theorem convAll_ne_outOfFuel (c : RenderCfg) (o : RenderOracles) (N : NameMap) (is : List String) :
    convAll c o N is ≠ .error .outOfFuel := by
  intro h
  obtain ⟨_, i, _, N1, _, _, hi⟩ := (convAll_error_iff is N).mp h
  exact convertNameAt_ne_outOfFuel c o N1 i hi

/-- after all conversions succeeded, every listed model has an entry (indeed a name) -/
theorem convAll_hasKey {c : RenderCfg} {o : RenderOracles} : ∀ (is : List String) (N N' : NameMap),
    convAll c o N is = .ok N' → ∀ i ∈ is, HasKey N' i := by
  intro is
  induction is with
  | nil => intro _ _ _ i hi; cases hi
  | cons j is ih =>
    intro N N' h i hi
    obtain ⟨N2, h2, h3⟩ := convAll_cons_ok.mp h
    rcases List.mem_cons.mp hi with rfl | hi
    · obtain ⟨n, n', hl, _, _⟩ := convertNameAt_ok h2
      have : HasKey N i := hasKey_of_name hl
      rw [hasKey_congr (convAll_keys c o _ _ _ h)]
      exact this
    · exact ih _ _ h3 i hi

/-! ## 3. `_prepare_class_names` -/

/-- **the loop of `prepareNames` never runs out of fuel** -/
theorem prepareNames_loop_ok {c : RenderCfg} {o : RenderOracles} {N N1 : NameMap} {idxs : List String}
    (hnd : idxs.Nodup) (hs : ∀ i ∈ idxs, IdxShape i) (hc : convAll c o N idxs = .ok N1) :
    ∃ R, dedupLoop idxs (idxs.length * idxs.length + 1) N1 = .ok R :=
  dedupLoop_terminates_fuel hnd hs (convAll_hasKey _ _ _ hc) (Nat.lt_succ_self _)

theorem prepareNames_error_iff' {c : RenderCfg} {o : RenderOracles} {names : NameMap} {roots : List Node} {e : PyErr}
    (hshape : ∀ idxs, preorder (names.length + 2) roots = .ok idxs → idxs.Nodup ∧ ∀ i ∈ idxs, IdxShape i) :
    prepareNames c o names roots = .error e ↔
      preorder (names.length + 2) roots = .error e ∨
      ∃ idxs, preorder (names.length + 2) roots = .ok idxs ∧ convAll c o names idxs = .error e := by
  rw [prepareNames_eq]
  cases hp : preorder (names.length + 2) roots with
  | error e1 => simp [bind, Except.bind]
  | ok idxs =>
    obtain ⟨hnd, hs⟩ := hshape idxs hp
    simp only [bind, Except.bind, reduceCtorEq, Except.ok.injEq, exists_eq_left', false_or]
    cases hc : convAll c o names idxs with
    | error e2 => simp
    | ok N1 =>
      obtain ⟨R, hR⟩ := prepareNames_loop_ok hnd hs hc
      simp [hR]

/-! ## 4. the structure built by `compose_models` lists no model twice -/

theorem postL_append (a b : List Node) : postL (a ++ b) = postL a ++ postL b := by
  induction a with
  | nil => simp
  | cons n a ih =>
    obtain ⟨idx, nested⟩ := n
    simp only [List.cons_append, postL_cons, ih, List.append_assoc]

/-- the models of the built structure, level by level -/
def lev (s : NestState) (ks : List String) : Nat → List String
  | 0 => ks
  | f + 1 => ks ++ lev s (ks.flatMap s.children) f

theorem postL_build_succ (s : NestState) (f : Nat) : ∀ (ks : List String),
    (postL (ks.map (buildNodeE s (f + 1)))).Perm (ks ++ postL ((ks.flatMap s.children).map (buildNodeE s f))) := by
  intro ks
  induction ks with
  | nil => simp
  | cons k ks ih =>
    simp only [List.map_cons, List.flatMap_cons, List.map_append, postL_append]
    rw [show buildNodeE s (f + 1) k = .mk k ((s.children k).map (buildNodeE s f)) from rfl, postL_cons]
    apply List.perm_iff_count.mpr
    intro a
    have := ih.count_eq a
    simp only [List.count_append, List.count_cons, List.count_nil] at this ⊢
    omega

theorem postL_build_zero (s : NestState) (ks : List String) : postL (ks.map (buildNodeE s 0)) = ks := by
  induction ks with
  | nil => simp
  | cons k ks ih =>
    rw [List.map_cons, show buildNodeE s 0 k = .mk k [] from rfl, postL_cons, ih]; simp

theorem postL_build_lev (s : NestState) : ∀ (f : Nat) (ks : List String),
    (postL (ks.map (buildNodeE s f))).Perm (lev s ks f) := by
  intro f
  induction f with
  | zero => intro ks; rw [postL_build_zero]; exact List.Perm.refl _
  | succ f ih =>
    intro ks
    exact (postL_build_succ s f ks).trans ((ih _).append_left ks)

theorem lev_succ (s : NestState) : ∀ (f : Nat) (ks : List String),
    (lev s ks (f + 1)).Perm (ks ++ (lev s ks f).flatMap s.children) := by
  intro f
  induction f with
  | zero => intro ks; exact List.Perm.refl _
  | succ f ih =>
    intro ks
    have h1 : lev s ks (f + 2) = ks ++ lev s (ks.flatMap s.children) (f + 1) := rfl
    have h2 : (lev s ks (f + 1)).flatMap s.children =
        ks.flatMap s.children ++ (lev s (ks.flatMap s.children) f).flatMap s.children := by
      rw [show lev s ks (f + 1) = ks ++ lev s (ks.flatMap s.children) f from rfl, List.flatMap_append]
    rw [h1, h2]
    exact (ih (ks.flatMap s.children)).append_left ks

theorem pairwise_of_mem {α : Type} {R : α → α → Prop} (hsym : ∀ a b, R a b → R b a) {l : List α}
    (h : l.Pairwise R) {a b : α} (ha : a ∈ l) (hb : b ∈ l) (hab : a ≠ b) : R a b := by
  induction l with
  | nil => cases ha
  | cons x l ih =>
    rw [List.pairwise_cons] at h
    rcases List.mem_cons.mp ha with rfl | ha' <;> rcases List.mem_cons.mp hb with rfl | hb'
    · exact absurd rfl hab
    · exact h.1 _ hb'
    · exact hsym _ _ (h.1 _ ha')
    · exact ih h.2 ha' hb'

theorem children_cases (s : NestState) (k : String) :
    s.children k = [] ∨ ∃ p ∈ s.nested, p.1 = k ∧ s.children k = p.2 := by
  unfold NestState.children
  cases hf : s.nested.find? (·.1 == k) with
  | none => left; rfl
  | some p =>
    right
    exact ⟨p, List.mem_of_find?_eq_some hf, by simpa using List.find?_some hf, rfl⟩

/-- different models have disjoint, duplicate-free lists of nested models -/
theorem flatMap_children_nodup {s : NestState} (hc : (s.nested.flatMap (·.2)).Nodup) {A : List String}
    (hA : A.Nodup) : (A.flatMap s.children).Nodup := by
  unfold List.Nodup at hc ⊢
  rw [List.pairwise_flatMap] at hc ⊢
  obtain ⟨h1, h2⟩ := hc
  constructor
  · intro a _
    rcases children_cases s a with e | ⟨p, hp, _, e⟩
    · rw [e]; exact List.Pairwise.nil
    · rw [e]; exact h1 p hp
  · apply List.Pairwise.imp _ hA
    intro a b hab x hx y hy
    rcases children_cases s a with e | ⟨p, hp, hpa, e⟩
    · rw [e] at hx; cases hx
    · rcases children_cases s b with e' | ⟨q, hq, hqb, e'⟩
      · rw [e'] at hy; cases hy
      · rw [e] at hx; rw [e'] at hy
        have hpq : p ≠ q := fun h => hab (by rw [← hpa, ← hqb, h])
        exact pairwise_of_mem (R := fun a₁ a₂ => ∀ x ∈ a₁.2, ∀ y ∈ a₂.2, x ≠ y)
          (fun a b h x hx y hy e => h y hy x hx e.symm) h2 hp hq hpq x hx y hy

theorem mem_flatMap_children {s : NestState} {A : List String} {x : String} (h : x ∈ A.flatMap s.children) :
    x ∈ s.nested.flatMap (·.2) := by
  obtain ⟨a, _, hx⟩ := List.mem_flatMap.mp h
  rcases children_cases s a with e | ⟨p, hp, _, e⟩
  · rw [e] at hx; cases hx
  · rw [e] at hx; exact List.mem_flatMap.mpr ⟨p, hp, hx⟩

theorem lev_roots_nodup {s : NestState} (hp : (placed s).Nodup) : ∀ f, (lev s s.roots f).Nodup := by
  unfold placed at hp
  obtain ⟨hr, hc, hd⟩ := List.nodup_append.mp hp
  intro f
  induction f with
  | zero => exact hr
  | succ f ih =>
    rw [(lev_succ s f s.roots).nodup_iff, List.nodup_append]
    exact ⟨hr, flatMap_children_nodup hc ih, fun a ha b hb => hd a ha b (mem_flatMap_children hb)⟩

/-- **build_nodup**: when `compose_models` placed every model once, the structure it builds lists no model twice -/
theorem build_nodup {s : NestState} (hp : (placed s).Nodup) (f : Nat) :
    (postL (s.roots.map (buildNodeE s f))).Nodup :=
  (postL_build_lev s f s.roots).nodup_iff.mpr (lev_roots_nodup hp f)

/-- the nested structure of a registry with pairwise distinct indices -/
theorem composeNested_nodup {g : Graph} {roots : List Node} {inj : List (String × String)}
    (hd : (g.models.map (·.idx)).Nodup) (h : composeNested g = .ok (roots, inj)) :
    (postL roots).Nodup ∧ ∀ x ∈ postL roots, x ∈ g.models.map (·.idx) := by
  rw [composeNested_evaluable] at h
  unfold composeNestedE at h
  cases hs : composeNestedState g with
  | error e => rw [hs] at h; cases h
  | ok s =>
    rw [hs] at h
    simp only [Except.map, Except.ok.injEq, Prod.mk.injEq] at h
    obtain ⟨rfl, _⟩ := h
    obtain ⟨_, hperm⟩ := composeNested_placed hs
    exact ⟨build_nodup (hperm.nodup_iff.mpr hd) _, postL_build_registered hs _⟩

end J2M.DedupTerm
