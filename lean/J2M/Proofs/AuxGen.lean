/-
  Forces the generation of compiler-generated auxiliary declarations (functional induction principles and
  matcher congruence lemmas of model functions) in ONE module, so that proof files of different properties,
  which would otherwise each generate their own copy, can be imported together (`J2M.lean`).
-/
import J2M.Generator
namespace J2M

theorem auxgen_flattenUnion (ts : List Ty) : (flattenUnion ts).length = (flattenUnion ts).length := by
  fun_induction flattenUnion ts <;> rfl

end J2M
