/-
  C02 at the registry stage, part 6: `generate` → `process_meta_data` for every input (`buildGraph`) yields a
  STRICTLY tight registry; composed with `merge_models` a (laxly) tight one.
-/
import J2M.Proofs.C02RHelpersProcess
import J2M.Proofs.TightGenerate
namespace J2M.C02RH
open J2M J2M.C02T J2M.Reg

variable {acc : Accepts}

/-- the root pairs `(root model index, sample)` of a registry built from `inputs`, over the pairs `roots0`
    that were there before: every new pair carries a sample of some input, every input has a root model index
    paired with each of its samples -/
def RootsExt (inputs : List (String × List Json)) (roots0 roots : List (String × Json)) : Prop :=
  (∀ r ∈ roots0, r ∈ roots) ∧ (∀ r ∈ roots, r ∈ roots0 ∨ ∃ inp ∈ inputs, r.2 ∈ inp.2) ∧
  (∀ inp ∈ inputs, ∃ root, ∀ s ∈ inp.2, (root, s) ∈ roots)

/-- **`process_meta_data` keeps the registry strictly tight**: the models registered for the new field dict are
    witnessed by the sub-objects of `samples` routed to them from the new root; the old models keep their
    witnesses. -/
theorem processMetaData_tightG {g : Graph} {fields : Fields} {name : Option String} {samples : List Json}
    {roots : List (String × Json)} (wf : WF g) (ht : TightG (Routed g.look roots) acc g)
    (hw : Wit acc False False (.obj fields) samples) :
    TightG (Routed (processMetaData g fields name).1.look
      (roots ++ samples.map (fun s => ((processMetaData g fields name).2, s)))) acc
      (processMetaData g fields name).1 := by
  rw [processMetaData_look, processMetaData_snd]
  obtain ⟨new, newp, e, _⟩ := processTy_ext (.obj fields) g none wf.bound
  have hmono : ∀ i fs, g.look i = some fs → (processTy g none (.obj fields)).1.look i = some fs := by
    intro i fs h
    have hi : i ∈ idxs g := look_isSome_iff.1 (by rw [h]; rfl)
    rw [e.look_old hi, h]
  have hnew := (processTy_gwit (acc := acc) (.obj fields) g none False False samples
    (processTy g none (.obj fields)).1.look
    (Routed (processTy g none (.obj fields)).1.look (roots ++ samples.map (fun s => (indexOf g.counter, s))))
    wf.bound hw (fun _ _ _ => rfl) (by
      intro j o ⟨v, hv, hr⟩
      refine ⟨(indexOf g.counter, v), List.mem_append_right _ (List.mem_map.2 ⟨v, hv, rfl⟩), ?_⟩
      rw [processTy_obj] at hr
      exact hr)).2
  have key : TightG (Routed (processTy g none (.obj fields)).1.look
      (roots ++ samples.map (fun s => (indexOf g.counter, s)))) acc (processTy g none (.obj fields)).1 := by
    intro m hm
    rcases e.mem_models hm with h | h
    · obtain ⟨ws, h1, h2⟩ := ht m h
      exact ⟨ws, h1.mono (fun j o hjo => hjo.mono hmono (fun r hr => List.mem_append_left _ hr)) (fun _ h => h),
        fun o ho => (h2 o ho).mono hmono (fun r hr => List.mem_append_left _ hr)⟩
    · exact hnew m hm (e.new_fresh wf.bound h)
  rw [processMetaData_fst]
  cases name with
  | none => exact key
  | some n =>
    intro m hm
    obtain ⟨m0, hm0, rfl⟩ := List.mem_map.1 hm
    obtain ⟨ws, h1, h2⟩ := key m0 hm0
    refine ⟨ws, ?_, ?_⟩
    · split <;> exact h1
    · intro o ho
      split <;> exact h2 o ho

theorem buildGraph_fold_tight {cfg : GenCfg} {o : GenOracles} :
    ∀ (inputs : List (String × List Json)) (g0 g : Graph) (roots0 : List (String × Json)),
      (∀ inp ∈ inputs, inp.2 ≠ []) → WF g0 → TightG (Routed g0.look roots0) o.accepts g0 →
      inputs.foldlM (bgStep cfg o) g0 = .ok g →
      ∃ roots, RootsExt inputs roots0 roots ∧ TightG (Routed g.look roots) o.accepts g
  | [], g0, g, roots0, _, _, ht, h => by
    simp only [List.foldlM_nil, pure, Except.pure, Except.ok.injEq] at h
    subst h
    exact ⟨roots0, ⟨fun _ h => h, fun _ h => .inl h, by simp⟩, ht⟩
  | inp :: inputs, g0, g, roots0, hne, wf, ht, h => by
    rw [List.foldlM_cons] at h
    simp only [bind, Except.bind] at h
    split at h
    · simp at h
    · rename_i g1 hg1
      obtain ⟨fs, hgen, rfl⟩ := bgStep_ok hg1
      have hnp : ptrsOfFields fs = [] := by simpa [ptrsOf] using generate_noPtr hgen
      have wf1 : WF (processMetaData g0 fs (some inp.1)).1 := processMetaData_WF wf (by rw [hnp]; simp)
      have hw := Tight.generate_wit (hne inp (by simp)) hgen
      have ht1 := processMetaData_tightG (name := some inp.1) wf ht hw
      obtain ⟨roots, ⟨r1, r2, r3⟩, htg⟩ := buildGraph_fold_tight inputs _ g _
        (fun i hi => hne i (List.mem_cons_of_mem _ hi)) wf1 ht1 h
      refine ⟨roots, ⟨fun r hr => r1 r (List.mem_append_left _ hr), ?_, ?_⟩, htg⟩
      · intro r hr
        rcases r2 r hr with h | ⟨i, hi, hri⟩
        · rcases List.mem_append.1 h with h | h
          · exact .inl h
          · obtain ⟨s, hs, rfl⟩ := List.mem_map.1 h
            exact .inr ⟨inp, by simp, hs⟩
        · exact .inr ⟨i, List.mem_cons_of_mem _ hi, hri⟩
      · intro i hi
        rcases List.mem_cons.1 hi with rfl | hi
        · exact ⟨(processMetaData g0 fs (some i.1)).2, fun s hs =>
            r1 _ (List.mem_append_right _ (List.mem_map.2 ⟨s, hs, rfl⟩))⟩
        · exact r3 i hi

/-- **the registry the CLI builds is strictly tight** — for all inputs with at least one sample each, all
    options and oracles -/
theorem buildGraph_tightG {cfg : GenCfg} {o : GenOracles} {inputs : List (String × List Json)} {g : Graph}
    (hne : ∀ inp ∈ inputs, inp.2 ≠ []) (h : buildGraph cfg o inputs = .ok g) :
    ∃ roots, RootsExt inputs [] roots ∧ TightG (Routed g.look roots) o.accepts g := by
  rw [buildGraph_eq] at h
  exact buildGraph_fold_tight inputs {} g [] hne wf_empty (by intro m hm; simp at hm) h

end J2M.C02RH
