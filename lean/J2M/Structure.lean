/-
  Layout: `sort_fields`, `filter_pointers`, `extract_root`, `compose_models`, `compose_models_flat`
  (models/structure.py) with `ListEx.insert_before` and `PositionsDict.update_position` (models/utils.py).
-/
import J2M.Registry
namespace J2M

mutual
/-- `any(isinstance(node, ModelMeta) for node in meta.iter_child())`: the type mentions a model -/
def mentionsModel : Ty → Bool
  | .ptr _ => true
  | .list t | .dict t | .opt t => mentionsModel t
  | .union ts | .tuple ts => mentionsModelList ts
  | _ => false
def mentionsModelList : List Ty → Bool
  | [] => false
  | t :: ts => mentionsModel t || mentionsModelList ts
end

/-- `sort_fields(model_meta, unicode_fix)` → (required, optional) field names -/
def sortFields (fields : Fields) (unicodeFix : Bool) : List String × List String :=
  let opt := fields.filter (fun kv => kv.2.isOpt)
  let req2 := fields.filter (fun kv => !kv.2.isOpt && unicodeFix && mentionsModel kv.2)
  let req := fields.filter (fun kv => !kv.2.isOpt && !(unicodeFix && mentionsModel kv.2))
  ((req ++ req2).map (·.1), opt.map (·.1))

/-- `filter_pointers(model)`: pointers to the model that have a parent -/
def filterPointers (g : Graph) (i : String) : List PtrRec :=
  g.ptrs.filter (fun p => p.target == i && p.parent.isSome)

def allPointers (g : Graph) (i : String) : List PtrRec := g.ptrs.filter (fun p => p.target == i)

def insUniqStr (x : String) (xs : List String) : List String := if xs.contains x then xs else xs ++ [x]

/-- `extract_root(model)`; result as a sorted list (it is a set in Python) -/
def extractRoot (g : Graph) (i : String) : List String :=
  let rec go : Nat → List PtrRec → List String → List String → List String
    | 0, _, _, roots => roots
    | fuel + 1, nodes, seen, roots =>
      match nodes.reverse with
      | [] => roots
      | node :: restRev =>
        let nodes := restRev.reverse
        let seen := insUniqStr node.target seen
        let parent := node.parent.getD ""
        let filtered := filterPointers g parent
        let nodes := nodes ++ filtered.filter (fun p => !seen.contains p.target)
        let roots := if filtered.isEmpty then insUniqStr parent roots else roots
        go fuel nodes seen roots
  sortStrings (go ((g.ptrs.length + 1) * (g.ptrs.length + 1) + 1) (filterPointers g i) [] [])

/-- `list.insert(pos, x)` for `pos ≥ 0` (clamped to the length) -/
def listInsert {α} (xs : List α) (pos : Nat) (x : α) : List α := xs.take pos ++ x :: xs.drop pos

abbrev Positions := List (String × Int)

def Positions.get? (p : Positions) (k : String) : Option Int := (p.find? (·.1 == k)).map (·.2)

/-- `PositionsDict.update_position(key, value)` with an explicit integer value -/
def Positions.update (p : Positions) (key : String) (value : Int) : Positions :=
  match p.get? key with
  | some old =>
    let delta := value - old
    p.map (fun kv => if kv.1 == key then (key, value) else if kv.2 ≥ old then (kv.1, kv.2 + delta) else kv)
  | none =>
    p.map (fun kv => if kv.2 ≥ value then (kv.1, kv.2 + 1) else kv) ++ [(key, value)]

def parentsOf (ptrs : List PtrRec) : List String :=
  ptrs.foldl (fun acc p => match p.parent with | some q => insUniqStr q acc | none => acc) []

def maxInt : List Int → Option Int
  | [] => none
  | x :: xs => some (xs.foldl (fun a b => if b > a then b else a) x)

/-- `compose_models_flat(models_map)` → order of model indices -/
def composeFlat (g : Graph) : Except PyErr (List String) := do
  let step := fun (st : List String × Positions × List String) (m : Model) => do
    let (rootModels, positions, topLevel) := st
    let key := m.idx
    let pointers := filterPointers g key
    let hasRoot := pointers.length != (allPointers g key).length
    if pointers.isEmpty then
      if !hasRoot then throw PyErr.noPointers else
      let positions := if (positions.get? "root").isSome then positions else positions ++ [("root", 0)]
      let pos := (positions.get? "root").getD 0
      let rootModels := listInsert rootModels pos.toNat key
      let positions := positions.update "root" (pos + 1)
      pure (rootModels, positions, topLevel ++ [key])
    else
      let parents := parentsOf pointers
      let roots := extractRoot g key
      let (pos, positions) :=
        if hasRoot || (parents.length > 1 && roots.length ≥ 1) then
          let parents := if parents.any (fun p => topLevel.contains p) then insUniqStr "root" parents else parents
          let pps := parents.filterMap (fun p => positions.get? p)
          let joined := "#".intercalate (sortStrings parents)
          let pps := match positions.get? joined with | some v => v :: pps | none => pps
          let pos : Int := match maxInt pps with | some v => v | none => rootModels.length
          (pos, positions.update joined (pos + 1))
        else
          let parent := (sortStrings parents).headD ""
          let pos : Int := match positions.get? parent with | some v => v | none => rootModels.length
          (pos, positions.update parent (pos + 1))
      let positions := positions.update key (pos + 1)
      pure (listInsert rootModels pos.toNat key, positions, topLevel)
  let (rootModels, _, _) ← g.models.foldlM step ([], [], [])
  pure rootModels

/-- nested layout as a tree of model indices -/
inductive Node where
  | mk (idx : String) (nested : List Node)
  deriving Repr, Inhabited

structure NestState where
  roots : List String := []
  rootNestedIx : Nat := 0
  nested : List (String × List String) := []       -- parent ↦ children (the `nested` ListEx of each struct)
  pathInj : List (String × String) := []           -- child ↦ root model whose name prefixes references

def NestState.children (s : NestState) (k : String) : List String := ((s.nested.find? (·.1 == k)).map (·.2)).getD []
def NestState.setChildren (s : NestState) (k : String) (cs : List String) : NestState :=
  { s with nested := (k, cs) :: s.nested.filter (·.1 != k) }

def indexOfStr (xs : List String) (x : String) : Option Nat :=
  let rec go : List String → Nat → Option Nat
    | [], _ => none
    | y :: ys, i => if y == x then some i else go ys (i + 1)
  go xs 0

/-- `compose_models(models_map)` → (parent ↦ children tables, root order, path injections) -/
def composeNestedState (g : Graph) : Except PyErr NestState :=
  g.models.foldlM (fun (s : NestState) (m : Model) => do
    let key := m.idx
    let pointers := filterPointers g key
    let hasRoot := pointers.length != (allPointers g key).length
    if pointers.isEmpty then
      if !hasRoot then throw PyErr.noPointers else pure { s with roots := s.roots ++ [key] }
    else
      let parents := parentsOf pointers
      let roots := extractRoot g key
      if hasRoot || (parents.length > 1 && roots.length > 1) then
        -- `insert_before(struct, *roots)`: before the first of its root users already placed
        let ixs := roots.filterMap (indexOfStr s.roots)
        match ixs with
        | [] => pure { s with roots := listInsert s.roots s.rootNestedIx key, rootNestedIx := s.rootNestedIx + 1 }
        | i :: is => pure { s with roots := listInsert s.roots (is.foldl min i) key }
      else if parents.length > 1 && roots.length == 1 then
        let parent := roots.headD ""
        pure { (s.setChildren parent (key :: s.children parent)) with pathInj := (key, parent) :: s.pathInj.filter (·.1 != key) }
      else
        let parent := (sortStrings parents).headD ""
        pure (s.setChildren parent (s.children parent ++ [key]))) {}

mutual
def buildNode (s : NestState) : Nat → String → Node
  | 0, k => .mk k []
  | fuel + 1, k => .mk k (buildNodes s fuel (s.children k))
def buildNodes (s : NestState) : Nat → List String → List Node
  | _, [] => []
  | fuel, k :: ks => buildNode s fuel k :: buildNodes s fuel ks
end

def composeNested (g : Graph) : Except PyErr (List Node × List (String × String)) := do
  let s ← composeNestedState g
  pure (buildNodes s (g.models.length + 1) s.roots, s.pathInj)

end J2M
