/-
  Process-level state that outlives one call (C14, C15): the thread-local reference context of
  `AbsoluteModelRef.Context` (models_meta.py:170-188) and the footprint discipline of a pipeline run.
-/
import J2M.Json
namespace J2M.Runtime

abbrev ThreadId := Nat
/-- the injected mapping (child model ↦ path prefix); `none` = `context = None` -/
abbrev Ctx := Option (List (String × String))

/-- per-thread slot of `Context.data`: every thread reads the class-level default `None` until it assigns -/
structure CtxState where
  slots : List (ThreadId × Ctx) := []
  deriving Repr

def CtxState.get (s : CtxState) (t : ThreadId) : Ctx := ((s.slots.find? (·.1 == t)).map (·.2)).join
def CtxState.set (s : CtxState) (t : ThreadId) (c : Ctx) : CtxState :=
  { slots := (t, c) :: s.slots.filter (·.1 != t) }

/-- a rendering body: nested `with inject(...)` blocks, reads of the context, and possibly an exception -/
inductive Body where
  | read                                   -- `AbsoluteModelRef.to_typing_code` reads `Context.data.context`
  | raise                                  -- the body raises
  | seq (a b : Body)
  | inject (patches : List (String × String)) (body : Body)   -- `with AbsoluteModelRef.inject(patches): body`
  deriving Repr

/-- run a body in thread `t`: returns (state, completed normally?, contexts observed by the reads) -/
def exec (t : ThreadId) : Body → CtxState → CtxState × Bool × List Ctx
  | .read, s => (s, true, [s.get t])
  | .raise, s => (s, false, [])
  | .seq a b, s =>
    let (s1, ok1, r1) := exec t a s
    if ok1 then
      let (s2, ok2, r2) := exec t b s1
      (s2, ok2, r1 ++ r2)
    else (s1, false, r1)
  | .inject p body, s =>
    let old := s.get t                       -- `__enter__`: self._old = data.context; data.context = patches
    let (s1, ok, r) := exec t body (s.set t (some p))
    (s1.set t old, ok, r)                    -- `__exit__` runs on every path and restores the previous context

/-! ### the same context manager as a machine of primitive operations, for arbitrary interleavings of threads -/

/-- `enter`: `__enter__` of a fresh `inject(patches)` in thread `t`; `exit`: `__exit__` of the innermost manager the thread
    still holds; `read`: what the thread sees -/
inductive Op where
  | enter (t : ThreadId) (patches : List (String × String))
  | exit (t : ThreadId)
  | read (t : ThreadId)
  deriving Repr

structure OpState where
  ctx : CtxState := {}
  /-- per thread: the `_old` values of the managers it has entered and not yet left, innermost first -/
  olds : List (ThreadId × List Ctx) := []
  deriving Repr

def OpState.stack (s : OpState) (t : ThreadId) : List Ctx := ((s.olds.find? (·.1 == t)).map (·.2)).getD []
def OpState.setStack (s : OpState) (t : ThreadId) (st : List Ctx) : OpState :=
  { s with olds := (t, st) :: s.olds.filter (·.1 != t) }

def stepOp (s : OpState) : Op → OpState × Option Ctx
  | .enter t p => ({ (s.setStack t (s.ctx.get t :: s.stack t)) with ctx := s.ctx.set t (some p) }, none)
  | .exit t =>
    match s.stack t with
    | [] => (s, none)
    | old :: rest => ({ (s.setStack t rest) with ctx := s.ctx.set t old }, none)
  | .read t => (s, some (s.ctx.get t))

def runOps (ops : List Op) : OpState × List Ctx :=
  ops.foldl (fun (acc : OpState × List Ctx) op =>
    let (s', r) := stepOp acc.1 op
    (s', match r with | some c => acc.2 ++ [c] | none => acc.2)) ({}, [])

/-- a schedule interleaves atomic steps of independent pipelines, one pipeline per thread -/
structure Step where
  thread : ThreadId
  /-- effect on this thread's context slot only; the private heap of the run is not shared -/
  write : Option Ctx
  deriving Repr

def applyStep (s : CtxState) (st : Step) : CtxState :=
  match st.write with
  | some c => s.set st.thread c
  | none => s

def runSchedule (s : CtxState) (steps : List Step) : CtxState := steps.foldl applyStep s

end J2M.Runtime
