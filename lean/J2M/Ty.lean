/-
  The metadata IR (`MetaData` in json_to_models/dynamic_typing): classes, `Null`, `Unknown`,
  `StringLiteral`, `DList`, `DDict`, `DOptional`, `DUnion`, `DTuple`, raw field dicts, `ModelPtr`.
-/
import J2M.Json
namespace J2M

inductive Ty where
  | int | float | bool | str | null | unknown          -- classes int/float/bool/str, Null, Unknown
  | ser (k : String)                                    -- a StringSerializable class, by `__name__`
  | lit (overflow : Bool) (vals : List String)          -- StringLiteral; vals sorted, duplicate-free
  | list (t : Ty) | dict (t : Ty) | opt (t : Ty)        -- DList, DDict, DOptional
  | union (ts : List Ty) | tuple (ts : List Ty)         -- DUnion, DTuple
  | obj (fields : List (String × Ty))                   -- raw dict of fields (insertion order)
  | ptr (idx : String)                                  -- ModelPtr → ModelMeta with that index
  deriving Repr, Inhabited

abbrev Fields := List (String × Ty)

mutual
def Ty.beq : Ty → Ty → Bool
  | .int, .int | .float, .float | .bool, .bool | .str, .str | .null, .null | .unknown, .unknown => true
  | .ser a, .ser b => a == b
  | .lit o1 v1, .lit o2 v2 => o1 == o2 && v1 == v2
  | .list a, .list b | .dict a, .dict b | .opt a, .opt b => Ty.beq a b
  | .union a, .union b | .tuple a, .tuple b => Ty.beqList a b
  | .obj a, .obj b => Ty.beqFields a b
  | .ptr a, .ptr b => a == b
  | _, _ => false
def Ty.beqList : List Ty → List Ty → Bool
  | [], [] => true
  | a :: as, b :: bs => Ty.beq a b && Ty.beqList as bs
  | _, _ => false
def Ty.beqFields : List (String × Ty) → List (String × Ty) → Bool
  | [], [] => true
  | (k1, a) :: as, (k2, b) :: bs => k1 == k2 && Ty.beq a b && Ty.beqFields as bs
  | _, _ => false
end

instance : BEq Ty := ⟨Ty.beq⟩

mutual
def Ty.size : Ty → Nat
  | .list t | .dict t | .opt t => 1 + Ty.size t
  | .union ts | .tuple ts => 1 + Ty.sizeList ts
  | .obj fs => 1 + Ty.sizeFields fs
  | _ => 1
def Ty.sizeList : List Ty → Nat
  | [] => 0
  | t :: ts => Ty.size t + Ty.sizeList ts
def Ty.sizeFields : List (String × Ty) → Nat
  | [] => 0
  | (_, t) :: fs => Ty.size t + Ty.sizeFields fs
end

def Ty.isOpt : Ty → Bool | .opt _ => true | _ => false
def Ty.isUnion : Ty → Bool | .union _ => true | _ => false
def Ty.isLit : Ty → Bool | .lit _ _ => true | _ => false
def Ty.isObj : Ty → Bool | .obj _ => true | _ => false
def Ty.isNull : Ty → Bool | .null => true | _ => false
def Ty.isUnknown : Ty → Bool | .unknown => true | _ => false
def Ty.isInt : Ty → Bool | .int => true | _ => false
def Ty.isFloat : Ty → Bool | .float => true | _ => false
def Ty.isStr : Ty → Bool | .str => true | _ => false
def Ty.isList : Ty → Bool | .list _ => true | _ => false
def Ty.isDict : Ty → Bool | .dict _ => true | _ => false

/-- `field.types if isinstance(field, DUnion) else [field]` -/
def Ty.unionMembers : Ty → List Ty
  | .union ts => ts
  | t => [t]

/-- association-list helpers for Python dicts (insertion ordered) -/
def Fields.get? (fs : Fields) (k : String) : Option Ty := (fs.find? (·.1 == k)).map (·.2)
def Fields.has (fs : Fields) (k : String) : Bool := fs.any (·.1 == k)
/-- `d[k] = v`: in place when the key exists, appended otherwise -/
def Fields.set : Fields → String → Ty → Fields
  | [], k, v => [(k, v)]
  | (k', v') :: fs, k, v => if k' == k then (k, v) :: fs else (k', v') :: Fields.set fs k v
def Fields.keys (fs : Fields) : List String := fs.map (·.1)

end J2M
