/-
  `StringSerializableRegistry`: ordered list of kinds + `replaces` pairs; first-match detection; `resolve`;
  `remove` / `remove_by_name`.    dynamic_typing/string_serializable.py:57-126, generator.py:116-124
-/
import J2M.Ty
namespace J2M

structure StrRegistry where
  types : List String                     -- class names in registration order
  replaces : List (String × String)       -- (particular, general)
  actual : List (String × String)         -- class name ↦ actual_type.__name__
  deriving Repr

/-- `to_internal_value` does not raise `ValueError`: an oracle (finite table in the driver) -/
abbrev Accepts := String → String → Option Bool

/-- generator.py:116-124 — first registered kind whose parser accepts -/
def detectStr (reg : StrRegistry) (acc : Accepts) (s : String) : Except PyErr (Option String) :=
  let rec go : List String → Except PyErr (Option String)
    | [] => .ok none
    | k :: ks =>
      match acc k s with
      | none => .error (.oracleMiss ("accepts " ++ k))
      | some true => .ok (some k)
      | some false => go ks
  go reg.types

def dedupStr (xs : List String) : List String :=
  xs.foldl (fun acc x => if acc.contains x then acc else acc ++ [x]) []

/-- one round of `resolve`: the kinds replaced by another member -/
def replacedIn (reg : StrRegistry) (ts : List String) : List String :=
  ts.filter (fun t1 => ts.any (fun t2 => t1 != t2 && reg.replaces.contains (t1, t2)))

/-- `resolve(*types)` (set semantics; result in first-occurrence order). Fuel = rounds. -/
def resolve (reg : StrRegistry) (ts : List String) : Nat → Except PyErr (List String)
  | 0 => .error .outOfFuel
  | fuel + 1 =>
    let ts := dedupStr ts
    let rep := replacedIn reg ts
    if rep.isEmpty then .ok ts else resolve reg (ts.filter (fun t => !rep.contains t)) fuel

/-- `remove(cls)` -/
def StrRegistry.remove (reg : StrRegistry) (k : String) : StrRegistry :=
  { reg with types := reg.types.erase k,
             replaces := reg.replaces.filter (fun p => p.1 != k && p.2 != k) }

/-- `remove_by_name(name)` -/
def StrRegistry.removeByName (reg : StrRegistry) (name : String) : StrRegistry :=
  reg.types.foldl (fun r k =>
    if k == name || (reg.actual.find? (·.1 == k)).map (·.2) == some name then r.remove k else r) reg

end J2M
