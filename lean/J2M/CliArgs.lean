/-
  More of cli.py inside the model: `--code-generator-kwargs` item parsing (cli.py:239-246), `bool_js_style`,
  the pattern split of `process_path` (cli.py:473-499) on already split path components, and the `-m` tuple shapes.
-/
import J2M.Json
import J2M.Header
namespace J2M.CliArgs

/-- one `NAME=VALUE` item: optional surrounding double quotes are removed, then `split("=", 1)` -/
def parseKwargItem (item : String) : Except PyErr (String × String) :=
  match item.toList with
  | [] => .error .indexError                                   -- `item[0]` on the empty string
  | c :: rest =>
    let cs := if c = '"' then rest else c :: rest
    match cs.reverse with
    | [] => .error .indexError                                 -- `item[-1]` after stripping the only character
    | l :: revInit =>
      let cs := if l = '"' then revInit.reverse else cs
      match cs.span (· != '=') with
      | (_, []) => .error .valueError                          -- not enough values to unpack
      | (name, _ :: value) => .ok (String.ofList name, String.ofList value)

/-- `bool_js_style` (as repaired: booleans pass through; here only the string case) -/
def boolJsStyle (s : String) : Option Bool :=
  if s == "true" then some true else if s == "false" then some false else none

/-- kwargs dict after all items: later items overwrite earlier ones, keys keep their first position -/
def setKw : List (String × String) → String → String → List (String × String)
  | [], k, v => [(k, v)]
  | (k', v') :: rest, k, v => if k' == k then (k, v) :: rest else (k', v') :: setKw rest k v

def parseKwargs (items : List String) : Except PyErr (List (String × String)) :=
  items.foldlM (fun acc it => do
    let (k, v) ← parseKwargItem it
    pure (setKw acc k v)) []

/-- `process_path`: the leading components without `*` / `?` form the directory, the rest the glob pattern -/
def hasWild (part : String) : Bool := part.toList.any (fun c => c = '*' || c = '?')

def splitPattern (parts : List String) : List String × List String :=
  (parts.takeWhile (fun p => !hasWild p), parts.dropWhile (fun p => !hasWild p))

/-- shape of one `-m` argument list (`nargs="+"`): 2 → (name, "-", path); 3 → (name, lookup, path); else RuntimeError -/
def modelTuple (xs : List String) : Except PyErr (String × String × String) :=
  match xs with
  | [n, p] => .ok (n, "-", p)
  | [n, l, p] => .ok (n, l, p)
  | _ => .error .valueError

/-- the characters `str.isspace()` accepts, i.e. what `str.strip()` removes (compared with CPython's table over all code
    points on every run: op `spaces`) -/
def pyIsSpace (c : Char) : Bool :=
  let n := c.toNat
  (9 ≤ n && n ≤ 13) || (28 ≤ n && n ≤ 32) || n == 0x85 || n == 0xa0 || n == 0x1680 || (0x2000 ≤ n && n ≤ 0x200a) ||
  n == 0x2028 || n == 0x2029 || n == 0x202f || n == 0x205f || n == 0x3000

def pyStrip (s : List Char) : List Char := ((s.dropWhile pyIsSpace).reverse.dropWhile pyIsSpace).reverse

/-- what `Cli.set_args` (cli.py:236-254) stores for the options that are not merge policy / framework tables -/
structure SetArgs where
  dictKeysRegex : List String          -- pattern sources, one compiled pattern per expression
  dictKeysFields : List String
  preamble : Option String
  convertUnicode : Bool
  kwargs : List (String × String)
deriving Repr

def setArgs (kwItems dkr dkf : List String) (disableUnicode : Bool) (preamble : Option String) : Except PyErr SetArgs := do
  let kw ← parseKwargs kwItems
  pure { dictKeysRegex := dkr.map (fun r => "^" ++ r ++ "$"),
         dictKeysFields := dkf,
         preamble := (Header.cliPreamble pyStrip (preamble.map String.toList)).map String.ofList,
         convertUnicode := !disableUnicode,
         kwargs := kw }

end J2M.CliArgs
