/-
  Reader-side model for `repr(str)` texts (specification side, core Lean only): how CPython evaluates a
  single- or double-quoted, non-raw, non-triple string literal token. Same escape table as `lexGo` (Lex.lean);
  the only difference is that the closing quote is the opening one, and the other quote is an ordinary character.
-/
import J2M.Lex
namespace J2M

/--
  Body of a `q`-delimited literal (opening quote already consumed) up to and including the closing `q`.
  Result: code points of the value and the input after the closing quote; `none` = not a literal this model
  covers (see `lexGo`).
-/
def lexGoQ (q : Char) : LexSt → List Char → Option (List Nat × List Char)
  | _, [] => none
  | .normal, c :: cs =>
    if c = q then some ([], cs)
    else if c = '\\' then lexGoQ q .esc cs
    else if c = '\n' ∨ c = '\r' ∨ c.toNat = 0 then none
    else lexCons c.toNat (lexGoQ q .normal cs)
  | .esc, c :: cs =>
    if c = '"' then lexCons 34 (lexGoQ q .normal cs)
    else if c = '\\' then lexCons 92 (lexGoQ q .normal cs)
    else if c = '\'' then lexCons 39 (lexGoQ q .normal cs)
    else if c = 'n' then lexCons 10 (lexGoQ q .normal cs)
    else if c = 'r' then lexCons 13 (lexGoQ q .normal cs)
    else if c = 't' then lexCons 9 (lexGoQ q .normal cs)
    else if c = 'b' then lexCons 8 (lexGoQ q .normal cs)
    else if c = 'f' then lexCons 12 (lexGoQ q .normal cs)
    else if c = 'a' then lexCons 7 (lexGoQ q .normal cs)
    else if c = 'v' then lexCons 11 (lexGoQ q .normal cs)
    else if c = 'x' then lexGoQ q (.hex 1 0) cs
    else if c = 'u' then lexGoQ q (.hex 3 0) cs
    else if c = 'U' then lexGoQ q (.hex 7 0) cs
    else none
  | .hex more acc, c :: cs =>
    match hexVal c with
    | none => none
    | some d =>
      let v := acc * 16 + d
      match more with
      | 0 => if v ≤ 0x10FFFF then lexCons v (lexGoQ q .normal cs) else none
      | m + 1 => lexGoQ q (.hex m v) cs

/-- one `'...'` or `"..."` token at the front of the input: value and the rest of the input -/
def lexReprTok : List Char → Option (List Nat × List Char)
  | q :: cs => if q = '\'' ∨ q = '"' then lexGoQ q .normal cs else none
  | [] => none

/-- the full token (both quotes included, nothing after the closing quote) ↦ its value -/
def pyLexSingleOrDouble (tok : List Char) : Option (List Nat) :=
  match lexReprTok tok with
  | some (v, []) => some v
  | _ => none

end J2M
