/-
  `StringLiteral.__init__` (overflow rule) and `DUnion.__init__` (flatten, de-duplicate by hash string,
  fold string literals).   dynamic_typing/complex.py:149-204, 233-246
-/
import J2M.Hash
namespace J2M

structure LitCfg where
  maxLiterals : Nat
  maxStrLen : Nat
  deriving Repr

/-- `StringLiteral(literals)`; `vals` must be sorted and duplicate-free (a set) -/
def mkLit (c : LitCfg) (vals : List String) : Ty :=
  if vals.length > c.maxLiterals || vals.any (fun s => s.length ≥ c.maxStrLen)
  then .lit true [] else .lit false vals

mutual
/-- `DUnion._extract_nested_types` -/
def flattenUnion : List Ty → List Ty
  | [] => []
  | .union ts :: rest => flattenUnion ts ++ flattenUnion rest
  | t :: rest => t :: flattenUnion rest
end

structure UState where
  unique : List Ty        -- reversed
  hashes : List String
  useLit : Bool
  lits : List String      -- sorted, duplicate-free

/-- `handle_type` followed by `use_literals = handle_type(...) and use_literals` -/
def handleType (st : UState) (t : Ty) : UState :=
  let use1 := if t.isStr then false else st.useLit
  match t with
  | .lit ov vs =>
    if !use1 then { st with useLit := false }
    else if ov then { st with useLit := false }
    else { st with useLit := use1, lits := vs.foldl (fun acc x => insertUniq x acc) st.lits }
  | _ =>
    let h := hashStr t
    let st' := if st.hashes.contains h then st else { st with unique := t :: st.unique, hashes := h :: st.hashes }
    { st' with useLit := use1 && st.useLit }

/-- the member list of `DUnion(*ts)` -/
def mkUnionMembers (c : LitCfg) (ts : List Ty) : List Ty :=
  let st := (flattenUnion ts).foldl handleType ⟨[], [], true, []⟩
  let (st, useLit) :=
    if !st.lits.isEmpty && st.useLit then
      match mkLit c st.lits with
      | .lit true _ => (st, false)
      | l => ({ st with unique := l :: st.unique }, true)
    else (st, st.useLit)
  let st := if !useLit then
      (if st.hashes.contains (hashStr .str) then st else { st with unique := .str :: st.unique })
    else st
  st.unique.reverse

def mkUnion (c : LitCfg) (ts : List Ty) : Ty := .union (mkUnionMembers c ts)

end J2M
