/-
  The grouping part of `ModelRegistry.merge_models` (registry.py:143-171), on registry *positions* 0..n-1:
  pair scan over `combinations(models, 2)` → neighbour dict (insertion ordered) → initial groups →
  the `while flag` loop over an `OrderedSet` of frozensets.
  A group is a canonical (sorted, duplicate-free) list of positions — a value-compared set;
  object identity (`gr1 is gr2`) is position in the group list.
-/
import J2M.Json
namespace J2M.Closure

abbrev Grp := List Nat

def insNat (x : Nat) : List Nat → List Nat
  | [] => [x]
  | y :: ys => if x < y then x :: y :: ys else if x = y then y :: ys else y :: insNat x ys

/-- canonical form of a set of positions -/
def canon (xs : List Nat) : Grp := xs.foldl (fun acc x => insNat x acc) []

def gUnion (a b : Grp) : Grp := canon (a ++ b)
def gOverlap (a b : Grp) : Bool := a.any (fun x => b.contains x)

/-- `OrderedSet.add`: append unless present; returns whether the set grew -/
def osAdd (s : List Grp) (g : Grp) : List Grp × Bool :=
  if s.contains g then (s, false) else (s ++ [g], true)

/-- `combinations(range(n), 2)` in itertools order -/
def pairs (n : Nat) : List (Nat × Nat) :=
  (List.range n).flatMap (fun i => ((List.range n).filter (fun j => i < j)).map (fun j => (i, j)))

/-- `d[k].add(v)` on an insertion-ordered `defaultdict(set)` -/
def ddAdd : List (Nat × List Nat) → Nat → Nat → List (Nat × List Nat)
  | [], k, v => [(k, [v])]
  | (k', vs) :: rest, k, v => if k' = k then (k', if vs.contains v then vs else vs ++ [v]) :: rest
                              else (k', vs) :: ddAdd rest k v

/-- registry.py:143-147 -/
def neighbours (sim : Nat → Nat → Bool) (n : Nat) : List (Nat × List Nat) :=
  (pairs n).foldl (fun d (p : Nat × Nat) => if sim p.1 p.2 then ddAdd (ddAdd d p.1 p.2) p.2 p.1 else d) []

/-- registry.py:150 — `[{model, *models} for model, models in models2merge.items()]` -/
def initGroups (sim : Nat → Nat → Bool) (n : Nat) : List Grp :=
  (neighbours sim n).map (fun (kv : Nat × List Nat) => canon (kv.1 :: kv.2))

/-- inner `for gr2 in groups` for one `gr1` (at position `i`) -/
def inner (groups : List Grp) (i : Nat) (g1 : Grp) (st : List Grp × Bool) : List Grp × Bool × Bool :=
  groups.zipIdx.foldl (fun (acc : List Grp × Bool × Bool) (gj : Grp × Nat) =>
    if gj.2 = i then acc
    else if gOverlap g1 gj.1 then
      let r := osAdd acc.1 (gUnion g1 gj.1)
      (r.1, acc.2.1 || r.2, true)
    else acc) (st.1, st.2, false)

/-- one pass of the `while flag` body: returns `(new_groups, flag)` -/
def round (groups : List Grp) : List Grp × Bool :=
  groups.zipIdx.foldl (fun (st : List Grp × Bool) (gi : Grp × Nat) =>
    let r := inner groups gi.2 gi.1 st
    if r.2.2 then (r.1, r.2.1) else ((osAdd r.1 gi.1).1, r.2.1)) ([], false)

/-- the `while flag` loop; `none` = fuel exhausted -/
def loop : Nat → List Grp → Option (List Grp)
  | 0, _ => none
  | fuel + 1, groups =>
    let r := round groups
    if r.2 then loop fuel r.1 else some groups

/-- the groups `merge_models` merges, for a symmetric similarity table on `n` models -/
def mergeGroups (sim : Nat → Nat → Bool) (n : Nat) : Option (List Grp) :=
  loop (n + 2) (initGroups sim n)

end J2M.Closure
