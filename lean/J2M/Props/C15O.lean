/-
  C15O — C15 ("concurrent runs do not interfere") at the granularity of single context-manager operations

  Model: `J2M.Runtime.stepOp` / `runOps` — the thread-local reference context of `AbsoluteModelRef.Context`
  (models_meta.py:170-190) as a machine of primitive operations `enter t patches` (`__enter__`), `exit t`
  (`__exit__` of the innermost manager thread `t` still holds) and `read t`, executed in ANY interleaving of
  any number of threads.  An `OpState` is observed by a thread `t` only through `s.ctx.get t` (its slot of the
  `threading.local`) and `s.stack t` (the `_old` values of its own managers) — `view t s`.

  `runOps` returns the values read as one untagged list; `runTagged` (= `RuntimeOps.run {}`) is the same run with
  every read tagged by the reading thread (`run_tagged_is_runOps`), and `readsOf t ops` are the values tagged `t`.
-/
import J2M.Proofs.RuntimeOps
namespace J2M.C15O
open J2M J2M.Runtime J2M.RuntimeOps

/-! ## 0. vocabulary -/

/-- the run of the model with every read tagged by its thread -/
def runTagged (ops : List Op) : OpState × List (ThreadId × Ctx) := run {} ops

/-- forgetting the tags gives exactly the model's `runOps` (same final state, same reads in the same order) -/
theorem run_tagged_is_runOps (ops : List Op) :
    runOps ops = ((runTagged ops).1, (runTagged ops).2.map (·.2)) := runOps_eq ops

/-- the values read by thread `t` during `runOps ops`, in order -/
def readsOf (t : ThreadId) (ops : List Op) : List Ctx :=
  ((runTagged ops).2.filter (·.1 == t)).map (·.2)

/-- `runFrom σ` is `runOps` continued from a state `σ`; every `σ` reached by a prefix arises this way -/
theorem runOps_append (pre ops : List Op) :
    runOps (pre ++ ops)
      = ((runFrom (runOps pre).1 ops).1, (runOps pre).2 ++ (runFrom (runOps pre).1 ops).2) := by
  simp only [runOps_eq_runFrom]; exact runFrom_append {} pre ops

/-- the sub-list of ops executed by thread `t` -/
def own (t : ThreadId) (ops : List Op) : List Op := ops.filter (·.thread == t)

/-- three threads: 0 nests two blocks, 1 has one block, 2 only reads; arbitrarily interleaved -/
def demo₁ : List Op :=
  [.enter 0 [("A", "P")], .enter 1 [("B", "Q")], .read 0, .read 2, .enter 0 [("A", "P.I")], .read 1,
   .read 0, .exit 1, .exit 0, .read 1, .read 0, .exit 0, .read 0]
/-- another interleaving of the same three per-thread sequences -/
def demo₂ : List Op :=
  [.read 2, .enter 0 [("A", "P")], .read 0, .enter 0 [("A", "P.I")], .read 0, .exit 0, .read 0, .exit 0,
   .read 0, .enter 1 [("B", "Q")], .read 1, .exit 1, .read 1]

/-! ## 1. `ops_thread_local` -/

/--
  **C15O.1** For every op list (= every interleaving of every number of threads) and every thread `t`:
  the values `t` reads, and `t`'s final slot and stack, are those of running `t`'s own ops alone.
-/
theorem ops_thread_local (ops : List Op) (t : ThreadId) :
    readsOf t ops = (runOps (ops.filter (·.thread == t))).2 ∧
    (runOps ops).1.ctx.get t = (runOps (ops.filter (·.thread == t))).1.ctx.get t ∧
    (runOps ops).1.stack t = (runOps (ops.filter (·.thread == t))).1.stack t := by
  have h := run_thread_local t ops {} {} rfl
  rw [runOps_eq ops, runOps_eq (ops.filter _)]
  exact ⟨h.2, congrArg Prod.fst h.1, congrArg Prod.snd h.1⟩

/-- the same from arbitrary start states that agree on what `t` can see -/
theorem ops_thread_local_from (ops : List Op) (t : ThreadId) (σ σ' : OpState)
    (hctx : σ.ctx.get t = σ'.ctx.get t) (hstack : σ.stack t = σ'.stack t) :
    readsOfFrom t σ ops = (runFrom σ' (ops.filter (·.thread == t))).2 ∧
    (runFrom σ ops).1.ctx.get t = (runFrom σ' (ops.filter (·.thread == t))).1.ctx.get t ∧
    (runFrom σ ops).1.stack t = (runFrom σ' (ops.filter (·.thread == t))).1.stack t := by
  have h := run_thread_local t ops σ σ' (by simp [view, hctx, hstack])
  rw [runFrom_eq σ ops, runFrom_eq σ' (ops.filter _)]
  exact ⟨h.2, congrArg Prod.fst h.1, congrArg Prod.snd h.1⟩

/-- an op of another thread changes nothing `t` can see; an op of `t` acts on `t`'s view only (`stepLoc`) -/
theorem step_product (s : OpState) (op : Op) (t : ThreadId) :
    view t (stepOp s op).1 = (if op.thread = t then (stepLoc (view t s) op).1 else view t s) ∧
    (stepOp s op).2 = (stepLoc (view op.thread s) op).2 :=
  ⟨view_stepOp s op t, stepOp_snd s op⟩

example : readsOf 0 demo₁ = [some [("A", "P")], some [("A", "P.I")], some [("A", "P")], none] := by decide
example : (runOps (own 0 demo₁)).2 = [some [("A", "P")], some [("A", "P.I")], some [("A", "P")], none] := by
  decide
example : readsOf 1 demo₁ = [some [("B", "Q")], none] := by decide
example : readsOf 2 demo₁ = [none] := by decide
example : (runOps demo₁).2.length = 7 := by decide

/-! ## 2. `ops_interleaving_irrelevant` -/

/-- two op lists are interleavings of the same per-thread sequences -/
def SameProjections (a b : List Op) : Prop :=
  ∀ t, a.filter (·.thread == t) = b.filter (·.thread == t)

/--
  **C15O.2** Two interleavings of the same per-thread op sequences give every thread the same reads and the
  same final slot and stack.
-/
theorem ops_interleaving_irrelevant (ops₁ ops₂ : List Op) (h : SameProjections ops₁ ops₂) (t : ThreadId) :
    readsOf t ops₁ = readsOf t ops₂ ∧
    (runOps ops₁).1.ctx.get t = (runOps ops₂).1.ctx.get t ∧
    (runOps ops₁).1.stack t = (runOps ops₂).1.stack t := by
  obtain ⟨a1, a2, a3⟩ := ops_thread_local ops₁ t
  obtain ⟨b1, b2, b3⟩ := ops_thread_local ops₂ t
  rw [a1, a2, a3, b1, b2, b3, h t]
  exact ⟨rfl, rfl, rfl⟩

/-- ops of different threads commute (as seen by every thread) -/
theorem ops_commute (pre post : List Op) (x y : Op) (h : x.thread ≠ y.thread) (t : ThreadId) :
    readsOf t (pre ++ x :: y :: post) = readsOf t (pre ++ y :: x :: post) ∧
    (runOps (pre ++ x :: y :: post)).1.ctx.get t = (runOps (pre ++ y :: x :: post)).1.ctx.get t ∧
    (runOps (pre ++ x :: y :: post)).1.stack t = (runOps (pre ++ y :: x :: post)).1.stack t := by
  apply ops_interleaving_irrelevant
  intro t'
  by_cases hx : x.thread = t' <;> by_cases hy : y.thread = t' <;>
    simp_all

/-- non-vacuity: `demo₁` and `demo₂` differ but have the same projections on threads 0, 1, 2 -/
example : own 0 demo₁ = own 0 demo₂ ∧ own 1 demo₁ = own 1 demo₂ ∧ own 2 demo₁ = own 2 demo₂ ∧
    (own 0 demo₁).length = 8 ∧ (own 1 demo₁).length = 4 := by decide
example : readsOf 0 demo₂ = [some [("A", "P")], some [("A", "P.I")], some [("A", "P")], none] := by decide

/-! ## 3. `exec_refines_ops` -/

/-- `RaiseFree b`, `flatten t b`: see `J2M.RuntimeOps`
    (`inject p b ↦ enter t p :: flatten b ++ [exit t]`, `read ↦ [read t]`, `seq a b ↦ flatten a ++ flatten b`) -/
example : flatten 5 (.inject [("A", "B")] (.seq .read (.inject [] .read)))
    = [.enter 5 [("A", "B")], .read 5, .enter 5 [], .read 5, .exit 5, .exit 5] := rfl

/--
  **C15O.3a** For a raise-free body, running its compiled ops from any op-state whose context store is `s`
  (and whose stack for `t` is `st`) yields exactly the store that `exec` yields (as a value, not just up to
  `get`), the same stack for every thread, and the reads of `exec`.
-/
theorem exec_refines_ops (t : ThreadId) (b : Body) (hb : RaiseFree b) (σ : OpState) (s : CtxState)
    (st : List Ctx) (hs : σ.ctx = s) (hst : σ.stack t = st) :
    (runFrom σ (flatten t b)).1.ctx = (exec t b s).1 ∧
    (runFrom σ (flatten t b)).1.stack t = st ∧
    (∀ t', (runFrom σ (flatten t b)).1.stack t' = σ.stack t') ∧
    (runFrom σ (flatten t b)).2 = (exec t b s).2.2 ∧
    (exec t b s).2.1 = true := by
  subst hs hst
  obtain ⟨h1, h2, h3, h4⟩ := run_flattenWith t b σ
  rw [flattenWith_raiseFree t b hb] at h1 h2 h3 h4
  rw [runFrom_eq]
  refine ⟨h1, h2 t, h2, ?_, h4.symm⟩
  rw [h3, List.map_map]
  exact List.map_id _

/-- the interpreter's compilation of a body that may raise: at a `raise`, the `exit` of every enclosing `inject` is
    emitted and nothing after (`J2M.RuntimeOps.flattenExcAt` with nesting depth 0); second component: completed? -/
def flattenExc (t : ThreadId) (b : Body) : List Op × Bool := flattenExcAt t 0 b

example : flattenExc 7 (.inject [("C", "P")] (.seq .read (.inject [("C", "P.I")] (.seq .read (.seq .raise .read)))))
    = ([.enter 7 [("C", "P")], .read 7, .enter 7 [("C", "P.I")], .read 7, .exit 7, .exit 7], false) := rfl

/-- `flattenExc` coincides with the compositional compilation in which every `with` block emits its own `exit` on
    both paths -/
theorem flattenExc_eq_flattenWith (t : ThreadId) (b : Body) : flattenExc t b = flattenWith t b := by
  rw [flattenExc, flattenExcAt_eq]
  cases h : (flattenWith t b).2 <;> simp [← h]

/--
  **C15O.3b** For every body — raising or not — the compiled ops yield the store of `exec`, unchanged stacks,
  the reads of `exec`, and the completion flag of `exec`.
-/
theorem exec_refines_ops_exc (t : ThreadId) (b : Body) (σ : OpState) (s : CtxState)
    (st : List Ctx) (hs : σ.ctx = s) (hst : σ.stack t = st) :
    (runFrom σ (flattenExc t b).1).1.ctx = (exec t b s).1 ∧
    (runFrom σ (flattenExc t b).1).1.stack t = st ∧
    (∀ t', (runFrom σ (flattenExc t b).1).1.stack t' = σ.stack t') ∧
    (runFrom σ (flattenExc t b).1).2 = (exec t b s).2.2 ∧
    (flattenExc t b).2 = (exec t b s).2.1 := by
  subst hs hst
  obtain ⟨h1, h2, h3, h4⟩ := run_flattenWith t b σ
  rw [flattenExc_eq_flattenWith, runFrom_eq]
  refine ⟨h1, h2 t, h2, ?_, h4⟩
  rw [h3, List.map_map]
  exact List.map_id _

/-- on raise-free bodies the two compilations are the same -/
theorem flattenExc_raiseFree (t : ThreadId) (b : Body) (hb : RaiseFree b) :
    flattenExc t b = (flatten t b, true) := by
  rw [flattenExc_eq_flattenWith, flattenWith_raiseFree t b hb]

/-- in a fresh process (`runOps`), after any ops `pre` of any threads: a compiled body behaves as `exec` from the
    store reached by `pre` -/
theorem exec_refines_runOps (pre : List Op) (t : ThreadId) (b : Body) :
    (runOps (pre ++ (flattenExc t b).1)).1.ctx = (exec t b (runOps pre).1.ctx).1 ∧
    (∀ t', (runOps (pre ++ (flattenExc t b).1)).1.stack t' = (runOps pre).1.stack t') ∧
    (runOps (pre ++ (flattenExc t b).1)).2 = (runOps pre).2 ++ (exec t b (runOps pre).1.ctx).2.2 := by
  obtain ⟨h1, _, h3, h4, _⟩ := exec_refines_ops_exc t b (runOps pre).1 _ _ rfl rfl
  rw [runOps_append]
  exact ⟨h1, h3, by rw [h4]⟩

def demoBody : Body :=
  .inject [("Child", "Parent")]
    (.seq .read (.inject [("Child", "Parent.Inner")] (.seq .read (.seq .raise .read))))
def demoFree : Body :=
  .inject [("Child", "Parent")] (.seq .read (.seq (.inject [("Child", "Parent.Inner")] .read) .read))
def demoState : OpState :=
  (runOps [.enter 7 [("X", "Y")], .enter 3 [("U", "V")]]).1

example : RaiseFree demoFree := by decide
example : ¬ RaiseFree demoBody := by decide
example : demoState.ctx.get 7 = some [("X", "Y")] ∧ demoState.stack 7 = [none] := by decide
example : (runFrom demoState (flatten 7 demoFree)).2
    = [some [("Child", "Parent")], some [("Child", "Parent.Inner")], some [("Child", "Parent")]] := by decide
example : (flattenExc 7 demoBody).2 = false ∧ (flattenExc 7 demoBody).1.length = 6 := by decide
example : (runFrom demoState (flattenExc 7 demoBody).1).1.ctx.get 7 = some [("X", "Y")] := by decide

/-! ## 4. `ops_balanced_restores`, `fresh_thread_reads_none` -/

/-- thread `t`'s ops are balanced: counting `enter t` up and `exit t` down (an `exit` with no open block closes
    nothing), every `enter` has been matched by a later `exit` at the end.  Other threads' ops are not counted:
    `depth t ops = depth t (own t ops)` (`balanced_own`). -/
def Balanced (t : ThreadId) (ops : List Op) : Prop := depth t ops 0 = 0

instance (t : ThreadId) (ops : List Op) : Decidable (Balanced t ops) := inferInstanceAs (Decidable (_ = _))

theorem balanced_own (t : ThreadId) (ops : List Op) : Balanced t ops ↔ Balanced t (own t ops) := by
  simp [Balanced, own, depth_filter]

/-- in every reachable state the height of `t`'s stack is `t`'s nesting depth -/
theorem stack_height_is_depth (ops : List Op) (t : ThreadId) :
    ((runOps ops).1.stack t).length = depth t ops 0 := by
  rw [runOps_eq]; simpa using (run_invariants t ops {}).2

/--
  **C15O.4a** If thread `t`'s ops are balanced then — for every interleaving with any other threads' ops, balanced
  or not — after the run `t`'s slot is back at its initial value `none` and `t` holds no manager.
-/
theorem ops_balanced_restores (ops : List Op) (t : ThreadId) (h : Balanced t ops) :
    (runOps ops).1.ctx.get t = none ∧ (runOps ops).1.stack t = [] := by
  have hlen := stack_height_is_depth ops t
  rw [h] at hlen
  have hst : (runOps ops).1.stack t = [] := List.eq_nil_of_length_eq_zero hlen
  have hb := (run_invariants t ops {}).1
  rw [runOps_eq] at hst ⊢
  simp only at hst ⊢
  simp only [bottom, view, hst] at hb
  exact ⟨by simpa using hb, hst⟩

/-- general start state: if `t` holds no manager at the start and its ops are balanced, its slot is restored -/
theorem ops_balanced_restores_from (σ : OpState) (ops : List Op) (t : ThreadId)
    (h0 : σ.stack t = []) (h : Balanced t ops) :
    (runFrom σ ops).1.ctx.get t = σ.ctx.get t ∧ (runFrom σ ops).1.stack t = [] := by
  obtain ⟨hb, hlen⟩ := run_invariants t ops σ
  rw [h0, List.length_nil, h] at hlen
  have hst := List.eq_nil_of_length_eq_zero hlen
  rw [runFrom_eq]
  simp only at hst ⊢
  simp only [bottom, view, hst, h0] at hb
  exact ⟨by simpa using hb, hst⟩

/-- every compiled body — raising or not — is balanced for every thread, so C14.1 (`ctx_restored`) is an instance -/
theorem flattenExc_balanced (t t' : ThreadId) (b : Body) : Balanced t' (flattenExc t b).1 := by
  rw [flattenExc_eq_flattenWith]; exact depth_flattenWith t t' b 0

/--
  **C15O.4b** A thread that has performed no `enter` reads `none`, whatever the other threads did before or in
  between (generation works from any thread): after any `pre` without an `enter t`, a `read t` returns `none`,
  and more generally every value `t` reads during an op list without `enter t` is `none`.
-/
theorem fresh_thread_reads_none (pre : List Op) (t : ThreadId) (h : ∀ p, Op.enter t p ∉ pre) :
    (stepOp (runOps pre).1 (.read t)).2 = some none ∧
    (∀ post, ∃ r, readsOf t (pre ++ .read t :: post) = readsOf t pre ++ none :: r) ∧
    ∀ c ∈ readsOf t pre, c = none := by
  obtain ⟨hv, hr⟩ := run_no_enter t pre {} h rfl
  have hget : (run {} pre).1.ctx.get t = none := congrArg Prod.fst hv
  refine ⟨by rw [runOps_eq]; simp [stepOp, hget], ?_, fun c hc => by simpa using hr c hc⟩
  intro post
  refine ⟨((run (stepOp (run {} pre).1 (.read t)).1 post).2.filter (·.1 == t)).map (·.2), ?_⟩
  simp [readsOf, runTagged, run_append, run, stepOp, Op.thread, hget]

/-- non-vacuity: thread 0 is balanced in `demo₁` while thread 1 is cut off in the middle of its block -/
example : Balanced 0 demo₁ ∧ Balanced 1 demo₁ ∧ ¬ Balanced 1 (demo₁.take 7) ∧
    Balanced 0 (demo₁.take 7 ++ [.exit 0, .exit 0]) := by decide
example : (runOps (demo₁.take 7 ++ [.exit 0, .exit 0])).1.ctx.get 1 = some [("B", "Q")] := by decide
example : (runOps (demo₁.take 7 ++ [.exit 0, .exit 0])).1.ctx.get 0 = none := by decide
/-- thread 2 never enters; it reads `none` in the middle of the other threads' blocks -/
example : (∀ p, Op.enter 2 p ∉ demo₁.take 3) ∧ demo₁[3]? = some (.read 2) :=
  ⟨fun p => by simp [demo₁], by decide⟩

/-! ## 5. `shared_slot_breaks` — what the theorems exclude -/

/-- thread 0 and thread 1 each enter a block, then each reads -/
def clash : List Op := [.enter 0 [("A", "P0")], .enter 1 [("B", "P1")], .read 0, .read 1]

/--
  **C15O.5** In the variant `stepOpShared` where the context is ONE process-wide value (what replacing the
  `threading.local` by an ordinary object produces), thread 0 reads thread 1's patches: its reads in the
  interleaving differ from its reads when run alone.  The real machine gives `[("A", "P0")]` in both.
-/
theorem shared_slot_breaks :
    readsOfShared 0 clash = [some [("B", "P1")]] ∧
    readsOfShared 0 (clash.filter (·.thread == 0)) = [some [("A", "P0")]] ∧
    readsOf 0 clash = [some [("A", "P0")]] := by decide

/-- so `ops_thread_local` is false for the shared variant -/
theorem shared_not_thread_local :
    ¬ ∀ (ops : List Op) (t : ThreadId),
        readsOfShared t ops = readsOfShared t (ops.filter (·.thread == t)) := by
  intro h
  exact absurd (h clash 0) (by decide)

/-- and balanced blocks no longer restore: two overlapping (non-nested) blocks of two threads leak thread 0's patches
    into the process-wide value after both have exited -/
theorem shared_slot_leaks :
    (runShared {} [.enter 0 [("A", "P0")], .enter 1 [("B", "P1")], .exit 0, .exit 1]).1.ctx = some [("A", "P0")] ∧
    Balanced 0 [.enter 0 [("A", "P0")], .enter 1 [("B", "P1")], .exit 0, .exit 1] ∧
    Balanced 1 [.enter 0 [("A", "P0")], .enter 1 [("B", "P1")], .exit 0, .exit 1] := by decide

#print axioms run_tagged_is_runOps
#print axioms ops_thread_local
#print axioms ops_thread_local_from
#print axioms step_product
#print axioms ops_interleaving_irrelevant
#print axioms ops_commute
#print axioms exec_refines_ops
#print axioms flattenExc_eq_flattenWith
#print axioms exec_refines_ops_exc
#print axioms exec_refines_runOps
#print axioms stack_height_is_depth
#print axioms ops_balanced_restores
#print axioms ops_balanced_restores_from
#print axioms flattenExc_balanced
#print axioms fresh_thread_reads_none
#print axioms shared_slot_breaks
#print axioms shared_not_thread_local
#print axioms shared_slot_leaks

end J2M.C15O
