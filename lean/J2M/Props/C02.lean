/-
  C02 — "Inferred types are tight"   (DESIGN §8.2), per-function pieces.

  1. `merge_opt_iff`      — when a field of `merge_field_sets` is Optional (still FALSE as stated after the
                            repair of generator.py:155: negative witnesses B, C + `_partial`s; TRUE in the lax
                            form `merge_hasOpt_iff`, for arbitrary sets), and the key order of the merge
  2. `mkUnion_members_subset` — where the members of `DUnion(*ts)` come from
  3. `detect_unknown_only_empty` — `Unknown` only under an empty container, `DOptional` never, in `_detect_type`
  4. `optimize_no_new_atoms` — `optimize_type` invents no value atom (up to "string-like ⇒ str")
-/
import J2M.Proofs.Merge
import J2M.Proofs.MergeAtoms
import J2M.Proofs.MergeTight
namespace J2M.C02
open J2M

/-! ## 1. `merge_opt_iff` -/

/-- DESIGN §8.2-1 as stated: a merged field is optional iff it is optional in some member set or absent
    from some member set.  (`OptIn`/`AbsentIn` are defined in `J2M/Proofs/Merge.lean`.) -/
def merge_opt_iff_Statement : Prop :=
  ∀ (c : LitCfg) (e : EqEnv) (sets : List Fields) (fields : Fields),
    mergeFieldSets c e sets = .ok fields →
    ∀ k t, (k, t) ∈ fields → (t.isOpt = true ↔ OptIn sets k ∨ AbsentIn sets k)

def cEx : LitCfg := ⟨10, 50⟩
def eEx : EqEnv := ⟨StrOracle.default, fun i => "Model#" ++ i, fun _ => none, 5⟩

/-- comparison environment with one level of `==` (enough when the top-level classes differ; keeps `simp` cheap) -/
def eEx1 : EqEnv := ⟨StrOracle.default, fun i => "Model#" ++ i, fun _ => none, 1⟩

/-- **NEW behaviour** (repaired generator.py:155; this was "negative witness A": the merge used to be
    `{"a": int}` — the optional was dropped): `[{"a": int}, {"a": Optional[int]}]` merges to
    `{"a": Optional[int]}` … -/
example : mergeFieldSets cEx eEx [[("a", .int)], [("a", .opt .int)]] = .ok [("a", .opt .int)] := by rfl

/-- … and so does the other order. -/
example : mergeFieldSets cEx eEx [[("a", .opt .int)], [("a", .int)]] = .ok [("a", .opt .int)] := by rfl

/-- **Negative witness B** (still there after the repair): original `int`, incoming `Optional[str]` — the
    optional becomes a *member* of the union instead of wrapping it; the merged field is not `DOptional`.
    (`optimize_type` later repairs this one: `_optimize_union` moves the member's `Null` outwards.) -/
theorem witnessB :
    mergeFieldSets cEx eEx1 [[("a", .int)], [("a", .opt .str)]] = .ok [("a", .union [.opt .str, .int])] := by
  simp [mergeFieldSets, mergeFieldSets.go, mergeStep, mergeOne, Fields.get?, Fields.set, Fields.keys,
    Fields.has, Ty.isOpt, EqEnv.eq, eEx1, pyEq, bind, Except.bind, pure, Except.pure, Ty.unionMembers,
    mkUnionMembers, flattenUnion, handleType, hashStr, Ty.isStr]

/-- … while the other order wraps the union: whether the field is a `DOptional` depends on the order. -/
theorem witnessB_rev :
    mergeFieldSets cEx eEx1 [[("a", .opt .str)], [("a", .int)]] = .ok [("a", .opt (.union [.int, .str]))] := by
  simp [mergeFieldSets, mergeFieldSets.go, mergeStep, mergeOne, Fields.get?, Fields.set, Fields.keys,
    Fields.has, Ty.isOpt, EqEnv.eq, eEx1, pyEq, bind, Except.bind, pure, Except.pure, Ty.unionMembers,
    mkUnionMembers, flattenUnion, handleType, hashStr, Ty.isStr]

/-- **C02.1 is still false as stated** (direction "optional somewhere ⇒ optional in the merge"), by
    witness B; the lax form (`merge_hasOpt_iff`, "optional-like" instead of "optional") is true. -/
theorem merge_opt_iff_false : ¬ merge_opt_iff_Statement := by
  intro h
  have := (h cEx eEx1 _ _ witnessB "a" (.union [.opt .str, .int]) (by simp)).2
    (.inl ⟨[("a", .opt .str)], by simp, .opt .str, by simp, rfl⟩)
  simp [Ty.isOpt] at this

/-- **Negative witness C** for the other direction when a union *member* is optional (not produced by
    `detect`, but expressible): `DUnion(Optional[int])` vs `DUnion(Optional[int], Optional[int])`
    collapse to `Optional[int]` although no set has the key optional or absent. -/
theorem witnessC :
    mergeFieldSets cEx eEx [[("a", .union [.opt .int])], [("a", .union [.opt .int, .opt .int])]] =
      .ok [("a", .opt .int)] := by
  simp [mergeFieldSets, mergeFieldSets.go, mergeStep, mergeOne, Fields.get?, Fields.set, Fields.keys,
    Fields.has, Ty.isOpt, EqEnv.eq, eEx, pyEq, sortedMembers, sortByKey, insertByKey, bind, Except.bind,
    pure, Except.pure, Ty.unionMembers, mkUnionMembers, flattenUnion, handleType, hashStr, Ty.isStr]

/-- **C02.1, direction ⇐ for "absent"** — unconditional: a key missing from some set is optional. -/
theorem merge_opt_of_absent {c : LitCfg} {e : EqEnv} {sets : List Fields} {fields : Fields}
    (h : mergeFieldSets c e sets = .ok fields) {k : String} {t : Ty}
    (hm : (k, t) ∈ fields) (ha : AbsentIn sets k) : t.isOpt = true :=
  mergeFieldSets_opt_of_absent h hm ha

/-- **C02.1, direction ⇒** — when optionals occur only at the top of the incoming field types
    (`NoNestedOpt`, excludes witness C): an optional (even as a union member) in the merge has a cause. -/
theorem merge_opt_only_if {c : LitCfg} {e : EqEnv} {sets : List Fields} {fields : Fields}
    (h : mergeFieldSets c e sets = .ok fields) (hnn : NoNestedOpt sets) {k : String} {t : Ty}
    (hm : (k, t) ∈ fields) (ho : HasOptMember t) : OptIn sets k ∨ AbsentIn sets k :=
  mergeFieldSets_opt_only_if h hnn hm ho

/-- **C02.1 (full, in the lax form).**  For *arbitrary* field sets (`DOptional` fields and unions with
    `DOptional` members allowed — what `ModelRegistry._merge` passes): the merged type of `k` is
    *optional-like* (`HasOptMember`: a `DOptional` at its top or among its flattened union members — exactly
    what `optimize_type` turns into a `DOptional`) iff `k` has an optional-like type in some set or is absent
    from some set.  Direction ⇐ was false before the repair of generator.py:155 (old witness A). -/
theorem merge_hasOpt_iff {c : LitCfg} {e : EqEnv} {sets : List Fields} {fields : Fields}
    (h : mergeFieldSets c e sets = .ok fields) {k : String} {t : Ty} (hm : (k, t) ∈ fields) :
    HasOptMember t ↔ HasOptIn sets k ∨ AbsentIn sets k :=
  mergeFieldSets_hasOpt_iff h hm

/-- in particular: a key that is `DOptional` in some set is optional-like in the merge (no hypothesis) … -/
theorem merge_hasOpt_of_optIn {c : LitCfg} {e : EqEnv} {sets : List Fields} {fields : Fields}
    (h : mergeFieldSets c e sets = .ok fields) {k : String} {t : Ty} (hm : (k, t) ∈ fields)
    (ho : OptIn sets k) : HasOptMember t := by
  obtain ⟨fs, hfs, u, hu, huo⟩ := ho
  exact mergeFieldSets_hasOpt_of_in h hm ⟨fs, hfs, u, hu, hasOptMember_of_isOpt huo⟩

/-- … and a `DOptional` in the merge has a cause, without `NoNestedOpt` (the cause may be a union member) -/
theorem merge_opt_only_if_lax {c : LitCfg} {e : EqEnv} {sets : List Fields} {fields : Fields}
    (h : mergeFieldSets c e sets = .ok fields) {k : String} {t : Ty}
    (hm : (k, t) ∈ fields) (ho : t.isOpt = true) : HasOptIn sets k ∨ AbsentIn sets k :=
  mergeFieldSets_hasOpt_only_if h hm (hasOptMember_of_isOpt ho)

/-- non-vacuity on witness B: the merged `Union[Optional[str], int]` is optional-like, the cause is set 2 -/
example : HasOptMember (.union [.opt .str, .int]) ∧ HasOptIn [[("a", .int)], [("a", .opt .str)]] "a" :=
  ⟨⟨.opt .str, by simp [Ty.unionMembers, flattenUnion], rfl⟩,
   ⟨[("a", .opt .str)], by simp, .opt .str, by simp, hasOptMember_of_isOpt rfl⟩⟩

/-- **`merge_opt_iff_partial`** — the iff on opt-free sets (what `generate` and `_optimize_union` pass
    at the generator stage): optional ⇔ absent from some set.
    Excluded: incoming sets that already contain `DOptional` (witnesses B, C). -/
theorem merge_opt_iff_partial {c : LitCfg} {e : EqEnv} {sets : List Fields} {fields : Fields}
    (h : mergeFieldSets c e sets = .ok fields) (hf : OptFree sets) {k : String} {t : Ty}
    (hm : (k, t) ∈ fields) :
    (t.isOpt = true ↔ OptIn sets k ∨ AbsentIn sets k) ∧ (t.isOpt = true ↔ AbsentIn sets k) := by
  have := mergeFieldSets_opt_iff_of_optFree h hf hm
  refine ⟨?_, this⟩
  rw [this]
  constructor
  · exact .inr
  · rintro (h1 | h1)
    · exact absurd h1 (hf.not_optIn k)
    · exact h1

/-- the hypothesis holds for what `generate` merges: `_convert` output never contains `DOptional` -/
theorem generate_sets_optFree {cfg : GenCfg} {o : GenOracles} {samples : List Json} {sets : List Fields}
    (h : samples.mapM (convert cfg o) = .ok sets) : OptFree sets :=
  convert_optFree h

/-- non-vacuity of `merge_opt_iff_partial` -/
example : OptFree [[("a", .int), ("b", .str)], [("a", .float)]] := by
  intro fs hfs kv hkv
  simp at hfs
  rcases hfs with rfl | rfl <;> simp at hkv
  · rcases hkv with rfl | rfl <;> simp [HasOptMember, Ty.unionMembers, flattenUnion, Ty.isOpt]
  · subst hkv; simp [HasOptMember, Ty.unionMembers, flattenUnion, Ty.isOpt]
example : mergeFieldSets cEx eEx [[("a", .int), ("b", .str)], [("a", .float)]] =
    .ok [("a", .union [.float, .int]), ("b", .opt .str)] := by
  simp [mergeFieldSets, mergeFieldSets.go, mergeStep, mergeOne, Fields.get?, Fields.set, Fields.keys,
    Fields.has, Ty.isOpt, EqEnv.eq, eEx, pyEq, bind, Except.bind, pure, Except.pure, Ty.unionMembers,
    mkUnionMembers, flattenUnion, handleType, hashStr, Ty.isStr]

/-- **key part of C02.1**: the keys of the merge are the keys of all sets in first-occurrence order,
    without duplicates (no hypothesis on the sets). -/
theorem merge_keys {c : LitCfg} {e : EqEnv} {sets : List Fields} {fields : Fields}
    (h : mergeFieldSets c e sets = .ok fields) :
    fields.keys = dedupStr (sets.flatMap Fields.keys) ∧ fields.keys.Nodup ∧
    ∀ k, k ∈ fields.keys ↔ ∃ fs ∈ sets, k ∈ fs.keys := by
  have hk := mergeFieldSets_keys h
  refine ⟨hk, hk ▸ nodup_dedupStr _, fun k => ?_⟩
  rw [hk, mem_dedupStr, List.mem_flatMap]

/-- `optimize_type` keeps a `DOptional` at the top -/
theorem optimize_opt_isOpt {cfg : GenCfg} {e : EqEnv} {fuel : Nat} {x t : Ty}
    (h : optimize cfg e fuel (.opt x) = .ok t) : t.isOpt = true := by
  cases fuel with
  | zero => simp [optimize] at h
  | succ n =>
    rw [optimize, Except.bind_ok_iff] at h
    obtain ⟨y, _, h⟩ := h
    split at h <;> (rw [Except.pure_ok_iff] at h; subst h; rfl)

/-- **C02.1 at the level of `generate`** (direction ⇐): a key missing from some sample object is an
    `Optional` field of the root model — the `DOptional` of the merge survives `optimize_type`. -/
theorem generate_opt_of_absent {cfg : GenCfg} {o : GenOracles} {samples : List Json} {fs : Fields}
    (h : generate cfg o samples = .ok (.obj fs)) {k : String} {t : Ty} (hm : (k, t) ∈ fs)
    {kvs : List (String × Json)} (hv : Json.obj kvs ∈ samples) (hk : k ∉ kvs.map (·.1)) :
    t.isOpt = true := by
  unfold generate at h
  rw [Except.bind_ok_iff] at h
  obtain ⟨sets, h1, h⟩ := h
  rw [Except.bind_ok_iff] at h
  obtain ⟨fields, h2, h⟩ := h
  obtain ⟨n, fs', _, ht, _, hr⟩ := optimize_obj h
  cases ht
  obtain ⟨⟨k0, t0⟩, hm0, hk0, ho⟩ := forall₂_mem_right hr hm
  simp only at hk0 ho
  subst hk0
  have habs : AbsentIn sets k := by
    obtain ⟨s, hs, hc⟩ := mapM_ok_mem_left h1 hv
    refine ⟨s, hs, ?_⟩
    rw [convert] at hc
    rw [convertFields_keys hc]; exact hk
  have hopt := mergeFieldSets_opt_of_absent h2 hm0 habs
  cases t0 <;> simp [Ty.isOpt] at hopt
  exact optimize_opt_isOpt ho

/-- **C02.1 at the level of `generate`** (direction ⇒, tightness): a root field is `Optional` only if
    its key is missing from some sample or `null` in some sample.  For all samples, options, oracles;
    no hash-injectivity assumption. -/
theorem generate_opt_only_if {cfg : GenCfg} {o : GenOracles} {samples : List Json} {fs : Fields}
    (h : generate cfg o samples = .ok (.obj fs)) {k : String} {t : Ty} (hm : (k, t) ∈ fs)
    (hopt : t.isOpt = true) :
    (∃ kvs, Json.obj kvs ∈ samples ∧ k ∉ kvs.map (·.1)) ∨
    (∃ kvs, Json.obj kvs ∈ samples ∧ (k, Json.null) ∈ kvs) :=
  generate_opt_only_if_aux h hm hopt

/-- non-vacuity of `generate_opt_of_absent` / `generate_opt_only_if`: `[{"a": 1}, {}]` -/
example : generate { lit := cEx, reg := ⟨[], [], []⟩, dictFields := [], dictRegex := [] }
    ⟨fun _ _ => some false, fun _ _ => some false, StrOracle.default⟩
    [.obj [("a", .int 1)], .obj []] = .ok (.obj [("a", .opt .int)]) := by
  simp [generate, convert, convertFields, detect, mergeFieldSets, mergeFieldSets.go, mergeStep, mergeOne,
    Fields.get?, Fields.set, Fields.keys, Fields.has, Ty.isOpt, Ty.fuelFor, optimize, bind, Except.bind,
    pure, Except.pure, cEx]

/-- **member provenance for `merge_field_sets`** (opt-free sets): a non-literal, non-`str` union member
    of the merged type of `k` (looking through a top-level `DOptional`) is a union member of the type
    of `k` in some set — nothing but literals folding and `str` widening is invented. -/
theorem merge_member_provenance {c : LitCfg} {e : EqEnv} {sets : List Fields} {fields : Fields}
    (h : mergeFieldSets c e sets = .ok fields) (hno : SetsNoOpt sets) {k : String} {t m : Ty}
    (hm : (k, t) ∈ fields) (hmem : MemIn m t) (hl : m.isLit = false) (hs : m ≠ .str) :
    ∃ fs ∈ sets, ∃ u, (k, u) ∈ fs ∧ m ∈ flattenUnion u.unionMembers :=
  mergeFieldSets_member_provenance h hno hm hmem hl hs

/-! ## 2. `mkUnion_members_subset` -/

/-- **C02.2** every member of `DUnion(*ts)` is a non-literal flattened member of `ts`; or the folded
    literal, whose (non-empty) value set is exactly the union of the literal members' value sets (then there is no
    `str` / overflowed member and the fold is within the limits); or `str`, when a member is `str`, a
    member is an overflowed literal, or the fold overflows. -/
theorem mkUnion_members_subset (c : LitCfg) (ts : List Ty) :
    ∀ u ∈ mkUnionMembers c ts,
      (u ∈ flattenUnion ts ∧ u.isLit = false) ∨
      (∃ vs, u = .lit false vs ∧ vs ≠ [] ∧ LitFold (flattenUnion ts) vs ∧ NoStrNoOv (flattenUnion ts) ∧
          litOverflows c vs = false) ∨
      (u = .str ∧ StrCause c (flattenUnion ts)) :=
  J2M.mkUnion_members_subset c ts

/-- the converse ("nothing is lost"), up to equality of hash strings -/
theorem mkUnion_members_cover (c : LitCfg) (ts : List Ty) :
    ∀ t ∈ flattenUnion ts,
      (t.isLit = false → ∃ u ∈ mkUnionMembers c ts,
          u ∈ flattenUnion ts ∧ u.isLit = false ∧ hashStr u = hashStr t) ∧
      (∀ ov vs, t = .lit ov vs → ∀ s ∈ vs,
          (∃ ws, .lit false ws ∈ mkUnionMembers c ts ∧ s ∈ ws) ∨
          (∃ u ∈ mkUnionMembers c ts, (u = .str ∨ u ∈ flattenUnion ts) ∧ hashStr u = hashStr .str)) :=
  J2M.mkUnion_members_cover c ts

example : mkUnionMembers cEx [.lit false ["a"], .int, .union [.lit false ["b"], .int]] =
    [.int, .lit false ["a", "b"]] := by
  have h1 : "a".length = 1 := by decide
  have h2 : "b".length = 1 := by decide
  simp [mkUnionMembers, flattenUnion, handleType, hashStr, Ty.isStr, insertUniq, mkLit, cEx, h1, h2]

/-! ## 3. `detect_unknown_only_empty` -/

/-- **C02.3** in the output of `_detect_type`: `Unknown` occurs only as the direct argument of
    `DList`/`DDict`; `DOptional` occurs nowhere; and a top-level `DList(Unknown)` / `DDict(Unknown)` is
    produced exactly for the empty list / empty object. -/
theorem detect_unknown_only_empty {cfg : GenCfg} {o : GenOracles} {cd : Bool} {v : Json} {t : Ty}
    (h : detect cfg o cd v = .ok t) :
    t.unknownOnlyUnderContainer = true ∧ t.noOpt = true ∧
    (∀ x, t = .list x → (x.isUnknown = true ↔ v = .arr [])) ∧
    (∀ x, t = .dict x → (x.isUnknown = true ↔ v = .obj [])) := by
  refine ⟨(detect_raw cfg o cd v t h).1, (detect_raw cfg o cd v t h).2, ?_, ?_⟩
  · rintro x rfl; exact detect_list_unknown_iff h
  · rintro x rfl; exact detect_dict_unknown_iff h

/-- the same for every field of `_convert` -/
theorem convert_unknown_only_empty {cfg : GenCfg} {o : GenOracles} {kvs : List (String × Json)} {fs : Fields}
    (h : convertFields cfg o kvs = .ok fs) :
    ∀ kv ∈ fs, kv.2.unknownOnlyUnderContainer = true ∧ kv.2.noOpt = true :=
  fun kv hkv => convertFields_raw h kv hkv

/-! ## 4. `optimize_no_new_atoms` -/

/--
  **C02.4** every value atom (`int`, `float`, `bool`, `str`, a pseudo-type, "a literal type", a literal
  value, a model pointer — see `J2M.Atom`) of `optimize_type t` is an atom of `t`, or it is `str` and
  `t` has a string-like atom (`str`, a pseudo-type or a literal).  For all fuel, options and registries.

  Not covered (by design of `Atom`): `Null`/`DOptional`/`Unknown`. `optimize_type` legitimately turns a
  `Null` member into `DOptional` and merging objects creates `DOptional` for absent keys (item 1), and
  `_optimize_union` produces `Unknown` when every remaining member is `Null` (generator.py:267 on an
  empty list).
-/
theorem optimize_no_new_atoms {cfg : GenCfg} {e : EqEnv} {fuel : Nat} {t t' : Ty}
    (h : optimize cfg e fuel t = .ok t') :
    ∀ a ∈ t'.atoms, a ∈ t.atoms ∨ (a = .str ∧ ∃ b ∈ t.atoms, b.strLike) :=
  (optimize_atoms (widen_closed t) cfg e fuel).1 t t' h (fun _ ha => .inl ha)

/-- in particular no number/bool/pseudo-type/literal value/pointer appears from nowhere -/
theorem optimize_no_new_atoms' {cfg : GenCfg} {e : EqEnv} {fuel : Nat} {t t' : Ty}
    (h : optimize cfg e fuel t = .ok t') {a : Atom} (ha : a ∈ t'.atoms) (hns : a ≠ .str) : a ∈ t.atoms := by
  rcases optimize_no_new_atoms h a ha with h1 | ⟨h1, _⟩
  · exact h1
  · exact absurd h1 hns

/-- the same for `merge_field_sets` -/
theorem merge_no_new_atoms {c : LitCfg} {e : EqEnv} {sets : List Fields} {fields : Fields}
    (h : mergeFieldSets c e sets = .ok fields) :
    ∀ kv ∈ fields, ∀ a ∈ kv.2.atoms,
      (∃ fs ∈ sets, ∃ kv' ∈ fs, a ∈ kv'.2.atoms) ∨
      (a = .str ∧ ∃ fs ∈ sets, ∃ kv' ∈ fs, ∃ b ∈ kv'.2.atoms, b.strLike) := by
  have hP : AClosed (fun a => (∃ fs ∈ sets, ∃ kv' ∈ fs, a ∈ kv'.2.atoms) ∨
      (a = .str ∧ ∃ fs ∈ sets, ∃ kv' ∈ fs, ∃ b ∈ kv'.2.atoms, b.strLike)) := by
    intro b hb hs
    rcases hb with ⟨fs, hfs, kv', hkv', hb⟩ | ⟨_, h2⟩
    · exact .inr ⟨rfl, fs, hfs, kv', hkv', b, hb, hs⟩
    · exact .inr ⟨rfl, h2⟩
  exact mergeFieldSets_atoms hP h (fun m hm kv hkv a ha => .inl ⟨m, hm, kv, hkv, ha⟩)

def cfgEx : GenCfg := { lit := cEx, reg := ⟨[], [], []⟩, dictFields := [], dictRegex := [] }

example : optimize cfgEx eEx 10 (.union [.lit true [], .int, .float]) = .ok (.union [.str, .float]) := by
  simp [optimize, optimizeUnion, splitMembers, splitMembersAux, removeFirst, Ty.isInt, Ty.isFloat, Ty.isStr, Ty.isUnknown,
    Ty.isNull, bind, Except.bind, pure, Except.pure, mkUnionMembers, flattenUnion, handleType, hashStr]

end J2M.C02
